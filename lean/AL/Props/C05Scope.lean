import AL.Model.RuleExpr
import AL.Props.C05Expr
import AL.Lemmas.Visit
import AL.Lemmas.VisitMatrix
import AL.Lemmas.VisitEvents
import AL.Lemmas.TyWf
import AL.Lemmas.SemaScope
import AL.Props.C05
/-
  C05 on AL.RuleExpr (all of rule_expression.go over the real AST): WHAT IS IN SCOPE. The checker side ("a property of a
  strict object is reported iff it is not among its props; a loose object is silent") is AL.Props.C05; how `steps` evolves
  while the steps are visited is AL.Props.C05Expr. Here: the objects the rule builds for `needs`, `steps`, `matrix`,
  `inputs`, `secrets`, `jobs`, for every workflow AST, that these are the objects the checker is handed (`mkEnv`), and
  (§6) the property itself — "reported as undefined iff not in scope" — for each context.

    §1 needs     needs_exact, needs_keys, needs_not_transitive, needs_outputs_exact, needs_outputs_call
    §2 visitJob  visitJob_eq, jobCx1_scope, jobCx_scope, jobCxS_scope, job_step_scope, jobCxPost_scope,
                 stepsAfter_keys / _entry / _strict / _loose; rule_eq, ruleCx_scope (§4)
    §3 matrix    matrix_rows_only, matrix_literal, matrix_include_keys_present, matrix_include_entry_expr_opens,
                 matrix_include_expr, matrix_expr_open, matrix_expr_strict, rowTy_expr, includeCombo_expr_failed
    §4 header    visitEvents_hdr, header_plain / _call / _dispatch; scope_st, scope_secrets, scope_inputs, scope_jobs;
                 secretsTy_exact, inputs_exact, inputs_keys
    §5 jobs      jobs_exact, jobEntry_exact, jobEntry_call, rule_outputs_eq
    §6           needs_ / steps_ / steps_reported_post_ / matrix_ / inputs_ / secrets_reported_iff, secrets_silent

  Where the model (hence rule_expression.go) departs from the LETTER of the property — all proved below:
    * "given by an expression ⇒ not reported" holds only when the expression's type is not statically a strict object:
      `matrix: ${{ fromJSON('{…}') }}`, `include: ${{ fromJSON('[{…}]') }}` and an include entry `${{ fromJSON('{…}') }}`
      give a STRICT matrix object (`matrix_expr_static_is_strict`, `matrix_expr_strict`, `matrix_include_expr`,
      `includeCombo_expr`); an include entry whose expression has a diagnostic is skipped (`includeCombo_expr_failed`);
    * a ROW given by an expression does not open `matrix`: the key stays a key, only its type is `any` (`rowTy_expr`);
    * `include: ${{ … }}` of unknown type gives the EMPTY loose object: the row keys are dropped (`matrix_include_expr`);
    * `jobs.<job>` has `outputs` only: `jobs.<job>.result` is reported as undefined (`jobEntry_exact`).
-/
namespace AL.C05S
open AL AL.Ast AL.Sema AL.RuleExpr
open AL.Visit (St Header mkEnv emptyStrict emptyLoose loosen erase mergeInclude lookup_setProp)

def propsOf : Ty → List (String × Ty)
  | .obj ps _ => ps
  | _ => []

def mappedOf : Ty → Option Ty
  | .obj _ m => m
  | _ => none

/-! ## 0. a decidable test for equality of types (for the concrete instances below) -/

mutual
def tyEq : Ty → Ty → Bool
  | .any, .any => true
  | .null, .null => true
  | .number, .number => true
  | .bool, .bool => true
  | .string, .string => true
  | .obj ps m, .obj qs m' => propsEq ps qs && optEq m m'
  | .arr e d, .arr e' d' => tyEq e e' && (d == d')
  | _, _ => false
def propsEq : List (String × Ty) → List (String × Ty) → Bool
  | [], [] => true
  | (k, v) :: ps, (k', v') :: qs => (k == k') && tyEq v v' && propsEq ps qs
  | _, _ => false
def optEq : Option Ty → Option Ty → Bool
  | none, none => true
  | some a, some b => tyEq a b
  | _, _ => false
end

mutual
theorem tyEq_sound : ∀ (a b : Ty), tyEq a b = true → a = b
  | .any, b, h => by cases b <;> simp [tyEq] at h ⊢
  | .null, b, h => by cases b <;> simp [tyEq] at h ⊢
  | .number, b, h => by cases b <;> simp [tyEq] at h ⊢
  | .bool, b, h => by cases b <;> simp [tyEq] at h ⊢
  | .string, b, h => by cases b <;> simp [tyEq] at h ⊢
  | .obj ps m, b, h => by
    cases b with
    | obj qs m' =>
      simp only [tyEq, Bool.and_eq_true] at h
      rw [propsEq_sound ps qs h.1, optEq_sound m m' h.2]
    | _ => simp [tyEq] at h
  | .arr e d, b, h => by
    cases b with
    | arr e' d' =>
      simp only [tyEq, Bool.and_eq_true, beq_iff_eq] at h
      rw [tyEq_sound e e' h.1, h.2]
    | _ => simp [tyEq] at h
theorem propsEq_sound : ∀ (ps qs : List (String × Ty)), propsEq ps qs = true → ps = qs
  | [], [], _ => rfl
  | [], _ :: _, h => by simp [propsEq] at h
  | _ :: _, [], h => by simp [propsEq] at h
  | (k, v) :: ps, (k', v') :: qs, h => by
    simp only [propsEq, Bool.and_eq_true, beq_iff_eq] at h
    rw [h.1.1, tyEq_sound v v' h.1.2, propsEq_sound ps qs h.2]
theorem optEq_sound : ∀ (m m' : Option Ty), optEq m m' = true → m = m'
  | none, none, _ => rfl
  | none, some _, h => by simp [optEq] at h
  | some _, none, h => by simp [optEq] at h
  | some a, some b, h => by
    simp only [optEq] at h
    rw [tyEq_sound a b h]
end

/-! ## 0b. evaluating the rule on a concrete string

`check` / `Ty.assignable` are compiled by well-founded recursion and do not reduce in the kernel: a string with one
placeholder is taken apart here (lexer, parser: by evaluation) down to `check Γ e` for an explicit `e`, which the unfolding
lemmas of AL.Lemmas.SemaMonoBasic evaluate. -/

private def p0 : AL.Yaml.Pos := ⟨1, 1⟩
private def str (v : String) : Str := ⟨v, false, p0⟩
def cxL : Cx := { lower := AL.PW.asciiLower }

mutual
def eEq : E → E → Bool
  | .null, .null => true
  | .bool, .bool => true
  | .num, .num => true
  | .str a, .str b => a == b
  | .var a, .var b => a == b
  | .call c as, .call d bs => (c == d) && esEq as bs
  | .objDeref r p, .objDeref r' p' => eEq r r' && (p == p')
  | .arrDeref r, .arrDeref r' => eEq r r'
  | .index a i, .index b j => eEq a b && eEq i j
  | .not a, .not b => eEq a b
  | .cmp o l r, .cmp o' l' r' => (o == o') && eEq l l' && eEq r r'
  | .logical o l r, .logical o' l' r' => (o == o') && eEq l l' && eEq r r'
  | _, _ => false
def esEq : List E → List E → Bool
  | [], [] => true
  | a :: as, b :: bs => eEq a b && esEq as bs
  | _, _ => false
end

mutual
theorem eEq_sound : ∀ (a b : E), eEq a b = true → a = b
  | .null, b, h => by cases b <;> simp [eEq] at h ⊢
  | .bool, b, h => by cases b <;> simp [eEq] at h ⊢
  | .num, b, h => by cases b <;> simp [eEq] at h ⊢
  | .str a, b, h => by cases b <;> simp [eEq] at h ⊢; exact h
  | .var a, b, h => by cases b <;> simp [eEq] at h ⊢; exact h
  | .call c as, b, h => by
    cases b with
    | call d bs =>
      simp only [eEq, Bool.and_eq_true, beq_iff_eq] at h
      rw [h.1, esEq_sound as bs h.2]
    | _ => simp [eEq] at h
  | .objDeref r p, b, h => by
    cases b with
    | objDeref r' p' =>
      simp only [eEq, Bool.and_eq_true, beq_iff_eq] at h
      rw [eEq_sound r r' h.1, h.2]
    | _ => simp [eEq] at h
  | .arrDeref r, b, h => by
    cases b with
    | arrDeref r' =>
      simp only [eEq] at h
      rw [eEq_sound r r' h]
    | _ => simp [eEq] at h
  | .index a i, b, h => by
    cases b with
    | index a' i' =>
      simp only [eEq, Bool.and_eq_true] at h
      rw [eEq_sound a a' h.1, eEq_sound i i' h.2]
    | _ => simp [eEq] at h
  | .not a, b, h => by
    cases b with
    | not a' =>
      simp only [eEq] at h
      rw [eEq_sound a a' h]
    | _ => simp [eEq] at h
  | .cmp o l r, b, h => by
    cases b with
    | cmp o' l' r' =>
      simp only [eEq, Bool.and_eq_true, beq_iff_eq] at h
      rw [h.1.1, eEq_sound l l' h.1.2, eEq_sound r r' h.2]
    | _ => simp [eEq] at h
  | .logical o l r, b, h => by
    cases b with
    | logical o' l' r' =>
      simp only [eEq, Bool.and_eq_true, beq_iff_eq] at h
      rw [h.1.1, eEq_sound l l' h.1.2, eEq_sound r r' h.2]
    | _ => simp [eEq] at h
theorem esEq_sound : ∀ (as bs : List E), esEq as bs = true → as = bs
  | [], [], _ => rfl
  | [], _ :: _, h => by simp [esEq] at h
  | _ :: _, [], h => by simp [esEq] at h
  | a :: as, b :: bs, h => by
    simp only [esEq, Bool.and_eq_true] at h
    rw [eEq_sound a b h.1, esEq_sound as bs h.2]
end

/-- what `checkOne` hands to the semantic check: the expression and the lexer's offset -/
def parsed (lower : String → String) (rest : List Nat) : Option (E × Nat) :=
  match AL.Lex.lexExpression (decodeUtf8 rest), AL.Parse.parseToks (AL.Lex.tokens (decodeUtf8 rest)) with
  | .ok (_, off), .ok pe => some (toE lower pe, off)
  | _, _ => none

def parsedIs (lower : String → String) (rest : List Nat) (e : E) (off : Nat) : Bool :=
  match parsed lower rest with
  | some (e', off') => eEq e' e && (off' == off)
  | none => false

theorem parsedIs_sound {lower : String → String} {rest : List Nat} {e : E} {off : Nat} (h : parsedIs lower rest e off = true) :
    parsed lower rest = some (e, off) := by
  unfold parsedIs at h
  cases hp : parsed lower rest with
  | none => rw [hp] at h; cases h
  | some p =>
    obtain ⟨e', off'⟩ := p
    rw [hp] at h
    simp only [Bool.and_eq_true, beq_iff_eq] at h
    rw [eEq_sound e' e h.1, h.2]


/-- the environment an expression under `key` is checked in -/
def envOf (cx : Cx) (key : String) : AL.Sema.Env :=
  { AL.Visit.mkEnv cx.lower cx.hdr cx.jobsTy cx.st key with configVars := cx.proj.configVars }

theorem checkOne_eq (cx : Cx) (key : String) (rest : List Nat) :
    checkOne cx key false rest =
      match parsed cx.lower rest with
      | some (e, off) =>
        if (check (envOf cx key) e).errs.isEmpty then (some ((check (envOf cx key) e).ty, off), [])
        else (none, (check (envOf cx key) e).errs)
      | none => (none, [err "syntax-error" []]) := by
  unfold checkOne parsed
  split
  · rename_i off pe h1 h2
    simp only [h1, h2, checkParsed, envOf, Bool.false_eq_true, if_false, List.append_nil]
    rfl
  · rename_i h
    split
    · rename_i e off heq
      split at heq
      · rename_i off' pe h1 h2
        exact (h _ _ _ h1 h2).elim
      · cases heq
    · rfl

/-- a string with exactly one placeholder whose expression checks without a diagnostic: its type -/
theorem checkExprsIn_one (cx : Cx) (key s : String) (idx off : Nat) (e : E)
    (h1 : AL.Proc.indexOf AL.Proc.open3 (bytesOf s) 0 = some idx)
    (h2 : parsedIs cx.lower ((bytesOf s).drop (idx + 3)) e off = true) (h3 : off ≠ 0)
    (h4 : AL.Proc.indexOf AL.Proc.open3 (((bytesOf s).drop (idx + 3)).drop off) 0 = none)
    (hc : (check (envOf cx key) e).errs = []) :
    checkExprsIn cx key false s = (some [(check (envOf cx key) e).ty], []) := by
  unfold checkExprsIn
  cases hl : (bytesOf s).length with
  | zero =>
    have : bytesOf s = [] := List.eq_nil_of_length_eq_zero hl
    rw [this] at h1
    simp [AL.Proc.indexOf] at h1
    exact absurd h1.1 (by decide)
  | succ n =>
    simp only [scan, h1, checkOne_eq, parsedIs_sound h2, hc, List.isEmpty_nil, if_true, h3, if_false, List.nil_append]
    cases n with
    | zero => rfl
    | succ k => simp only [scan, h4]

theorem checkOneExpression_one (cx : Cx) (what key : String) (s : Str) (idx off : Nat) (e : E)
    (h1 : AL.Proc.indexOf AL.Proc.open3 (bytesOf s.value) 0 = some idx)
    (h2 : parsedIs cx.lower ((bytesOf s.value).drop (idx + 3)) e off = true) (h3 : off ≠ 0)
    (h4 : AL.Proc.indexOf AL.Proc.open3 (((bytesOf s.value).drop (idx + 3)).drop off) 0 = none)
    (hc : (check (envOf cx key) e).errs = []) :
    checkOneExpression cx (some s) what key = (some (check (envOf cx key) e).ty, []) := by
  simp only [checkOneExpression, checkExprsIn_one cx key s.value idx off e h1 h2 h3 h4 hc]
  rfl


def fromJSONSig : Sig := ⟨"fromJSON", .any, [.string], false⟩

/-- `fromJSON(a)` for an argument that checks without a diagnostic and has a type assignable to string: no diagnostic;
the type is `any`, or what the JSON text says when `a` is a string literal holding valid JSON -/
theorem check_fromJSON (Γ : AL.Sema.Env) (a : E)
    (hl : Γ.lower "fromJSON" = "fromjson")
    (hf : lookupFuncs "fromjson" Γ.funcs = some [fromJSONSig])
    (hsp : specialFuncErrs Γ "fromJSON" = [])
    (ha : (check Γ a).errs = []) (hasg : Ty.assignable .string (check Γ a).ty = true) :
    (check Γ (.call "fromJSON" [a])).errs =
      (match strLit? a with
       | none => []
       | some lit => match Γ.fromJson lit with | .syntaxErr => [err "broken-json" []] | _ => []) ∧
    (check Γ (.call "fromJSON" [a])).ty =
      (match strLit? a with
       | none => .any
       | some lit => match Γ.fromJson lit with | .ok t => t | _ => .any) := by
  simp only [check_call, hl, hf, checkArgs_cons, checkArgs_nil, wrap_errs, wrap_ty, ha, List.append_nil, List.nil_append,
    resolveCall, resolveCall.go, checkSig, fromJSONSig, firstBadArg, firstBadArg.fixed, hasg, List.head?_cons, Option.bind_some,
    builtinCall, hsp, List.length_cons, List.length_nil]
  simp only [Bool.false_and, Bool.not_false, Bool.true_and, Nat.zero_add, ne_eq, not_true_eq_false, decide_false,
    Bool.or_self, Bool.false_eq_true, if_false, Bool.not_true]
  cases strLit? a with
  | none => simp
  | some lit =>
    simp only
    cases Γ.fromJson lit <;> simp


def Γs : AL.Sema.Env := envOf cxL "jobs.<job_id>.strategy"

theorem Γs_facts : Γs.lower "fromJSON" = "fromjson" ∧ lookupFuncs "fromjson" Γs.funcs = some [fromJSONSig] ∧
    specialFuncErrs Γs "fromJSON" = [] := ⟨by decide +kernel, rfl, by decide +kernel⟩

/-- `vars.<name>` under `jobs.<job_id>.strategy` (no `config-variables`): a string, silently -/
theorem check_varsX (x : String) (hx : checkConfigVar Γs x = []) : (check Γs (.objDeref (.var "vars") x)).errs = [] ∧ (check Γs (.objDeref (.var "vars") x)).ty = .string := by
  obtain ⟨h1, h2⟩ := check_ctx_prop Γs "vars" x (.obj [] (some .string)) rfl (by decide +kernel)
  rw [h1, h2]
  simp [objDerefTy, Ty.lookup, hx]

/-- `fromJSON(vars.<name>)`: `any`, silently -/
theorem check_fromJSON_vars (x : String) (hx : checkConfigVar Γs x = []) : (check Γs (.call "fromJSON" [.objDeref (.var "vars") x])).errs = [] ∧
    (check Γs (.call "fromJSON" [.objDeref (.var "vars") x])).ty = .any := by
  obtain ⟨a, b⟩ := check_varsX x hx
  obtain ⟨hl, hf, hsp⟩ := Γs_facts
  have := check_fromJSON Γs (.objDeref (.var "vars") x) hl hf hsp a (by rw [b]; simp [Ty.assignable])
  simpa [strLit?] using this

/-- `fromJSON('<valid JSON>')`: the type of the JSON value, silently -/
theorem check_fromJSON_lit (lit : String) (t : Ty)
    (h : (match AL.Json.fromJson AL.PW.asciiLower lit with | .ok t' => tyEq t' t | _ => false) = true) :
    (check Γs (.call "fromJSON" [.str lit])).errs = [] ∧ (check Γs (.call "fromJSON" [.str lit])).ty = t := by
  obtain ⟨hl, hf, hsp⟩ := Γs_facts
  have := check_fromJSON Γs (.str lit) hl hf hsp (by rw [check_str]; rfl) (by rw [check_str]; simp [Ty.assignable])
  have hj : Γs.fromJson lit = AL.Json.fromJson AL.PW.asciiLower lit := rfl
  simp only [strLit?, hj] at this
  cases hr : AL.Json.fromJson AL.PW.asciiLower lit with
  | ok t' =>
    rw [hr] at h this
    simp only at h this
    rw [tyEq_sound t' t h] at this
    exact this
  | syntaxErr => rw [hr] at h; cases h
  | otherErr => rw [hr] at h; cases h
/-! ## 1. `needs` -/

/-- what a job that needs job `j` (under key `i`) sees of it -/
def needEntry (outs : List (String × Ty)) (i : String) (j : Job) : Ty :=
  .obj [("outputs", if j.workflowCall.isNone then declaredOutputsTy j else (Ty.lookup i outs).getD mapOfString),
        ("result", .string)] none

/-- the loop body of `calcNeedsType` -/
def needsStep (outs : List (String × Ty)) (lower : String → String) (jobs : List (String × Job)) (self : String)
    (ps : List (String × Ty)) (id : Str) : List (String × Ty) :=
  let i := lower id.value
  if i = self then ps
  else if (Ty.lookup i ps).isSome then ps
  else match lookupJob i jobs with
    | none => ps
    | some j => Ty.setProp i (needEntry outs i j) ps

theorem needsTy_eq (outs : List (String × Ty)) (lower : String → String) (jobs : List (String × Job)) (job : Job) :
    needsTy outs lower jobs job =
      .obj ((job.needs.getD []).foldl (needsStep outs lower jobs (lower job.id.value)) []) none := rfl

/-- the exact content of the accumulator of `calcNeedsType` -/
theorem needsFold_lookup (outs : List (String × Ty)) (lower : String → String) (jobs : List (String × Job))
    (self i : String) : ∀ (needs : List Str) (acc : List (String × Ty)),
    Ty.lookup i (needs.foldl (needsStep outs lower jobs self) acc) =
      match Ty.lookup i acc with
      | some t => some t
      | none => if i ∈ needs.map (fun id => lower id.value) ∧ i ≠ self then (lookupJob i jobs).map (needEntry outs i) else none := by
  intro needs
  induction needs with
  | nil => intro acc; cases h : Ty.lookup i acc <;> simp [h]
  | cons id rest ih =>
    intro acc
    simp only [List.foldl_cons, ih, List.map_cons, List.mem_cons]
    unfold needsStep
    simp only
    by_cases h1 : lower id.value = self
    · simp only [h1, if_true]
      cases hacc : Ty.lookup i acc with
      | some t => rfl
      | none =>
        simp only
        by_cases hi : i = self
        · simp [hi]
        · simp [hi]
    · simp only [h1, if_false]
      by_cases h2 : (Ty.lookup (lower id.value) acc).isSome = true
      · simp only [h2, if_true]
        cases hacc : Ty.lookup i acc with
        | some t => rfl
        | none =>
          simp only
          have : ¬ i = lower id.value := by
            intro e; rw [← e, hacc] at h2; simp at h2
          simp [this]
      · simp only [h2]
        cases hj : lookupJob (lower id.value) jobs with
        | none =>
          simp only [Bool.false_eq_true, if_false]
          cases hacc : Ty.lookup i acc with
          | some t => rfl
          | none =>
            simp only
            by_cases hi : i = lower id.value
            · subst hi
              simp [hj]
            · simp [hi]
        | some j =>
          simp only [Bool.false_eq_true, if_false, lookup_setProp]
          by_cases hi : i = lower id.value
          · subst hi
            have hn : Ty.lookup (lower id.value) acc = none := by
              cases h : Ty.lookup (lower id.value) acc with
              | none => rfl
              | some t => rw [h] at h2; simp at h2
            simp [hj, h1, hn]
          · simp only [hi, if_false, false_or]

/-- **`needs` is a strict object whose properties are exactly the directly needed, existing jobs** (never the job itself),
each with the entry `needEntry` of that job: nothing is resolved transitively. (The job's own id is compared FOLDED, like
the entries of `needs:`.) -/
theorem needs_exact (outs : List (String × Ty)) (lower : String → String) (jobs : List (String × Job)) (job : Job) :
    ∃ ps, needsTy outs lower jobs job = .obj ps none ∧
      ∀ i, Ty.lookup i ps =
        if i ∈ (job.needs.getD []).map (fun id => lower id.value) ∧ i ≠ lower job.id.value
        then (lookupJob i jobs).map (needEntry outs i) else none := by
  refine ⟨_, needsTy_eq outs lower jobs job, fun i => ?_⟩
  rw [needsFold_lookup]
  simp [Ty.lookup]

/-- presence form: a key is in `needs` iff it is (the lower-cased spelling of) an entry of `needs:` that names an existing
job other than the job itself -/
theorem needs_keys (outs : List (String × Ty)) (lower : String → String) (jobs : List (String × Job)) (job : Job) (i : String) :
    (Ty.lookup i (propsOf (needsTy outs lower jobs job))).isSome = true ↔
      (i ∈ (job.needs.getD []).map (fun id => lower id.value) ∧ i ≠ lower job.id.value ∧ (lookupJob i jobs).isSome = true) := by
  obtain ⟨ps, e, h⟩ := needs_exact outs lower jobs job
  rw [e]
  simp only [propsOf, h i]
  by_cases hc : i ∈ (job.needs.getD []).map (fun id => lower id.value) ∧ i ≠ lower job.id.value
  · simp only [hc, and_self, if_true, Option.isSome_map, true_and, ne_eq, not_false_eq_true]
  · simp only [hc, if_false, Option.isSome_none, Bool.false_eq_true, false_iff]
    intro h'
    exact hc ⟨h'.1, h'.2.1⟩

/-- **nothing transitive**: a job that is not named in `needs:` is not in scope — whether or not a needed job needs it -/
theorem needs_not_transitive (outs : List (String × Ty)) (lower : String → String) (jobs : List (String × Job)) (job : Job)
    (i : String) (h : i ∉ (job.needs.getD []).map (fun id => lower id.value)) :
    Ty.lookup i (propsOf (needsTy outs lower jobs job)) = none := by
  obtain ⟨ps, e, hl⟩ := needs_exact outs lower jobs job
  rw [e]
  simp only [propsOf, hl i, h, false_and, if_false]

/-- a fold of `setProp k string` over the keys of a list: those keys, all `string` -/
theorem lookup_foldKeys {α : Type} (key : α → String) (name : String) : ∀ (l : List α) (acc : List (String × Ty)),
    Ty.lookup name (l.foldl (fun ps a => Ty.setProp (key a) .string ps) acc) =
      if name ∈ l.map key then some .string else Ty.lookup name acc := by
  intro l
  induction l with
  | nil => intro acc; simp
  | cons a rest ih =>
    intro acc
    simp only [List.foldl_cons, ih, lookup_setProp, List.map_cons, List.mem_cons]
    by_cases h1 : name ∈ rest.map key
    · simp [h1]
    · by_cases h2 : name = key a <;> simp [h1, h2]

/-- the `outputs` of a job as other jobs see it: a strict object with exactly the declared output names, all strings -/
theorem declaredOutputs_exact (j : Job) :
    ∃ ps, declaredOutputsTy j = .obj ps none ∧
      ∀ name, Ty.lookup name ps = if name ∈ (j.outputs.getD []).map (·.1) then some .string else none := by
  refine ⟨_, rfl, fun name => ?_⟩
  have := lookup_foldKeys (fun kv : String × Output => kv.1) name (j.outputs.getD []) []
  simpa [Ty.lookup] using this

/-- an entry of `needs`: strict, exactly `outputs` and `result : string` -/
theorem needEntry_shape (outs : List (String × Ty)) (i : String) (j : Job) :
    ∃ o, needEntry outs i j = .obj [("outputs", o), ("result", .string)] none ∧
      o = (if j.workflowCall.isNone then declaredOutputsTy j else (Ty.lookup i outs).getD mapOfString) ∧
      ∀ name, Ty.lookup name [("outputs", o), ("result", Ty.string)] =
        if name = "outputs" then some o else if name = "result" then some .string else none := by
  refine ⟨_, rfl, rfl, fun name => ?_⟩
  simp only [Ty.lookup]
  by_cases h1 : name = "outputs"
  · simp [h1]
  · by_cases h2 : name = "result"
    · subst h2; simp
    · have a : ¬ "outputs" = name := fun e => h1 e.symm
      have b : ¬ "result" = name := fun e => h2 e.symm
      simp [h1, h2, a, b]

/-- `needs.<job>.outputs.<name>` for a needed job with steps (not a reusable-workflow call): defined iff `<name>` is a
declared output of THAT job -/
theorem needs_outputs_exact (outs : List (String × Ty)) (lower : String → String) (jobs : List (String × Job)) (job j : Job)
    (i : String) (hin : i ∈ (job.needs.getD []).map (fun id => lower id.value)) (hself : i ≠ lower job.id.value)
    (hj : lookupJob i jobs = some j) (hcall : j.workflowCall = none) :
    ∃ ps js os, needsTy outs lower jobs job = .obj ps none ∧ Ty.lookup i ps = some (.obj js none) ∧
      Ty.lookup "outputs" js = some (.obj os none) ∧ Ty.lookup "result" js = some .string ∧
      ∀ name, Ty.lookup name os = if name ∈ (j.outputs.getD []).map (·.1) then some .string else none := by
  obtain ⟨ps, e, h⟩ := needs_exact outs lower jobs job
  obtain ⟨os, eo, ho⟩ := declaredOutputs_exact j
  refine ⟨ps, [("outputs", .obj os none), ("result", .string)], os, e, ?_, by simp [Ty.lookup], by simp [Ty.lookup], ho⟩
  rw [h i]
  simp only [hin, hself, ne_eq, not_false_eq_true, and_self, if_true, hj, Option.map_some, needEntry, hcall,
    Option.isNone_none, eo]

/-- a needed job that calls a reusable workflow: `outputs` is what the project knows of the callee's interface, else
`{string => string}` — a LOOSE object, so no output name is reported -/
theorem needs_outputs_call (outs : List (String × Ty)) (i : String) (j : Job) (hcall : j.workflowCall.isSome = true) :
    needEntry outs i j = .obj [("outputs", (Ty.lookup i outs).getD mapOfString), ("result", .string)] none ∧
    (Ty.lookup i outs = none → needEntry outs i j = .obj [("outputs", .obj [] (some .string)), ("result", .string)] none) := by
  have : j.workflowCall.isNone = false := by
    cases h : j.workflowCall with
    | none => rw [h] at hcall; simp at hcall
    | some _ => rfl
  constructor
  · simp [needEntry, this]
  · intro h
    simp [needEntry, this, h, mapOfString]

/-! ### `needs` on concrete data: `build` → `test` → `deploy`; `deploy` also names itself, an unknown job, `test` twice -/

private def jBuild : Job := { id := str "build", outputs := some [("art", ⟨str "art", str "x"⟩), ("ver", ⟨str "ver", str "y"⟩)], pos := p0 }
private def jTest : Job := { id := str "test", needs := some [str "build"], outputs := some [("ok", ⟨str "ok", str "z"⟩)], pos := p0 }
private def jCall : Job := { id := str "call", workflowCall := some { uses := some (str "./.github/workflows/w.yml") }, pos := p0 }
private def jDeploy : Job := { id := str "deploy", needs := some [str "Test", str "deploy", str "nosuch", str "call", str "test"], pos := p0 }
private def exJobs : List (String × Job) := [("build", jBuild), ("test", jTest), ("call", jCall), ("deploy", jDeploy)]

/-- `deploy` sees `test` (spelled `Test`) and `call`: not `build` (needed by `test` only), not itself, not the unknown job -/
example : needsTy [] AL.PW.asciiLower exJobs jDeploy =
    .obj [("call", .obj [("outputs", .obj [] (some .string)), ("result", .string)] none),
          ("test", .obj [("outputs", .obj [("ok", .string)] none), ("result", .string)] none)] none := by
  rfl

/-- the job itself is skipped by its FOLDED id: `Deploy` naming `deploy` in `needs:` does not see itself -/
example : needsTy [] AL.PW.asciiLower (("deploy", { id := str "Deploy", needs := some [str "deploy", str "build"], pos := p0 }) :: exJobs)
      { id := str "Deploy", needs := some [str "deploy", str "build"], pos := p0 } =
    .obj [("build", .obj [("outputs", .obj [("art", .string), ("ver", .string)] none), ("result", .string)] none)] none :=
  tyEq_sound _ _ (by decide +kernel)
example : "build" ∉ (jDeploy.needs.getD []).map (fun id => AL.PW.asciiLower id.value) := by decide
example : "test" ∈ (jDeploy.needs.getD []).map (fun id => AL.PW.asciiLower id.value) ∧ "test" ≠ AL.PW.asciiLower jDeploy.id.value ∧
    lookupJob "test" exJobs = some jTest ∧ jTest.workflowCall = none := ⟨by decide, by decide, rfl, rfl⟩
example : jCall.workflowCall.isSome = true := rfl

/-! ## 2. what `visitJob` hands down -/

/-- the rule's state after `calcNeedsType`: under it the matrix is checked -/
def jobCx1 (cx0 : Cx) (jobs : List (String × Job)) (n : Job) : Cx :=
  { cx0 with job := cx0.proj.jobView n.id.value,
             st := { cx0.st with needsTy := some (needsTy (cx0.proj.jobView n.id.value).outs cx0.lower jobs n) } }

/-- … after `checkMatrix`: under it `VisitJobPre` checks the job's own strings -/
def jobCx (cx0 : Cx) (isNum : IsNumber) (jobs : List (String × Job)) (n : Job) : Cx :=
  match (jobMatrix (jobCx1 cx0 jobs n) isNum n).1 with
  | some t => { jobCx1 cx0 jobs n with st := { (jobCx1 cx0 jobs n).st with matrixTy := some t } }
  | none => jobCx1 cx0 jobs n

/-- … before the first step -/
def jobCxS (cx0 : Cx) (isNum : IsNumber) (jobs : List (String × Job)) (n : Job) : Cx :=
  { jobCx cx0 isNum jobs n with st := { (jobCx cx0 isNum jobs n).st with stepsTy := some emptyStrict } }

/-- … after the last step: under it `VisitJobPost` checks `environment` and the `outputs` values -/
def jobCxPost (cx0 : Cx) (isNum : IsNumber) (jobs : List (String × Job)) (n : Job) : Cx :=
  (visitSteps (jobCxS cx0 isNum jobs n) (n.steps.getD [])).1

/-- `visitJob`, by the state each part is checked under -/
theorem visitJob_eq (cx0 : Cx) (isNum : IsNumber) (jobs : List (String × Job)) (n : Job) :
    visitJob cx0 isNum jobs n =
      (jobMatrix (jobCx1 cx0 jobs n) isNum n).2 ++ jobPre (jobCx cx0 isNum jobs n) n ++
      (visitSteps (jobCxS cx0 isNum jobs n) (n.steps.getD [])).2 ++ jobPost (jobCxPost cx0 isNum jobs n) n := rfl

/-- the matrix of a job, if it has one -/
def matrixOf (n : Job) : Option Matrix := n.strategy.bind (·.matrix)

theorem jobMatrix_eq (cx : Cx) (isNum : IsNumber) (n : Job) :
    (jobMatrix cx isNum n).1 = (matrixOf n).map (fun m => (checkMatrix cx isNum m).1) := by
  simp only [jobMatrix, matrixOf]
  cases n.strategy with
  | none => rfl
  | some s => cases h : s.matrix <;> simp [h]

/-- the matrix is checked with `needs` of THIS job in scope (`needs` may be used in a matrix); nothing else moved -/
theorem jobCx1_scope (cx0 : Cx) (jobs : List (String × Job)) (n : Job) :
    (jobCx1 cx0 jobs n).st.needsTy = some (needsTy (cx0.proj.jobView n.id.value).outs cx0.lower jobs n) ∧
    (jobCx1 cx0 jobs n).st.matrixTy = cx0.st.matrixTy ∧ (jobCx1 cx0 jobs n).st.stepsTy = cx0.st.stepsTy ∧
    (jobCx1 cx0 jobs n).hdr = cx0.hdr ∧ (jobCx1 cx0 jobs n).lower = cx0.lower ∧ (jobCx1 cx0 jobs n).jobsTy = cx0.jobsTy ∧
    (jobCx1 cx0 jobs n).proj = cx0.proj := ⟨rfl, rfl, rfl, rfl, rfl, rfl, rfl⟩

/-- `VisitJobPre` checks the job's strings with `needs` = `needsTy` of this job, `matrix` = the result of `checkMatrix` when
the job has a matrix (else what the state had: nothing in `rule`, see `rule_job_start`), `steps` untouched (nothing in
`rule`: the built-in empty strict object, so every `steps.<id>` is reported there) -/
theorem jobCx_scope (cx0 : Cx) (isNum : IsNumber) (jobs : List (String × Job)) (n : Job) :
    (jobCx cx0 isNum jobs n).st.needsTy = some (needsTy (cx0.proj.jobView n.id.value).outs cx0.lower jobs n) ∧
    (jobCx cx0 isNum jobs n).st.matrixTy =
      (match matrixOf n with
       | some m => some (checkMatrix (jobCx1 cx0 jobs n) isNum m).1
       | none => cx0.st.matrixTy) ∧
    (jobCx cx0 isNum jobs n).st.stepsTy = cx0.st.stepsTy ∧
    (jobCx cx0 isNum jobs n).hdr = cx0.hdr ∧ (jobCx cx0 isNum jobs n).lower = cx0.lower ∧
    (jobCx cx0 isNum jobs n).jobsTy = cx0.jobsTy ∧ (jobCx cx0 isNum jobs n).proj = cx0.proj := by
  unfold jobCx
  rw [jobMatrix_eq]
  cases matrixOf n with
  | none => exact ⟨rfl, rfl, rfl, rfl, rfl, rfl, rfl⟩
  | some m => exact ⟨rfl, rfl, rfl, rfl, rfl, rfl, rfl⟩

/-- **every job's steps start from the empty strict object**: whatever `steps` the state held before (no leak from the
previous job); `needs` and `matrix` are those of `VisitJobPre` -/
theorem jobCxS_scope (cx0 : Cx) (isNum : IsNumber) (jobs : List (String × Job)) (n : Job) :
    (jobCxS cx0 isNum jobs n).st.stepsTy = some (.obj [] none) ∧
    (jobCxS cx0 isNum jobs n).st.needsTy = (jobCx cx0 isNum jobs n).st.needsTy ∧
    (jobCxS cx0 isNum jobs n).st.matrixTy = (jobCx cx0 isNum jobs n).st.matrixTy ∧
    (jobCxS cx0 isNum jobs n).hdr = cx0.hdr ∧ (jobCxS cx0 isNum jobs n).lower = cx0.lower ∧
    (jobCxS cx0 isNum jobs n).proj = cx0.proj := by
  obtain ⟨_, _, _, h1, h2, _, h3⟩ := jobCx_scope cx0 isNum jobs n
  exact ⟨rfl, rfl, rfl, h1, h2, h3⟩

/-! ### the steps -/

theorem visitStep_proj (cx : Cx) (n : Step) : (visitStep cx n).1.proj = cx.proj := by
  simp only [visitStep]
  cases n.id <;> rfl

theorem stepExec_uses (cx cx' : Cx) (e : Exec) : (stepExec cx e).2 = (stepExec cx' e).2 := by
  cases e <;> rfl

/-- the abstract step depends on the project's view of local actions only, not on the scope -/
theorem stepM_congr (cx cx' : Cx) (h : cx'.proj = cx.proj) (n : Step) : AL.C05E.stepM cx' n = AL.C05E.stepM cx n := by
  simp only [AL.C05E.stepM, h, stepExec_uses cx' cx]

/-- the `steps` object after the steps `ss` of a job: `Visit.addStep` folded from the empty strict object -/
def stepsAfter (cx : Cx) (ss : List Step) : Ty :=
  (ss.map (AL.C05E.stepM cx)).foldl (AL.Visit.addStep cx.lower) (.obj [] none)

theorem visitSteps_stepsTy (ss : List Step) : ∀ (cx : Cx),
    (visitSteps cx ss).1.st.stepsTy =
      cx.st.stepsTy.map (fun t => (ss.map (AL.C05E.stepM cx)).foldl (AL.Visit.addStep cx.lower) t) ∧
    (visitSteps cx ss).1.proj = cx.proj := by
  induction ss with
  | nil => intro cx; simp [visitSteps]
  | cons s rest ih =>
    intro cx
    simp only [visitSteps]
    obtain ⟨h1, h2⟩ := ih (visitStep cx s).1
    obtain ⟨a, _, _, _, b, _⟩ := AL.C05E.visitStep_scope cx s
    have hp := visitStep_proj cx s
    have hm : AL.C05E.stepM (visitStep cx s).1 = AL.C05E.stepM cx := by
      funext n; exact stepM_congr cx _ hp n
    refine ⟨?_, h2.trans hp⟩
    rw [h1, a, b, hm]
    cases cx.st.stepsTy with
    | none => rfl
    | some t => simp

/-- the rule's state when it reaches the step after the steps `pre` of job `n` -/
def stepCx (cx0 : Cx) (isNum : IsNumber) (jobs : List (String × Job)) (n : Job) (pre : List Step) : Cx :=
  (visitSteps (jobCxS cx0 isNum jobs n) pre).1

/-- **a step is checked under the `steps` built from the steps BEFORE it** — with `needs` and `matrix` of the job — and
the steps after it do not change what is reported for it; `VisitJobPost` sees ALL steps -/
theorem job_step_scope (cx0 : Cx) (isNum : IsNumber) (jobs : List (String × Job)) (n : Job) (pre post : List Step) (s : Step)
    (hs : n.steps.getD [] = pre ++ s :: post) :
    (visitSteps (jobCxS cx0 isNum jobs n) (n.steps.getD [])).2 =
      (visitSteps (jobCxS cx0 isNum jobs n) pre).2 ++ (visitStep (stepCx cx0 isNum jobs n pre) s).2 ++
        (visitSteps (visitStep (stepCx cx0 isNum jobs n pre) s).1 post).2 ∧
    (stepCx cx0 isNum jobs n pre).st.stepsTy = some (stepsAfter (jobCxS cx0 isNum jobs n) pre) ∧
    (stepCx cx0 isNum jobs n pre).st.needsTy = (jobCx cx0 isNum jobs n).st.needsTy ∧
    (stepCx cx0 isNum jobs n pre).st.matrixTy = (jobCx cx0 isNum jobs n).st.matrixTy ∧
    (stepCx cx0 isNum jobs n pre).hdr = cx0.hdr ∧ (stepCx cx0 isNum jobs n pre).lower = cx0.lower := by
  unfold stepCx
  refine ⟨?_, ?_, ?_, ?_, ?_, ?_⟩
  · rw [hs, (AL.C05E.visitSteps_prefix _ pre (s :: post)).1]
    simp only [visitSteps, List.append_assoc]
  · rw [(visitSteps_stepsTy pre _).1]
    rfl
  · exact (AL.C05E.visitSteps_scope pre _).2.1
  · exact (AL.C05E.visitSteps_scope pre _).1
  · rw [(AL.C05E.visitSteps_scope pre _).2.2.1]; exact (jobCxS_scope cx0 isNum jobs n).2.2.2.1
  · rw [(AL.C05E.visitSteps_scope pre _).2.2.2]; exact (jobCxS_scope cx0 isNum jobs n).2.2.2.2.1

/-- **job outputs and environment see all steps** of the job (and its `needs` / `matrix`) -/
theorem jobCxPost_scope (cx0 : Cx) (isNum : IsNumber) (jobs : List (String × Job)) (n : Job) :
    (jobCxPost cx0 isNum jobs n).st.stepsTy = some (stepsAfter (jobCxS cx0 isNum jobs n) (n.steps.getD [])) ∧
    (jobCxPost cx0 isNum jobs n).st.needsTy = (jobCx cx0 isNum jobs n).st.needsTy ∧
    (jobCxPost cx0 isNum jobs n).st.matrixTy = (jobCx cx0 isNum jobs n).st.matrixTy ∧
    (jobCxPost cx0 isNum jobs n).hdr = cx0.hdr ∧ (jobCxPost cx0 isNum jobs n).lower = cx0.lower := by
  unfold jobCxPost
  refine ⟨?_, (AL.C05E.visitSteps_scope _ _).2.1, (AL.C05E.visitSteps_scope _ _).1, ?_, ?_⟩
  · rw [(visitSteps_stepsTy _ _).1]; rfl
  · rw [(AL.C05E.visitSteps_scope _ _).2.2.1]; exact (jobCxS_scope cx0 isNum jobs n).2.2.2.1
  · rw [(AL.C05E.visitSteps_scope _ _).2.2.2]; exact (jobCxS_scope cx0 isNum jobs n).2.2.2.2.1

/-- **which ids are in `steps` after the steps `ss`: exactly their (lower-cased) ids** -/
theorem stepsAfter_keys (cx : Cx) (ss : List Step) (x : String) :
    (Ty.lookup x (propsOf (stepsAfter cx ss))).isSome = true ↔ ∃ s ∈ ss, ∃ id, s.id = some id ∧ cx.lower id.value = x := by
  obtain ⟨ps', m', he, hiff⟩ := AL.Visit.stepsFold_isSome cx.lower x (ss.map (AL.C05E.stepM cx)) [] none
  have he' : stepsAfter cx ss = .obj ps' m' := he
  rw [he']
  simp only [propsOf, hiff, Ty.lookup, Option.isSome_none, Bool.false_eq_true, false_or, List.mem_map]
  constructor
  · rintro ⟨_, ⟨s, hs, rfl⟩, id, h1, h2⟩
    simp only [AL.C05E.stepM, Option.map_eq_some_iff] at h1
    obtain ⟨i, hi, rfl⟩ := h1
    exact ⟨s, hs, i, hi, h2⟩
  · rintro ⟨s, hs, id, h1, h2⟩
    exact ⟨_, ⟨s, hs, rfl⟩, id.value, by simp [AL.C05E.stepM, h1], h2⟩

/-- **`steps` is strict** (an unknown id is reported) as long as no id so far contains a placeholder -/
theorem stepsAfter_strict (cx : Cx) (ss : List Step)
    (h : ∀ s ∈ ss, ∀ id, s.id = some id → AL.Rules.containsExpr id = false) :
    ∃ ps, stepsAfter cx ss = .obj ps none := by
  apply AL.Visit.stepsFold_strict cx.lower (ss.map (AL.C05E.stepM cx)) []
  intro sm hsm hid
  simp only [List.mem_map] at hsm
  obtain ⟨s, hs, rfl⟩ := hsm
  simp only [AL.C05E.stepM] at hid ⊢
  cases hi : s.id with
  | none => rfl
  | some id => exact h s hs id hi

theorem addStepFold_loose (lower : String → String) : ∀ (ss : List AL.Visit.StepM) (ps : List (String × Ty)),
    ∃ ps', ss.foldl (AL.Visit.addStep lower) (.obj ps (some .any)) = .obj ps' (some .any) := by
  intro ss
  induction ss with
  | nil => intro ps; exact ⟨ps, rfl⟩
  | cons s rest ih =>
    intro ps
    simp only [List.foldl_cons, AL.Visit.addStep_obj]
    cases s.id with
    | none => exact ih ps
    | some id =>
      simp only
      have : (if s.idExpr = true then some Ty.any else some Ty.any) = some Ty.any := by split <;> rfl
      rw [this]
      exact ih _

theorem addStepFold_obj (lower : String → String) : ∀ (ss : List AL.Visit.StepM) (ps : List (String × Ty)) (m : Option Ty),
    ∃ ps' m', ss.foldl (AL.Visit.addStep lower) (.obj ps m) = .obj ps' m' := by
  intro ss ps m
  obtain ⟨ps', m', h, _⟩ := AL.Visit.stepsFold_isSome lower "" ss ps m
  exact ⟨ps', m', h⟩

/-- **an id given by an expression opens `steps`** for that step's successors and for `VisitJobPost`: the ids known so far
stay, the object becomes loose, no `steps.<id>` is reported any more -/
theorem stepsAfter_loose (cx : Cx) (ss : List Step) (s : Step) (id : Str) (hs : s ∈ ss) (hid : s.id = some id)
    (he : AL.Rules.containsExpr id = true) : ∃ ps, stepsAfter cx ss = .obj ps (some .any) := by
  obtain ⟨pre, post, rfl⟩ := List.append_of_mem hs
  unfold stepsAfter
  rw [List.map_append, List.foldl_append, List.map_cons, List.foldl_cons]
  obtain ⟨ps1, m1, h1⟩ := addStepFold_obj cx.lower (pre.map (AL.C05E.stepM cx)) [] none
  rw [h1, AL.Visit.addStep_obj]
  have e1 : (AL.C05E.stepM cx s).id = some id.value := by simp [AL.C05E.stepM, hid]
  have e2 : (AL.C05E.stepM cx s).idExpr = true := by simp [AL.C05E.stepM, hid, he]
  simp only [e1, e2, if_true]
  exact addStepFold_loose cx.lower _ _

/-- the entry of a step in `steps` -/
def stepEntry (cx : Cx) (s : Step) : Ty :=
  .obj [("conclusion", .string), ("outcome", .string), ("outputs", (AL.C05E.stepM cx s).outputs)] none

theorem addStepFold_entry (lower : String → String) (x : String) :
    ∀ (ss : List AL.Visit.StepM) (ps : List (String × Ty)) (m : Option Ty),
      ∃ ps' m', ss.foldl (AL.Visit.addStep lower) (.obj ps m) = .obj ps' m' ∧
        ∀ t, Ty.lookup x ps' = some t → Ty.lookup x ps = some t ∨
          ∃ s ∈ ss, ∃ id, s.id = some id ∧ lower id = x ∧
            t = .obj [("conclusion", .string), ("outcome", .string), ("outputs", s.outputs)] none := by
  intro ss
  induction ss with
  | nil => intro ps m; exact ⟨ps, m, rfl, fun t h => Or.inl h⟩
  | cons s rest ih =>
    intro ps m
    simp only [List.foldl_cons, AL.Visit.addStep_obj]
    cases hid : s.id with
    | none =>
      simp only
      obtain ⟨ps', m', e, h⟩ := ih ps m
      refine ⟨ps', m', e, fun t ht => ?_⟩
      rcases h t ht with h | ⟨s', hs', id, h1, h2, h3⟩
      · exact Or.inl h
      · exact Or.inr ⟨s', List.mem_cons_of_mem _ hs', id, h1, h2, h3⟩
    | some id0 =>
      simp only
      obtain ⟨ps', m', e, h⟩ := ih (Ty.setProp (lower id0)
          (.obj [("conclusion", .string), ("outcome", .string), ("outputs", s.outputs)] none) ps)
          (if s.idExpr then some .any else m)
      refine ⟨ps', m', e, fun t ht => ?_⟩
      rcases h t ht with h | ⟨s', hs', id, h1, h2, h3⟩
      · rw [lookup_setProp] at h
        by_cases hx : x = lower id0
        · simp only [hx, if_true, Option.some.injEq] at h
          exact Or.inr ⟨s, List.mem_cons_self .., id0, hid, hx.symm, h.symm⟩
        · simp only [hx, if_false] at h
          exact Or.inl h
      · exact Or.inr ⟨s', List.mem_cons_of_mem _ hs', id, h1, h2, h3⟩

/-- `steps.<id>` is `{conclusion, outcome : string, outputs : <the outputs of the action the step uses>}` of a step with that id -/
theorem stepsAfter_entry (cx : Cx) (ss : List Step) (x : String) (t : Ty)
    (h : Ty.lookup x (propsOf (stepsAfter cx ss)) = some t) :
    ∃ s ∈ ss, ∃ id, s.id = some id ∧ cx.lower id.value = x ∧ t = stepEntry cx s := by
  obtain ⟨ps', m', he, hall⟩ := addStepFold_entry cx.lower x (ss.map (AL.C05E.stepM cx)) [] none
  have he' : stepsAfter cx ss = .obj ps' m' := he
  rw [he'] at h
  rcases hall t h with h0 | ⟨sm, hsm, id, h1, h2, h3⟩
  · simp [Ty.lookup] at h0
  · simp only [List.mem_map] at hsm
    obtain ⟨s, hs, rfl⟩ := hsm
    simp only [AL.C05E.stepM, Option.map_eq_some_iff] at h1
    obtain ⟨i, hi, rfl⟩ := h1
    exact ⟨s, hs, i, hi, h2, h3⟩

/-! ### steps on concrete data -/

private def stA : Step := { id := some (str "A"), exec := .run { run := some (str "echo") }, pos := p0 }
private def stB : Step := { id := some (str "b"), exec := .action { uses := some (str "actions/github-script@v7") }, pos := p0 }
private def stN : Step := { pos := p0 }
private def stX : Step := { id := some (str "x-${{ matrix.os }}"), pos := p0 }
private def jSteps : Job := { id := str "j", steps := some [stA, stN, stB], pos := p0 }

/-- after `A`, (no id), `b`: exactly `a` and `b`, strict; a `run:` step has `{string => string}` outputs, github-script is open -/
example : stepsAfter cxL [stA, stN, stB] =
    .obj [("a", .obj [("conclusion", .string), ("outcome", .string), ("outputs", .obj [] (some .string))] none),
          ("b", .obj [("conclusion", .string), ("outcome", .string), ("outputs", .obj [] (some .any))] none)] none :=
  tyEq_sound _ _ (by decide +kernel)
/-- … and `b` is checked with only `a` in scope -/
example : jSteps.steps.getD [] = [stA, stN] ++ stB :: [] ∧
    stepsAfter cxL [stA, stN] =
      .obj [("a", .obj [("conclusion", .string), ("outcome", .string), ("outputs", .obj [] (some .string))] none)] none :=
  ⟨rfl, tyEq_sound _ _ (by decide +kernel)⟩
example : ∀ s ∈ [stA, stN, stB], ∀ id, s.id = some id → AL.Rules.containsExpr id = false := by
  intro s hs id hid
  simp only [List.mem_cons, List.not_mem_nil, or_false] at hs
  rcases hs with rfl | rfl | rfl
  · cases hid; decide +kernel
  · cases hid
  · cases hid; decide +kernel
/-- an id with a placeholder: the known id stays, the object is open from there on -/
example : stX ∈ [stA, stX, stN] ∧ stX.id = some (str "x-${{ matrix.os }}") ∧
    AL.Rules.containsExpr (str "x-${{ matrix.os }}") = true := ⟨by simp, rfl, by decide +kernel⟩
example : stepsAfter cxL [stA, stX, stN] =
    .obj [("a", .obj [("conclusion", .string), ("outcome", .string), ("outputs", .obj [] (some .string))] none),
          ("x-${{ matrix.os }}", .obj [("conclusion", .string), ("outcome", .string), ("outputs", .obj [] (some .string))] none)]
      (some .any) := tyEq_sound _ _ (by decide +kernel)

/-! ## 3. `matrix` -/

/-! ### `Merge` of two objects: the union of the keys; strict iff both are -/

theorem mem_keys_iff_lookup (x : String) : ∀ (qs : List (String × Ty)), x ∈ qs.map (·.1) ↔ (Ty.lookup x qs).isSome = true
  | [] => by simp [Ty.lookup]
  | (k, v) :: rest => by
    simp only [List.map_cons, List.mem_cons, Ty.lookup]
    by_cases h : k = x
    · simp [h]
    · have h' : ¬ x = k := fun e => h e.symm
      simp [h, h', mem_keys_iff_lookup x rest]

theorem mergeProps_shape (x : String) : ∀ (qs props : List (String × Ty)) (mapped : Option Ty),
    ∃ ps' m', Ty.mergeProps props mapped qs = .obj ps' m' ∧
      ((Ty.lookup x ps').isSome = true ↔ ((Ty.lookup x props).isSome = true ∨ x ∈ qs.map (·.1))) ∧
      (m' = none ↔ mapped = none) := by
  intro qs
  induction qs with
  | nil => intro props mapped; exact ⟨props, mapped, rfl, by simp, Iff.rfl⟩
  | cons q rest ih =>
    intro props mapped
    obtain ⟨n, r⟩ := q
    rw [Ty.mergeProps_cons]
    cases hl : Ty.lookup n props with
    | some l =>
      simp only
      obtain ⟨ps', m', e, hk, hm⟩ := ih (Ty.setProp n (Ty.merge l r) props) mapped
      refine ⟨ps', m', e, ?_, hm⟩
      rw [hk, AL.Visit.lookup_setProp_isSome]
      simp only [List.map_cons, List.mem_cons]
      constructor
      · rintro ((h | h) | h)
        · exact Or.inr (Or.inl h)
        · exact Or.inl h
        · exact Or.inr (Or.inr h)
      · rintro (h | h | h)
        · exact Or.inl (Or.inr h)
        · exact Or.inl (Or.inl h)
        · exact Or.inr h
    | none =>
      simp only
      obtain ⟨ps', m', e, hk, hm⟩ := ih (Ty.setProp n r props) (Ty.mergeMapped mapped r)
      refine ⟨ps', m', e, ?_, ?_⟩
      · rw [hk, AL.Visit.lookup_setProp_isSome]
        simp only [List.map_cons, List.mem_cons]
        constructor
        · rintro ((h | h) | h)
          · exact Or.inr (Or.inl h)
          · exact Or.inl h
          · exact Or.inr (Or.inr h)
        · rintro (h | h | h)
          · exact Or.inl (Or.inr h)
          · exact Or.inl (Or.inl h)
          · exact Or.inr h
      · rw [hm]
        cases mapped <;> simp [Ty.mergeMapped]

/-- `Merge` of two objects is an object with the union of the keys, strict iff both are strict -/
theorem merge_obj_shape (ps qs : List (String × Ty)) (m m' : Option Ty) :
    ∃ ps' mm, Ty.merge (.obj ps m) (.obj qs m') = .obj ps' mm ∧
      (∀ x, (Ty.lookup x ps').isSome = true ↔ ((Ty.lookup x ps).isSome = true ∨ (Ty.lookup x qs).isSome = true)) ∧
      (mm = none ↔ (m = none ∧ m' = none)) := by
  rw [Ty.merge_obj_obj]
  by_cases h1 : (ps.isEmpty && Ty.isSomeAny m') = true
  · simp only [h1, if_true]
    simp only [Bool.and_eq_true, List.isEmpty_iff, Ty.isSomeAny_iff] at h1
    obtain ⟨rfl, rfl⟩ := h1
    exact ⟨qs, some .any, rfl, fun x => by simp [Ty.lookup], by simp⟩
  · simp only [h1, Bool.false_eq_true, if_false]
    by_cases h2 : (qs.isEmpty && Ty.isSomeAny m) = true
    · simp only [h2, if_true]
      simp only [Bool.and_eq_true, List.isEmpty_iff, Ty.isSomeAny_iff] at h2
      obtain ⟨rfl, rfl⟩ := h2
      exact ⟨ps, some .any, rfl, fun x => by simp [Ty.lookup], by simp⟩
    · simp only [h2, Bool.false_eq_true, if_false]
      have hm0 : Ty.mapped0 m m' = none ↔ (m = none ∧ m' = none) := by
        cases m <;> cases m' <;> simp [Ty.mapped0]
      -- the keys for every `x` at once: take the object, then read the keys per `x`
      obtain ⟨ps', mm, e, _, hm⟩ := mergeProps_shape "" qs ps (Ty.mapped0 m m')
      refine ⟨ps', mm, e, fun x => ?_, hm.trans hm0⟩
      obtain ⟨ps'', mm', e', hk, _⟩ := mergeProps_shape x qs ps (Ty.mapped0 m m')
      rw [e] at e'
      cases e'
      rw [hk, mem_keys_iff_lookup]

/-- `Merge` of an object with anything else is `any` -/
theorem merge_obj_nonobj (ps : List (String × Ty)) (m : Option Ty) (r : Ty) (h : ∀ qs m', r ≠ .obj qs m') :
    Ty.merge (.obj ps m) r = .any := by
  apply Ty.merge_obj_left
  cases r with
  | obj qs m' => exact absurd rfl (h qs m')
  | _ => rfl

/-! ### the rows -/

theorem lookup_propsFold_isSome (x : String) : ∀ (l acc : List (String × Ty)),
    (Ty.lookup x (AL.Visit.propsFold acc l)).isSome = true ↔ ((Ty.lookup x acc).isSome = true ∨ x ∈ l.map (·.1)) := by
  intro l
  induction l with
  | nil => intro acc; simp [AL.Visit.propsFold]
  | cons a rest ih =>
    intro acc
    show (Ty.lookup x (AL.Visit.propsFold (Ty.setProp a.1 a.2 acc) rest)).isSome = true ↔ _
    rw [ih, AL.Visit.lookup_setProp_isSome]
    simp only [List.map_cons, List.mem_cons]
    constructor
    · rintro ((h | h) | h)
      · exact Or.inr (Or.inl h)
      · exact Or.inl h
      · exact Or.inr (Or.inr h)
    · rintro (h | h | h)
      · exact Or.inl (Or.inr h)
      · exact Or.inl (Or.inl h)
      · exact Or.inr h

/-- the properties the rows loop of `checkMatrix` builds: key ↦ the type `checkMatrixRow` gives the row -/
def rowsProps (cx : Cx) (isNum : IsNumber) (rows : List (String × MatrixRow)) : List (String × Ty) :=
  AL.Visit.propsFold [] (rows.map fun kv => (kv.1, (rowTy cx isNum kv.2).1))

theorem rowsFold_fst (cx : Cx) (isNum : IsNumber) : ∀ (rows : List (String × MatrixRow)) (acc : List (String × Ty) × List Diag),
    (rows.foldl (fun (acc : List (String × Ty) × List Diag) kv =>
      let t := rowTy cx isNum kv.2
      (Ty.setProp kv.1 t.1 acc.1, acc.2 ++ t.2)) acc).1 =
    AL.Visit.propsFold acc.1 (rows.map fun kv => (kv.1, (rowTy cx isNum kv.2).1)) := by
  intro rows
  induction rows with
  | nil => intro acc; rfl
  | cons kv rest ih =>
    intro acc
    simp only [List.foldl_cons, List.map_cons]
    rw [ih]
    rfl

theorem rowsProps_keys (cx : Cx) (isNum : IsNumber) (rows : List (String × MatrixRow)) (x : String) :
    (Ty.lookup x (rowsProps cx isNum rows)).isSome = true ↔ x ∈ rows.map (·.1) := by
  unfold rowsProps
  rw [lookup_propsFold_isSome]
  simp [Ty.lookup, List.map_map, Function.comp_def]

/-- `matrix.<key>` has the type `checkMatrixRow` computes for a row with that key (the last one, were a key repeated) -/
theorem rowsProps_entry (cx : Cx) (isNum : IsNumber) (rows : List (String × MatrixRow)) (x : String) (t : Ty)
    (h : Ty.lookup x (rowsProps cx isNum rows) = some t) : ∃ kv ∈ rows, kv.1 = x ∧ t = (rowTy cx isNum kv.2).1 := by
  unfold rowsProps at h
  rw [AL.Visit.lookup_propsFold] at h
  cases hf : (rows.map fun kv => (kv.1, (rowTy cx isNum kv.2).1)).reverse.find? (·.1 = x) with
  | none => rw [hf] at h; simp [Ty.lookup] at h
  | some e =>
    rw [hf] at h
    simp only [Option.some.injEq] at h
    have hm := List.mem_of_find?_eq_some hf
    have hp := List.find?_some hf
    simp only [List.mem_reverse, List.mem_map] at hm
    obtain ⟨kv, hkv, rfl⟩ := hm
    exact ⟨kv, hkv, by simpa using hp, h.symm⟩

/-- a row given by an expression does NOT open `matrix`: its key is a key like the others; only the type of that key is
the element type of the expression's array type — `any` when that is not statically an array -/
theorem rowTy_expr (cx : Cx) (isNum : IsNumber) (r : MatrixRow) (e : Str) (he : r.expr = some e) :
    (rowTy cx isNum r).1 =
      match (checkArrayExpression cx (some e) "matrix row" "jobs.<job_id>.strategy").1 with
      | some (.arr el _) => el
      | _ => .any := by
  simp only [rowTy, he]
  generalize (checkArrayExpression cx (some e) "matrix row" "jobs.<job_id>.strategy").1 = o
  cases o with
  | none => rfl
  | some t => cases t <;> rfl

/-! ### `checkMatrix`, by the shape of the matrix -/

theorem checkMatrix_lit (cx : Cx) (isNum : IsNumber) (m : Matrix) (he : m.expr = none) :
    (checkMatrix cx isNum m).1 =
      match m.incl with
      | none => .obj (rowsProps cx isNum (m.rows.getD [])) none
      | some inc =>
        match inc.expr with
        | some e =>
          (match (checkOneExpression cx (some e) "include" "jobs.<job_id>.strategy").1 with
           | some (.arr el _) =>
             (match Ty.merge (.obj (rowsProps cx isNum (m.rows.getD [])) none) el with
              | .obj ps mm => .obj ps mm
              | _ => emptyLoose)
           | _ => emptyLoose)
        | none =>
          ((inc.combinations.getD []).foldl (includeCombo cx isNum) (.obj (rowsProps cx isNum (m.rows.getD [])) none, [])).1 := by
  simp only [checkMatrix, he, rowsProps, ← rowsFold_fst cx isNum (m.rows.getD []) ([], [])]
  cases m.incl with
  | none => rfl
  | some inc =>
    simp only
    cases inc.expr with
    | none => rfl
    | some e => rfl

/-- **rows only: `matrix` is a strict object with exactly the row keys** -/
theorem matrix_rows_only (cx : Cx) (isNum : IsNumber) (m : Matrix) (he : m.expr = none) (hi : m.incl = none) :
    ∃ ps, (checkMatrix cx isNum m).1 = .obj ps none ∧
      ∀ x, (Ty.lookup x ps).isSome = true ↔ x ∈ (m.rows.getD []).map (·.1) := by
  rw [checkMatrix_lit cx isNum m he, hi]
  exact ⟨_, rfl, rowsProps_keys cx isNum _⟩

/-! ### `include:` entries -/

/-- the keys a literal `include` entry assigns -/
def comboKeys (c : MatrixCombination) : List String :=
  match c.expr with
  | some _ => []
  | none => (c.assigns.getD []).map (·.1)

/-- the type of an `include` entry given by an expression (`none`: the expression has a diagnostic of its own) -/
def comboExprTy (cx : Cx) (e : Str) : Option Ty :=
  (checkOneExpression cx (some e) "matrix combination at element of include section" "jobs.<job_id>.strategy").1

theorem assignsFold_obj (cx : Cx) (isNum : IsNumber) :
    ∀ (as : List (String × MatrixAssign)) (ps : List (String × Ty)) (m : Option Ty) (ds : List Diag),
      ∃ ps' ds', as.foldl (fun (a : Ty × List Diag) kv =>
          let t := rawTy cx isNum kv.2.value
          match a.1 with
          | .obj ps m =>
            let ty' := match Ty.lookup kv.1 ps with
              | some old => Ty.merge old t.1
              | none => t.1
            (.obj (Ty.setProp kv.1 ty' ps) m, a.2 ++ t.2)
          | o => (o, a.2 ++ t.2)) (.obj ps m, ds) = (.obj ps' m, ds') ∧
        ∀ x, (Ty.lookup x ps').isSome = true ↔ ((Ty.lookup x ps).isSome = true ∨ x ∈ as.map (·.1)) := by
  intro as
  induction as with
  | nil => intro ps m ds; exact ⟨ps, ds, rfl, fun x => by simp⟩
  | cons kv rest ih =>
    intro ps m ds
    simp only [List.foldl_cons]
    obtain ⟨ps', ds', e, hk⟩ := ih (Ty.setProp kv.1 (match Ty.lookup kv.1 ps with
              | some old => Ty.merge old (rawTy cx isNum kv.2.value).1
              | none => (rawTy cx isNum kv.2.value).1) ps) m (ds ++ (rawTy cx isNum kv.2.value).2)
    refine ⟨ps', ds', e, fun x => ?_⟩
    rw [hk x, AL.Visit.lookup_setProp_isSome]
    simp only [List.map_cons, List.mem_cons]
    constructor
    · rintro ((h | h) | h)
      · exact Or.inr (Or.inl h)
      · exact Or.inl h
      · exact Or.inr (Or.inr h)
    · rintro (h | h | h)
      · exact Or.inl (Or.inr h)
      · exact Or.inl (Or.inl h)
      · exact Or.inr h

/-- a literal `include` entry: the object keeps its `mapped` part and gains exactly the assigned keys -/
theorem includeCombo_lit (cx : Cx) (isNum : IsNumber) (c : MatrixCombination) (hc : c.expr = none)
    (ps : List (String × Ty)) (m : Option Ty) (ds : List Diag) :
    ∃ ps' ds', includeCombo cx isNum (.obj ps m, ds) c = (.obj ps' m, ds') ∧
      ∀ x, (Ty.lookup x ps').isSome = true ↔ ((Ty.lookup x ps).isSome = true ∨ x ∈ comboKeys c) := by
  simp only [includeCombo, hc, comboKeys]
  exact assignsFold_obj cx isNum (c.assigns.getD []) ps m ds

/-- an `include` entry given by an expression: skipped when the expression has a diagnostic; merged when its type is an
object (the keys of that type are added, the result is strict iff both are); else the object is loosened -/
theorem includeCombo_expr (cx : Cx) (isNum : IsNumber) (c : MatrixCombination) (e : Str) (hc : c.expr = some e)
    (ps : List (String × Ty)) (m : Option Ty) (ds : List Diag) :
    (includeCombo cx isNum (.obj ps m, ds) c).1 =
      match comboExprTy cx e with
      | none => .obj ps m
      | some (.obj qs m') => Ty.merge (.obj ps m) (.obj qs m')
      | some _ => .obj ps (some .any) := by
  simp only [includeCombo, hc, comboExprTy]
  generalize (checkOneExpression cx (some e) "matrix combination at element of include section" "jobs.<job_id>.strategy") = r
  obtain ⟨r1, r2⟩ := r
  cases r1 with
  | none => rfl
  | some ty =>
    simp only
    by_cases ho : ∃ qs m', ty = .obj qs m'
    · obtain ⟨qs, m', rfl⟩ := ho
      obtain ⟨ps', mm, em, _, _⟩ := merge_obj_shape ps qs m m'
      simp only [em]
    · have hne : ∀ qs m', ty ≠ .obj qs m' := fun qs m' h => ho ⟨qs, m', h⟩
      rw [merge_obj_nonobj ps m ty hne]
      cases ty with
      | obj qs m' => exact absurd rfl (hne qs m')
      | _ => rfl

/-- one `include` entry, whatever it is: an object stays an object, no key is lost, the keys of a literal entry are
there afterwards, a loose object stays loose -/
theorem includeCombo_step (cx : Cx) (isNum : IsNumber) (c : MatrixCombination)
    (ps : List (String × Ty)) (m : Option Ty) (ds : List Diag) :
    ∃ ps' m', (includeCombo cx isNum (.obj ps m, ds) c).1 = .obj ps' m' ∧
      (∀ x, ((Ty.lookup x ps).isSome = true ∨ x ∈ comboKeys c) → (Ty.lookup x ps').isSome = true) ∧
      (m ≠ none → m' ≠ none) := by
  cases hc : c.expr with
  | none =>
    obtain ⟨ps', ds', e, hk⟩ := includeCombo_lit cx isNum c hc ps m ds
    exact ⟨ps', m, by rw [e], fun x h => (hk x).2 h, id⟩
  | some e =>
    rw [includeCombo_expr cx isNum c e hc]
    have hkeys : comboKeys c = [] := by simp [comboKeys, hc]
    simp only [hkeys, List.not_mem_nil, or_false]
    cases hr : comboExprTy cx e with
    | none => exact ⟨ps, m, rfl, fun x h => h, id⟩
    | some ty =>
      by_cases ho : ∃ qs m', ty = .obj qs m'
      · obtain ⟨qs, m', rfl⟩ := ho
        obtain ⟨ps', mm, em, hk, hm⟩ := merge_obj_shape ps qs m m'
        refine ⟨ps', mm, em, fun x h => (hk x).2 (Or.inl h), fun hne hmm => hne (hm.1 hmm).1⟩
      · refine ⟨ps, some .any, ?_, fun x h => h, fun _ h => nomatch h⟩
        cases ty with
        | obj qs m' => exact absurd ⟨qs, m', rfl⟩ ho
        | _ => rfl

theorem includeFold_step (cx : Cx) (isNum : IsNumber) : ∀ (cs : List MatrixCombination)
    (ps : List (String × Ty)) (m : Option Ty) (ds : List Diag),
    ∃ ps' m', (cs.foldl (includeCombo cx isNum) (.obj ps m, ds)).1 = .obj ps' m' ∧
      (∀ x, ((Ty.lookup x ps).isSome = true ∨ ∃ c ∈ cs, x ∈ comboKeys c) → (Ty.lookup x ps').isSome = true) ∧
      (m ≠ none → m' ≠ none) := by
  intro cs
  induction cs with
  | nil => intro ps m ds; exact ⟨ps, m, rfl, fun x h => by simpa using h, id⟩
  | cons c rest ih =>
    intro ps m ds
    simp only [List.foldl_cons]
    obtain ⟨ps1, m1, e1, hk1, hm1⟩ := includeCombo_step cx isNum c ps m ds
    have hpair : includeCombo cx isNum (.obj ps m, ds) c = (.obj ps1 m1, (includeCombo cx isNum (.obj ps m, ds) c).2) := by
      rw [← e1]
    rw [hpair]
    obtain ⟨ps2, m2, e2, hk2, hm2⟩ := ih ps1 m1 (includeCombo cx isNum (.obj ps m, ds) c).2
    refine ⟨ps2, m2, e2, fun x h => ?_, fun h => hm2 (hm1 h)⟩
    rcases h with h | ⟨c', hc', hx⟩
    · exact hk2 x (Or.inl (hk1 x (Or.inl h)))
    · rcases List.mem_cons.1 hc' with rfl | hc'
      · exact hk2 x (Or.inl (hk1 x (Or.inr hx)))
      · exact hk2 x (Or.inr ⟨c', hc', hx⟩)

/-- the `include:` loop over literal entries only: `mapped` is kept, the keys are exactly the old ones plus the assigned -/
theorem includeFold_lit (cx : Cx) (isNum : IsNumber) : ∀ (cs : List MatrixCombination), (∀ c ∈ cs, c.expr = none) →
    ∀ (ps : List (String × Ty)) (m : Option Ty) (ds : List Diag),
    ∃ ps', (cs.foldl (includeCombo cx isNum) (.obj ps m, ds)).1 = .obj ps' m ∧
      ∀ x, (Ty.lookup x ps').isSome = true ↔ ((Ty.lookup x ps).isSome = true ∨ ∃ c ∈ cs, x ∈ comboKeys c) := by
  intro cs
  induction cs with
  | nil => intro _ ps m ds; exact ⟨ps, rfl, fun x => by simp⟩
  | cons c rest ih =>
    intro hall ps m ds
    simp only [List.foldl_cons]
    obtain ⟨ps1, ds1, e1, hk1⟩ := includeCombo_lit cx isNum c (hall c (List.mem_cons_self ..)) ps m ds
    rw [e1]
    obtain ⟨ps2, e2, hk2⟩ := ih (fun c' hc' => hall c' (List.mem_cons_of_mem _ hc')) ps1 m ds1
    refine ⟨ps2, e2, fun x => ?_⟩
    rw [hk2 x, hk1 x]
    constructor
    · rintro ((h | h) | ⟨c', hc', hx⟩)
      · exact Or.inl h
      · exact Or.inr ⟨c, List.mem_cons_self .., h⟩
      · exact Or.inr ⟨c', List.mem_cons_of_mem _ hc', hx⟩
    · rintro (h | ⟨c', hc', hx⟩)
      · exact Or.inl (Or.inl h)
      · rcases List.mem_cons.1 hc' with rfl | hc'
        · exact Or.inl (Or.inr hx)
        · exact Or.inr ⟨c', hc', hx⟩

/-! ### the theorems about `checkMatrix` -/

/-- **literal rows and literal `include` entries: `matrix` is a strict object whose keys are exactly the row keys plus the
keys the `include` entries assign** (an include-only key is in scope) -/
theorem matrix_literal (cx : Cx) (isNum : IsNumber) (m : Matrix) (inc : MatrixCombinations) (he : m.expr = none)
    (hi : m.incl = some inc) (hie : inc.expr = none) (hall : ∀ c ∈ inc.combinations.getD [], c.expr = none) :
    ∃ ps, (checkMatrix cx isNum m).1 = .obj ps none ∧
      ∀ x, (Ty.lookup x ps).isSome = true ↔
        (x ∈ (m.rows.getD []).map (·.1) ∨ ∃ c ∈ inc.combinations.getD [], x ∈ (c.assigns.getD []).map (·.1)) := by
  rw [checkMatrix_lit cx isNum m he, hi]
  simp only [hie]
  obtain ⟨ps, e, hk⟩ := includeFold_lit cx isNum (inc.combinations.getD []) hall (rowsProps cx isNum (m.rows.getD [])) none []
  refine ⟨ps, e, fun x => ?_⟩
  rw [hk x, rowsProps_keys]
  constructor
  · rintro (h | ⟨c, hc, hx⟩)
    · exact Or.inl h
    · refine Or.inr ⟨c, hc, ?_⟩
      simpa [comboKeys, hall c hc] using hx
  · rintro (h | ⟨c, hc, hx⟩)
    · exact Or.inl h
    · refine Or.inr ⟨c, hc, ?_⟩
      simpa [comboKeys, hall c hc] using hx

/-- `include:` as a list, entries of any kind: `matrix` is an object in which every row key and every key of a literal
entry is defined (an entry given by an expression never removes a key) -/
theorem matrix_include_keys_present (cx : Cx) (isNum : IsNumber) (m : Matrix) (inc : MatrixCombinations) (he : m.expr = none)
    (hi : m.incl = some inc) (hie : inc.expr = none) :
    ∃ ps mm, (checkMatrix cx isNum m).1 = .obj ps mm ∧
      ∀ x, (x ∈ (m.rows.getD []).map (·.1) ∨ ∃ c ∈ inc.combinations.getD [], x ∈ comboKeys c) →
        (Ty.lookup x ps).isSome = true := by
  rw [checkMatrix_lit cx isNum m he, hi]
  simp only [hie]
  obtain ⟨ps, mm, e, hk, _⟩ := includeFold_step cx isNum (inc.combinations.getD []) (rowsProps cx isNum (m.rows.getD [])) none []
  refine ⟨ps, mm, e, fun x h => hk x ?_⟩
  rcases h with h | h
  · exact Or.inl ((rowsProps_keys cx isNum _ x).2 h)
  · exact Or.inr h

/-- **an `include` entry given by an expression opens `matrix`** — unless the expression has a diagnostic of its own or
its type is statically a strict object: the result is a loose object, no `matrix.<key>` is reported -/
theorem matrix_include_entry_expr_opens (cx : Cx) (isNum : IsNumber) (m : Matrix) (inc : MatrixCombinations)
    (he : m.expr = none) (hi : m.incl = some inc) (hie : inc.expr = none)
    (pre post : List MatrixCombination) (c : MatrixCombination) (e : Str) (ty : Ty)
    (hcs : inc.combinations.getD [] = pre ++ c :: post) (hc : c.expr = some e)
    (hty : comboExprTy cx e = some ty) (hns : ∀ qs, ty ≠ .obj qs none) :
    ∃ ps mt, (checkMatrix cx isNum m).1 = .obj ps (some mt) := by
  rw [checkMatrix_lit cx isNum m he, hi]
  simp only [hie, hcs, List.foldl_append, List.foldl_cons]
  obtain ⟨ps1, m1, e1, _, _⟩ := includeFold_step cx isNum pre (rowsProps cx isNum (m.rows.getD [])) none []
  generalize hA : pre.foldl (includeCombo cx isNum) (.obj (rowsProps cx isNum (m.rows.getD [])) none, []) = A at e1
  obtain ⟨A1, A2⟩ := A
  simp only at e1
  subst e1
  have hstep : ∃ ps2 mt2, (includeCombo cx isNum (.obj ps1 m1, A2) c).1 = .obj ps2 (some mt2) := by
    rw [includeCombo_expr cx isNum c e hc, hty]
    by_cases ho : ∃ qs m', ty = .obj qs m'
    · obtain ⟨qs, m', rfl⟩ := ho
      obtain ⟨ps', mm, em, _, hm⟩ := merge_obj_shape ps1 qs m1 m'
      simp only [em]
      cases mm with
      | some mt => exact ⟨ps', mt, rfl⟩
      | none => exact absurd (hm.1 rfl).2 (fun h => hns qs (by rw [h]))
    · refine ⟨ps1, .any, ?_⟩
      cases ty with
      | obj qs m' => exact absurd ⟨qs, m', rfl⟩ ho
      | _ => rfl
  obtain ⟨ps2, mt2, e2⟩ := hstep
  generalize hB : includeCombo cx isNum (.obj ps1 m1, A2) c = B at e2
  obtain ⟨B1, B2⟩ := B
  simp only at e2
  subst e2
  obtain ⟨ps3, m3, e3, _, hm3⟩ := includeFold_step cx isNum post ps2 (some mt2) B2
  rw [e3]
  cases m3 with
  | some mt => exact ⟨ps3, mt, rfl⟩
  | none => exact absurd rfl (hm3 (by simp))

/-- **`include: ${{ … }}`**: `matrix` is the empty LOOSE object (nothing is reported — not even the row keys are kept)
unless the expression is statically an array of objects; then it is the merge of the rows object with the element type:
the row keys plus the element's keys, strict iff the element type is strict -/
theorem matrix_include_expr (cx : Cx) (isNum : IsNumber) (m : Matrix) (inc : MatrixCombinations) (e : Str)
    (he : m.expr = none) (hi : m.incl = some inc) (hie : inc.expr = some e) :
    (checkMatrix cx isNum m).1 = .obj [] (some .any) ∨
    ∃ qs m' d ps mm, (checkOneExpression cx (some e) "include" "jobs.<job_id>.strategy").1 = some (.arr (.obj qs m') d) ∧
      (checkMatrix cx isNum m).1 = .obj ps mm ∧
      (∀ x, (Ty.lookup x ps).isSome = true ↔ (x ∈ (m.rows.getD []).map (·.1) ∨ (Ty.lookup x qs).isSome = true)) ∧
      (mm = none ↔ m' = none) := by
  rw [checkMatrix_lit cx isNum m he, hi]
  simp only [hie]
  cases hr : (checkOneExpression cx (some e) "include" "jobs.<job_id>.strategy").1 with
  | none => exact Or.inl rfl
  | some t =>
    cases t with
    | arr el d =>
      by_cases ho : ∃ qs m', el = .obj qs m'
      · obtain ⟨qs, m', rfl⟩ := ho
        obtain ⟨ps', mm, em, hk, hm⟩ := merge_obj_shape (rowsProps cx isNum (m.rows.getD [])) qs none m'
        refine Or.inr ⟨qs, m', d, ps', mm, rfl, by simp only [em], fun x => ?_, ?_⟩
        · rw [hk x, rowsProps_keys]
        · simpa using hm
      · have hne : ∀ qs m', el ≠ .obj qs m' := fun qs m' h => ho ⟨qs, m', h⟩
        left
        simp only [merge_obj_nonobj _ _ el hne]
        rfl
    | _ => exact Or.inl rfl

/-- **`matrix: ${{ … }}`**: `matrix` is a LOOSE object (nothing is reported) unless the expression's type is statically a
strict object -/
theorem matrix_expr_open (cx : Cx) (isNum : IsNumber) (m : Matrix) (e : Str) (he : m.expr = some e)
    (hns : ∀ ps, (checkObjectExpression cx (some e) "matrix" "jobs.<job_id>.strategy").1 ≠ some (.obj ps none)) :
    ∃ ps mt, (checkMatrix cx isNum m).1 = .obj ps (some mt) := by
  simp only [checkMatrix, he, matrixExprTy]
  generalize (checkObjectExpression cx (some e) "matrix" "jobs.<job_id>.strategy").1 = o at hns
  cases o with
  | none => exact ⟨[], .any, rfl⟩
  | some t =>
    cases t with
    | obj ps mm =>
      cases mm with
      | none => exact absurd rfl (hns ps)
      | some mt => exact ⟨_, mt, rfl⟩
    | _ => exact ⟨[], .any, rfl⟩

/-- … and when it is (`fromJSON` of a constant, say) the matrix is that object without `include` / `exclude` (the
element keys of a statically known `include` added): a STRICT object — references into it ARE reported -/
theorem matrix_expr_strict (cx : Cx) (isNum : IsNumber) (m : Matrix) (e : Str) (ps : List (String × Ty)) (he : m.expr = some e)
    (hs : (checkObjectExpression cx (some e) "matrix" "jobs.<job_id>.strategy").1 = some (.obj ps none)) :
    ∃ ps', (checkMatrix cx isNum m).1 = .obj ps' none := by
  simp only [checkMatrix, he, matrixExprTy, hs]
  exact ⟨_, rfl⟩

/-! ### `matrix` on concrete data -/

/-- one placeholder under `jobs.<job_id>.strategy` in a workflow without header (`cxL`) -/
theorem strategy_placeholder (what : String) (s : Str) (idx off : Nat) (e : E) (t : Ty)
    (h1 : AL.Proc.indexOf AL.Proc.open3 (bytesOf s.value) 0 = some idx)
    (h2 : parsedIs AL.PW.asciiLower ((bytesOf s.value).drop (idx + 3)) e off = true) (h3 : off ≠ 0)
    (h4 : AL.Proc.indexOf AL.Proc.open3 (((bytesOf s.value).drop (idx + 3)).drop off) 0 = none)
    (hc : (check Γs e).errs = [] ∧ (check Γs e).ty = t) :
    checkOneExpression cxL (some s) what "jobs.<job_id>.strategy" = (some t, []) := by
  rw [checkOneExpression_one cxL what "jobs.<job_id>.strategy" s idx off e h1 h2 h3 h4 hc.1]
  exact congrArg (fun x => (some x, [])) hc.2

theorem checkObjectExpression_ok (cx : Cx) (s : Str) (what key : String) (t : Ty)
    (h : checkOneExpression cx (some s) what key = (some t, [])) (ho : isObjOrAny t = true) :
    checkObjectExpression cx (some s) what key = (some t, []) := by
  simp [checkObjectExpression, mustBe, h, ho]

theorem checkArrayExpression_ok (cx : Cx) (s : Str) (what key : String) (t : Ty)
    (h : checkOneExpression cx (some s) what key = (some t, [])) (ho : isArrOrAny t = true) :
    checkArrayExpression cx (some s) what key = (some t, []) := by
  simp [checkArrayExpression, mustBe, h, ho]

private def rowOs : String × MatrixRow := ("os", ⟨some (str "os"), some [.str "linux" p0, .str "mac" p0], none⟩)
private def rowVer : String × MatrixRow := ("ver", ⟨some (str "ver"), some [.str "1" p0], none⟩)
private def rowDyn : String × MatrixRow := ("dyn", ⟨some (str "dyn"), none, some (str "${{ fromJSON(vars.LIST) }}")⟩)
private def cLit : MatrixCombination := ⟨some [("os", ⟨str "os", .str "win" p0⟩), ("extra", ⟨str "extra", .str "true" p0⟩)], none⟩
private def cDyn : MatrixCombination := ⟨none, some (str "${{ fromJSON(vars.ENTRY) }}")⟩
private def incLit : MatrixCombinations := ⟨some [cLit], none⟩
private def incDynEntry : MatrixCombinations := ⟨some [cLit, cDyn], none⟩
private def incDyn : MatrixCombinations := ⟨none, some (str "${{ fromJSON(vars.INC) }}")⟩
private def incStatic : MatrixCombinations := ⟨none, some (str "${{ fromJSON('[{\"extra\":1}]') }}")⟩
private def mRows : Matrix := { rows := some [rowOs, rowVer], pos := p0 }
private def mLit : Matrix := { rows := some [rowOs, rowVer], incl := some incLit, pos := p0 }
private def mDynEntry : Matrix := { rows := some [rowOs], incl := some incDynEntry, pos := p0 }
private def mIncDyn : Matrix := { rows := some [rowOs], incl := some incDyn, pos := p0 }
private def mIncStatic : Matrix := { rows := some [rowOs], incl := some incStatic, pos := p0 }
private def mExprDyn : Matrix := { rows := none, expr := some (str "${{ fromJSON(vars.M) }}"), pos := p0 }
private def mExprStatic : Matrix :=
  { rows := none, expr := some (str "${{ fromJSON('{\"os\":[\"linux\"],\"include\":[{\"extra\":1}]}') }}"), pos := p0 }
private def noNum : IsNumber := fun _ => false

/-- rows only: strict, the two row keys -/
example : (checkMatrix cxL noNum mRows).1 = .obj [("os", .string), ("ver", .string)] none :=
  tyEq_sound _ _ (by decide +kernel)
example : mRows.expr = none ∧ mRows.incl = none := ⟨rfl, rfl⟩
/-- rows and a literal include entry: the include-only key `extra` is in scope, the object is strict -/
example : (checkMatrix cxL noNum mLit).1 = .obj [("extra", .bool), ("os", .string), ("ver", .string)] none :=
  tyEq_sound _ _ (by decide +kernel)
example : mLit.expr = none ∧ mLit.incl = some incLit ∧ incLit.expr = none ∧ ∀ c ∈ incLit.combinations.getD [], c.expr = none :=
  ⟨rfl, rfl, rfl, by intro c hc; simp only [incLit, Option.getD_some, List.mem_singleton] at hc; subst hc; rfl⟩

/-- `${{ fromJSON(vars.ENTRY) }}` as an include entry: type `any` -/
theorem cDyn_ty : comboExprTy cxL (str "${{ fromJSON(vars.ENTRY) }}") = some .any := by
  unfold comboExprTy
  rw [strategy_placeholder _ (str "${{ fromJSON(vars.ENTRY) }}") 0 24 (.call "fromJSON" [.objDeref (.var "vars") "entry"]) .any
    (by decide +kernel) (by decide +kernel) (by decide) (by decide +kernel) (check_fromJSON_vars "entry" (by decide +kernel))]

/-- an include entry that is an expression of unknown type opens the matrix (the hypotheses of
`matrix_include_entry_expr_opens` on `include: [{os: win, extra: true}, ${{ fromJSON(vars.ENTRY) }}]`) -/
example : ∃ ps mt, (checkMatrix cxL noNum mDynEntry).1 = .obj ps (some mt) :=
  matrix_include_entry_expr_opens cxL noNum mDynEntry incDynEntry rfl rfl rfl [cLit] [] cDyn _ .any rfl rfl cDyn_ty
    (fun _ h => nomatch h)

/-- a row given by an expression of unknown type: its key is there, of type `any`; the matrix stays STRICT -/
theorem rowDyn_ty : (rowTy cxL noNum rowDyn.2).1 = .any := by
  rw [rowTy_expr cxL noNum rowDyn.2 (str "${{ fromJSON(vars.LIST) }}") rfl,
    checkArrayExpression_ok cxL _ "matrix row" _ .any
      (strategy_placeholder _ (str "${{ fromJSON(vars.LIST) }}") 0 23 (.call "fromJSON" [.objDeref (.var "vars") "list"]) .any
        (by decide +kernel) (by decide +kernel) (by decide) (by decide +kernel) (check_fromJSON_vars "list" (by decide +kernel))) rfl]
example : ∃ ps, (checkMatrix cxL noNum { rows := some [rowOs, rowDyn], pos := p0 }).1 = .obj ps none ∧
    Ty.lookup "dyn" ps = some .any ∧ (Ty.lookup "os" ps).isSome = true ∧ Ty.lookup "other" ps = none := by
  refine ⟨_, checkMatrix_lit cxL noNum _ rfl, ?_, ?_, ?_⟩
  · simp only [rowsProps, Option.getD_some, List.map, rowDyn_ty]
    rfl
  · exact (rowsProps_keys cxL noNum _ "os").2 (by decide)
  · cases h : Ty.lookup "other" (rowsProps cxL noNum [rowOs, rowDyn]) with
    | none => rfl
    | some t =>
      have := (rowsProps_keys cxL noNum [rowOs, rowDyn] "other").1 (by rw [h]; rfl)
      exact absurd this (by decide)

/-- `include: ${{ fromJSON(vars.INC) }}`: the empty loose object (the row key `os` is not even kept) -/
example : (checkMatrix cxL noNum mIncDyn).1 = .obj [] (some .any) := by
  rw [checkMatrix_lit cxL noNum mIncDyn rfl]
  simp only [mIncDyn, incDyn,
    strategy_placeholder "include" (str "${{ fromJSON(vars.INC) }}") 0 22 (.call "fromJSON" [.objDeref (.var "vars") "inc"]) .any
      (by decide +kernel) (by decide +kernel) (by decide) (by decide +kernel) (check_fromJSON_vars "inc" (by decide +kernel))]
  rfl
example : mIncDyn.expr = none ∧ mIncDyn.incl = some incDyn ∧ incDyn.expr = some (str "${{ fromJSON(vars.INC) }}") := ⟨rfl, rfl, rfl⟩

/-- `include: ${{ fromJSON('[{"extra":1}]') }}`: statically an array of strict objects — merged with the rows, STRICT:
`matrix.other` is reported although `include` is an expression -/
example : (checkMatrix cxL noNum mIncStatic).1 = .obj [("extra", .number), ("os", .string)] none := by
  rw [checkMatrix_lit cxL noNum mIncStatic rfl]
  simp only [mIncStatic, incStatic,
    strategy_placeholder "include" (str "${{ fromJSON('[{\"extra\":1}]') }}") 0 29 (.call "fromJSON" [.str "[{\"extra\":1}]"])
      (.arr (.obj [("extra", .number)] none) false)
      (by decide +kernel) (by decide +kernel) (by decide) (by decide +kernel)
      (check_fromJSON_lit "[{\"extra\":1}]" _ (by decide +kernel))]
  exact tyEq_sound _ _ (by decide +kernel)

/-- `matrix: ${{ fromJSON(vars.M) }}`: the hypothesis of `matrix_expr_open`; the matrix is the empty loose object -/
theorem mExprDyn_ty : (checkObjectExpression cxL (some (str "${{ fromJSON(vars.M) }}")) "matrix" "jobs.<job_id>.strategy").1 = some .any := by
  rw [checkObjectExpression_ok cxL _ "matrix" _ .any
      (strategy_placeholder _ (str "${{ fromJSON(vars.M) }}") 0 20 (.call "fromJSON" [.objDeref (.var "vars") "m"]) .any
        (by decide +kernel) (by decide +kernel) (by decide) (by decide +kernel) (check_fromJSON_vars "m" (by decide +kernel))) rfl]
example : ∃ ps mt, (checkMatrix cxL noNum mExprDyn).1 = .obj ps (some mt) :=
  matrix_expr_open cxL noNum mExprDyn _ rfl (fun ps h => by rw [mExprDyn_ty] at h; cases h)

/-- **`matrix: ${{ fromJSON('{"os":["linux"],"include":[{"extra":1}]}') }}`: a STRICT object** — `matrix.other` IS reported
although the matrix is given by an expression (the last sentence of the property does not hold to the letter) -/
theorem mExprStatic_ty :
    (checkObjectExpression cxL (some (str "${{ fromJSON('{\"os\":[\"linux\"],\"include\":[{\"extra\":1}]}') }}")) "matrix"
      "jobs.<job_id>.strategy").1 =
    some (.obj [("include", .arr (.obj [("extra", .number)] none) false), ("os", .arr .string false)] none) := by
  rw [checkObjectExpression_ok cxL _ "matrix" _ _
      (strategy_placeholder _ (str "${{ fromJSON('{\"os\":[\"linux\"],\"include\":[{\"extra\":1}]}') }}") 0 56
        (.call "fromJSON" [.str "{\"os\":[\"linux\"],\"include\":[{\"extra\":1}]}"]) _
        (by decide +kernel) (by decide +kernel) (by decide) (by decide +kernel)
        (check_fromJSON_lit "{\"os\":[\"linux\"],\"include\":[{\"extra\":1}]}"
          (.obj [("include", .arr (.obj [("extra", .number)] none) false), ("os", .arr .string false)] none) (by decide +kernel))) rfl]
theorem matrix_expr_static_is_strict :
    (checkMatrix cxL noNum mExprStatic).1 = .obj [("extra", .number), ("os", .arr .string false)] none := by
  simp only [checkMatrix, mExprStatic, matrixExprTy, mExprStatic_ty]
  exact tyEq_sound _ _ (by decide +kernel)
example : ∃ ps', (checkMatrix cxL noNum mExprStatic).1 = .obj ps' none :=
  matrix_expr_strict cxL noNum mExprStatic _ _ rfl mExprStatic_ty

/-! ## 4. `inputs`, `secrets`: the header `on:` leaves, and what the checker is handed -/

/-- what one event of `on:` does to the header (`VisitWorkflowPre`) -/
def eventHdr (hdr : Header) : Ast.Event → Header
  | .dispatch inputs _ => { hdr with dispatchInputs := some ((inputs.getD []).map fun kv => (kv.1, dispatchTy kv.2.type)) }
  | .call inputs secrets _ _ =>
    { hdr with callInputs := some ((inputs.getD []).map fun i => (i.id, callTy i.type)),
               callSecrets := match secrets with | some ss => some (ss.map (·.1)) | none => hdr.callSecrets }
  | _ => hdr

theorem callInputs_fst (cx : Cx) : ∀ (l : List Ast.CallInput) (acc : List (String × Ty)),
    (callInputs cx acc l).1 = acc ++ l.map (fun i => (i.id, callTy i.type)) := by
  intro l
  induction l with
  | nil => intro acc; simp [callInputs]
  | cons i rest ih =>
    intro acc
    simp only [callInputs, ih, List.map_cons, List.append_assoc, List.singleton_append]

/-- one event: the header moves by `eventHdr`, nothing else of the state moves -/
theorem visitEvent_hdr (cx : Cx) (e : Ast.Event) :
    (visitEvent cx e).1.hdr = eventHdr cx.hdr e ∧ (visitEvent cx e).1.st = cx.st ∧ (visitEvent cx e).1.lower = cx.lower ∧
    (visitEvent cx e).1.jobsTy = cx.jobsTy ∧ (visitEvent cx e).1.proj = cx.proj := by
  cases e with
  | webhook e => exact ⟨rfl, rfl, rfl, rfl, rfl⟩
  | schedule c p => exact ⟨rfl, rfl, rfl, rfl, rfl⟩
  | dispatch ins p => exact ⟨rfl, rfl, rfl, rfl, rfl⟩
  | repoDispatch t p => exact ⟨rfl, rfl, rfl, rfl, rfl⟩
  | call ins secs outs p =>
    simp only [visitEvent, eventHdr, callInputs_fst, List.nil_append]
    cases secs <;> exact ⟨rfl, rfl, rfl, rfl, rfl⟩

/-- **the header after `on:`** is `eventHdr` folded over the events; the per-job state, `jobs`, the project are untouched -/
theorem visitEvents_hdr (es : List Ast.Event) : ∀ (cx : Cx),
    (visitEvents cx es).1.hdr = es.foldl eventHdr cx.hdr ∧ (visitEvents cx es).1.st = cx.st ∧
    (visitEvents cx es).1.lower = cx.lower ∧ (visitEvents cx es).1.jobsTy = cx.jobsTy ∧ (visitEvents cx es).1.proj = cx.proj := by
  induction es with
  | nil => intro cx; exact ⟨rfl, rfl, rfl, rfl, rfl⟩
  | cons e rest ih =>
    intro cx
    simp only [visitEvents, List.foldl_cons]
    obtain ⟨a, b, c, d, f⟩ := ih (visitEvent cx e).1
    obtain ⟨a', b', c', d', f'⟩ := visitEvent_hdr cx e
    exact ⟨by rw [a, a'], b.trans b', c.trans c', d.trans d', f.trans f'⟩

/-- the state under which `rule` checks the workflow-level strings and visits EVERY job -/
def ruleCx (lower : String → String) (proj : ProjView) (w : Workflow) : Cx :=
  (visitEvents { lower := lower, proj := proj } (w.on.getD [])).1

/-- `rule` is: the header's diagnostics, one `visitJob` per job — each from the SAME state `ruleCx` —, the rest -/
theorem rule_eq (lower : String → String) (isNum : IsNumber) (w : Workflow) (proj : ProjView) :
    ∃ hd tl, rule lower isNum w proj =
      hd ++ (w.jobs.getD []).flatMap (fun kv => visitJob (ruleCx lower proj w) isNum (w.jobs.getD []) kv.2) ++ tl :=
  ⟨_, _, rfl⟩

/-- **every job starts from the empty per-job state** (no `matrix`, `steps`, `needs` of another job), under the header of
`on:` and without `jobs` -/
theorem ruleCx_scope (lower : String → String) (proj : ProjView) (w : Workflow) :
    (ruleCx lower proj w).st = ⟨none, none, none⟩ ∧
    (ruleCx lower proj w).hdr = (w.on.getD []).foldl eventHdr ⟨none, none, none⟩ ∧
    (ruleCx lower proj w).jobsTy = none ∧ (ruleCx lower proj w).lower = lower ∧ (ruleCx lower proj w).proj = proj := by
  obtain ⟨a, b, c, d, e⟩ := visitEvents_hdr (w.on.getD []) { lower := lower, proj := proj }
  exact ⟨b, a, d, c, e⟩

def isCall : Ast.Event → Bool | .call .. => true | _ => false
def isDispatch : Ast.Event → Bool | .dispatch .. => true | _ => false

/-- events other than `workflow_call` leave `callInputs` / `callSecrets` alone -/
theorem foldHdr_no_call : ∀ (es : List Ast.Event) (hdr : Header), (∀ e ∈ es, isCall e = false) →
    (es.foldl eventHdr hdr).callInputs = hdr.callInputs ∧ (es.foldl eventHdr hdr).callSecrets = hdr.callSecrets := by
  intro es
  induction es with
  | nil => intro hdr _; exact ⟨rfl, rfl⟩
  | cons e rest ih =>
    intro hdr h
    simp only [List.foldl_cons]
    obtain ⟨a, b⟩ := ih (eventHdr hdr e) (fun e' he' => h e' (List.mem_cons_of_mem _ he'))
    have he := h e (List.mem_cons_self ..)
    cases e with
    | call ins secs outs p => simp [isCall] at he
    | _ => exact ⟨a, b⟩

theorem foldHdr_no_dispatch : ∀ (es : List Ast.Event) (hdr : Header), (∀ e ∈ es, isDispatch e = false) →
    (es.foldl eventHdr hdr).dispatchInputs = hdr.dispatchInputs := by
  intro es
  induction es with
  | nil => intro hdr _; rfl
  | cons e rest ih =>
    intro hdr h
    simp only [List.foldl_cons]
    have a := ih (eventHdr hdr e) (fun e' he' => h e' (List.mem_cons_of_mem _ he'))
    have he := h e (List.mem_cons_self ..)
    cases e with
    | dispatch ins p => simp [isDispatch] at he
    | call ins secs outs p => exact a
    | _ => exact a

/-- **without `workflow_call` and `workflow_dispatch` the header is empty**: `inputs` and `secrets` are the built-in ones -/
theorem header_plain (es : List Ast.Event) (h1 : ∀ e ∈ es, isCall e = false) (h2 : ∀ e ∈ es, isDispatch e = false) :
    es.foldl eventHdr ⟨none, none, none⟩ = ⟨none, none, none⟩ := by
  obtain ⟨a, b⟩ := foldHdr_no_call es ⟨none, none, none⟩ h1
  have c := foldHdr_no_dispatch es ⟨none, none, none⟩ h2
  generalize es.foldl eventHdr ⟨none, none, none⟩ = hdr at a b c
  cases hdr
  simp only at a b c
  rw [a, b, c]

/-- **`workflow_call`** (the last one, were there several): `callInputs` are exactly the declared inputs with `callTy` of
their declared type, `callSecrets` exactly the declared secrets (when the `secrets:` key is there) -/
theorem header_call (pre post : List Ast.Event) (ins : Option (List Ast.CallInput)) (secs : Option (List (String × CallSecret)))
    (outs : Option (List (String × CallOutput))) (p : AL.Yaml.Pos) (hpost : ∀ e ∈ post, isCall e = false) (hdr : Header) :
    ((pre ++ .call ins secs outs p :: post).foldl eventHdr hdr).callInputs =
      some ((ins.getD []).map fun i => (i.id, callTy i.type)) ∧
    (∀ ss, secs = some ss → ((pre ++ .call ins secs outs p :: post).foldl eventHdr hdr).callSecrets = some (ss.map (·.1))) ∧
    (secs = none → ((pre ++ .call ins secs outs p :: post).foldl eventHdr hdr).callSecrets = (pre.foldl eventHdr hdr).callSecrets) := by
  simp only [List.foldl_append, List.foldl_cons]
  obtain ⟨a, b⟩ := foldHdr_no_call post (eventHdr (pre.foldl eventHdr hdr) (.call ins secs outs p)) hpost
  refine ⟨by rw [a]; rfl, fun ss hs => by rw [b, hs]; rfl, fun hs => by rw [b, hs]; rfl⟩

/-- **`workflow_dispatch`**: `dispatchInputs` are exactly the declared inputs with `dispatchTy` of their declared type -/
theorem header_dispatch (pre post : List Ast.Event) (ins : Option (List (String × DispatchInput))) (p : AL.Yaml.Pos)
    (hpost : ∀ e ∈ post, isDispatch e = false) (hdr : Header) :
    ((pre ++ .dispatch ins p :: post).foldl eventHdr hdr).dispatchInputs =
      some ((ins.getD []).map fun kv => (kv.1, dispatchTy kv.2.type)) := by
  simp only [List.foldl_append, List.foldl_cons]
  rw [foldHdr_no_dispatch post _ hpost]
  rfl

/-! ### what the checker is handed (`mkEnv`, the model of `checkSemanticsOfExprNode`) -/

/-- the variables after the per-job state was put in -/
def stVars (st : St) : List (String × Ty) :=
  let v0 := AL.Gen.globalVars
  let v1 := match st.matrixTy with | some t => Ty.setProp "matrix" t v0 | none => v0
  let v2 := match st.stepsTy with | some t => Ty.setProp "steps" t v1 | none => v1
  match st.needsTy with | some t => Ty.setProp "needs" t v2 | none => v2

/-- … after `secrets` -/
def secVars (hdr : Header) (st : St) : List (String × Ty) :=
  match hdr.callSecrets with | some ns => Ty.setProp "secrets" (AL.Visit.secretsTy ns) (stVars st) | none => stVars st

/-- … after the `workflow_call` inputs -/
def callVars (hdr : Header) (st : St) : List (String × Ty) :=
  match hdr.callInputs with | some is => AL.Visit.updateInputs (secVars hdr st) (AL.Visit.objOf is) | none => secVars hdr st

theorem mkEnv_vars (lower : String → String) (hdr : Header) (jobsTy : Option Ty) (st : St) (key : String) :
    (mkEnv lower hdr jobsTy st key).vars =
      (let v6 := match hdr.dispatchInputs with
        | some is => AL.Visit.setGithubEventInputs (AL.Visit.updateInputs (callVars hdr st) (AL.Visit.objOf is)) (is.map (·.1))
        | none => callVars hdr st
       match jobsTy with | some t => Ty.setProp "jobs" t v6 | none => v6) := rfl

theorem lookup_updateInputs_ne (x : String) (hx : x ≠ "inputs") (vars : List (String × Ty)) (ty : Ty) :
    Ty.lookup x (AL.Visit.updateInputs vars ty) = Ty.lookup x vars := by
  unfold AL.Visit.updateInputs
  split
  · rw [lookup_setProp]; simp [hx]
  · rw [lookup_setProp]; simp [hx]
  · rfl

theorem lookup_setGithub_ne (x : String) (hx : x ≠ "github") (vars : List (String × Ty)) (ids : List String) :
    Ty.lookup x (AL.Visit.setGithubEventInputs vars ids) = Ty.lookup x vars := by
  unfold AL.Visit.setGithubEventInputs
  split
  · split
    · rw [lookup_setProp]; simp [hx]
    · rfl
  · rfl

/-- the per-job contexts reach the checker untouched by the header: for `x` ∈ {`needs`, `steps`, `matrix`} -/
theorem lookup_mkEnv_st (x : String) (h1 : x ≠ "jobs") (h2 : x ≠ "github") (h3 : x ≠ "inputs") (h4 : x ≠ "secrets")
    (lower : String → String) (hdr : Header) (jobsTy : Option Ty) (st : St) (key : String) :
    Ty.lookup x (mkEnv lower hdr jobsTy st key).vars = Ty.lookup x (stVars st) := by
  rw [mkEnv_vars]
  have e4 : Ty.lookup x (secVars hdr st) = Ty.lookup x (stVars st) := by
    unfold secVars
    cases hdr.callSecrets with
    | none => rfl
    | some ns => simp only [lookup_setProp, h4, if_false]
  have e5 : Ty.lookup x (callVars hdr st) = Ty.lookup x (stVars st) := by
    unfold callVars
    cases hdr.callInputs with
    | none => exact e4
    | some is => simp only [lookup_updateInputs_ne x h3, e4]
  have e6 : Ty.lookup x (match hdr.dispatchInputs with
        | some is => AL.Visit.setGithubEventInputs (AL.Visit.updateInputs (callVars hdr st) (AL.Visit.objOf is)) (is.map (·.1))
        | none => callVars hdr st) = Ty.lookup x (stVars st) := by
    cases hdr.dispatchInputs with
    | none => exact e5
    | some is => simp only [lookup_setGithub_ne x h2, lookup_updateInputs_ne x h3, e5]
  cases jobsTy with
  | none => exact e6
  | some t => simp only [lookup_setProp, h1, if_false, e6]

/-- **`needs` / `steps` / `matrix` as the checker sees them**: what the rule's state holds — and the built-in EMPTY STRICT
object where the state holds nothing (so, e.g., every `steps.<id>` in `jobs.<id>.if`, every `matrix.<key>` in a job
without matrix is reported) -/
theorem scope_st (lower : String → String) (hdr : Header) (jobsTy : Option Ty) (st : St) (key : String) :
    Ty.lookup "needs" (mkEnv lower hdr jobsTy st key).vars = some (st.needsTy.getD (.obj [] none)) ∧
    Ty.lookup "steps" (mkEnv lower hdr jobsTy st key).vars = some (st.stepsTy.getD (.obj [] none)) ∧
    Ty.lookup "matrix" (mkEnv lower hdr jobsTy st key).vars = some (st.matrixTy.getD (.obj [] none)) := by
  rw [lookup_mkEnv_st "needs" (by decide) (by decide) (by decide) (by decide),
    lookup_mkEnv_st "steps" (by decide) (by decide) (by decide) (by decide),
    lookup_mkEnv_st "matrix" (by decide) (by decide) (by decide) (by decide)]
  obtain ⟨m, s, n⟩ := st
  have g1 : Ty.lookup "needs" AL.Gen.globalVars = some (.obj [] none) := rfl
  have g2 : Ty.lookup "steps" AL.Gen.globalVars = some (.obj [] none) := rfl
  have g3 : Ty.lookup "matrix" AL.Gen.globalVars = some (.obj [] none) := rfl
  have n1 : ¬ ("needs" = "steps") := by decide
  have n2 : ¬ ("needs" = "matrix") := by decide
  have n3 : ¬ ("steps" = "matrix") := by decide
  have n4 : ¬ ("steps" = "needs") := by decide
  have n5 : ¬ ("matrix" = "needs") := by decide
  have n6 : ¬ ("matrix" = "steps") := by decide
  cases m <;> cases s <;> cases n <;>
    simp [stVars, lookup_setProp, g1, g2, g3, n1, n2, n3, n4, n5, n6]

theorem lookup_stVars_other (x : String) (h1 : x ≠ "needs") (h2 : x ≠ "steps") (h3 : x ≠ "matrix") (st : St) :
    Ty.lookup x (stVars st) = Ty.lookup x AL.Gen.globalVars := by
  obtain ⟨m, s, n⟩ := st
  cases m <;> cases s <;> cases n <;> simp [stVars, lookup_setProp, h1, h2, h3]

/-- `UpdateInputs` on the `inputs` variable itself -/
def updInputs (o ty : Ty) : Ty :=
  match o with
  | .obj [] none => ty
  | o => Ty.merge o ty

theorem lookup_updateInputs_self (vars : List (String × Ty)) (ty o : Ty) (h : Ty.lookup "inputs" vars = some o) :
    Ty.lookup "inputs" (AL.Visit.updateInputs vars ty) = some (updInputs o ty) := by
  unfold AL.Visit.updateInputs updInputs
  rw [h]
  cases o with
  | obj ps m =>
    cases ps with
    | nil => cases m <;> simp [lookup_setProp]
    | cons a r => simp [lookup_setProp]
  | _ => simp [lookup_setProp]

/-- the type of `inputs`, from the header -/
def inputsTyOf (hdr : Header) : Ty :=
  match hdr.callInputs, hdr.dispatchInputs with
  | none, none => .obj [] none
  | some is, none => AL.Visit.objOf is
  | none, some ds => AL.Visit.objOf ds
  | some is, some ds => updInputs (AL.Visit.objOf is) (AL.Visit.objOf ds)

/-- **`secrets` as the checker sees it**: `UpdateSecrets` of the declared names when `workflow_call` has a `secrets:` key,
else the built-in `{string => string}` (loose: no secret name is reported) -/
theorem scope_secrets (lower : String → String) (hdr : Header) (jobsTy : Option Ty) (st : St) (key : String) :
    Ty.lookup "secrets" (mkEnv lower hdr jobsTy st key).vars =
      some (match hdr.callSecrets with | some ns => AL.Visit.secretsTy ns | none => .obj [] (some .string)) := by
  rw [mkEnv_vars]
  have e4 : Ty.lookup "secrets" (secVars hdr st) =
      some (match hdr.callSecrets with | some ns => AL.Visit.secretsTy ns | none => .obj [] (some .string)) := by
    unfold secVars
    cases hdr.callSecrets with
    | none => simp only [lookup_stVars_other "secrets" (by decide) (by decide) (by decide)]; rfl
    | some ns => simp only [lookup_setProp, if_true]
  have e5 : Ty.lookup "secrets" (callVars hdr st) = Ty.lookup "secrets" (secVars hdr st) := by
    unfold callVars
    cases hdr.callInputs with
    | none => rfl
    | some is => simp only [lookup_updateInputs_ne "secrets" (by decide)]
  have n1 : ¬ ("secrets" = "jobs") := by decide
  cases hdr.dispatchInputs <;> cases jobsTy <;>
    simp only [lookup_setProp, n1, if_false, lookup_setGithub_ne "secrets" (by decide),
      lookup_updateInputs_ne "secrets" (by decide), e5, e4]

/-- **`inputs` as the checker sees it** -/
theorem scope_inputs (lower : String → String) (hdr : Header) (jobsTy : Option Ty) (st : St) (key : String) :
    Ty.lookup "inputs" (mkEnv lower hdr jobsTy st key).vars = some (inputsTyOf hdr) := by
  rw [mkEnv_vars]
  have e4 : Ty.lookup "inputs" (secVars hdr st) = some (.obj [] none) := by
    unfold secVars
    have n : ¬ ("inputs" = "secrets") := by decide
    cases hdr.callSecrets with
    | none => simp only [lookup_stVars_other "inputs" (by decide) (by decide) (by decide)]; rfl
    | some ns => simp only [lookup_setProp, n, if_false, lookup_stVars_other "inputs" (by decide) (by decide) (by decide)]; rfl
  have n1 : ¬ ("inputs" = "jobs") := by decide
  unfold inputsTyOf callVars
  cases hc : hdr.callInputs with
  | none =>
    cases hd : hdr.dispatchInputs with
    | none => cases jobsTy <;> simp only [lookup_setProp, n1, if_false, e4]
    | some ds =>
      cases jobsTy <;>
        simp only [lookup_setProp, n1, if_false, lookup_setGithub_ne "inputs" (by decide),
          lookup_updateInputs_self _ _ _ e4, updInputs]
  | some is =>
    have e5 : Ty.lookup "inputs" (AL.Visit.updateInputs (secVars hdr st) (AL.Visit.objOf is)) = some (AL.Visit.objOf is) := by
      rw [lookup_updateInputs_self _ _ _ e4]; rfl
    cases hd : hdr.dispatchInputs with
    | none => cases jobsTy <;> simp only [lookup_setProp, n1, if_false, e5]
    | some ds =>
      cases jobsTy <;>
        simp only [lookup_setProp, n1, if_false, lookup_setGithub_ne "inputs" (by decide),
          lookup_updateInputs_self _ _ _ e5]

/-- **`jobs` as the checker sees it**: only where the rule puts it (the `workflow_call` output values); elsewhere the
variable does not exist -/
theorem scope_jobs (lower : String → String) (hdr : Header) (jobsTy : Option Ty) (st : St) (key : String) :
    Ty.lookup "jobs" (mkEnv lower hdr jobsTy st key).vars = jobsTy := by
  rw [mkEnv_vars]
  cases jobsTy with
  | some t => simp only [lookup_setProp, if_true]
  | none =>
    have e : Ty.lookup "jobs" (callVars hdr st) = none := by
      unfold callVars secVars
      have n : ¬ ("jobs" = "secrets") := by decide
      cases hdr.callInputs <;> cases hdr.callSecrets <;>
        simp only [lookup_updateInputs_ne "jobs" (by decide), lookup_setProp, n, if_false,
          lookup_stVars_other "jobs" (by decide) (by decide) (by decide)] <;> rfl
    cases hdr.dispatchInputs <;>
      simp only [lookup_setGithub_ne "jobs" (by decide), lookup_updateInputs_ne "jobs" (by decide), e]

/-! ### the content of `secrets` and `inputs` -/

theorem lookup_autoSecrets (x : String) :
    Ty.lookup x [("actions_runner_debug", .string), ("actions_step_debug", .string), ("github_token", .string)] =
      if x ∈ ["actions_runner_debug", "actions_step_debug", "github_token"] then some .string else none := by
  rw [Ty.lookup, Ty.lookup, Ty.lookup, Ty.lookup]
  by_cases h1 : "actions_runner_debug" = x
  · rw [if_pos h1, if_pos (by rw [← h1]; exact List.mem_cons_self ..)]
  · rw [if_neg h1]
    by_cases h2 : "actions_step_debug" = x
    · rw [if_pos h2, if_pos (by rw [← h2]; exact List.mem_cons_of_mem _ (List.mem_cons_self ..))]
    · rw [if_neg h2]
      by_cases h3 : "github_token" = x
      · rw [if_pos h3, if_pos (by rw [← h3]; exact List.mem_cons_of_mem _ (List.mem_cons_of_mem _ (List.mem_cons_self ..)))]
      · rw [if_neg h3, if_neg]
        intro hm
        rcases List.mem_cons.1 hm with e | hm
        · exact h1 e.symm
        · rcases List.mem_cons.1 hm with e | hm
          · exact h2 e.symm
          · rcases List.mem_cons.1 hm with e | hm
            · exact h3 e.symm
            · cases hm

/-- **`secrets` in a reusable workflow that declares secrets: a strict object with exactly the declared names plus the
three automatic ones** (`github_token`, `actions_runner_debug`, `actions_step_debug`), all strings -/
theorem secretsTy_exact (ns : List String) :
    ∃ ps, AL.Visit.secretsTy ns = .obj ps none ∧
      ∀ x, Ty.lookup x ps =
        if x ∈ ns ∨ x ∈ ["actions_runner_debug", "actions_step_debug", "github_token"] then some .string else none := by
  refine ⟨_, rfl, fun x => ?_⟩
  have := lookup_foldKeys (fun n : String => n) x ns
    [("actions_runner_debug", .string), ("actions_step_debug", .string), ("github_token", .string)]
  simp only [List.map_id'] at this
  rw [this, lookup_autoSecrets]
  by_cases h : x ∈ ns
  · simp only [h, if_true, true_or]
  · simp only [h, if_false, false_or]

/-- the declared type of `x` in a list of declarations (the last one, were an id repeated) -/
def declTy (l : List (String × Ty)) (x : String) : Option Ty := (l.reverse.find? (·.1 = x)).map (·.2)

theorem declTy_isSome (l : List (String × Ty)) (x : String) : (declTy l x).isSome = true ↔ x ∈ l.map (·.1) := by
  simp only [declTy, Option.isSome_map, List.find?_isSome, List.mem_reverse, List.mem_map, decide_eq_true_eq]

theorem objOf_lookup (l : List (String × Ty)) (x : String) : Ty.lookup x (AL.Visit.propsFold [] l) = declTy l x := by
  rw [AL.Visit.lookup_propsFold, declTy]
  cases l.reverse.find? (·.1 = x) <;> rfl

theorem lookup_none_of_not_mem (x : String) (qs : List (String × Ty)) (h : x ∉ qs.map (·.1)) : Ty.lookup x qs = none := by
  cases hl : Ty.lookup x qs with
  | none => rfl
  | some t => exact absurd ((mem_keys_iff_lookup x qs).2 (by rw [hl]; rfl)) h

/-- the loop of `Merge` over the other object's (pairwise distinct) keys, key by key -/
theorem mergeProps_lookup (x : String) : ∀ (qs props : List (String × Ty)) (mapped : Option Ty), (qs.map (·.1)).Nodup →
    ∃ ps' m', Ty.mergeProps props mapped qs = .obj ps' m' ∧
      Ty.lookup x ps' =
        match Ty.lookup x qs with
        | some r => some (match Ty.lookup x props with | some l => Ty.merge l r | none => r)
        | none => Ty.lookup x props := by
  intro qs
  induction qs with
  | nil => intro props mapped _; exact ⟨props, mapped, rfl, rfl⟩
  | cons q rest ih =>
    intro props mapped hnd
    obtain ⟨n, r⟩ := q
    simp only [List.map_cons, List.nodup_cons] at hnd
    rw [Ty.mergeProps_cons]
    have hrest : Ty.lookup n rest = none := lookup_none_of_not_mem n rest hnd.1
    cases hl : Ty.lookup n props with
    | some l =>
      simp only
      obtain ⟨ps', m', e, hk⟩ := ih (Ty.setProp n (Ty.merge l r) props) mapped hnd.2
      refine ⟨ps', m', e, ?_⟩
      rw [hk, lookup_setProp]
      by_cases hx : x = n
      · subst hx
        simp [hrest, Ty.lookup, hl]
      · have hx' : ¬ n = x := fun e => hx e.symm
        simp only [hx, if_false, Ty.lookup, hx']
    | none =>
      simp only
      obtain ⟨ps', m', e, hk⟩ := ih (Ty.setProp n r props) (Ty.mergeMapped mapped r) hnd.2
      refine ⟨ps', m', e, ?_⟩
      rw [hk, lookup_setProp]
      by_cases hx : x = n
      · subst hx
        simp [hrest, Ty.lookup, hl]
      · have hx' : ¬ n = x := fun e => hx e.symm
        simp only [hx, if_false, Ty.lookup, hx']

theorem keySorted_nodup (ps : List (String × Ty)) (h : AL.Visit.KeySorted ps) : (ps.map (·.1)).Nodup := by
  unfold AL.Visit.KeySorted at h
  rw [List.Nodup, List.pairwise_map]
  exact h.imp (fun hlt e => by rw [e] at hlt; exact absurd hlt (String.lt_irrefl _))

/-- **`inputs`: a strict object with exactly the declared `workflow_call` inputs and the declared `workflow_dispatch`
inputs**, each of its declared type (`callTy` / `dispatchTy`, see `header_call` / `header_dispatch`); an input declared by
both events has the `Merge` of the two types. Without either event: the empty strict object — every `inputs.<name>` is
reported -/
theorem inputs_exact (hdr : Header) :
    ∃ ps, inputsTyOf hdr = .obj ps none ∧
      ∀ x, Ty.lookup x ps =
        match declTy (hdr.callInputs.getD []) x, declTy (hdr.dispatchInputs.getD []) x with
        | some l, some r => some (Ty.merge l r)
        | some l, none => some l
        | none, some r => some r
        | none, none => none := by
  unfold inputsTyOf
  cases hc : hdr.callInputs with
  | none =>
    cases hd : hdr.dispatchInputs with
    | none => exact ⟨[], rfl, fun x => by simp [declTy, Ty.lookup]⟩
    | some ds =>
      refine ⟨AL.Visit.propsFold [] ds, rfl, fun x => ?_⟩
      rw [objOf_lookup]
      simp only [Option.getD_none, Option.getD_some]
      have : declTy [] x = none := rfl
      rw [this]
      cases declTy ds x <;> rfl
  | some is =>
    cases hd : hdr.dispatchInputs with
    | none =>
      refine ⟨AL.Visit.propsFold [] is, rfl, fun x => ?_⟩
      rw [objOf_lookup]
      simp only [Option.getD_none, Option.getD_some]
      have : declTy [] x = none := rfl
      rw [this]
      cases declTy is x <;> rfl
    | some ds =>
      simp only [Option.getD_some, AL.Visit.objOf_eq]
      cases hps : AL.Visit.propsFold [] is with
      | nil =>
        refine ⟨AL.Visit.propsFold [] ds, rfl, fun x => ?_⟩
        have h1 : declTy is x = none := by rw [← objOf_lookup, hps]; rfl
        rw [h1, objOf_lookup]
        cases declTy ds x <;> rfl
      | cons a r =>
        have hm : updInputs (.obj (a :: r) none) (.obj (AL.Visit.propsFold [] ds) none) =
            Ty.mergeProps (a :: r) none (AL.Visit.propsFold [] ds) := by
          simp only [updInputs]
          rw [Ty.merge_obj_obj]
          simp [Ty.isSomeAny, Ty.mapped0]
        rw [hm]
        have hnd := keySorted_nodup _ (AL.Visit.objOf_keySorted ds)
        obtain ⟨ps0, m0, e0, _, hm0⟩ := mergeProps_shape "" (AL.Visit.propsFold [] ds) (a :: r) none
        have hm0' : m0 = none := hm0.2 rfl
        subst hm0'
        refine ⟨ps0, e0, fun x => ?_⟩
        obtain ⟨ps1, m1, e1, hk⟩ := mergeProps_lookup x (AL.Visit.propsFold [] ds) (a :: r) none hnd
        rw [e0] at e1
        cases e1
        rw [hk, ← hps, objOf_lookup, objOf_lookup]
        cases declTy ds x <;> cases declTy is x <;> rfl

/-- presence form: `inputs.<name>` is defined iff `<name>` is a declared `workflow_call` or `workflow_dispatch` input -/
theorem inputs_keys (hdr : Header) (x : String) :
    (Ty.lookup x (propsOf (inputsTyOf hdr))).isSome = true ↔
      (x ∈ (hdr.callInputs.getD []).map (·.1) ∨ x ∈ (hdr.dispatchInputs.getD []).map (·.1)) := by
  obtain ⟨ps, e, h⟩ := inputs_exact hdr
  rw [e]
  simp only [propsOf, h x, ← declTy_isSome]
  cases declTy (hdr.callInputs.getD []) x <;> cases declTy (hdr.dispatchInputs.getD []) x <;> simp

/-! ## 5. `jobs` (the values of `on.workflow_call.outputs`) -/

/-- what `jobs.<job>` is: a strict object with `outputs` ONLY -/
def jobEntry (j : Job) : Ty :=
  .obj [("outputs", if j.workflowCall.isSome then .obj [] (some .any) else declaredOutputsTy j)] none

theorem jobsTyOf_eq (jobs : List (String × Job)) :
    jobsTyOf jobs = .obj (AL.Visit.propsFold [] (jobs.map fun kv => (kv.1, jobEntry kv.2))) none := by
  unfold jobsTyOf AL.Visit.propsFold
  rw [List.foldl_map]
  rfl

/-- **`jobs` is a strict object with one entry per job of the workflow** (the last one, were a key repeated), each
`{outputs: …}`: the job's declared outputs (strict, see `declaredOutputs_exact`), or the empty LOOSE object for a job that
calls a reusable workflow -/
theorem jobs_exact (jobs : List (String × Job)) :
    ∃ ps, jobsTyOf jobs = .obj ps none ∧
      (∀ x, Ty.lookup x ps = (jobs.reverse.find? (·.1 = x)).map (fun kv => jobEntry kv.2)) ∧
      (∀ x, (Ty.lookup x ps).isSome = true ↔ x ∈ jobs.map (·.1)) := by
  refine ⟨_, jobsTyOf_eq jobs, fun x => ?_, fun x => ?_⟩
  · rw [objOf_lookup, declTy, ← List.map_reverse, List.find?_map]
    cases h : jobs.reverse.find? ((fun x_1 : String × Ty => decide (x_1.1 = x)) ∘ fun kv => (kv.1, jobEntry kv.2)) with
    | none =>
      have : jobs.reverse.find? (fun kv => decide (kv.1 = x)) = none := h
      simp [this]
    | some kv =>
      have : jobs.reverse.find? (fun kv => decide (kv.1 = x)) = some kv := h
      simp [this]
  · rw [lookup_propsFold_isSome]
    simp [Ty.lookup, List.map_map, Function.comp_def]

/-- `jobs.<job>.outputs.<name>` for a job with steps: defined iff `<name>` is a declared output of that job; and
**`jobs.<job>.result` is NOT defined** (it is reported as an undefined property) -/
theorem jobEntry_exact (j : Job) (hcall : j.workflowCall = none) :
    ∃ os, jobEntry j = .obj [("outputs", .obj os none)] none ∧
      (∀ name, Ty.lookup name os = if name ∈ (j.outputs.getD []).map (·.1) then some .string else none) ∧
      Ty.lookup "result" [("outputs", Ty.obj os none)] = none := by
  obtain ⟨os, eo, ho⟩ := declaredOutputs_exact j
  refine ⟨os, by simp [jobEntry, hcall, eo], ho, by simp [Ty.lookup]⟩

theorem jobEntry_call (j : Job) (hcall : j.workflowCall.isSome = true) :
    jobEntry j = .obj [("outputs", .obj [] (some .any))] none := by
  simp [jobEntry, hcall]

/-- where `jobs` is in scope: exactly for the `workflow_call` output values, which are checked under the header of `on:`
with an EMPTY per-job state (no `needs`, `steps`, `matrix` of any job) -/
theorem rule_outputs_eq (lower : String → String) (isNum : IsNumber) (w : Workflow) (proj : ProjView) :
    ∃ hd, rule lower isNum w proj = hd ++
      (match findCallOutputs (w.on.getD []) with
       | some outs =>
         if outs.isEmpty || (w.jobs.getD []).isEmpty then []
         else outs.flatMap fun kv =>
           checkString { ruleCx lower proj w with jobsTy := some (jobsTyOf (w.jobs.getD [])) } kv.2.value
             "on.workflow_call.outputs.<output_id>.value"
       | none => []) :=
  ⟨_, rfl⟩

/-! ## 6. the property, end to end: "reported as undefined iff not in scope"

`envOf cx key` is the environment `checkSemanticsOfExprNode` builds in state `cx` for a string under workflow key `key`;
`ctx.name` with `ctx` available under `key` gets `prop-undefined` iff `name` is not a property of the scope object. -/

theorem envOf_vars (cx : Cx) (key : String) : (envOf cx key).vars = (mkEnv cx.lower cx.hdr cx.jobsTy cx.st key).vars := rfl

/-- the checker's verdict on `ctx.name` for a strict scope object -/
theorem reported_iff (cx : Cx) (key ctx name : String) (ps : List (String × Ty))
    (hl : Ty.lookup ctx (envOf cx key).vars = some (.obj ps none))
    (ha : (AL.Visit.availability key).1.contains (cx.lower ctx) = true) :
    AL.C05.undefinedProp name (check (envOf cx key) (.objDeref (.var ctx) name)) ↔ Ty.lookup name ps = none :=
  AL.C05.strict_scope_exact (envOf cx key) ctx name ps hl ha

/-- … and for a loose one: nothing is reported -/
theorem silent_of_loose (cx : Cx) (key ctx name : String) (ps : List (String × Ty)) (mt : Ty)
    (hl : Ty.lookup ctx (envOf cx key).vars = some (.obj ps (some mt)))
    (ha : (AL.Visit.availability key).1.contains (cx.lower ctx) = true) (hv : ctx ≠ "vars") :
    (check (envOf cx key) (.objDeref (.var ctx) name)).errs = [] :=
  AL.C05.open_scope_silent (envOf cx key) ctx name _ hl ha (Or.inr ⟨ps, mt, rfl⟩) hv

/-- **`needs.<name>` in a job** (any string checked by `VisitJobPre`, under a key where `needs` is available) **is reported
iff `<name>` is not a directly needed existing job** -/
theorem needs_reported_iff (cx0 : Cx) (isNum : IsNumber) (jobs : List (String × Job)) (n : Job) (key name : String)
    (ha : (AL.Visit.availability key).1.contains (cx0.lower "needs") = true) :
    AL.C05.undefinedProp name (check (envOf (jobCx cx0 isNum jobs n) key) (.objDeref (.var "needs") name)) ↔
      ¬ (name ∈ (n.needs.getD []).map (fun id => cx0.lower id.value) ∧ name ≠ cx0.lower n.id.value ∧ (lookupJob name jobs).isSome = true) := by
  obtain ⟨hn, _, _, _, hlow, _, _⟩ := jobCx_scope cx0 isNum jobs n
  obtain ⟨ps, e, h⟩ := needs_exact (cx0.proj.jobView n.id.value).outs cx0.lower jobs n
  have hl : Ty.lookup "needs" (envOf (jobCx cx0 isNum jobs n) key).vars = some (.obj ps none) := by
    rw [envOf_vars, (scope_st _ _ _ _ _).1, hn, e]; rfl
  rw [reported_iff _ key "needs" name ps hl (by rw [hlow]; exact ha), h name]
  by_cases hc : name ∈ (n.needs.getD []).map (fun id => cx0.lower id.value) ∧ name ≠ cx0.lower n.id.value
  · simp only [hc, and_self, if_true, Option.map_eq_none_iff, true_and, ne_eq, not_false_eq_true]
    cases lookupJob name jobs <;> simp
  · simp only [hc, if_false, true_iff]
    intro h'
    exact hc ⟨h'.1, h'.2.1⟩

/-- **`steps.<name>` in the step that follows the steps `pre` of a job** (see `job_step_scope`) **is reported iff no step
of `pre` — no EARLIER step — has that id** (ids without placeholder; with one, nothing is reported: `stepsAfter_loose`) -/
theorem steps_reported_iff (cx0 : Cx) (isNum : IsNumber) (jobs : List (String × Job)) (n : Job) (pre : List Step)
    (hlit : ∀ s' ∈ pre, ∀ id, s'.id = some id → AL.Rules.containsExpr id = false)
    (key name : String) (ha : (AL.Visit.availability key).1.contains (cx0.lower "steps") = true) :
    AL.C05.undefinedProp name (check (envOf (stepCx cx0 isNum jobs n pre) key) (.objDeref (.var "steps") name)) ↔
      ¬ ∃ s' ∈ pre, ∃ id, s'.id = some id ∧ cx0.lower id.value = name := by
  have h2 : (stepCx cx0 isNum jobs n pre).st.stepsTy = some (stepsAfter (jobCxS cx0 isNum jobs n) pre) := by
    unfold stepCx; rw [(visitSteps_stepsTy pre _).1]; rfl
  have hlow : (stepCx cx0 isNum jobs n pre).lower = cx0.lower := by
    unfold stepCx; rw [(AL.C05E.visitSteps_scope pre _).2.2.2]; exact (jobCxS_scope cx0 isNum jobs n).2.2.2.2.1
  obtain ⟨ps, e⟩ := stepsAfter_strict (jobCxS cx0 isNum jobs n) pre hlit
  have hl : Ty.lookup "steps" (envOf (stepCx cx0 isNum jobs n pre) key).vars = some (.obj ps none) := by
    rw [envOf_vars, (scope_st _ _ _ _ _).2.1, h2, e]; rfl
  rw [reported_iff _ key "steps" name ps hl (by rw [hlow]; exact ha)]
  have hk := stepsAfter_keys (jobCxS cx0 isNum jobs n) pre name
  rw [e, (jobCxS_scope cx0 isNum jobs n).2.2.2.2.1] at hk
  simp only [propsOf] at hk
  rw [← hk]
  cases Ty.lookup name ps <;> simp

/-- … and in `VisitJobPost` (`outputs`, `environment`): iff NO step of the job has that id -/
theorem steps_reported_post_iff (cx0 : Cx) (isNum : IsNumber) (jobs : List (String × Job)) (n : Job)
    (hlit : ∀ s' ∈ n.steps.getD [], ∀ id, s'.id = some id → AL.Rules.containsExpr id = false)
    (key name : String) (ha : (AL.Visit.availability key).1.contains (cx0.lower "steps") = true) :
    AL.C05.undefinedProp name (check (envOf (jobCxPost cx0 isNum jobs n) key) (.objDeref (.var "steps") name)) ↔
      ¬ ∃ s' ∈ n.steps.getD [], ∃ id, s'.id = some id ∧ cx0.lower id.value = name :=
  steps_reported_iff cx0 isNum jobs n (n.steps.getD []) hlit key name ha

/-- **`secrets.<name>` in a reusable workflow that declares secrets is reported iff `<name>` is neither declared nor
automatic**; without the `secrets:` key nothing is reported -/
theorem secrets_reported_iff (cx : Cx) (ns : List String) (hsec : cx.hdr.callSecrets = some ns) (key name : String)
    (ha : (AL.Visit.availability key).1.contains (cx.lower "secrets") = true) :
    AL.C05.undefinedProp name (check (envOf cx key) (.objDeref (.var "secrets") name)) ↔
      ¬ (name ∈ ns ∨ name ∈ ["actions_runner_debug", "actions_step_debug", "github_token"]) := by
  obtain ⟨ps, e, h⟩ := secretsTy_exact ns
  have hl : Ty.lookup "secrets" (envOf cx key).vars = some (.obj ps none) := by
    rw [envOf_vars, scope_secrets, hsec]
    simp only [e]
  rw [reported_iff cx key "secrets" name ps hl ha, h name]
  by_cases hc : name ∈ ns ∨ name ∈ ["actions_runner_debug", "actions_step_debug", "github_token"]
  · simp only [hc, if_true, not_true_eq_false, reduceCtorEq]
  · simp only [hc, if_false, not_false_eq_true]

theorem secrets_silent (cx : Cx) (hsec : cx.hdr.callSecrets = none) (key name : String)
    (ha : (AL.Visit.availability key).1.contains (cx.lower "secrets") = true) :
    (check (envOf cx key) (.objDeref (.var "secrets") name)).errs = [] := by
  refine silent_of_loose cx key "secrets" name [] .string ?_ ha (by decide)
  rw [envOf_vars, scope_secrets, hsec]

/-- **`inputs.<name>` is reported iff `<name>` is not a declared input** of `workflow_call` / `workflow_dispatch` -/
theorem inputs_reported_iff (cx : Cx) (key name : String)
    (ha : (AL.Visit.availability key).1.contains (cx.lower "inputs") = true) :
    AL.C05.undefinedProp name (check (envOf cx key) (.objDeref (.var "inputs") name)) ↔
      ¬ (name ∈ (cx.hdr.callInputs.getD []).map (·.1) ∨ name ∈ (cx.hdr.dispatchInputs.getD []).map (·.1)) := by
  obtain ⟨ps, e, _⟩ := inputs_exact cx.hdr
  have hl : Ty.lookup "inputs" (envOf cx key).vars = some (.obj ps none) := by
    rw [envOf_vars, scope_inputs, e]
  have hk := inputs_keys cx.hdr name
  rw [e] at hk
  simp only [propsOf] at hk
  rw [reported_iff cx key "inputs" name ps hl ha, ← hk]
  cases Ty.lookup name ps <;> simp

/-- **`matrix.<name>` in a job with a literal matrix is reported iff `<name>` is neither a row key nor assigned by an
`include` entry** -/
theorem matrix_reported_iff (cx0 : Cx) (isNum : IsNumber) (jobs : List (String × Job)) (n : Job) (m : Matrix)
    (inc : MatrixCombinations) (hm : matrixOf n = some m) (he : m.expr = none)
    (hi : m.incl = some inc) (hie : inc.expr = none) (hall : ∀ c ∈ inc.combinations.getD [], c.expr = none)
    (key name : String) (ha : (AL.Visit.availability key).1.contains (cx0.lower "matrix") = true) :
    AL.C05.undefinedProp name (check (envOf (jobCx cx0 isNum jobs n) key) (.objDeref (.var "matrix") name)) ↔
      ¬ (name ∈ (m.rows.getD []).map (·.1) ∨ ∃ c ∈ inc.combinations.getD [], name ∈ (c.assigns.getD []).map (·.1)) := by
  obtain ⟨_, hmx, _, _, hlow, _, _⟩ := jobCx_scope cx0 isNum jobs n
  rw [hm] at hmx
  obtain ⟨ps, e, hk⟩ := matrix_literal (jobCx1 cx0 jobs n) isNum m inc he hi hie hall
  have hl : Ty.lookup "matrix" (envOf (jobCx cx0 isNum jobs n) key).vars = some (.obj ps none) := by
    rw [envOf_vars, (scope_st _ _ _ _ _).2.2, hmx]
    simp only [e, Option.getD_some]
  rw [reported_iff _ key "matrix" name ps hl (by rw [hlow]; exact ha), ← hk name]
  cases Ty.lookup name ps <;> simp

/-! ### concrete instances for sections 4 – 6 -/

private def evPush : Ast.Event := .webhook { hook := str "push", pos := p0 }
private def evCron : Ast.Event := .schedule [str "0 0 * * *"] p0
private def evDispatch : Ast.Event :=
  .dispatch (some [("tag", ⟨str "tag", none, none, none, .string, none⟩), ("dry", ⟨str "dry", none, none, none, .boolean, none⟩)]) p0
private def evCall : Ast.Event :=
  .call (some [{ name := str "tag", type := .string, id := "tag" }, { name := str "count", type := .number, id := "count" }])
    (some [("token", { name := str "token" })]) none p0
private def evCallNoSecrets : Ast.Event := .call (some [{ name := str "tag", type := .string, id := "tag" }]) none none p0
private def exOn : List Ast.Event := [evPush, evDispatch, evCall, evCron]
private def exHdr : Header := exOn.foldl eventHdr ⟨none, none, none⟩

example : ∀ e ∈ [evPush, evCron], isCall e = false ∧ isDispatch e = false := by
  intro e he
  simp only [List.mem_cons, List.not_mem_nil, or_false] at he
  rcases he with rfl | rfl <;> exact ⟨rfl, rfl⟩
example : exOn = [evPush, evDispatch] ++ evCall :: [evCron] ∧ (∀ e ∈ [evCron], isCall e = false) ∧
    exOn = [evPush] ++ evDispatch :: [evCall, evCron] ∧ (∀ e ∈ [evCall, evCron], isDispatch e = false) := by
  refine ⟨rfl, ?_, rfl, ?_⟩
  · intro e he; simp only [List.mem_singleton] at he; subst he; rfl
  · intro e he
    simp only [List.mem_cons, List.not_mem_nil, or_false] at he
    rcases he with rfl | rfl <;> rfl
/-- the header of `on: {push, workflow_dispatch: {tag: string, dry: boolean}, workflow_call: {tag: string, count: number; secrets: token}, schedule}` -/
example : exHdr.callInputs = some [("tag", .string), ("count", .number)] ∧
    exHdr.dispatchInputs = some [("tag", .string), ("dry", .bool)] ∧ exHdr.callSecrets = some ["token"] := ⟨rfl, rfl, rfl⟩
/-- … `inputs` is the union of the two, strict; `secrets` the declared one plus the automatic three -/
example : inputsTyOf exHdr = .obj [("count", .number), ("dry", .bool), ("tag", .string)] none :=
  tyEq_sound _ _ (by decide +kernel)
example : AL.Visit.secretsTy ["token"] =
    .obj [("actions_runner_debug", .string), ("actions_step_debug", .string), ("github_token", .string), ("token", .string)] none :=
  tyEq_sound _ _ (by decide +kernel)
/-- `workflow_call` without `secrets:`: the header has no secrets — `secrets` stays `{string => string}` -/
example : ([evCallNoSecrets].foldl eventHdr ⟨none, none, none⟩).callSecrets = none := rfl

private def cxW : Cx := { lower := AL.PW.asciiLower, hdr := exHdr }
private def keyRun : String := "jobs.<job_id>.steps.run"

example : ∀ c ∈ ["needs", "steps", "matrix", "inputs", "secrets"],
    (AL.Visit.availability keyRun).1.contains (AL.PW.asciiLower c) = true := by decide +kernel

/-- `secrets.other` / `inputs.other` are reported, `secrets.token` / `secrets.github_token` / `inputs.dry` are not -/
example : AL.C05.undefinedProp "other" (check (envOf cxW keyRun) (.objDeref (.var "secrets") "other")) ∧
    ¬ AL.C05.undefinedProp "token" (check (envOf cxW keyRun) (.objDeref (.var "secrets") "token")) ∧
    ¬ AL.C05.undefinedProp "github_token" (check (envOf cxW keyRun) (.objDeref (.var "secrets") "github_token")) :=
  ⟨(secrets_reported_iff cxW ["token"] rfl keyRun "other" (by decide +kernel)).2 (by decide),
   fun h => (secrets_reported_iff cxW ["token"] rfl keyRun "token" (by decide +kernel)).1 h (by decide),
   fun h => (secrets_reported_iff cxW ["token"] rfl keyRun "github_token" (by decide +kernel)).1 h (by decide)⟩
example : AL.C05.undefinedProp "other" (check (envOf cxW keyRun) (.objDeref (.var "inputs") "other")) ∧
    ¬ AL.C05.undefinedProp "dry" (check (envOf cxW keyRun) (.objDeref (.var "inputs") "dry")) :=
  ⟨(inputs_reported_iff cxW keyRun "other" (by decide +kernel)).2 (by decide),
   fun h => (inputs_reported_iff cxW keyRun "dry" (by decide +kernel)).1 h (by decide)⟩
/-- without `workflow_call` secrets nothing is reported -/
example : (check (envOf cxL keyRun) (.objDeref (.var "secrets") "anything")).errs = [] :=
  secrets_silent cxL rfl keyRun "anything" (by decide +kernel)

/-- **`needs.build` in `deploy` IS reported**: `deploy` needs `test`, `test` needs `build` — nothing transitive;
`needs.test` is not reported -/
example : AL.C05.undefinedProp "build" (check (envOf (jobCx cxL noNum exJobs jDeploy) keyRun) (.objDeref (.var "needs") "build")) ∧
    ¬ AL.C05.undefinedProp "test" (check (envOf (jobCx cxL noNum exJobs jDeploy) keyRun) (.objDeref (.var "needs") "test")) :=
  ⟨(needs_reported_iff cxL noNum exJobs jDeploy keyRun "build" (by decide +kernel)).2 (by decide +kernel),
   fun h => (needs_reported_iff cxL noNum exJobs jDeploy keyRun "test" (by decide +kernel)).1 h (by decide +kernel)⟩

/-- in step `b` of `[A, (no id), b]`: `steps.a` is fine, `steps.b` (the step itself) is reported; in the job's `outputs`
both are fine, `steps.c` is reported -/
example : jSteps.steps.getD [] = [stA, stN] ++ stB :: [] ∧
    AL.C05.undefinedProp "b" (check (envOf (stepCx cxL noNum exJobs jSteps [stA, stN]) keyRun) (.objDeref (.var "steps") "b")) ∧
    ¬ AL.C05.undefinedProp "a" (check (envOf (stepCx cxL noNum exJobs jSteps [stA, stN]) keyRun) (.objDeref (.var "steps") "a")) ∧
    ¬ AL.C05.undefinedProp "b" (check (envOf (jobCxPost cxL noNum exJobs jSteps) "jobs.<job_id>.outputs.<output_id>")
        (.objDeref (.var "steps") "b")) ∧
    AL.C05.undefinedProp "c" (check (envOf (jobCxPost cxL noNum exJobs jSteps) "jobs.<job_id>.outputs.<output_id>")
        (.objDeref (.var "steps") "c")) := by
  have hlit : ∀ s' ∈ [stA, stN, stB], ∀ id, s'.id = some id → AL.Rules.containsExpr id = false := by
    intro s hs id hid
    simp only [List.mem_cons, List.not_mem_nil, or_false] at hs
    rcases hs with rfl | rfl | rfl
    · cases hid; decide +kernel
    · cases hid
    · cases hid; decide +kernel
  have hlit2 : ∀ s' ∈ [stA, stN], ∀ id, s'.id = some id → AL.Rules.containsExpr id = false :=
    fun s' hs' => hlit s' (by simp only [List.mem_cons, List.not_mem_nil, or_false] at hs' ⊢; rcases hs' with h | h <;> simp [h])
  refine ⟨rfl, ?_, ?_, ?_, ?_⟩
  · refine (steps_reported_iff cxL noNum exJobs jSteps [stA, stN] hlit2 keyRun "b" (by decide +kernel)).2 ?_
    rintro ⟨s', hs', id, h1, h2⟩
    simp only [List.mem_cons, List.not_mem_nil, or_false] at hs'
    rcases hs' with rfl | rfl
    · cases h1; revert h2; decide +kernel
    · cases h1
  · intro h
    exact (steps_reported_iff cxL noNum exJobs jSteps [stA, stN] hlit2 keyRun "a" (by decide +kernel)).1 h
      ⟨stA, by simp, str "A", rfl, by decide +kernel⟩
  · intro h
    exact (steps_reported_post_iff cxL noNum exJobs jSteps hlit _ "b" (by decide +kernel)).1 h
      ⟨stB, by simp [jSteps], str "b", rfl, by decide +kernel⟩
  · refine (steps_reported_post_iff cxL noNum exJobs jSteps hlit _ "c" (by decide +kernel)).2 ?_
    rintro ⟨s', hs', id, h1, h2⟩
    simp only [jSteps, Option.getD_some, List.mem_cons, List.not_mem_nil, or_false] at hs'
    rcases hs' with rfl | rfl | rfl
    · cases h1; revert h2; decide +kernel
    · cases h1
    · cases h1; revert h2; decide +kernel

private def jMat : Job := { id := str "m", strategy := some { matrix := some mLit, pos := p0 }, pos := p0 }
/-- with `matrix: {os: […], ver: […], include: [{os: win, extra: true}]}`: `matrix.extra` (include only) is fine,
`matrix.nope` is reported -/
example : matrixOf jMat = some mLit ∧
    ¬ AL.C05.undefinedProp "extra" (check (envOf (jobCx cxL noNum exJobs jMat) keyRun) (.objDeref (.var "matrix") "extra")) ∧
    AL.C05.undefinedProp "nope" (check (envOf (jobCx cxL noNum exJobs jMat) keyRun) (.objDeref (.var "matrix") "nope")) := by
  have hall : ∀ c ∈ incLit.combinations.getD [], c.expr = none := by
    intro c hc; simp only [incLit, Option.getD_some, List.mem_singleton] at hc; subst hc; rfl
  refine ⟨rfl, ?_, ?_⟩
  · intro h
    exact (matrix_reported_iff cxL noNum exJobs jMat mLit incLit rfl rfl rfl rfl hall keyRun "extra" (by decide +kernel)).1 h
      (Or.inr ⟨cLit, by simp [incLit], by decide⟩)
  · refine (matrix_reported_iff cxL noNum exJobs jMat mLit incLit rfl rfl rfl rfl hall keyRun "nope" (by decide +kernel)).2 ?_
    rintro (h | ⟨c, hc, hx⟩)
    · revert h; decide
    · simp only [incLit, Option.getD_some, List.mem_singleton] at hc
      subst hc
      revert hx; decide

/-- `jobs`: one entry per job, `outputs` only — `jobs.build.result` is not defined -/
example : jobsTyOf [("build", jBuild), ("call", jCall)] =
    .obj [("build", .obj [("outputs", .obj [("art", .string), ("ver", .string)] none)] none),
          ("call", .obj [("outputs", .obj [] (some .any))] none)] none := tyEq_sound _ _ (by decide +kernel)
example : jBuild.workflowCall = none ∧ jCall.workflowCall.isSome = true := ⟨rfl, rfl⟩

/-- an `include` entry whose expression has a diagnostic of its own (so it is reported anyway) leaves `matrix` as it was —
in particular strict -/
theorem includeCombo_expr_failed (cx : Cx) (isNum : IsNumber) (c : MatrixCombination) (e : Str) (hc : c.expr = some e)
    (hf : comboExprTy cx e = none) (ps : List (String × Ty)) (m : Option Ty) (ds : List Diag) :
    (includeCombo cx isNum (.obj ps m, ds) c).1 = .obj ps m := by
  rw [includeCombo_expr cx isNum c e hc, hf]

/-! ### remaining hypotheses, on the data above -/

example : ∃ t, Ty.lookup "a" (propsOf (stepsAfter cxL [stA, stN, stB])) = some t :=
  Option.isSome_iff_exists.1 (by decide +kernel)
example : ∃ t, Ty.lookup "os" (rowsProps cxL noNum [rowOs, rowVer]) = some t :=
  Option.isSome_iff_exists.1 (by decide +kernel)
example : cLit.expr = none ∧ cDyn.expr = some (str "${{ fromJSON(vars.ENTRY) }}") := ⟨rfl, rfl⟩
example : ∀ qs m', Ty.string ≠ .obj qs m' := fun _ _ h => nomatch h
example : mDynEntry.expr = none ∧ mDynEntry.incl = some incDynEntry ∧ incDynEntry.expr = none ∧
    (∃ c ∈ incDynEntry.combinations.getD [], "extra" ∈ comboKeys c) :=
  ⟨rfl, rfl, rfl, cLit, by simp [incDynEntry], by decide⟩
/-- `${{` as an include entry: a syntax error, `comboExprTy = none` -/
example : comboExprTy cxL (str "${{") = none := by
  have hb : bytesOf "${{" = [36, 123, 123] := by decide +kernel
  have hi : AL.Proc.indexOf AL.Proc.open3 [36, 123, 123] 0 = some 0 := by decide
  have hp : parsed AL.PW.asciiLower [] = none := by
    unfold parsed
    have : (match AL.Lex.lexExpression (decodeUtf8 []) with | .ok _ => true | .error _ => false) = false := by decide +kernel
    split
    · rename_i h1 _; rw [h1] at this; cases this
    · rfl
  simp only [comboExprTy, checkOneExpression, checkExprsIn, str, hb, List.length_cons, List.length_nil, Nat.zero_add,
    Nat.reduceAdd, scan, hi, List.drop_succ_cons, List.drop_nil, checkOne_eq, cxL, hp]

end AL.C05S
