import AL.Model.Render
/-
  C16, the snippet's indicator line (error.go `getIndicator`, AL.Render.indicator): for a column ≥ 1 it consists of
  `width(line[:col-1])` spaces, ONE caret, and a run of `~`; the caret is at that display offset and nowhere else.
-/
namespace AL.C16I
open AL.Render

theorem indicator_eq (sw : List Nat → Nat) (rw : Nat → Nat) (l : List Nat) (col : Nat) (h : 0 < col) :
    indicator sw rw l col =
      List.replicate (sw (l.take (col - 1))) ' ' ++ '^' ::
        List.replicate (underlineWidth rw (AL.decodeUtf8 (l.drop (col - 1))) - 1) '~' := by
  have : col ≠ 0 := by omega
  simp [indicator, this]

/-- the caret stands at display offset `width(line[:col-1])`, only spaces before it, only `~` after it -/
theorem caret_position (sw : List Nat → Nat) (rw : Nat → Nat) (l : List Nat) (col : Nat) (h : 0 < col) :
    let ind := indicator sw rw l col
    let w := sw (l.take (col - 1))
    ind[w]? = some '^' ∧ (∀ i, i < w → ind[i]? = some ' ') ∧ (∀ i, w < i → i < ind.length → ind[i]? = some '~') := by
  intro ind w
  have he : ind = List.replicate w ' ' ++ '^' :: List.replicate (underlineWidth rw (AL.decodeUtf8 (l.drop (col - 1))) - 1) '~' :=
    indicator_eq sw rw l col h
  refine ⟨?_, ?_, ?_⟩
  · rw [he, List.getElem?_append_right (by simp)]
    simp
  · intro i hi
    rw [he, List.getElem?_append_left (by simpa using hi)]
    simp [hi]
  · intro i hi hlen
    rw [he] at hlen ⊢
    rw [List.getElem?_append_right (by simp; omega)]
    simp only [List.length_replicate]
    have : i - w = (i - w - 1) + 1 := by omega
    rw [this, List.getElem?_cons_succ]
    simp only [List.length_append, List.length_replicate, List.length_cons] at hlen
    rw [List.getElem?_replicate]
    simp
    omega

/-- exactly one caret -/
theorem one_caret (sw : List Nat → Nat) (rw : Nat → Nat) (l : List Nat) (col : Nat) (h : 0 < col) :
    (indicator sw rw l col).count '^' = 1 := by
  rw [indicator_eq sw rw l col h]
  simp [List.count_append, List.count_replicate]

/-- column 0 (a diagnostic without a column): no indicator -/
theorem no_indicator_without_column (sw : List Nat → Nat) (rw : Nat → Nat) (l : List Nat) : indicator sw rw l 0 = [] := by
  simp [indicator]

/-- the underline ends at the first space / tab / line break after the column -/
theorem underline_stops_at_space (rw : Nat → Nat) (pre rest : List AL.Sym) (s : AL.Sym)
    (hs : s.r = 32 ∨ s.r = 9 ∨ s.r = 10 ∨ s.r = 13)
    (hpre : ∀ x ∈ pre, x.r ≠ 32 ∧ x.r ≠ 9 ∧ x.r ≠ 10 ∧ x.r ≠ 13) :
    underlineWidth rw (pre ++ s :: rest) = (pre.map (fun x => rw x.r)).sum := by
  induction pre with
  | nil =>
    simp only [List.nil_append, underlineWidth, List.map_nil, List.sum_nil]
    rcases hs with h | h | h | h <;> simp [h]
  | cons x xs ih =>
    have hx := hpre x (by simp)
    simp only [List.cons_append, underlineWidth, List.map_cons, List.sum_cons]
    simp only [hx.1, hx.2.1, hx.2.2.1, hx.2.2.2, decide_false, Bool.or_false, Bool.false_eq_true, if_false]
    rw [ih (fun y hy => hpre y (List.mem_cons_of_mem _ hy))]

end AL.C16I
