import AL.Props.C09Visit
/-
  C05 (workflow level): the scope theorems about AL.Visit that the C05 check relies on when it turns a difference
  between the real linter and the model into a failing input. Proved in AL/Props/C09Visit.lean; restated here so that
  the C05 check builds and audits exactly what it cites.
-/
namespace AL.Props.C05Visit
open AL AL.Visit AL.Props.C09Visit

/-- a step's strings see the ids of the steps before it only -/
theorem steps_scope : steps_scope_statement := AL.Props.C09Visit.steps_scope
/-- … and those are exactly the (lower-cased) ids written on earlier steps -/
theorem steps_ids : steps_ids_statement := AL.Props.C09Visit.steps_ids
/-- `steps` stays strict (undefined ids are reported) unless an earlier id contains a placeholder -/
theorem steps_strict : steps_strict_statement := AL.Props.C09Visit.steps_strict
/-- `needs` holds exactly the directly needed, existing jobs other than the job itself -/
theorem needs_exact : needs_exact_statement := AL.Props.C09Visit.needs_exact
/-- … each with the outputs that job declares -/
theorem needs_entry : needs_entry_statement := AL.Props.C09Visit.needs_entry

end AL.Props.C05Visit
