import AL.Props.C08
import AL.Props.C08Parse
import AL.Props.C14
import AL.Props.C14Rules
import AL.Props.C14Proj
import AL.Props.C05Expr
import AL.Lemmas.Visit
/-
  C08 on the models of the RULES: names are matched through `lower` (the model of `strings.ToLower`, a parameter) only.

    1. step ids          rule_id.go        `AL.Rules.idSteps`
    2. `with:` of a step rule_action.go    `AL.Rules.checkActionInputs`, `AL.ProjAction.inputDiags`
    3. `with:`/`secrets:` of a call        `AL.ProjCall.checkLocal`
    4. `needs` / `steps` / `inputs`        rule_expression.go `AL.RuleExpr.needsTy`, `visitSteps`, `callInputs`
    5. shell names, runner labels, boolean defaults   `checkShellName`, `verifyRunnerLabel`, `checkCallEvent`

  Every theorem is for every input and every `lower`. One place where the Go code does NOT go through `lower` (witness
  theorem, replayed on the Go binary): `runner_config_label_case_sensitive` (rule_runner_label.go: `path.Match(k, l)` on the
  labels of actionlint.yaml; runner labels are not among the names of the property). A second one was a defect of the pinned
  tree and is repaired (/repo 090f683): rule_expression.go `populateDependantNeedsTypes` compared the folded entry of `needs:`
  with the job id AS WRITTEN (`i == root.ID.Value`); `needs_self_folded` is the statement that holds now.
-/
namespace AL.C08R
open AL AL.Ast AL.Rules

/-- the site and the code of a diagnostic: what does not echo the spelling -/
def sig (d : Diag) : AL.Rules.Pos × String := (d.pos, d.code)

/-! ## 1. step ids (rule_id.go) -/

/-- the ids of the steps of a job, in order -/
def ids (steps : List Step) : List Str := steps.filterMap (·.id)

/-- what `VisitStep` reports about the id `y` when the ids `pre` came before it in the job: a duplicate iff one of them
folds to the same string; the position in the message is the FIRST such id's -/
def dupOf (lower : String → String) (pre : List Str) (y : Str) : List Diag :=
  match pre.find? (fun x => lower x.value = lower y.value) with
  | some x => [⟨y.pos, "id", "step-id-duplicate", [y.value, AL.PW.posString x.pos]⟩]
  | none => []

/-- the specification of `idSteps`: no `seen` map, every id is compared with ALL the ids before it -/
def idSpec (lower : String → String) : List Str → List Str → List Diag
  | _, [] => []
  | pre, y :: rest => validateConvention (some y) "step" ++ dupOf lower pre y ++ idSpec lower (pre ++ [y]) rest

/-- `rule.seen` holds, for every folded id, the position of the first step that has it -/
def SeenOk (lower : String → String) (seen : List (String × AL.Rules.Pos)) (pre : List Str) : Prop :=
  ∀ k, lookupSeen k seen = (pre.find? (fun x => lower x.value = k)).map (·.pos)

theorem lookupSeen_snoc (k id : String) (p : AL.Rules.Pos) : ∀ (seen : List (String × AL.Rules.Pos)),
    lookupSeen k (seen ++ [(id, p)]) = (lookupSeen k seen).or (if id = k then some p else none)
  | [] => by simp [lookupSeen]
  | (k', p') :: rest => by
    simp only [List.cons_append, lookupSeen]
    split
    · simp
    · exact lookupSeen_snoc k id p rest

theorem seenOk_dup {lower : String → String} {seen : List (String × AL.Rules.Pos)} {pre : List Str} (s x : Str)
    (h : SeenOk lower seen pre) (hx : pre.find? (fun x => lower x.value = lower s.value) = some x) :
    SeenOk lower seen (pre ++ [s]) := by
  intro k
  rw [h k, List.find?_append]
  cases hk : pre.find? (fun x => decide (lower x.value = k)) with
  | some z => simp
  | none =>
    have : ¬ lower s.value = k := by
      intro e
      subst e
      rw [hx] at hk
      cases hk
    simp [this]

theorem seenOk_new {lower : String → String} {seen : List (String × AL.Rules.Pos)} {pre : List Str} (s : Str)
    (h : SeenOk lower seen pre) : SeenOk lower (seen ++ [(lower s.value, s.pos)]) (pre ++ [s]) := by
  intro k
  rw [lookupSeen_snoc, h k, List.find?_append]
  cases hk : pre.find? (fun x => decide (lower x.value = k)) with
  | some z => simp
  | none =>
    by_cases e : lower s.value = k
    · simp [e]
    · simp [e]

/-- **step ids, exact**: `idSteps` (with its `seen` map, which only ever records the FIRST step of each folded id) is
the specification `idSpec` — for every list of steps -/
theorem idSteps_spec (lower : String → String) : ∀ (steps : List Step) (seen : List (String × AL.Rules.Pos)) (pre : List Str),
    SeenOk lower seen pre → idSteps lower steps seen = idSpec lower pre (ids steps)
  | [], _, _, _ => by simp [idSteps, ids, idSpec]
  | st :: rest, seen, pre, h => by
    rw [idSteps]
    cases hid : st.id with
    | none =>
      have : ids (st :: rest) = ids rest := by simp [ids, hid]
      rw [this]
      exact idSteps_spec lower rest seen pre h
    | some s =>
      have : ids (st :: rest) = s :: ids rest := by simp [ids, hid]
      rw [this, idSpec]
      simp only
      rw [h (lower s.value)]
      cases hf : pre.find? (fun x => decide (lower x.value = lower s.value)) with
      | some x =>
        simp only [Option.map_some, dupOf, hf]
        rw [idSteps_spec lower rest seen (pre ++ [s]) (seenOk_dup s x h hf)]
      | none =>
        simp only [Option.map_none, dupOf, hf, List.append_nil]
        rw [idSteps_spec lower rest _ (pre ++ [s]) (seenOk_new s h)]

theorem seenOk_nil (lower : String → String) : SeenOk lower [] [] := by intro k; simp [lookupSeen]

/-- the steps of one job (`VisitJobPre` resets `seen`) -/
theorem idSteps_job (lower : String → String) (steps : List Step) : idSteps lower steps [] = idSpec lower [] (ids steps) :=
  idSteps_spec lower steps [] [] (seenOk_nil lower)

/-- a duplicate is reported for `y` iff an id before it folds to the same string -/
theorem dupOf_ne_nil_iff (lower : String → String) (pre : List Str) (y : Str) :
    dupOf lower pre y ≠ [] ↔ ∃ x ∈ pre, lower x.value = lower y.value := by
  simp only [dupOf]
  cases hf : pre.find? (fun x => decide (lower x.value = lower y.value)) with
  | some x =>
    simp only [ne_eq, List.cons_ne_nil, not_false_eq_true, true_iff]
    exact ⟨x, List.mem_of_find?_eq_some hf, by simpa using List.find?_some hf⟩
  | none =>
    simp only [ne_eq, not_true_eq_false, false_iff, not_exists, not_and]
    intro x hx
    simpa using List.find?_eq_none.1 hf x hx

/-- … it is reported at `y`, and the position it shows is that of the FIRST id before `y` that folds to the same string -/
theorem mem_dupOf_iff (lower : String → String) (pre : List Str) (y : Str) (d : Diag) :
    d ∈ dupOf lower pre y ↔
      ∃ a x b, pre = a ++ x :: b ∧ (∀ z ∈ a, lower z.value ≠ lower y.value) ∧ lower x.value = lower y.value ∧
        d = ⟨y.pos, "id", "step-id-duplicate", [y.value, AL.PW.posString x.pos]⟩ := by
  simp only [dupOf]
  cases hf : pre.find? (fun x => decide (lower x.value = lower y.value)) with
  | some x =>
    obtain ⟨hp, a, b, e, ha⟩ := List.find?_eq_some_iff_append.1 hf
    simp only [List.mem_singleton]
    constructor
    · intro hd
      exact ⟨a, x, b, e, fun z hz => by simpa using ha z hz, by simpa using hp, hd⟩
    · rintro ⟨a', x', b', e', ha', hx', hd⟩
      have : pre.find? (fun x => decide (lower x.value = lower y.value)) = some x' :=
        List.find?_eq_some_iff_append.2 ⟨by simpa using hx', a', b', e', fun z hz => by simpa using ha' z hz⟩
      rw [hf] at this
      cases this
      exact hd
  | none =>
    simp only [List.not_mem_nil, false_iff, not_exists, not_and]
    intro a x b e _ hx
    have := List.find?_eq_none.1 hf x (by rw [e]; simp)
    simp [hx] at this

/-- the duplicate diagnostics alone -/
def isDup (d : Diag) : Bool := d.code = "step-id-duplicate"

def dupSpec (lower : String → String) : List Str → List Str → List Diag
  | _, [] => []
  | pre, y :: rest => dupOf lower pre y ++ dupSpec lower (pre ++ [y]) rest

theorem filter_dupOf (lower : String → String) (pre : List Str) (y : Str) : (dupOf lower pre y).filter isDup = dupOf lower pre y := by
  simp only [dupOf]
  split <;> simp [isDup]

theorem filter_validateConvention (id : Option Str) (what : String) : (validateConvention id what).filter isDup = [] := by
  simp only [validateConvention]
  split
  · rfl
  · split <;> simp [isDup]

theorem filter_idSpec (lower : String → String) : ∀ (l pre : List Str), (idSpec lower pre l).filter isDup = dupSpec lower pre l
  | [], _ => by simp [idSpec, dupSpec]
  | y :: rest, pre => by
    simp only [idSpec, dupSpec, List.filter_append, filter_dupOf, filter_validateConvention, List.nil_append]
    rw [filter_idSpec lower rest]

theorem mem_dupSpec (lower : String → String) (d : Diag) : ∀ (l pre : List Str),
    d ∈ dupSpec lower pre l ↔ ∃ a y b, l = a ++ y :: b ∧ d ∈ dupOf lower (pre ++ a) y
  | [], _ => by simp [dupSpec]
  | y :: rest, pre => by
    simp only [dupSpec, List.mem_append]
    rw [mem_dupSpec lower d rest]
    constructor
    · rintro (h | ⟨a, y', b, e, h⟩)
      · exact ⟨[], y, rest, rfl, by simpa using h⟩
      · exact ⟨y :: a, y', b, by simp [e], by simpa using h⟩
    · rintro ⟨a, y', b, e, h⟩
      cases a with
      | nil =>
        simp only [List.nil_append, List.cons.injEq] at e
        obtain ⟨rfl, rfl⟩ := e
        exact Or.inl (by simpa using h)
      | cons a0 a =>
        simp only [List.cons_append, List.cons.injEq] at e
        obtain ⟨rfl, rfl⟩ := e
        exact Or.inr ⟨a, y', b, rfl, by simpa using h⟩

/-- **step ids, both directions**: the `step-id-duplicate` diagnostics of a job are exactly: one at every id `y` for which an
EARLIER id `x` of the job has `lower x.value = lower y.value`, showing the position of the first such `x` -/
theorem step_id_duplicate_iff (lower : String → String) (steps : List Step) (d : Diag) :
    (d ∈ idSteps lower steps [] ∧ d.code = "step-id-duplicate") ↔
      ∃ a x b y c, ids steps = a ++ x :: b ++ y :: c ∧ (∀ z ∈ a, lower z.value ≠ lower y.value) ∧
        lower x.value = lower y.value ∧ d = ⟨y.pos, "id", "step-id-duplicate", [y.value, AL.PW.posString x.pos]⟩ := by
  have h1 : (d ∈ idSteps lower steps [] ∧ d.code = "step-id-duplicate") ↔ d ∈ dupSpec lower [] (ids steps) := by
    rw [← filter_idSpec, ← idSteps_job, List.mem_filter]
    simp [isDup]
  rw [h1, mem_dupSpec]
  constructor
  · rintro ⟨p, y, c, e, h⟩
    obtain ⟨a, x, b, e', ha, hx, hd⟩ := (mem_dupOf_iff lower _ y d).1 h
    simp only [List.nil_append] at e'
    subst e'
    exact ⟨a, x, b, y, c, by simpa using e, ha, hx, hd⟩
  · rintro ⟨a, x, b, y, c, e, ha, hx, hd⟩
    exact ⟨a ++ x :: b, y, c, by simpa using e, (mem_dupOf_iff lower _ y d).2 ⟨a, x, b, by simp, ha, hx, hd⟩⟩

/-- the number of duplicates reported = the number of ids that repeat an earlier one -/
theorem dupOf_length_le (lower : String → String) (pre : List Str) (y : Str) : (dupOf lower pre y).length ≤ 1 := by
  simp only [dupOf]; split <;> simp

/-! ### re-casing the ids -/

/-- what the duplicate check sees of an id: its folded text and its position -/
def fk (lower : String → String) (s : Str) : String × AL.Rules.Pos := (lower s.value, s.pos)

/-- site, code and the position shown in the message (the first argument echoes the spelling) -/
def dupSig (d : Diag) : AL.Rules.Pos × String × List String := (d.pos, d.code, d.args.drop 1)

def dupOfK (pre : List (String × AL.Rules.Pos)) (y : String × AL.Rules.Pos) : List (AL.Rules.Pos × String × List String) :=
  match pre.find? (fun x => x.1 = y.1) with
  | some x => [(y.2, "step-id-duplicate", [AL.PW.posString x.2])]
  | none => []

def dupSpecK : List (String × AL.Rules.Pos) → List (String × AL.Rules.Pos) → List (AL.Rules.Pos × String × List String)
  | _, [] => []
  | pre, y :: rest => dupOfK pre y ++ dupSpecK (pre ++ [y]) rest

theorem dupOf_sig (lower : String → String) (pre : List Str) (y : Str) :
    (dupOf lower pre y).map dupSig = dupOfK (pre.map (fk lower)) (fk lower y) := by
  simp only [dupOf, dupOfK, List.find?_map]
  have : ((fun x : String × AL.Rules.Pos => decide (x.1 = (fk lower y).1)) ∘ fk lower) = fun x : Str => decide (lower x.value = lower y.value) := by
    funext x; simp only [Function.comp, fk]; first | rfl | congr
  rw [this]
  cases pre.find? (fun x => decide (lower x.value = lower y.value)) <;> simp [dupSig, fk]

theorem dupSpec_sig (lower : String → String) : ∀ (l pre : List Str),
    (dupSpec lower pre l).map dupSig = dupSpecK (pre.map (fk lower)) (l.map (fk lower))
  | [], _ => by simp [dupSpec, dupSpecK]
  | y :: rest, pre => by
    simp only [dupSpec, dupSpecK, List.map_cons, List.map_append, dupOf_sig]
    rw [dupSpec_sig lower rest (pre ++ [y])]
    simp

/-- **re-casing step ids**: two lists of steps whose ids agree pointwise after folding (same positions) get their
`step-id-duplicate` diagnostics at the same sites, pointing at the same earlier steps -/
theorem idSteps_recase (lower : String → String) (steps steps' : List Step)
    (h : (ids steps).map (fk lower) = (ids steps').map (fk lower)) :
    ((idSteps lower steps []).filter isDup).map dupSig = ((idSteps lower steps' []).filter isDup).map dupSig := by
  rw [idSteps_job, idSteps_job, filter_idSpec, filter_idSpec, dupSpec_sig, dupSpec_sig, h]

/-- the same through `ruleId`'s per-job function: the job's own id and its `needs` are not step ids -/
theorem idJob_dups (lower : String → String) (j : Job) :
    (idJob lower j).filter isDup = dupSpec lower [] (ids (stepsOf j)) := by
  simp only [idJob, List.filter_append, filter_validateConvention, List.nil_append]
  rw [idSteps_job, filter_idSpec]
  have : ((j.needs.getD []).flatMap fun n => validateConvention (some n) "job").filter isDup = [] := by
    induction j.needs.getD [] with
    | nil => rfl
    | cons n ns ih => simp only [List.flatMap_cons, List.filter_append, filter_validateConvention, ih, List.append_nil]
  rw [this, List.nil_append]

/-- **the whole rule**: the `step-id-duplicate` diagnostics of `ruleId` on a workflow are a function of the folded step ids (and
their positions), job by job -/
theorem ruleId_dups (lower : String → String) (w : Workflow) :
    ((ruleId lower w).filter isDup).map dupSig =
      ((jobsOf w).map fun j => (ids (stepsOf j)).map (fk lower)).flatMap (dupSpecK []) := by
  simp only [ruleId, List.filter_flatMap, List.map_flatMap, idJob_dups, dupSpec_sig, List.map_nil, List.flatMap_map]

/-- **re-casing step ids, workflow level**: two workflows whose jobs carry pointwise the same folded step ids are reported
duplicates at the same sites -/
theorem ruleId_recase (lower : String → String) (w w' : Workflow)
    (h : ((jobsOf w).map fun j => (ids (stepsOf j)).map (fk lower)) = ((jobsOf w').map fun j => (ids (stepsOf j)).map (fk lower))) :
    ((ruleId lower w).filter isDup).map dupSig = ((ruleId lower w').filter isDup).map dupSig := by
  rw [ruleId_dups, ruleId_dups, h]

private def stA : Step := { id := some ⟨"Build", false, ⟨3, 9⟩⟩, pos := ⟨3, 5⟩ }
private def stB : Step := { id := some ⟨"test", false, ⟨5, 9⟩⟩, pos := ⟨5, 5⟩ }
private def stN : Step := { pos := ⟨6, 5⟩ }
private def stC : Step := { id := some ⟨"BUILD", false, ⟨7, 9⟩⟩, pos := ⟨7, 5⟩ }
private def stC' : Step := { id := some ⟨"build", false, ⟨7, 9⟩⟩, pos := ⟨7, 5⟩ }
private def stD : Step := { id := some ⟨"bUILD", false, ⟨9, 9⟩⟩, pos := ⟨9, 5⟩ }

/-- `Build`, `test`, (no id), `BUILD`, `bUILD`: two duplicates, both pointing at the first step -/
example : idSteps AL.Facts.lowerAscii [stA, stB, stN, stC, stD] [] =
    [⟨⟨7, 9⟩, "id", "step-id-duplicate", ["BUILD", "line:3,col:9"]⟩, ⟨⟨9, 9⟩, "id", "step-id-duplicate", ["bUILD", "line:3,col:9"]⟩] := by
  decide +kernel

/-- the hypothesis of `idSteps_recase` on a concrete pair (`BUILD` re-spelled `build`) -/
example : (ids [stA, stB, stN, stC, stD]).map (fk AL.Facts.lowerAscii) = (ids [stA, stB, stN, stC', stD]).map (fk AL.Facts.lowerAscii) := by
  decide +kernel

/-- the right-hand side of `step_id_duplicate_iff` on a concrete instance -/
example : ∃ a x b y c, ids [stA, stB, stN, stC] = a ++ x :: b ++ y :: c ∧ (∀ z ∈ a, AL.Facts.lowerAscii z.value ≠ AL.Facts.lowerAscii y.value) ∧
    AL.Facts.lowerAscii x.value = AL.Facts.lowerAscii y.value :=
  ⟨[], ⟨"Build", false, ⟨3, 9⟩⟩, [⟨"test", false, ⟨5, 9⟩⟩], ⟨"BUILD", false, ⟨7, 9⟩⟩, [], by decide +kernel, by simp, by decide +kernel⟩

/-! ## 2. the `with:` keys of a step (rule_action.go `checkAction`) -/

theorem flatMap_congr' {α β : Type} {f g : α → List β} : ∀ {l : List α}, (∀ x ∈ l, f x = g x) → l.flatMap f = l.flatMap g
  | [], _ => rfl
  | x :: xs, h => by
    simp only [List.flatMap_cons]
    rw [h x (by simp), flatMap_congr' (fun y hy => h y (by simp [hy]))]

/-- what the rule reads of a `with:` block: the ID of every entry (the parser's folded key) and the position of its key -/
def withKeys (e : ExecAction) : List (String × AL.Rules.Pos) := (e.inputs.getD []).map fun kv => (kv.1, kv.2.name.pos)

/-- sites and codes of `checkActionInputs`, as a function of the ids alone -/
def actK (declared : List (String × String × Bool)) (usesPos : AL.Rules.Pos) (given : List (String × AL.Rules.Pos)) :
    List (AL.Rules.Pos × String) :=
  (given.flatMap fun g => if declared.any (·.1 = g.1) then [] else [(g.2, "input-undefined")]) ++
  ((declared.foldr (fun d acc => AL.PW.insertSorted d.1 acc) []).flatMap fun id =>
    match declared.find? (·.1 = id) with
    | some (_, _, true) => if given.any (·.1 = id) then [] else [(usesPos, "input-missing")]
    | _ => [])

/-- **`with:` of a bundled action**: sites and codes of the diagnostics are a function of the IDS of the entries (and the
positions of their keys) — the spelling of a key enters through its id only -/
theorem checkActionInputs_sig (spec : String) (declared : List (String × String × Bool)) (e : ExecAction) (usesPos : AL.Rules.Pos) :
    (checkActionInputs spec declared e usesPos).map sig = actK declared usesPos (withKeys e) := by
  simp only [checkActionInputs, actK, withKeys, List.map_append, List.map_flatMap, List.flatMap_map, List.any_map]
  congr 1
  · apply flatMap_congr'
    intro kv _
    split <;> simp [sig]
  · apply flatMap_congr'
    intro id _
    split
    · rename_i hf
      rw [hf]
      simp only
      have : ((fun x : String × AL.Rules.Pos => decide (x.1 = id)) ∘ fun kv : String × Input => (kv.1, kv.2.name.pos)) =
          fun kv : String × Input => decide (kv.1 = id) := by
        funext kv; simp only [Function.comp]
      rw [this]
      split <;> simp [sig]
    · rename_i hf
      split
      · rename_i a b hf'
        exact absurd hf' (hf a b)
      · rfl

/-- the ids of a `with:` block the parser built: `lower` of the keys as written -/
def Folded (lower : String → String) (e : ExecAction) : Prop := ∀ kv ∈ e.inputs.getD [], kv.1 = lower kv.2.name.value

/-- the folded keys and their positions -/
def foldedKeys (lower : String → String) (e : ExecAction) : List (String × AL.Rules.Pos) :=
  (e.inputs.getD []).map fun kv => (lower kv.2.name.value, kv.2.name.pos)

theorem withKeys_of_folded {lower : String → String} {e : ExecAction} (h : Folded lower e) : withKeys e = foldedKeys lower e := by
  simp only [withKeys, foldedKeys]
  apply List.map_congr_left
  intro kv hkv
  rw [h kv hkv]

/-- **re-casing `with:` keys (bundled action)**: two `with:` blocks of the parser whose keys agree pointwise after folding get
diagnostics at the same sites with the same codes -/
theorem checkActionInputs_recase (lower : String → String) (spec : String) (declared : List (String × String × Bool)) (e e' : ExecAction)
    (usesPos : AL.Rules.Pos) (hf : Folded lower e) (hf' : Folded lower e') (h : foldedKeys lower e = foldedKeys lower e') :
    (checkActionInputs spec declared e usesPos).map sig = (checkActionInputs spec declared e' usesPos).map sig := by
  rw [checkActionInputs_sig, checkActionInputs_sig, withKeys_of_folded hf, withKeys_of_folded hf', h]

theorem sorted_ids_mem (declared : List (String × String × Bool)) (id : String) :
    id ∈ declared.foldr (fun d acc => AL.PW.insertSorted d.1 acc) [] ↔ ∃ x ∈ declared, x.1 = id := by
  have : declared.foldr (fun d acc => AL.PW.insertSorted d.1 acc) [] = AL.PW.sortStrings (declared.map (·.1)) := by
    simp only [AL.PW.sortStrings, List.foldr_map]
  rw [this, AL.C14P.mem_sortStrings]
  simp

/-- **undefined, both directions**: some input is reported as undefined iff the ID of some entry is not a declared id -/
theorem input_undefined_iff (spec : String) (declared : List (String × String × Bool)) (e : ExecAction) (usesPos p : AL.Rules.Pos) :
    (p, "input-undefined") ∈ (checkActionInputs spec declared e usesPos).map sig ↔
      ∃ g ∈ withKeys e, g.2 = p ∧ ∀ x ∈ declared, x.1 ≠ g.1 := by
  rw [checkActionInputs_sig]
  simp only [actK, List.mem_append, List.mem_flatMap]
  constructor
  · rintro (⟨g, hg, h⟩ | ⟨id, _, h⟩)
    · split at h
      · cases h
      · rename_i hany
        simp only [List.mem_singleton, Prod.mk.injEq, and_true] at h
        refine ⟨g, hg, h.symm, ?_⟩
        intro x hx hxe
        exact hany (List.any_eq_true.2 ⟨x, hx, by simpa using hxe⟩)
    · exfalso
      split at h
      · split at h
        · cases h
        · simp at h
      · cases h
  · rintro ⟨g, hg, rfl, hnot⟩
    refine Or.inl ⟨g, hg, ?_⟩
    have : declared.any (fun d => decide (d.1 = g.1)) = false := by
      simp only [List.any_eq_false, decide_eq_true_eq]
      exact fun d hd => hnot d hd
    simp [this]

/-- **missing, both directions**: a required input is reported missing (at `uses:`) iff a declared id whose first declaration is
required is the ID of no entry -/
theorem input_missing_iff (spec : String) (declared : List (String × String × Bool)) (e : ExecAction) (usesPos : AL.Rules.Pos) :
    (usesPos, "input-missing") ∈ (checkActionInputs spec declared e usesPos).map sig ↔
      ∃ id name, declared.find? (·.1 = id) = some (id, name, true) ∧ ∀ g ∈ withKeys e, g.1 ≠ id := by
  rw [checkActionInputs_sig]
  simp only [actK, List.mem_append, List.mem_flatMap]
  constructor
  · rintro (⟨g, _, h⟩ | ⟨id, _, h⟩)
    · exfalso
      split at h
      · cases h
      · simp at h
    · split at h
      · rename_i i name hf
        split at h
        · cases h
        · rename_i hany
          have hi : i = id := by simpa using List.find?_some hf
          subst hi
          refine ⟨i, name, hf, ?_⟩
          intro g hg hge
          exact hany (List.any_eq_true.2 ⟨g, hg, by simpa using hge⟩)
      · cases h
  · rintro ⟨id, name, hf, hnot⟩
    refine Or.inr ⟨id, (sorted_ids_mem declared id).2 ⟨_, List.mem_of_find?_eq_some hf, rfl⟩, ?_⟩
    rw [hf]
    have : (withKeys e).any (fun g => decide (g.1 = id)) = false := by
      simp only [List.any_eq_false, decide_eq_true_eq]
      exact fun g hg => hnot g hg
    simp [this]

/-- nothing else is reported -/
theorem checkActionInputs_codes (spec : String) (declared : List (String × String × Bool)) (e : ExecAction) (usesPos : AL.Rules.Pos) :
    ∀ s ∈ (checkActionInputs spec declared e usesPos).map sig,
      (s.2 = "input-undefined" ∧ ∃ g ∈ withKeys e, g.2 = s.1) ∨ (s.2 = "input-missing" ∧ s.1 = usesPos) := by
  intro s hs
  rw [checkActionInputs_sig] at hs
  simp only [actK, List.mem_append, List.mem_flatMap] at hs
  rcases hs with ⟨g, hg, h⟩ | ⟨id, _, h⟩
  · split at h
    · cases h
    · simp only [List.mem_singleton] at h
      subst h
      exact Or.inl ⟨rfl, g, hg, rfl⟩
  · split at h
    · split at h
      · cases h
      · simp only [List.mem_singleton] at h
        subst h
        exact Or.inr ⟨rfl, rfl⟩
    · cases h

/-- with the parser's ids: an entry is undefined iff no declared id is `lower` of its key as written -/
theorem input_undefined_iff_folded (lower : String → String) (spec : String) (declared : List (String × String × Bool)) (e : ExecAction)
    (usesPos p : AL.Rules.Pos) (hf : Folded lower e) :
    (p, "input-undefined") ∈ (checkActionInputs spec declared e usesPos).map sig ↔
      ∃ kv ∈ e.inputs.getD [], kv.2.name.pos = p ∧ ∀ x ∈ declared, x.1 ≠ lower kv.2.name.value := by
  rw [input_undefined_iff, withKeys_of_folded hf]
  simp only [foldedKeys, List.mem_map]
  constructor
  · rintro ⟨g, ⟨kv, hkv, rfl⟩, hp, hn⟩
    exact ⟨kv, hkv, hp, hn⟩
  · rintro ⟨kv, hkv, hp, hn⟩
    exact ⟨_, ⟨kv, hkv, rfl⟩, hp, hn⟩

/-- two `with:` blocks of the parser that differ in the letter case of their keys only -/
def Recased (lower : String → String) (e e' : ExecAction) : Prop :=
  Folded lower e ∧ Folded lower e' ∧ foldedKeys lower e = foldedKeys lower e'

theorem Recased.withKeys {lower : String → String} {e e' : ExecAction} (h : Recased lower e e') : withKeys e = withKeys e' := by
  rw [withKeys_of_folded h.1, withKeys_of_folded h.2.1, h.2.2]

/-- the parser: the ids of the entries of a step's `with:` are `lower` of the keys (`entrypoint` / `args` are not inputs) -/
theorem withKey_folded (cfg : AL.PW.Cfg) (kvs : List AL.PW.KV) (hk : ∀ kv ∈ kvs, kv.id = cfg.lower kv.key.value) :
    ∀ e0, Folded cfg.lower e0 → Folded cfg.lower (AL.PW.loop AL.PW.withKey e0 kvs).1 := by
  apply AL.C13P.loop_inv AL.PW.withKey (Folded cfg.lower) kvs
  intro s kv hm hs
  simp only [AL.PW.withKey]
  split
  · exact hs
  · exact hs
  · intro p hp
    simp only [Option.getD_some, List.mem_append, List.mem_singleton] at hp
    rcases hp with hp | rfl
    · exact hs p hp
    · exact hk kv hm

/-- … for the `with:` node of a step as `parseStep` handles it -/
theorem step_with_folded (cfg : AL.PW.Cfg) (n : AL.Yaml.Node) (e0 : ExecAction) :
    Folded cfg.lower (AL.PW.loop AL.PW.withKey { e0 with inputs := some [] } (AL.PW.parseSectionMapping cfg "with" n false false).1).1 := by
  apply withKey_folded cfg _ (AL.C08P.parseMapping_ids_folded cfg _ n false)
  intro kv hkv
  simp at hkv

/-- `checkRepoAction`: everything but the inputs check reads `uses:` only -/
theorem checkRepoAction_recase (spec : String) (e e' : ExecAction) (usesPos : AL.Rules.Pos) (h : withKeys e = withKeys e') :
    (checkRepoAction spec e usesPos).map sig = (checkRepoAction spec e' usesPos).map sig := by
  unfold checkRepoAction
  simp only
  split
  · rfl
  · split
    · rfl
    · simp only [List.map_append]
      congr 1
      split
      · rfl
      · split
        · rfl
        · rw [checkActionInputs_sig, checkActionInputs_sig, h]

/-- **re-casing `with:` keys, at the step** (rule_action.go `VisitStep` without a project): two steps that use the same action
with `with:` blocks that differ in the letter case of the keys only are reported at the same sites with the same codes -/
theorem actionStep_recase (lower : String → String) (urlOk : String → Bool) (st st' : Step) (e e' : ExecAction)
    (hs : st.exec = .action e) (hs' : st'.exec = .action e') (hu : e.uses = e'.uses) (h : Recased lower e e') :
    (actionStep urlOk st).map sig = (actionStep urlOk st').map sig := by
  simp only [actionStep, hs, hs', hu]
  split
  · rfl
  · split
    · rfl
    · split
      · rfl
      · split
        · rfl
        · exact checkRepoAction_recase _ e e' _ h.withKeys

/-- the bundled data set: every declared id is the ASCII-lower-case form of the declared name -/
theorem popular_ids_folded (spec : String) (ins : List (String × String × Bool)) (skip : Bool)
    (h : popularEntry spec = some (ins, skip)) : ∀ i ∈ ins, AL.Facts.lowerAscii i.2.1 = i.1 := by
  simp only [popularEntry] at h
  split at h
  · rename_i a ins' b skip' c hf
    simp only [Option.some.injEq, Prod.mk.injEq] at h
    obtain ⟨rfl, rfl⟩ := h
    obtain ⟨ch, hch, hfind⟩ := List.exists_of_findSome?_eq_some hf
    have hm := List.mem_of_find?_eq_some hfind
    have h1 := List.all_eq_true.1 AL.C14.ids_folded ch hch
    have h2 := List.all_eq_true.1 h1 _ hm
    simp only [Bool.and_eq_true, List.all_eq_true, decide_eq_true_eq] at h2
    exact h2.1
  · cases h

/-- **bundled action, in terms of what is WRITTEN**: an entry of `with:` is reported as undefined iff no declared input NAME
folds to the same string as the entry's KEY -/
theorem popular_input_undefined_iff (spec : String) (ins : List (String × String × Bool)) (skip : Bool)
    (h : popularEntry spec = some (ins, skip)) (e : ExecAction) (usesPos p : AL.Rules.Pos) (hf : Folded AL.Facts.lowerAscii e) :
    (p, "input-undefined") ∈ (checkActionInputs spec ins e usesPos).map sig ↔
      ∃ kv ∈ e.inputs.getD [], kv.2.name.pos = p ∧ ∀ x ∈ ins, AL.Facts.lowerAscii x.2.1 ≠ AL.Facts.lowerAscii kv.2.name.value := by
  rw [input_undefined_iff_folded AL.Facts.lowerAscii spec ins e usesPos p hf]
  constructor
  · rintro ⟨kv, hkv, hp, hn⟩
    exact ⟨kv, hkv, hp, fun x hx => by rw [popular_ids_folded spec ins skip h x hx]; exact hn x hx⟩
  · rintro ⟨kv, hkv, hp, hn⟩
    exact ⟨kv, hkv, hp, fun x hx => by rw [← popular_ids_folded spec ins skip h x hx]; exact hn x hx⟩

/-! ### the same for a LOCAL action (`AL.ProjAction.inputDiags`: `checkAction` with the metadata of `action.yml`) -/

def localActK (m : AL.ProjAction.ActionMeta) (pos : AL.Rules.Pos) (given : List (String × AL.Rules.Pos)) : List (AL.Rules.Pos × String) :=
  (given.flatMap fun g => if m.inputs.any (·.1 = g.1) then [] else [(g.2, "local-input-undefined")]) ++
  ((AL.PW.sortStrings (m.inputs.map (·.1))).flatMap fun id =>
    match m.inputs.find? (·.1 = id) with
    | some (_, _, true) => if given.any (·.1 = id) then [] else [(pos, "local-input-missing")]
    | _ => [])

theorem inputDiags_sig (m : AL.ProjAction.ActionMeta) (spec : String) (e : ExecAction) (pos : AL.Rules.Pos) :
    (AL.ProjAction.inputDiags m spec e pos).map sig = localActK m pos (withKeys e) := by
  simp only [AL.ProjAction.inputDiags, localActK, withKeys, List.map_append, List.map_flatMap, List.flatMap_map, List.any_map]
  congr 1
  · apply flatMap_congr'
    intro kv _
    split <;> simp [sig]
  · apply flatMap_congr'
    intro id _
    split
    · rename_i hf
      rw [hf]
      simp only
      have : ((fun x : String × AL.Rules.Pos => decide (x.1 = id)) ∘ fun kv : String × Input => (kv.1, kv.2.name.pos)) =
          fun kv : String × Input => decide (kv.1 = id) := by
        funext kv; simp only [Function.comp]
      rw [this]
      split <;> simp [sig]
    · rename_i hf
      split
      · rename_i a b hf'
        exact absurd hf' (hf a b)
      · rfl

/-- **re-casing `with:` keys (local action)** -/
theorem inputDiags_recase (lower : String → String) (m : AL.ProjAction.ActionMeta) (spec : String) (e e' : ExecAction) (pos : AL.Rules.Pos)
    (h : Recased lower e e') :
    (AL.ProjAction.inputDiags m spec e pos).map sig = (AL.ProjAction.inputDiags m spec e' pos).map sig := by
  rw [inputDiags_sig, inputDiags_sig, h.withKeys]

/-- … at the step, with the cache of metadata: the same cache afterwards, the same sites and codes -/
theorem localActionStep_recase (lower : String → String) (env : AL.ProjAction.Env) (c : AL.ProjAction.Cache) (st st' : Step) (e e' : ExecAction)
    (hs : st.exec = .action e) (hs' : st'.exec = .action e') (hu : e.uses = e'.uses) (h : Recased lower e e') :
    (AL.ProjAction.actionStep env c st).1 = (AL.ProjAction.actionStep env c st').1 ∧
    (AL.ProjAction.actionStep env c st).2.map sig = (AL.ProjAction.actionStep env c st').2.map sig := by
  simp only [AL.ProjAction.actionStep, hs, hs', hu]
  split
  · exact ⟨rfl, rfl⟩
  · split
    · exact ⟨rfl, rfl⟩
    · split
      · refine ⟨rfl, ?_⟩
        simp only [AL.ProjAction.localStep]
        split
        · rfl
        · rfl
        · simp only [List.map_append]
          rw [inputDiags_sig, inputDiags_sig, h.withKeys]
      · exact ⟨rfl, rfl⟩

private def exDeclared : List (String × String × Bool) := [("node-version", "node-version", true), ("token", "token", false)]
private def exWith : ExecAction :=
  { uses := some ⟨"actions/setup-node@v4", false, ⟨4, 15⟩⟩,
    inputs := some [("node-version", ⟨⟨"Node-Version", false, ⟨6, 11⟩⟩, ⟨"20", false, ⟨6, 25⟩⟩⟩), ("cache", ⟨⟨"CACHE", false, ⟨7, 11⟩⟩, ⟨"npm", false, ⟨7, 18⟩⟩⟩)] }
private def exWith' : ExecAction :=
  { uses := some ⟨"actions/setup-node@v4", false, ⟨4, 15⟩⟩,
    inputs := some [("node-version", ⟨⟨"NODE-VERSION", false, ⟨6, 11⟩⟩, ⟨"20", false, ⟨6, 25⟩⟩⟩), ("cache", ⟨⟨"cache", false, ⟨7, 11⟩⟩, ⟨"npm", false, ⟨7, 18⟩⟩⟩)] }

/-- the hypotheses of the re-casing theorems on a concrete pair of blocks (`Node-Version` / `NODE-VERSION`, `CACHE` / `cache`) -/
example : Recased AL.Facts.lowerAscii exWith exWith' := by
  refine ⟨?_, ?_, by decide +kernel⟩
  · intro kv hkv
    simp only [exWith, Option.getD_some, List.mem_cons, List.not_mem_nil, or_false] at hkv
    rcases hkv with rfl | rfl <;> decide +kernel
  · intro kv hkv
    simp only [exWith', Option.getD_some, List.mem_cons, List.not_mem_nil, or_false] at hkv
    rcases hkv with rfl | rfl <;> decide +kernel

/-- and what the rule says about them: `cache` is undefined (at its key); `node-version` is supplied whatever its case -/
example : (checkActionInputs "x/y@v1" exDeclared exWith ⟨4, 15⟩).map sig = [(⟨7, 11⟩, "input-undefined")] ∧
    (checkActionInputs "x/y@v1" exDeclared exWith' ⟨4, 15⟩).map sig = [(⟨7, 11⟩, "input-undefined")] := by
  decide +kernel

/-! ## 3. `with:` / `secrets:` of a job that calls a local reusable workflow (rule_workflow_call.go, `AL.ProjCall.checkLocal`) -/

open AL.ProjCall in
/-- what the rule reads of `with:` / `secrets:` of a call: the ID of every entry and the position of its key -/
def callKeys (args : Option (List (String × CallArg))) : List (String × AL.Rules.Pos) :=
  (args.getD []).map fun kv => (kv.1, kv.2.name.pos)

/-- one section (inputs or secrets) of `checkWorkflowCallUsesLocal`, sites and codes, as a function of the ids alone -/
def sectionK (declared : List (String × Bool)) (usesPos : AL.Rules.Pos) (reqCode undefCode : String) (given : List (String × AL.Rules.Pos)) :
    List (AL.Rules.Pos × String) :=
  ((AL.PW.sortStrings (declared.map (·.1))).flatMap fun n =>
    match declared.find? (·.1 = n) with
    | some (_, req) => if req && !(given.map (·.1)).contains n then [(usesPos, reqCode)] else []
    | none => []) ++
  (given.flatMap fun g => if (declared.map (·.1)).contains g.1 then [] else [(g.2, undefCode)])

def localCallK (m : AL.CallMeta.Meta) (usesPos : AL.Rules.Pos) (inherit : Bool) (withs secs : List (String × AL.Rules.Pos)) :
    List (AL.Rules.Pos × String) :=
  sectionK (m.inputs.map fun p => (p.1, p.2.required)) usesPos "input-required" "input-undefined" withs ++
  (if inherit then [] else sectionK (m.secrets.map fun p => (p.1, p.2.required)) usesPos "secret-required" "secret-undefined" secs)

theorem find?_map_fst {α β : Type} (f : α → β) (n : String) : ∀ (l : List (String × α)),
    (l.map fun p => (p.1, f p.2)).find? (·.1 = n) = (l.find? (·.1 = n)).map fun p => (p.1, f p.2)
  | [] => rfl
  | p :: rest => by
    simp only [List.map_cons, List.find?_cons]
    by_cases h : p.1 = n
    · simp [h]
    · simp [h, find?_map_fst f n rest]

theorem callKeys_fst (a : Option (List (String × CallArg))) : (callKeys a).map (·.1) = AL.ProjCall.keysOf (a.getD []) := by
  simp [callKeys, AL.ProjCall.keysOf, List.map_map, Function.comp_def]

/-- **`with:` / `secrets:` of a call**: sites and codes of `checkLocal` are a function of the IDS of the entries -/
theorem checkLocal_sig (m : AL.CallMeta.Meta) (c : WorkflowCall) (u : Str) :
    (AL.ProjCall.checkLocal m c u).map sig = localCallK m u.pos c.inheritSecrets (callKeys c.inputs) (callKeys c.secrets) := by
  have hkI : (m.inputs.map fun p => (p.1, p.2.required)).map (·.1) = AL.ProjCall.keysOf m.inputs := by
    simp [AL.ProjCall.keysOf, List.map_map, Function.comp_def]
  have hkS : (m.secrets.map fun p => (p.1, p.2.required)).map (·.1) = AL.ProjCall.keysOf m.secrets := by
    simp [AL.ProjCall.keysOf, List.map_map, Function.comp_def]
  simp only [AL.ProjCall.checkLocal, localCallK, sectionK, List.map_append, hkI, hkS, callKeys_fst]
  congr 1
  · congr 1
    · rw [List.map_flatMap]
      apply flatMap_congr'
      intro n _
      rw [find?_map_fst]
      cases m.inputs.find? (·.1 = n) with
      | none => rfl
      | some p =>
        obtain ⟨k, i⟩ := p
        simp only [Option.map_some]
        split <;> simp [sig]
    · rw [List.map_flatMap, callKeys, List.flatMap_map]
      apply flatMap_congr'
      intro kv _
      split <;> simp [sig]
  · split
    · rfl
    · simp only [List.map_append]
      congr 1
      · rw [List.map_flatMap]
        apply flatMap_congr'
        intro n _
        rw [find?_map_fst]
        cases m.secrets.find? (·.1 = n) with
        | none => rfl
        | some p =>
          obtain ⟨k, i⟩ := p
          simp only [Option.map_some]
          split <;> simp [sig]
      · rw [List.map_flatMap, callKeys, List.flatMap_map]
        apply flatMap_congr'
        intro kv _
        split <;> simp [sig]

def ArgsFolded (lower : String → String) (a : Option (List (String × CallArg))) : Prop := ∀ kv ∈ a.getD [], kv.1 = lower kv.2.name.value

def argKeys (lower : String → String) (a : Option (List (String × CallArg))) : List (String × AL.Rules.Pos) :=
  (a.getD []).map fun kv => (lower kv.2.name.value, kv.2.name.pos)

theorem callKeys_of_folded {lower : String → String} {a : Option (List (String × CallArg))} (h : ArgsFolded lower a) :
    callKeys a = argKeys lower a := by
  simp only [callKeys, argKeys]
  apply List.map_congr_left
  intro kv hkv
  rw [h kv hkv]

/-- two calls (of the parser) that differ in the letter case of the keys of `with:` / `secrets:` only -/
structure CallRecased (lower : String → String) (c c' : WorkflowCall) : Prop where
  inherit : c.inheritSecrets = c'.inheritSecrets
  inF : ArgsFolded lower c.inputs
  inF' : ArgsFolded lower c'.inputs
  inK : argKeys lower c.inputs = argKeys lower c'.inputs
  secF : ArgsFolded lower c.secrets
  secF' : ArgsFolded lower c'.secrets
  secK : argKeys lower c.secrets = argKeys lower c'.secrets

/-- **re-casing the keys of `with:` / `secrets:` of a call**: the same sites, the same codes -/
theorem checkLocal_recase (lower : String → String) (m : AL.CallMeta.Meta) (c c' : WorkflowCall) (u : Str) (h : CallRecased lower c c') :
    (AL.ProjCall.checkLocal m c u).map sig = (AL.ProjCall.checkLocal m c' u).map sig := by
  rw [checkLocal_sig, checkLocal_sig, callKeys_of_folded h.inF, callKeys_of_folded h.inF', callKeys_of_folded h.secF,
    callKeys_of_folded h.secF', h.inK, h.secK, h.inherit]

/-- … at the job, with the cache of interfaces: the same cache afterwards, the same sites and codes -/
theorem wcJob_recase (lower : String → String) (env : AL.ProjCall.Env) (cache : AL.ProjCall.Cache) (j j' : Job) (c c' : WorkflowCall)
    (hj : j.workflowCall = some c) (hj' : j'.workflowCall = some c') (hu : c.uses = c'.uses) (h : CallRecased lower c c') :
    (AL.ProjCall.wcJob env cache j).1 = (AL.ProjCall.wcJob env cache j').1 ∧
    (AL.ProjCall.wcJob env cache j).2.map sig = (AL.ProjCall.wcJob env cache j').2.map sig := by
  simp only [AL.ProjCall.wcJob, hj, hj', hu]
  split
  · exact ⟨rfl, rfl⟩
  · rename_i u _
    simp only [AL.ProjCall.wcUses]
    split
    · exact ⟨rfl, rfl⟩
    · split
      · refine ⟨rfl, ?_⟩
        simp only [AL.ProjCall.wcFound]
        split
        · rfl
        · rfl
        · exact checkLocal_recase lower _ c c' u h
      · split <;> exact ⟨rfl, rfl⟩

/-- the parser: the ids of the entries of `with:` / `secrets:` of a job are `lower` of the keys -/
theorem call_args_folded (cfg : AL.PW.Cfg) (sec : String) (v : AL.Yaml.Node) :
    ArgsFolded cfg.lower (some (AL.PW.callArgs (AL.PW.parseSectionMapping cfg sec v false false).1).1) := by
  intro p hp
  obtain ⟨kv, hm, h1, h2⟩ := AL.C08P.callArgs_keys _ p hp
  rw [h1, h2]
  exact AL.C08P.parseMapping_ids_folded cfg _ v false kv hm

theorem sectionK_codes (declared : List (String × Bool)) (usesPos : AL.Rules.Pos) (rc uc : String) (given : List (String × AL.Rules.Pos)) :
    ∀ s ∈ sectionK declared usesPos rc uc given, s.2 = rc ∨ s.2 = uc := by
  intro s hs
  simp only [sectionK, List.mem_append, List.mem_flatMap] at hs
  rcases hs with ⟨n, _, h⟩ | ⟨g, _, h⟩
  · split at h
    · split at h
      · simp only [List.mem_singleton] at h; subst h; exact Or.inl rfl
      · cases h
    · cases h
  · split at h
    · cases h
    · simp only [List.mem_singleton] at h; subst h; exact Or.inr rfl

theorem sectionK_undefined_iff (declared : List (String × Bool)) (usesPos : AL.Rules.Pos) (rc uc : String) (given : List (String × AL.Rules.Pos))
    (p : AL.Rules.Pos) (hne : rc ≠ uc) :
    (p, uc) ∈ sectionK declared usesPos rc uc given ↔ ∃ g ∈ given, g.2 = p ∧ ∀ x ∈ declared, x.1 ≠ g.1 := by
  simp only [sectionK, List.mem_append, List.mem_flatMap]
  constructor
  · rintro (⟨n, _, h⟩ | ⟨g, hg, h⟩)
    · exfalso
      split at h
      · split at h
        · simp only [List.mem_singleton, Prod.mk.injEq] at h
          exact hne h.2.symm
        · cases h
      · cases h
    · split at h
      · cases h
      · rename_i hc
        simp only [List.mem_singleton, Prod.mk.injEq, and_true] at h
        refine ⟨g, hg, h.symm, ?_⟩
        intro x hx hxe
        apply hc
        simp only [List.contains_iff_mem, List.mem_map]
        exact ⟨x, hx, hxe⟩
  · rintro ⟨g, hg, rfl, hn⟩
    refine Or.inr ⟨g, hg, ?_⟩
    have : (declared.map (·.1)).contains g.1 = false := by
      cases hc : (declared.map (·.1)).contains g.1 with
      | false => rfl
      | true =>
        simp only [List.contains_iff_mem, List.mem_map] at hc
        obtain ⟨x, hx, hxe⟩ := hc
        exact absurd hxe (hn x hx)
    simp only [this, Bool.false_eq_true, if_false, List.mem_singleton]

theorem sectionK_required_iff (declared : List (String × Bool)) (usesPos : AL.Rules.Pos) (rc uc : String) (given : List (String × AL.Rules.Pos))
    (hne : rc ≠ uc) :
    (usesPos, rc) ∈ sectionK declared usesPos rc uc given ↔
      ∃ n, declared.find? (·.1 = n) = some (n, true) ∧ ∀ g ∈ given, g.1 ≠ n := by
  simp only [sectionK, List.mem_append, List.mem_flatMap]
  constructor
  · rintro (⟨n, _, h⟩ | ⟨g, _, h⟩)
    · split at h
      · rename_i k req hf
        split at h
        · rename_i hc
          have hk : k = n := by simpa using List.find?_some hf
          subst hk
          simp only [Bool.and_eq_true, Bool.not_eq_true'] at hc
          obtain ⟨hr, hcn⟩ := hc
          subst hr
          refine ⟨k, hf, ?_⟩
          intro g hg hge
          have : (given.map (·.1)).contains k = true := by
            simp only [List.contains_iff_mem, List.mem_map]
            exact ⟨g, hg, hge⟩
          rw [this] at hcn
          cases hcn
        · cases h
      · cases h
    · exfalso
      split at h
      · cases h
      · simp only [List.mem_singleton, Prod.mk.injEq] at h
        exact hne h.2
  · rintro ⟨n, hf, hn⟩
    refine Or.inl ⟨n, ?_, ?_⟩
    · rw [AL.C14P.mem_sortStrings, List.mem_map]
      exact ⟨_, List.mem_of_find?_eq_some hf, rfl⟩
    · rw [hf]
      have : (given.map (·.1)).contains n = false := by
        cases hc : (given.map (·.1)).contains n with
        | false => rfl
        | true =>
          simp only [List.contains_iff_mem, List.mem_map] at hc
          obtain ⟨g, hg, hge⟩ := hc
          exact absurd hge (hn g hg)
      simp only [this, Bool.not_false, Bool.and_self, if_true, List.mem_singleton]

theorem declared_find (α : Type) (req : α → Bool) (l : List (String × α)) (n : String) :
    (l.map fun p => (p.1, req p.2)).find? (·.1 = n) = some (n, true) ↔ ∃ i, l.find? (·.1 = n) = some (n, i) ∧ req i = true := by
  rw [find?_map_fst]
  cases hf : l.find? (·.1 = n) with
  | none => simp
  | some p =>
    obtain ⟨k, i⟩ := p
    have hk : k = n := by simpa using List.find?_some hf
    subst hk
    simp

/-- **`with:` of a call — undefined, both directions**: an entry is reported (at its key) iff its ID is not a declared id -/
theorem call_input_undefined_iff (m : AL.CallMeta.Meta) (c : WorkflowCall) (u : Str) (p : AL.Rules.Pos) :
    (p, "input-undefined") ∈ (AL.ProjCall.checkLocal m c u).map sig ↔
      ∃ g ∈ callKeys c.inputs, g.2 = p ∧ ∀ x ∈ m.inputs, x.1 ≠ g.1 := by
  rw [checkLocal_sig]
  simp only [localCallK, List.mem_append]
  rw [sectionK_undefined_iff _ _ _ _ _ _ (by decide)]
  constructor
  · rintro (⟨g, hg, hp, hn⟩ | h)
    · exact ⟨g, hg, hp, fun x hx => hn (x.1, x.2.required) (List.mem_map.2 ⟨x, hx, rfl⟩)⟩
    · exfalso
      split at h
      · cases h
      · rcases sectionK_codes _ _ _ _ _ _ h with e | e <;> simp at e
  · rintro ⟨g, hg, hp, hn⟩
    refine Or.inl ⟨g, hg, hp, ?_⟩
    intro x hx
    obtain ⟨y, hy, rfl⟩ := List.mem_map.1 hx
    exact hn y hy

/-- **`with:` of a call — required, both directions**: reported (at `uses:`) iff a declared id whose declaration is required is
the ID of no entry -/
theorem call_input_required_iff (m : AL.CallMeta.Meta) (c : WorkflowCall) (u : Str) :
    (u.pos, "input-required") ∈ (AL.ProjCall.checkLocal m c u).map sig ↔
      ∃ n i, m.inputs.find? (·.1 = n) = some (n, i) ∧ i.required = true ∧ ∀ g ∈ callKeys c.inputs, g.1 ≠ n := by
  rw [checkLocal_sig]
  simp only [localCallK, List.mem_append]
  rw [sectionK_required_iff _ _ _ _ _ (by decide)]
  constructor
  · rintro (⟨n, hf, hn⟩ | h)
    · obtain ⟨i, hi, hr⟩ := (declared_find _ (·.required) m.inputs n).1 hf
      exact ⟨n, i, hi, hr, hn⟩
    · exfalso
      split at h
      · cases h
      · rcases sectionK_codes _ _ _ _ _ _ h with e | e <;> simp at e
  · rintro ⟨n, i, hi, hr, hn⟩
    exact Or.inl ⟨n, (declared_find _ (·.required) m.inputs n).2 ⟨i, hi, hr⟩, hn⟩

/-- **`secrets:` of a call — undefined** (without `secrets: inherit`) -/
theorem call_secret_undefined_iff (m : AL.CallMeta.Meta) (c : WorkflowCall) (u : Str) (p : AL.Rules.Pos) (hinh : c.inheritSecrets = false) :
    (p, "secret-undefined") ∈ (AL.ProjCall.checkLocal m c u).map sig ↔
      ∃ g ∈ callKeys c.secrets, g.2 = p ∧ ∀ x ∈ m.secrets, x.1 ≠ g.1 := by
  rw [checkLocal_sig]
  simp only [localCallK, List.mem_append, hinh, Bool.false_eq_true, if_false]
  rw [sectionK_undefined_iff _ _ _ _ _ _ (by decide)]
  constructor
  · rintro (h | ⟨g, hg, hp, hn⟩)
    · exfalso
      rcases sectionK_codes _ _ _ _ _ _ h with e | e <;> simp at e
    · exact ⟨g, hg, hp, fun x hx => hn (x.1, x.2.required) (List.mem_map.2 ⟨x, hx, rfl⟩)⟩
  · rintro ⟨g, hg, hp, hn⟩
    refine Or.inr ⟨g, hg, hp, ?_⟩
    intro x hx
    obtain ⟨y, hy, rfl⟩ := List.mem_map.1 hx
    exact hn y hy

/-- **`secrets:` of a call — required** (without `secrets: inherit`) -/
theorem call_secret_required_iff (m : AL.CallMeta.Meta) (c : WorkflowCall) (u : Str) (hinh : c.inheritSecrets = false) :
    (u.pos, "secret-required") ∈ (AL.ProjCall.checkLocal m c u).map sig ↔
      ∃ n s, m.secrets.find? (·.1 = n) = some (n, s) ∧ s.required = true ∧ ∀ g ∈ callKeys c.secrets, g.1 ≠ n := by
  rw [checkLocal_sig]
  simp only [localCallK, List.mem_append, hinh, Bool.false_eq_true, if_false]
  rw [sectionK_required_iff _ _ _ _ _ (by decide)]
  constructor
  · rintro (h | ⟨n, hf, hn⟩)
    · exfalso
      rcases sectionK_codes _ _ _ _ _ _ h with e | e <;> simp at e
    · obtain ⟨i, hi, hr⟩ := (declared_find _ (·.required) m.secrets n).1 hf
      exact ⟨n, i, hi, hr, hn⟩
  · rintro ⟨n, i, hi, hr, hn⟩
    exact Or.inr ⟨n, (declared_find _ (·.required) m.secrets n).2 ⟨i, hi, hr⟩, hn⟩

/-! ### the declared side: the ids of a called workflow's interface are `lower` of the declared names -/

/-- the ids of the declared inputs and secrets are the folded names -/
def MetaFolded (lower : String → String) (m : AL.CallMeta.Meta) : Prop :=
  (∀ p ∈ m.inputs, p.1 = lower p.2.name) ∧ (∀ p ∈ m.secrets, p.1 = lower p.2.name)

theorem mem_put {α : Type} (m : List (String × α)) (k : String) (v : α) : ∀ p ∈ AL.CallMeta.put m k v, p ∈ m ∨ p = (k, v) := by
  intro p hp
  simp only [AL.CallMeta.put] at hp
  split at hp
  · obtain ⟨e, he, rfl⟩ := List.mem_map.1 hp
    split
    · exact Or.inr rfl
    · exact Or.inl he
  · rcases List.mem_append.1 hp with h | h
    · exact Or.inl h
    · exact Or.inr (by simpa using h)

theorem foldl_inv {α β : Type} (f : β → α → β) (P : β → Prop) : ∀ (l : List α) (b : β), P b → (∀ b a, a ∈ l → P b → P (f b a)) → P (l.foldl f b)
  | [], _, h, _ => h
  | a :: l, b, h, hs => by
    simp only [List.foldl_cons]
    exact foldl_inv f P l _ (hs b a (by simp) h) (fun b' a' ha' => hs b' a' (by simp [ha']))

/-- the interface written from the AST (`WriteWorkflowCallEvent`) -/
theorem fromAst_folded (lower : String → String) (ins : Option (List CallInput)) (secs : Option (List (String × CallSecret)))
    (outs : Option (List (String × CallOutput))) (hi : ∀ i ∈ ins.getD [], i.id = lower i.name.value)
    (hs : ∀ s ∈ secs.getD [], s.1 = lower s.2.name.value) : MetaFolded lower (AL.CallMeta.fromAst ins secs outs) := by
  constructor
  · simp only [AL.CallMeta.fromAst]
    apply foldl_inv _ (fun (m : List (String × AL.CallMeta.Input)) => ∀ p ∈ m, p.1 = lower p.2.name)
    · intro p hp; cases hp
    · intro m i hi' hm p hp
      rcases mem_put m _ _ p hp with h | rfl
      · exact hm p h
      · exact hi i hi'
  · simp only [AL.CallMeta.fromAst]
    apply foldl_inv _ (fun (m : List (String × AL.CallMeta.Secret)) => ∀ p ∈ m, p.1 = lower p.2.name)
    · intro p hp; cases hp
    · intro m s hs' hm p hp
      rcases mem_put m _ _ p hp with h | rfl
      · exact hm p h
      · exact hs s hs'

theorem callSecret_name (cfg : AL.PW.Cfg) (kv : AL.PW.KV) : (AL.PW.callSecret cfg kv).1.name = kv.key := by
  have h : (AL.PW.loop AL.PW.callSecretAttr { name := kv.key } (AL.PW.parseMapping cfg "secret of workflow_call event" kv.val true true).1).1.name = kv.key := by
    apply AL.C13P.loop_inv AL.PW.callSecretAttr (fun st => st.name = kv.key)
    · intro s a _ hs
      simp only [AL.PW.callSecretAttr]
      split <;> simp_all
    · rfl
  simpa [AL.PW.callSecret] using h

/-- the parser: the inputs and secrets of a `workflow_call` event carry `lower` of their names as ids -/
theorem parseWorkflowCallEvent_folded (cfg : AL.PW.Cfg) (pos : AL.Yaml.Pos) (n : AL.Yaml.Node)
    (ins : Option (List CallInput)) (secs : Option (List (String × CallSecret))) (outs : Option (List (String × CallOutput))) (p' : AL.Yaml.Pos)
    (h : (AL.PW.parseWorkflowCallEvent cfg pos n).1 = .call ins secs outs p') :
    (∀ i ∈ ins.getD [], i.id = cfg.lower i.name.value) ∧ (∀ s ∈ secs.getD [], s.1 = cfg.lower s.2.name.value) := by
  simp only [AL.PW.parseWorkflowCallEvent, Event.call.injEq] at h
  obtain ⟨rfl, rfl, _, _⟩ := h
  apply AL.C13P.loop_inv (AL.PW.callEventKey cfg)
    (fun st => (∀ i ∈ st.inputs.getD [], i.id = cfg.lower i.name.value) ∧ (∀ s ∈ st.secrets.getD [], s.1 = cfg.lower s.2.name.value))
  · intro st kv _ hst
    simp only [AL.PW.callEventKey]
    split
    · refine ⟨?_, hst.2⟩
      intro i hi
      exact AL.C08P.callInputs_ids_folded cfg _ (AL.C08P.parseMapping_ids_folded cfg _ kv.val true) i
        (by simpa [AL.PW.parseSectionMapping] using hi)
    · refine ⟨hst.1, ?_⟩
      intro s hs
      obtain ⟨kv', hm, h1, h2⟩ := AL.C08P.mapKVs_mem _ _ s (by simpa [AL.PW.parseSectionMapping] using hs)
      rw [h1, h2, callSecret_name]
      exact AL.C08P.parseMapping_ids_folded cfg _ kv.val true kv' hm
    · exact hst
    · exact hst
  · exact ⟨by intro i hi; simp at hi, by intro s hs; simp at hs⟩

/-- … so the interface `WriteWorkflowCallEvent` derives from a parsed `workflow_call` event is keyed by the folded names -/
theorem parsed_interface_folded (cfg : AL.PW.Cfg) (pos : AL.Yaml.Pos) (n : AL.Yaml.Node) (m : AL.CallMeta.Meta)
    (h : AL.CallMeta.fromEvent (AL.PW.parseWorkflowCallEvent cfg pos n).1 = some m) : MetaFolded cfg.lower m := by
  cases he : (AL.PW.parseWorkflowCallEvent cfg pos n).1 with
  | call ins secs outs p' =>
    rw [he] at h
    simp only [AL.CallMeta.fromEvent, Option.some.injEq] at h
    subst h
    obtain ⟨h1, h2⟩ := parseWorkflowCallEvent_folded cfg pos n ins secs outs p' he
    exact fromAst_folded cfg.lower ins secs outs h1 h2
  | _ => rw [he] at h; simp [AL.CallMeta.fromEvent] at h

open AL.CallMeta in
theorem structLoop_inv {σ : Type} (fields : List String) (set : σ → String → AL.Yaml.Node → D σ) (P : σ → Prop)
    (hset : ∀ st name v st', P st → set st name v = .ok st' → P st') :
    ∀ (l : List (AL.Yaml.Node × AL.Yaml.Node)) (done : List String) (st st' : σ), P st → structLoop fields set l done st = .ok st' → P st'
  | [], _, st, st', hp, h => by
    simp only [structLoop, Except.ok.injEq] at h
    subst h; exact hp
  | (k, v) :: rest, done, st, st', hp, h => by
    simp only [structLoop] at h
    split at h
    · cases h
    · split at h
      · cases h
      · split at h
        · split at h
          · cases h
          · split at h
            · cases h
            · rename_i st1 hs
              exact structLoop_inv fields set P hset rest _ st1 st' (hset _ _ _ _ hp hs) h
        · exact structLoop_inv fields set P hset rest _ st st' hp h

open AL.CallMeta in
theorem structDecode_inv {σ : Type} (fields : List String) (set : σ → String → AL.Yaml.Node → D σ) (P : σ → Prop)
    (hset : ∀ st name v st', P st → set st name v = .ok st' → P st') (init : σ) (hi : P init) (n : AL.Yaml.Node) (st' : σ)
    (h : structDecode fields set init n = .ok st') : P st' := by
  simp only [structDecode] at h
  split at h
  · cases h
  · split at h
    · cases h
    · exact structLoop_inv fields set P hset _ _ init st' hi h
  · split at h
    · simp only [Except.ok.injEq] at h; subst h; exact hi
    · cases h
  · cases h

open AL.CallMeta in
theorem decInputsLoop_folded (cfg : AL.PW.Cfg) : ∀ (l : List (AL.Yaml.Node × AL.Yaml.Node)) (m r : List (String × AL.CallMeta.Input)),
    (∀ p ∈ m, p.1 = cfg.lower p.2.name) → decInputsLoop cfg l m = .ok r → ∀ p ∈ r, p.1 = cfg.lower p.2.name
  | [], m, r, hm, h => by
    simp only [decInputsLoop, Except.ok.injEq] at h
    subst h; exact hm
  | (k, v) :: rest, m, r, hm, h => by
    simp only [decInputsLoop] at h
    split at h
    · cases h
    · refine decInputsLoop_folded cfg rest _ r ?_ h
      intro p hp
      rcases mem_put m _ _ p hp with h' | rfl
      · exact hm p h'
      · rfl

open AL.CallMeta in
theorem decSecretsLoop_folded (cfg : AL.PW.Cfg) : ∀ (l : List (AL.Yaml.Node × AL.Yaml.Node)) (m r : List (String × AL.CallMeta.Secret)),
    (∀ p ∈ m, p.1 = cfg.lower p.2.name) → decSecretsLoop cfg l m = .ok r → ∀ p ∈ r, p.1 = cfg.lower p.2.name
  | [], m, r, hm, h => by
    simp only [decSecretsLoop, Except.ok.injEq] at h
    subst h; exact hm
  | (k, v) :: rest, m, r, hm, h => by
    simp only [decSecretsLoop] at h
    split at h
    · cases h
    · refine decSecretsLoop_folded cfg rest _ r ?_ h
      intro p hp
      rcases mem_put m _ _ p hp with h' | rfl
      · exact hm p h'
      · rfl

open AL.CallMeta in
/-- the interface decoded from the callee's FILE (`parseReusableWorkflowMetadata`, yaml.v3) is keyed by the folded names too -/
theorem fromYaml_folded (cfg : AL.PW.Cfg) (n : AL.Yaml.Node) (m : AL.CallMeta.Meta) (h : fromYaml cfg n = .ok m) :
    MetaFolded cfg.lower m := by
  apply structDecode_inv _ (setMeta cfg) (MetaFolded cfg.lower) ?_ {} ?_ n m h
  · intro st name v st' hst hs
    simp only [setMeta] at hs
    split at hs
    · cases hv : viaUnmarshaler (decInputs cfg) v with
      | error e => rw [hv] at hs; cases hs
      | ok i =>
        rw [hv] at hs
        simp only [Except.map, Except.ok.injEq] at hs
        subst hs
        refine ⟨?_, hst.2⟩
        simp only [viaUnmarshaler] at hv
        split at hv
        · simp only [Except.ok.injEq] at hv; subst hv; intro p hp; cases hp
        · simp only [decInputs] at hv
          split at hv
          · cases hv
          · exact decInputsLoop_folded cfg _ [] i (by intro p hp; cases hp) hv
          · cases hv
    · cases hv : viaUnmarshaler (decOutputs cfg) v with
      | error e => rw [hv] at hs; cases hs
      | ok o =>
        rw [hv] at hs
        simp only [Except.map, Except.ok.injEq] at hs
        subst hs
        exact hst
    · cases hv : viaUnmarshaler (decSecrets cfg) v with
      | error e => rw [hv] at hs; cases hs
      | ok i =>
        rw [hv] at hs
        simp only [Except.map, Except.ok.injEq] at hs
        subst hs
        refine ⟨hst.1, ?_⟩
        simp only [viaUnmarshaler] at hv
        split at hv
        · simp only [Except.ok.injEq] at hv; subst hv; intro p hp; cases hp
        · simp only [decSecrets] at hv
          split at hv
          · cases hv
          · exact decSecretsLoop_folded cfg _ [] i (by intro p hp; cases hp) hv
          · cases hv
    · simp only [Except.ok.injEq] at hs; subst hs; exact hst
  · exact ⟨fun p hp => (nomatch hp), fun p hp => (nomatch hp)⟩

/-- **`with:` of a call, in terms of what is WRITTEN on both sides**: with the parser's ids on the caller's side and an
interface keyed by folded names (from the AST or from the file), an entry of `with:` is reported as undefined iff no declared
input NAME folds to the same string as the entry's KEY -/
theorem call_input_undefined_iff_names (lower : String → String) (m : AL.CallMeta.Meta) (c : WorkflowCall) (u : Str) (p : AL.Rules.Pos)
    (hm : MetaFolded lower m) (hc : ArgsFolded lower c.inputs) :
    (p, "input-undefined") ∈ (AL.ProjCall.checkLocal m c u).map sig ↔
      ∃ kv ∈ c.inputs.getD [], kv.2.name.pos = p ∧ ∀ x ∈ m.inputs, lower x.2.name ≠ lower kv.2.name.value := by
  rw [call_input_undefined_iff, callKeys_of_folded hc]
  simp only [argKeys, List.mem_map]
  constructor
  · rintro ⟨g, ⟨kv, hkv, rfl⟩, hp, hn⟩
    exact ⟨kv, hkv, hp, fun x hx => by rw [← hm.1 x hx]; exact hn x hx⟩
  · rintro ⟨kv, hkv, hp, hn⟩
    exact ⟨_, ⟨kv, hkv, rfl⟩, hp, fun x hx => by rw [hm.1 x hx]; exact hn x hx⟩

/-- … and a declared required input is reported iff no KEY of `with:` folds to the same string as its NAME -/
theorem call_input_required_iff_names (lower : String → String) (m : AL.CallMeta.Meta) (c : WorkflowCall) (u : Str)
    (hm : MetaFolded lower m) (hc : ArgsFolded lower c.inputs) :
    (u.pos, "input-required") ∈ (AL.ProjCall.checkLocal m c u).map sig ↔
      ∃ n i, m.inputs.find? (·.1 = n) = some (n, i) ∧ i.required = true ∧ ∀ kv ∈ c.inputs.getD [], lower kv.2.name.value ≠ lower i.name := by
  rw [call_input_required_iff, callKeys_of_folded hc]
  simp only [argKeys, List.mem_map]
  constructor
  · rintro ⟨n, i, hf, hr, hn⟩
    have := hm.1 _ (List.mem_of_find?_eq_some hf)
    simp only at this
    exact ⟨n, i, hf, hr, fun kv hkv => by rw [← this]; exact hn _ ⟨kv, hkv, rfl⟩⟩
  · rintro ⟨n, i, hf, hr, hn⟩
    have := hm.1 _ (List.mem_of_find?_eq_some hf)
    simp only at this
    refine ⟨n, i, hf, hr, ?_⟩
    rintro g ⟨kv, hkv, rfl⟩
    rw [this]
    exact hn kv hkv

private def exMeta : AL.CallMeta.Meta :=
  { inputs := [("environment", ⟨"Environment", true, .string⟩), ("dry-run", ⟨"dry-run", false, .bool⟩)],
    secrets := [("token", ⟨"TOKEN", true⟩)] }
private def exCall : WorkflowCall :=
  { uses := some ⟨"./.github/workflows/deploy.yml", false, ⟨5, 11⟩⟩,
    inputs := some [("environment", ⟨⟨"ENVIRONMENT", false, ⟨7, 7⟩⟩, ⟨"prod", false, ⟨7, 20⟩⟩⟩), ("verbose", ⟨⟨"Verbose", false, ⟨8, 7⟩⟩, ⟨"1", false, ⟨8, 16⟩⟩⟩)],
    secrets := some [("token", ⟨⟨"Token", false, ⟨10, 7⟩⟩, ⟨"x", false, ⟨10, 14⟩⟩⟩)] }
private def exCall' : WorkflowCall :=
  { uses := some ⟨"./.github/workflows/deploy.yml", false, ⟨5, 11⟩⟩,
    inputs := some [("environment", ⟨⟨"environment", false, ⟨7, 7⟩⟩, ⟨"prod", false, ⟨7, 20⟩⟩⟩), ("verbose", ⟨⟨"VERBOSE", false, ⟨8, 7⟩⟩, ⟨"1", false, ⟨8, 16⟩⟩⟩)],
    secrets := some [("token", ⟨⟨"TOKEN", false, ⟨10, 7⟩⟩, ⟨"x", false, ⟨10, 14⟩⟩⟩)] }

example : MetaFolded AL.Facts.lowerAscii exMeta := by
  constructor
  · intro p hp
    simp only [exMeta, List.mem_cons, List.not_mem_nil, or_false] at hp
    rcases hp with rfl | rfl <;> decide +kernel
  · intro p hp
    simp only [exMeta, List.mem_cons, List.not_mem_nil, or_false] at hp
    subst hp; decide +kernel

/-- the hypothesis of `checkLocal_recase` / `wcJob_recase` on a concrete pair of calls -/
example : CallRecased AL.Facts.lowerAscii exCall exCall' := by
  refine ⟨rfl, ?_, ?_, by decide +kernel, ?_, ?_, by decide +kernel⟩
  · intro kv hkv
    simp only [exCall, Option.getD_some, List.mem_cons, List.not_mem_nil, or_false] at hkv
    rcases hkv with rfl | rfl <;> decide +kernel
  · intro kv hkv
    simp only [exCall', Option.getD_some, List.mem_cons, List.not_mem_nil, or_false] at hkv
    rcases hkv with rfl | rfl <;> decide +kernel
  · intro kv hkv
    simp only [exCall, Option.getD_some, List.mem_cons, List.not_mem_nil, or_false] at hkv
    subst hkv; decide +kernel
  · intro kv hkv
    simp only [exCall', Option.getD_some, List.mem_cons, List.not_mem_nil, or_false] at hkv
    subst hkv; decide +kernel

/-- `Verbose` is not declared; `ENVIRONMENT` supplies the required `Environment`, `Token` the required `TOKEN` -/
example : (AL.ProjCall.checkLocal exMeta exCall ⟨"./.github/workflows/deploy.yml", false, ⟨5, 11⟩⟩).map sig = [(⟨8, 7⟩, "input-undefined")] := by
  decide +kernel

/-! ## 4. the `needs` / `steps` / `inputs` contexts of rule_expression.go (`AL.RuleExpr`) -/

section contexts
open AL.RuleExpr AL.Sema

/-- the properties of an object type -/
def props : Ty → List (String × Ty)
  | .obj ps _ => ps
  | _ => []

/-- one round of `calcNeedsType`, on the FOLDED id `i` of an entry of `needs:` -/
def needsStepK (outs : List (String × Ty)) (jobs : List (String × Job)) (self : String) (ps : List (String × Ty)) (i : String) :
    List (String × Ty) :=
  if i = self then ps
  else if (Ty.lookup i ps).isSome then ps
  else match lookupJob i jobs with
    | none => ps
    | some j =>
      Ty.setProp i (.obj [("outputs", if j.workflowCall.isNone then declaredOutputsTy j else (Ty.lookup i outs).getD mapOfString),
        ("result", .string)] none) ps

/-- **`needs` context**: `calcNeedsType` reads the entries of `needs:` through `lower` only -/
theorem needsTy_eq (outs : List (String × Ty)) (lower : String → String) (jobs : List (String × Job)) (job : Job) :
    needsTy outs lower jobs job =
      .obj (((job.needs.getD []).map fun n => lower n.value).foldl (needsStepK outs jobs (lower job.id.value)) []) none := by
  simp only [needsTy, List.foldl_map]
  rfl

/-- **re-casing `needs:` and the job's own id**: two jobs whose ids and whose `needs:` agree pointwise after folding get the
same `needs` context -/
theorem needsTy_recase (outs : List (String × Ty)) (lower : String → String) (jobs : List (String × Job)) (job job' : Job)
    (hid : lower job.id.value = lower job'.id.value)
    (h : (job.needs.getD []).map (fun n => lower n.value) = (job'.needs.getD []).map (fun n => lower n.value)) :
    needsTy outs lower jobs job = needsTy outs lower jobs job' := by
  rw [needsTy_eq, needsTy_eq, h, hid]

theorem needsStepK_isSome (outs : List (String × Ty)) (jobs : List (String × Job)) (self : String) (ps : List (String × Ty)) (n i : String) :
    (Ty.lookup i (needsStepK outs jobs self ps n)).isSome = true ↔
      ((Ty.lookup i ps).isSome = true ∨ (i = n ∧ i ≠ self ∧ (lookupJob i jobs).isSome = true)) := by
  unfold needsStepK
  by_cases h1 : n = self
  · simp only [h1, if_true]
    constructor
    · exact Or.inl
    · rintro (h | ⟨h, h', _⟩)
      · exact h
      · exact absurd h h'
  · simp only [h1, if_false]
    by_cases h2 : (Ty.lookup n ps).isSome = true
    · simp only [h2, if_true]
      constructor
      · exact Or.inl
      · rintro (h | ⟨h, _, _⟩)
        · exact h
        · rw [h]; exact h2
    · simp only [h2]
      cases hj : lookupJob n jobs with
      | none =>
        simp only [Bool.false_eq_true, if_false]
        constructor
        · exact Or.inl
        · rintro (h | ⟨h, _, h3⟩)
          · exact h
          · rw [h, hj] at h3; simp at h3
      | some j =>
        simp only [Bool.false_eq_true, if_false]
        rw [AL.Visit.lookup_setProp]
        by_cases h : i = n
        · subst h; simp [h1, hj]
        · simp [h]

theorem needsFoldK_isSome (outs : List (String × Ty)) (jobs : List (String × Job)) (self : String) (i : String) :
    (needs : List String) → (acc : List (String × Ty)) →
    ((Ty.lookup i (needs.foldl (needsStepK outs jobs self) acc)).isSome = true ↔
      ((Ty.lookup i acc).isSome = true ∨ (i ∈ needs ∧ i ≠ self ∧ (lookupJob i jobs).isSome = true)))
  | [], acc => by simp
  | n :: ns, acc => by
    simp only [List.foldl_cons, List.mem_cons]
    rw [needsFoldK_isSome outs jobs self i ns _, needsStepK_isSome]
    constructor
    · rintro ((h | ⟨h, h', h''⟩) | ⟨h, h', h''⟩)
      · exact Or.inl h
      · exact Or.inr ⟨Or.inl h, h', h''⟩
      · exact Or.inr ⟨Or.inr h, h', h''⟩
    · rintro (h | ⟨h | h, h', h''⟩)
      · exact Or.inl (Or.inl h)
      · exact Or.inl (Or.inr ⟨h, h', h''⟩)
      · exact Or.inr ⟨h, h', h''⟩

/-- **the keys of `needs`, exactly**: `needs.<i>` exists iff `i` is `lower` of an entry of `needs:`, a job is registered under
`i`, and `i` is not the job's own (folded) id -/
theorem needsTy_keys (outs : List (String × Ty)) (lower : String → String) (jobs : List (String × Job)) (job : Job) (i : String) :
    (Ty.lookup i (props (needsTy outs lower jobs job))).isSome = true ↔
      ((∃ n ∈ job.needs.getD [], lower n.value = i) ∧ i ≠ lower job.id.value ∧ (lookupJob i jobs).isSome = true) := by
  rw [needsTy_eq]
  simp only [props]
  rw [needsFoldK_isSome]
  simp [Ty.lookup]

theorem lookupJob_isSome (i : String) : ∀ (jobs : List (String × Job)), (lookupJob i jobs).isSome = true ↔ ∃ p ∈ jobs, p.1 = i
  | [] => by simp [lookupJob]
  | (k, j) :: rest => by
    simp only [lookupJob]
    by_cases h : k = i
    · simp [h]
    · simp [h, lookupJob_isSome i rest]

/-- **`needs.<name>` as written in an expression** (the expression parser folds `<name>`, `AL.C08`; the workflow parser keys
`Workflow.Jobs` by the folded job ids, `AL.C08P.jobs_keys_folded`): the property exists iff `name` folds to the same string as an
entry of `needs:` and as the id of some job -/
theorem needs_property_iff (outs : List (String × Ty)) (lower : String → String) (jobs : List (String × Job)) (job : Job) (name : String)
    (hjobs : ∀ p ∈ jobs, p.1 = lower p.2.id.value) :
    (Ty.lookup (lower name) (props (needsTy outs lower jobs job))).isSome = true ↔
      ((∃ n ∈ job.needs.getD [], lower n.value = lower name) ∧ lower name ≠ lower job.id.value ∧
        ∃ p ∈ jobs, lower p.2.id.value = lower name) := by
  rw [needsTy_keys, lookupJob_isSome]
  constructor
  · rintro ⟨h1, h2, p, hp, he⟩
    exact ⟨h1, h2, p, hp, by rw [← hjobs p hp]; exact he⟩
  · rintro ⟨h1, h2, p, hp, he⟩
    exact ⟨h1, h2, p, hp, by rw [hjobs p hp]; exact he⟩

/-- the spelling of `name` does not matter -/
theorem needs_property_recase (outs : List (String × Ty)) (lower : String → String) (jobs : List (String × Job)) (job : Job) (a b : String)
    (h : lower a = lower b) :
    Ty.lookup (lower a) (props (needsTy outs lower jobs job)) = Ty.lookup (lower b) (props (needsTy outs lower jobs job)) := by
  rw [h]

/-! ### `steps` -/

theorem stepExec_snd (cx cx' : Cx) (e : Exec) : (stepExec cx e).2 = (stepExec cx' e).2 := by
  cases e <;> rfl

theorem visitStep_proj (cx : Cx) (n : Step) : (visitStep cx n).1.proj = cx.proj ∧ (visitStep cx n).1.lower = cx.lower := by
  simp only [visitStep]
  cases n.id <;> exact ⟨rfl, rfl⟩

theorem stepM_congr (cx cx' : Cx) (n : Step) (h : cx'.proj = cx.proj) : AL.C05E.stepM cx' n = AL.C05E.stepM cx n := by
  simp only [AL.C05E.stepM, h, stepExec_snd cx' cx]

/-- the `steps` context after a list of steps: `AL.Visit.addStep` folded over them -/
theorem visitSteps_stepsTy : ∀ (steps : List Step) (cx : Cx),
    (visitSteps cx steps).1.st.stepsTy = cx.st.stepsTy.map (fun t => (steps.map (AL.C05E.stepM cx)).foldl (AL.Visit.addStep cx.lower) t) ∧
    (visitSteps cx steps).1.proj = cx.proj ∧ (visitSteps cx steps).1.lower = cx.lower
  | [], cx => by
    refine ⟨?_, rfl, rfl⟩
    simp only [visitSteps, List.map_nil, List.foldl_nil]
    cases cx.st.stepsTy <;> rfl
  | s :: rest, cx => by
    simp only [visitSteps]
    obtain ⟨h1, h2, h3⟩ := visitSteps_stepsTy rest (visitStep cx s).1
    obtain ⟨hp, hl⟩ := visitStep_proj cx s
    refine ⟨?_, h2.trans hp, h3.trans hl⟩
    rw [h1, (AL.C05E.visitStep_scope cx s).1, hl]
    have : rest.map (AL.C05E.stepM (visitStep cx s).1) = rest.map (AL.C05E.stepM cx) :=
      List.map_congr_left fun n _ => stepM_congr cx _ n hp
    rw [this]
    cases cx.st.stepsTy <;> simp

/-- **the keys of `steps`, exactly** (in a job the context starts as the empty strict object): `steps.<x>` exists after the steps
`ss` iff `x` is `lower` of the id of one of them -/
theorem steps_keys (cx : Cx) (ss : List Step) (hs : cx.st.stepsTy = some AL.Visit.emptyStrict) (x : String) :
    ∃ ps m, (visitSteps cx ss).1.st.stepsTy = some (.obj ps m) ∧
      ((Ty.lookup x ps).isSome = true ↔ ∃ s ∈ ss, ∃ id, s.id = some id ∧ cx.lower id.value = x) := by
  obtain ⟨ps, m, he, hiff⟩ := AL.Visit.stepsFold_isSome cx.lower x (ss.map (AL.C05E.stepM cx)) [] none
  refine ⟨ps, m, ?_, ?_⟩
  · rw [(visitSteps_stepsTy ss cx).1, hs]
    simp only [Option.map_some, AL.Visit.emptyStrict, he]
  · rw [hiff]
    simp only [Ty.lookup, Option.isSome_none, Bool.false_eq_true, false_or, List.mem_map]
    constructor
    · rintro ⟨s, ⟨n, hn, rfl⟩, id, hid, hx⟩
      simp only [AL.C05E.stepM, Option.map_eq_some_iff] at hid
      obtain ⟨i, hi, rfl⟩ := hid
      exact ⟨n, hn, i, hi, hx⟩
    · rintro ⟨n, hn, i, hi, hx⟩
      exact ⟨_, ⟨n, hn, rfl⟩, i.value, by simp [AL.C05E.stepM, hi], hx⟩

/-- what `steps` keeps of a step: the folded id, whether the id has a placeholder, the type of the outputs -/
def stepKey (cx : Cx) (n : Step) : Option String × Bool × Ty :=
  ((n.id.map fun i => cx.lower i.value), (AL.C05E.stepM cx n).idExpr, (AL.C05E.stepM cx n).outputs)

def addStepK (t : Ty) (k : Option String × Bool × Ty) : Ty :=
  match k.1 with
  | none => t
  | some i =>
    match (if k.2.1 then AL.Visit.loosen t else t) with
    | .obj ps m => .obj (Ty.setProp i (.obj [("conclusion", .string), ("outcome", .string), ("outputs", k.2.2)] none) ps) m
    | t => t

theorem addStep_key (cx : Cx) (t : Ty) (n : Step) : AL.Visit.addStep cx.lower t (AL.C05E.stepM cx n) = addStepK t (stepKey cx n) := by
  obtain ⟨id, _, _, _, _, _, _, _⟩ := n
  simp only [AL.Visit.addStep, addStepK, stepKey, AL.C05E.stepM]
  cases id <;> rfl

/-- **re-casing step ids**: two lists of steps that agree pointwise in the folded id (and in what else `steps` records) leave the
same `steps` context behind -/
theorem visitSteps_recase (cx : Cx) (ss ss' : List Step) (h : ss.map (stepKey cx) = ss'.map (stepKey cx)) :
    (visitSteps cx ss).1.st.stepsTy = (visitSteps cx ss').1.st.stepsTy := by
  have key : ∀ (l : List Step) (t : Ty), (l.map (AL.C05E.stepM cx)).foldl (AL.Visit.addStep cx.lower) t = (l.map (stepKey cx)).foldl addStepK t := by
    intro l
    induction l with
    | nil => intro t; rfl
    | cons n rest ih => intro t; simp only [List.map_cons, List.foldl_cons, addStep_key, ih]
  rw [(visitSteps_stepsTy ss cx).1, (visitSteps_stepsTy ss' cx).1]
  cases cx.st.stepsTy with
  | none => rfl
  | some t => simp only [Option.map_some, key, h]

/-! ### `inputs` -/

/-- the `inputs` context of `workflow_call`: keyed by the parser's ids (`lower` of the names: `AL.C08P.callInputs_ids_folded`) -/
theorem callInputs_keys (cx : Cx) : ∀ (is : List CallInput) (acc : List (String × Ty)),
    (callInputs cx acc is).1 = acc ++ is.map fun i => (i.id, callTy i.type)
  | [], acc => by simp [callInputs]
  | i :: rest, acc => by
    simp only [callInputs]
    rw [callInputs_keys cx rest]
    simp

/-- `VisitWorkflowPre` at a `workflow_call` event: `inputs` holds the ids of the declared inputs, `secrets` those of the secrets -/
theorem visitEvent_call_header (cx : Cx) (ins : Option (List CallInput)) (secs : Option (List (String × CallSecret)))
    (outs : Option (List (String × CallOutput))) (pos : AL.RuleExpr.Pos) :
    (visitEvent cx (.call ins secs outs pos)).1.hdr.callInputs = some ((ins.getD []).map fun i => (i.id, callTy i.type)) ∧
    (visitEvent cx (.call ins secs outs pos)).1.hdr.callSecrets = (match secs with | some ss => some (ss.map (·.1)) | none => cx.hdr.callSecrets) := by
  simp only [visitEvent, callInputs_keys, List.nil_append]
  cases secs <;> exact ⟨rfl, rfl⟩

/-- `workflow_dispatch`: `inputs` (and `github.event.inputs`) hold the parser's ids (`AL.C08P.dispatchInputs_keys_folded`) -/
theorem visitEvent_dispatch_header (cx : Cx) (ins : Option (List (String × DispatchInput))) (pos : AL.RuleExpr.Pos) :
    (visitEvent cx (.dispatch ins pos)).1.hdr.dispatchInputs = some ((ins.getD []).map fun kv => (kv.1, dispatchTy kv.2.type)) := rfl

/-! ### the expression under these contexts -/

/-- what `checkSemanticsOfExprNode` does with the result of the semantic check -/
def finish (untrusted : Bool) (off : Nat) (r : AL.Sema.R) : Option (Ty × Nat) × List SemaErr :=
  let u := if untrusted then (AL.Insecure.run AL.Gen.untrustedRoots r.evs).map fun paths => err "untrusted" paths else []
  let errs := r.errs ++ u
  if errs.isEmpty then (some (r.ty, off), []) else (none, errs)

theorem checkParsed_eq (cx : Cx) (key : String) (untrusted : Bool) (pe : AL.Parse.Expr) (off : Nat) :
    checkParsed cx key untrusted pe off =
      finish untrusted off (check { AL.Visit.mkEnv cx.lower cx.hdr cx.jobsTy cx.st key with configVars := cx.proj.configVars } (toE cx.lower pe)) := rfl

theorem finish_same (untrusted : Bool) (off : Nat) (r r' : AL.Sema.R) (h : AL.Sema.Same r r') :
    (finish untrusted off r).1 = (finish untrusted off r').1 ∧
    (finish untrusted off r).2.map (·.code) = (finish untrusted off r').2.map (·.code) := by
  obtain ⟨hc, ht, he⟩ := h
  have hl : r.errs.isEmpty = r'.errs.isEmpty := by
    have := congrArg List.length hc
    simp only [List.length_map] at this
    cases h1 : r.errs <;> cases h2 : r'.errs <;> simp_all
  have key : ∀ u : List SemaErr,
      (if (r.errs ++ u).isEmpty then ((some (r'.ty, off), []) : Option (Ty × Nat) × List SemaErr) else (none, r.errs ++ u)).1 =
        (if (r'.errs ++ u).isEmpty then ((some (r'.ty, off), []) : Option (Ty × Nat) × List SemaErr) else (none, r'.errs ++ u)).1 ∧
      (if (r.errs ++ u).isEmpty then ((some (r'.ty, off), []) : Option (Ty × Nat) × List SemaErr) else (none, r.errs ++ u)).2.map (·.code) =
        (if (r'.errs ++ u).isEmpty then ((some (r'.ty, off), []) : Option (Ty × Nat) × List SemaErr) else (none, r'.errs ++ u)).2.map (·.code) := by
    intro u
    have hE : (r.errs ++ u).isEmpty = (r'.errs ++ u).isEmpty := by
      have e : ∀ a b : List SemaErr, (a ++ b).isEmpty = (a.isEmpty && b.isEmpty) := by
        intro a b; cases a <;> cases b <;> rfl
      rw [e, e, hl]
    rw [hE]
    split
    · exact ⟨rfl, rfl⟩
    · exact ⟨rfl, by simp only [List.map_append, hc]⟩
  simp only [finish, ht, he]
  exact key _

/-- **`needs.BUILD` and `needs.build` resolve alike**: the semantic check of a placeholder under the scope in effect
(`checkSemanticsOfExprNode`) gives the same codes, the same type (and offset) for two parse trees that differ in the letter case of
names only — with `needsTy_keys` / `steps_keys` / `callInputs_keys`: the context objects are keyed by `lower` of the ids as written -/
theorem checkParsed_case_insensitive (cx : Cx) (key : String) (untrusted : Bool) (pe pe' : AL.Parse.Expr) (off : Nat)
    (h : AL.C08.CaseEq cx.lower pe pe') :
    (checkParsed cx key untrusted pe off).1 = (checkParsed cx key untrusted pe' off).1 ∧
    (checkParsed cx key untrusted pe off).2.map (·.code) = (checkParsed cx key untrusted pe' off).2.map (·.code) := by
  rw [checkParsed_eq, checkParsed_eq]
  apply finish_same
  exact AL.Sema.check_spell (Γ := { AL.Visit.mkEnv cx.lower cx.hdr cx.jobsTy cx.st key with configVars := cx.proj.configVars })
    (AL.C08.spellEq_of_caseEq cx.lower h)

/-! ### concrete instances -/

private def jobBuild : Job := { id := ⟨"Build", false, ⟨3, 3⟩⟩, pos := ⟨3, 3⟩ }
private def jobDeploy : Job := { id := ⟨"deploy", false, ⟨9, 3⟩⟩, needs := some [⟨"BUILD", false, ⟨10, 13⟩⟩], pos := ⟨9, 3⟩ }
private def jobDeploy' : Job := { id := ⟨"deploy", false, ⟨9, 3⟩⟩, needs := some [⟨"build", false, ⟨10, 13⟩⟩], pos := ⟨9, 3⟩ }
private def exJobs : List (String × Job) := [("build", jobBuild), ("deploy", jobDeploy)]

/-- the hypotheses of `needsTy_recase` (`needs: [BUILD]` / `needs: [build]`) -/
example : jobDeploy.id.value = jobDeploy'.id.value ∧
    (jobDeploy.needs.getD []).map (fun n => AL.Facts.lowerAscii n.value) = (jobDeploy'.needs.getD []).map (fun n => AL.Facts.lowerAscii n.value) := by
  decide +kernel

/-- the hypothesis of `needs_property_iff`: the job `Build` is registered under `build` -/
example : ∀ p ∈ exJobs, p.1 = AL.Facts.lowerAscii p.2.id.value := by
  intro p hp
  simp only [exJobs, List.mem_cons, List.not_mem_nil, or_false] at hp
  rcases hp with rfl | rfl <;> decide +kernel

/-- job `Build`, `needs: [BUILD]`: the context has the property `build` — which `needs.Build`, `needs.BUILD`, `needs.build` all ask for -/
example : (Ty.lookup (AL.Facts.lowerAscii "BuilD") (props (needsTy [] AL.Facts.lowerAscii exJobs jobDeploy))).isSome = true := by
  decide +kernel

/-- the hypothesis of `visitSteps_recase` (`BUILD` re-spelled `build`) -/
example : [stA, stC].map (stepKey { lower := AL.Facts.lowerAscii }) = [stA, stC'].map (stepKey { lower := AL.Facts.lowerAscii }) := by
  simp only [List.map, stepKey, AL.C05E.stepM, stA, stC, stC', Option.map_some, List.cons.injEq, Prod.mk.injEq, Option.some.injEq, and_true, true_and]
  decide +kernel

/-- the hypothesis of `checkParsed_case_insensitive`: `needs.BUILD.result` / `Needs.build.Result` -/
example : AL.C08.CaseEq AL.Facts.lowerAscii
    (.objDeref (.objDeref (.var (AL.C08.sy "needs")) (AL.C08.sy "BUILD")) (AL.C08.sy "result"))
    (.objDeref (.objDeref (.var (AL.C08.sy "Needs")) (AL.C08.sy "build")) (AL.C08.sy "Result")) :=
  .objDeref _ _ _ _ (.objDeref _ _ _ _ (.var _ _ (by decide +kernel)) (by decide +kernel)) (by decide +kernel)

/-! ### FINDING: the job's own id is compared as written -/

private def jobSelfU : Job := { id := ⟨"Build", false, ⟨3, 3⟩⟩, needs := some [⟨"build", false, ⟨4, 13⟩⟩], pos := ⟨3, 3⟩ }
private def jobSelfL : Job := { id := ⟨"build", false, ⟨3, 3⟩⟩, needs := some [⟨"build", false, ⟨4, 13⟩⟩], pos := ⟨3, 3⟩ }

/-- `populateDependantNeedsTypes` skips the job itself by comparing FOLDED ids (after the repair 090f683; the pinned tree compared
the folded entry of `needs:` with the job id as written, so that `build` → `Build` changed the `needs` context): a job that
(wrongly) needs itself is left out of its own `needs` context in every spelling of its id. -/
theorem needs_self_folded (outs : List (String × Ty)) (lower : String → String) (jobs : List (String × Job)) (job : Job) :
    (Ty.lookup (lower job.id.value) (props (needsTy outs lower jobs job))).isSome = false := by
  have := needsTy_keys outs lower jobs job (lower job.id.value)
  cases h : (Ty.lookup (lower job.id.value) (props (needsTy outs lower jobs job))).isSome with
  | false => rfl
  | true => exact absurd rfl (this.1 h).2.1

/-- both spellings of the witness of the former defect -/
example :
    (Ty.lookup "build" (props (needsTy [] AL.Facts.lowerAscii [("build", jobSelfL)] jobSelfL))).isSome = false ∧
    (Ty.lookup "build" (props (needsTy [] AL.Facts.lowerAscii [("build", jobSelfU)] jobSelfU))).isSome = false ∧
    AL.Facts.lowerAscii jobSelfL.id.value = AL.Facts.lowerAscii jobSelfU.id.value := by
  decide +kernel

end contexts

/-! ## 5. shell names, runner labels, boolean defaults -/

/-- site, code and every argument but the first (which echoes the spelling) -/
def sigTail (d : Diag) : AL.Rules.Pos × String × List String := (d.pos, d.code, d.args.drop 1)

/-- **shell names**: the verdict of `checkShellName` (whether the name is reported, and the "on Windows" / "on macOS or Linux" part
of the message) depends on the text through `lower` only; `{0}` and `${{ }}` switch the check off -/
theorem checkShellName_lower_only (lower : String → String) (pf : Platform) (a b : Str)
    (hl : lower a.value = lower b.value) (hp : a.pos = b.pos)
    (h0 : containsSub "{0}" a.value = containsSub "{0}" b.value) (he : containsExpr a = containsExpr b) :
    (checkShellName lower pf (some a)).map sigTail = (checkShellName lower pf (some b)).map sigTail := by
  simp only [checkShellName, hl, hp, h0, he]
  split
  · rfl
  · split
    · rfl
    · split
      · rfl
      · simp [sigTail]

/-- the platform of a runner reads the labels through `lower` only -/
def platformLoopK : List String → Platform → Platform
  | [], ret => ret
  | l :: rest, ret =>
    let k := if l.startsWith "windows-" || l = "windows" then Platform.windows
      else if l.startsWith "macos-" || l.startsWith "ubuntu-" || l = "macos" || l = "linux" then .macOrLinux
      else .any
    if k = .any then platformLoopK rest ret
    else if ret ≠ .any && ret ≠ k then .any
    else platformLoopK rest k

theorem platformLoop_eq (lower : String → String) : ∀ (ls : List Str) (ret : Platform),
    platformLoop lower ls ret = platformLoopK (ls.map fun l => lower l.value) ret
  | [], _ => rfl
  | l :: rest, ret => by
    simp only [platformLoop, List.map_cons, platformLoopK, labelPlatform, platformLoop_eq lower rest]
    rfl

/-- **`runs-on:` labels → platform**: two runners whose labels agree pointwise after folding are the same platform for the shell check -/
theorem platformOf_recase (lower : String → String) (r r' : Runner)
    (h : (r.labels.getD []).map (fun l => lower l.value) = (r'.labels.getD []).map (fun l => lower l.value)) :
    platformOf lower r = platformOf lower r' := by
  simp only [platformOf, platformLoop_eq, h]

/-- **runner labels**: `verifyRunnerLabel` reads the label through `lower` (the table of GitHub-hosted and preset OS labels), through
`EqualFold` (the other preset labels) and — for the labels of the configuration file — through `path.Match`, which is CASE-SENSITIVE:
when two spellings agree in all three, the compatibility set, the sites and the codes agree -/
theorem verifyRunnerLabel_recase (lower : String → String) (lc : LabelCfg) (a b : Str)
    (hl : lower a.value = lower b.value) (hp : a.pos = b.pos) (hf : foldAscii a.value = foldAscii b.value)
    (hm : ∀ k ∈ lc.known, lc.pmatch k a.value = lc.pmatch k b.value) :
    (verifyRunnerLabel lower a lc).1 = (verifyRunnerLabel lower b lc).1 ∧
    (verifyRunnerLabel lower a lc).2.map sig = (verifyRunnerLabel lower b lc).2.map sig := by
  have hk : ∀ (ks : List String), (∀ k ∈ ks, lc.pmatch k a.value = lc.pmatch k b.value) →
      (knownLoop lc a ks).map (·.map sig) = (knownLoop lc b ks).map (·.map sig) := by
    intro ks
    induction ks with
    | nil => intro _; rfl
    | cons k rest ih =>
      intro h
      simp only [knownLoop]
      rw [h k (by simp)]
      split
      · simp [sig, hp]
      · rfl
      · exact ih fun k' hk' => h k' (by simp [hk'])
  simp only [verifyRunnerLabel, hl, hf]
  split
  · exact ⟨rfl, rfl⟩
  · split
    · exact ⟨rfl, rfl⟩
    · have := hk lc.known hm
      cases h1 : knownLoop lc a lc.known <;> cases h2 : knownLoop lc b lc.known <;> rw [h1, h2] at this <;>
        simp only [Option.map_some, Option.map_none, Option.some.injEq, reduceCtorEq] at this
      · exact ⟨rfl, by simp [sig, hp]⟩
      · exact ⟨rfl, this⟩

/-- a GitHub-hosted / preset OS label is recognised in every spelling that folds to it -/
theorem verifyRunnerLabel_known (lower : String → String) (lc : LabelCfg) (a b : Str) (hl : lower a.value = lower b.value)
    (e : String × Nat) (hk : AL.Gen.runnerCompats.find? (·.1 = lower a.value) = some e) :
    verifyRunnerLabel lower a lc = (e.2, []) ∧ verifyRunnerLabel lower b lc = (e.2, []) := by
  constructor
  · simp only [verifyRunnerLabel, hk]
  · simp only [verifyRunnerLabel, ← hl, hk]

/-- without a configuration file (no `self-hosted-runner.labels`) the third hypothesis is void -/
theorem verifyRunnerLabel_recase_noconfig (lower : String → String) (a b : Str)
    (hl : lower a.value = lower b.value) (hp : a.pos = b.pos) (hf : foldAscii a.value = foldAscii b.value) :
    (verifyRunnerLabel lower a).1 = (verifyRunnerLabel lower b).1 ∧
    (verifyRunnerLabel lower a).2.map sig = (verifyRunnerLabel lower b).2.map sig :=
  verifyRunnerLabel_recase lower {} a b hl hp hf (fun _ hk => nomatch hk)

/-! for the ASCII `lower` the `EqualFold` hypothesis follows from the `lower` one -/

def gC (c : Char) : Char := if c.toNat = 0x17F then 's' else if c.toNat = 0x212A then 'k' else c
def fC (c : Char) : Char := if 'A' ≤ c ∧ c ≤ 'Z' then Char.ofNat (c.toNat + 32) else c
def foldC (c : Char) : Char :=
  if c.toNat = 0x17F then 's' else if c.toNat = 0x212A then 'k' else if 'A' ≤ c ∧ c ≤ 'Z' then Char.ofNat (c.toNat + 32) else c

theorem upper_cases : ∀ n : Fin 26, gC (fC (Char.ofNat (65 + n.val))) = foldC (Char.ofNat (65 + n.val)) := by decide

theorem gC_fC (c : Char) : gC (fC c) = foldC c := by
  by_cases h : 'A' ≤ c ∧ c ≤ 'Z'
  · have h1 : 65 ≤ c.toNat := by
      have := h.1
      rw [Char.le_def] at this
      exact this
    have h2 : c.toNat ≤ 90 := by
      have := h.2
      rw [Char.le_def] at this
      exact this
    have := upper_cases ⟨c.toNat - 65, by omega⟩
    simp only at this
    have e : 65 + (c.toNat - 65) = c.toNat := by omega
    rw [e, Char.ofNat_toNat] at this
    exact this
  · simp [gC, fC, foldC, h]

/-- `EqualFold` against an ASCII pattern factors through ASCII lower-casing -/
theorem foldAscii_eq (s : String) : foldAscii s = String.ofList ((AL.Facts.lowerAscii s).toList.map gC) := by
  simp only [foldAscii, AL.Facts.lowerAscii, String.toList_ofList, List.map_map]
  congr 1
  apply List.map_congr_left
  intro c _
  exact (gC_fC c).symm

theorem foldAscii_of_lowerAscii (a b : String) (h : AL.Facts.lowerAscii a = AL.Facts.lowerAscii b) : foldAscii a = foldAscii b := by
  rw [foldAscii_eq, foldAscii_eq, h]

/-- **runner labels, ASCII lower-casing, no configured labels**: the verdict depends on the label through `lower` only -/
theorem verifyRunnerLabel_recase_ascii (a b : Str) (hl : AL.Facts.lowerAscii a.value = AL.Facts.lowerAscii b.value) (hp : a.pos = b.pos) :
    (verifyRunnerLabel AL.Facts.lowerAscii a).1 = (verifyRunnerLabel AL.Facts.lowerAscii b).1 ∧
    (verifyRunnerLabel AL.Facts.lowerAscii a).2.map sig = (verifyRunnerLabel AL.Facts.lowerAscii b).2.map sig :=
  verifyRunnerLabel_recase_noconfig AL.Facts.lowerAscii a b hl hp (foldAscii_of_lowerAscii _ _ hl)

/-- FINDING (C08, runner labels of the configuration file): `path.Match(k, l)` compares the label as written. With
`self-hosted-runner: labels: [gpu-runner]` in actionlint.yaml, `runs-on: gpu-runner` is accepted and `runs-on: GPU-Runner` is
reported as unknown — although both spellings fold to the same string (GitHub matches runner labels case-insensitively, and
actionlint itself does so for every built-in label) -/
theorem runner_config_label_case_sensitive :
    let lc : LabelCfg := { known := ["gpu-runner"], pmatch := fun k l => some (k == l) }
    let a : Str := ⟨"gpu-runner", false, ⟨5, 14⟩⟩
    let b : Str := ⟨"GPU-Runner", false, ⟨5, 14⟩⟩
    AL.Facts.lowerAscii a.value = AL.Facts.lowerAscii b.value ∧ foldAscii a.value = foldAscii b.value ∧
    (verifyRunnerLabel AL.Facts.lowerAscii a lc).2 = [] ∧
    (verifyRunnerLabel AL.Facts.lowerAscii b lc).2.map sig = [(⟨5, 14⟩, "label-unknown")] := by
  decide +kernel

/-- the hypotheses of `checkShellName_lower_only` / `verifyRunnerLabel_recase_noconfig` on concrete spellings -/
example : AL.Facts.lowerAscii "PowerShell" = AL.Facts.lowerAscii "powershell" ∧
    containsSub "{0}" "PowerShell" = containsSub "{0}" "powershell" ∧
    containsExpr ⟨"PowerShell", false, ⟨4, 12⟩⟩ = containsExpr ⟨"powershell", false, ⟨4, 12⟩⟩ := by
  decide +kernel

/-- `PowerShell` on a Linux runner: reported in both spellings, with the same "on macOS or Linux" -/
example : (checkShellName AL.Facts.lowerAscii .macOrLinux (some ⟨"PowerShell", false, ⟨4, 12⟩⟩)).map sigTail =
    [(⟨4, 12⟩, "shell-name", [" on macOS or Linux"])] := by
  decide +kernel

example : AL.Facts.lowerAscii "Ubuntu-Latest" = AL.Facts.lowerAscii "ubuntu-latest" ∧ foldAscii "Ubuntu-Latest" = foldAscii "ubuntu-latest" ∧
    (verifyRunnerLabel AL.Facts.lowerAscii ⟨"Ubuntu-Latest", false, ⟨3, 14⟩⟩).2 = [] := by
  decide +kernel

/-- the hypothesis of `platformOf_recase` -/
example : ([⟨"Windows-Latest", false, ⟨3, 14⟩⟩] : List Str).map (fun l => AL.Facts.lowerAscii l.value) =
    ([⟨"windows-latest", false, ⟨3, 14⟩⟩] : List Str).map (fun l => AL.Facts.lowerAscii l.value) := by
  decide +kernel

/-! ### defaults of `workflow_call` inputs (`checkWorkflowCallEvent`) -/

/-- what `checkWorkflowCallEvent` reads of the default of an input: position, whether it has a placeholder, whether it parses as a
number, and its FOLDED text -/
structure DefaultKey where
  pos : AL.Rules.Pos
  hasExpr : Bool
  num : Bool
  low : String
deriving DecidableEq

/-- … and of the input: its type, whether it is required, the default -/
structure CallKey where
  type : CallInputType
  required : Bool
  dflt : Option DefaultKey
deriving DecidableEq

def callKey (lower : String → String) (isNum : String → Bool) (i : CallInput) : CallKey :=
  { type := i.type, required := (match i.required with | some r => r.value | none => false),
    dflt := i.dflt.map fun d => ⟨d.pos, containsExpr d, isNum d.value, lower d.value⟩ }

def callDefaultK (k : CallKey) : List (AL.Rules.Pos × String) :=
  match k.dflt with
  | none => []
  | some d =>
    (if !d.hasExpr then
      (match k.type with
       | .number => if d.num then [] else [(d.pos, "call-default-not-number")]
       | .boolean => if d.low = "true" || d.low = "false" then [] else [(d.pos, "call-default-not-bool")]
       | _ => [])
     else []) ++
    (if k.required then [(d.pos, "call-default-and-required")] else [])

/-- **boolean defaults**: sites and codes of `checkWorkflowCallEvent` are a function of `callKey` — the text of a default enters
through `lower` (booleans: `true` / `false` in any case) and through `strconv.ParseFloat` (numbers) only -/
theorem checkCallEvent_sig (lower : String → String) (isNum : String → Bool) (inputs : List CallInput) :
    (checkCallEvent lower isNum inputs).map sig = (inputs.map (callKey lower isNum)).flatMap callDefaultK := by
  simp only [checkCallEvent, List.map_flatMap, List.flatMap_map]
  apply flatMap_congr'
  intro i _
  obtain ⟨name, desc, dflt, required, type, id⟩ := i
  simp only [callDefaultK, callKey]
  cases dflt with
  | none => rfl
  | some d =>
    simp only [Option.map_some, List.map_append]
    congr 1
    · cases containsExpr d
      · cases type
        · rfl
        · simp only [Bool.not_false, if_true]
          split <;> simp [sig]
        · simp only [Bool.not_false, if_true]
          split <;> simp [sig]
        · rfl
      · rfl
    · cases required with
      | none => rfl
      | some r =>
        simp only
        by_cases h : r.value = true <;> simp [h, sig]

theorem checkCallEvent_recase (lower : String → String) (isNum : String → Bool) (inputs inputs' : List CallInput)
    (h : inputs.map (callKey lower isNum) = inputs'.map (callKey lower isNum)) :
    (checkCallEvent lower isNum inputs).map sig = (checkCallEvent lower isNum inputs').map sig := by
  rw [checkCallEvent_sig, checkCallEvent_sig, h]

/-- **boolean default of a `workflow_dispatch` input**: `true` / `false` in any letter case -/
theorem dispatch_bool_default_lower_only (lower : String → String) (isNum : String → Bool) (n : String) (i i' : DispatchInput)
    (pos : AL.Rules.Pos) (d d' : Str) (ht : i.type = .boolean) (ht' : i'.type = .boolean) (hd : i.dflt = some d) (hd' : i'.dflt = some d')
    (hn : i.name.pos = i'.name.pos) (ho : (i.options.getD []).isEmpty = (i'.options.getD []).isEmpty)
    (hl : lower d.value = lower d'.value) (hp : d.pos = d'.pos) :
    (checkDispatchEvent lower isNum [(n, i)] pos).map sig = (checkDispatchEvent lower isNum [(n, i')] pos).map sig := by
  simp only [checkDispatchEvent, List.flatMap_cons, List.flatMap_nil, List.append_nil, ht, ht', hd, hd', hl, hp, hn, ho,
    reduceCtorEq, if_false, List.length_singleton, List.map_append]
  congr 2
  split <;> simp [sig]

private def inB : CallInput := { name := ⟨"dry-run", false, ⟨5, 7⟩⟩, dflt := some ⟨"TRUE", false, ⟨7, 18⟩⟩, type := .boolean, id := "dry-run" }
private def inB' : CallInput := { name := ⟨"dry-run", false, ⟨5, 7⟩⟩, dflt := some ⟨"true", false, ⟨7, 18⟩⟩, type := .boolean, id := "dry-run" }
private def inX : CallInput := { name := ⟨"dry-run", false, ⟨5, 7⟩⟩, dflt := some ⟨"yes", false, ⟨7, 18⟩⟩, type := .boolean, id := "dry-run" }

/-- the hypothesis of `checkCallEvent_recase` (`default: TRUE` / `default: true`) -/
example : [inB].map (callKey AL.Facts.lowerAscii fun _ => false) = [inB'].map (callKey AL.Facts.lowerAscii fun _ => false) := by
  decide +kernel

example : (checkCallEvent AL.Facts.lowerAscii (fun _ => false) [inB, inX]).map sig = [(⟨7, 18⟩, "call-default-not-bool")] := by
  decide +kernel

/-! ## the hypotheses of the remaining theorems are satisfiable -/

section instances
open AL.Yaml

private def exCfg : AL.PW.Cfg := { lower := AL.Facts.lowerAscii, atoi := fun _ => none, parseFloat := fun _ => .err }

private def sc (tag v : String) (l c : Nat) : Node := .mk .scalar tag v false l c []
private def mp (l c : Nat) (cs : List Node) : Node := .mk .mapping "!!map" "" false l c cs

/-- `workflow_call: {inputs: {Environment: {required: true}}, secrets: {TOKEN: {required: true}}}` decoded from the file: the
hypothesis of `fromYaml_folded` holds, with the ids `environment` / `token` -/
example : (match AL.CallMeta.fromYaml exCfg
      (mp 2 3 [sc "!!str" "inputs" 3 5, mp 4 7 [sc "!!str" "Environment" 4 7, mp 5 9 [sc "!!str" "required" 5 9, sc "!!bool" "true" 5 19]],
               sc "!!str" "secrets" 6 5, mp 7 7 [sc "!!str" "TOKEN" 7 7, mp 8 9 [sc "!!str" "required" 8 9, sc "!!bool" "true" 8 19]]]) with
    | .ok m => (m.inputs.map fun p => (p.1, p.2.name), m.secrets.map fun p => (p.1, p.2.name))
    | .error _ => ([], [])) = ([("environment", "Environment")], [("token", "TOKEN")]) := by
  decide +kernel

/-- `parseWorkflowCallEvent` always yields a `workflow_call` event: the hypothesis of `parseWorkflowCallEvent_folded` -/
example (cfg : AL.PW.Cfg) (pos : AL.Yaml.Pos) (n : Node) :
    ∃ ins secs outs p', (AL.PW.parseWorkflowCallEvent cfg pos n).1 = .call ins secs outs p' := ⟨_, _, _, _, rfl⟩

/-- … and of `parsed_interface_folded` -/
example (cfg : AL.PW.Cfg) (pos : AL.Yaml.Pos) (n : Node) :
    ∃ m, AL.CallMeta.fromEvent (AL.PW.parseWorkflowCallEvent cfg pos n).1 = some m := ⟨_, rfl⟩

/-- `popular_ids_folded` / `popular_input_undefined_iff`: a bundled action -/
example : (popularEntry "actions/checkout@v4").isSome = true := by decide +kernel

/-- `verifyRunnerLabel_known`: `Ubuntu-Latest` folds to a GitHub-hosted label -/
example : (AL.Gen.runnerCompats.find? (·.1 = AL.Facts.lowerAscii "Ubuntu-Latest")).isSome = true := by decide +kernel

/-- `verifyRunnerLabel_recase` with configured labels matched by a case-INsensitive matcher: all hypotheses hold -/
example :
    let lc : LabelCfg := { known := ["gpu-*"], pmatch := fun k l => some (AL.Facts.lowerAscii l == "gpu-1" && k == "gpu-*") }
    AL.Facts.lowerAscii "GPU-1" = AL.Facts.lowerAscii "gpu-1" ∧ foldAscii "GPU-1" = foldAscii "gpu-1" ∧
      ∀ k ∈ lc.known, lc.pmatch k "GPU-1" = lc.pmatch k "gpu-1" := by
  decide +kernel

private def stepU : Step := { exec := .action exWith, pos := ⟨4, 9⟩ }
private def stepU' : Step := { exec := .action exWith', pos := ⟨4, 9⟩ }

/-- `actionStep_recase` / `localActionStep_recase`: two steps with the `with:` blocks of the example above -/
example : stepU.exec = .action exWith ∧ stepU'.exec = .action exWith' ∧ exWith.uses = exWith'.uses := ⟨rfl, rfl, rfl⟩

private def jobC : Job := { id := ⟨"deploy", false, ⟨4, 3⟩⟩, workflowCall := some exCall, pos := ⟨4, 3⟩ }
private def jobC' : Job := { id := ⟨"deploy", false, ⟨4, 3⟩⟩, workflowCall := some exCall', pos := ⟨4, 3⟩ }

/-- `wcJob_recase` / `call_secret_*_iff`: two jobs with the calls of the example above (no `secrets: inherit`) -/
example : jobC.workflowCall = some exCall ∧ jobC'.workflowCall = some exCall' ∧ exCall.uses = exCall'.uses ∧ exCall.inheritSecrets = false :=
  ⟨rfl, rfl, rfl, rfl⟩

/-- `steps_keys`: the scope at the first step of a job -/
example : ({ lower := AL.Facts.lowerAscii, st := { AL.Visit.St.init with stepsTy := some AL.Visit.emptyStrict } } : AL.RuleExpr.Cx).st.stepsTy =
    some AL.Visit.emptyStrict := rfl

/-- `ruleId_recase`: two workflows, one job each, `BUILD` re-spelled `build` -/
example :
    let w : Workflow := { jobs := some [("j", { id := ⟨"j", false, ⟨2, 3⟩⟩, steps := some [stA, stB, stC], pos := ⟨2, 3⟩ })] }
    let w' : Workflow := { jobs := some [("j", { id := ⟨"j", false, ⟨2, 3⟩⟩, steps := some [stA, stB, stC'], pos := ⟨2, 3⟩ })] }
    ((jobsOf w).map fun j => (ids (stepsOf j)).map (fk AL.Facts.lowerAscii)) = ((jobsOf w').map fun j => (ids (stepsOf j)).map (fk AL.Facts.lowerAscii)) := by
  decide +kernel

private def dI : DispatchInput :=
  { name := ⟨"debug", false, ⟨4, 7⟩⟩, description := none, required := none, dflt := some ⟨"False", false, ⟨6, 18⟩⟩, type := .boolean, options := none }
private def dI' : DispatchInput :=
  { name := ⟨"debug", false, ⟨4, 7⟩⟩, description := none, required := none, dflt := some ⟨"FALSE", false, ⟨6, 18⟩⟩, type := .boolean, options := none }

/-- `dispatch_bool_default_lower_only`: `default: False` / `default: FALSE` -/
example : dI.type = .boolean ∧ dI'.type = .boolean ∧ dI.dflt = some ⟨"False", false, ⟨6, 18⟩⟩ ∧ dI'.dflt = some ⟨"FALSE", false, ⟨6, 18⟩⟩ ∧
    dI.name.pos = dI'.name.pos ∧ (dI.options.getD []).isEmpty = (dI'.options.getD []).isEmpty ∧
    AL.Facts.lowerAscii "False" = AL.Facts.lowerAscii "FALSE" := by
  decide +kernel

end instances

end AL.C08R
