import AL.Lemmas.C05DJob
import AL.Lemmas.C05DMatrix
import AL.Lemmas.C05DEvents
import AL.Props.C05Scope
import AL.Props.C18Parse
/-
  C05 from the DOCUMENT to the diagnostics: the scope theorems of AL.Props.C05Scope (on AST fields) composed with the
  parser (AL.PW), so that they speak about what is WRITTEN in the yaml.Node tree.

  Document side (AL/Lemmas/C05D*.lean; written on the node tree alone — `pairs`, the node's fields, `List.find?`):
    `mget n k` (the value under the key written `k`), `docRoot`, `docJobs` / `docJobIds` (the pairs / keys of `jobs:`),
    `docSteps job` (the elements of `steps:`), `docStepId step` (the text of `id:`), `docStepIds`, `docStepIdsBefore job k`,
    `docNeeds job` (the scalar or the scalars of the sequence under `needs:`), `docOutputs job`, `docMatrix job`,
    `docMatrixRowKeys` / `docIncludeNode` / `docIncludeKeys` / `docMatrixLiteral` (`include` / `exclude` are recognised
    folded, as parse.go does), `docOn`, `docCallInputs`, `docCallSecrets`, `docDispatchInputs`.

  For a document the parser accepts without a diagnostic (`(parse cfg doc).2 = []`):
    §1 the AST fields are what is written      jobs_written, job_ids_written, job_mem, job_id_written, steps_written,
                                               step_id_written, step_id_text, step_ids_written, step_run_written,
                                               needs_written; (§3) outputs_written, job_no_call, lookupJob_written,
                                               matrix_written, hdr_written, hdr_plain_written
    §2 where the rule checks                   job_visited, job_pre_visited, step_visited, step_run_checked, job_post_visited
                                               (the states `docCx`, `docJobCx`, `docStepCx … k`, `docJobPostCx`)
    §3 the scope theorems on the document      doc_steps_reported_iff, doc_steps_reported_post_iff, doc_needs_reported_iff,
                                               doc_needs_outputs_reported_iff, doc_jobs_reported_iff,
                                               doc_jobs_outputs_reported_iff (state `docOutCx`, out_values_checked),
                                               doc_matrix_reported_iff (+ the AST-level
                                               companion matrix_reported_rows_iff), doc_inputs_reported_iff,
                                               doc_secrets_reported_iff, doc_secrets_silent, doc_inputs_reported_plain,
                                               doc_secrets_silent_plain
    §4 the same with lists of written names    doc_steps_reported_iff_ids, doc_steps_reported_post_iff_ids,
                                               doc_matrix_reported_iff_lit
    §5 three concrete documents                example_not_later, example_not_transitive, example_matrix,
                                               example_inputs_secrets, example_needs_outputs, example_jobs, and one
                                               instance per theorem with hypotheses

  How it is proved. EXACT clean lemmas (AL/Lemmas/C05DBase.lean): `parseMapping_clean_eq` (no diagnostic ⇒ one entry per
  pair of the node, in order), `loop_field` / `sect_field` (a field of the loop state only the iteration of one key
  writes is, after the loop over pairwise distinct ids, what that key's value parses to), `sect_clean_at` (that iteration
  was clean); per section C05DJob (steps, id, run, needs, outputs, uses, jobs, workflow), C05DMatrix (strategy, matrix rows,
  include), C05DEvents (on, workflow_call, workflow_dispatch, the header fold).
-/
namespace AL.C05D
open AL AL.PW AL.Yaml AL.Ast AL.C03P AL.C05S AL.Sema
open AL.RuleExpr (Cx ProjView IsNumber rule visitJob visitStep visitSteps jobPre jobPost stepDiags lookupJob)

/-! ## 1. the AST fields are what is written -/

/-- the job `parse` builds from a pair of `jobs:` -/
def docJob (cfg : Cfg) (p : Node × Node) : Job := (parseJob cfg (newString p.1) p.2).1

/-- the step `parse` builds from an element of `steps:` -/
def docStep (cfg : Cfg) (c : Node) : Step := (parseStep cfg c).1

/-- `Workflow.Jobs` of the parsed document -/
def docJobsAst (cfg : Cfg) (doc : Node) : List (String × Job) := (parse cfg doc).1.jobs.getD []

/-- **the jobs of the AST are the pairs of `jobs:`**, in order: keyed by the folded key, parsed from key and value -/
theorem jobs_written (cfg : Cfg) (doc : Node) (h : (parse cfg doc).2 = []) :
    docJobsAst cfg doc = (docJobs doc).map fun p => (cfg.lower p.1.value, docJob cfg p) := by
  unfold docJobsAst
  rw [(parse_jobs_written cfg doc h).1]
  rfl

theorem job_clean (cfg : Cfg) (doc : Node) (h : (parse cfg doc).2 = []) (p : Node × Node) (hp : p ∈ docJobs doc) :
    (parseJob cfg (newString p.1) p.2).2 = [] := (parse_jobs_written cfg doc h).2 p hp

/-- the id of the job built from a pair is the key scalar -/
theorem job_id_written (cfg : Cfg) (p : Node × Node) : (docJob cfg p).id = newString p.1 :=
  AL.C08P.parseJob_id cfg _ _

/-- **the keys of `Workflow.Jobs` are the folded keys of `jobs:`, the ids of the jobs the keys as written** -/
theorem job_ids_written (cfg : Cfg) (doc : Node) (h : (parse cfg doc).2 = []) :
    (docJobsAst cfg doc).map (·.1) = (docJobIds doc).map cfg.lower ∧
    (docJobsAst cfg doc).map (·.2.id.value) = docJobIds doc := by
  rw [jobs_written cfg doc h]
  simp only [List.map_map, docJobIds]
  refine ⟨List.map_congr_left fun p _ => rfl, List.map_congr_left fun p _ => ?_⟩
  simp only [Function.comp, job_id_written]
  rfl

theorem job_mem (cfg : Cfg) (doc : Node) (h : (parse cfg doc).2 = []) (p : Node × Node) (hp : p ∈ docJobs doc) :
    (cfg.lower p.1.value, docJob cfg p) ∈ docJobsAst cfg doc := by
  rw [jobs_written cfg doc h]
  exact List.mem_map.2 ⟨p, hp, rfl⟩

/-- **the steps of a job of the AST are the elements of its `steps:`**, in order -/
theorem steps_written (cfg : Cfg) (doc : Node) (h : (parse cfg doc).2 = []) (p : Node × Node) (hp : p ∈ docJobs doc) :
    (docJob cfg p).steps.getD [] = (docSteps p.2).map (docStep cfg) :=
  (parseJob_steps cfg _ _ (job_clean cfg doc h p hp)).1

theorem step_clean (cfg : Cfg) (doc : Node) (h : (parse cfg doc).2 = []) (p : Node × Node) (hp : p ∈ docJobs doc)
    (c : Node) (hc : c ∈ docSteps p.2) : (parseStep cfg c).2 = [] :=
  ((parseJob_steps cfg _ _ (job_clean cfg doc h p hp)).2 c hc).1

/-- the id of a step of the AST is the `id:` scalar of the step node: text, quoting, position -/
theorem step_id_written (cfg : Cfg) (doc : Node) (h : (parse cfg doc).2 = []) (p : Node × Node) (hp : p ∈ docJobs doc)
    (c : Node) (hc : c ∈ docSteps p.2) : (docStep cfg c).id = (docStepIdNode c).map newString :=
  ((parseJob_steps cfg _ _ (job_clean cfg doc h p hp)).2 c hc).2

theorem step_id_text (cfg : Cfg) (doc : Node) (h : (parse cfg doc).2 = []) (p : Node × Node) (hp : p ∈ docJobs doc)
    (c : Node) (hc : c ∈ docSteps p.2) : (docStep cfg c).id.map (·.value) = docStepId c := by
  rw [step_id_written cfg doc h p hp c hc, docStepId, docStepIdNode]
  cases mget c "id" <;> rfl

/-- **the texts of the ids of the steps of a job of the AST are the texts of the `id:` scalars of the elements of
`steps:`**, step by step and as a list -/
theorem step_ids_written (cfg : Cfg) (doc : Node) (h : (parse cfg doc).2 = []) (p : Node × Node) (hp : p ∈ docJobs doc) :
    ((docJob cfg p).steps.getD []).map (fun s => s.id.map (·.value)) = (docSteps p.2).map docStepId ∧
    ((docJob cfg p).steps.getD []).filterMap (fun s => s.id.map (·.value)) = docStepIds p.2 := by
  have e : ((docJob cfg p).steps.getD []).map (fun s => s.id.map (·.value)) = (docSteps p.2).map docStepId := by
    rw [steps_written cfg doc h p hp, List.map_map]
    exact List.map_congr_left fun c hc => step_id_text cfg doc h p hp c hc
  refine ⟨e, ?_⟩
  have := congrArg (List.filterMap id) e
  simpa [List.filterMap_map, docStepIds] using this

/-- the script of a step of the AST is the `run:` scalar of the step node -/
theorem step_run_written (cfg : Cfg) (doc : Node) (h : (parse cfg doc).2 = []) (p : Node × Node) (hp : p ∈ docJobs doc)
    (c : Node) (hc : c ∈ docSteps p.2) : runOf (docStep cfg c) = (mget c "run").map newString :=
  parseStep_run cfg c (step_clean cfg doc h p hp c hc)

/-- **the `needs` of a job of the AST are the scalars written under its `needs:`** (one scalar, or the elements of a
sequence), in order -/
theorem needs_written (cfg : Cfg) (doc : Node) (h : (parse cfg doc).2 = []) (p : Node × Node) (hp : p ∈ docJobs doc) :
    (docJob cfg p).needs.getD [] = (docNeedsNodes p.2).map newString ∧
    ((docJob cfg p).needs.getD []).map (·.value) = docNeeds p.2 := by
  have e := parseJob_needs cfg _ _ (job_clean cfg doc h p hp)
  refine ⟨e, ?_⟩
  unfold docJob
  rw [e, docNeeds_eq, List.map_map]
  rfl

/-! ## 2. where the rule checks: the states the jobs and steps of the document are visited in -/

/-- the state under which the rule visits every job of the document: the header of `on:`, no per-job scope -/
def docCx (cfg : Cfg) (doc : Node) (proj : ProjView) : Cx := ruleCx cfg.lower proj (parse cfg doc).1

/-- the state under which `VisitJobPre` checks the strings of the job built from the pair `p` of `jobs:` -/
def docJobCx (cfg : Cfg) (doc : Node) (isNum : IsNumber) (proj : ProjView) (p : Node × Node) : Cx :=
  jobCx (docCx cfg doc proj) isNum (docJobsAst cfg doc) (docJob cfg p)

/-- the state under which the rule visits the step built from element `k` of `steps:` of that job -/
def docStepCx (cfg : Cfg) (doc : Node) (isNum : IsNumber) (proj : ProjView) (p : Node × Node) (k : Nat) : Cx :=
  stepCx (docCx cfg doc proj) isNum (docJobsAst cfg doc) (docJob cfg p) (((docSteps p.2).take k).map (docStep cfg))

/-- the state under which `VisitJobPost` checks `environment:` and the values of `outputs:` of that job -/
def docJobPostCx (cfg : Cfg) (doc : Node) (isNum : IsNumber) (proj : ProjView) (p : Node × Node) : Cx :=
  jobCxPost (docCx cfg doc proj) isNum (docJobsAst cfg doc) (docJob cfg p)

theorem docCx_lower (cfg : Cfg) (doc : Node) (proj : ProjView) : (docCx cfg doc proj).lower = cfg.lower :=
  (ruleCx_scope cfg.lower proj (parse cfg doc).1).2.2.2.1

theorem flatMap_split {α β : Type} (f : α → List β) : ∀ (l : List α) (a : α), a ∈ l → ∃ hd tl, l.flatMap f = hd ++ f a ++ tl
  | [], _, h => by cases h
  | x :: l, a, h => by
    rcases List.mem_cons.1 h with rfl | h
    · exact ⟨[], l.flatMap f, by simp⟩
    · obtain ⟨hd, tl, e⟩ := flatMap_split f l a h
      exact ⟨f x ++ hd, tl, by simp [e]⟩

theorem split_at {α : Type} : ∀ (l : List α) (k : Nat) (c : α), l[k]? = some c → l = l.take k ++ c :: l.drop (k + 1)
  | [], k, c, h => by simp at h
  | x :: l, 0, c, h => by simp at h; simp [h]
  | x :: l, k + 1, c, h => by
    simp only [List.getElem?_cons_succ] at h
    simp only [List.take_succ_cons, List.drop_succ_cons, List.cons_append, List.cons.injEq, true_and]
    exact split_at l k c h

/-- `y` is a contiguous part of `x` -/
def Inside {α : Type} (y x : List α) : Prop := ∃ hd tl, x = hd ++ y ++ tl

theorem Inside.refl {α : Type} (x : List α) : Inside x x := ⟨[], [], by simp⟩
theorem Inside.trans {α : Type} {y m x : List α} (h1 : Inside y m) (h2 : Inside m x) : Inside y x := by
  obtain ⟨a, b, rfl⟩ := h1
  obtain ⟨c, d, rfl⟩ := h2
  exact ⟨c ++ a, b ++ d, by simp only [List.append_assoc]⟩
theorem Inside.app_left {α : Type} {y a : List α} (b : List α) (h : Inside y a) : Inside y (a ++ b) :=
  h.trans ⟨[], b, by simp⟩
theorem Inside.app_right {α : Type} {y b : List α} (a : List α) (h : Inside y b) : Inside y (a ++ b) :=
  h.trans ⟨a, [], by simp⟩

/-- **every job of the document is visited**, from the state `docCx`, with all the jobs of the document at hand -/
theorem job_visited (cfg : Cfg) (doc : Node) (h : (parse cfg doc).2 = []) (isNum : IsNumber) (proj : ProjView)
    (p : Node × Node) (hp : p ∈ docJobs doc) :
    ∃ hd tl, rule cfg.lower isNum (parse cfg doc).1 proj =
      hd ++ visitJob (docCx cfg doc proj) isNum (docJobsAst cfg doc) (docJob cfg p) ++ tl := by
  obtain ⟨hd, tl, e⟩ := rule_eq cfg.lower isNum (parse cfg doc).1 proj
  obtain ⟨hd', tl', e'⟩ := flatMap_split (fun kv : String × Job => visitJob (docCx cfg doc proj) isNum (docJobsAst cfg doc) kv.2)
    (docJobsAst cfg doc) _ (job_mem cfg doc h p hp)
  refine ⟨hd ++ hd', tl' ++ tl, ?_⟩
  rw [e]
  unfold docCx docJobsAst at e' ⊢
  rw [e']
  simp only [List.append_assoc]

/-- the strings of the job itself (`name`, `if`, `runs-on`, `env`, `strategy`, `container`, … — `VisitJobPre`) are checked
under `docJobCx` -/
theorem job_pre_visited (cfg : Cfg) (doc : Node) (h : (parse cfg doc).2 = []) (isNum : IsNumber) (proj : ProjView)
    (p : Node × Node) (hp : p ∈ docJobs doc) :
    ∃ hd tl, rule cfg.lower isNum (parse cfg doc).1 proj = hd ++ jobPre (docJobCx cfg doc isNum proj p) (docJob cfg p) ++ tl := by
  refine Inside.trans ?_ (job_visited cfg doc h isNum proj p hp)
  rw [visitJob_eq]
  exact ((Inside.refl _).app_right _).app_left _ |>.app_left _

/-- `environment:` and the values of `outputs:` (`VisitJobPost`) are checked under `docJobPostCx` -/
theorem job_post_visited (cfg : Cfg) (doc : Node) (h : (parse cfg doc).2 = []) (isNum : IsNumber) (proj : ProjView)
    (p : Node × Node) (hp : p ∈ docJobs doc) :
    ∃ hd tl, rule cfg.lower isNum (parse cfg doc).1 proj = hd ++ jobPost (docJobPostCx cfg doc isNum proj p) (docJob cfg p) ++ tl := by
  refine Inside.trans ?_ (job_visited cfg doc h isNum proj p hp)
  rw [visitJob_eq]
  exact (Inside.refl _).app_right _

/-- **element `k` of `steps:` is visited under `docStepCx … k`**: the state the elements BEFORE it leave -/
theorem step_visited (cfg : Cfg) (doc : Node) (h : (parse cfg doc).2 = []) (isNum : IsNumber) (proj : ProjView)
    (p : Node × Node) (hp : p ∈ docJobs doc) (k : Nat) (c : Node) (hk : (docSteps p.2)[k]? = some c) :
    ∃ hd tl, rule cfg.lower isNum (parse cfg doc).1 proj =
      hd ++ (visitStep (docStepCx cfg doc isNum proj p k) (docStep cfg c)).2 ++ tl := by
  refine Inside.trans ?_ (job_visited cfg doc h isNum proj p hp)
  have hs : (docJob cfg p).steps.getD [] =
      ((docSteps p.2).take k).map (docStep cfg) ++ docStep cfg c :: ((docSteps p.2).drop (k + 1)).map (docStep cfg) := by
    rw [steps_written cfg doc h p hp]
    conv => lhs; rw [split_at _ k c hk]
    simp only [List.map_append, List.map_cons]
  have := (job_step_scope (docCx cfg doc proj) isNum (docJobsAst cfg doc) (docJob cfg p) _ _ _ hs).1
  rw [visitJob_eq, this]
  exact (((Inside.refl _).app_right _).app_left _).app_right _ |>.app_left _

theorem visitStep_diags (cx : Cx) (s : Step) : ∃ tl, (visitStep cx s).2 = stepDiags cx s ++ tl := by
  simp only [visitStep]
  cases s.id with
  | none => exact ⟨[], by simp⟩
  | some id => exact ⟨_, rfl⟩

/-- **the `run:` scalar of element `k` of `steps:` is checked** (as a script, key `jobs.<job_id>.steps.run`) **under
`docStepCx … k`** -/
theorem step_run_checked (cfg : Cfg) (doc : Node) (h : (parse cfg doc).2 = []) (isNum : IsNumber) (proj : ProjView)
    (p : Node × Node) (hp : p ∈ docJobs doc) (k : Nat) (c r : Node) (hk : (docSteps p.2)[k]? = some c)
    (hr : mget c "run" = some r) :
    ∃ hd tl, rule cfg.lower isNum (parse cfg doc).1 proj =
      hd ++ AL.RuleExpr.checkScriptString (docStepCx cfg doc isNum proj p k) (some (newString r)) "jobs.<job_id>.steps.run" ++ tl := by
  refine Inside.trans ?_ (step_visited cfg doc h isNum proj p hp k c hk)
  obtain ⟨tl', e'⟩ := visitStep_diags (docStepCx cfg doc isNum proj p k) (docStep cfg c)
  have hc : c ∈ docSteps p.2 := List.mem_of_getElem? hk
  have hrun := step_run_written cfg doc h p hp c hc
  rw [hr] at hrun
  rw [e']
  refine Inside.app_left _ ?_
  simp only [stepDiags]
  simp only [runOf] at hrun
  cases hx : (docStep cfg c).exec with
  | run ex =>
    rw [hx] at hrun
    simp only [Option.map_some] at hrun
    simp only [AL.RuleExpr.stepExec, hrun]
    exact (((((Inside.refl _).app_left _).app_left _).app_right _).app_left _).app_left _ |>.app_left _
  | action ex => rw [hx] at hrun; cases hrun
  | none => rw [hx] at hrun; cases hrun

/-! ## 3. the scope theorems, on the document -/

/-- **`steps.<name>` in element `k` of `steps:` of a job of the document** (in any string of it checked under a key where
`steps` is available — its `run:` by `step_run_checked`) **is reported as undefined iff no EARLIER element of `steps:` has an
`id:` whose folded text is `<name>`** — whatever the later elements and the other jobs declare. (Ids written without a
placeholder; with one, `steps` is loose from there on.) -/
theorem doc_steps_reported_iff (cfg : Cfg) (doc : Node) (h : (parse cfg doc).2 = []) (isNum : IsNumber) (proj : ProjView)
    (p : Node × Node) (hp : p ∈ docJobs doc) (k : Nat)
    (hlit : ∀ c ∈ (docSteps p.2).take k, ∀ id, docStepId c = some id → AL.Matrix.containsExpr id = false)
    (key name : String) (ha : (AL.Visit.availability key).1.contains (cfg.lower "steps") = true) :
    AL.C05.undefinedProp name (check (envOf (docStepCx cfg doc isNum proj p k) key) (.objDeref (.var "steps") name)) ↔
      ¬ ∃ c ∈ (docSteps p.2).take k, ∃ id, docStepId c = some id ∧ cfg.lower id = name := by
  have hsub : ∀ c ∈ (docSteps p.2).take k, c ∈ docSteps p.2 := fun c hc => List.mem_of_mem_take hc
  unfold docStepCx
  rw [steps_reported_iff (docCx cfg doc proj) isNum (docJobsAst cfg doc) (docJob cfg p) _ ?_ key name
    (by rw [docCx_lower]; exact ha), docCx_lower]
  · apply not_congr
    constructor
    · rintro ⟨s', hs', id, h1, h2⟩
      obtain ⟨c, hc, rfl⟩ := List.mem_map.1 hs'
      have := step_id_text cfg doc h p hp c (hsub c hc)
      rw [h1] at this
      exact ⟨c, hc, id.value, this.symm, h2⟩
    · rintro ⟨c, hc, id, h1, h2⟩
      have := step_id_text cfg doc h p hp c (hsub c hc)
      rw [h1] at this
      cases hid : (docStep cfg c).id with
      | none => rw [hid] at this; cases this
      | some i =>
        rw [hid] at this
        simp only [Option.map_some, Option.some.injEq] at this
        exact ⟨_, List.mem_map.2 ⟨c, hc, rfl⟩, i, hid, by rw [this]; exact h2⟩
  · intro s' hs' id hid
    obtain ⟨c, hc, rfl⟩ := List.mem_map.1 hs'
    have := step_id_text cfg doc h p hp c (hsub c hc)
    rw [hid] at this
    exact hlit c hc id.value this.symm

/-- **… and in `outputs:` / `environment:` of the job: iff NO element of `steps:` has that id** -/
theorem doc_steps_reported_post_iff (cfg : Cfg) (doc : Node) (h : (parse cfg doc).2 = []) (isNum : IsNumber) (proj : ProjView)
    (p : Node × Node) (hp : p ∈ docJobs doc)
    (hlit : ∀ c ∈ docSteps p.2, ∀ id, docStepId c = some id → AL.Matrix.containsExpr id = false)
    (key name : String) (ha : (AL.Visit.availability key).1.contains (cfg.lower "steps") = true) :
    AL.C05.undefinedProp name (check (envOf (docJobPostCx cfg doc isNum proj p) key) (.objDeref (.var "steps") name)) ↔
      ¬ ∃ c ∈ docSteps p.2, ∃ id, docStepId c = some id ∧ cfg.lower id = name := by
  have e : docJobPostCx cfg doc isNum proj p = docStepCx cfg doc isNum proj p (docSteps p.2).length := by
    unfold docJobPostCx docStepCx jobCxPost stepCx
    rw [List.take_length, steps_written cfg doc h p hp]
  rw [e]
  have := doc_steps_reported_iff cfg doc h isNum proj p hp (docSteps p.2).length (by rw [List.take_length]; exact hlit) key name ha
  rw [List.take_length] at this
  exact this

theorem lookupJob_isSome (i : String) : ∀ (jobs : List (String × Job)), (lookupJob i jobs).isSome = true ↔ i ∈ jobs.map (·.1)
  | [] => by simp [lookupJob]
  | (k, j) :: rest => by
    simp only [lookupJob, List.map_cons, List.mem_cons]
    by_cases hk : k = i
    · simp [hk]
    · have hk' : ¬ i = k := fun e => hk e.symm
      simp only [hk, if_false, hk', false_or]
      exact lookupJob_isSome i rest

/-- **`needs.<name>` in a job of the document** (in any string `VisitJobPre` checks under a key where `needs` is
available) **is reported as undefined iff `<name>` is not the folded text of an entry of the job's own `needs:` that is
also the folded text of a key of `jobs:`, or is the (folded) key of the job itself** — nothing transitive -/
theorem doc_needs_reported_iff (cfg : Cfg) (doc : Node) (h : (parse cfg doc).2 = []) (isNum : IsNumber) (proj : ProjView)
    (p : Node × Node) (hp : p ∈ docJobs doc)
    (key name : String) (ha : (AL.Visit.availability key).1.contains (cfg.lower "needs") = true) :
    AL.C05.undefinedProp name (check (envOf (docJobCx cfg doc isNum proj p) key) (.objDeref (.var "needs") name)) ↔
      ¬ (name ∈ (docNeeds p.2).map cfg.lower ∧ name ≠ cfg.lower p.1.value ∧ name ∈ (docJobIds doc).map cfg.lower) := by
  unfold docJobCx
  rw [needs_reported_iff (docCx cfg doc proj) isNum (docJobsAst cfg doc) (docJob cfg p) key name
    (by rw [docCx_lower]; exact ha), docCx_lower, lookupJob_isSome, (job_ids_written cfg doc h).1, job_id_written,
    ← (needs_written cfg doc h p hp).2, List.map_map]
  rfl

/-! ### `needs.<job>.outputs.<name>` -/

/-- **the output names of a job of the AST are the folded keys written under its `outputs:`** -/
theorem outputs_written (cfg : Cfg) (doc : Node) (h : (parse cfg doc).2 = []) (p : Node × Node) (hp : p ∈ docJobs doc) :
    ((docJob cfg p).outputs.getD []).map (·.1) = (docOutputs p.2).map cfg.lower :=
  parseJob_outputs cfg _ _ (job_clean cfg doc h p hp)

/-- a job written without `uses:` is not a reusable-workflow call -/
theorem job_no_call (cfg : Cfg) (doc : Node) (h : (parse cfg doc).2 = []) (p : Node × Node) (hp : p ∈ docJobs doc)
    (hu : mget p.2 "uses" = none) : (docJob cfg p).workflowCall = none :=
  parseJob_no_call cfg _ _ (job_clean cfg doc h p hp) hu

theorem docJobsAst_nodup (cfg : Cfg) (doc : Node) : ((docJobsAst cfg doc).map (·.1)).Nodup := by
  unfold docJobsAst
  cases hj : (parse cfg doc).1.jobs with
  | none => simp
  | some jobs =>
    obtain ⟨n, rfl⟩ := AL.C18P.parse_jobs cfg doc jobs hj
    exact AL.C18P.parseJobs_keys_nodup cfg n

theorem lookupJob_of_mem (k : String) (j : Job) : ∀ (jobs : List (String × Job)), (jobs.map (·.1)).Nodup → (k, j) ∈ jobs →
    lookupJob k jobs = some j
  | [], _, h => by cases h
  | (k', j') :: rest, hnd, h => by
    simp only [List.map_cons, List.nodup_cons, List.mem_map, not_exists, not_and] at hnd
    simp only [lookupJob]
    rcases List.mem_cons.1 h with e | h
    · cases e; simp
    · have : ¬ k' = k := fun e => hnd.1 (k, j) h e.symm
      simp only [this, if_false]
      exact lookupJob_of_mem k j rest hnd.2 h

/-- the job found under the folded key of a pair of `jobs:` is the job built from that pair -/
theorem lookupJob_written (cfg : Cfg) (doc : Node) (h : (parse cfg doc).2 = []) (q : Node × Node) (hq : q ∈ docJobs doc) :
    lookupJob (cfg.lower q.1.value) (docJobsAst cfg doc) = some (docJob cfg q) :=
  lookupJob_of_mem _ _ _ (docJobsAst_nodup cfg doc) (job_mem cfg doc h q hq)

/-- **`needs.<job>.outputs.<name>` in a job `p` of the document, for a job `q` written in `p`'s `needs:`** (not `p` itself,
not a reusable-workflow call) **has a diagnostic iff `<name>` is not the folded text of a key written under `q`'s `outputs:`** -/
theorem doc_needs_outputs_reported_iff (cfg : Cfg) (doc : Node) (h : (parse cfg doc).2 = []) (isNum : IsNumber) (proj : ProjView)
    (p : Node × Node) (hp : p ∈ docJobs doc) (q : Node × Node) (hq : q ∈ docJobs doc)
    (hneeded : cfg.lower q.1.value ∈ (docNeeds p.2).map cfg.lower) (hself : cfg.lower q.1.value ≠ cfg.lower p.1.value)
    (hu : mget q.2 "uses" = none)
    (key o : String) (ha : (AL.Visit.availability key).1.contains (cfg.lower "needs") = true) :
    (check (envOf (docJobCx cfg doc isNum proj p) key)
      (.objDeref (.objDeref (.objDeref (.var "needs") (cfg.lower q.1.value)) "outputs") o)).errs ≠ [] ↔
      o ∉ (docOutputs q.2).map cfg.lower := by
  have hin : cfg.lower q.1.value ∈ ((docJob cfg p).needs.getD []).map (fun id => (docCx cfg doc proj).lower id.value) := by
    rw [docCx_lower]
    have := (needs_written cfg doc h p hp).2
    rw [← this, List.map_map] at hneeded
    exact hneeded
  have hself' : cfg.lower q.1.value ≠ (docCx cfg doc proj).lower (docJob cfg p).id.value := by
    rw [docCx_lower, job_id_written]; exact hself
  obtain ⟨ps, js, os, e, h1, h2, _, h4⟩ := needs_outputs_exact ((docCx cfg doc proj).proj.jobView (docJob cfg p).id.value).outs
    (docCx cfg doc proj).lower (docJobsAst cfg doc) (docJob cfg p) (docJob cfg q) (cfg.lower q.1.value) hin hself'
    (lookupJob_written cfg doc h q hq) (job_no_call cfg doc h q hq hu)
  obtain ⟨hn, _, _, _, hlow, _, _⟩ := jobCx_scope (docCx cfg doc proj) isNum (docJobsAst cfg doc) (docJob cfg p)
  have hl : Ty.lookup "needs" (envOf (docJobCx cfg doc isNum proj p) key).vars = some (.obj ps none) := by
    unfold docJobCx
    rw [envOf_vars, (scope_st _ _ _ _ _).1, hn, e]; rfl
  have hav : (envOf (docJobCx cfg doc isNum proj p) key).availCtx.contains ((envOf (docJobCx cfg doc isNum proj p) key).lower "needs") = true := by
    have : (docJobCx cfg doc isNum proj p).lower = cfg.lower := hlow.trans (docCx_lower cfg doc proj)
    show (AL.Visit.availability key).1.contains ((docJobCx cfg doc isNum proj p).lower "needs") = true
    rw [this]; exact ha
  rw [AL.C05.nested_scope_exact (envOf (docJobCx cfg doc isNum proj p) key) "needs" (cfg.lower q.1.value) o ps js os hl hav h1 h2,
    h4 o, outputs_written cfg doc h q hq]
  by_cases ho : o ∈ (docOutputs q.2).map cfg.lower <;> simp [ho]

/-! ### `jobs.<job>.outputs.<name>` (the values of `on: workflow_call: outputs:`) -/

/-- the state under which the rule checks the `value:`s of `on: workflow_call: outputs:` (see `AL.C05S.rule_outputs_eq`):
the header of `on:`, no per-job scope, and `jobs` -/
def docOutCx (cfg : Cfg) (doc : Node) (proj : ProjView) : Cx :=
  { docCx cfg doc proj with jobsTy := some (AL.RuleExpr.jobsTyOf (docJobsAst cfg doc)) }

/-- the `value:`s of `on: workflow_call: outputs:` are checked under `docOutCx` (`AL.C05S.rule_outputs_eq` on the document) -/
theorem out_values_checked (cfg : Cfg) (doc : Node) (isNum : IsNumber) (proj : ProjView) :
    ∃ hd, rule cfg.lower isNum (parse cfg doc).1 proj = hd ++
      (match AL.RuleExpr.findCallOutputs ((parse cfg doc).1.on.getD []) with
       | some outs =>
         if outs.isEmpty || (docJobsAst cfg doc).isEmpty then []
         else outs.flatMap fun kv =>
           AL.RuleExpr.checkString (docOutCx cfg doc proj) kv.2.value "on.workflow_call.outputs.<output_id>.value"
       | none => []) :=
  rule_outputs_eq cfg.lower isNum (parse cfg doc).1 proj

theorem find?_of_mem_nodup {β : Type} (k : String) (j : β) : ∀ (l : List (String × β)), (l.map (·.1)).Nodup → (k, j) ∈ l →
    l.find? (·.1 = k) = some (k, j)
  | [], _, h => by cases h
  | (k', j') :: rest, hnd, h => by
    simp only [List.map_cons, List.nodup_cons, List.mem_map, not_exists, not_and] at hnd
    rcases List.mem_cons.1 h with e | h
    · cases e; simp
    · have : ¬ k' = k := fun e => hnd.1 (k, j) h e.symm
      simp only [List.find?_cons, this, decide_false]
      exact find?_of_mem_nodup k j rest hnd.2 h

/-- **`jobs.<name>` in a `value:` of `on: workflow_call: outputs:` is reported as undefined iff `<name>` is not the folded
text of a key of `jobs:`** -/
theorem doc_jobs_reported_iff (cfg : Cfg) (doc : Node) (h : (parse cfg doc).2 = []) (proj : ProjView)
    (key name : String) (ha : (AL.Visit.availability key).1.contains (cfg.lower "jobs") = true) :
    AL.C05.undefinedProp name (check (envOf (docOutCx cfg doc proj) key) (.objDeref (.var "jobs") name)) ↔
      name ∉ (docJobIds doc).map cfg.lower := by
  obtain ⟨ps, e, _, hk⟩ := jobs_exact (docJobsAst cfg doc)
  have hl : Ty.lookup "jobs" (envOf (docOutCx cfg doc proj) key).vars = some (.obj ps none) := by
    rw [envOf_vars, scope_jobs]
    simp only [docOutCx, e]
  have hlow : (docOutCx cfg doc proj).lower = cfg.lower := docCx_lower cfg doc proj
  rw [reported_iff _ key "jobs" name ps hl (by rw [hlow]; exact ha), ← (job_ids_written cfg doc h).1, ← hk name]
  cases Ty.lookup name ps <;> simp

/-- **`jobs.<job>.outputs.<name>` there, for a job `q` of the document that is not a reusable-workflow call, has a
diagnostic iff `<name>` is not the folded text of a key written under `q`'s `outputs:`** -/
theorem doc_jobs_outputs_reported_iff (cfg : Cfg) (doc : Node) (h : (parse cfg doc).2 = []) (proj : ProjView)
    (q : Node × Node) (hq : q ∈ docJobs doc) (hu : mget q.2 "uses" = none)
    (key o : String) (ha : (AL.Visit.availability key).1.contains (cfg.lower "jobs") = true) :
    (check (envOf (docOutCx cfg doc proj) key)
      (.objDeref (.objDeref (.objDeref (.var "jobs") (cfg.lower q.1.value)) "outputs") o)).errs ≠ [] ↔
      o ∉ (docOutputs q.2).map cfg.lower := by
  obtain ⟨ps, e, hx, _⟩ := jobs_exact (docJobsAst cfg doc)
  have hl : Ty.lookup "jobs" (envOf (docOutCx cfg doc proj) key).vars = some (.obj ps none) := by
    rw [envOf_vars, scope_jobs]
    simp only [docOutCx, e]
  have hav : (envOf (docOutCx cfg doc proj) key).availCtx.contains ((envOf (docOutCx cfg doc proj) key).lower "jobs") = true := by
    show (AL.Visit.availability key).1.contains ((docOutCx cfg doc proj).lower "jobs") = true
    rw [show (docOutCx cfg doc proj).lower = cfg.lower from docCx_lower cfg doc proj]; exact ha
  obtain ⟨os, eo, ho, _⟩ := jobEntry_exact (docJob cfg q) (job_no_call cfg doc h q hq hu)
  have hj : Ty.lookup (cfg.lower q.1.value) ps = some (.obj [("outputs", .obj os none)] none) := by
    have hnd : (((docJobsAst cfg doc).reverse).map (·.1)).Nodup := by
      rw [List.map_reverse]
      exact List.pairwise_reverse.2 ((docJobsAst_nodup cfg doc).imp fun hne => Ne.symm hne)
    rw [hx, find?_of_mem_nodup _ _ _ hnd (List.mem_reverse.2 (job_mem cfg doc h q hq))]
    simp only [Option.map_some, eo]
  rw [AL.C05.nested_scope_exact (envOf (docOutCx cfg doc proj) key) "jobs" (cfg.lower q.1.value) o ps _ os hl hav hj
      (by simp [Ty.lookup]), ho o, outputs_written cfg doc h q hq]
  by_cases hoo : o ∈ (docOutputs q.2).map cfg.lower <;> simp [hoo]

/-! ### `matrix` -/

/-- **the matrix of a job of the AST, for a `matrix:` written as a mapping**: not an expression; **its row keys are the
folded keys written under `matrix:` other than `include` / `exclude`**, in order; without `include:` no include; with an
`include:` written as a sequence of mappings, literal combinations **assigning the folded keys written in each element** -/
theorem matrix_written (cfg : Cfg) (doc : Node) (h : (parse cfg doc).2 = []) (p : Node × Node) (hp : p ∈ docJobs doc)
    (mx : Node) (hmx : docMatrix p.2 = some mx) (hk : mx.kind ≠ .scalar) :
    ∃ m, matrixOf (docJob cfg p) = some m ∧ m.expr = none ∧
      (m.rows.getD []).map (·.1) = (docMatrixRowKeys cfg mx).map cfg.lower ∧
      (docIncludeNode cfg mx = none → m.incl = none) ∧
      (∀ inc, docIncludeNode cfg mx = some inc → inc.kind ≠ .scalar → (∀ c ∈ inc.content, c.kind ≠ .scalar) →
        ∃ mc cs, m.incl = some mc ∧ mc.expr = none ∧ mc.combinations = some cs ∧ (∀ c ∈ cs, c.expr = none) ∧
          cs.map (fun c => (c.assigns.getD []).map (·.1)) =
            inc.content.map (fun c => (pairs c.content).map fun q => cfg.lower q.1.value)) := by
  obtain ⟨pos, e, hc⟩ := parseJob_matrix cfg _ _ (job_clean cfg doc h p hp) mx hmx
  obtain ⟨h1, h2, h3, h4⟩ := parseMatrix_lit cfg pos mx hk hc
  refine ⟨_, e, h1, h2, ?_, ?_⟩
  · intro hn; rw [h3, hn]
  · intro inc hinc hik hall
    obtain ⟨cs, e1, e2, e3⟩ := parseCombos_lit cfg "include" inc hik hall (h4 inc hinc)
    exact ⟨_, cs, by rw [h3, hinc]; exact e1, rfl, rfl, e2, e3⟩

/-- `matrix.<name>` in a job whose literal matrix has no `include` is reported iff `<name>` is not a row key (the companion
of `AL.C05S.matrix_reported_iff`) -/
theorem matrix_reported_rows_iff (cx0 : Cx) (isNum : IsNumber) (jobs : List (String × Job)) (n : Job) (m : Matrix)
    (hm : matrixOf n = some m) (he : m.expr = none) (hi : m.incl = none)
    (key name : String) (ha : (AL.Visit.availability key).1.contains (cx0.lower "matrix") = true) :
    AL.C05.undefinedProp name (check (envOf (jobCx cx0 isNum jobs n) key) (.objDeref (.var "matrix") name)) ↔
      ¬ name ∈ (m.rows.getD []).map (·.1) := by
  obtain ⟨_, hmx, _, _, hlow, _, _⟩ := jobCx_scope cx0 isNum jobs n
  rw [hm] at hmx
  obtain ⟨ps, e, hk⟩ := matrix_rows_only (jobCx1 cx0 jobs n) isNum m he hi
  have hl : Ty.lookup "matrix" (envOf (jobCx cx0 isNum jobs n) key).vars = some (.obj ps none) := by
    rw [envOf_vars, (scope_st _ _ _ _ _).2.2, hmx]
    simp only [e, Option.getD_some]
  rw [reported_iff _ key "matrix" name ps hl (by rw [hlow]; exact ha), ← hk name]
  cases Ty.lookup name ps <;> simp

/-- **`matrix.<name>` in a job of the document whose `matrix:` is written as a mapping** (rows: sequences or `${{ }}`
scalars; `include:`, if there, a sequence of mappings) **is reported as undefined iff `<name>` is neither the folded text of
a key of `matrix:` other than `include` / `exclude` nor the folded text of a key of an element of `include:`** -/
theorem doc_matrix_reported_iff (cfg : Cfg) (doc : Node) (h : (parse cfg doc).2 = []) (isNum : IsNumber) (proj : ProjView)
    (p : Node × Node) (hp : p ∈ docJobs doc) (mx : Node) (hmx : docMatrix p.2 = some mx) (hk : mx.kind ≠ .scalar)
    (hinc : ∀ inc, docIncludeNode cfg mx = some inc → inc.kind ≠ .scalar ∧ ∀ c ∈ inc.content, c.kind ≠ .scalar)
    (key name : String) (ha : (AL.Visit.availability key).1.contains (cfg.lower "matrix") = true) :
    AL.C05.undefinedProp name (check (envOf (docJobCx cfg doc isNum proj p) key) (.objDeref (.var "matrix") name)) ↔
      ¬ (name ∈ (docMatrixRowKeys cfg mx).map cfg.lower ∨ name ∈ (docIncludeKeys cfg mx).map cfg.lower) := by
  obtain ⟨m, hm, he, hrows, hnone, hsome⟩ := matrix_written cfg doc h p hp mx hmx hk
  unfold docJobCx
  cases hi : docIncludeNode cfg mx with
  | none =>
    rw [matrix_reported_rows_iff _ isNum _ _ m hm he (hnone hi) key name (by rw [docCx_lower]; exact ha), hrows]
    simp [docIncludeKeys, hi]
  | some inc =>
    obtain ⟨hik, hall⟩ := hinc inc hi
    obtain ⟨mc, cs, e1, e2, e3, e4, e5⟩ := hsome inc hi hik hall
    rw [matrix_reported_iff _ isNum _ _ m mc hm he e1 e2 (by rw [e3]; exact e4) key name (by rw [docCx_lower]; exact ha), hrows]
    apply not_congr
    apply or_congr Iff.rfl
    have hx : (∃ c ∈ mc.combinations.getD [], name ∈ (c.assigns.getD []).map (·.1)) ↔
        ∃ l ∈ cs.map (fun c => (c.assigns.getD []).map (·.1)), name ∈ l := by
      rw [e3, Option.getD_some]
      constructor
      · rintro ⟨c, hc, hn⟩; exact ⟨_, List.mem_map.2 ⟨c, hc, rfl⟩, hn⟩
      · rintro ⟨l, hl, hn⟩
        obtain ⟨c, hc, rfl⟩ := List.mem_map.1 hl
        exact ⟨c, hc, hn⟩
    rw [hx, e5]
    simp only [docIncludeKeys, hi]
    constructor
    · rintro ⟨l, hl, hn⟩
      obtain ⟨c, hc, rfl⟩ := List.mem_map.1 hl
      obtain ⟨q, hq, rfl⟩ := List.mem_map.1 hn
      exact List.mem_map.2 ⟨q.1.value, List.mem_flatMap.2 ⟨c, hc, List.mem_map.2 ⟨q, hq, rfl⟩⟩, rfl⟩
    · intro hn
      obtain ⟨k, hk', rfl⟩ := List.mem_map.1 hn
      obtain ⟨c, hc, hkc⟩ := List.mem_flatMap.1 hk'
      obtain ⟨q, hq, rfl⟩ := List.mem_map.1 hkc
      exact ⟨_, List.mem_map.2 ⟨c, hc, rfl⟩, List.mem_map.2 ⟨q, hq, rfl⟩⟩

/-! ### `inputs`, `secrets` -/

/-- **the header of an accepted document whose `on:` is a mapping**: the declared `workflow_call` inputs are the folded
keys written under `on: workflow_call: inputs:`, the declared secrets the folded keys written under `on: workflow_call:
secrets:` (none without that key), the `workflow_dispatch` inputs the folded keys written under `on: workflow_dispatch:
inputs:` -/
theorem hdr_written (cfg : Cfg) (doc : Node) (h : (parse cfg doc).2 = []) (proj : ProjView) (on : Node)
    (hon : docOn doc = some on) (hk : on.kind = .mapping) :
    ((docCx cfg doc proj).hdr.callInputs.getD []).map (·.1) = (docCallInputs doc).map cfg.lower ∧
    (docCx cfg doc proj).hdr.callSecrets = (docCallSecrets doc).map (·.map cfg.lower) ∧
    ((docCx cfg doc proj).hdr.dispatchInputs.getD []).map (·.1) = (docDispatchInputs doc).map cfg.lower := by
  obtain ⟨on', pos, hon', hw, hc⟩ := parse_on_written cfg doc h
  rw [hon] at hon'
  cases hon'
  rw [parseEvents_mapping cfg pos on hk] at hw hc
  simp only [append_nil_iff] at hc
  have hh : (docCx cfg doc proj).hdr = hdrOf (onLoop cfg on).1 := by
    unfold docCx
    rw [(ruleCx_scope cfg.lower proj (parse cfg doc).1).2.1, hw]
    rfl
  obtain ⟨h1, h2, h3⟩ := on_hdr_written cfg on hc.1 hc.2
  rw [hh, h1, h2, h3]
  simp only [docCallInputs, docCallSecrets, docDispatchInputs, docCall, hon, Option.bind_some]
  refine ⟨?_, ?_, ?_⟩
  · cases (mget on "workflow_call").bind (mget · "inputs") <;> simp
  · cases (mget on "workflow_call").bind (mget · "secrets") <;> simp
  · cases (mget on "workflow_dispatch").bind (mget · "inputs") <;> simp

/-- the header and the folding function are the same in every state the rule visits the jobs and steps of the document in -/
theorem docJobCx_hdr (cfg : Cfg) (doc : Node) (isNum : IsNumber) (proj : ProjView) (p : Node × Node) :
    (docJobCx cfg doc isNum proj p).hdr = (docCx cfg doc proj).hdr ∧ (docJobCx cfg doc isNum proj p).lower = cfg.lower := by
  obtain ⟨_, _, _, a, b, _, _⟩ := jobCx_scope (docCx cfg doc proj) isNum (docJobsAst cfg doc) (docJob cfg p)
  exact ⟨a, b.trans (docCx_lower cfg doc proj)⟩

theorem docStepCx_hdr (cfg : Cfg) (doc : Node) (isNum : IsNumber) (proj : ProjView) (p : Node × Node) (k : Nat) :
    (docStepCx cfg doc isNum proj p k).hdr = (docCx cfg doc proj).hdr ∧ (docStepCx cfg doc isNum proj p k).lower = cfg.lower := by
  unfold docStepCx stepCx
  refine ⟨?_, ?_⟩
  · rw [(AL.C05E.visitSteps_scope _ _).2.2.1]; exact (jobCxS_scope _ isNum _ _).2.2.2.1
  · rw [(AL.C05E.visitSteps_scope _ _).2.2.2, (jobCxS_scope _ isNum _ _).2.2.2.2.1]; exact docCx_lower cfg doc proj

theorem docJobPostCx_hdr (cfg : Cfg) (doc : Node) (isNum : IsNumber) (proj : ProjView) (p : Node × Node) :
    (docJobPostCx cfg doc isNum proj p).hdr = (docCx cfg doc proj).hdr ∧ (docJobPostCx cfg doc isNum proj p).lower = cfg.lower := by
  obtain ⟨_, _, _, a, b⟩ := jobCxPost_scope (docCx cfg doc proj) isNum (docJobsAst cfg doc) (docJob cfg p)
  exact ⟨a, b.trans (docCx_lower cfg doc proj)⟩

/-- **`inputs.<name>`** (in any state `cx` the rule reaches on the document: `docCx`, `docJobCx`, `docStepCx`, `docJobPostCx`)
**is reported as undefined iff `<name>` is not the folded text of a key of `on: workflow_call: inputs:` or of
`on: workflow_dispatch: inputs:`** -/
theorem doc_inputs_reported_iff (cfg : Cfg) (doc : Node) (h : (parse cfg doc).2 = []) (proj : ProjView) (on : Node)
    (hon : docOn doc = some on) (hk : on.kind = .mapping) (cx : Cx) (hh : cx.hdr = (docCx cfg doc proj).hdr)
    (hl : cx.lower = cfg.lower) (key name : String) (ha : (AL.Visit.availability key).1.contains (cfg.lower "inputs") = true) :
    AL.C05.undefinedProp name (check (envOf cx key) (.objDeref (.var "inputs") name)) ↔
      ¬ (name ∈ (docCallInputs doc).map cfg.lower ∨ name ∈ (docDispatchInputs doc).map cfg.lower) := by
  obtain ⟨h1, _, h3⟩ := hdr_written cfg doc h proj on hon hk
  rw [inputs_reported_iff cx key name (by rw [hl]; exact ha), hh, h1, h3]

/-- **`secrets.<name>` in a document that declares `on: workflow_call: secrets:` is reported as undefined iff `<name>` is
neither the folded text of a key written there nor an automatic secret** -/
theorem doc_secrets_reported_iff (cfg : Cfg) (doc : Node) (h : (parse cfg doc).2 = []) (proj : ProjView) (on : Node)
    (hon : docOn doc = some on) (hk : on.kind = .mapping) (ks : List String) (hs : docCallSecrets doc = some ks)
    (cx : Cx) (hh : cx.hdr = (docCx cfg doc proj).hdr)
    (hl : cx.lower = cfg.lower) (key name : String) (ha : (AL.Visit.availability key).1.contains (cfg.lower "secrets") = true) :
    AL.C05.undefinedProp name (check (envOf cx key) (.objDeref (.var "secrets") name)) ↔
      ¬ (name ∈ ks.map cfg.lower ∨ name ∈ ["actions_runner_debug", "actions_step_debug", "github_token"]) := by
  obtain ⟨_, h2, _⟩ := hdr_written cfg doc h proj on hon hk
  rw [hs] at h2
  exact secrets_reported_iff cx (ks.map cfg.lower) (by rw [hh, h2]; rfl) key name (by rw [hl]; exact ha)

/-- … and without a `secrets:` key under `on: workflow_call:` (or without `workflow_call`) no `secrets.<name>` is reported -/
theorem doc_secrets_silent (cfg : Cfg) (doc : Node) (h : (parse cfg doc).2 = []) (proj : ProjView) (on : Node)
    (hon : docOn doc = some on) (hk : on.kind = .mapping) (hs : docCallSecrets doc = none)
    (cx : Cx) (hh : cx.hdr = (docCx cfg doc proj).hdr)
    (hl : cx.lower = cfg.lower) (key name : String) (ha : (AL.Visit.availability key).1.contains (cfg.lower "secrets") = true) :
    (check (envOf cx key) (.objDeref (.var "secrets") name)).errs = [] := by
  obtain ⟨_, h2, _⟩ := hdr_written cfg doc h proj on hon hk
  rw [hs] at h2
  exact secrets_silent cx (by rw [hh, h2]; rfl) key name (by rw [hl]; exact ha)

/-- **an `on:` that is not written as a mapping** (`on: push`, `on: [push, workflow_call]`, …) **declares nothing**: no
input, no secrets -/
theorem hdr_plain_written (cfg : Cfg) (doc : Node) (h : (parse cfg doc).2 = []) (proj : ProjView) (on : Node)
    (hon : docOn doc = some on) (hk : on.kind ≠ .mapping) : HdrEmpty (docCx cfg doc proj).hdr := by
  obtain ⟨on', pos, hon', hw, _⟩ := parse_on_written cfg doc h
  rw [hon] at hon'
  cases hon'
  unfold docCx
  rw [(ruleCx_scope cfg.lower proj (parse cfg doc).1).2.1]
  apply foldHdr_plain _ _ _ ⟨rfl, rfl, rfl⟩
  cases hes : (parse cfg doc).1.on with
  | none => intro e he; cases he
  | some es =>
    rw [hes] at hw
    exact parseEvents_plain cfg pos on hk es hw.symm

/-- … so **every `inputs.<name>` is reported** there, and no `secrets.<name>` is -/
theorem doc_inputs_reported_plain (cfg : Cfg) (doc : Node) (h : (parse cfg doc).2 = []) (proj : ProjView) (on : Node)
    (hon : docOn doc = some on) (hk : on.kind ≠ .mapping) (cx : Cx) (hh : cx.hdr = (docCx cfg doc proj).hdr)
    (hl : cx.lower = cfg.lower) (key name : String) (ha : (AL.Visit.availability key).1.contains (cfg.lower "inputs") = true) :
    AL.C05.undefinedProp name (check (envOf cx key) (.objDeref (.var "inputs") name)) := by
  obtain ⟨h1, h2, _⟩ := hdr_plain_written cfg doc h proj on hon hk
  rw [inputs_reported_iff cx key name (by rw [hl]; exact ha), hh, h1, h2]
  simp

theorem doc_secrets_silent_plain (cfg : Cfg) (doc : Node) (h : (parse cfg doc).2 = []) (proj : ProjView) (on : Node)
    (hon : docOn doc = some on) (hk : on.kind ≠ .mapping) (cx : Cx) (hh : cx.hdr = (docCx cfg doc proj).hdr)
    (hl : cx.lower = cfg.lower) (key name : String) (ha : (AL.Visit.availability key).1.contains (cfg.lower "secrets") = true) :
    (check (envOf cx key) (.objDeref (.var "secrets") name)).errs = [] := by
  obtain ⟨_, _, h3⟩ := hdr_plain_written cfg doc h proj on hon hk
  exact secrets_silent cx (by rw [hh, h3]) key name (by rw [hl]; exact ha)

/-! ## 4. the same, with the right-hand sides as lists of written names (decidable on a concrete document) -/

theorem exists_iff_mem_filterMap {α : Type} (l : List α) (f : α → Option String) (g : String → String) (name : String) :
    (∃ c ∈ l, ∃ id, f c = some id ∧ g id = name) ↔ name ∈ (l.filterMap f).map g := by
  simp only [List.mem_map, List.mem_filterMap]
  constructor
  · rintro ⟨c, hc, id, h1, h2⟩; exact ⟨id, ⟨c, hc, h1⟩, h2⟩
  · rintro ⟨id, ⟨c, hc, h1⟩, h2⟩; exact ⟨c, hc, id, h1, h2⟩

/-- the ids written in the elements of `steps:` BEFORE element `k` -/
def docStepIdsBefore (job : Node) (k : Nat) : List String := ((docSteps job).take k).filterMap docStepId

theorem docStepIdsBefore_length (job : Node) : docStepIdsBefore job (docSteps job).length = docStepIds job := by
  simp [docStepIdsBefore, docStepIds]

/-- **`steps.<name>` in element `k` of `steps:` is reported iff `<name>` is not the folded text of an `id:` written in an
EARLIER element** -/
theorem doc_steps_reported_iff_ids (cfg : Cfg) (doc : Node) (h : (parse cfg doc).2 = []) (isNum : IsNumber) (proj : ProjView)
    (p : Node × Node) (hp : p ∈ docJobs doc) (k : Nat)
    (hlit : (docStepIdsBefore p.2 k).all (fun id => !AL.Matrix.containsExpr id) = true)
    (key name : String) (ha : (AL.Visit.availability key).1.contains (cfg.lower "steps") = true) :
    AL.C05.undefinedProp name (check (envOf (docStepCx cfg doc isNum proj p k) key) (.objDeref (.var "steps") name)) ↔
      name ∉ (docStepIdsBefore p.2 k).map cfg.lower := by
  rw [doc_steps_reported_iff cfg doc h isNum proj p hp k ?_ key name ha, exists_iff_mem_filterMap]
  · rfl
  · intro c hc id hid
    simp only [List.all_eq_true, Bool.not_eq_eq_eq_not, Bool.not_true] at hlit
    exact hlit id (List.mem_filterMap.2 ⟨c, hc, hid⟩)

/-- **… in `outputs:` / `environment:` of the job iff `<name>` is not the folded text of any `id:` written in `steps:`** -/
theorem doc_steps_reported_post_iff_ids (cfg : Cfg) (doc : Node) (h : (parse cfg doc).2 = []) (isNum : IsNumber) (proj : ProjView)
    (p : Node × Node) (hp : p ∈ docJobs doc)
    (hlit : (docStepIds p.2).all (fun id => !AL.Matrix.containsExpr id) = true)
    (key name : String) (ha : (AL.Visit.availability key).1.contains (cfg.lower "steps") = true) :
    AL.C05.undefinedProp name (check (envOf (docJobPostCx cfg doc isNum proj p) key) (.objDeref (.var "steps") name)) ↔
      name ∉ (docStepIds p.2).map cfg.lower := by
  rw [doc_steps_reported_post_iff cfg doc h isNum proj p hp ?_ key name ha, exists_iff_mem_filterMap]
  · rfl
  · intro c hc id hid
    simp only [List.all_eq_true, Bool.not_eq_eq_eq_not, Bool.not_true] at hlit
    exact hlit id (List.mem_filterMap.2 ⟨c, hc, hid⟩)

/-- a `matrix:` node written literally: a mapping whose `include:`, if any, is a sequence of mappings (non-scalars) -/
def docMatrixLiteral (cfg : Cfg) (mx : Node) : Bool :=
  decide (mx.kind ≠ .scalar) &&
  match docIncludeNode cfg mx with
  | some inc => decide (inc.kind ≠ .scalar) && inc.content.all (fun c => decide (c.kind ≠ .scalar))
  | none => true

/-- **`matrix.<name>` for a literal `matrix:`: reported iff `<name>` is neither a folded row key nor a folded key of an
`include:` element** -/
theorem doc_matrix_reported_iff_lit (cfg : Cfg) (doc : Node) (h : (parse cfg doc).2 = []) (isNum : IsNumber) (proj : ProjView)
    (p : Node × Node) (hp : p ∈ docJobs doc) (mx : Node) (hmx : docMatrix p.2 = some mx) (hlit : docMatrixLiteral cfg mx = true)
    (key name : String) (ha : (AL.Visit.availability key).1.contains (cfg.lower "matrix") = true) :
    AL.C05.undefinedProp name (check (envOf (docJobCx cfg doc isNum proj p) key) (.objDeref (.var "matrix") name)) ↔
      name ∉ (docMatrixRowKeys cfg mx ++ docIncludeKeys cfg mx).map cfg.lower := by
  simp only [docMatrixLiteral, Bool.and_eq_true, decide_eq_true_eq] at hlit
  rw [doc_matrix_reported_iff cfg doc h isNum proj p hp mx hmx hlit.1 ?_ key name ha]
  · simp only [List.map_append, List.mem_append]
  · intro inc hi
    have h2 := hlit.2
    rw [hi] at h2
    simp only [Bool.and_eq_true, decide_eq_true_eq, List.all_eq_true] at h2
    exact h2

/-! ## 5. a concrete document: three jobs, three steps — not transitive, not later

```yaml
on:
  workflow_call:
    inputs:
      Tag: {type: string}
    secrets:
      Token: {}
  workflow_dispatch:
    inputs:
      dry: {type: boolean}
jobs:
  Build:
    runs-on: u
    strategy:
      matrix:
        OS: [linux]
        include:
          - {os: win, Extra: "1"}
    outputs: {Art: v}
    steps:
      - {id: A, run: x}
      - {run: y}
      - {id: b, run: z}
  test:
    needs: Build
    runs-on: u
    steps:
      - {run: x}
  deploy:
    needs: [test]
    runs-on: u
    steps:
      - {run: x}
``` -/

section Example

def exCfg : Cfg := ⟨asciiLower, fun _ => none, fun _ => .err⟩
private def sc (v : String) (l c : Nat) : Node := .mk .scalar "!!str" v false l c []
private def mp (l c : Nat) (cs : List Node) : Node := .mk .mapping "!!map" "" false l c cs
private def sq (l c : Nat) (cs : List Node) : Node := .mk .sequence "!!seq" "" false l c cs

def exOn : Node :=
  mp 2 3 [sc "workflow_call" 2 3, mp 3 5 [
            sc "inputs" 3 5, mp 4 7 [sc "Tag" 4 7, mp 4 12 [sc "type" 4 13, sc "string" 4 19]],
            sc "secrets" 5 5, mp 6 7 [sc "Token" 6 7, mp 6 14 []]],
          sc "workflow_dispatch" 7 3, mp 8 5 [
            sc "inputs" 8 5, mp 9 7 [sc "dry" 9 7, mp 9 12 [sc "type" 9 13, sc "boolean" 9 19]]]]

def exStepA : Node := mp 19 9 [sc "id" 19 10, sc "A" 19 14, sc "run" 19 17, sc "x" 19 22]
def exStepN : Node := mp 20 9 [sc "run" 20 10, sc "y" 20 15]
def exStepB : Node := mp 21 9 [sc "id" 21 10, sc "b" 21 14, sc "run" 21 17, sc "z" 21 22]

def exMatrix : Node :=
  mp 15 9 [sc "OS" 15 9, sq 15 13 [sc "linux" 15 14],
           sc "include" 16 9, sq 17 11 [mp 17 13 [sc "os" 17 14, sc "win" 17 18, sc "Extra" 17 23, sc "1" 17 30]]]

def exBuild : Node :=
  mp 12 5 [sc "runs-on" 12 5, sc "u" 12 14,
           sc "strategy" 13 5, mp 14 7 [sc "matrix" 14 7, exMatrix],
           sc "outputs" 17 5, mp 17 14 [sc "Art" 17 15, sc "v" 17 20],
           sc "steps" 18 5, sq 19 7 [exStepA, exStepN, exStepB]]
def exTest : Node :=
  mp 23 5 [sc "needs" 23 5, sc "Build" 23 12, sc "runs-on" 24 5, sc "u" 24 14,
           sc "steps" 25 5, sq 26 7 [mp 26 9 [sc "run" 26 10, sc "x" 26 15]]]
def exDeploy : Node :=
  mp 28 5 [sc "needs" 28 5, sq 28 12 [sc "test" 28 13], sc "runs-on" 29 5, sc "u" 29 14,
           sc "steps" 30 5, sq 31 7 [mp 31 9 [sc "run" 31 10, sc "x" 31 15]]]

def pBuild : Node × Node := (sc "Build" 11 3, exBuild)
def pTest : Node × Node := (sc "test" 22 3, exTest)
def pDeploy : Node × Node := (sc "deploy" 27 3, exDeploy)

def exDoc : Node :=
  .mk .document "" "" false 1 1 [mp 1 1 [sc "on" 1 1, exOn,
    sc "jobs" 10 1, mp 11 3 [pBuild.1, pBuild.2, pTest.1, pTest.2, pDeploy.1, pDeploy.2]]]

/-- the parser accepts the document without a diagnostic -/
theorem exDoc_clean : (parse exCfg exDoc).2 = [] := by decide +kernel

theorem exDoc_jobs : docJobs exDoc = [pBuild, pTest, pDeploy] := by rfl
theorem pBuild_mem : pBuild ∈ docJobs exDoc := by rw [exDoc_jobs]; simp
theorem pTest_mem : pTest ∈ docJobs exDoc := by rw [exDoc_jobs]; simp
theorem pDeploy_mem : pDeploy ∈ docJobs exDoc := by rw [exDoc_jobs]; simp

/-- what is written -/
theorem exBuild_steps : docSteps exBuild = [exStepA, exStepN, exStepB] := by rfl
example : docJobIds exDoc = ["Build", "test", "deploy"] ∧ docStepIds exBuild = ["A", "b"] ∧
    (docSteps exBuild).map docStepId = [some "A", none, some "b"] ∧
    docNeeds exBuild = [] ∧ docNeeds exTest = ["Build"] ∧ docNeeds exDeploy = ["test"] ∧
    docMatrixRowKeys exCfg exMatrix = ["OS"] ∧ docIncludeKeys exCfg exMatrix = ["os", "Extra"] ∧
    docCallInputs exDoc = ["Tag"] ∧ docCallSecrets exDoc = some ["Token"] ∧ docDispatchInputs exDoc = ["dry"] := by
  decide +kernel

/-- … is what the AST holds (§1 on the example) -/
example : (docJobsAst exCfg exDoc).map (·.1) = ["build", "test", "deploy"] ∧
    (docJobsAst exCfg exDoc).map (·.2.id.value) = ["Build", "test", "deploy"] :=
  job_ids_written exCfg exDoc exDoc_clean
example : ((docJob exCfg pBuild).steps.getD []).filterMap (fun s => s.id.map (·.value)) = ["A", "b"] :=
  (step_ids_written exCfg exDoc exDoc_clean pBuild pBuild_mem).2
example : ((docJob exCfg pDeploy).needs.getD []).map (·.value) = ["test"] :=
  (needs_written exCfg exDoc exDoc_clean pDeploy pDeploy_mem).2
example : (docJob exCfg pTest).id = newString pTest.1 := job_id_written exCfg pTest
example : runOf (docStep exCfg exStepN) = some (newString (sc "y" 20 15)) :=
  step_run_written exCfg exDoc exDoc_clean pBuild pBuild_mem exStepN (by rw [show docSteps pBuild.2 = _ from exBuild_steps]; simp)

private def keyRun : String := "jobs.<job_id>.steps.run"
private def noNum : IsNumber := fun _ => false

example : ∀ c ∈ ["needs", "steps", "matrix", "inputs", "secrets"],
    (AL.Visit.availability keyRun).1.contains (exCfg.lower c) = true := by decide +kernel

/-- the `run:` scalars of the three steps of `Build` are checked under `docStepCx … 0 / 1 / 2` -/
example (k : Nat) (c r : Node) (hk : (docSteps pBuild.2)[k]? = some c) (hr : mget c "run" = some r) :
    ∃ hd tl, rule exCfg.lower noNum (parse exCfg exDoc).1 {} =
      hd ++ AL.RuleExpr.checkScriptString (docStepCx exCfg exDoc noNum {} pBuild k) (some (newString r)) keyRun ++ tl :=
  step_run_checked exCfg exDoc exDoc_clean noNum {} pBuild pBuild_mem k c r hk hr

/-- **not later.** In the FIRST step of `Build` (`id: A`) `steps.a` — the step itself — and `steps.b` are reported; in the
SECOND step `steps.a` is defined (written `A`: ids fold), `steps.b` — the THIRD step — is reported; in the third step
`steps.a` is defined, `steps.b` (itself) reported; in the job's `outputs:` both are defined and `steps.c` is reported -/
theorem example_not_later :
    AL.C05.undefinedProp "a" (check (envOf (docStepCx exCfg exDoc noNum {} pBuild 0) keyRun) (.objDeref (.var "steps") "a")) ∧
    AL.C05.undefinedProp "b" (check (envOf (docStepCx exCfg exDoc noNum {} pBuild 0) keyRun) (.objDeref (.var "steps") "b")) ∧
    ¬ AL.C05.undefinedProp "a" (check (envOf (docStepCx exCfg exDoc noNum {} pBuild 1) keyRun) (.objDeref (.var "steps") "a")) ∧
    AL.C05.undefinedProp "b" (check (envOf (docStepCx exCfg exDoc noNum {} pBuild 1) keyRun) (.objDeref (.var "steps") "b")) ∧
    ¬ AL.C05.undefinedProp "a" (check (envOf (docStepCx exCfg exDoc noNum {} pBuild 2) keyRun) (.objDeref (.var "steps") "a")) ∧
    AL.C05.undefinedProp "b" (check (envOf (docStepCx exCfg exDoc noNum {} pBuild 2) keyRun) (.objDeref (.var "steps") "b")) ∧
    ¬ AL.C05.undefinedProp "b" (check (envOf (docJobPostCx exCfg exDoc noNum {} pBuild) "jobs.<job_id>.outputs.<output_id>")
        (.objDeref (.var "steps") "b")) ∧
    AL.C05.undefinedProp "c" (check (envOf (docJobPostCx exCfg exDoc noNum {} pBuild) "jobs.<job_id>.outputs.<output_id>")
        (.objDeref (.var "steps") "c")) := by
  have H := fun k name hl => doc_steps_reported_iff_ids exCfg exDoc exDoc_clean noNum {} pBuild pBuild_mem k hl keyRun name
    (by decide +kernel)
  have P := fun name => doc_steps_reported_post_iff_ids exCfg exDoc exDoc_clean noNum {} pBuild pBuild_mem (by decide +kernel)
    "jobs.<job_id>.outputs.<output_id>" name (by decide +kernel)
  refine ⟨(H 0 "a" (by decide +kernel)).2 (by decide +kernel), (H 0 "b" (by decide +kernel)).2 (by decide +kernel),
    fun h => (H 1 "a" (by decide +kernel)).1 h (by decide +kernel), (H 1 "b" (by decide +kernel)).2 (by decide +kernel),
    fun h => (H 2 "a" (by decide +kernel)).1 h (by decide +kernel), (H 2 "b" (by decide +kernel)).2 (by decide +kernel),
    fun h => (P "b").1 h (by decide +kernel), (P "c").2 (by decide +kernel)⟩

/-- **not transitive.** `deploy` needs `test`, `test` needs `Build`: in `deploy`, `needs.test` is defined and `needs.build`
IS reported; in `test`, `needs.build` is defined (written `Build`) and `needs.test` — the job itself — and `needs.deploy`
are reported; `Build` needs nothing: `needs.test` is reported there -/
theorem example_not_transitive :
    ¬ AL.C05.undefinedProp "test" (check (envOf (docJobCx exCfg exDoc noNum {} pDeploy) keyRun) (.objDeref (.var "needs") "test")) ∧
    AL.C05.undefinedProp "build" (check (envOf (docJobCx exCfg exDoc noNum {} pDeploy) keyRun) (.objDeref (.var "needs") "build")) ∧
    ¬ AL.C05.undefinedProp "build" (check (envOf (docJobCx exCfg exDoc noNum {} pTest) keyRun) (.objDeref (.var "needs") "build")) ∧
    AL.C05.undefinedProp "test" (check (envOf (docJobCx exCfg exDoc noNum {} pTest) keyRun) (.objDeref (.var "needs") "test")) ∧
    AL.C05.undefinedProp "deploy" (check (envOf (docJobCx exCfg exDoc noNum {} pTest) keyRun) (.objDeref (.var "needs") "deploy")) ∧
    AL.C05.undefinedProp "test" (check (envOf (docJobCx exCfg exDoc noNum {} pBuild) keyRun) (.objDeref (.var "needs") "test")) := by
  have H := fun p hp name => doc_needs_reported_iff exCfg exDoc exDoc_clean noNum {} p hp keyRun name (by decide +kernel)
  refine ⟨fun h => (H pDeploy pDeploy_mem "test").1 h (by decide +kernel), (H pDeploy pDeploy_mem "build").2 (by decide +kernel),
    fun h => (H pTest pTest_mem "build").1 h (by decide +kernel), (H pTest pTest_mem "test").2 (by decide +kernel),
    (H pTest pTest_mem "deploy").2 (by decide +kernel), (H pBuild pBuild_mem "test").2 (by decide +kernel)⟩

/-- **matrix**: in `Build`, `matrix.os` (row `OS`), `matrix.extra` (only assigned by an `include:` element) are defined;
`matrix.include` and `matrix.nope` are reported -/
theorem example_matrix :
    ¬ AL.C05.undefinedProp "os" (check (envOf (docJobCx exCfg exDoc noNum {} pBuild) keyRun) (.objDeref (.var "matrix") "os")) ∧
    ¬ AL.C05.undefinedProp "extra" (check (envOf (docJobCx exCfg exDoc noNum {} pBuild) keyRun) (.objDeref (.var "matrix") "extra")) ∧
    AL.C05.undefinedProp "include" (check (envOf (docJobCx exCfg exDoc noNum {} pBuild) keyRun) (.objDeref (.var "matrix") "include")) ∧
    AL.C05.undefinedProp "nope" (check (envOf (docJobCx exCfg exDoc noNum {} pBuild) keyRun) (.objDeref (.var "matrix") "nope")) := by
  have hmx : docMatrix pBuild.2 = some exMatrix := by rfl
  have H := fun name => doc_matrix_reported_iff_lit exCfg exDoc exDoc_clean noNum {} pBuild pBuild_mem exMatrix hmx
    (by decide +kernel) keyRun name (by decide +kernel)
  exact ⟨fun h => (H "os").1 h (by decide +kernel), fun h => (H "extra").1 h (by decide +kernel),
    (H "include").2 (by decide +kernel), (H "nope").2 (by decide +kernel)⟩

theorem exDoc_on : docOn exDoc = some exOn := by rfl

/-- **inputs, secrets** (checked in the `run:` of the second step of `Build`): `inputs.tag` (written `Tag`, of
`workflow_call`), `inputs.dry` (of `workflow_dispatch`), `secrets.token`, `secrets.github_token` are defined; `inputs.other`,
`secrets.other` are reported -/
theorem example_inputs_secrets :
    ¬ AL.C05.undefinedProp "tag" (check (envOf (docStepCx exCfg exDoc noNum {} pBuild 1) keyRun) (.objDeref (.var "inputs") "tag")) ∧
    ¬ AL.C05.undefinedProp "dry" (check (envOf (docStepCx exCfg exDoc noNum {} pBuild 1) keyRun) (.objDeref (.var "inputs") "dry")) ∧
    AL.C05.undefinedProp "other" (check (envOf (docStepCx exCfg exDoc noNum {} pBuild 1) keyRun) (.objDeref (.var "inputs") "other")) ∧
    ¬ AL.C05.undefinedProp "token" (check (envOf (docStepCx exCfg exDoc noNum {} pBuild 1) keyRun) (.objDeref (.var "secrets") "token")) ∧
    ¬ AL.C05.undefinedProp "github_token" (check (envOf (docStepCx exCfg exDoc noNum {} pBuild 1) keyRun) (.objDeref (.var "secrets") "github_token")) ∧
    AL.C05.undefinedProp "other" (check (envOf (docStepCx exCfg exDoc noNum {} pBuild 1) keyRun) (.objDeref (.var "secrets") "other")) := by
  obtain ⟨hh, hl⟩ := docStepCx_hdr exCfg exDoc noNum {} pBuild 1
  have I := fun name => doc_inputs_reported_iff exCfg exDoc exDoc_clean {} exOn exDoc_on (by decide) _ hh hl keyRun name (by decide +kernel)
  have S := fun name => doc_secrets_reported_iff exCfg exDoc exDoc_clean {} exOn exDoc_on (by decide) ["Token"] (by decide +kernel)
    _ hh hl keyRun name (by decide +kernel)
  exact ⟨fun h => (I "tag").1 h (by decide +kernel), fun h => (I "dry").1 h (by decide +kernel), (I "other").2 (by decide +kernel),
    fun h => (S "token").1 h (by decide +kernel), fun h => (S "github_token").1 h (by decide +kernel), (S "other").2 (by decide +kernel)⟩

/-! ### the remaining theorems, on the example -/

example : docJobsAst exCfg exDoc =
    [("build", docJob exCfg pBuild), ("test", docJob exCfg pTest), ("deploy", docJob exCfg pDeploy)] := by
  rw [jobs_written exCfg exDoc exDoc_clean, exDoc_jobs]
  have : exCfg.lower "Build" = "build" := by decide +kernel
  simp only [List.map_cons, List.map_nil, pBuild, pTest, pDeploy, sc, Node.value, this]
  rfl
example : (parseJob exCfg (newString pTest.1) pTest.2).2 = [] := job_clean exCfg exDoc exDoc_clean pTest pTest_mem
example : (exCfg.lower pTest.1.value, docJob exCfg pTest) ∈ docJobsAst exCfg exDoc := job_mem exCfg exDoc exDoc_clean pTest pTest_mem
example : (docJob exCfg pBuild).steps.getD [] = [docStep exCfg exStepA, docStep exCfg exStepN, docStep exCfg exStepB] := by
  rw [steps_written exCfg exDoc exDoc_clean pBuild pBuild_mem, show docSteps pBuild.2 = _ from exBuild_steps]
  rfl
theorem exStepA_mem : exStepA ∈ docSteps pBuild.2 := by rw [show docSteps pBuild.2 = _ from exBuild_steps]; simp
example : (parseStep exCfg exStepA).2 = [] := step_clean exCfg exDoc exDoc_clean pBuild pBuild_mem exStepA exStepA_mem
example : (docStep exCfg exStepA).id = some (newString (sc "A" 19 14)) :=
  step_id_written exCfg exDoc exDoc_clean pBuild pBuild_mem exStepA exStepA_mem
example : (docStep exCfg exStepA).id.map (·.value) = some "A" :=
  step_id_text exCfg exDoc exDoc_clean pBuild pBuild_mem exStepA exStepA_mem

example : ∃ hd tl, [1, 2, 3].flatMap (fun n => [n, n]) = hd ++ [2, 2] ++ tl := flatMap_split (fun n => [n, n]) [1, 2, 3] 2 (by simp)
example : [1, 2, 3] = [1, 2, 3].take 1 ++ 2 :: [1, 2, 3].drop 2 := split_at [1, 2, 3] 1 2 rfl
example : Inside [2] [1, 2, 3] := Inside.trans (Inside.refl [2]) ⟨[1], [3], rfl⟩
example : Inside [2] ([1, 2] ++ [3]) := Inside.app_left [3] ⟨[1], [], rfl⟩
example : Inside [2] ([1] ++ [2, 3]) := Inside.app_right [1] ⟨[], [3], rfl⟩

example : ∃ hd tl, rule exCfg.lower noNum (parse exCfg exDoc).1 {} =
    hd ++ visitJob (docCx exCfg exDoc {}) noNum (docJobsAst exCfg exDoc) (docJob exCfg pTest) ++ tl :=
  job_visited exCfg exDoc exDoc_clean noNum {} pTest pTest_mem
example : ∃ hd tl, rule exCfg.lower noNum (parse exCfg exDoc).1 {} =
    hd ++ jobPre (docJobCx exCfg exDoc noNum {} pTest) (docJob exCfg pTest) ++ tl :=
  job_pre_visited exCfg exDoc exDoc_clean noNum {} pTest pTest_mem
example : ∃ hd tl, rule exCfg.lower noNum (parse exCfg exDoc).1 {} =
    hd ++ jobPost (docJobPostCx exCfg exDoc noNum {} pTest) (docJob exCfg pTest) ++ tl :=
  job_post_visited exCfg exDoc exDoc_clean noNum {} pTest pTest_mem
example : ∃ hd tl, rule exCfg.lower noNum (parse exCfg exDoc).1 {} =
    hd ++ (visitStep (docStepCx exCfg exDoc noNum {} pBuild 1) (docStep exCfg exStepN)).2 ++ tl :=
  step_visited exCfg exDoc exDoc_clean noNum {} pBuild pBuild_mem 1 exStepN (by rw [show docSteps pBuild.2 = _ from exBuild_steps]; rfl)
/-- the `run:` scalar `y` of the second step of `Build` is checked under `docStepCx … 1` -/
example : ∃ hd tl, rule exCfg.lower noNum (parse exCfg exDoc).1 {} =
    hd ++ AL.RuleExpr.checkScriptString (docStepCx exCfg exDoc noNum {} pBuild 1) (some (newString (sc "y" 20 15))) keyRun ++ tl :=
  step_run_checked exCfg exDoc exDoc_clean noNum {} pBuild pBuild_mem 1 exStepN (sc "y" 20 15)
    (by rw [show docSteps pBuild.2 = _ from exBuild_steps]; rfl) (by rfl)

/-- `doc_steps_reported_iff` / `doc_steps_reported_post_iff` in the element form: in the third step `steps.b` is reported -/
example : AL.C05.undefinedProp "b" (check (envOf (docStepCx exCfg exDoc noNum {} pBuild 2) keyRun) (.objDeref (.var "steps") "b")) := by
  refine (doc_steps_reported_iff exCfg exDoc exDoc_clean noNum {} pBuild pBuild_mem 2 ?_ keyRun "b" (by decide +kernel)).2 ?_
  · intro c hc id hid
    have : (docStepIdsBefore pBuild.2 2).all (fun id => !AL.Matrix.containsExpr id) = true := by decide +kernel
    simp only [List.all_eq_true, Bool.not_eq_eq_eq_not, Bool.not_true] at this
    exact this id (List.mem_filterMap.2 ⟨c, hc, hid⟩)
  · rw [exists_iff_mem_filterMap]
    show "b" ∉ (docStepIdsBefore pBuild.2 2).map exCfg.lower
    decide +kernel
example : AL.C05.undefinedProp "c" (check (envOf (docJobPostCx exCfg exDoc noNum {} pBuild) "jobs.<job_id>.outputs.<output_id>")
    (.objDeref (.var "steps") "c")) := by
  refine (doc_steps_reported_post_iff exCfg exDoc exDoc_clean noNum {} pBuild pBuild_mem ?_ _ "c" (by decide +kernel)).2 ?_
  · intro c hc id hid
    have : (docStepIds pBuild.2).all (fun id => !AL.Matrix.containsExpr id) = true := by decide +kernel
    simp only [List.all_eq_true, Bool.not_eq_eq_eq_not, Bool.not_true] at this
    exact this id (List.mem_filterMap.2 ⟨c, hc, hid⟩)
  · rw [exists_iff_mem_filterMap]
    show "c" ∉ (docStepIds pBuild.2).map exCfg.lower
    decide +kernel

theorem exBuild_matrix : docMatrix pBuild.2 = some exMatrix := by rfl
theorem exMatrix_include : docIncludeNode exCfg exMatrix =
    some (sq 17 11 [mp 17 13 [sc "os" 17 14, sc "win" 17 18, sc "Extra" 17 23, sc "1" 17 30]]) := by rfl

/-- the matrix of `Build` in the AST: rows `os`; one literal `include` combination assigning `os`, `extra` -/
example : ∃ m mc cs, matrixOf (docJob exCfg pBuild) = some m ∧ m.expr = none ∧ (m.rows.getD []).map (·.1) = ["os"] ∧
    m.incl = some mc ∧ mc.expr = none ∧ mc.combinations = some cs ∧ (∀ c ∈ cs, c.expr = none) ∧
    cs.map (fun c => (c.assigns.getD []).map (·.1)) = [["os", "extra"]] := by
  obtain ⟨m, h1, h2, h3, _, h5⟩ := matrix_written exCfg exDoc exDoc_clean pBuild pBuild_mem exMatrix exBuild_matrix (by decide)
  obtain ⟨mc, cs, e1, e2, e3, e4, e5⟩ := h5 _ exMatrix_include (by decide)
    (by intro c hc; simp only [sq, Node.content, List.mem_singleton] at hc; subst hc; decide)
  refine ⟨m, mc, cs, h1, h2, ?_, e1, e2, e3, e4, ?_⟩
  · rw [h3]; decide +kernel
  · rw [e5]; decide +kernel
example : AL.C05.undefinedProp "nope" (check (envOf (docJobCx exCfg exDoc noNum {} pBuild) keyRun) (.objDeref (.var "matrix") "nope")) := by
  refine (doc_matrix_reported_iff exCfg exDoc exDoc_clean noNum {} pBuild pBuild_mem exMatrix exBuild_matrix (by decide) ?_
    keyRun "nope" (by decide +kernel)).2 (by decide +kernel)
  intro inc hi
  rw [exMatrix_include] at hi
  cases hi
  exact ⟨by decide, by intro c hc; simp only [sq, Node.content, List.mem_singleton] at hc; subst hc; decide⟩

/-- the header of the example: `inputs` of `workflow_call` / `workflow_dispatch`, `secrets` -/
example : ((docCx exCfg exDoc {}).hdr.callInputs.getD []).map (·.1) = ["tag"] ∧
    (docCx exCfg exDoc {}).hdr.callSecrets = some ["token"] ∧
    ((docCx exCfg exDoc {}).hdr.dispatchInputs.getD []).map (·.1) = ["dry"] := by
  obtain ⟨h1, h2, h3⟩ := hdr_written exCfg exDoc exDoc_clean {} exOn exDoc_on (by decide)
  rw [h1, h2, h3]
  decide +kernel

/-! ### `needs.<job>.outputs.<name>` on the first document -/

theorem lower_Build : exCfg.lower pBuild.1.value = "build" := by decide +kernel

example : docOutputs exBuild = ["Art"] ∧ ((docJob exCfg pBuild).outputs.getD []).map (·.1) = ["art"] := by
  refine ⟨by decide +kernel, ?_⟩
  rw [outputs_written exCfg exDoc exDoc_clean pBuild pBuild_mem]
  decide +kernel
example : (docJob exCfg pBuild).workflowCall = none := job_no_call exCfg exDoc exDoc_clean pBuild pBuild_mem (by rfl)
example : ((docJobsAst exCfg exDoc).map (·.1)).Nodup := docJobsAst_nodup exCfg exDoc
example : lookupJob "build" (docJobsAst exCfg exDoc) = some (docJob exCfg pBuild) := by
  have := lookupJob_written exCfg exDoc exDoc_clean pBuild pBuild_mem
  rwa [lower_Build] at this
example : lookupJob "build" (docJobsAst exCfg exDoc) = some (docJob exCfg pBuild) := by
  have := lookupJob_of_mem _ _ _ (docJobsAst_nodup exCfg exDoc) (job_mem exCfg exDoc exDoc_clean pBuild pBuild_mem)
  rwa [lower_Build] at this

/-- in `test` (which needs `Build`): `needs.build.outputs.art` (written `Art`) has no diagnostic, `needs.build.outputs.nope` has -/
theorem example_needs_outputs :
    (check (envOf (docJobCx exCfg exDoc noNum {} pTest) keyRun)
      (.objDeref (.objDeref (.objDeref (.var "needs") "build") "outputs") "art")).errs = [] ∧
    (check (envOf (docJobCx exCfg exDoc noNum {} pTest) keyRun)
      (.objDeref (.objDeref (.objDeref (.var "needs") "build") "outputs") "nope")).errs ≠ [] := by
  have H := fun o => doc_needs_outputs_reported_iff exCfg exDoc exDoc_clean noNum {} pTest pTest_mem pBuild pBuild_mem
    (by decide +kernel) (by decide +kernel) (by rfl) keyRun o (by decide +kernel)
  rw [lower_Build] at H
  refine ⟨?_, (H "nope").2 (by decide +kernel)⟩
  have := (H "art").not
  simp only [ne_eq, Decidable.not_not] at this
  exact this.2 (by decide +kernel)

/-! ### `jobs.<job>[.outputs.<name>]` on the first document -/

private def keyOut : String := "on.workflow_call.outputs.<output_id>.value"

example : (AL.Visit.availability keyOut).1.contains (exCfg.lower "jobs") = true := by decide +kernel
example : [("a", 1), ("b", 2)].find? (·.1 = "b") = some ("b", 2) := find?_of_mem_nodup "b" 2 _ (by decide) (by simp)

/-- `jobs.build` (written `Build`) is defined, `jobs.nope` reported; `jobs.build.outputs.art` is fine, `…outputs.nope` not -/
theorem example_jobs :
    ¬ AL.C05.undefinedProp "build" (check (envOf (docOutCx exCfg exDoc {}) keyOut) (.objDeref (.var "jobs") "build")) ∧
    AL.C05.undefinedProp "nope" (check (envOf (docOutCx exCfg exDoc {}) keyOut) (.objDeref (.var "jobs") "nope")) ∧
    (check (envOf (docOutCx exCfg exDoc {}) keyOut)
      (.objDeref (.objDeref (.objDeref (.var "jobs") "build") "outputs") "art")).errs = [] ∧
    (check (envOf (docOutCx exCfg exDoc {}) keyOut)
      (.objDeref (.objDeref (.objDeref (.var "jobs") "build") "outputs") "nope")).errs ≠ [] := by
  have J := fun name => doc_jobs_reported_iff exCfg exDoc exDoc_clean {} keyOut name (by decide +kernel)
  have O := fun o => doc_jobs_outputs_reported_iff exCfg exDoc exDoc_clean {} pBuild pBuild_mem (by rfl) keyOut o (by decide +kernel)
  rw [lower_Build] at O
  refine ⟨fun h => (J "build").1 h (by decide +kernel), (J "nope").2 (by decide +kernel), ?_, (O "nope").2 (by decide +kernel)⟩
  have := (O "art").not
  simp only [ne_eq, Decidable.not_not] at this
  exact this.2 (by decide +kernel)

/-! ### a second document: no `workflow_call`, a matrix without `include:`

```yaml
on:
  push: {}
jobs:
  j:
    runs-on: u
    strategy: {matrix: {os: [linux]}}
    steps: [{run: x}]
``` -/

def exMatrix2 : Node := mp 6 24 [sc "os" 6 25, sq 6 29 [sc "linux" 6 30]]
def exJob2 : Node :=
  mp 5 5 [sc "runs-on" 5 5, sc "u" 5 14, sc "strategy" 6 5, mp 6 15 [sc "matrix" 6 16, exMatrix2],
          sc "steps" 7 5, sq 7 12 [mp 7 13 [sc "run" 7 14, sc "x" 7 19]]]
def pJob2 : Node × Node := (sc "j" 4 3, exJob2)
def exOn2 : Node := mp 2 3 [sc "push" 2 3, mp 2 9 []]
def exDoc2 : Node := .mk .document "" "" false 1 1 [mp 1 1 [sc "on" 1 1, exOn2, sc "jobs" 3 1, mp 4 3 [pJob2.1, pJob2.2]]]

theorem exDoc2_clean : (parse exCfg exDoc2).2 = [] := by decide +kernel
theorem pJob2_mem : pJob2 ∈ docJobs exDoc2 := by rw [show docJobs exDoc2 = [pJob2] from rfl]; simp

/-- without `on: workflow_call: secrets:` no `secrets.<name>` is reported -/
example : (check (envOf (docJobCx exCfg exDoc2 noNum {} pJob2) keyRun) (.objDeref (.var "secrets") "anything")).errs = [] := by
  obtain ⟨hh, hl⟩ := docJobCx_hdr exCfg exDoc2 noNum {} pJob2
  exact doc_secrets_silent exCfg exDoc2 exDoc2_clean {} exOn2 (by rfl) (by decide) (by decide +kernel) _ hh hl keyRun "anything"
    (by decide +kernel)

/-- rows only: `matrix.os` is defined, `matrix.extra` is reported -/
example : ¬ AL.C05.undefinedProp "os" (check (envOf (docJobCx exCfg exDoc2 noNum {} pJob2) keyRun) (.objDeref (.var "matrix") "os")) ∧
    AL.C05.undefinedProp "extra" (check (envOf (docJobCx exCfg exDoc2 noNum {} pJob2) keyRun) (.objDeref (.var "matrix") "extra")) := by
  have H := fun name => doc_matrix_reported_iff_lit exCfg exDoc2 exDoc2_clean noNum {} pJob2 pJob2_mem exMatrix2 (by rfl)
    (by decide +kernel) keyRun name (by decide +kernel)
  exact ⟨fun h => (H "os").1 h (by decide +kernel), (H "extra").2 (by decide +kernel)⟩

/-- `matrix_reported_rows_iff` on the AST of that job -/
example : AL.C05.undefinedProp "extra" (check (envOf (jobCx (docCx exCfg exDoc2 {}) noNum (docJobsAst exCfg exDoc2) (docJob exCfg pJob2)) keyRun)
    (.objDeref (.var "matrix") "extra")) := by
  obtain ⟨m, h1, h2, h3, h4, _⟩ := matrix_written exCfg exDoc2 exDoc2_clean pJob2 pJob2_mem exMatrix2 (by rfl) (by decide)
  refine (matrix_reported_rows_iff _ noNum _ _ m h1 h2 (h4 (by rfl)) keyRun "extra" (by rw [docCx_lower]; decide +kernel)).2 ?_
  rw [h3]
  decide +kernel

/-! ### a third document: `on: [push, workflow_dispatch]`

```yaml
on: [push, workflow_dispatch]
jobs:
  j:
    runs-on: u
    steps: [{run: x}]
``` -/

def exOn3 : Node := sq 1 5 [sc "push" 1 6, sc "workflow_dispatch" 1 12]
def pJob3 : Node × Node :=
  (sc "j" 3 3, mp 4 5 [sc "runs-on" 4 5, sc "u" 4 14, sc "steps" 5 5, sq 5 12 [mp 5 13 [sc "run" 5 14, sc "x" 5 19]]])
def exDoc3 : Node := .mk .document "" "" false 1 1 [mp 1 1 [sc "on" 1 1, exOn3, sc "jobs" 2 1, mp 3 3 [pJob3.1, pJob3.2]]]

theorem exDoc3_clean : (parse exCfg exDoc3).2 = [] := by decide +kernel

example : HdrEmpty (docCx exCfg exDoc3 {}).hdr := hdr_plain_written exCfg exDoc3 exDoc3_clean {} exOn3 (by rfl) (by decide)
/-- `workflow_dispatch` without inputs: `inputs.anything` is reported; `secrets.anything` is not -/
example : AL.C05.undefinedProp "anything" (check (envOf (docJobCx exCfg exDoc3 noNum {} pJob3) keyRun) (.objDeref (.var "inputs") "anything")) ∧
    (check (envOf (docJobCx exCfg exDoc3 noNum {} pJob3) keyRun) (.objDeref (.var "secrets") "anything")).errs = [] := by
  obtain ⟨hh, hl⟩ := docJobCx_hdr exCfg exDoc3 noNum {} pJob3
  exact ⟨doc_inputs_reported_plain exCfg exDoc3 exDoc3_clean {} exOn3 (by rfl) (by decide) _ hh hl keyRun "anything" (by decide +kernel),
    doc_secrets_silent_plain exCfg exDoc3 exDoc3_clean {} exOn3 (by rfl) (by decide) _ hh hl keyRun "anything" (by decide +kernel)⟩

end Example

end AL.C05D
