import AL.Model.ProjLint
/-
  C07 for the diagnostics a project adds: every one of them sits at the `uses:` value of the job / step concerned, or at
  the key of the `with:` / `secrets:` entry it is about (the typed-input diagnostic: at the entry's value).
-/
namespace AL.C07P
open AL AL.Ast

theorem checkLocal_pos (m : AL.CallMeta.Meta) (c : WorkflowCall) (u : Str) :
    ∀ d ∈ AL.ProjCall.checkLocal m c u,
      d.pos = u.pos ∨ (∃ kv ∈ c.inputs.getD [], d.pos = kv.2.name.pos) ∨ (∃ kv ∈ c.secrets.getD [], d.pos = kv.2.name.pos) := by
  intro d hd
  simp only [AL.ProjCall.checkLocal, List.mem_append, List.mem_flatMap] at hd
  rcases hd with ((⟨n, _, hn⟩ | ⟨kv, hkv, hd'⟩) | hs)
  · left
    split at hn
    · split at hn
      · simp only [List.mem_singleton] at hn; rw [hn]
      · simp at hn
    · simp at hn
  · right; left
    split at hd'
    · simp at hd'
    · simp only [List.mem_singleton] at hd'; exact ⟨kv, hkv, by rw [hd']⟩
  · split at hs
    · simp at hs
    · simp only [List.mem_append, List.mem_flatMap] at hs
      rcases hs with ⟨n, _, hn⟩ | ⟨kv, hkv, hd'⟩
      · left
        split at hn
        · split at hn
          · simp only [List.mem_singleton] at hn; rw [hn]
          · simp at hn
        · simp at hn
      · right; right
        split at hd'
        · simp at hd'
        · simp only [List.mem_singleton] at hd'; exact ⟨kv, hkv, by rw [hd']⟩

/-- what rule workflow-call adds at one job: at the job's `uses:` or at a key of its `with:` / `secrets:` -/
theorem wcFound_pos (f : AL.ProjCall.Found) (c : WorkflowCall) (u : Str) :
    ∀ d ∈ AL.ProjCall.wcFound f c u,
      d.pos = u.pos ∨ (∃ kv ∈ c.inputs.getD [], d.pos = kv.2.name.pos) ∨ (∃ kv ∈ c.secrets.getD [], d.pos = kv.2.name.pos) := by
  intro d hd
  cases f with
  | nothing => simp [AL.ProjCall.wcFound] at hd
  | err code => simp only [AL.ProjCall.wcFound, List.mem_singleton] at hd; left; rw [hd]
  | found m => exact checkLocal_pos m c u d hd

theorem typedInput_pos (cx : AL.RuleExpr.Cx) (u : Str) (kv : String × CallArg) (ts : List AL.Ty) :
    ∀ d ∈ AL.RuleExpr.typedInput cx u kv ts, d.site = kv.2.value.pos := by
  intro d hd
  simp only [AL.RuleExpr.typedInput] at hd
  split at hd
  · simp at hd
  · split at hd
    · simp at hd
    · split at hd
      · simp at hd
      · split at hd
        · simp at hd
        · simp only [List.mem_singleton] at hd; rw [hd]

theorem invalidProps_pos (r : AL.ProjAction.Runs) (ty name dir : String) (props : List String) (pos : AL.ProjAction.Pos) :
    ∀ d ∈ AL.ProjAction.invalidProps r ty name dir props pos, d.pos = pos := by
  intro d hd
  simp only [AL.ProjAction.invalidProps, List.mem_flatMap] at hd
  obtain ⟨p, _, hp⟩ := hd
  split at hp
  · simp only [List.mem_singleton] at hp; rw [hp]
  · simp at hp

theorem runsFile_pos (env : AL.ProjAction.Env) (file dir prop name : String) (pos : AL.ProjAction.Pos) :
    ∀ d ∈ AL.ProjAction.runsFile env file dir prop name pos, d.pos = pos := by
  intro d hd
  simp only [AL.ProjAction.runsFile] at hd
  split at hd
  · simp at hd
  · split at hd
    · simp at hd
    · simp only [List.mem_singleton] at hd; rw [hd]

def AllAt (pos : AL.ProjAction.Pos) (ds : List AL.ProjAction.Diag) : Prop := ∀ d ∈ ds, d.pos = pos

theorem AllAt.nil (pos : AL.ProjAction.Pos) : AllAt pos [] := fun _ h => by cases h
theorem AllAt.single (pos : AL.ProjAction.Pos) (k c : String) (a : List String) : AllAt pos [⟨pos, k, c, a⟩] :=
  fun d h => by simp only [List.mem_singleton] at h; rw [h]
theorem AllAt.append {pos : AL.ProjAction.Pos} {a b : List AL.ProjAction.Diag} (ha : AllAt pos a) (hb : AllAt pos b) : AllAt pos (a ++ b) :=
  fun d h => by rcases List.mem_append.mp h with h | h; exact ha d h; exact hb d h
theorem AllAt.ite {pos : AL.ProjAction.Pos} {c : Prop} [Decidable c] {a b : List AL.ProjAction.Diag} (ha : AllAt pos a) (hb : AllAt pos b) :
    AllAt pos (if c then a else b) := by split <;> assumption

theorem runsFile_all (env : AL.ProjAction.Env) (file dir prop name : String) (pos : AL.ProjAction.Pos) :
    AllAt pos (AL.ProjAction.runsFile env file dir prop name pos) := runsFile_pos env file dir prop name pos

theorem invalidProps_all (r : AL.ProjAction.Runs) (ty name dir : String) (props : List String) (pos : AL.ProjAction.Pos) :
    AllAt pos (AL.ProjAction.invalidProps r ty name dir props pos) := invalidProps_pos r ty name dir props pos

theorem jsRuns_all (env : AL.ProjAction.Env) (r : AL.ProjAction.Runs) (dir name : String) (pos : AL.ProjAction.Pos) :
    AllAt pos (AL.ProjAction.jsRuns env r dir name pos) := by
  simp only [AL.ProjAction.jsRuns, AL.ProjAction.missingProp]
  exact (((((AllAt.ite (AllAt.single _ _ _ _) (runsFile_all _ _ _ _ _ _)).append (runsFile_all _ _ _ _ _ _)).append
    (AllAt.ite (AllAt.single _ _ _ _) (AllAt.nil _))).append (runsFile_all _ _ _ _ _ _)).append
    (AllAt.ite (AllAt.single _ _ _ _) (AllAt.nil _))).append (invalidProps_all _ _ _ _ _ _)

theorem dockerRuns_all (env : AL.ProjAction.Env) (r : AL.ProjAction.Runs) (dir name : String) (pos : AL.ProjAction.Pos) :
    AllAt pos (AL.ProjAction.dockerRuns env r dir name pos) := by
  simp only [AL.ProjAction.dockerRuns, AL.ProjAction.missingProp]
  exact ((((AllAt.ite (AllAt.single _ _ _ _) (AllAt.ite ((runsFile_all _ _ _ _ _ _).append (AllAt.ite (AllAt.single _ _ _ _) (AllAt.nil _))) (AllAt.nil _))).append
    (runsFile_all _ _ _ _ _ _)).append (runsFile_all _ _ _ _ _ _)).append (runsFile_all _ _ _ _ _ _)).append (invalidProps_all _ _ _ _ _ _)

theorem compositeRuns_all (r : AL.ProjAction.Runs) (dir name : String) (pos : AL.ProjAction.Pos) :
    AllAt pos (AL.ProjAction.compositeRuns r dir name pos) := by
  simp only [AL.ProjAction.compositeRuns, AL.ProjAction.missingProp]
  exact (AllAt.ite (AllAt.single _ _ _ _) (AllAt.nil _)).append (invalidProps_all _ _ _ _ _ _)

theorem runsDiags_all (env : AL.ProjAction.Env) (m : AL.ProjAction.ActionMeta) (pos : AL.ProjAction.Pos) :
    AllAt pos (AL.ProjAction.runsDiags env m pos) := by
  simp only [AL.ProjAction.runsDiags]
  exact AllAt.ite (AllAt.single _ _ _ _) (AllAt.ite (dockerRuns_all _ _ _ _ _) (AllAt.ite (compositeRuns_all _ _ _ _) (AllAt.ite (jsRuns_all _ _ _ _ _)
    ((AllAt.single _ _ _ _).append (AllAt.ite (jsRuns_all _ _ _ _ _) (AllAt.nil _))))))

/-- every diagnostic about a local action's own metadata sits at the `uses:` of the step that used it first -/
theorem metadataDiags_pos (env : AL.ProjAction.Env) (m : AL.ProjAction.ActionMeta) (pos : AL.ProjAction.Pos) :
    ∀ d ∈ AL.ProjAction.metadataDiags env m pos, d.pos = pos := by
  simp only [AL.ProjAction.metadataDiags]
  exact ((((AllAt.ite (AllAt.single _ _ _ _) (AllAt.nil _)).append (AllAt.ite (AllAt.single _ _ _ _) (AllAt.nil _))).append
    (AllAt.ite (AllAt.single _ _ _ _) (AllAt.nil _))).append (AllAt.ite (AllAt.single _ _ _ _) (AllAt.nil _))).append (runsDiags_all _ _ _)

/-- what rule action adds at a step that uses a local action: at the step's `uses:` or at a key of its `with:` -/
theorem localStep_pos (env : AL.ProjAction.Env) (f : AL.ProjAction.Found) (spec : String) (e : ExecAction) (pos : AL.ProjAction.Pos) :
    ∀ d ∈ AL.ProjAction.localStep env f spec e pos, d.pos = pos ∨ ∃ kv ∈ e.inputs.getD [], d.pos = kv.2.name.pos := by
  intro d hd
  cases f with
  | nothing => simp [AL.ProjAction.localStep] at hd
  | err dir => simp only [AL.ProjAction.localStep, List.mem_singleton] at hd; left; rw [hd]
  | found m cached =>
    simp only [AL.ProjAction.localStep, List.mem_append] at hd
    rcases hd with hd | hd
    · left
      split at hd
      · simp at hd
      · exact metadataDiags_pos env m pos d hd
    · simp only [AL.ProjAction.inputDiags, List.mem_append, List.mem_flatMap] at hd
      rcases hd with ⟨kv, hkv, hd'⟩ | ⟨id, _, hd'⟩
      · right
        split at hd'
        · simp at hd'
        · simp only [List.mem_singleton] at hd'; exact ⟨kv, hkv, by rw [hd']⟩
      · left
        split at hd'
        · split at hd'
          · simp at hd'
          · simp only [List.mem_singleton] at hd'; rw [hd']
        · simp at hd'

end AL.C07P
