import AL.Model.ProjCall
import AL.Model.ProjAction
/-
  C10, "their own defects are reported once per run", for the file-level model of the project case (AL.ProjCall): however
  many jobs of a workflow call or need a reusable workflow whose file is missing or broken, and whichever of the two rules
  asks first, the callee's defect appears at most once among the diagnostics of the file.
-/
namespace AL.C10O
open AL AL.Ast AL.CallMeta AL.ProjCall

def decided (c : Cache) (spec : String) : Bool := (cacheGet c spec).isSome

theorem cacheGet_put (c : Cache) (k k' : String) (v : Option Meta) :
    cacheGet (cachePut c k v) k' = if k' = k then some v else cacheGet c k' := by
  simp only [cachePut, cacheGet, List.find?_cons]
  by_cases hk : k' = k
  · subst hk; simp
  · have : ¬ (k = k') := fun h => hk h.symm
    simp [hk, this]

theorem decided_put (c : Cache) (k k' : String) (v : Option Meta) :
    decided (cachePut c k v) k' = (decide (k' = k) || decided c k') := by
  simp only [decided, cacheGet_put]
  by_cases hk : k' = k <;> simp [hk]

/-- a diagnostic that reports the defect of the callee `spec` -/
def isDefectCode (code : String) : Bool := code = "callee-unreadable" || code = "callee-broken"

/-- what one look-up does to the question "has `spec` been decided": it stays decided; an error is produced only for an
undecided spec and decides it -/
theorem cacheGet_remember (env : ProjCall.Env) (c : Cache) (s spec : String) :
    cacheGet (remember env c s) spec =
      if skipped env s then cacheGet c spec
      else if spec = s then (match cacheGet c s with | some v => some v | none => some (diskEntry env s))
      else cacheGet c spec := by
  simp only [remember]
  by_cases hg : skipped env s = true
  · simp [hg]
  · simp only [hg, Bool.false_eq_true, if_false]
    cases hk : cacheGet c s with
    | some v =>
      by_cases e : spec = s
      · subst e; simp [hk]
      · simp [e]
    | none =>
      simp only [cacheGet_put]

theorem find_spec (env : ProjCall.Env) (c : Cache) (s spec : String) :
    (decided c spec = true → decided (find env c s).1 spec = true) ∧
    (∀ code, (find env c s).2 = .err code → isDefectCode code = true ∧ decided c s = false ∧ decided (find env c s).1 s = true) := by
  simp only [find, decided, cacheGet_remember]
  refine ⟨fun h => ?_, fun code h => ?_⟩
  · by_cases hg : skipped env s = true
    · simpa [hg] using h
    · simp only [hg, Bool.false_eq_true, if_false]
      by_cases e : spec = s
      · subst e
        cases hk : cacheGet c spec <;> simp [hk]
      · simpa [e] using h
  · simp only [answer] at h
    by_cases hg : skipped env s = true
    · simp [hg] at h
    · simp only [hg, Bool.false_eq_true, if_false] at h ⊢
      cases hk : cacheGet c s with
      | some v => cases v <;> simp [hk] at h
      | none =>
        simp only [hk, diskAnswer] at h
        cases hd : env.disk s with
        | ok m => simp [hd] at h
        | missing => simp only [hd, Found.err.injEq] at h; subst h; simp [isDefectCode]
        | broken => simp only [hd, Found.err.injEq] at h; subst h; simp [isDefectCode]

/-- the number of diagnostics in a list that report the defect of the callee `spec` -/
def wcCount (spec : String) (ds : List AL.Rules.Diag) : Nat :=
  (ds.filter fun d => isDefectCode d.code && d.args == [spec]).length

def exCount (spec : String) (ds : List AL.RuleExpr.Diag) : Nat :=
  (ds.filter fun d => isDefectCode d.code && d.args == [spec]).length

/-- a piece of the visit takes the cache from `c` to `c'` and reports the defect of `spec` `n` times -/
def T (spec : String) (c c' : Cache) (n : Nat) : Prop :=
  (decided c spec = true → decided c' spec = true ∧ n = 0) ∧
  (decided c spec = false → n ≤ 1 ∧ (n = 1 → decided c' spec = true))

theorem T.refl (spec : String) (c : Cache) : T spec c c 0 :=
  ⟨fun h => ⟨h, rfl⟩, fun _ => ⟨Nat.zero_le _, fun h => by cases h⟩⟩

theorem T.comp {spec : String} {c c' c'' : Cache} {n m : Nat} (h1 : T spec c c' n) (h2 : T spec c' c'' m) :
    T spec c c'' (n + m) := by
  refine ⟨fun h => ?_, fun h => ?_⟩
  · obtain ⟨hd, hn⟩ := h1.1 h
    obtain ⟨hd', hm⟩ := h2.1 hd
    exact ⟨hd', by omega⟩
  · obtain ⟨hn, hn1⟩ := h1.2 h
    cases hdc : decided c' spec with
    | true =>
      obtain ⟨hd', hm⟩ := h2.1 hdc
      exact ⟨by omega, fun _ => hd'⟩
    | false =>
      obtain ⟨hm, hm1⟩ := h2.2 hdc
      have hn0 : n = 0 := by
        rcases Nat.lt_or_ge n 1 with h0 | h0
        · omega
        · have : n = 1 := by omega
          have := hn1 this
          rw [hdc] at this; cases this
      exact ⟨by omega, fun h => hm1 (by omega)⟩

theorem T.le_one {spec : String} {c c' : Cache} {n : Nat} (h : T spec c c' n) : n ≤ 1 := by
  cases hd : decided c spec with
  | true => have := (h.1 hd).2; omega
  | false => exact (h.2 hd).1

/-- one look-up, with the diagnostic it may produce -/
theorem find_T (env : ProjCall.Env) (c : Cache) (s spec : String) :
    T spec c (find env c s).1
      (match (find env c s).2 with
       | .err _ => if s = spec then 1 else 0
       | _ => 0) := by
  obtain ⟨hmono, herr⟩ := find_spec env c s spec
  cases hf : (find env c s).2 with
  | nothing => exact ⟨fun h => ⟨hmono h, rfl⟩, fun _ => ⟨Nat.zero_le _, fun h => by cases h⟩⟩
  | found m => exact ⟨fun h => ⟨hmono h, rfl⟩, fun _ => ⟨Nat.zero_le _, fun h => by cases h⟩⟩
  | err code =>
    obtain ⟨_, hu, hd⟩ := herr code hf
    by_cases hs : s = spec
    · subst hs
      simp only [if_true]
      exact ⟨fun h => (by rw [hu] at h; cases h), fun _ => ⟨Nat.le_refl _, fun _ => hd⟩⟩
    · simp only [hs, if_false]
      exact ⟨fun h => ⟨hmono h, rfl⟩, fun _ => ⟨Nat.zero_le _, fun h => by cases h⟩⟩

theorem checkLocal_no_defect (m : Meta) (call : WorkflowCall) (u : Str) (spec : String) :
    wcCount spec (checkLocal m call u) = 0 := by
  simp only [wcCount, List.length_eq_zero_iff, List.filter_eq_nil_iff]
  intro d hd
  simp only [checkLocal, List.mem_append, List.mem_flatMap] at hd
  have key : isDefectCode d.code = false := by
    rcases hd with ((⟨n, _, hn⟩ | ⟨kv', _, hd'⟩) | hs)
    · split at hn
      · split at hn
        · simp only [List.mem_singleton] at hn; rw [hn]; rfl
        · simp at hn
      · simp at hn
    · split at hd'
      · simp at hd'
      · simp only [List.mem_singleton] at hd'; rw [hd']; rfl
    · split at hs
      · simp at hs
      · simp only [List.mem_append, List.mem_flatMap] at hs
        rcases hs with ⟨n, _, hn⟩ | ⟨kv', _, hd'⟩
        · split at hn
          · split at hn
            · simp only [List.mem_singleton] at hn; rw [hn]; rfl
            · simp at hn
          · simp at hn
        · split at hd'
          · simp at hd'
          · simp only [List.mem_singleton] at hd'; rw [hd']; rfl
  simp [key]

theorem count_single_wc (spec : String) (pos : ProjCall.Pos) (kind code s : String) (h : isDefectCode code = true) :
    wcCount spec [⟨pos, kind, code, [s]⟩] = if s = spec then 1 else 0 := by
  by_cases hs : s = spec <;> simp [wcCount, h, hs]

theorem count_single_ex (spec : String) (pos : ProjCall.Pos) (code s : String) (h : isDefectCode code = true) :
    exCount spec [⟨pos, code, [s]⟩] = if s = spec then 1 else 0 := by
  by_cases hs : s = spec <;> simp [exCount, h, hs]

theorem wcFound_count (env : ProjCall.Env) (c : Cache) (call : WorkflowCall) (u : Str) (spec : String) :
    wcCount spec (wcFound (find env c u.value).2 call u) =
      (match (find env c u.value).2 with
       | .err _ => if u.value = spec then 1 else 0
       | _ => 0) := by
  obtain ⟨_, herr⟩ := find_spec env c u.value spec
  cases hf : (find env c u.value).2 with
  | nothing => simp [wcFound, wcCount]
  | found m => simp [wcFound, checkLocal_no_defect]
  | err code =>
    have hcode := (herr code hf).1
    simp only [wcFound]
    exact count_single_wc spec _ _ _ _ hcode

theorem exFound_count (env : ProjCall.Env) (c : Cache) (u : Str) (spec : String) :
    exCount spec (exFound (find env c u.value).2 u) =
      (match (find env c u.value).2 with
       | .err _ => if u.value = spec then 1 else 0
       | _ => 0) := by
  obtain ⟨_, herr⟩ := find_spec env c u.value spec
  cases hf : (find env c u.value).2 with
  | nothing => simp [exFound, exCount]
  | found m => simp [exFound, exCount]
  | err code =>
    have hcode := (herr code hf).1
    simp only [exFound]
    exact count_single_ex spec _ _ _ hcode

/-- the workflow-call rule at one job -/
theorem wcJob_T (env : ProjCall.Env) (c : Cache) (j : Job) (spec : String) :
    T spec c (wcJob env c j).1 (wcCount spec (wcJob env c j).2) := by
  simp only [wcJob]
  split
  · exact T.refl spec c
  · split
    · exact T.refl spec c
    · rename_i call _ u _
      simp only [wcUses]
      by_cases h1 : (u.value = "" || AL.Rules.containsExpr u) = true
      · simp only [h1, if_true]; exact T.refl spec c
      · simp only [h1, Bool.false_eq_true, if_false]
        by_cases h2 : AL.Rules.isLocalCallFormat u.value = true
        · simp only [h2, if_true, wcFound_count]
          exact find_T env c u.value spec
        · simp only [h2, Bool.false_eq_true, if_false]
          by_cases h3 : AL.Rules.isRepoCallFormat u.value = true
          · simp only [h3, if_true]; exact T.refl spec c
          · simp only [h3, Bool.false_eq_true, if_false]
            by_cases h4 : u.value.startsWith "./" = true
            · simp only [h4, if_true]
              exact ⟨fun h => ⟨by simp [decided_put, h], rfl⟩, fun _ => ⟨Nat.zero_le _, fun h => by simp [wcCount] at h⟩⟩
            · simp only [h4, Bool.false_eq_true, if_false]; exact T.refl spec c

/-- the expression rule's own look-up at one job -/
theorem callLookup_T (env : ProjCall.Env) (c : Cache) (j : Job) (spec : String) :
    T spec c (callLookup env j c).cache (exCount spec (callLookup env j c).errs) := by
  simp only [callLookup]
  split
  · exact T.refl spec c
  · split
    · exact T.refl spec c
    · rename_i call _ u _
      simp only [exFound_count]
      exact find_T env c u.value spec

theorem exCount_append (spec : String) (a b : List AL.RuleExpr.Diag) : exCount spec (a ++ b) = exCount spec a + exCount spec b := by
  simp [exCount, List.filter_append]

theorem wcCount_append (spec : String) (a b : List AL.Rules.Diag) : wcCount spec (a ++ b) = wcCount spec a + wcCount spec b := by
  simp [wcCount, List.filter_append]

/-- one needed job -/
theorem needsStep_T (env : ProjCall.Env) (lower : String → String) (jobs : List (String × Job)) (job : Job)
    (acc : NeedsOut × List String) (id : Str) (spec : String) :
    ∃ k, T spec acc.1.cache (needsStep env lower jobs job acc id).1.cache k ∧
      exCount spec (needsStep env lower jobs job acc id).1.errs = exCount spec acc.1.errs + k := by
  simp only [needsStep]
  split
  · exact ⟨0, T.refl spec _, rfl⟩
  · split
    · exact ⟨0, T.refl spec _, rfl⟩
    · cases AL.RuleExpr.lookupJob (lower id.value) jobs with
      | none => exact ⟨0, T.refl spec _, rfl⟩
      | some j =>
        simp only
        cases j.workflowCall with
        | none => exact ⟨0, T.refl spec _, rfl⟩
        | some call =>
          simp only
          cases call.uses with
          | none => exact ⟨0, T.refl spec _, rfl⟩
          | some u =>
            simp only
            refine ⟨_, find_T env acc.1.cache u.value spec, ?_⟩
            rw [exCount_append, exFound_count]

theorem needsFold_T (env : ProjCall.Env) (lower : String → String) (jobs : List (String × Job)) (job : Job) (spec : String) :
    ∀ (ids : List Str) (acc : NeedsOut × List String),
      ∃ k, T spec acc.1.cache (ids.foldl (needsStep env lower jobs job) acc).1.cache k ∧
        exCount spec (ids.foldl (needsStep env lower jobs job) acc).1.errs = exCount spec acc.1.errs + k := by
  intro ids
  induction ids with
  | nil => intro acc; exact ⟨0, T.refl spec _, rfl⟩
  | cons id rest ih =>
    intro acc
    obtain ⟨k1, h1, e1⟩ := needsStep_T env lower jobs job acc id spec
    obtain ⟨k2, h2, e2⟩ := ih (needsStep env lower jobs job acc id)
    exact ⟨k1 + k2, by simpa using T.comp h1 h2, by simp only [List.foldl_cons]; omega⟩

theorem needsLookups_T (env : ProjCall.Env) (lower : String → String) (jobs : List (String × Job)) (job : Job) (c : Cache)
    (spec : String) :
    T spec c (needsLookups env lower jobs job c).cache (exCount spec (needsLookups env lower jobs job c).errs) := by
  obtain ⟨k, hT, he⟩ := needsFold_T env lower jobs job spec (job.needs.getD []) (({ cache := c } : NeedsOut), [])
  simp only [needsLookups]
  have : exCount spec ([] : List AL.RuleExpr.Diag) = 0 := rfl
  rw [he]
  simpa [this] using hT

/-- the number of times the defect of `spec` is reported in the part of the visit that starts at a given cache -/
def total (spec : String) (sim : List (String × JobView)) : Nat :=
  (sim.map fun e => wcCount spec e.2.wc + exCount spec e.2.exprErrs).sum

theorem simulateJobs_T (env : ProjCall.Env) (lower : String → String) (jobs : List (String × Job)) (spec : String) :
    ∀ (l : List (String × Job)) (c : Cache), ∃ c', T spec c c' (total spec (simulateJobs env lower jobs l c)) := by
  intro l
  induction l with
  | nil => intro c; exact ⟨c, by simpa [simulateJobs, total] using T.refl spec c⟩
  | cons e rest ih =>
    intro c
    obtain ⟨_, j⟩ := e
    simp only [simulateJobs]
    have h1 := wcJob_T env c j spec
    have h2 := needsLookups_T env lower jobs j (wcJob env c j).1 spec
    have h3 := callLookup_T env (needsLookups env lower jobs j (wcJob env c j).1).cache j spec
    obtain ⟨c', h4⟩ := ih (callLookup env j (needsLookups env lower jobs j (wcJob env c j).1).cache).cache
    refine ⟨c', ?_⟩
    have := T.comp (T.comp (T.comp h1 h2) h3) h4
    simp only [total, List.map_cons, List.sum_cons, exCount_append]
    simp only [total] at this
    have e : wcCount spec (wcJob env c j).2 + exCount spec (needsLookups env lower jobs j (wcJob env c j).1).errs +
        exCount spec (callLookup env j (needsLookups env lower jobs j (wcJob env c j).1).cache).errs +
        (List.map (fun e => wcCount spec e.2.wc + exCount spec e.2.exprErrs)
          (simulateJobs env lower jobs rest (callLookup env j (needsLookups env lower jobs j (wcJob env c j).1).cache).cache)).sum =
      wcCount spec (wcJob env c j).2 + (exCount spec (needsLookups env lower jobs j (wcJob env c j).1).errs +
        exCount spec (callLookup env j (needsLookups env lower jobs j (wcJob env c j).1).cache).errs) +
        (List.map (fun e => wcCount spec e.2.wc + exCount spec e.2.exprErrs)
          (simulateJobs env lower jobs rest (callLookup env j (needsLookups env lower jobs j (wcJob env c j).1).cache).cache)).sum := by omega
    rw [← e]
    exact this

/-- **C10, a callee's own defect is reported once** (one file, any number of jobs that call or need the callee, either
rule asking first): among all diagnostics the project case adds — rule workflow-call's and rule expression's — at most
one reports that the file behind `spec` cannot be read or parsed -/
theorem callee_defect_at_most_once (env : ProjCall.Env) (lower : String → String) (w : Workflow) (spec : String) :
    total spec (simulate env lower w) ≤ 1 := by
  obtain ⟨_, h⟩ := simulateJobs_T env lower (w.jobs.getD []) spec (w.jobs.getD []) (initialCache env w)
  exact h.le_one

/-! ### a called workflow that was linted before (interface already in the cache) vs read from its file -/

/-- two caches that answer every look-up alike -/
def Same (env : ProjCall.Env) (c c' : Cache) : Prop := ∀ spec, answer env c spec = answer env c' spec

/-- after a look-up that both answered alike, both still answer every look-up alike -/
theorem find_same (env : ProjCall.Env) (c c' : Cache) (s : String) (h : Same env c c') :
    (find env c s).2 = (find env c' s).2 ∧ Same env (find env c s).1 (find env c' s).1 := by
  refine ⟨h s, ?_⟩
  intro spec
  have hs := h s
  have hspec := h spec
  simp only [find, answer, cacheGet_remember] at hs hspec ⊢
  by_cases hg2 : skipped env spec = true
  · simp [hg2]
  · simp only [hg2, Bool.false_eq_true, if_false] at hspec ⊢
    by_cases hg : skipped env s = true
    · simpa [hg] using hspec
    · simp only [hg, Bool.false_eq_true, if_false] at hs ⊢
      by_cases e : spec = s
      · subst e
        simp only [if_true]
        cases h1 : cacheGet c spec with
        | some v1 =>
          cases h2 : cacheGet c' spec with
          | some v2 => simp only [h1, h2] at hs ⊢; exact hs
          | none =>
            simp only [h1, h2, diskAnswer, diskEntry] at hs ⊢
            cases v1 <;> cases hd : env.disk spec <;> simp_all [diskAnswer, diskEntry]
        | none =>
          cases h2 : cacheGet c' spec with
          | some v2 =>
            simp only [h1, h2, diskAnswer, diskEntry] at hs ⊢
            cases v2 <;> cases hd : env.disk spec <;> simp_all [diskAnswer, diskEntry]
          | none => simp only [h1, h2]
      · simpa [e] using hspec

theorem wcJob_same (env : ProjCall.Env) (c c' : Cache) (j : Job) (h : Same env c c') :
    (wcJob env c j).2 = (wcJob env c' j).2 ∧ Same env (wcJob env c j).1 (wcJob env c' j).1 := by
  simp only [wcJob]
  split
  · exact ⟨rfl, h⟩
  · split
    · exact ⟨rfl, h⟩
    · rename_i call _ u _
      simp only [wcUses]
      by_cases h1 : (u.value = "" || AL.Rules.containsExpr u) = true
      · simp only [h1, if_true]; exact ⟨trivial, h⟩
      · simp only [h1, Bool.false_eq_true, if_false]
        by_cases h2 : AL.Rules.isLocalCallFormat u.value = true
        · simp only [h2, if_true]
          obtain ⟨e1, e2⟩ := find_same env c c' u.value h
          exact ⟨by rw [e1], e2⟩
        · simp only [h2, Bool.false_eq_true, if_false]
          by_cases h3 : AL.Rules.isRepoCallFormat u.value = true
          · simp only [h3, if_true]; exact ⟨trivial, h⟩
          · simp only [h3, Bool.false_eq_true, if_false]
            by_cases h4 : u.value.startsWith "./" = true
            · simp only [h4, if_true]
              refine ⟨trivial, ?_⟩
              intro spec
              have := h spec
              simp only [answer, cacheGet_put] at this ⊢
              by_cases hg : skipped env spec = true
              · simp [hg]
              · simp only [hg, Bool.false_eq_true, if_false] at this ⊢
                by_cases e : spec = u.value
                · simp [e]
                · simpa [e] using this
            · simp only [h4, Bool.false_eq_true, if_false]; exact ⟨trivial, h⟩

theorem callLookup_same (env : ProjCall.Env) (c c' : Cache) (j : Job) (h : Same env c c') :
    (callLookup env j c).errs = (callLookup env j c').errs ∧ (callLookup env j c).inputs = (callLookup env j c').inputs ∧
    Same env (callLookup env j c).cache (callLookup env j c').cache := by
  simp only [callLookup]
  split
  · exact ⟨rfl, rfl, h⟩
  · split
    · exact ⟨rfl, rfl, h⟩
    · rename_i call _ u _
      obtain ⟨e1, e2⟩ := find_same env c c' u.value h
      exact ⟨by simp only [e1], by simp only [e1], e2⟩

theorem needsStep_same (env : ProjCall.Env) (lower : String → String) (jobs : List (String × Job)) (job : Job)
    (acc acc' : NeedsOut × List String) (id : Str)
    (h : Same env acc.1.cache acc'.1.cache) (he : acc.1.errs = acc'.1.errs) (ho : acc.1.outs = acc'.1.outs) (hd : acc.2 = acc'.2) :
    Same env (needsStep env lower jobs job acc id).1.cache (needsStep env lower jobs job acc' id).1.cache ∧
    (needsStep env lower jobs job acc id).1.errs = (needsStep env lower jobs job acc' id).1.errs ∧
    (needsStep env lower jobs job acc id).1.outs = (needsStep env lower jobs job acc' id).1.outs ∧
    (needsStep env lower jobs job acc id).2 = (needsStep env lower jobs job acc' id).2 := by
  simp only [needsStep, hd]
  split
  · exact ⟨h, he, ho, hd⟩
  · split
    · exact ⟨h, he, ho, hd⟩
    · split
      · exact ⟨h, he, ho, hd⟩
      · split
        · exact ⟨h, he, ho, rfl⟩
        · split
          · exact ⟨h, he, ho, rfl⟩
          · rename_i u _
            obtain ⟨e1, e2⟩ := find_same env acc.1.cache acc'.1.cache u.value h
            exact ⟨e2, by simp only [e1, he], by simp only [e1, ho], rfl⟩

theorem needsFold_same (env : ProjCall.Env) (lower : String → String) (jobs : List (String × Job)) (job : Job) :
    ∀ (ids : List Str) (acc acc' : NeedsOut × List String),
      Same env acc.1.cache acc'.1.cache → acc.1.errs = acc'.1.errs → acc.1.outs = acc'.1.outs → acc.2 = acc'.2 →
      Same env (ids.foldl (needsStep env lower jobs job) acc).1.cache (ids.foldl (needsStep env lower jobs job) acc').1.cache ∧
      (ids.foldl (needsStep env lower jobs job) acc).1.errs = (ids.foldl (needsStep env lower jobs job) acc').1.errs ∧
      (ids.foldl (needsStep env lower jobs job) acc).1.outs = (ids.foldl (needsStep env lower jobs job) acc').1.outs := by
  intro ids
  induction ids with
  | nil => intro acc acc' h he ho _; exact ⟨h, he, ho⟩
  | cons id rest ih =>
    intro acc acc' h he ho hd
    obtain ⟨a, b, c, d⟩ := needsStep_same env lower jobs job acc acc' id h he ho hd
    simp only [List.foldl_cons]
    exact ih _ _ a b c d

theorem simulateJobs_same (env : ProjCall.Env) (lower : String → String) (jobs : List (String × Job)) :
    ∀ (l : List (String × Job)) (c c' : Cache), Same env c c' →
      (simulateJobs env lower jobs l c).map (fun e => (e.1, e.2.wc, e.2.exprErrs, e.2.outs, e.2.inputs)) =
      (simulateJobs env lower jobs l c').map (fun e => (e.1, e.2.wc, e.2.exprErrs, e.2.outs, e.2.inputs)) := by
  intro l
  induction l with
  | nil => intro c c' _; rfl
  | cons e rest ih =>
    intro c c' h
    obtain ⟨_, j⟩ := e
    simp only [simulateJobs, List.map_cons]
    obtain ⟨w1, w2⟩ := wcJob_same env c c' j h
    obtain ⟨n1, n2, n3⟩ := needsFold_same env lower jobs j (j.needs.getD [])
      (({ cache := (wcJob env c j).1 } : NeedsOut), []) (({ cache := (wcJob env c' j).1 } : NeedsOut), []) w2 rfl rfl rfl
    have n1' : Same env (needsLookups env lower jobs j (wcJob env c j).1).cache (needsLookups env lower jobs j (wcJob env c' j).1).cache := n1
    have n2' : (needsLookups env lower jobs j (wcJob env c j).1).errs = (needsLookups env lower jobs j (wcJob env c' j).1).errs := n2
    have n3' : (needsLookups env lower jobs j (wcJob env c j).1).outs = (needsLookups env lower jobs j (wcJob env c' j).1).outs := n3
    obtain ⟨k1, k2, k3⟩ := callLookup_same env _ _ j n1'
    rw [ih _ _ k3, w1, n2', n3', k1, k2]

/-- **C10, "whether a called reusable workflow is itself part of the run"**: a caller gets the same diagnostics — of both
rules, job by job — and the same view of its callees whether the interface of a (well-formed) called workflow is already
in the cache, because that workflow was linted before by the same linter, or has to be read from its file: provided the
cached interface IS what the file gives (AL.Props.C10Meta.document_interface_agrees) -/
theorem prefilled_cache_same_diagnostics (env : ProjCall.Env) (lower : String → String) (w : Workflow)
    (spec : String) (m : Meta) (hdisk : env.disk spec = .ok m) :
    (simulateJobs env lower (w.jobs.getD []) (w.jobs.getD []) (cachePut (initialCache env w) spec (some m))).map
        (fun e => (e.1, e.2.wc, e.2.exprErrs, e.2.outs, e.2.inputs)) =
    (simulate env lower w).map (fun e => (e.1, e.2.wc, e.2.exprErrs, e.2.outs, e.2.inputs)) ∨
    cacheGet (initialCache env w) spec ≠ none := by
  by_cases hself : cacheGet (initialCache env w) spec = none
  · left
    apply simulateJobs_same
    intro s
    simp only [answer, cacheGet_put]
    by_cases hg : skipped env s = true
    · simp [hg]
    · simp only [hg, Bool.false_eq_true, if_false]
      by_cases e : s = spec
      · subst e
        simp [hself, diskAnswer, hdisk]
      · simp [e]
  · right; exact hself

/-! ### a concrete file: three jobs call the same missing workflow, a fourth one needs the first -/

def sc' (value : String) (line col : Nat) : AL.Yaml.Node := .mk .scalar "!!str" value false line col []
def mp' (line col : Nat) (cs : List AL.Yaml.Node) : AL.Yaml.Node := .mk .mapping "!!map" "" false line col cs

/-- `on: push` / `jobs: {a: {uses: ./x.yml}, b: {uses: ./x.yml}, c: {needs: a, uses: ./x.yml}}` -/
def threeCallers : AL.Yaml.Node :=
  .mk .document "" "" false 1 1 [mp' 1 1 [sc' "on" 1 1, sc' "push" 1 5, sc' "jobs" 2 1, mp' 3 3
    [sc' "a" 3 3, mp' 4 5 [sc' "uses" 4 5, sc' "./x.yml" 4 11],
     sc' "b" 5 3, mp' 6 5 [sc' "uses" 6 5, sc' "./x.yml" 6 11],
     sc' "c" 7 3, mp' 8 5 [sc' "needs" 8 5, sc' "a" 8 12, sc' "uses" 9 5, sc' "./x.yml" 9 11]]]]

def exCfg' : AL.PW.Cfg := { lower := AL.PW.asciiLower, atoi := fun _ => none, parseFloat := fun _ => .err }

/-- the defect is reported exactly once, by the workflow-call rule, at the `uses:` of the first job in source order -/
example :
    let w := (AL.PW.parse exCfg' threeCallers).1
    total "./x.yml" (simulate {} AL.PW.asciiLower w) = 1 ∧
    wcRule {} AL.PW.asciiLower w = [⟨⟨4, 11⟩, "workflow-call", "callee-unreadable", ["./x.yml"]⟩] ∧
    (simulate {} AL.PW.asciiLower w).flatMap (·.2.exprErrs) = [] := by decide +kernel

end AL.C10O

/-! ### local actions: the metadata of an action is checked where the action is first used, and only there -/
namespace AL.C10A
open AL AL.Ast AL.ProjAction

def decided (c : Cache) (spec : String) : Bool := (cacheGet c spec).isSome

theorem cacheGet_remember (env : ProjAction.Env) (c : Cache) (s spec : String) :
    cacheGet (remember env c s) spec =
      if (!env.hasProject || !s.startsWith "./") = true then cacheGet c spec
      else if spec = s then (match cacheGet c s with
        | some v => some v
        | none => some (match env.disk s with | .ok m => some m | _ => none))
      else cacheGet c spec := by
  simp only [remember]
  by_cases hg : (!env.hasProject || !s.startsWith "./") = true
  · simp [hg]
  · simp only [hg, Bool.false_eq_true, if_false]
    cases hk : cacheGet c s with
    | some v =>
      by_cases e : spec = s
      · subst e; simp [hk]
      · simp [e]
    | none =>
      simp only [cacheGet, List.find?_cons]
      by_cases e : spec = s
      · subst e; simp only [decide_true, if_true]; cases env.disk spec <;> rfl
      · have : ¬ (s = spec) := fun h => e h.symm
        simp [e, this]

/-- the look-up finds something it has not seen before: the metadata gets checked (or its defect reported) here -/
def isFresh : Found → Bool
  | .found _ false => true
  | .err _ => true
  | _ => false

/-- `n` = 1 when this look-up of `s` is a fresh one and `s = spec`, else 0 -/
def T (spec : String) (c c' : Cache) (n : Nat) : Prop :=
  (decided c spec = true → decided c' spec = true ∧ n = 0) ∧
  (decided c spec = false → n ≤ 1 ∧ (n = 1 → decided c' spec = true))

theorem T.refl (spec : String) (c : Cache) : T spec c c 0 :=
  ⟨fun h => ⟨h, rfl⟩, fun _ => ⟨Nat.zero_le _, fun h => by cases h⟩⟩

theorem T.comp {spec : String} {c c' c'' : Cache} {n m : Nat} (h1 : T spec c c' n) (h2 : T spec c' c'' m) :
    T spec c c'' (n + m) := by
  refine ⟨fun h => ?_, fun h => ?_⟩
  · obtain ⟨hd, hn⟩ := h1.1 h
    obtain ⟨hd', hm⟩ := h2.1 hd
    exact ⟨hd', by omega⟩
  · obtain ⟨hn, hn1⟩ := h1.2 h
    cases hdc : decided c' spec with
    | true =>
      obtain ⟨hd', hm⟩ := h2.1 hdc
      exact ⟨by omega, fun _ => hd'⟩
    | false =>
      obtain ⟨hm, hm1⟩ := h2.2 hdc
      have hn0 : n = 0 := by
        rcases Nat.lt_or_ge n 1 with h0 | h0
        · omega
        · have : n = 1 := by omega
          have := hn1 this
          rw [hdc] at this; cases this
      exact ⟨by omega, fun h => hm1 (by omega)⟩

theorem T.le_one {spec : String} {c c' : Cache} {n : Nat} (h : T spec c c' n) : n ≤ 1 := by
  cases hd : decided c spec with
  | true => have := (h.1 hd).2; omega
  | false => exact (h.2 hd).1

theorem lookup_T (env : ProjAction.Env) (c : Cache) (s spec : String) :
    T spec c (remember env c s) (if isFresh (answer env c s) && decide (s = spec) then 1 else 0) := by
  simp only [T, decided, cacheGet_remember, answer]
  by_cases hg : (!env.hasProject || !s.startsWith "./") = true
  · simp [hg, isFresh]
  · simp only [hg, Bool.false_eq_true, if_false]
    by_cases e : spec = s
    · subst e
      cases hk : cacheGet c spec with
      | some v => cases v <;> simp [hk, isFresh]
      | none => cases hd : env.disk spec <;> simp [hk, hd, isFresh]
    · have e' : ¬ (s = spec) := fun h => e h.symm
      simp [e, e']

/-- the number of fresh look-ups of `spec` by rule action in a run of steps -/
def freshAt (env : ProjAction.Env) (spec : String) (c : Cache) (st : Step) : Nat :=
  match st.exec with
  | .action e =>
    (match e.uses with
     | some u => if !AL.Rules.containsExpr u && u.value.startsWith "./" && isFresh (answer env c u.value) && decide (u.value = spec) then 1 else 0
     | none => 0)
  | _ => 0

theorem actionStep_T (env : ProjAction.Env) (c : Cache) (st : Step) (spec : String) :
    T spec c (actionStep env c st).1 (freshAt env spec c st) := by
  simp only [actionStep, freshAt]
  generalize st.exec = ex
  cases ex with
  | action e =>
    simp only
    generalize e.uses = uo
    cases uo with
    | none => exact T.refl spec c
    | some u =>
      simp only
      by_cases h1 : AL.Rules.containsExpr u = true
      · simp only [h1, if_true, Bool.not_true, Bool.false_and, Bool.false_eq_true, if_false]; exact T.refl spec c
      · by_cases h2 : u.value.startsWith "./" = true
        · have := lookup_T env c u.value spec
          simp only [h1, h2, Bool.false_eq_true, if_false, if_true, Bool.not_false, Bool.true_and]
          exact this
        · simp only [h1, h2, Bool.false_eq_true, if_false, Bool.not_false, Bool.true_and, Bool.false_and]
          exact T.refl spec c
  | run e => exact T.refl spec c
  | none => exact T.refl spec c

theorem exprStep_T (env : ProjAction.Env) (c : Cache) (st : Step) (spec : String) :
    ∃ k, T spec c (exprStep env c st).1 k := by
  simp only [exprStep]
  generalize st.exec = ex
  generalize st.id = ido
  cases ido with
  | none => exact ⟨0, T.refl spec c⟩
  | some i =>
    cases ex with
    | action e =>
      simp only
      generalize e.uses = uo
      cases uo with
      | none => exact ⟨0, T.refl spec c⟩
      | some u =>
        simp only
        by_cases h2 : u.value.startsWith "./" = true
        · simp only [h2, if_true]; exact ⟨_, lookup_T env c u.value spec⟩
        · simp only [h2, Bool.false_eq_true, if_false]; exact ⟨0, T.refl spec c⟩
    | run e => exact ⟨0, T.refl spec c⟩
    | none => exact ⟨0, T.refl spec c⟩

/-- the fresh look-ups of `spec` by rule action over a list of steps, threading the cache through both rules -/
def freshCount (env : ProjAction.Env) (spec : String) : List Step → Cache → Nat
  | [], _ => 0
  | st :: rest, c => freshAt env spec c st + freshCount env spec rest (exprStep env (actionStep env c st).1 st).1

theorem steps_T (env : ProjAction.Env) (spec : String) : ∀ (l : List Step) (c : Cache),
    ∃ c' k, T spec c c' (freshCount env spec l c + k) := by
  intro l
  induction l with
  | nil => intro c; exact ⟨c, 0, T.refl spec c⟩
  | cons st rest ih =>
    intro c
    have h1 := actionStep_T env c st spec
    obtain ⟨k2, h2⟩ := exprStep_T env (actionStep env c st).1 st spec
    obtain ⟨c', k3, h3⟩ := ih (exprStep env (actionStep env c st).1 st).1
    refine ⟨c', k2 + k3, ?_⟩
    have := T.comp (T.comp h1 h2) h3
    simp only [freshCount]
    have e : freshAt env spec c st + k2 + (freshCount env spec rest (exprStep env (actionStep env c st).1 st).1 + k3) =
      freshAt env spec c st + freshCount env spec rest (exprStep env (actionStep env c st).1 st).1 + (k2 + k3) := by omega
    rw [← e]; exact this

/-- **a local action's metadata is checked at most once in a run of steps** (whatever the cache held before): among the
steps that use `spec`, at most one gets the fresh answer that triggers `checkLocalActionMetadata` (or reports that the
metadata file cannot be parsed); every other use checks the inputs only -/
theorem metadata_checked_at_most_once (env : ProjAction.Env) (spec : String) (l : List Step) (c : Cache) :
    freshCount env spec l c ≤ 1 := by
  obtain ⟨_, k, h⟩ := steps_T env spec l c
  have := h.le_one
  omega


namespace AL.C10O
end AL.C10O
