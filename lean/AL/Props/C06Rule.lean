import AL.Props.C05Scope
import AL.Props.C06
import AL.Model.ProjCall
/-
  C06 on AL.RuleExpr (all of rule_expression.go over the real AST): UNKNOWN TYPES ARE SILENT, at workflow level.
  AL.Props.C06 is the checker side (monotonicity of `check` under `Looser` environments); AL.Props.C05Scope says what each
  scope object is. Here: where `any` / loose objects come from in a workflow, and that nothing below them is reported.

    §0  below an unknown type        Acc, below, okPath, below_silent, any_below_silent, okPathObj, loose_below_silent,
                                     eq_any_silent, cmp_any_any_silent, less_any_iff, args_any_fit, call_any_args,
                                     rule_type_checks_accept_any
    §1  action outputs               outputs_unknown_action / _unreadable_local / _run_step / _github_script / _popular / _local,
                                     popular_outputs_shape, UnknownOutputs, stepOutputs_unknown; InJob, AfterSteps, jobCx_inJob,
                                     stepCx_after, jobCxPost_after; steps_outputs_ty, steps_outputs_silent,
                                     steps_outputs_open_silent, steps_outputs_any_below_silent, steps_outputs_strict_iff
    §2  needs of a reusable workflow needs_outputs_ty, needs_outputs_unknown_silent, needs_outputs_known_iff,
                                     callee_outputs_exact, needs_outputs_declared_iff
    §3  matrix                       matrix_var, matrix_open_silent, matrix_unknown_below_silent, matrix_expr_unknown,
                                     matrix_expr_silent, matrix_expr_open_silent, matrix_include_expr_unknown,
                                     matrix_include_expr_silent, matrix_include_entry_silent, rowTy_expr_any, matrix_row_any,
                                     matrix_row_below_silent; check_fromJSON_vars_env, job_strategy_any (fromJSON of a non-literal)
    §4  inputs                       dispatchTy_any_iff, dispatchTy_choice_environment, callTy_any_iff, inputs_any, inputs_prop_ty,
                                     inputs_any_below_silent, untyped_dispatch_input_silent, untyped_call_input_silent,
                                     typedInput_any
    §5  monotonicity                 envOf_looserD, state_mono (the environment is monotone in the per-job state);
                                     envOf_wf, afterSteps_wf, checkMatrix_lit_wf, ruleCx_wf (the representation invariant holds
                                     for every workflow); matrix_looser_mono(_wf), row_replaced_mono(_wf),
                                     include_entry_appended_mono_wf; matrix_replaced_mono_partial (5c: NOT reached in general)

  Where the model (hence actionlint) departs from the LETTER of the property — all proved below on witnesses:
    * the outputs of an unknown action are NOT `any` but `{string => string}`: `steps.<id>.outputs.<name>` is never
      reported, but it is a string, so `steps.<id>.outputs.<name>.<x>` IS reported (`unknown_outputs_deeper_reported`) and so
      is `steps.<id>.outputs.*` (`unknown_outputs_star_reported`); the same for `needs.<job>.outputs` of a reusable workflow
      whose interface is not known;
    * after `.*` the type is `array<any>`: an ARRAY, so a string index below it is reported (`star_then_lit_reported`);
    * an ordering comparison of an unknown value with a value statically known to be bool / null / object / array is
      reported (`any_less_bool_reported`, `less_any_iff`) — the known side is to blame;
    * `choice` / `environment` inputs are strings (known), only an input WITHOUT `type:` is `any`;
    * replacing the WHOLE matrix (or the whole `include:`) by an expression gives the empty open object, which has fewer
      keys than the literal one: not `Looser`-related, so the monotonicity theorem of AL.Props.C06 does not apply (5c).
-/
namespace AL.C06R
open AL AL.Ast AL.Sema AL.RuleExpr AL.C05S
open AL.Visit (St Header mkEnv emptyStrict emptyLoose loosen erase mergeInclude lookup_setProp)

/-! ## 0. below an unknown type nothing is reported -/

/-- one access below a value: `.name`, `['key']`, `[0]`, `.*` -/
inductive Acc where
  | prop (name : String)
  | lit (key : String)
  | num
  | star
deriving Repr, DecidableEq

/-- `e` followed by the accesses `p` -/
def below : E → List Acc → E
  | e, [] => e
  | e, .prop n :: r => below (.objDeref e n) r
  | e, .lit k :: r => below (.index e (.str k)) r
  | e, .num :: r => below (.index e .num) r
  | e, .star :: r => below (.arrDeref e) r

/-- the access paths along which the type stays unknown (`any`, or — after `.*` — `array<any>`): everything, except a
string index directly on the result of `.*` (that IS an array: "index-not-number"). The flag says "the value is the
result of `.*`". -/
def okPath : Bool → List Acc → Bool
  | _, [] => true
  | a, .prop _ :: r => okPath a r
  | _, .star :: r => okPath true r
  | _, .num :: r => okPath false r
  | false, .lit _ :: r => okPath false r
  | true, .lit _ :: _ => false

def unknownTy (a : Bool) : Ty := if a then .arr .any true else .any

/-- **below a value of unknown type no access is reported**, and the type stays unknown -/
theorem below_silent (Γ : AL.Sema.Env) : ∀ (p : List Acc) (e : E) (a : Bool),
    (check Γ e).errs = [] → (check Γ e).ty = unknownTy a → okPath a p = true →
    (check Γ (below e p)).errs = [] ∧ ∃ a', (check Γ (below e p)).ty = unknownTy a' := by
  intro p
  induction p with
  | nil => intro e a h1 h2 _; exact ⟨h1, a, h2⟩
  | cons x r ih =>
    intro e a h1 h2 hp
    cases x with
    | prop n =>
      simp only [below]
      refine ih (.objDeref e n) a ?_ ?_ (by simpa [okPath] using hp)
      · rw [check_objDeref]; simp only [wrap_errs, h1, h2, List.nil_append]
        cases a <;> simp [unknownTy, objDerefTy]
      · rw [check_objDeref]; simp only [wrap_ty, h2]
        cases a <;> simp [unknownTy, objDerefTy]
    | lit k =>
      cases a with
      | true => simp [okPath] at hp
      | false =>
        simp only [below]
        refine ih (.index e (.str k)) false ?_ ?_ (by simpa [okPath] using hp)
        · rw [check_index, check_str]; simp only [wrap_errs, wrap_ty, h1, h2, List.nil_append]
          simp [unknownTy, indexTy]
        · rw [check_index, check_str]; simp only [wrap_ty, h2]
          simp [unknownTy, indexTy]
    | num =>
      simp only [below]
      refine ih (.index e .num) false ?_ ?_ (by cases a <;> simpa [okPath] using hp)
      · rw [check_index, check_num]; simp only [wrap_errs, wrap_ty, h1, h2, List.nil_append]
        cases a <;> simp [unknownTy, indexTy]
      · rw [check_index, check_num]; simp only [wrap_ty, h2]
        cases a <;> simp [unknownTy, indexTy]
    | star =>
      simp only [below]
      refine ih (.arrDeref e) true ?_ ?_ (by cases a <;> simpa [okPath] using hp)
      · rw [check_arrDeref]; simp only [wrap_errs, h1, h2, List.nil_append]
        cases a <;> simp [unknownTy, arrDerefTy]
      · rw [check_arrDeref]; simp only [wrap_ty, h2]
        cases a <;> simp [unknownTy, arrDerefTy]

/-- the form used below: a silent expression of type `any` -/
theorem any_below_silent (Γ : AL.Sema.Env) (e : E) (p : List Acc) (h1 : (check Γ e).errs = []) (h2 : (check Γ e).ty = .any)
    (hp : okPath false p = true) : (check Γ (below e p)).errs = [] :=
  (below_silent Γ p e false h1 h2 hp).1

/-- the accesses along which an OPEN object without properties (`{string => any}`, what `NewEmptyObjectType()` builds)
stays silent: a number index on the object itself is "index-not-string" -/
def okPathObj : List Acc → Bool
  | [] => true
  | .prop _ :: r => okPath false r
  | .lit _ :: r => okPath false r
  | .star :: r => okPath true r
  | .num :: _ => false

/-- **a context that is the empty open object: nothing below it is reported** (`ctx.a.b`, `ctx['k'].x`, `ctx.*.y` …) -/
theorem loose_below_silent (Γ : AL.Sema.Env) (ctx : String) (p : List Acc)
    (hl : Ty.lookup ctx Γ.vars = some (.obj [] (some .any))) (ha : Γ.availCtx.contains (Γ.lower ctx) = true)
    (hctx : ctx ≠ "vars") (hp : okPathObj p = true) : (check Γ (below (.var ctx) p)).errs = [] := by
  obtain ⟨v1, v2⟩ := check_var_ok Γ ctx _ hl ha
  cases p with
  | nil => exact v2
  | cons x r =>
    cases x with
    | prop n =>
      obtain ⟨t, e⟩ := check_ctx_prop Γ ctx n _ hl ha
      refine any_below_silent Γ _ r ?_ ?_ (by simpa [okPathObj] using hp)
      · rw [e]; simp [objDerefTy, Ty.lookup, hctx]
      · rw [t]; simp [objDerefTy, Ty.lookup]
    | lit k =>
      obtain ⟨t, e⟩ := check_ctx_index Γ ctx k _ hl ha
      refine any_below_silent Γ _ r ?_ ?_ (by simpa [okPathObj] using hp)
      · rw [e]; simp [indexTy, Ty.lookup]
      · rw [t]; simp [indexTy, Ty.lookup]
    | num => simp [okPathObj] at hp
    | star =>
      refine (below_silent Γ r (.arrDeref (.var ctx)) true ?_ ?_ (by simpa [okPathObj] using hp)).1
      · rw [check_arrDeref]; simp only [wrap_errs, v1, v2, List.nil_append]; simp [arrDerefTy]
      · rw [check_arrDeref]; simp only [wrap_ty, v1]; simp [arrDerefTy, unknownTy]

/-- `==` / `!=` with an unknown operand on either side is never reported -/
theorem eq_any_silent (Γ : AL.Sema.Env) (op : CmpOp) (hop : op = .eq ∨ op = .notEq) (l r : E)
    (hl : (check Γ l).errs = []) (hr : (check Γ r).errs = [])
    (hany : (check Γ l).ty = .any ∨ (check Γ r).ty = .any) : (check Γ (.cmp op l r)).errs = [] := by
  rw [check_cmp]
  simp only [wrap_errs, hl, hr, List.nil_append]
  have : validCompare op (check Γ l).ty (check Γ r).ty = true := by
    rcases hany with h | h
    · rw [h]; rcases hop with rfl | rfl <;> simp [validCompare]
    · rw [h]; rcases hop with rfl | rfl <;> cases (check Γ l).ty <;> simp [validCompare]
  simp [this]

/-- every comparison of two unknown operands is silent -/
theorem cmp_any_any_silent (Γ : AL.Sema.Env) (op : CmpOp) (l r : E)
    (hl : (check Γ l).errs = []) (hr : (check Γ r).errs = [])
    (h1 : (check Γ l).ty = .any) (h2 : (check Γ r).ty = .any) : (check Γ (.cmp op l r)).errs = [] := by
  rw [check_cmp]
  simp only [wrap_errs, hl, hr, List.nil_append, h1, h2]
  cases op <;> simp [validCompare]

/-- an ordering comparison with an unknown LEFT operand is reported iff the right one is statically null / bool / object /
array (it is the known side that cannot be ordered) -/
theorem less_any_iff (Γ : AL.Sema.Env) (op : CmpOp) (hop : op ≠ .eq ∧ op ≠ .notEq) (l r : E)
    (hl : (check Γ l).errs = []) (hr : (check Γ r).errs = []) (h1 : (check Γ l).ty = .any) :
    (check Γ (.cmp op l r)).errs = [] ↔
      ((check Γ r).ty = .any ∨ (check Γ r).ty = .number ∨ (check Γ r).ty = .string) := by
  rw [check_cmp]
  simp only [wrap_errs, hl, hr, List.nil_append, h1]
  cases op <;> first | exact absurd rfl hop.1 | exact absurd rfl hop.2 | (cases (check Γ r).ty <;> simp [validCompare])

/-- an argument of unknown type fits every parameter: `firstBadArg` (the two assignability loops of `checkFuncSignature`)
finds nothing when every argument is `any` -/
theorem fixed_any (ps : List Ty) : ∀ (as : List Ty) (i : Nat), (∀ a ∈ as, a = .any) → firstBadArg.fixed ps as i = none := by
  induction ps with
  | nil => intro as i _; cases as <;> rfl
  | cons p rest ih =>
    intro as i h
    cases as with
    | nil => rfl
    | cons a r =>
      have ha : a = .any := h a (List.mem_cons_self ..)
      subst ha
      simp only [firstBadArg.fixed, Ty.assignable_any_right, Bool.not_true, Bool.false_eq_true, if_false]
      exact ih r (i + 1) (fun a' ha' => h a' (List.mem_cons_of_mem _ ha'))

theorem rest_any (p : Ty) : ∀ (as : List Ty) (i : Nat), (∀ a ∈ as, a = .any) → firstBadArg.rest p as i = none := by
  intro as
  induction as with
  | nil => intro i _; rfl
  | cons a r ih =>
    intro i h
    have ha : a = .any := h a (List.mem_cons_self ..)
    subst ha
    simp only [firstBadArg.rest, Ty.assignable_any_right, Bool.not_true, Bool.false_eq_true, if_false]
    exact ih (i + 1) (fun a' ha' => h a' (List.mem_cons_of_mem _ ha'))

theorem args_any_fit (params : List Ty) (variadic : Bool) (args : List Ty) (h : ∀ a ∈ args, a = .any) :
    firstBadArg params variadic args = none := by
  unfold firstBadArg
  rw [fixed_any params args 1 h]
  cases variadic with
  | false => rfl
  | true =>
    simp only [if_true]
    cases params.getLast? with
    | none => rfl
    | some p => exact rest_any p _ _ (fun a ha => h a (List.mem_of_mem_drop ha))

/-- … so a call whose arguments are all of unknown type can only be reported for their NUMBER -/
theorem call_any_args (sig : Sig) (args : List Ty) (h : ∀ a ∈ args, a = .any) :
    checkSig sig args = none ∨ ∃ as, checkSig sig args = some (err "arg-count" as) := by
  unfold checkSig
  simp only [args_any_fit sig.params sig.variadic args h]
  split
  · exact Or.inr ⟨_, rfl⟩
  · exact Or.inl rfl

/-- the checks the RULE puts on top of an expression's type all accept `any`: interpolation into a string, "must be
object / array / number", `runs-on`, bool values -/
theorem rule_type_checks_accept_any :
    templateDiags [.any] = [] ∧ isObjOrAny .any = true ∧ isArrOrAny .any = true ∧ isNumOrAny .any = true ∧
    (∀ (p : Ty → Bool) (code what : String) (s : Option Str) (ds : List Diag), p .any = true →
      mustBe p code what s (some .any, ds) = (some .any, ds)) := by
  refine ⟨rfl, rfl, rfl, rfl, fun p code what s ds hp => ?_⟩
  cases s with
  | none => rfl
  | some str => simp [mustBe, hp]

/-! ### §0 on concrete data -/

/-- `matrix : {cfg: any; os: string}` (AL.C06.exΓ'): `matrix.cfg.a.b['k'][0].*.c.*` is silent -/
example : (check AL.C06.exΓ' (below (.objDeref (.var "matrix") "cfg")
    [.prop "a", .prop "b", .lit "k", .num, .star, .prop "c", .star])).errs = [] :=
  any_below_silent _ _ _ (by check_eval [AL.C06.exΓ', AL.C06.exΓ]) (by check_eval [AL.C06.exΓ', AL.C06.exΓ]) rfl

/-- after `.*` the value is an ARRAY (`array<any>`): a string index on it is reported — not an unknown type any more -/
theorem star_then_lit_reported :
    (check AL.C06.exΓ' (below (.objDeref (.var "matrix") "cfg") [.star, .lit "k"])).errs =
      [err "index-not-number" ["string"]] := by
  check_eval [AL.C06.exΓ', AL.C06.exΓ, below, tyStr]

/-- `matrix.cfg < true` with `matrix.cfg : any` IS reported: `true` can never be ordered -/
theorem any_less_bool_reported :
    (check AL.C06.exΓ' (.cmp .less (.objDeref (.var "matrix") "cfg") .bool)).errs =
      [err "bad-compare" ["any", "bool", "<"]] := by
  check_eval [AL.C06.exΓ', AL.C06.exΓ, tyStr, cmpStr]

example : (check AL.C06.exΓ' (.cmp .less (.objDeref (.var "matrix") "cfg") .num)).errs = [] :=
  (less_any_iff _ .less ⟨by decide, by decide⟩ _ _ (by check_eval [AL.C06.exΓ', AL.C06.exΓ]) (by check_eval [])
    (by check_eval [AL.C06.exΓ', AL.C06.exΓ])).2 (Or.inr (Or.inl (by check_eval [])))

example : (check AL.C06.exΓ' (.cmp .eq .bool (.objDeref (.var "matrix") "cfg"))).errs = [] :=
  eq_any_silent _ .eq (Or.inl rfl) _ _ (by check_eval []) (by check_eval [AL.C06.exΓ', AL.C06.exΓ])
    (Or.inr (by check_eval [AL.C06.exΓ', AL.C06.exΓ]))

example : (check AL.C06.exΓ' (.cmp .greaterEq (.objDeref (.var "matrix") "cfg") (.objDeref (.var "matrix") "cfg"))).errs = [] :=
  cmp_any_any_silent _ _ _ _ (by check_eval [AL.C06.exΓ', AL.C06.exΓ]) (by check_eval [AL.C06.exΓ', AL.C06.exΓ])
    (by check_eval [AL.C06.exΓ', AL.C06.exΓ]) (by check_eval [AL.C06.exΓ', AL.C06.exΓ])

example : firstBadArg [.string, .arr .string false] true [.any, .any, .any] = none :=
  args_any_fit _ _ _ (by simp)

/-- an environment with the open `needs` of AL.C05.exΓ: `needs.*.x`, `needs['j'].outputs.o` are silent -/
example : (check AL.C05.exΓ (below (.var "needs") [.star, .prop "x"])).errs = [] ∧
    (check AL.C05.exΓ (below (.var "needs") [.lit "j", .prop "outputs", .prop "o"])).errs = [] :=
  ⟨loose_below_silent _ "needs" _ rfl rfl (by decide) rfl, loose_below_silent _ "needs" _ rfl rfl (by decide) rfl⟩

/-! ## 1. the outputs of an action that is not known

`getActionOutputsType`: a `run:` step, an action that is neither bundled nor a readable local action → `{string => string}`;
`actions/github-script` and the bundled actions whose outputs are not listed → the empty open object; a bundled action →
a STRICT object with exactly its outputs. -/

theorem outputs_run_step (lo : String → Option Ty) : actionOutputsTy lo none = .obj [] (some .string) := rfl

/-- an action that is not local, not github-script and not in the bundled table -/
theorem outputs_unknown_action (lo : String → Option Ty) (s : Str) (h1 : s.value.startsWith "./" = false)
    (h2 : s.value.startsWith "actions/github-script@" = false) (h3 : popularOutputs s.value = none) :
    actionOutputsTy lo (some s) = .obj [] (some .string) := by
  simp [actionOutputsTy, h1, h2, h3, mapOfString]

/-- a local action whose metadata the project does not have (no project, no `action.yml`, broken `action.yml`) -/
theorem outputs_unreadable_local (lo : String → Option Ty) (s : Str) (h1 : s.value.startsWith "./" = true)
    (h2 : lo s.value = none) : actionOutputsTy lo (some s) = .obj [] (some .string) := by
  simp [actionOutputsTy, h1, h2, mapOfString]

/-- … and one it has: whatever the metadata says -/
theorem outputs_local (lo : String → Option Ty) (s : Str) (t : Ty) (h1 : s.value.startsWith "./" = true)
    (h2 : lo s.value = some t) : actionOutputsTy lo (some s) = t := by
  simp [actionOutputsTy, h1, h2]

theorem outputs_github_script (lo : String → Option Ty) (s : Str) (h1 : s.value.startsWith "./" = false)
    (h2 : s.value.startsWith "actions/github-script@" = true) : actionOutputsTy lo (some s) = .obj [] (some .any) := by
  simp [actionOutputsTy, h1, h2, emptyLoose]

theorem outputs_popular (lo : String → Option Ty) (s : Str) (t : Ty) (h1 : s.value.startsWith "./" = false)
    (h2 : s.value.startsWith "actions/github-script@" = false) (h3 : popularOutputs s.value = some t) :
    actionOutputsTy lo (some s) = t := by
  simp [actionOutputsTy, h1, h2, h3]

/-- **a bundled action**: the empty open object when the table says "outputs unknown" (`SkipOutputs`), else a STRICT object
whose keys are exactly the (lower-cased) output names of the table entry, all strings -/
theorem popular_outputs_shape (spec : String) (t : Ty) (h : popularOutputs spec = some t) :
    t = .obj [] (some .any) ∨
    ∃ ps ins outs dep, t = .obj ps none ∧ (∃ ch ∈ AL.Gen.popularChunks, (spec, ins, outs, dep, false) ∈ ch) ∧
      ∀ name, Ty.lookup name ps = if name ∈ outs.map (fun o => AL.PW.asciiLower o.1) then some .string else none := by
  unfold popularOutputs at h
  cases hf : AL.Gen.popularChunks.findSome? (fun ch => ch.find? (·.1 = spec)) with
  | none => rw [hf] at h; cases h
  | some e =>
    obtain ⟨sp, ins, outs, dep, skip⟩ := e
    rw [hf] at h
    simp only at h
    cases skip with
    | true => left; simp only [if_true, Option.some.injEq] at h; rw [← h]; rfl
    | false =>
      right
      simp only [Bool.false_eq_true, if_false, Option.some.injEq] at h
      obtain ⟨ch, hch, hfind⟩ := List.exists_of_findSome?_eq_some hf
      have hm := List.mem_of_find?_eq_some hfind
      have hp := List.find?_some hfind
      simp only [decide_eq_true_eq] at hp
      subst hp
      refine ⟨_, ins, outs, dep, h.symm, ⟨ch, hch, hm⟩, fun name => ?_⟩
      have := lookup_foldKeys (fun o : String × String => AL.PW.asciiLower o.1) name outs []
      simpa [Ty.lookup] using this

/-- the outputs type of a step: it depends on the step's `uses:` and the project's local actions only -/
def stepOutputs (proj : ProjView) (s : Step) : Ty :=
  actionOutputsTy proj.actionOutputs (match s.exec with | .action e => e.uses | _ => none)

theorem stepM_outputs (cx : Cx) (s : Step) : (AL.C05E.stepM cx s).outputs = stepOutputs cx.proj s := by
  simp only [AL.C05E.stepM, stepOutputs]
  cases s.exec <;> rfl

/-- a step "of unknown outputs": a `run:` step, or `uses:` of an action that is neither bundled, nor github-script, nor a
local action whose metadata the project has -/
def UnknownOutputs (proj : ProjView) (s : Step) : Prop :=
  match s.exec with
  | .action e =>
    (match e.uses with
     | some u =>
       (u.value.startsWith "./" = true ∧ proj.actionOutputs u.value = none) ∨
       (u.value.startsWith "./" = false ∧ u.value.startsWith "actions/github-script@" = false ∧ popularOutputs u.value = none)
     | none => True)
  | _ => True

theorem stepOutputs_unknown (proj : ProjView) (s : Step) (h : UnknownOutputs proj s) :
    stepOutputs proj s = .obj [] (some .string) := by
  unfold UnknownOutputs at h
  unfold stepOutputs
  cases he : s.exec with
  | none => rfl
  | run e => rfl
  | action e =>
    rw [he] at h
    simp only at h ⊢
    cases hu : e.uses with
    | none => rfl
    | some u =>
      rw [hu] at h
      simp only at h
      rcases h with ⟨h1, h2⟩ | ⟨h1, h2, h3⟩
      · exact outputs_unreadable_local _ u h1 h2
      · exact outputs_unknown_action _ u h1 h2 h3

/-! ### what the checker makes of `ctx.<j>.outputs.<name>` -/

theorem objDerefTy_found (Γ : AL.Sema.Env) (b : Bool) (name : String) (ps : List (String × Ty)) (m : Option Ty) (pt : Ty)
    (h : Ty.lookup name ps = some pt) : objDerefTy Γ b name (.obj ps m) = (pt, []) := by
  simp only [objDerefTy, h]

/-- `ctx.<j>.outputs` where `ctx` is an object (strict or not) that has `<j>`, an object that has `outputs` -/
theorem check_ctx_j_outputs (Γ : AL.Sema.Env) (ctx j : String) (ps js : List (String × Ty)) (m mj : Option Ty) (outs : Ty)
    (hl : Ty.lookup ctx Γ.vars = some (.obj ps m)) (ha : Γ.availCtx.contains (Γ.lower ctx) = true)
    (hj : Ty.lookup j ps = some (.obj js mj)) (ho : Ty.lookup "outputs" js = some outs) :
    (check Γ (.objDeref (.objDeref (.var ctx) j) "outputs")).errs = [] ∧
    (check Γ (.objDeref (.objDeref (.var ctx) j) "outputs")).ty = outs := by
  obtain ⟨t1, e1⟩ := check_ctx_prop Γ ctx j _ hl ha
  rw [objDerefTy_found Γ _ j ps m _ hj] at t1 e1
  obtain ⟨t2, e2⟩ := check_prop_of Γ (.objDeref (.var ctx) j) "outputs" _ rfl t1 e1
  rw [objDerefTy_found Γ _ "outputs" js mj _ ho] at t2 e2
  exact ⟨e2, t2⟩

/-- a property of an OPEN object that is not a bare variable: never reported; its type is the declared one, else the
mapped type -/
theorem check_prop_of_open (Γ : AL.Sema.Env) (recv : E) (name : String) (qs : List (String × Ty)) (mt : Ty)
    (hv : isVarsVar recv = false) (h1 : (check Γ recv).errs = []) (h2 : (check Γ recv).ty = .obj qs (some mt)) :
    (check Γ (.objDeref recv name)).errs = [] ∧ (check Γ (.objDeref recv name)).ty = (Ty.lookup name qs).getD mt := by
  obtain ⟨t, e⟩ := check_prop_of Γ recv name _ hv h2 h1
  rw [t, e]
  cases h : Ty.lookup name qs <;> simp [objDerefTy, h]

/-- … of a STRICT one: reported iff not declared -/
theorem check_prop_of_strict (Γ : AL.Sema.Env) (recv : E) (name : String) (os : List (String × Ty))
    (hv : isVarsVar recv = false) (h1 : (check Γ recv).errs = []) (h2 : (check Γ recv).ty = .obj os none) :
    ((check Γ (.objDeref recv name)).errs ≠ [] ↔ Ty.lookup name os = none) ∧
    (AL.C05.undefinedProp name (check Γ (.objDeref recv name)) ↔ Ty.lookup name os = none) := by
  obtain ⟨_, e⟩ := check_prop_of Γ recv name _ hv h2 h1
  unfold AL.C05.undefinedProp
  rw [e]
  cases h : Ty.lookup name os with
  | none =>
    rw [objDerefTy_strict_none Γ _ name os h]
    exact ⟨by simp, fun _ => rfl, fun _ => ⟨[tyStr (.obj os none)], List.mem_singleton.2 rfl⟩⟩
  | some pt =>
    rw [objDerefTy_strict_some Γ _ name os pt h]
    exact ⟨by simp, fun ⟨_, hm⟩ => by simp at hm, fun h' => nomatch h'⟩

/-! ### the rule's state inside a job -/

/-- `cx` is the rule's state somewhere inside job `n`: `needs`, `matrix`, the header and the folding are the job's -/
structure InJob (cx0 : Cx) (isNum : IsNumber) (jobs : List (String × Job)) (n : Job) (cx : Cx) : Prop where
  needs : cx.st.needsTy = some (needsTy (cx0.proj.jobView n.id.value).outs cx0.lower jobs n)
  matrix : cx.st.matrixTy = (jobCx cx0 isNum jobs n).st.matrixTy
  hdr : cx.hdr = cx0.hdr
  lower : cx.lower = cx0.lower

/-- … after the steps `pre` of the job were visited: `steps` is built from exactly those -/
structure AfterSteps (cx0 : Cx) (isNum : IsNumber) (jobs : List (String × Job)) (n : Job) (pre : List Step) (cx : Cx) : Prop
    extends InJob cx0 isNum jobs n cx where
  steps : cx.st.stepsTy = some (stepsAfter (jobCxS cx0 isNum jobs n) pre)

/-- `VisitJobPre` (the job's own strings) -/
theorem jobCx_inJob (cx0 : Cx) (isNum : IsNumber) (jobs : List (String × Job)) (n : Job) :
    InJob cx0 isNum jobs n (jobCx cx0 isNum jobs n) := by
  obtain ⟨a, _, _, c, d, _, _⟩ := jobCx_scope cx0 isNum jobs n
  exact ⟨a, rfl, c, d⟩

/-- the step that follows the steps `pre` -/
theorem stepCx_after (cx0 : Cx) (isNum : IsNumber) (jobs : List (String × Job)) (n : Job) (pre : List Step) :
    AfterSteps cx0 isNum jobs n pre (stepCx cx0 isNum jobs n pre) := by
  have hs : (stepCx cx0 isNum jobs n pre).st.stepsTy = some (stepsAfter (jobCxS cx0 isNum jobs n) pre) := by
    unfold stepCx; rw [(visitSteps_stepsTy pre _).1]; rfl
  obtain ⟨a, b, c, d⟩ := AL.C05E.visitSteps_scope pre (jobCxS cx0 isNum jobs n)
  obtain ⟨_, b', a', c', d', _⟩ := jobCxS_scope cx0 isNum jobs n
  refine ⟨⟨?_, ?_, ?_, ?_⟩, hs⟩
  · show (visitSteps (jobCxS cx0 isNum jobs n) pre).1.st.needsTy = _
    rw [b, b']; exact (jobCx_scope cx0 isNum jobs n).1
  · show (visitSteps (jobCxS cx0 isNum jobs n) pre).1.st.matrixTy = _
    rw [a, a']
  · show (visitSteps (jobCxS cx0 isNum jobs n) pre).1.hdr = _
    rw [c, c']
  · show (visitSteps (jobCxS cx0 isNum jobs n) pre).1.lower = _
    rw [d, d']

/-- `VisitJobPost` (the job's `outputs` and `environment`): after ALL steps -/
theorem jobCxPost_after (cx0 : Cx) (isNum : IsNumber) (jobs : List (String × Job)) (n : Job) :
    AfterSteps cx0 isNum jobs n (n.steps.getD []) (jobCxPost cx0 isNum jobs n) :=
  stepCx_after cx0 isNum jobs n (n.steps.getD [])

/-! ### `steps.<id>.outputs` -/

theorem stepEntry_outputs (cx : Cx) (s : Step) :
    ∃ js, stepEntry cx s = .obj js none ∧ Ty.lookup "outputs" js = some (stepOutputs cx.proj s) := by
  refine ⟨_, rfl, ?_⟩
  rw [← stepM_outputs]
  simp [Ty.lookup]

/-- **`steps.<x>.outputs` after the steps `pre`, one of which has the id `x`**: never reported (whether or not `steps` was
opened by an id with a placeholder), and its type is the outputs type of A step of `pre` with that id -/
theorem steps_outputs_ty (cx0 : Cx) (isNum : IsNumber) (jobs : List (String × Job)) (n : Job) (pre : List Step) (cx : Cx)
    (hcx : AfterSteps cx0 isNum jobs n pre cx) (key x : String)
    (ha : (AL.Visit.availability key).1.contains (cx0.lower "steps") = true)
    (hex : ∃ s ∈ pre, ∃ id, s.id = some id ∧ cx0.lower id.value = x) :
    ∃ s ∈ pre, (∃ id, s.id = some id ∧ cx0.lower id.value = x) ∧
      (check (envOf cx key) (.objDeref (.objDeref (.var "steps") x) "outputs")).errs = [] ∧
      (check (envOf cx key) (.objDeref (.objDeref (.var "steps") x) "outputs")).ty = stepOutputs cx0.proj s := by
  have hlowS : (jobCxS cx0 isNum jobs n).lower = cx0.lower := (jobCxS_scope cx0 isNum jobs n).2.2.2.2.1
  have hprojS : (jobCxS cx0 isNum jobs n).proj = cx0.proj := (jobCxS_scope cx0 isNum jobs n).2.2.2.2.2
  obtain ⟨ps, m, hobj⟩ := addStepFold_obj (jobCxS cx0 isNum jobs n).lower
    (pre.map (AL.C05E.stepM (jobCxS cx0 isNum jobs n))) [] none
  have hobj' : stepsAfter (jobCxS cx0 isNum jobs n) pre = .obj ps m := hobj
  have hk := (stepsAfter_keys (jobCxS cx0 isNum jobs n) pre x).2 (by rw [hlowS]; exact hex)
  obtain ⟨t, ht⟩ := Option.isSome_iff_exists.1 hk
  obtain ⟨s, hs, id, hid, hx, hte⟩ := stepsAfter_entry (jobCxS cx0 isNum jobs n) pre x t ht
  rw [hobj'] at ht
  simp only [propsOf] at ht
  obtain ⟨js, hjs, hout⟩ := stepEntry_outputs (jobCxS cx0 isNum jobs n) s
  rw [hprojS] at hout
  have hl : Ty.lookup "steps" (envOf cx key).vars = some (.obj ps m) := by
    rw [envOf_vars, (scope_st _ _ _ _ _).2.1, hcx.steps, hobj']; rfl
  have hav : (envOf cx key).availCtx.contains ((envOf cx key).lower "steps") = true := by
    show (AL.Visit.availability key).1.contains (cx.lower "steps") = true
    rw [hcx.lower]; exact ha
  rw [hte, hjs] at ht
  obtain ⟨e, ty⟩ := check_ctx_j_outputs (envOf cx key) "steps" x ps js m none _ hl hav ht hout
  exact ⟨s, hs, ⟨id, hid, by rw [← hlowS]; exact hx⟩, e, ty⟩

/-- **a step whose action is not known: `steps.<id>.outputs.<anything>` is never reported** in a later step of the job
(`cx = stepCx …`) or in the job's outputs (`cx = jobCxPost …`) — for every name; it is a string -/
theorem steps_outputs_silent (cx0 : Cx) (isNum : IsNumber) (jobs : List (String × Job)) (n : Job) (pre : List Step) (cx : Cx)
    (hcx : AfterSteps cx0 isNum jobs n pre cx) (key x name : String)
    (ha : (AL.Visit.availability key).1.contains (cx0.lower "steps") = true)
    (hex : ∃ s ∈ pre, ∃ id, s.id = some id ∧ cx0.lower id.value = x)
    (hall : ∀ s ∈ pre, ∀ id, s.id = some id → cx0.lower id.value = x → UnknownOutputs cx0.proj s) :
    (check (envOf cx key) (.objDeref (.objDeref (.objDeref (.var "steps") x) "outputs") name)).errs = [] ∧
    (check (envOf cx key) (.objDeref (.objDeref (.objDeref (.var "steps") x) "outputs") name)).ty = .string := by
  obtain ⟨s, hs, ⟨id, hid, hx⟩, e, ty⟩ := steps_outputs_ty cx0 isNum jobs n pre cx hcx key x ha hex
  rw [stepOutputs_unknown cx0.proj s (hall s hs id hid hx)] at ty
  have := check_prop_of_open (envOf cx key) _ name [] .string rfl e ty
  simpa [Ty.lookup] using this

/-- the general form: every step with that id has SOME open outputs object (`{string => string}`, the empty open object of
github-script, an open object from a local action's metadata): no output name is reported -/
theorem steps_outputs_open_silent (cx0 : Cx) (isNum : IsNumber) (jobs : List (String × Job)) (n : Job) (pre : List Step) (cx : Cx)
    (hcx : AfterSteps cx0 isNum jobs n pre cx) (key x name : String)
    (ha : (AL.Visit.availability key).1.contains (cx0.lower "steps") = true)
    (hex : ∃ s ∈ pre, ∃ id, s.id = some id ∧ cx0.lower id.value = x)
    (hall : ∀ s ∈ pre, ∀ id, s.id = some id → cx0.lower id.value = x → ∃ qs mt, stepOutputs cx0.proj s = .obj qs (some mt)) :
    (check (envOf cx key) (.objDeref (.objDeref (.objDeref (.var "steps") x) "outputs") name)).errs = [] := by
  obtain ⟨s, hs, ⟨id, hid, hx⟩, e, ty⟩ := steps_outputs_ty cx0 isNum jobs n pre cx hcx key x ha hex
  obtain ⟨qs, mt, hq⟩ := hall s hs id hid hx
  rw [hq] at ty
  exact (check_prop_of_open (envOf cx key) _ name qs mt rfl e ty).1

/-- **outputs that are the empty open object** (`actions/github-script`, a bundled action whose outputs are not listed):
`steps.<id>.outputs.<name>` is `any`, and NOTHING below it is reported (`.x.y`, `['k']`, `.*`, …) -/
theorem steps_outputs_any_below_silent (cx0 : Cx) (isNum : IsNumber) (jobs : List (String × Job)) (n : Job) (pre : List Step)
    (cx : Cx) (hcx : AfterSteps cx0 isNum jobs n pre cx) (key x name : String) (p : List Acc)
    (ha : (AL.Visit.availability key).1.contains (cx0.lower "steps") = true)
    (hex : ∃ s ∈ pre, ∃ id, s.id = some id ∧ cx0.lower id.value = x)
    (hall : ∀ s ∈ pre, ∀ id, s.id = some id → cx0.lower id.value = x → stepOutputs cx0.proj s = .obj [] (some .any))
    (hp : okPath false p = true) :
    (check (envOf cx key) (below (.objDeref (.objDeref (.objDeref (.var "steps") x) "outputs") name) p)).errs = [] := by
  obtain ⟨s, hs, ⟨id, hid, hx⟩, e, ty⟩ := steps_outputs_ty cx0 isNum jobs n pre cx hcx key x ha hex
  rw [hall s hs id hid hx] at ty
  obtain ⟨e', ty'⟩ := check_prop_of_open (envOf cx key) _ name [] .any rfl e ty
  exact any_below_silent _ _ p e' (by simpa [Ty.lookup] using ty') hp

/-- **contrast — a step whose action has STRICT outputs** (a bundled action, see `popular_outputs_shape`; a local action
with metadata): `steps.<id>.outputs.<name>` is reported iff `<name>` is not one of them -/
theorem steps_outputs_strict_iff (cx0 : Cx) (isNum : IsNumber) (jobs : List (String × Job)) (n : Job) (pre : List Step) (cx : Cx)
    (hcx : AfterSteps cx0 isNum jobs n pre cx) (key x name : String) (os : List (String × Ty))
    (ha : (AL.Visit.availability key).1.contains (cx0.lower "steps") = true)
    (hex : ∃ s ∈ pre, ∃ id, s.id = some id ∧ cx0.lower id.value = x)
    (hall : ∀ s ∈ pre, ∀ id, s.id = some id → cx0.lower id.value = x → stepOutputs cx0.proj s = .obj os none) :
    ((check (envOf cx key) (.objDeref (.objDeref (.objDeref (.var "steps") x) "outputs") name)).errs ≠ [] ↔
      Ty.lookup name os = none) ∧
    (AL.C05.undefinedProp name (check (envOf cx key) (.objDeref (.objDeref (.objDeref (.var "steps") x) "outputs") name)) ↔
      Ty.lookup name os = none) := by
  obtain ⟨s, hs, ⟨id, hid, hx⟩, e, ty⟩ := steps_outputs_ty cx0 isNum jobs n pre cx hcx key x ha hex
  rw [hall s hs id hid hx] at ty
  exact check_prop_of_strict (envOf cx key) _ name os rfl e ty

/-- **the outputs of an unknown action are strings, not `any`**: one level deeper IS reported — `steps.<id>.outputs.<name>.<y>`
gets "receiver of object dereference must be object but got string" (the type is KNOWN to be string) -/
theorem unknown_outputs_deeper_reported (cx0 : Cx) (isNum : IsNumber) (jobs : List (String × Job)) (n : Job) (pre : List Step)
    (cx : Cx) (hcx : AfterSteps cx0 isNum jobs n pre cx) (key x name y : String)
    (ha : (AL.Visit.availability key).1.contains (cx0.lower "steps") = true)
    (hex : ∃ s ∈ pre, ∃ id, s.id = some id ∧ cx0.lower id.value = x)
    (hall : ∀ s ∈ pre, ∀ id, s.id = some id → cx0.lower id.value = x → UnknownOutputs cx0.proj s) :
    (check (envOf cx key) (.objDeref (.objDeref (.objDeref (.objDeref (.var "steps") x) "outputs") name) y)).errs =
      [err "deref-not-object" [y, "string"]] := by
  obtain ⟨e, ty⟩ := steps_outputs_silent cx0 isNum jobs n pre cx hcx key x name ha hex hall
  obtain ⟨_, e'⟩ := check_prop_of (envOf cx key) _ y _ rfl ty e
  rw [e']
  simp [objDerefTy, tyStr]

/-- … and so is `steps.<id>.outputs.*` ("elements of object at receiver of object filtering must be object") -/
theorem unknown_outputs_star_reported (cx0 : Cx) (isNum : IsNumber) (jobs : List (String × Job)) (n : Job) (pre : List Step)
    (cx : Cx) (hcx : AfterSteps cx0 isNum jobs n pre cx) (key x : String)
    (ha : (AL.Visit.availability key).1.contains (cx0.lower "steps") = true)
    (hex : ∃ s ∈ pre, ∃ id, s.id = some id ∧ cx0.lower id.value = x)
    (hall : ∀ s ∈ pre, ∀ id, s.id = some id → cx0.lower id.value = x → UnknownOutputs cx0.proj s) :
    (check (envOf cx key) (.arrDeref (.objDeref (.objDeref (.var "steps") x) "outputs"))).errs =
      [err "filter-elems-not-object" ["string", "{string => string}"]] := by
  obtain ⟨s, hs, ⟨id, hid, hx⟩, e, ty⟩ := steps_outputs_ty cx0 isNum jobs n pre cx hcx key x ha hex
  rw [stepOutputs_unknown cx0.proj s (hall s hs id hid hx)] at ty
  rw [check_arrDeref]
  simp only [wrap_errs, e, ty, List.nil_append]
  simp [arrDerefTy, tyStr]

/-! ### §1 on concrete data: `U` (unknown action), `cache` (bundled), `gs` (github-script), `loc` (local), `r` (run) -/

private def p0 : AL.Yaml.Pos := ⟨1, 1⟩
private def str (v : String) : Str := ⟨v, false, p0⟩
private def noNum : IsNumber := fun _ => false
def keyRun : String := "jobs.<job_id>.steps.run"
def keyOut : String := "jobs.<job_id>.outputs.<output_id>"

def stU : Step := { id := some (str "U"), exec := .action { uses := some (str "some/unknown-action@v1") }, pos := p0 }
def stC : Step := { id := some (str "cache"), exec := .action { uses := some (str "actions/cache@v4") }, pos := p0 }
def stG : Step := { id := some (str "gs"), exec := .action { uses := some (str "actions/github-script@v7") }, pos := p0 }
def stL : Step := { id := some (str "loc"), exec := .action { uses := some (str "./my-action") }, pos := p0 }
def stR : Step := { id := some (str "r"), exec := .run { run := some (str "echo") }, pos := p0 }
def stLast : Step := { exec := .run { run := some (str "echo ${{ steps.u.outputs.x }}") }, pos := p0 }
def exPre : List Step := [stU, stC, stG, stL, stR]
def jEx : Job := { id := str "j", steps := some (exPre ++ [stLast]), pos := p0 }

theorem av_steps_run : (AL.Visit.availability keyRun).1.contains (cxL.lower "steps") = true := by decide +kernel
theorem av_steps_out : (AL.Visit.availability keyOut).1.contains (cxL.lower "steps") = true := by decide +kernel

theorem stU_unknown : UnknownOutputs cxL.proj stU :=
  Or.inr ⟨by decide +kernel, by decide +kernel, Option.isNone_iff_eq_none.1 (by decide +kernel)⟩
theorem stL_unknown : UnknownOutputs cxL.proj stL := Or.inl ⟨by decide +kernel, rfl⟩
theorem stR_unknown : UnknownOutputs cxL.proj stR := trivial

/-- `actions/cache@v4` is bundled: STRICT outputs `{cache-hit: string}` -/
theorem stC_outputs : stepOutputs cxL.proj stC = .obj [("cache-hit", .string)] none := tyEq_sound _ _ (by decide +kernel)
theorem stG_outputs : stepOutputs cxL.proj stG = .obj [] (some .any) := tyEq_sound _ _ (by decide +kernel)

example : ∃ t, popularOutputs "actions/cache@v4" = some t := Option.isSome_iff_exists.1 (by decide +kernel)

/-- the hypotheses about `exPre`, once for each id -/
theorem exPre_id (x : String) (s0 : Step) (i0 : Str) (hs0 : s0 ∈ exPre) (hi0 : s0.id = some i0) (hx0 : cxL.lower i0.value = x)
    (huniq : ∀ s ∈ exPre, ∀ id, s.id = some id → cxL.lower id.value = x → s = s0) (P : Step → Prop) (h0 : P s0) :
    (∃ s ∈ exPre, ∃ id, s.id = some id ∧ cxL.lower id.value = x) ∧
    (∀ s ∈ exPre, ∀ id, s.id = some id → cxL.lower id.value = x → P s) :=
  ⟨⟨s0, hs0, i0, hi0, hx0⟩, fun s hs id hid hx => by rw [huniq s hs id hid hx]; exact h0⟩

theorem uniq_u : ∀ s ∈ exPre, ∀ id, s.id = some id → cxL.lower id.value = "u" → s = stU := by
  intro s hs id hid hx
  simp only [exPre, List.mem_cons, List.not_mem_nil, or_false] at hs
  rcases hs with rfl | rfl | rfl | rfl | rfl
  · rfl
  all_goals (cases hid; exact absurd hx (by decide +kernel))

theorem uniq_cache : ∀ s ∈ exPre, ∀ id, s.id = some id → cxL.lower id.value = "cache" → s = stC := by
  intro s hs id hid hx
  simp only [exPre, List.mem_cons, List.not_mem_nil, or_false] at hs
  rcases hs with rfl | rfl | rfl | rfl | rfl
  · cases hid; exact absurd hx (by decide +kernel)
  · rfl
  all_goals (cases hid; exact absurd hx (by decide +kernel))

theorem uniq_gs : ∀ s ∈ exPre, ∀ id, s.id = some id → cxL.lower id.value = "gs" → s = stG := by
  intro s hs id hid hx
  simp only [exPre, List.mem_cons, List.not_mem_nil, or_false] at hs
  rcases hs with rfl | rfl | rfl | rfl | rfl
  · cases hid; exact absurd hx (by decide +kernel)
  · cases hid; exact absurd hx (by decide +kernel)
  · rfl
  all_goals (cases hid; exact absurd hx (by decide +kernel))

/-- in the step after `U` (unknown action), `cache`, `gs`, `loc`, `r`: **`steps.u.outputs.<anything>` is not reported**, for
every name; it is a string, so `steps.u.outputs.x.y` and `steps.u.outputs.*` ARE reported -/
example (name : String) :
    (check (envOf (stepCx cxL noNum [] jEx exPre) keyRun)
      (.objDeref (.objDeref (.objDeref (.var "steps") "u") "outputs") name)).errs = [] ∧
    (check (envOf (stepCx cxL noNum [] jEx exPre) keyRun)
      (.objDeref (.objDeref (.objDeref (.objDeref (.var "steps") "u") "outputs") name) "y")).errs =
        [err "deref-not-object" ["y", "string"]] ∧
    (check (envOf (stepCx cxL noNum [] jEx exPre) keyRun)
      (.arrDeref (.objDeref (.objDeref (.var "steps") "u") "outputs"))).errs =
        [err "filter-elems-not-object" ["string", "{string => string}"]] := by
  obtain ⟨hex, hall⟩ := exPre_id "u" stU (str "U") (by simp [exPre]) rfl (by decide +kernel) uniq_u (UnknownOutputs cxL.proj) stU_unknown
  exact ⟨(steps_outputs_silent cxL noNum [] jEx exPre _ (stepCx_after ..) keyRun "u" name av_steps_run hex hall).1,
    unknown_outputs_deeper_reported cxL noNum [] jEx exPre _ (stepCx_after ..) keyRun "u" name "y" av_steps_run hex hall,
    unknown_outputs_star_reported cxL noNum [] jEx exPre _ (stepCx_after ..) keyRun "u" av_steps_run hex hall⟩

/-- github-script: `steps.gs.outputs.result.a['k'].*.b` is silent -/
example : (check (envOf (stepCx cxL noNum [] jEx exPre) keyRun)
      (below (.objDeref (.objDeref (.objDeref (.var "steps") "gs") "outputs") "result")
        [.prop "a", .lit "k", .star, .prop "b"])).errs = [] := by
  obtain ⟨hex, hall⟩ := exPre_id "gs" stG (str "gs") (by simp [exPre]) rfl (by decide +kernel) uniq_gs
    (fun s => stepOutputs cxL.proj s = .obj [] (some .any)) stG_outputs
  exact steps_outputs_any_below_silent cxL noNum [] jEx exPre _ (stepCx_after ..) keyRun "gs" "result" _ av_steps_run hex hall rfl

/-- the bundled `actions/cache@v4`: `steps.cache.outputs.cache-hit` is fine, `steps.cache.outputs.hit` is reported — in
the job's `outputs:` as well (`jobCxPost`: there the last step is in scope too, the hypotheses are about all six steps) -/
example : (check (envOf (stepCx cxL noNum [] jEx exPre) keyRun)
      (.objDeref (.objDeref (.objDeref (.var "steps") "cache") "outputs") "cache-hit")).errs = [] ∧
    AL.C05.undefinedProp "hit" (check (envOf (stepCx cxL noNum [] jEx exPre) keyRun)
      (.objDeref (.objDeref (.objDeref (.var "steps") "cache") "outputs") "hit")) := by
  obtain ⟨hex, hall⟩ := exPre_id "cache" stC (str "cache") (by simp [exPre]) rfl (by decide +kernel) uniq_cache
    (fun s => stepOutputs cxL.proj s = .obj [("cache-hit", .string)] none) stC_outputs
  have h := fun name => steps_outputs_strict_iff cxL noNum [] jEx exPre _ (stepCx_after ..) keyRun "cache" name _ av_steps_run hex hall
  refine ⟨Decidable.byContradiction fun hne => ?_, (h "hit").2.2 (by decide)⟩
  exact absurd ((h "cache-hit").1.1 hne) (by decide)

/-- the same in the job's `outputs:` for the unknown action (all steps of the job are in scope there) -/
example (name : String) : (check (envOf (jobCxPost cxL noNum [] jEx) keyOut)
      (.objDeref (.objDeref (.objDeref (.var "steps") "u") "outputs") name)).errs = [] := by
  have huniq : ∀ s ∈ jEx.steps.getD [], ∀ id, s.id = some id → cxL.lower id.value = "u" → s = stU := by
    intro s hs id hid hx
    simp only [jEx, exPre, Option.getD_some, List.cons_append, List.nil_append, List.mem_cons, List.not_mem_nil, or_false] at hs
    rcases hs with rfl | rfl | rfl | rfl | rfl | rfl
    · rfl
    · cases hid; exact absurd hx (by decide +kernel)
    · cases hid; exact absurd hx (by decide +kernel)
    · cases hid; exact absurd hx (by decide +kernel)
    · cases hid; exact absurd hx (by decide +kernel)
    · cases hid
  exact (steps_outputs_silent cxL noNum [] jEx _ _ (jobCxPost_after ..) keyOut "u" name av_steps_out
    ⟨stU, by simp [jEx, exPre], str "U", rfl, by decide +kernel⟩
    (fun s hs id hid hx => by rw [huniq s hs id hid hx]; exact stU_unknown)).1

/-! ## 2. `needs.<job>.outputs` of a job that calls a reusable workflow -/

/-- **`needs.<i>.outputs`** for a directly needed existing job `j`: never reported; its type is the declared outputs of `j`,
or — when `j` calls a reusable workflow — what the project knows of the callee's interface, else `{string => string}` -/
theorem needs_outputs_ty (cx0 : Cx) (isNum : IsNumber) (jobs : List (String × Job)) (n : Job) (cx : Cx)
    (hcx : InJob cx0 isNum jobs n cx) (key i : String) (j : Job)
    (ha : (AL.Visit.availability key).1.contains (cx0.lower "needs") = true)
    (hin : i ∈ (n.needs.getD []).map (fun id => cx0.lower id.value)) (hself : i ≠ cx0.lower n.id.value)
    (hj : lookupJob i jobs = some j) :
    (check (envOf cx key) (.objDeref (.objDeref (.var "needs") i) "outputs")).errs = [] ∧
    (check (envOf cx key) (.objDeref (.objDeref (.var "needs") i) "outputs")).ty =
      (if j.workflowCall.isNone then declaredOutputsTy j
       else (Ty.lookup i (cx0.proj.jobView n.id.value).outs).getD (.obj [] (some .string))) := by
  obtain ⟨ps, e, h⟩ := needs_exact (cx0.proj.jobView n.id.value).outs cx0.lower jobs n
  have hl : Ty.lookup "needs" (envOf cx key).vars = some (.obj ps none) := by
    rw [envOf_vars, (scope_st _ _ _ _ _).1, hcx.needs, e]; rfl
  have hav : (envOf cx key).availCtx.contains ((envOf cx key).lower "needs") = true := by
    show (AL.Visit.availability key).1.contains (cx.lower "needs") = true
    rw [hcx.lower]; exact ha
  have hi : Ty.lookup i ps = some (needEntry (cx0.proj.jobView n.id.value).outs i j) := by
    rw [h i]; simp only [hin, hself, ne_eq, not_false_eq_true, and_self, if_true, hj, Option.map_some]
  exact check_ctx_j_outputs (envOf cx key) "needs" i ps _ none none _ hl hav hi (by simp [Ty.lookup, mapOfString])

/-- **a needed job that calls a reusable workflow whose interface is NOT known** (not local, no project, unreadable file):
`needs.<job>.outputs.<anything>` is never reported; it is a string -/
theorem needs_outputs_unknown_silent (cx0 : Cx) (isNum : IsNumber) (jobs : List (String × Job)) (n : Job) (cx : Cx)
    (hcx : InJob cx0 isNum jobs n cx) (key i name : String) (j : Job)
    (ha : (AL.Visit.availability key).1.contains (cx0.lower "needs") = true)
    (hin : i ∈ (n.needs.getD []).map (fun id => cx0.lower id.value)) (hself : i ≠ cx0.lower n.id.value)
    (hj : lookupJob i jobs = some j) (hcall : j.workflowCall.isSome = true)
    (hunk : Ty.lookup i (cx0.proj.jobView n.id.value).outs = none) :
    (check (envOf cx key) (.objDeref (.objDeref (.objDeref (.var "needs") i) "outputs") name)).errs = [] ∧
    (check (envOf cx key) (.objDeref (.objDeref (.objDeref (.var "needs") i) "outputs") name)).ty = .string := by
  obtain ⟨e, ty⟩ := needs_outputs_ty cx0 isNum jobs n cx hcx key i j ha hin hself hj
  have hn : j.workflowCall.isNone = false := by
    cases h : j.workflowCall with
    | none => rw [h] at hcall; simp at hcall
    | some _ => rfl
  rw [hn, hunk] at ty
  have := check_prop_of_open (envOf cx key) _ name [] .string rfl e (by simpa using ty)
  simpa [Ty.lookup] using this

/-- … so, like the outputs of an unknown action, one level deeper is reported (the type is known: string) -/
theorem needs_outputs_unknown_deeper_reported (cx0 : Cx) (isNum : IsNumber) (jobs : List (String × Job)) (n : Job) (cx : Cx)
    (hcx : InJob cx0 isNum jobs n cx) (key i name y : String) (j : Job)
    (ha : (AL.Visit.availability key).1.contains (cx0.lower "needs") = true)
    (hin : i ∈ (n.needs.getD []).map (fun id => cx0.lower id.value)) (hself : i ≠ cx0.lower n.id.value)
    (hj : lookupJob i jobs = some j) (hcall : j.workflowCall.isSome = true)
    (hunk : Ty.lookup i (cx0.proj.jobView n.id.value).outs = none) :
    (check (envOf cx key) (.objDeref (.objDeref (.objDeref (.objDeref (.var "needs") i) "outputs") name) y)).errs =
      [err "deref-not-object" [y, "string"]] := by
  obtain ⟨e, ty⟩ := needs_outputs_unknown_silent cx0 isNum jobs n cx hcx key i name j ha hin hself hj hcall hunk
  obtain ⟨_, e'⟩ := check_prop_of (envOf cx key) _ y _ rfl ty e
  rw [e']
  simp [objDerefTy, tyStr]

/-- **… whose interface IS known** (the project's view has the callee's outputs as a strict object — `callee_outputs_exact`):
`needs.<job>.outputs.<name>` is reported iff `<name>` is not an output the callee declares -/
theorem needs_outputs_known_iff (cx0 : Cx) (isNum : IsNumber) (jobs : List (String × Job)) (n : Job) (cx : Cx)
    (hcx : InJob cx0 isNum jobs n cx) (key i name : String) (j : Job) (os : List (String × Ty))
    (ha : (AL.Visit.availability key).1.contains (cx0.lower "needs") = true)
    (hin : i ∈ (n.needs.getD []).map (fun id => cx0.lower id.value)) (hself : i ≠ cx0.lower n.id.value)
    (hj : lookupJob i jobs = some j) (hcall : j.workflowCall.isSome = true)
    (hknown : Ty.lookup i (cx0.proj.jobView n.id.value).outs = some (.obj os none)) :
    ((check (envOf cx key) (.objDeref (.objDeref (.objDeref (.var "needs") i) "outputs") name)).errs ≠ [] ↔
      Ty.lookup name os = none) ∧
    (AL.C05.undefinedProp name (check (envOf cx key) (.objDeref (.objDeref (.objDeref (.var "needs") i) "outputs") name)) ↔
      Ty.lookup name os = none) := by
  obtain ⟨e, ty⟩ := needs_outputs_ty cx0 isNum jobs n cx hcx key i j ha hin hself hj
  have hn : j.workflowCall.isNone = false := by
    cases h : j.workflowCall with
    | none => rw [h] at hcall; simp at hcall
    | some _ => rfl
  rw [hn, hknown] at ty
  exact check_prop_of_strict (envOf cx key) _ name os rfl e (by simpa using ty)

/-- what the project puts into `outs` for a callee it could read (`getWorkflowCallOutputsType`, AL.ProjCall.outsFound): a
STRICT object with exactly the outputs the callee's `workflow_call` declares, all strings -/
theorem callee_outputs_exact (m : AL.CallMeta.Meta) :
    ∃ os, AL.ProjCall.outputsTy m = .obj os none ∧
      ∀ name, Ty.lookup name os = if name ∈ m.outputs.map (·.1) then some .string else none := by
  refine ⟨_, rfl, fun name => ?_⟩
  have := lookup_foldKeys (fun o : String × String => o.1) name m.outputs []
  simpa [Ty.lookup] using this

/-- a needed job WITH steps, for contrast: reported iff not a declared output of that job (AL.C05S.needs_outputs_exact) -/
theorem needs_outputs_declared_iff (cx0 : Cx) (isNum : IsNumber) (jobs : List (String × Job)) (n : Job) (cx : Cx)
    (hcx : InJob cx0 isNum jobs n cx) (key i name : String) (j : Job)
    (ha : (AL.Visit.availability key).1.contains (cx0.lower "needs") = true)
    (hin : i ∈ (n.needs.getD []).map (fun id => cx0.lower id.value)) (hself : i ≠ cx0.lower n.id.value)
    (hj : lookupJob i jobs = some j) (hcall : j.workflowCall = none) :
    (check (envOf cx key) (.objDeref (.objDeref (.objDeref (.var "needs") i) "outputs") name)).errs ≠ [] ↔
      name ∉ (j.outputs.getD []).map (·.1) := by
  obtain ⟨e, ty⟩ := needs_outputs_ty cx0 isNum jobs n cx hcx key i j ha hin hself hj
  obtain ⟨os, eo, ho⟩ := declaredOutputs_exact j
  rw [hcall, eo] at ty
  rw [(check_prop_of_strict (envOf cx key) _ name os rfl e (by simpa using ty)).1, ho name]
  by_cases h : name ∈ (j.outputs.getD []).map (·.1) <;> simp [h]

/-! ## 3. `matrix` given by an expression -/

/-- `matrix` as the checker sees it anywhere inside a job that has a matrix -/
theorem matrix_var (cx0 : Cx) (isNum : IsNumber) (jobs : List (String × Job)) (n : Job) (cx : Cx)
    (hcx : InJob cx0 isNum jobs n cx) (m : Matrix) (hm : matrixOf n = some m) (key : String) :
    Ty.lookup "matrix" (envOf cx key).vars = some (checkMatrix (jobCx1 cx0 jobs n) isNum m).1 := by
  have h2 := (jobCx_scope cx0 isNum jobs n).2.1
  rw [hm] at h2
  rw [envOf_vars, (scope_st _ _ _ _ _).2.2, hcx.matrix, h2]
  rfl

theorem matrix_avail (cx0 : Cx) (isNum : IsNumber) (jobs : List (String × Job)) (n : Job) (cx : Cx)
    (hcx : InJob cx0 isNum jobs n cx) (key : String)
    (ha : (AL.Visit.availability key).1.contains (cx0.lower "matrix") = true) :
    (envOf cx key).availCtx.contains ((envOf cx key).lower "matrix") = true := by
  show (AL.Visit.availability key).1.contains (cx.lower "matrix") = true
  rw [hcx.lower]; exact ha

/-- **an OPEN matrix object: no `matrix.<name>` is reported**, anywhere in the job (its own strings, its steps, its outputs) -/
theorem matrix_open_silent (cx0 : Cx) (isNum : IsNumber) (jobs : List (String × Job)) (n : Job) (cx : Cx)
    (hcx : InJob cx0 isNum jobs n cx) (m : Matrix) (hm : matrixOf n = some m) (ps : List (String × Ty)) (mt : Ty)
    (hopen : (checkMatrix (jobCx1 cx0 jobs n) isNum m).1 = .obj ps (some mt)) (key name : String)
    (ha : (AL.Visit.availability key).1.contains (cx0.lower "matrix") = true) :
    (check (envOf cx key) (.objDeref (.var "matrix") name)).errs = [] ∧
    (check (envOf cx key) (.objDeref (.var "matrix") name)).ty = (Ty.lookup name ps).getD mt := by
  have hl := matrix_var cx0 isNum jobs n cx hcx m hm key
  rw [hopen] at hl
  obtain ⟨t, e⟩ := check_ctx_prop (envOf cx key) "matrix" name _ hl (matrix_avail cx0 isNum jobs n cx hcx key ha)
  rw [t, e]
  cases h : Ty.lookup name ps <;> simp [objDerefTy, h]

/-- **the EMPTY open matrix object: nothing below `matrix` is reported** (`matrix.a.b`, `matrix['k'].x`, `matrix.*.y` …) -/
theorem matrix_unknown_below_silent (cx0 : Cx) (isNum : IsNumber) (jobs : List (String × Job)) (n : Job) (cx : Cx)
    (hcx : InJob cx0 isNum jobs n cx) (m : Matrix) (hm : matrixOf n = some m)
    (hopen : (checkMatrix (jobCx1 cx0 jobs n) isNum m).1 = .obj [] (some .any)) (key : String) (p : List Acc)
    (ha : (AL.Visit.availability key).1.contains (cx0.lower "matrix") = true) (hp : okPathObj p = true) :
    (check (envOf cx key) (below (.var "matrix") p)).errs = [] := by
  have hl := matrix_var cx0 isNum jobs n cx hcx m hm key
  rw [hopen] at hl
  exact loose_below_silent (envOf cx key) "matrix" p hl (matrix_avail cx0 isNum jobs n cx hcx key ha) (by decide) hp

/-- `matrix: ${{ … }}` whose type is NOT statically an object (unknown, or the expression has a diagnostic of its own, or
it is no object at all — then "must-be-object" is reported at the matrix): the EMPTY open object -/
theorem matrix_expr_unknown (cx : Cx) (isNum : IsNumber) (m : Matrix) (e : Str) (he : m.expr = some e)
    (hun : ∀ ps mm, (checkObjectExpression cx (some e) "matrix" "jobs.<job_id>.strategy").1 ≠ some (.obj ps mm)) :
    (checkMatrix cx isNum m).1 = .obj [] (some .any) := by
  simp only [checkMatrix, he, matrixExprTy]
  generalize (checkObjectExpression cx (some e) "matrix" "jobs.<job_id>.strategy").1 = o at hun
  cases o with
  | none => rfl
  | some t =>
    cases t with
    | obj ps mm => exact absurd rfl (hun ps mm)
    | _ => rfl

/-- **3a. `matrix: ${{ <unknown> }}`: nothing below `matrix` is reported in the job** -/
theorem matrix_expr_silent (cx0 : Cx) (isNum : IsNumber) (jobs : List (String × Job)) (n : Job) (cx : Cx)
    (hcx : InJob cx0 isNum jobs n cx) (m : Matrix) (hm : matrixOf n = some m) (e : Str) (he : m.expr = some e)
    (hun : ∀ ps mm, (checkObjectExpression (jobCx1 cx0 jobs n) (some e) "matrix" "jobs.<job_id>.strategy").1 ≠ some (.obj ps mm))
    (key : String) (p : List Acc)
    (ha : (AL.Visit.availability key).1.contains (cx0.lower "matrix") = true) (hp : okPathObj p = true) :
    (check (envOf cx key) (below (.var "matrix") p)).errs = [] :=
  matrix_unknown_below_silent cx0 isNum jobs n cx hcx m hm (matrix_expr_unknown _ isNum m e he hun) key p ha hp

/-- … and when the expression's type is an OPEN object (`${{ secrets }}`, `${{ github.event }}` …): no `matrix.<name>` is
reported (AL.C05S.matrix_expr_open) -/
theorem matrix_expr_open_silent (cx0 : Cx) (isNum : IsNumber) (jobs : List (String × Job)) (n : Job) (cx : Cx)
    (hcx : InJob cx0 isNum jobs n cx) (m : Matrix) (hm : matrixOf n = some m) (e : Str) (he : m.expr = some e)
    (hns : ∀ ps, (checkObjectExpression (jobCx1 cx0 jobs n) (some e) "matrix" "jobs.<job_id>.strategy").1 ≠ some (.obj ps none))
    (key name : String) (ha : (AL.Visit.availability key).1.contains (cx0.lower "matrix") = true) :
    (check (envOf cx key) (.objDeref (.var "matrix") name)).errs = [] := by
  obtain ⟨ps, mt, h⟩ := matrix_expr_open (jobCx1 cx0 jobs n) isNum m e he hns
  exact (matrix_open_silent cx0 isNum jobs n cx hcx m hm ps mt h key name ha).1

/-- `include: ${{ … }}` whose type is not statically an array of objects: the EMPTY open object (the row keys are dropped) -/
theorem matrix_include_expr_unknown (cx : Cx) (isNum : IsNumber) (m : Matrix) (inc : MatrixCombinations) (e : Str)
    (he : m.expr = none) (hi : m.incl = some inc) (hie : inc.expr = some e)
    (hun : ∀ qs m' d, (checkOneExpression cx (some e) "include" "jobs.<job_id>.strategy").1 ≠ some (.arr (.obj qs m') d)) :
    (checkMatrix cx isNum m).1 = .obj [] (some .any) := by
  rcases matrix_include_expr cx isNum m inc e he hi hie with h | ⟨qs, m', d, _, _, h, _⟩
  · exact h
  · exact absurd h (hun qs m' d)

/-- **3b. `include: ${{ <unknown> }}`: nothing below `matrix` is reported in the job** (not even for names that are no row) -/
theorem matrix_include_expr_silent (cx0 : Cx) (isNum : IsNumber) (jobs : List (String × Job)) (n : Job) (cx : Cx)
    (hcx : InJob cx0 isNum jobs n cx) (m : Matrix) (hm : matrixOf n = some m) (inc : MatrixCombinations) (e : Str)
    (he : m.expr = none) (hi : m.incl = some inc) (hie : inc.expr = some e)
    (hun : ∀ qs m' d, (checkOneExpression (jobCx1 cx0 jobs n) (some e) "include" "jobs.<job_id>.strategy").1 ≠
      some (.arr (.obj qs m') d))
    (key : String) (p : List Acc)
    (ha : (AL.Visit.availability key).1.contains (cx0.lower "matrix") = true) (hp : okPathObj p = true) :
    (check (envOf cx key) (below (.var "matrix") p)).errs = [] :=
  matrix_unknown_below_silent cx0 isNum jobs n cx hcx m hm
    (matrix_include_expr_unknown _ isNum m inc e he hi hie hun) key p ha hp

/-- **3c. an `include` entry `- ${{ <unknown> }}`** (its type is not statically a strict object, and it has no diagnostic of
its own): **no `matrix.<name>` is reported in the job** -/
theorem matrix_include_entry_silent (cx0 : Cx) (isNum : IsNumber) (jobs : List (String × Job)) (n : Job) (cx : Cx)
    (hcx : InJob cx0 isNum jobs n cx) (m : Matrix) (hm : matrixOf n = some m) (inc : MatrixCombinations)
    (he : m.expr = none) (hi : m.incl = some inc) (hie : inc.expr = none)
    (pre post : List MatrixCombination) (c : MatrixCombination) (e : Str) (ty : Ty)
    (hcs : inc.combinations.getD [] = pre ++ c :: post) (hc : c.expr = some e)
    (hty : comboExprTy (jobCx1 cx0 jobs n) e = some ty) (hns : ∀ qs, ty ≠ .obj qs none)
    (key name : String) (ha : (AL.Visit.availability key).1.contains (cx0.lower "matrix") = true) :
    (check (envOf cx key) (.objDeref (.var "matrix") name)).errs = [] := by
  obtain ⟨ps, mt, h⟩ := matrix_include_entry_expr_opens (jobCx1 cx0 jobs n) isNum m inc he hi hie pre post c e ty hcs hc hty hns
  exact (matrix_open_silent cx0 isNum jobs n cx hcx m hm ps mt h key name ha).1

/-! ### 3d. a row given by an expression: `matrix.<row>` is `any` -/

/-- a row `k: ${{ … }}` whose type is not statically an array with a known element type: the row's type is `any` -/
theorem rowTy_expr_any (cx : Cx) (isNum : IsNumber) (r : MatrixRow) (e : Str) (he : r.expr = some e)
    (hun : ∀ el d, (checkArrayExpression cx (some e) "matrix row" "jobs.<job_id>.strategy").1 = some (.arr el d) → el = .any) :
    (rowTy cx isNum r).1 = .any := by
  rw [rowTy_expr cx isNum r e he]
  generalize (checkArrayExpression cx (some e) "matrix row" "jobs.<job_id>.strategy").1 = o at hun
  cases o with
  | none => rfl
  | some t =>
    cases t with
    | arr el d => exact hun el d rfl
    | _ => rfl

theorem mergeProps_keeps_any (k : String) : ∀ (qs props : List (String × Ty)) (mapped : Option Ty),
    Ty.lookup k props = some .any →
    ∃ ps' m', Ty.mergeProps props mapped qs = .obj ps' m' ∧ Ty.lookup k ps' = some .any := by
  intro qs
  induction qs with
  | nil => intro props mapped h; exact ⟨props, mapped, rfl, h⟩
  | cons q rest ih =>
    intro props mapped h
    obtain ⟨nm, r⟩ := q
    rw [Ty.mergeProps_cons]
    cases hl : Ty.lookup nm props with
    | some l =>
      simp only
      apply ih
      rw [lookup_setProp]
      by_cases hk : k = nm
      · subst hk
        rw [h] at hl
        cases hl
        simp [Ty.merge_any_left]
      · simp [hk, h]
    | none =>
      simp only
      apply ih
      rw [lookup_setProp]
      have hk : ¬ k = nm := by
        intro e; subst e; rw [h] at hl; cases hl
      simp [hk, h]

theorem merge_obj_keeps_any (k : String) (ps qs : List (String × Ty)) (m m' : Option Ty) (h : Ty.lookup k ps = some .any) :
    ∃ ps' mm, Ty.merge (.obj ps m) (.obj qs m') = .obj ps' mm ∧ Ty.lookup k ps' = some .any := by
  rw [Ty.merge_obj_obj]
  by_cases h1 : (ps.isEmpty && Ty.isSomeAny m') = true
  · simp only [Bool.and_eq_true, List.isEmpty_iff] at h1
    rw [h1.1] at h
    simp [Ty.lookup] at h
  · simp only [h1, Bool.false_eq_true, if_false]
    by_cases h2 : (qs.isEmpty && Ty.isSomeAny m) = true
    · simp only [h2, if_true]
      exact ⟨ps, m, rfl, h⟩
    · simp only [h2, Bool.false_eq_true, if_false]
      exact mergeProps_keeps_any k qs ps _ h

theorem assignsFold_keeps_any (cx : Cx) (isNum : IsNumber) (k : String) :
    ∀ (as : List (String × MatrixAssign)) (ps : List (String × Ty)) (m : Option Ty) (ds : List Diag),
      Ty.lookup k ps = some .any →
      ∃ ps' ds', as.foldl (fun (a : Ty × List Diag) kv =>
          let t := rawTy cx isNum kv.2.value
          match a.1 with
          | .obj ps m =>
            let ty' := match Ty.lookup kv.1 ps with
              | some old => Ty.merge old t.1
              | none => t.1
            (.obj (Ty.setProp kv.1 ty' ps) m, a.2 ++ t.2)
          | o => (o, a.2 ++ t.2)) (.obj ps m, ds) = (.obj ps' m, ds') ∧ Ty.lookup k ps' = some .any := by
  intro as
  induction as with
  | nil => intro ps m ds h; exact ⟨ps, ds, rfl, h⟩
  | cons kv rest ih =>
    intro ps m ds h
    simp only [List.foldl_cons]
    apply ih
    rw [lookup_setProp]
    by_cases hk : k = kv.1
    · rw [← hk, h]
      simp [hk, Ty.merge_any_left]
    · simp [hk, h]

/-- an `include` entry of any kind keeps `matrix.<k> : any` -/
theorem includeCombo_keeps_any (cx : Cx) (isNum : IsNumber) (k : String) (c : MatrixCombination)
    (ps : List (String × Ty)) (m : Option Ty) (ds : List Diag) (h : Ty.lookup k ps = some .any) :
    ∃ ps' m', (includeCombo cx isNum (.obj ps m, ds) c).1 = .obj ps' m' ∧ Ty.lookup k ps' = some .any := by
  cases hc : c.expr with
  | none =>
    simp only [includeCombo, hc]
    obtain ⟨ps', ds', e, hk⟩ := assignsFold_keeps_any cx isNum k (c.assigns.getD []) ps m ds h
    exact ⟨ps', m, congrArg Prod.fst e, hk⟩
  | some e =>
    rw [includeCombo_expr cx isNum c e hc]
    cases comboExprTy cx e with
    | none => exact ⟨ps, m, rfl, h⟩
    | some ty =>
      cases ty with
      | obj qs m' => exact merge_obj_keeps_any k ps qs m m' h
      | _ => exact ⟨ps, some .any, rfl, h⟩

theorem includeFold_keeps_any (cx : Cx) (isNum : IsNumber) (k : String) : ∀ (cs : List MatrixCombination)
    (ps : List (String × Ty)) (m : Option Ty) (ds : List Diag), Ty.lookup k ps = some .any →
    ∃ ps' m', (cs.foldl (includeCombo cx isNum) (.obj ps m, ds)).1 = .obj ps' m' ∧ Ty.lookup k ps' = some .any := by
  intro cs
  induction cs with
  | nil => intro ps m ds h; exact ⟨ps, m, rfl, h⟩
  | cons c rest ih =>
    intro ps m ds h
    simp only [List.foldl_cons]
    obtain ⟨ps1, m1, e1, h1⟩ := includeCombo_keeps_any cx isNum k c ps m ds h
    have hpair : includeCombo cx isNum (.obj ps m, ds) c = (.obj ps1 m1, (includeCombo cx isNum (.obj ps m, ds) c).2) := by
      rw [← e1]
    rw [hpair]
    exact ih ps1 m1 _ h1

/-- **a row given by an expression of unknown type: `matrix` is an object in which that key has type `any`** — with or
without `include:` entries (of any kind; `include: ${{ … }}` as a whole is 3b) -/
theorem matrix_row_any (cx : Cx) (isNum : IsNumber) (m : Matrix) (he : m.expr = none)
    (hinc : ∀ inc, m.incl = some inc → inc.expr = none) (k : String)
    (hex : ∃ kv ∈ m.rows.getD [], kv.1 = k)
    (hall : ∀ kv ∈ m.rows.getD [], kv.1 = k → (rowTy cx isNum kv.2).1 = .any) :
    ∃ ps mm, (checkMatrix cx isNum m).1 = .obj ps mm ∧ Ty.lookup k ps = some .any := by
  have hrow : Ty.lookup k (rowsProps cx isNum (m.rows.getD [])) = some .any := by
    obtain ⟨kv, hkv, hk⟩ := hex
    have hs := (rowsProps_keys cx isNum (m.rows.getD []) k).2 (List.mem_map.2 ⟨kv, hkv, hk⟩)
    obtain ⟨t, ht⟩ := Option.isSome_iff_exists.1 hs
    obtain ⟨kv', hkv', hk', htt⟩ := rowsProps_entry cx isNum _ k t ht
    rw [ht, htt, hall kv' hkv' hk']
  rw [checkMatrix_lit cx isNum m he]
  cases hi : m.incl with
  | none => exact ⟨_, none, rfl, hrow⟩
  | some inc =>
    simp only [hinc inc hi]
    exact includeFold_keeps_any cx isNum k _ _ none [] hrow

/-- **3d. below `matrix.<row>` nothing is reported in the job when the row is an expression of unknown type** -/
theorem matrix_row_below_silent (cx0 : Cx) (isNum : IsNumber) (jobs : List (String × Job)) (n : Job) (cx : Cx)
    (hcx : InJob cx0 isNum jobs n cx) (m : Matrix) (hm : matrixOf n = some m) (he : m.expr = none)
    (hinc : ∀ inc, m.incl = some inc → inc.expr = none) (k : String)
    (hex : ∃ kv ∈ m.rows.getD [], kv.1 = k)
    (hall : ∀ kv ∈ m.rows.getD [], kv.1 = k → (rowTy (jobCx1 cx0 jobs n) isNum kv.2).1 = .any)
    (key : String) (p : List Acc)
    (ha : (AL.Visit.availability key).1.contains (cx0.lower "matrix") = true) (hp : okPath false p = true) :
    (check (envOf cx key) (below (.objDeref (.var "matrix") k) p)).errs = [] := by
  obtain ⟨ps, mm, hmx, hk⟩ := matrix_row_any (jobCx1 cx0 jobs n) isNum m he hinc k hex hall
  have hl := matrix_var cx0 isNum jobs n cx hcx m hm key
  rw [hmx] at hl
  obtain ⟨t, e⟩ := check_ctx_prop (envOf cx key) "matrix" k _ hl (matrix_avail cx0 isNum jobs n cx hcx key ha)
  rw [objDerefTy_found _ _ k ps mm _ hk] at t e
  exact any_below_silent _ _ p e t hp

/-! ### §2 on concrete data: `dep` needs `call` (a reusable workflow of another repository) and `build` (a job with steps) -/

theorem opt_tyEq {o : Option Ty} {t : Ty} (h : (match o with | some t' => tyEq t' t | none => false) = true) : o = some t := by
  cases o with
  | none => cases h
  | some t' => rw [tyEq_sound t' t h]

def jCallX : Job := { id := str "call", workflowCall := some { uses := some (str "owner/repo/.github/workflows/w.yml@v1") }, pos := p0 }
def jBuildX : Job := { id := str "build", outputs := some [("art", ⟨str "art", str "x"⟩)], pos := p0 }
def jDepX : Job := { id := str "dep", needs := some [str "Call", str "build"], pos := p0 }
def exJobsX : List (String × Job) := [("call", jCallX), ("build", jBuildX), ("dep", jDepX)]
/-- the same file inside a project that could read the callee: it declares the output `url` -/
def cxProj : Cx :=
  { lower := AL.PW.asciiLower,
    proj := { jobs := [("dep", { outs := [("call", AL.ProjCall.outputsTy { outputs := [("url", "URL")] })] })] } }

theorem av_needs_run : (AL.Visit.availability keyRun).1.contains (cxL.lower "needs") = true := by decide +kernel

/-- without a project the callee's interface is unknown: **`needs.call.outputs.<anything>` is not reported** (a string: one
level deeper is); `needs.build.outputs.nope` IS reported, `needs.build.outputs.art` is not -/
example (name : String) :
    (check (envOf (jobCx cxL noNum exJobsX jDepX) keyRun)
      (.objDeref (.objDeref (.objDeref (.var "needs") "call") "outputs") name)).errs = [] ∧
    (check (envOf (jobCx cxL noNum exJobsX jDepX) keyRun)
      (.objDeref (.objDeref (.objDeref (.objDeref (.var "needs") "call") "outputs") name) "y")).errs =
        [err "deref-not-object" ["y", "string"]] ∧
    (check (envOf (jobCx cxL noNum exJobsX jDepX) keyRun)
      (.objDeref (.objDeref (.objDeref (.var "needs") "build") "outputs") "nope")).errs ≠ [] ∧
    ¬ (check (envOf (jobCx cxL noNum exJobsX jDepX) keyRun)
      (.objDeref (.objDeref (.objDeref (.var "needs") "build") "outputs") "art")).errs ≠ [] :=
  ⟨(needs_outputs_unknown_silent cxL noNum exJobsX jDepX _ (jobCx_inJob ..) keyRun "call" name jCallX av_needs_run
      (by decide +kernel) (by decide +kernel) rfl rfl rfl).1,
   needs_outputs_unknown_deeper_reported cxL noNum exJobsX jDepX _ (jobCx_inJob ..) keyRun "call" name "y" jCallX av_needs_run
      (by decide +kernel) (by decide +kernel) rfl rfl rfl,
   (needs_outputs_declared_iff cxL noNum exJobsX jDepX _ (jobCx_inJob ..) keyRun "build" "nope" jBuildX av_needs_run
      (by decide +kernel) (by decide +kernel) rfl rfl).2 (by decide),
   fun h => (needs_outputs_declared_iff cxL noNum exJobsX jDepX _ (jobCx_inJob ..) keyRun "build" "art" jBuildX av_needs_run
      (by decide +kernel) (by decide +kernel) rfl rfl).1 h (by decide)⟩

/-- inside the project: exactly the callee's declared outputs — `needs.call.outputs.url` is fine, `.other` is reported; in a
step of the job as well (`stepCx`) -/
example : ¬ AL.C05.undefinedProp "url" (check (envOf (jobCx cxProj noNum exJobsX jDepX) keyRun)
      (.objDeref (.objDeref (.objDeref (.var "needs") "call") "outputs") "url")) ∧
    AL.C05.undefinedProp "other" (check (envOf (stepCx cxProj noNum exJobsX jDepX []) keyRun)
      (.objDeref (.objDeref (.objDeref (.var "needs") "call") "outputs") "other")) := by
  have hk : Ty.lookup "call" (cxProj.proj.jobView jDepX.id.value).outs = some (.obj [("url", .string)] none) :=
    opt_tyEq (by decide +kernel)
  exact ⟨fun h => absurd ((needs_outputs_known_iff cxProj noNum exJobsX jDepX _ (jobCx_inJob ..) keyRun "call" "url" jCallX _
      (by decide +kernel) (by decide +kernel) (by decide +kernel) rfl rfl hk).2.1 h) (by decide),
    (needs_outputs_known_iff cxProj noNum exJobsX jDepX _ (stepCx_after ..).toInJob keyRun "call" "other" jCallX _
      (by decide +kernel) (by decide +kernel) (by decide +kernel) rfl rfl hk).2.2 (by decide)⟩

example : ∃ os, AL.ProjCall.outputsTy { outputs := [("url", "URL")] } = .obj os none ∧ Ty.lookup "url" os = some .string ∧
    Ty.lookup "other" os = none := by
  obtain ⟨os, e, h⟩ := callee_outputs_exact { outputs := [("url", "URL")] }
  exact ⟨os, e, by rw [h]; simp, by rw [h]; simp⟩

/-! ### §3 on concrete data: `${{ fromJSON(vars.X) }}` has type `any` in every job of a workflow without header -/

theorem checkConfigVar_congr (Γ Γ' : AL.Sema.Env) (x : String) (h1 : Γ.configVars = Γ'.configVars) (h2 : Γ.lower = Γ'.lower) :
    checkConfigVar Γ x = checkConfigVar Γ' x := by
  unfold checkConfigVar
  rw [h1, h2]

/-- `fromJSON(vars.<x>)` — `fromJSON` of a NON-literal — is `any`, silently, in every environment that has the built-in
functions and the built-in `vars` -/
theorem check_fromJSON_vars_env (Γ : AL.Sema.Env) (x : String)
    (hl : Γ.lower "fromJSON" = "fromjson") (hf : lookupFuncs "fromjson" Γ.funcs = some [fromJSONSig])
    (hsp : specialFuncErrs Γ "fromJSON" = [])
    (hv : Ty.lookup "vars" Γ.vars = some (.obj [] (some .string))) (hav : Γ.availCtx.contains (Γ.lower "vars") = true)
    (hx : checkConfigVar Γ x = []) :
    (check Γ (.call "fromJSON" [.objDeref (.var "vars") x])).errs = [] ∧
    (check Γ (.call "fromJSON" [.objDeref (.var "vars") x])).ty = .any := by
  obtain ⟨h1, h2⟩ := check_ctx_prop Γ "vars" x _ hv hav
  have a : (check Γ (.objDeref (.var "vars") x)).errs = [] := by rw [h2]; simp [objDerefTy, Ty.lookup, hx]
  have b : (check Γ (.objDeref (.var "vars") x)).ty = .string := by rw [h1]; simp [objDerefTy, Ty.lookup]
  have := check_fromJSON Γ (.objDeref (.var "vars") x) hl hf hsp a (by rw [b]; simp [Ty.assignable])
  simpa [strLit?] using this

/-- one placeholder `${{ fromJSON(vars.<x>) }}` in the `strategy` of ANY job (`jobCx1`: the state the matrix is checked
under) of a workflow without header, linted without project: type `any`, no diagnostic -/
theorem job_strategy_any (jobs : List (String × Job)) (n : Job) (what : String) (s : Str) (idx off : Nat) (x : String)
    (h1 : AL.Proc.indexOf AL.Proc.open3 (bytesOf s.value) 0 = some idx)
    (h2 : parsedIs AL.PW.asciiLower ((bytesOf s.value).drop (idx + 3)) (.call "fromJSON" [.objDeref (.var "vars") x]) off = true)
    (h3 : off ≠ 0) (h4 : AL.Proc.indexOf AL.Proc.open3 (((bytesOf s.value).drop (idx + 3)).drop off) 0 = none)
    (hx : checkConfigVar Γs x = []) :
    checkOneExpression (jobCx1 cxL jobs n) (some s) what "jobs.<job_id>.strategy" = (some .any, []) := by
  have hv : Ty.lookup "vars" (envOf (jobCx1 cxL jobs n) "jobs.<job_id>.strategy").vars = some (.obj [] (some .string)) := by
    rw [envOf_vars, lookup_mkEnv_st "vars" (by decide) (by decide) (by decide) (by decide),
      lookup_stVars_other "vars" (by decide) (by decide) (by decide)]
    rfl
  have hc := check_fromJSON_vars_env (envOf (jobCx1 cxL jobs n) "jobs.<job_id>.strategy") x
    (by show AL.PW.asciiLower "fromJSON" = "fromjson"; decide +kernel) rfl Γs_facts.2.2 hv
    (by show (AL.Visit.availability "jobs.<job_id>.strategy").1.contains (AL.PW.asciiLower "vars") = true; decide +kernel)
    (by rw [checkConfigVar_congr (envOf (jobCx1 cxL jobs n) "jobs.<job_id>.strategy") Γs x rfl rfl]; exact hx)
  rw [checkOneExpression_one (jobCx1 cxL jobs n) what "jobs.<job_id>.strategy" s idx off _ h1 h2 h3 h4 hc.1]
  exact congrArg (fun t => (some t, ([] : List Diag))) hc.2

def rowOs : String × MatrixRow := ("os", ⟨some (str "os"), some [.str "linux" p0, .str "mac" p0], none⟩)
def rowDyn : String × MatrixRow := ("dyn", ⟨some (str "dyn"), none, some (str "${{ fromJSON(vars.LIST) }}")⟩)
def cLit : MatrixCombination := ⟨some [("os", ⟨str "os", .str "win" p0⟩), ("extra", ⟨str "extra", .str "true" p0⟩)], none⟩
def cDyn : MatrixCombination := ⟨none, some (str "${{ fromJSON(vars.ENTRY) }}")⟩
def incDynEntry : MatrixCombinations := ⟨some [cLit, cDyn], none⟩
def incDyn : MatrixCombinations := ⟨none, some (str "${{ fromJSON(vars.INC) }}")⟩
def mExprDyn : Matrix := { rows := none, expr := some (str "${{ fromJSON(vars.M) }}"), pos := p0 }
def mIncDyn : Matrix := { rows := some [rowOs], incl := some incDyn, pos := p0 }
def mDynEntry : Matrix := { rows := some [rowOs], incl := some incDynEntry, pos := p0 }
def mRowDyn : Matrix := { rows := some [rowOs, rowDyn], incl := some ⟨some [cLit], none⟩, pos := p0 }
def jobWith (id : String) (m : Matrix) : Job :=
  { id := str id, strategy := some { matrix := some m, pos := p0 }, steps := some [stR, stLast], pos := p0 }

theorem av_matrix_run : (AL.Visit.availability keyRun).1.contains (cxL.lower "matrix") = true := by decide +kernel
theorem av_matrix_out : (AL.Visit.availability keyOut).1.contains (cxL.lower "matrix") = true := by decide +kernel

/-- **`matrix: ${{ fromJSON(vars.M) }}`: `matrix.os.x.*`, `matrix['k']`, `matrix.*.y` are silent** — in the second step of the
job and in the job's outputs -/
example : (check (envOf (stepCx cxL noNum [] (jobWith "me" mExprDyn) [stR]) keyRun)
      (below (.var "matrix") [.prop "os", .prop "x", .star])).errs = [] ∧
    (check (envOf (jobCxPost cxL noNum [] (jobWith "me" mExprDyn)) keyOut) (below (.var "matrix") [.lit "k"])).errs = [] ∧
    (check (envOf (jobCx cxL noNum [] (jobWith "me" mExprDyn)) keyRun) (below (.var "matrix") [.star, .prop "y"])).errs = [] := by
  have hun : ∀ ps mm, (checkObjectExpression (jobCx1 cxL [] (jobWith "me" mExprDyn)) (some (str "${{ fromJSON(vars.M) }}"))
      "matrix" "jobs.<job_id>.strategy").1 ≠ some (.obj ps mm) := by
    intro ps mm h
    rw [checkObjectExpression_ok _ _ "matrix" _ .any
      (job_strategy_any [] _ "matrix" (str "${{ fromJSON(vars.M) }}") 0 20 "m"
        (by decide +kernel) (by decide +kernel) (by decide) (by decide +kernel) (by decide +kernel)) rfl] at h
    cases h
  exact ⟨matrix_expr_silent cxL noNum [] _ _ (stepCx_after ..).toInJob mExprDyn rfl _ rfl hun keyRun _ av_matrix_run rfl,
    matrix_expr_silent cxL noNum [] _ _ (jobCxPost_after ..).toInJob mExprDyn rfl _ rfl hun keyOut _ av_matrix_out rfl,
    matrix_expr_silent cxL noNum [] _ _ (jobCx_inJob ..) mExprDyn rfl _ rfl hun keyRun _ av_matrix_run rfl⟩

/-- **`include: ${{ fromJSON(vars.INC) }}`** beside the row `os`: `matrix.anything.deeper` is silent -/
example : (check (envOf (stepCx cxL noNum [] (jobWith "mi" mIncDyn) [stR]) keyRun)
      (below (.var "matrix") [.prop "anything", .prop "deeper"])).errs = [] := by
  have hun : ∀ qs m' d, (checkOneExpression (jobCx1 cxL [] (jobWith "mi" mIncDyn)) (some (str "${{ fromJSON(vars.INC) }}"))
      "include" "jobs.<job_id>.strategy").1 ≠ some (.arr (.obj qs m') d) := by
    intro qs m' d h
    rw [job_strategy_any [] _ "include" (str "${{ fromJSON(vars.INC) }}") 0 22 "inc"
        (by decide +kernel) (by decide +kernel) (by decide) (by decide +kernel) (by decide +kernel)] at h
    cases h
  exact matrix_include_expr_silent cxL noNum [] _ _ (stepCx_after ..).toInJob mIncDyn rfl incDyn _ rfl rfl rfl hun keyRun _
    av_matrix_run rfl

/-- **an include entry `- ${{ fromJSON(vars.ENTRY) }}`** after a literal one: no `matrix.<name>` is reported -/
example (name : String) : (check (envOf (stepCx cxL noNum [] (jobWith "mn" mDynEntry) [stR]) keyRun)
      (.objDeref (.var "matrix") name)).errs = [] := by
  have hty : comboExprTy (jobCx1 cxL [] (jobWith "mn" mDynEntry)) (str "${{ fromJSON(vars.ENTRY) }}") = some .any := by
    unfold comboExprTy
    rw [job_strategy_any [] _ _ (str "${{ fromJSON(vars.ENTRY) }}") 0 24 "entry"
        (by decide +kernel) (by decide +kernel) (by decide) (by decide +kernel) (by decide +kernel)]
  exact matrix_include_entry_silent cxL noNum [] _ _ (stepCx_after ..).toInJob mDynEntry rfl incDynEntry rfl rfl rfl
    [cLit] [] cDyn _ .any rfl rfl hty (fun _ h => nomatch h) keyRun name av_matrix_run

/-- **a row `dyn: ${{ fromJSON(vars.LIST) }}`** (beside the row `os` and a literal include entry): `matrix.dyn.a['k'].*.b`
is silent; `matrix` itself stays strict (AL.C05S.rowTy_expr) -/
example : (check (envOf (stepCx cxL noNum [] (jobWith "mr" mRowDyn) [stR]) keyRun)
      (below (.objDeref (.var "matrix") "dyn") [.prop "a", .lit "k", .star, .prop "b"])).errs = [] := by
  have hrow : (rowTy (jobCx1 cxL [] (jobWith "mr" mRowDyn)) noNum rowDyn.2).1 = .any := by
    refine rowTy_expr_any _ noNum rowDyn.2 (str "${{ fromJSON(vars.LIST) }}") rfl (fun el d h => ?_)
    rw [checkArrayExpression_ok _ _ "matrix row" _ .any
      (job_strategy_any [] _ "matrix row" (str "${{ fromJSON(vars.LIST) }}") 0 23 "list"
        (by decide +kernel) (by decide +kernel) (by decide) (by decide +kernel) (by decide +kernel)) rfl] at h
    cases h
  refine matrix_row_below_silent cxL noNum [] _ _ (stepCx_after ..).toInJob mRowDyn rfl rfl
    (fun inc hi => by cases hi; rfl) "dyn" ⟨rowDyn, by simp [mRowDyn], rfl⟩ ?_ keyRun _ av_matrix_run rfl
  intro kv hkv hk
  simp only [mRowDyn, Option.getD_some, List.mem_cons, List.not_mem_nil, or_false] at hkv
  rcases hkv with rfl | rfl
  · exact absurd hk (by decide)
  · exact hrow

/-! ## 4. `inputs`

`workflow_dispatch` inputs: `boolean` / `number` / `string` by their type, `choice` and `environment` are STRINGS, an input
without `type:` is `any`. `workflow_call` inputs: `string` / `boolean` / `number`, anything else (no `type:`, an unknown
one — reported elsewhere) is `any`. Below an input of type `any` nothing is reported. -/

theorem dispatchTy_any_iff (t : DispatchInputType) : dispatchTy t = .any ↔ t = .none := by
  cases t <;> simp [dispatchTy]

theorem dispatchTy_choice_environment : dispatchTy .choice = .string ∧ dispatchTy .environment = .string := ⟨rfl, rfl⟩

theorem callTy_any_iff (t : CallInputType) : callTy t = .any ↔ t = .invalid := by
  cases t <;> simp [callTy]

theorem declTy_mem (l : List (String × Ty)) (x : String) (t : Ty) (h : declTy l x = some t) : (x, t) ∈ l := by
  unfold declTy at h
  cases hf : l.reverse.find? (·.1 = x) with
  | none => rw [hf] at h; cases h
  | some e =>
    rw [hf] at h
    simp only [Option.map_some, Option.some.injEq] at h
    have hm := List.mem_of_find?_eq_some hf
    have hp := List.find?_some hf
    simp only [decide_eq_true_eq] at hp
    rw [List.mem_reverse] at hm
    obtain ⟨a, b⟩ := e
    simp only at h hp
    rw [← h, ← hp]
    exact hm

/-- a declaration list in which `x` is declared, and only with type `any` -/
theorem declTy_any (l : List (String × Ty)) (x : String) (hex : x ∈ l.map (·.1)) (hall : ∀ e ∈ l, e.1 = x → e.2 = .any) :
    declTy l x = some .any := by
  obtain ⟨t, ht⟩ := Option.isSome_iff_exists.1 ((declTy_isSome l x).2 hex)
  have := hall _ (declTy_mem l x t ht) rfl
  simp only at this
  rw [ht, this]

/-- **an input declared with an unknown type by either event has type `any`** (declared by both: `Merge` with `any` is
`any`) -/
theorem inputs_any (hdr : Header) (x : String)
    (h : declTy (hdr.callInputs.getD []) x = some .any ∨ declTy (hdr.dispatchInputs.getD []) x = some .any) :
    ∃ ps, inputsTyOf hdr = .obj ps none ∧ Ty.lookup x ps = some .any := by
  obtain ⟨ps, e, hl⟩ := inputs_exact hdr
  refine ⟨ps, e, ?_⟩
  rw [hl x]
  rcases h with h | h
  · rw [h]
    cases declTy (hdr.dispatchInputs.getD []) x <;> simp [Ty.merge_any_left]
  · rw [h]
    cases declTy (hdr.callInputs.getD []) x <;> simp [Ty.merge_any_right]

/-- `inputs.<x>` for a declared input: never reported, of its declared type -/
theorem inputs_prop_ty (cx : Cx) (key x : String) (t : Ty)
    (ha : (AL.Visit.availability key).1.contains (cx.lower "inputs") = true)
    (h : Ty.lookup x (propsOf (inputsTyOf cx.hdr)) = some t) :
    (check (envOf cx key) (.objDeref (.var "inputs") x)).errs = [] ∧
    (check (envOf cx key) (.objDeref (.var "inputs") x)).ty = t := by
  obtain ⟨ps, e, _⟩ := inputs_exact cx.hdr
  have hl : Ty.lookup "inputs" (envOf cx key).vars = some (.obj ps none) := by
    rw [envOf_vars, scope_inputs, e]
  rw [e] at h
  simp only [propsOf] at h
  obtain ⟨ty, er⟩ := check_ctx_prop (envOf cx key) "inputs" x _ hl ha
  rw [objDerefTy_found _ _ x ps none _ h] at ty er
  exact ⟨er, ty⟩

/-- **below an input of unknown type nothing is reported** -/
theorem inputs_any_below_silent (cx : Cx) (key x : String) (p : List Acc)
    (ha : (AL.Visit.availability key).1.contains (cx.lower "inputs") = true)
    (h : declTy (cx.hdr.callInputs.getD []) x = some .any ∨ declTy (cx.hdr.dispatchInputs.getD []) x = some .any)
    (hp : okPath false p = true) :
    (check (envOf cx key) (below (.objDeref (.var "inputs") x) p)).errs = [] := by
  obtain ⟨ps, e, hx⟩ := inputs_any cx.hdr x h
  obtain ⟨er, ty⟩ := inputs_prop_ty cx key x .any ha (by rw [e]; exact hx)
  exact any_below_silent _ _ p er ty hp

/-- **a `workflow_dispatch` input without `type:`** (the last `workflow_dispatch` of `on:` declares `x`, and only untyped):
in every state whose header is the workflow's — every job, every step — nothing below `inputs.<x>` is reported -/
theorem untyped_dispatch_input_silent (lower : String → String) (proj : ProjView) (w : Workflow)
    (pre post : List Ast.Event) (ins : Option (List (String × DispatchInput))) (pos : AL.Yaml.Pos)
    (hon : w.on.getD [] = pre ++ .dispatch ins pos :: post) (hpost : ∀ e ∈ post, isDispatch e = false)
    (x : String) (hex : ∃ kv ∈ ins.getD [], kv.1 = x) (hall : ∀ kv ∈ ins.getD [], kv.1 = x → kv.2.type = .none)
    (cx : Cx) (hcx : cx.hdr = (ruleCx lower proj w).hdr) (key : String) (p : List Acc)
    (ha : (AL.Visit.availability key).1.contains (cx.lower "inputs") = true) (hp : okPath false p = true) :
    (check (envOf cx key) (below (.objDeref (.var "inputs") x) p)).errs = [] := by
  refine inputs_any_below_silent cx key x p ha (Or.inr ?_) hp
  rw [hcx, (ruleCx_scope lower proj w).2.1, hon, header_dispatch pre post ins pos hpost]
  simp only [Option.getD_some]
  apply declTy_any
  · obtain ⟨kv, hkv, hk⟩ := hex
    simp only [List.map_map, List.mem_map, Function.comp_def]
    exact ⟨kv, hkv, hk⟩
  · intro e he hx
    simp only [List.mem_map] at he
    obtain ⟨kv, hkv, rfl⟩ := he
    simp only at hx ⊢
    rw [hall kv hkv hx]
    rfl

/-- **a `workflow_call` input without a usable `type:`** -/
theorem untyped_call_input_silent (lower : String → String) (proj : ProjView) (w : Workflow)
    (pre post : List Ast.Event) (ins : Option (List Ast.CallInput)) (secs : Option (List (String × CallSecret)))
    (outs : Option (List (String × CallOutput))) (pos : AL.Yaml.Pos)
    (hon : w.on.getD [] = pre ++ .call ins secs outs pos :: post) (hpost : ∀ e ∈ post, isCall e = false)
    (x : String) (hex : ∃ i ∈ ins.getD [], i.id = x) (hall : ∀ i ∈ ins.getD [], i.id = x → i.type = .invalid)
    (cx : Cx) (hcx : cx.hdr = (ruleCx lower proj w).hdr) (key : String) (p : List Acc)
    (ha : (AL.Visit.availability key).1.contains (cx.lower "inputs") = true) (hp : okPath false p = true) :
    (check (envOf cx key) (below (.objDeref (.var "inputs") x) p)).errs = [] := by
  refine inputs_any_below_silent cx key x p ha (Or.inl ?_) hp
  rw [hcx, (ruleCx_scope lower proj w).2.1, hon, (header_call pre post ins secs outs pos hpost _).1]
  simp only [Option.getD_some]
  apply declTy_any
  · obtain ⟨i, hi, hk⟩ := hex
    simp only [List.map_map, List.mem_map, Function.comp_def]
    exact ⟨i, hi, hk⟩
  · intro e he hx
    simp only [List.mem_map] at he
    obtain ⟨i, hi, rfl⟩ := he
    simp only at hx ⊢
    rw [hall i hi hx]
    rfl

/-- the header of every state inside a job of the workflow is the workflow's -/
theorem inJob_hdr (lower : String → String) (proj : ProjView) (w : Workflow) (isNum : IsNumber) (jobs : List (String × Job))
    (n : Job) (cx : Cx) (hcx : InJob (ruleCx lower proj w) isNum jobs n cx) :
    cx.hdr = (ruleCx lower proj w).hdr ∧ cx.lower = lower := ⟨hcx.hdr, hcx.lower.trans (ruleCx_scope lower proj w).2.2.2.1⟩

/-- the typed check of a `with:` value against a called workflow's declared input accepts a value of unknown type -/
theorem typedInput_any (cx : Cx) (u : Str) (kv : String × CallArg) (h : AL.Yaml.isExprAssigned kv.2.value.value = true) :
    typedInput cx u kv [.any] = [] := by
  unfold typedInput
  cases cx.job.inputs with
  | none => rfl
  | some ins =>
    simp only
    cases ins.find? (·.1 = kv.1) with
    | none => rfl
    | some e =>
      obtain ⟨_, nm, decl⟩ := e
      simp only [suppliedTy, h, if_true, Ty.assignable_any_right]
      split <;> rfl

/-! ### §4 on concrete data -/

def evDispatchX : Ast.Event :=
  .dispatch (some [("cfg", ⟨str "cfg", none, none, none, .none, none⟩), ("env", ⟨str "env", none, none, none, .environment, none⟩),
                   ("pick", ⟨str "pick", none, none, none, .choice, some [str "a", str "b"]⟩)]) p0
def evCallX : Ast.Event :=
  .call (some [{ name := str "raw", type := .invalid, id := "raw" }, { name := str "n", type := .number, id := "n" }]) none none p0
def evPushX : Ast.Event := .webhook { hook := str "push", pos := p0 }
def wX : Workflow := { on := some [evDispatchX, evCallX, evPushX], jobs := some [("j", jEx)] }

theorem av_inputs_run : (AL.Visit.availability keyRun).1.contains (AL.PW.asciiLower "inputs") = true := by decide +kernel

/-- `inputs.cfg` (dispatch, untyped) and `inputs.raw` (call, no usable type): everything below is silent, in a step of job `j` -/
example : (check (envOf (stepCx (ruleCx AL.PW.asciiLower {} wX) noNum [("j", jEx)] jEx exPre) keyRun)
      (below (.objDeref (.var "inputs") "cfg") [.prop "a", .lit "k", .star])).errs = [] ∧
    (check (envOf (stepCx (ruleCx AL.PW.asciiLower {} wX) noNum [("j", jEx)] jEx exPre) keyRun)
      (below (.objDeref (.var "inputs") "raw") [.num, .prop "b"])).errs = [] := by
  have hcx := inJob_hdr AL.PW.asciiLower {} wX noNum [("j", jEx)] jEx _
    (stepCx_after (ruleCx AL.PW.asciiLower {} wX) noNum [("j", jEx)] jEx exPre).toInJob
  refine ⟨untyped_dispatch_input_silent AL.PW.asciiLower {} wX [] [evCallX, evPushX] _ p0 rfl ?_ "cfg"
      ⟨_, List.mem_cons_self .., rfl⟩ ?_ _ hcx.1 keyRun _ (by rw [hcx.2]; exact av_inputs_run) rfl,
    untyped_call_input_silent AL.PW.asciiLower {} wX [evDispatchX] [evPushX] _ none none p0 rfl ?_ "raw"
      ⟨_, List.mem_cons_self .., rfl⟩ ?_ _ hcx.1 keyRun _ (by rw [hcx.2]; exact av_inputs_run) rfl⟩
  · intro e he
    simp only [List.mem_cons, List.not_mem_nil, or_false] at he
    rcases he with rfl | rfl <;> rfl
  · intro kv hkv hk
    simp only [Option.getD_some, List.mem_cons, List.not_mem_nil, or_false] at hkv
    rcases hkv with rfl | rfl | rfl
    · rfl
    · exact absurd hk (by decide)
    · exact absurd hk (by decide)
  · intro e he
    simp only [List.mem_singleton] at he
    subst he; rfl
  · intro i hi hk
    simp only [Option.getD_some, List.mem_cons, List.not_mem_nil, or_false] at hi
    rcases hi with rfl | rfl
    · rfl
    · exact absurd hk (by decide)

/-- `choice` and `environment` inputs are strings — KNOWN types: `inputs.pick.x` is reported -/
example : (check (envOf (ruleCx AL.PW.asciiLower {} wX) keyRun) (.objDeref (.var "inputs") "pick")).ty = .string ∧
    (check (envOf (ruleCx AL.PW.asciiLower {} wX) keyRun) (.objDeref (.var "inputs") "env")).ty = .string ∧
    (check (envOf (ruleCx AL.PW.asciiLower {} wX) keyRun) (.objDeref (.objDeref (.var "inputs") "pick") "x")).errs =
      [err "deref-not-object" ["x", "string"]] := by
  have hh : (ruleCx AL.PW.asciiLower {} wX).hdr = (wX.on.getD []).foldl eventHdr ⟨none, none, none⟩ :=
    (ruleCx_scope AL.PW.asciiLower {} wX).2.1
  have hlow : (ruleCx AL.PW.asciiLower {} wX).lower = AL.PW.asciiLower := (ruleCx_scope AL.PW.asciiLower {} wX).2.2.2.1
  have h1 := inputs_prop_ty (ruleCx AL.PW.asciiLower {} wX) keyRun "pick" .string (by rw [hlow]; exact av_inputs_run)
    (by rw [hh]; exact opt_tyEq (by decide +kernel))
  have h2 := inputs_prop_ty (ruleCx AL.PW.asciiLower {} wX) keyRun "env" .string (by rw [hlow]; exact av_inputs_run)
    (by rw [hh]; exact opt_tyEq (by decide +kernel))
  refine ⟨h1.2, h2.2, ?_⟩
  rw [(check_prop_of _ _ "x" _ rfl h1.2 h1.1).2]
  simp [objDerefTy, tyStr]

example : typedInput cxL (str "./w.yml") ("x", ⟨str "x", str "${{ fromJSON(vars.X) }}"⟩) [.any] = [] :=
  typedInput_any _ _ _ (by decide +kernel)

/-! ## 5. monotonicity at workflow level: a looser scope never adds a diagnostic

AL.Props.C06 (`mono'`): `check` is monotone in the environment's context types. Here: the environment
`checkSemanticsOfExprNode` builds is monotone in the per-job state (`matrix`, `steps`, `needs`), so replacing one of them by
a looser type — a row value / the element type of an array replaced by an expression of unknown type — never adds a
diagnostic to ANY expression checked under it. -/

open AL.Ty (LooserD LooserDProps)

/-- everything `mkEnv` does after the per-job state was put in: `secrets`, `inputs`, `github.event.inputs`, `jobs` -/
def secStep (hdr : Header) (v : List (String × Ty)) : List (String × Ty) :=
  match hdr.callSecrets with | some ns => Ty.setProp "secrets" (AL.Visit.secretsTy ns) v | none => v
def callStep (hdr : Header) (v : List (String × Ty)) : List (String × Ty) :=
  match hdr.callInputs with | some is => AL.Visit.updateInputs v (AL.Visit.objOf is) | none => v
def dispStep (hdr : Header) (v : List (String × Ty)) : List (String × Ty) :=
  match hdr.dispatchInputs with
  | some is => AL.Visit.setGithubEventInputs (AL.Visit.updateInputs v (AL.Visit.objOf is)) (is.map (·.1))
  | none => v
def jobsStep (jobsTy : Option Ty) (v : List (String × Ty)) : List (String × Ty) :=
  match jobsTy with | some t => Ty.setProp "jobs" t v | none => v
def afterSt (hdr : Header) (jobsTy : Option Ty) (v3 : List (String × Ty)) : List (String × Ty) :=
  jobsStep jobsTy (dispStep hdr (callStep hdr (secStep hdr v3)))

theorem mkEnv_vars_afterSt (lower : String → String) (hdr : Header) (jobsTy : Option Ty) (st : St) (key : String) :
    (mkEnv lower hdr jobsTy st key).vars = afterSt hdr jobsTy (stVars st) := rfl

/-- two variable lists that differ only by loosening, and not at all in `inputs` and `github` -/
def Rel (a b : List (String × Ty)) : Prop :=
  LooserDProps a b ∧ Ty.lookup "inputs" a = Ty.lookup "inputs" b ∧ Ty.lookup "github" a = Ty.lookup "github" b

theorem Rel.setProp {a b : List (String × Ty)} (k : String) (v : Ty) (h : Rel a b) : Rel (Ty.setProp k v a) (Ty.setProp k v b) :=
  ⟨LooserDProps.setProp (LooserD.refl v) h.1, by rw [lookup_setProp, lookup_setProp, h.2.1],
   by rw [lookup_setProp, lookup_setProp, h.2.2]⟩

theorem updateInputs_eq (vars : List (String × Ty)) (ty : Ty) :
    AL.Visit.updateInputs vars ty =
      match Ty.lookup "inputs" vars with
      | some o => Ty.setProp "inputs" (updInputs o ty) vars
      | none => vars := by
  unfold AL.Visit.updateInputs updInputs
  cases Ty.lookup "inputs" vars with
  | none => rfl
  | some o =>
    cases o with
    | obj ps m =>
      cases ps with
      | nil => cases m <;> rfl
      | cons a r => rfl
    | _ => rfl

theorem Rel.updateInputs {a b : List (String × Ty)} (ty : Ty) (h : Rel a b) :
    Rel (AL.Visit.updateInputs a ty) (AL.Visit.updateInputs b ty) := by
  rw [updateInputs_eq, updateInputs_eq, h.2.1]
  cases Ty.lookup "inputs" b with
  | none => exact h
  | some o => exact h.setProp ..

/-- `UpdateDispatchInputs` on the `github` variable itself -/
def ghUpd (ids : List String) : Ty → Option Ty
  | .obj gps gm =>
    (match Ty.lookup "event" gps with
     | some (.obj eps em) =>
       some (.obj (Ty.setProp "event" (.obj (Ty.setProp "inputs" (AL.Visit.objOf (ids.map fun i => (i, Ty.string))) eps) em) gps) gm)
     | _ => none)
  | _ => none

theorem setGithub_eq (vars : List (String × Ty)) (ids : List String) :
    AL.Visit.setGithubEventInputs vars ids =
      match (Ty.lookup "github" vars).bind (ghUpd ids) with
      | some g => Ty.setProp "github" g vars
      | none => vars := by
  unfold AL.Visit.setGithubEventInputs
  cases Ty.lookup "github" vars with
  | none => rfl
  | some g =>
    cases g with
    | obj gps gm =>
      simp only [Option.bind_some, ghUpd]
      cases Ty.lookup "event" gps with
      | none => rfl
      | some ev => cases ev <;> rfl
    | _ => rfl

theorem Rel.setGithub {a b : List (String × Ty)} (ids : List String) (h : Rel a b) :
    Rel (AL.Visit.setGithubEventInputs a ids) (AL.Visit.setGithubEventInputs b ids) := by
  rw [setGithub_eq, setGithub_eq, h.2.2]
  cases (Ty.lookup "github" b).bind (ghUpd ids) with
  | none => exact h
  | some g => exact h.setProp ..

theorem afterSt_rel (hdr : Header) (jobsTy : Option Ty) {a b : List (String × Ty)} (h : Rel a b) :
    Rel (afterSt hdr jobsTy a) (afterSt hdr jobsTy b) := by
  have h4 : Rel (secStep hdr a) (secStep hdr b) := by
    unfold secStep
    cases hdr.callSecrets with
    | none => exact h
    | some ns => exact h.setProp ..
  have h5 : Rel (callStep hdr (secStep hdr a)) (callStep hdr (secStep hdr b)) := by
    unfold callStep
    cases hdr.callInputs with
    | none => exact h4
    | some is => exact h4.updateInputs _
  have h6 : Rel (dispStep hdr (callStep hdr (secStep hdr a))) (dispStep hdr (callStep hdr (secStep hdr b))) := by
    unfold dispStep
    cases hdr.dispatchInputs with
    | none => exact h5
    | some is => exact (h5.updateInputs _).setGithub _
  unfold afterSt jobsStep
  cases jobsTy with
  | none => exact h6
  | some t => exact h6.setProp ..

/-- `none` stays `none`; a type may get looser -/
inductive OptLooser : Option Ty → Option Ty → Prop
  | none : OptLooser none none
  | some {t t' : Ty} : LooserD t t' → OptLooser (some t) (some t')

theorem OptLooser.refl : (o : Option Ty) → OptLooser o o
  | Option.none => .none
  | Option.some t => .some (LooserD.refl t)

/-- the per-job state got looser -/
structure StLooser (st st' : St) : Prop where
  matrix : OptLooser st.matrixTy st'.matrixTy
  steps : OptLooser st.stepsTy st'.stepsTy
  needs : OptLooser st.needsTy st'.needsTy

def optSet (k : String) (o : Option Ty) (v : List (String × Ty)) : List (String × Ty) :=
  match o with | some t => Ty.setProp k t v | none => v

theorem stVars_optSet (st : St) :
    stVars st = optSet "needs" st.needsTy (optSet "steps" st.stepsTy (optSet "matrix" st.matrixTy AL.Gen.globalVars)) := rfl

theorem optSet_looser (k : String) {o o' : Option Ty} (h : OptLooser o o') {a b : List (String × Ty)} (hab : LooserDProps a b) :
    LooserDProps (optSet k o a) (optSet k o' b) := by
  cases h with
  | none => exact hab
  | some ht => exact LooserDProps.setProp ht hab

theorem stVars_rel {st st' : St} (h : StLooser st st') : Rel (stVars st) (stVars st') :=
  ⟨by rw [stVars_optSet, stVars_optSet]
      exact optSet_looser _ h.needs (optSet_looser _ h.steps (optSet_looser _ h.matrix (LooserDProps.refl _))),
   by rw [lookup_stVars_other "inputs" (by decide) (by decide) (by decide), lookup_stVars_other "inputs" (by decide) (by decide) (by decide)],
   by rw [lookup_stVars_other "github" (by decide) (by decide) (by decide), lookup_stVars_other "github" (by decide) (by decide) (by decide)]⟩

/-- **the environment an expression is checked in is monotone in the per-job state** -/
theorem envOf_looserD (cx cx' : Cx) (key : String) (hl : cx'.lower = cx.lower) (hh : cx'.hdr = cx.hdr)
    (hj : cx'.jobsTy = cx.jobsTy) (hp : cx'.proj.configVars = cx.proj.configVars) (hst : StLooser cx.st cx'.st) :
    LooserEnvD (envOf cx key) (envOf cx' key) := by
  refine ⟨?_, rfl, rfl, rfl, rfl, hp, hl, ?_⟩
  · show LooserDProps (afterSt cx.hdr cx.jobsTy (stVars cx.st)) (afterSt cx'.hdr cx'.jobsTy (stVars cx'.st))
    rw [hh, hj]
    exact (afterSt_rel cx.hdr cx.jobsTy (stVars_rel hst)).1
  · show AL.Json.fromJson cx'.lower = AL.Json.fromJson cx.lower
    rw [hl]

/-- **workflow-level monotonicity**: if the state `cx'` differs from `cx` only in that `matrix` / `steps` / `needs` are
looser, every expression accepted under `cx` (under any workflow key) is accepted under `cx'`, and its type only gets
looser. (`WfEnv`: the representation invariant "property lists are key-sorted", see `envOf_wf`.) -/
theorem state_mono (cx cx' : Cx) (key : String) (e : E) (hl : cx'.lower = cx.lower) (hh : cx'.hdr = cx.hdr)
    (hj : cx'.jobsTy = cx.jobsTy) (hp : cx'.proj.configVars = cx.proj.configVars) (hst : StLooser cx.st cx'.st)
    (hwf : WfEnv (envOf cx key)) (he : (check (envOf cx key) e).errs = []) :
    (check (envOf cx' key) e).errs = [] ∧ LooserD (check (envOf cx key) e).ty (check (envOf cx' key) e).ty :=
  AL.C06.mono' (envOf cx key) (envOf cx' key) e (envOf_looserD cx cx' key hl hh hj hp hst) hwf AL.C06.builtin_same_ret he

/-! ### the representation invariant: every environment the rule builds is well formed -/

open AL.Ty (wf wfProps wfOpt sortedKeys)

theorem optSet_wf (k : String) (o : Option Ty) (v : List (String × Ty)) (ho : wfOpt o = true) (hv : wfProps v = true) :
    wfProps (optSet k o v) = true := by
  cases o with
  | none => exact hv
  | some t => exact Ty.setProp_wfProps ho v hv

/-- a fold of `setProp k string` keeps a property list sorted and well formed -/
theorem foldKeys_wf {α : Type} (key : α → String) : ∀ (l : List α) (acc : List (String × Ty)),
    sortedKeys acc = true → wfProps acc = true →
    sortedKeys (l.foldl (fun ps a => Ty.setProp (key a) .string ps) acc) = true ∧
    wfProps (l.foldl (fun ps a => Ty.setProp (key a) .string ps) acc) = true := by
  intro l
  induction l with
  | nil => intro acc h1 h2; exact ⟨h1, h2⟩
  | cons a rest ih =>
    intro acc h1 h2
    exact ih _ (Ty.setProp_sorted acc h1) (Ty.setProp_wfProps rfl acc h2)

theorem secretsTy_wf (ns : List String) : wf (AL.Visit.secretsTy ns) = true := by
  have := foldKeys_wf (fun n : String => n) ns
    [("actions_runner_debug", .string), ("actions_step_debug", .string), ("github_token", .string)] (by decide) (by decide)
  simp only [AL.Visit.secretsTy, wf, this.1, this.2, Bool.and_self]

theorem objOf_wf (is : List (String × Ty)) (h : ∀ e ∈ is, wf e.2 = true) : wf (AL.Visit.objOf is) = true := by
  simp only [AL.Visit.objOf, wf, AL.Sema.foldl_setProp_pairs_sorted is [] rfl, AL.Sema.foldl_setProp_pairs_wfProps is h [] rfl, Bool.and_self]

theorem updInputs_wf (o ty : Ty) (ho : wf o = true) (ht : wf ty = true) : wf (updInputs o ty) = true := by
  unfold updInputs
  split
  · exact ht
  · exact Ty.merge_wf ty o ho ht

theorem updateInputs_wf (v : List (String × Ty)) (ty : Ty) (hv : wfProps v = true) (ht : wf ty = true) :
    wfProps (AL.Visit.updateInputs v ty) = true := by
  rw [updateInputs_eq]
  cases h : Ty.lookup "inputs" v with
  | none => exact hv
  | some o => exact Ty.setProp_wfProps (updInputs_wf o ty (Ty.lookup_wf v hv h) ht) v hv

theorem ghUpd_wf (ids : List String) (g g' : Ty) (hg : wf g = true) (h : ghUpd ids g = some g') : wf g' = true := by
  cases g with
  | obj gps gm =>
    simp only [ghUpd] at h
    cases he : Ty.lookup "event" gps with
    | none => rw [he] at h; cases h
    | some ev =>
      rw [he] at h
      cases ev with
      | obj eps em =>
        simp only [Option.some.injEq] at h
        rw [Ty.wf_obj] at hg
        simp only [Bool.and_eq_true] at hg
        have hev := Ty.lookup_wf gps hg.1.2 he
        rw [Ty.wf_obj] at hev
        simp only [Bool.and_eq_true] at hev
        have hstr : wf (AL.Visit.objOf (ids.map fun i => (i, Ty.string))) = true :=
          objOf_wf _ (fun e he => by
            simp only [List.mem_map] at he
            obtain ⟨i, _, rfl⟩ := he
            rfl)
        have hX : wf (.obj (Ty.setProp "inputs" (AL.Visit.objOf (ids.map fun i => (i, Ty.string))) eps) em) = true := by
          rw [Ty.wf_obj]
          simp only [Bool.and_eq_true]
          exact ⟨⟨Ty.setProp_sorted eps hev.1.1, Ty.setProp_wfProps hstr eps hev.1.2⟩, hev.2⟩
        rw [← h, Ty.wf_obj]
        simp only [Bool.and_eq_true]
        exact ⟨⟨Ty.setProp_sorted gps hg.1.1, Ty.setProp_wfProps hX gps hg.1.2⟩, hg.2⟩
      | _ => simp at h
  | _ => simp [ghUpd] at h

theorem setGithub_wf (v : List (String × Ty)) (ids : List String) (hv : wfProps v = true) :
    wfProps (AL.Visit.setGithubEventInputs v ids) = true := by
  rw [setGithub_eq]
  cases hb : (Ty.lookup "github" v).bind (ghUpd ids) with
  | none => exact hv
  | some g' =>
    cases hg : Ty.lookup "github" v with
    | none => rw [hg] at hb; cases hb
    | some g =>
      rw [hg] at hb
      exact Ty.setProp_wfProps (ghUpd_wf ids g g' (Ty.lookup_wf v hv hg) hb) v hv

/-- **every environment `checkSemanticsOfExprNode` builds is well formed** when the types in the rule's state are (the
per-job types, `jobs`, the declared types of the inputs) -/
theorem envOf_wf (cx : Cx) (key : String)
    (hm : wfOpt cx.st.matrixTy = true) (hs : wfOpt cx.st.stepsTy = true) (hn : wfOpt cx.st.needsTy = true)
    (hj : wfOpt cx.jobsTy = true)
    (hc : ∀ is, cx.hdr.callInputs = some is → ∀ e ∈ is, wf e.2 = true)
    (hd : ∀ is, cx.hdr.dispatchInputs = some is → ∀ e ∈ is, wf e.2 = true) : WfEnv (envOf cx key) := by
  refine ⟨?_, AL.C06.builtin_rets_wf, AL.Sema.fromJson_wf cx.lower⟩
  show wfProps (afterSt cx.hdr cx.jobsTy (stVars cx.st)) = true
  have h3 : wfProps (stVars cx.st) = true := by
    rw [stVars_optSet]
    exact optSet_wf _ _ _ hn (optSet_wf _ _ _ hs (optSet_wf _ _ _ hm AL.C06.builtin_vars_wf.1))
  have h4 : wfProps (secStep cx.hdr (stVars cx.st)) = true := by
    unfold secStep
    cases cx.hdr.callSecrets with
    | none => exact h3
    | some ns => exact Ty.setProp_wfProps (secretsTy_wf ns) _ h3
  have h5 : wfProps (callStep cx.hdr (secStep cx.hdr (stVars cx.st))) = true := by
    unfold callStep
    cases hci : cx.hdr.callInputs with
    | none => exact h4
    | some is => exact updateInputs_wf _ _ h4 (objOf_wf is (hc is hci))
  have h6 : wfProps (dispStep cx.hdr (callStep cx.hdr (secStep cx.hdr (stVars cx.st)))) = true := by
    unfold dispStep
    cases hdi : cx.hdr.dispatchInputs with
    | none => exact h5
    | some is => exact setGithub_wf _ _ (updateInputs_wf _ _ h5 (objOf_wf is (hd is hdi)))
  unfold afterSt jobsStep
  cases hjt : cx.jobsTy with
  | none => exact h6
  | some t => rw [hjt] at hj; exact Ty.setProp_wfProps hj _ h6

/-! ### the types the rule puts into its state are well formed -/

theorem declaredOutputsTy_wf (j : Job) : wf (declaredOutputsTy j) = true := by
  have := foldKeys_wf (fun kv : String × Output => kv.1) (j.outputs.getD []) [] rfl rfl
  simp only [declaredOutputsTy, wf, this.1, this.2, Bool.and_self]

theorem needEntry_wf (outs : List (String × Ty)) (i : String) (j : Job) (ho : ∀ t, Ty.lookup i outs = some t → wf t = true) :
    wf (needEntry outs i j) = true := by
  have hX : wf (if j.workflowCall.isNone then declaredOutputsTy j else (Ty.lookup i outs).getD mapOfString) = true := by
    split
    · exact declaredOutputsTy_wf j
    · cases h : Ty.lookup i outs with
      | none => rfl
      | some t => exact ho t h
  have hlt : ("outputs" : String) < "result" := by decide
  simp only [Option.isNone_iff_eq_none] at hX
  simp [needEntry, wf, sortedKeys, Ty.keysGt, wfProps, hX, hlt]

theorem needsFold_wf (outs : List (String × Ty)) (lower : String → String) (jobs : List (String × Job)) (self : String)
    (ho : ∀ i t, Ty.lookup i outs = some t → wf t = true) : ∀ (needs : List Str) (acc : List (String × Ty)),
    sortedKeys acc = true → wfProps acc = true →
    sortedKeys (needs.foldl (needsStep outs lower jobs self) acc) = true ∧
    wfProps (needs.foldl (needsStep outs lower jobs self) acc) = true := by
  intro needs
  induction needs with
  | nil => intro acc h1 h2; exact ⟨h1, h2⟩
  | cons id rest ih =>
    intro acc h1 h2
    simp only [List.foldl_cons]
    apply ih
    · unfold needsStep
      simp only
      split
      · exact h1
      · split
        · exact h1
        · split
          · exact h1
          · exact Ty.setProp_sorted acc h1
    · unfold needsStep
      simp only
      split
      · exact h2
      · split
        · exact h2
        · split
          · exact h2
          · exact Ty.setProp_wfProps (needEntry_wf outs _ _ (ho _)) acc h2

theorem needsTy_wf (outs : List (String × Ty)) (lower : String → String) (jobs : List (String × Job)) (job : Job)
    (ho : ∀ i t, Ty.lookup i outs = some t → wf t = true) : wf (needsTy outs lower jobs job) = true := by
  have := needsFold_wf outs lower jobs (lower job.id.value) ho (job.needs.getD []) [] rfl rfl
  rw [needsTy_eq]
  simp only [wf, this.1, this.2, Bool.and_self]

theorem popularOutputs_wf (spec : String) (t : Ty) (h : popularOutputs spec = some t) : wf t = true := by
  unfold popularOutputs at h
  cases hf : AL.Gen.popularChunks.findSome? (fun ch => ch.find? (·.1 = spec)) with
  | none => rw [hf] at h; cases h
  | some e =>
    obtain ⟨sp, ins, outs, dep, skip⟩ := e
    rw [hf] at h
    simp only at h
    cases skip with
    | true => simp only [if_true, Option.some.injEq] at h; rw [← h]; rfl
    | false =>
      simp only [Bool.false_eq_true, if_false, Option.some.injEq] at h
      have := foldKeys_wf (fun o : String × String => AL.PW.asciiLower o.1) outs [] rfl rfl
      rw [← h]
      simp only [wf, this.1, this.2, Bool.and_self]

theorem actionOutputsTy_wf (lo : String → Option Ty) (hlo : ∀ s t, lo s = some t → wf t = true) (spec : Option Str) :
    wf (actionOutputsTy lo spec) = true := by
  unfold actionOutputsTy
  cases spec with
  | none => rfl
  | some s =>
    simp only
    split
    · cases h : lo s.value with
      | none => rfl
      | some t => exact hlo _ t h
    · split
      · rfl
      · cases h : popularOutputs s.value with
        | none => rfl
        | some t => exact popularOutputs_wf _ t h

theorem addStepFold_wf (lower : String → String) : ∀ (ss : List AL.Visit.StepM) (ps : List (String × Ty)) (m : Option Ty),
    (∀ s ∈ ss, wf s.outputs = true) → sortedKeys ps = true → wfProps ps = true → wfOpt m = true →
    wf (ss.foldl (AL.Visit.addStep lower) (.obj ps m)) = true := by
  intro ss
  induction ss with
  | nil =>
    intro ps m _ h1 h2 h3
    rw [List.foldl_nil, Ty.wf_obj]
    simp [h1, h2, h3]
  | cons s rest ih =>
    intro ps m hall h1 h2 h3
    simp only [List.foldl_cons, AL.Visit.addStep_obj]
    have hrest : ∀ s' ∈ rest, wf s'.outputs = true := fun s' hs' => hall s' (List.mem_cons_of_mem _ hs')
    cases s.id with
    | none => exact ih ps m hrest h1 h2 h3
    | some id =>
      simp only
      have hout := hall s (List.mem_cons_self ..)
      have h12 : ("conclusion" : String) < "outcome" := by decide
      have h13 : ("conclusion" : String) < "outputs" := by decide
      have h23 : ("outcome" : String) < "outputs" := by decide
      have hent : wf (.obj [("conclusion", .string), ("outcome", .string), ("outputs", s.outputs)] none) = true := by
        simp [wf, sortedKeys, Ty.keysGt, wfProps, hout, h12, h13, h23]
      refine ih _ _ hrest (Ty.setProp_sorted ps h1) (Ty.setProp_wfProps hent ps h2) ?_
      split
      · rfl
      · exact h3

theorem stepsAfter_wf (cx : Cx) (hlo : ∀ s t, cx.proj.actionOutputs s = some t → wf t = true) (ss : List Step) :
    wf (stepsAfter cx ss) = true := by
  unfold stepsAfter
  refine addStepFold_wf cx.lower _ [] none ?_ rfl rfl rfl
  intro sm hsm
  simp only [List.mem_map] at hsm
  obtain ⟨s, _, rfl⟩ := hsm
  exact actionOutputsTy_wf _ hlo _

/-- the declared types of the inputs in a header -/
def HdrWf (hdr : Header) : Prop :=
  (∀ is, hdr.callInputs = some is → ∀ e ∈ is, wf e.2 = true) ∧
  (∀ is, hdr.dispatchInputs = some is → ∀ e ∈ is, wf e.2 = true)

theorem eventHdr_wf (hdr : Header) (h : HdrWf hdr) (e : Ast.Event) : HdrWf (eventHdr hdr e) := by
  cases e with
  | dispatch ins p =>
    refine ⟨h.1, fun is his x hx => ?_⟩
    simp only [eventHdr, Option.some.injEq] at his
    rw [← his] at hx
    simp only [List.mem_map] at hx
    obtain ⟨kv, _, rfl⟩ := hx
    cases kv.2.type <;> rfl
  | call ins secs outs p =>
    refine ⟨fun is his x hx => ?_, h.2⟩
    simp only [eventHdr, Option.some.injEq] at his
    rw [← his] at hx
    simp only [List.mem_map] at hx
    obtain ⟨i, _, rfl⟩ := hx
    cases i.type <;> rfl
  | webhook _ => exact h
  | schedule _ _ => exact h
  | repoDispatch _ _ => exact h

/-- the header of every workflow is well formed (the declared types are scalars or `any`) -/
theorem ruleCx_hdr_wf (lower : String → String) (proj : ProjView) (w : Workflow) : HdrWf (ruleCx lower proj w).hdr := by
  rw [(ruleCx_scope lower proj w).2.1]
  have : ∀ (es : List Ast.Event) (hdr : Header), HdrWf hdr → HdrWf (es.foldl eventHdr hdr) := by
    intro es
    induction es with
    | nil => intro hdr h; exact h
    | cons e rest ih => intro hdr h; exact ih _ (eventHdr_wf hdr h e)
  exact this _ _ (And.intro (fun _ h => nomatch h) (fun _ h => nomatch h))

/-- what comes from outside the file: the types the project's view holds are well formed (they are: AL.ProjCall.outputsTy
and `typeOfActionOutputs` build them with `setProp`) -/
structure ProjWf (proj : ProjView) : Prop where
  outs : ∀ id i t, Ty.lookup i (proj.jobView id).outs = some t → wf t = true
  actions : ∀ s t, proj.actionOutputs s = some t → wf t = true

theorem projWf_empty : ProjWf {} := ⟨fun _ _ _ h => by simp [ProjView.jobView, Ty.lookup] at h, fun _ _ h => nomatch h⟩

/-- **the environment of every state after some steps of a job is well formed**, given that of the job's matrix type -/
theorem afterSteps_wf (cx0 : Cx) (isNum : IsNumber) (jobs : List (String × Job)) (n : Job) (pre : List Step) (cx : Cx)
    (hcx : AfterSteps cx0 isNum jobs n pre cx) (hjobs : wfOpt cx.jobsTy = true) (hhdr : HdrWf cx0.hdr) (hproj : ProjWf cx0.proj)
    (hm : wfOpt (jobCx cx0 isNum jobs n).st.matrixTy = true) (key : String) : WfEnv (envOf cx key) := by
  refine envOf_wf cx key ?_ ?_ ?_ hjobs ?_ ?_
  · rw [hcx.matrix]; exact hm
  · rw [hcx.steps]
    exact stepsAfter_wf _ (by rw [(jobCxS_scope cx0 isNum jobs n).2.2.2.2.2]; exact hproj.actions) pre
  · rw [hcx.needs]
    exact needsTy_wf _ _ _ _ (hproj.outs _)
  · rw [hcx.hdr]; exact hhdr.1
  · rw [hcx.hdr]; exact hhdr.2

/-! ### 5a. a row value replaced by an expression of unknown type -/

theorem propsFold_looser (post : List (String × Ty)) : ∀ (a b : List (String × Ty)), LooserDProps a b →
    LooserDProps (AL.Visit.propsFold a post) (AL.Visit.propsFold b post) := by
  induction post with
  | nil => intro a b h; exact h
  | cons x rest ih =>
    intro a b h
    exact ih _ _ (LooserDProps.setProp (LooserD.refl x.2) h)

theorem propsFold_replace (k : String) (t : Ty) (post : List (String × Ty)) : ∀ (pre a : List (String × Ty)),
    LooserDProps (AL.Visit.propsFold a (pre ++ (k, t) :: post)) (AL.Visit.propsFold a (pre ++ (k, .any) :: post)) := by
  intro pre
  induction pre with
  | nil =>
    intro a
    exact propsFold_looser post _ _ (LooserDProps.setProp (.any t) (LooserDProps.refl a))
  | cons x rest ih =>
    intro a
    exact ih (Ty.setProp x.1 x.2 a)

/-- the rows object only gets looser when one row is replaced by a row of type `any` -/
theorem rows_replaced_looser (cx : Cx) (isNum : IsNumber) (pre post : List (String × MatrixRow)) (k : String) (r r' : MatrixRow)
    (hany : (rowTy cx isNum r').1 = .any) :
    LooserDProps (rowsProps cx isNum (pre ++ (k, r) :: post)) (rowsProps cx isNum (pre ++ (k, r') :: post)) := by
  unfold rowsProps
  simp only [List.map_append, List.map_cons, hany]
  exact propsFold_replace k _ _ _ []

/-- **the matrix type only gets looser** when (in a matrix of literal rows, without `include:`) the value of one row is
replaced by an expression of unknown type -/
theorem matrix_row_replaced_looser (cx : Cx) (isNum : IsNumber) (m m' : Matrix) (pre post : List (String × MatrixRow)) (k : String)
    (r r' : MatrixRow) (he : m.expr = none) (hi : m.incl = none) (he' : m'.expr = none) (hi' : m'.incl = none)
    (hr : m.rows.getD [] = pre ++ (k, r) :: post) (hr' : m'.rows.getD [] = pre ++ (k, r') :: post)
    (hany : (rowTy cx isNum r').1 = .any) :
    LooserD (checkMatrix cx isNum m).1 (checkMatrix cx isNum m').1 := by
  rw [checkMatrix_lit cx isNum m he, checkMatrix_lit cx isNum m' he', hi, hi', hr, hr']
  exact .obj (rows_replaced_looser cx isNum pre post k r r' hany) .none

theorem needsTy_congr_job (outs : List (String × Ty)) (lower : String → String) (jobs : List (String × Job)) (n n' : Job)
    (hid : n'.id = n.id) (hneeds : n'.needs = n.needs) : needsTy outs lower jobs n' = needsTy outs lower jobs n := by
  unfold needsTy
  rw [hid, hneeds]

theorem jobCx1_congr (cx0 : Cx) (jobs : List (String × Job)) (n n' : Job) (hid : n'.id = n.id) (hneeds : n'.needs = n.needs) :
    jobCx1 cx0 jobs n' = jobCx1 cx0 jobs n := by
  unfold jobCx1
  rw [hid, needsTy_congr_job _ _ _ n n' hid hneeds]

theorem stepsAfter_congr (cx cx' : Cx) (hp : cx'.proj = cx.proj) (hl : cx'.lower = cx.lower) (ss : List Step) :
    stepsAfter cx' ss = stepsAfter cx ss := by
  unfold stepsAfter
  have : AL.C05E.stepM cx' = AL.C05E.stepM cx := by funext s; exact stepM_congr cx cx' hp s
  rw [this, hl]

/-- **workflow-level monotonicity in the matrix**: job `n'` is job `n` with another matrix whose TYPE is looser (same id,
same `needs`). Then after the same steps every expression accepted in `n` is accepted in `n'` — no diagnostic of `check`
is ADDED: no "undefined property", no type mismatch of a function argument or a comparison, nothing. -/
theorem matrix_looser_mono (cx0 : Cx) (isNum : IsNumber) (jobs : List (String × Job)) (n n' : Job)
    (hid : n'.id = n.id) (hneeds : n'.needs = n.needs) (m m' : Matrix) (hm : matrixOf n = some m) (hm' : matrixOf n' = some m')
    (hL : LooserD (checkMatrix (jobCx1 cx0 jobs n) isNum m).1 (checkMatrix (jobCx1 cx0 jobs n) isNum m').1)
    (steps : List Step) (cx cx' : Cx) (hcx : AfterSteps cx0 isNum jobs n steps cx) (hcx' : AfterSteps cx0 isNum jobs n' steps cx')
    (hj : cx'.jobsTy = cx.jobsTy) (hp : cx'.proj.configVars = cx.proj.configVars)
    (key : String) (e : E) (hwf : WfEnv (envOf cx key)) (hok : (check (envOf cx key) e).errs = []) :
    (check (envOf cx' key) e).errs = [] := by
  have h1 := jobCx1_congr cx0 jobs n n' hid hneeds
  have hmx : cx.st.matrixTy = some (checkMatrix (jobCx1 cx0 jobs n) isNum m).1 := by
    rw [hcx.matrix, (jobCx_scope cx0 isNum jobs n).2.1, hm]
  have hmx' : cx'.st.matrixTy = some (checkMatrix (jobCx1 cx0 jobs n) isNum m').1 := by
    rw [hcx'.matrix, (jobCx_scope cx0 isNum jobs n').2.1, hm', h1]
  have hS : stepsAfter (jobCxS cx0 isNum jobs n') steps = stepsAfter (jobCxS cx0 isNum jobs n) steps :=
    stepsAfter_congr _ _
      ((jobCxS_scope cx0 isNum jobs n').2.2.2.2.2.trans (jobCxS_scope cx0 isNum jobs n).2.2.2.2.2.symm)
      ((jobCxS_scope cx0 isNum jobs n').2.2.2.2.1.trans (jobCxS_scope cx0 isNum jobs n).2.2.2.2.1.symm) steps
  have hst : StLooser cx.st cx'.st := by
    refine ⟨?_, ?_, ?_⟩
    · rw [hmx, hmx']
      exact .some hL
    · rw [hcx.steps, hcx'.steps, hS]; exact OptLooser.refl _
    · rw [hcx.needs, hcx'.needs, hid, needsTy_congr_job _ _ _ n n' hid hneeds]; exact OptLooser.refl _
  exact (state_mono cx cx' key e (hcx'.lower.trans hcx.lower.symm) (hcx'.hdr.trans hcx.hdr.symm) hj hp hst hwf hok).1

/-- **5a. a row**: the value of one matrix row replaced by an expression of unknown type (matrices of rows, without
`include:`) -/
theorem row_replaced_mono (cx0 : Cx) (isNum : IsNumber) (jobs : List (String × Job)) (n n' : Job)
    (hid : n'.id = n.id) (hneeds : n'.needs = n.needs) (m m' : Matrix) (hm : matrixOf n = some m) (hm' : matrixOf n' = some m')
    (pre post : List (String × MatrixRow)) (k : String) (r r' : MatrixRow)
    (he : m.expr = none) (hi : m.incl = none) (he' : m'.expr = none) (hi' : m'.incl = none)
    (hr : m.rows.getD [] = pre ++ (k, r) :: post) (hr' : m'.rows.getD [] = pre ++ (k, r') :: post)
    (hany : (rowTy (jobCx1 cx0 jobs n) isNum r').1 = .any)
    (steps : List Step) (cx cx' : Cx) (hcx : AfterSteps cx0 isNum jobs n steps cx) (hcx' : AfterSteps cx0 isNum jobs n' steps cx')
    (hj : cx'.jobsTy = cx.jobsTy) (hp : cx'.proj.configVars = cx.proj.configVars)
    (key : String) (e : E) (hwf : WfEnv (envOf cx key)) (hok : (check (envOf cx key) e).errs = []) :
    (check (envOf cx' key) e).errs = [] :=
  matrix_looser_mono cx0 isNum jobs n n' hid hneeds m m' hm hm'
    (matrix_row_replaced_looser _ isNum m m' pre post k r r' he hi he' hi' hr hr' hany) steps cx cx' hcx hcx' hj hp key e hwf hok

/-- what the states `stepCx` / `jobCxPost` of a job inherit from `cx0` besides the scope: `jobs` and the project -/
theorem visitSteps_jobsTy (ss : List Step) : ∀ (cx : Cx), (visitSteps cx ss).1.jobsTy = cx.jobsTy := by
  induction ss with
  | nil => intro cx; rfl
  | cons s rest ih =>
    intro cx
    simp only [visitSteps]
    rw [ih, (AL.C05E.visitStep_scope cx s).2.2.2.2.2]

theorem stepCx_jobsTy_proj (cx0 : Cx) (isNum : IsNumber) (jobs : List (String × Job)) (n : Job) (pre : List Step) :
    (stepCx cx0 isNum jobs n pre).jobsTy = cx0.jobsTy ∧ (stepCx cx0 isNum jobs n pre).proj = cx0.proj := by
  unfold stepCx
  refine ⟨?_, ?_⟩
  · rw [visitSteps_jobsTy]
    show (jobCx cx0 isNum jobs n).jobsTy = _
    exact (jobCx_scope cx0 isNum jobs n).2.2.2.2.2.1
  · rw [(visitSteps_stepsTy pre _).2]
    exact (jobCxS_scope cx0 isNum jobs n).2.2.2.2.2

/-! ### the matrix type of literal rows is well formed — so 5a needs no hypothesis about the representation -/

theorem checkOne_wf (cx : Cx) (key : String) (rest : List Nat) (t : Ty) (off : Nat) (es : List SemaErr)
    (hΓ : WfEnv (envOf cx key)) (h : checkOne cx key false rest = (some (t, off), es)) : wf t = true := by
  rw [checkOne_eq] at h
  split at h
  · rename_i e off' _
    split at h
    · simp only [Prod.mk.injEq, Option.some.injEq] at h
      rw [← h.1.1]
      exact check_wf hΓ e
    · simp at h
  · simp at h

theorem scan_wf (cx : Cx) (key : String) (hΓ : WfEnv (envOf cx key)) : ∀ (fuel : Nat) (s : List Nat) (ts ts' : List Ty)
    (es : List SemaErr), (∀ t ∈ ts, wf t = true) → scan cx key false fuel s ts = (some ts', es) → ∀ t ∈ ts', wf t = true := by
  intro fuel
  induction fuel with
  | zero =>
    intro s ts ts' es hts h
    simp only [scan, Prod.mk.injEq, Option.some.injEq] at h
    rw [← h.1]; exact hts
  | succ fuel ih =>
    intro s ts ts' es hts h
    simp only [scan] at h
    cases hi : AL.Proc.indexOf AL.Proc.open3 s 0 with
    | none =>
      rw [hi] at h
      simp only [Prod.mk.injEq, Option.some.injEq] at h
      rw [← h.1]; exact hts
    | some idx =>
      rw [hi] at h
      simp only at h
      cases hc : checkOne cx key false (s.drop (idx + 3)) with
      | mk o es1 =>
        rw [hc] at h
        cases o with
        | none => simp at h
        | some p =>
          obtain ⟨ty, off⟩ := p
          simp only at h
          by_cases h0 : off = 0
          · simp only [h0, if_true, Prod.mk.injEq, Option.some.injEq] at h
            rw [← h.1]
            intro t ht; cases ht
          · simp only [h0, if_false] at h
            refine ih _ _ ts' es ?_ h
            intro t ht
            rcases List.mem_append.1 ht with ht | ht
            · exact hts t ht
            · simp only [List.mem_singleton] at ht
              rw [ht]
              exact checkOne_wf cx key _ ty off es1 hΓ hc

theorem checkExprsIn_wf (cx : Cx) (key s : String) (hΓ : WfEnv (envOf cx key)) (ts : List Ty) (es : List SemaErr)
    (h : checkExprsIn cx key false s = (some ts, es)) : ∀ t ∈ ts, wf t = true :=
  scan_wf cx key hΓ _ _ [] ts es (fun _ h => nomatch h) h

theorem checkOneExpression_wf (cx : Cx) (s : Option Str) (what key : String) (hΓ : WfEnv (envOf cx key)) (t : Ty)
    (h : (checkOneExpression cx s what key).1 = some t) : wf t = true := by
  unfold checkOneExpression at h
  cases s with
  | none => simp at h
  | some str =>
    simp only at h
    cases hc : checkExprsIn cx key false str.value with
    | mk o es =>
      rw [hc] at h
      cases o with
      | none => simp at h
      | some ts =>
        cases ts with
        | nil => simp at h
        | cons t1 r =>
          cases r with
          | nil =>
            simp only [Option.some.injEq] at h
            rw [← h]
            exact checkExprsIn_wf cx key str.value hΓ [t1] es hc t1 (List.mem_singleton.2 rfl)
          | cons _ _ => simp at h

theorem mustBe_fst (p : Ty → Bool) (code what : String) (s : Option Str) (r : Option Ty × List Diag) (t : Ty)
    (h : (mustBe p code what s r).1 = some t) : r.1 = some t := by
  unfold mustBe at h
  split at h
  · split at h
    · exact h
    · simp at h
  · exact h

theorem rawStringTy_wf (cx : Cx) (isNum : IsNumber) (v : String) (pos : AL.Matrix.P) (hΓ : WfEnv (envOf cx "jobs.<job_id>.strategy")) :
    wf (rawStringTy cx isNum v pos).1 = true := by
  unfold rawStringTy
  simp only
  split
  · cases hc : checkExprsIn cx "jobs.<job_id>.strategy" false v with
    | mk o es =>
      cases o with
      | none => rfl
      | some ts =>
        cases ts with
        | nil => rfl
        | cons t1 r =>
          cases r with
          | nil => exact checkExprsIn_wf cx _ v hΓ [t1] es hc t1 (List.mem_singleton.2 rfl)
          | cons _ _ => rfl
  · split
    · rfl
    · split
      · rfl
      · split <;> rfl

theorem rawTy_str (cx : Cx) (isNum : IsNumber) (v : String) (p : AL.Matrix.P) : rawTy cx isNum (.str v p) = rawStringTy cx isNum v p := by
  conv => lhs; unfold rawTy
theorem rawTy_arr_nil (cx : Cx) (isNum : IsNumber) (p : AL.Matrix.P) : rawTy cx isNum (.arr [] p) = (.arr .any false, []) := by
  conv => lhs; unfold rawTy
theorem rawTy_arr_cons (cx : Cx) (isNum : IsNumber) (e : AL.Matrix.Raw) (rest : List AL.Matrix.Raw) (p : AL.Matrix.P) :
    rawTy cx isNum (.arr (e :: rest) p) =
      (.arr (rawFold cx isNum (rawTy cx isNum e).1 rest).1 false,
       (rawTy cx isNum e).2 ++ (rawFold cx isNum (rawTy cx isNum e).1 rest).2) := by
  conv => lhs; unfold rawTy
theorem rawTy_obj (cx : Cx) (isNum : IsNumber) (ps : List (String × AL.Matrix.Raw)) (p : AL.Matrix.P) :
    rawTy cx isNum (.obj ps p) = (.obj (rawProps cx isNum ps).1 none, (rawProps cx isNum ps).2) := by
  conv => lhs; unfold rawTy
theorem rawFold_nil (cx : Cx) (isNum : IsNumber) (acc : Ty) : rawFold cx isNum acc [] = (acc, []) := by
  conv => lhs; unfold rawFold
theorem rawFold_cons (cx : Cx) (isNum : IsNumber) (acc : Ty) (v : AL.Matrix.Raw) (vs : List AL.Matrix.Raw) :
    rawFold cx isNum acc (v :: vs) =
      ((rawFold cx isNum (Ty.merge acc (rawTy cx isNum v).1) vs).1,
       (rawTy cx isNum v).2 ++ (rawFold cx isNum (Ty.merge acc (rawTy cx isNum v).1) vs).2) := by
  conv => lhs; unfold rawFold
theorem rawProps_nil (cx : Cx) (isNum : IsNumber) : rawProps cx isNum [] = ([], []) := by
  conv => lhs; unfold rawProps
theorem rawProps_cons (cx : Cx) (isNum : IsNumber) (k : String) (v : AL.Matrix.Raw) (ps : List (String × AL.Matrix.Raw)) :
    rawProps cx isNum ((k, v) :: ps) =
      (Ty.setProp k (rawTy cx isNum v).1 (rawProps cx isNum ps).1, (rawTy cx isNum v).2 ++ (rawProps cx isNum ps).2) := by
  conv => lhs; unfold rawProps

mutual
theorem rawTy_wf (cx : Cx) (isNum : IsNumber) (hΓ : WfEnv (envOf cx "jobs.<job_id>.strategy")) :
    (v : AL.Matrix.Raw) → wf (rawTy cx isNum v).1 = true
  | .str v p => by rw [rawTy_str]; exact rawStringTy_wf cx isNum v p hΓ
  | .arr [] p => by rw [rawTy_arr_nil]; rfl
  | .arr (e :: rest) p => by
    rw [rawTy_arr_cons]
    simp only [wf]
    exact rawFold_wf cx isNum hΓ rest _ (rawTy_wf cx isNum hΓ e)
  | .obj ps p => by
    rw [rawTy_obj]
    have := rawProps_wf cx isNum hΓ ps
    simp only [wf, this.1, this.2, Bool.and_self]
theorem rawFold_wf (cx : Cx) (isNum : IsNumber) (hΓ : WfEnv (envOf cx "jobs.<job_id>.strategy")) :
    (vs : List AL.Matrix.Raw) → ∀ acc, wf acc = true → wf (rawFold cx isNum acc vs).1 = true
  | [], acc, h => by rw [rawFold_nil]; exact h
  | v :: vs, acc, h => by
    rw [rawFold_cons]
    exact rawFold_wf cx isNum hΓ vs _ (Ty.merge_wf _ acc h (rawTy_wf cx isNum hΓ v))
theorem rawProps_wf (cx : Cx) (isNum : IsNumber) (hΓ : WfEnv (envOf cx "jobs.<job_id>.strategy")) :
    (ps : List (String × AL.Matrix.Raw)) → sortedKeys (rawProps cx isNum ps).1 = true ∧ wfProps (rawProps cx isNum ps).1 = true
  | [] => by rw [rawProps_nil]; exact ⟨rfl, rfl⟩
  | (k, v) :: ps => by
    rw [rawProps_cons]
    have := rawProps_wf cx isNum hΓ ps
    exact ⟨Ty.setProp_sorted _ this.1, Ty.setProp_wfProps (rawTy_wf cx isNum hΓ v) _ this.2⟩
end

theorem rowTy_wf (cx : Cx) (isNum : IsNumber) (hΓ : WfEnv (envOf cx "jobs.<job_id>.strategy")) (r : MatrixRow) :
    wf (rowTy cx isNum r).1 = true := by
  unfold rowTy
  cases he : r.expr with
  | some e =>
    simp only
    cases ha : (checkArrayExpression cx (some e) "matrix row" "jobs.<job_id>.strategy").1 with
    | none => rfl
    | some t =>
      have := checkOneExpression_wf cx (some e) "matrix row" _ hΓ t (mustBe_fst _ _ _ _ _ t ha)
      cases t with
      | arr el d => simpa [wf] using this
      | _ => rfl
  | none =>
    simp only
    cases r.values.getD [] with
    | nil => rfl
    | cons v vs => exact rawFold_wf cx isNum hΓ vs _ (rawTy_wf cx isNum hΓ v)

theorem rowsObj_wf (cx : Cx) (isNum : IsNumber) (hΓ : WfEnv (envOf cx "jobs.<job_id>.strategy")) (rows : List (String × MatrixRow)) :
    wf (.obj (rowsProps cx isNum rows) none) = true := by
  simp only [wf, rowsProps, AL.Visit.propsFold]
  rw [AL.Sema.foldl_setProp_pairs_sorted _ [] rfl, AL.Sema.foldl_setProp_pairs_wfProps _ ?_ [] rfl]
  · rfl
  · intro e hm
    simp only [List.mem_map] at hm
    obtain ⟨kv, _, rfl⟩ := hm
    exact rowTy_wf cx isNum hΓ kv.2

/-- the matrix type of a matrix of rows (literal or expressions), without `include:`, is well formed -/
theorem checkMatrix_rows_wf (cx : Cx) (isNum : IsNumber) (hΓ : WfEnv (envOf cx "jobs.<job_id>.strategy")) (m : Matrix)
    (he : m.expr = none) (hi : m.incl = none) : wf (checkMatrix cx isNum m).1 = true := by
  rw [checkMatrix_lit cx isNum m he, hi]
  exact rowsObj_wf cx isNum hΓ _

theorem assignsFold_wf (cx : Cx) (isNum : IsNumber) (hΓ : WfEnv (envOf cx "jobs.<job_id>.strategy")) :
    ∀ (as : List (String × MatrixAssign)) (ps : List (String × Ty)) (m : Option Ty) (ds : List Diag),
      wf (.obj ps m) = true →
      wf (as.foldl (fun (a : Ty × List Diag) kv =>
          let t := rawTy cx isNum kv.2.value
          match a.1 with
          | .obj ps m =>
            let ty' := match Ty.lookup kv.1 ps with
              | some old => Ty.merge old t.1
              | none => t.1
            (.obj (Ty.setProp kv.1 ty' ps) m, a.2 ++ t.2)
          | o => (o, a.2 ++ t.2)) (.obj ps m, ds)).1 = true := by
  intro as
  induction as with
  | nil => intro ps m ds h; exact h
  | cons kv rest ih =>
    intro ps m ds h
    simp only [List.foldl_cons]
    apply ih
    rw [Ty.wf_obj] at h ⊢
    simp only [Bool.and_eq_true] at h ⊢
    refine ⟨⟨Ty.setProp_sorted ps h.1.1, Ty.setProp_wfProps ?_ ps h.1.2⟩, h.2⟩
    cases hl : Ty.lookup kv.1 ps with
    | none => exact rawTy_wf cx isNum hΓ _
    | some old => exact Ty.merge_wf _ old (Ty.lookup_wf ps h.1.2 hl) (rawTy_wf cx isNum hΓ _)

theorem includeCombo_wf (cx : Cx) (isNum : IsNumber) (hΓ : WfEnv (envOf cx "jobs.<job_id>.strategy")) (c : MatrixCombination)
    (ps : List (String × Ty)) (m : Option Ty) (ds : List Diag) (h : wf (.obj ps m) = true) :
    wf (includeCombo cx isNum (.obj ps m, ds) c).1 = true := by
  cases hc : c.expr with
  | none =>
    simp only [includeCombo, hc]
    exact assignsFold_wf cx isNum hΓ _ ps m ds h
  | some e =>
    rw [includeCombo_expr cx isNum c e hc]
    cases ht : comboExprTy cx e with
    | none => exact h
    | some ty =>
      have hty : wf ty = true := checkOneExpression_wf cx (some e) _ _ hΓ ty ht
      have hopen : wf (.obj ps (some .any)) = true := by
        rw [Ty.wf_obj] at h ⊢
        simp only [Bool.and_eq_true] at h ⊢
        exact ⟨h.1, rfl⟩
      cases ty with
      | obj qs m' => exact Ty.merge_wf _ _ h hty
      | _ => exact hopen

theorem includeFold_wf (cx : Cx) (isNum : IsNumber) (hΓ : WfEnv (envOf cx "jobs.<job_id>.strategy")) :
    ∀ (cs : List MatrixCombination) (ps : List (String × Ty)) (m : Option Ty) (ds : List Diag), wf (.obj ps m) = true →
    wf (cs.foldl (includeCombo cx isNum) (.obj ps m, ds)).1 = true := by
  intro cs
  induction cs with
  | nil => intro ps m ds h; exact h
  | cons c rest ih =>
    intro ps m ds h
    simp only [List.foldl_cons]
    obtain ⟨ps1, m1, e1, _, _⟩ := includeCombo_step cx isNum c ps m ds
    have hw := includeCombo_wf cx isNum hΓ c ps m ds h
    have hpair : includeCombo cx isNum (.obj ps m, ds) c = (.obj ps1 m1, (includeCombo cx isNum (.obj ps m, ds) c).2) := by
      rw [← e1]
    rw [hpair]
    rw [e1] at hw
    exact ih ps1 m1 _ hw

/-- **the type of every literal matrix** (`matrix:` is a mapping: rows, `include` of any kind) **is well formed** -/
theorem checkMatrix_lit_wf (cx : Cx) (isNum : IsNumber) (hΓ : WfEnv (envOf cx "jobs.<job_id>.strategy")) (m : Matrix)
    (he : m.expr = none) : wf (checkMatrix cx isNum m).1 = true := by
  have hrows : wf (.obj (rowsProps cx isNum (m.rows.getD [])) none) = true := rowsObj_wf cx isNum hΓ _
  rw [checkMatrix_lit cx isNum m he]
  cases m.incl with
  | none => exact hrows
  | some inc =>
    simp only
    cases inc.expr with
    | none => exact includeFold_wf cx isNum hΓ _ _ none [] hrows
    | some e =>
      simp only
      cases hr : (checkOneExpression cx (some e) "include" "jobs.<job_id>.strategy").1 with
      | none => rfl
      | some t =>
        have ht := checkOneExpression_wf cx (some e) _ _ hΓ t hr
        cases t with
        | arr el d =>
          simp only
          have hmw := Ty.merge_wf el _ hrows (by simpa [wf] using ht)
          generalize Ty.merge (.obj (rowsProps cx isNum (m.rows.getD [])) none) el = mt at hmw
          cases mt with
          | obj ps mm => exact hmw
          | _ => rfl
        | _ => rfl

/-- what the state outside the jobs must satisfy for the environments to be well formed — true of the state `rule` visits
every job from (`ruleCx_wf`) -/
structure Cx0Wf (cx0 : Cx) : Prop where
  matrix : wfOpt cx0.st.matrixTy = true
  steps : wfOpt cx0.st.stepsTy = true
  jobs : wfOpt cx0.jobsTy = true
  hdr : HdrWf cx0.hdr
  proj : ProjWf cx0.proj

theorem ruleCx_wf (lower : String → String) (proj : ProjView) (w : Workflow) (hp : ProjWf proj) :
    Cx0Wf (ruleCx lower proj w) := by
  obtain ⟨a, _, c, _, e⟩ := ruleCx_scope lower proj w
  refine ⟨by rw [a]; rfl, by rw [a]; rfl, by rw [c]; rfl, ruleCx_hdr_wf lower proj w, by rw [e]; exact hp⟩

theorem cxL_wf : Cx0Wf cxL :=
  ⟨rfl, rfl, rfl, And.intro (fun _ h => nomatch h) (fun _ h => nomatch h), projWf_empty⟩

/-- the environment the matrix of a job is checked in is well formed -/
theorem jobCx1_wf (cx0 : Cx) (h0 : Cx0Wf cx0) (jobs : List (String × Job)) (n : Job) (key : String) :
    WfEnv (envOf (jobCx1 cx0 jobs n) key) :=
  envOf_wf _ key h0.matrix h0.steps (needsTy_wf _ _ _ _ (h0.proj.outs _)) h0.jobs h0.hdr.1 h0.hdr.2

/-- **workflow-level monotonicity in the matrix, for every workflow**: job `n'` = job `n` (a literal matrix) with another
matrix whose type is looser; after the same steps, whatever `check` accepts in `n` it accepts in `n'` — for every
expression and every workflow key. No hypothesis about the representation is left (`cx0 := ruleCx …` satisfies `Cx0Wf` by
`ruleCx_wf`). -/
theorem matrix_looser_mono_wf (cx0 : Cx) (h0 : Cx0Wf cx0) (isNum : IsNumber) (jobs : List (String × Job)) (n n' : Job)
    (hid : n'.id = n.id) (hneeds : n'.needs = n.needs) (m m' : Matrix) (hm : matrixOf n = some m) (hm' : matrixOf n' = some m')
    (he : m.expr = none)
    (hL : LooserD (checkMatrix (jobCx1 cx0 jobs n) isNum m).1 (checkMatrix (jobCx1 cx0 jobs n) isNum m').1)
    (steps : List Step) (key : String) (e : E)
    (hok : (check (envOf (stepCx cx0 isNum jobs n steps) key) e).errs = []) :
    (check (envOf (stepCx cx0 isNum jobs n' steps) key) e).errs = [] := by
  obtain ⟨j1, p1⟩ := stepCx_jobsTy_proj cx0 isNum jobs n steps
  obtain ⟨j2, p2⟩ := stepCx_jobsTy_proj cx0 isNum jobs n' steps
  have hmwf : wfOpt (jobCx cx0 isNum jobs n).st.matrixTy = true := by
    rw [(jobCx_scope cx0 isNum jobs n).2.1, hm]
    exact checkMatrix_lit_wf _ isNum (jobCx1_wf cx0 h0 jobs n _) m he
  have hwf := afterSteps_wf cx0 isNum jobs n steps _ (stepCx_after cx0 isNum jobs n steps) (by rw [j1]; exact h0.jobs)
    h0.hdr h0.proj hmwf key
  exact matrix_looser_mono cx0 isNum jobs n n' hid hneeds m m' hm hm' hL steps _ _
    (stepCx_after cx0 isNum jobs n steps) (stepCx_after cx0 isNum jobs n' steps) (j2.trans j1.symm) (by rw [p2, p1]) key e hwf hok

/-- **5a, for every workflow**: the value of one matrix row (matrices of rows, without `include:`) replaced by an
expression of unknown type never adds a diagnostic to a step of the job -/
theorem row_replaced_mono_wf (cx0 : Cx) (h0 : Cx0Wf cx0) (isNum : IsNumber) (jobs : List (String × Job)) (n n' : Job)
    (hid : n'.id = n.id) (hneeds : n'.needs = n.needs) (m m' : Matrix) (hm : matrixOf n = some m) (hm' : matrixOf n' = some m')
    (pre post : List (String × MatrixRow)) (k : String) (r r' : MatrixRow)
    (he : m.expr = none) (hi : m.incl = none) (he' : m'.expr = none) (hi' : m'.incl = none)
    (hr : m.rows.getD [] = pre ++ (k, r) :: post) (hr' : m'.rows.getD [] = pre ++ (k, r') :: post)
    (hany : (rowTy (jobCx1 cx0 jobs n) isNum r').1 = .any)
    (steps : List Step) (key : String) (e : E)
    (hok : (check (envOf (stepCx cx0 isNum jobs n steps) key) e).errs = []) :
    (check (envOf (stepCx cx0 isNum jobs n' steps) key) e).errs = [] :=
  matrix_looser_mono_wf cx0 h0 isNum jobs n n' hid hneeds m m' hm hm' he
    (matrix_row_replaced_looser _ isNum m m' pre post k r r' he hi he' hi' hr hr' hany) steps key e hok

/-- the matrix type only gets looser when an entry `- ${{ <unknown> }}` is APPENDED to a literal `include:` list: the
object is opened, nothing else changes -/
theorem include_entry_appended_looser (cx : Cx) (isNum : IsNumber) (m m' : Matrix) (inc inc' : MatrixCombinations)
    (c : MatrixCombination) (e : Str) (ty : Ty)
    (he : m.expr = none) (he' : m'.expr = none) (hrows : m'.rows = m.rows)
    (hi : m.incl = some inc) (hi' : m'.incl = some inc') (hie : inc.expr = none) (hie' : inc'.expr = none)
    (hcs : inc'.combinations.getD [] = inc.combinations.getD [] ++ [c]) (hc : c.expr = some e)
    (hty : comboExprTy cx e = some ty) (hno : ∀ qs mm, ty ≠ .obj qs mm) :
    LooserD (checkMatrix cx isNum m).1 (checkMatrix cx isNum m').1 := by
  rw [checkMatrix_lit cx isNum m he, checkMatrix_lit cx isNum m' he', hi, hi', hrows]
  simp only [hie, hie', hcs, List.foldl_append, List.foldl_cons, List.foldl_nil]
  obtain ⟨ps1, m1, e1, _, _⟩ := includeFold_step cx isNum (inc.combinations.getD []) (rowsProps cx isNum (m.rows.getD [])) none []
  generalize hA : (inc.combinations.getD []).foldl (includeCombo cx isNum) (.obj (rowsProps cx isNum (m.rows.getD [])) none, []) = A at e1
  obtain ⟨A1, A2⟩ := A
  simp only at e1
  subst e1
  rw [includeCombo_expr cx isNum c e hc, hty]
  cases ty with
  | obj qs mm => exact absurd rfl (hno qs mm)
  | _ => exact .obj (LooserDProps.refl ps1) (AL.Ty.LooserDMapped.some_any m1)

/-- **5b. an `include` entry**: appending `- ${{ <unknown> }}` to a literal `include:` list never adds a diagnostic to a step
of the job -/
theorem include_entry_appended_mono_wf (cx0 : Cx) (h0 : Cx0Wf cx0) (isNum : IsNumber) (jobs : List (String × Job)) (n n' : Job)
    (hid : n'.id = n.id) (hneeds : n'.needs = n.needs) (m m' : Matrix) (hm : matrixOf n = some m) (hm' : matrixOf n' = some m')
    (inc inc' : MatrixCombinations) (c : MatrixCombination) (e : Str) (ty : Ty)
    (he : m.expr = none) (he' : m'.expr = none) (hrows : m'.rows = m.rows)
    (hi : m.incl = some inc) (hi' : m'.incl = some inc') (hie : inc.expr = none) (hie' : inc'.expr = none)
    (hcs : inc'.combinations.getD [] = inc.combinations.getD [] ++ [c]) (hc : c.expr = some e)
    (hty : comboExprTy (jobCx1 cx0 jobs n) e = some ty) (hno : ∀ qs mm, ty ≠ .obj qs mm)
    (steps : List Step) (key : String) (x : E)
    (hok : (check (envOf (stepCx cx0 isNum jobs n steps) key) x).errs = []) :
    (check (envOf (stepCx cx0 isNum jobs n' steps) key) x).errs = [] :=
  matrix_looser_mono_wf cx0 h0 isNum jobs n n' hid hneeds m m' hm hm' he
    (include_entry_appended_looser _ isNum m m' inc inc' c e ty he he' hrows hi hi' hie hie' hcs hc hty hno) steps key x hok

/-! ### §5 on concrete data: `ver: ['1']` replaced by `ver: ${{ fromJSON(vars.LIST) }}` -/

def rowVer : String × MatrixRow := ("ver", ⟨some (str "ver"), some [.str "1" p0], none⟩)
def rowVerDyn : String × MatrixRow := ("ver", ⟨some (str "ver"), none, some (str "${{ fromJSON(vars.LIST) }}")⟩)
def mVerLit : Matrix := { rows := some [rowOs, rowVer], pos := p0 }
def mVerDyn : Matrix := { rows := some [rowOs, rowVerDyn], pos := p0 }
/-- `matrix.ver == 'x'` -/
def eVer : E := .cmp .eq (.objDeref (.var "matrix") "ver") (.str "x")

theorem mVerLit_ty : (checkMatrix (jobCx1 cxL [] (jobWith "mv" mVerLit)) noNum mVerLit).1 =
    .obj [("os", .string), ("ver", .string)] none := tyEq_sound _ _ (by decide +kernel)

/-- accepted with the literal row … -/
theorem eVer_ok : (check (envOf (stepCx cxL noNum [] (jobWith "mv" mVerLit) [stR]) keyRun) eVer).errs = [] := by
  have hl := matrix_var cxL noNum [] (jobWith "mv" mVerLit) _ (stepCx_after cxL noNum [] (jobWith "mv" mVerLit) [stR]).toInJob
    mVerLit rfl keyRun
  rw [mVerLit_ty] at hl
  obtain ⟨t, e⟩ := check_ctx_prop _ "matrix" "ver" _ hl
    (matrix_avail cxL noNum [] _ _ (stepCx_after cxL noNum [] (jobWith "mv" mVerLit) [stR]).toInJob keyRun av_matrix_run)
  rw [objDerefTy_found _ _ "ver" _ none .string (by simp [Ty.lookup])] at t e
  unfold eVer
  rw [check_cmp]
  simp only [wrap_errs, e, t, check_str, wrap_ty, List.nil_append]
  simp [validCompare]

/-- … hence with the row given by an expression (an instance of `row_replaced_mono_wf`; `matrix.ver` is `any` there) -/
example : (check (envOf (stepCx cxL noNum [] (jobWith "mv" mVerDyn) [stR]) keyRun) eVer).errs = [] := by
  have hany : (rowTy (jobCx1 cxL [] (jobWith "mv" mVerLit)) noNum rowVerDyn.2).1 = .any := by
    refine rowTy_expr_any _ noNum rowVerDyn.2 (str "${{ fromJSON(vars.LIST) }}") rfl (fun el d h => ?_)
    rw [checkArrayExpression_ok _ _ "matrix row" _ .any
      (job_strategy_any [] _ "matrix row" (str "${{ fromJSON(vars.LIST) }}") 0 23 "list"
        (by decide +kernel) (by decide +kernel) (by decide) (by decide +kernel) (by decide +kernel)) rfl] at h
    cases h
  exact row_replaced_mono_wf cxL cxL_wf noNum [] (jobWith "mv" mVerLit) (jobWith "mv" mVerDyn) rfl rfl mVerLit mVerDyn rfl rfl
    [rowOs] [] "ver" rowVer.2 rowVerDyn.2 rfl rfl rfl rfl rfl rfl hany [stR] keyRun eVer eVer_ok

example : Cx0Wf (ruleCx AL.PW.asciiLower {} wX) := ruleCx_wf _ _ _ projWf_empty

def mIncLit : Matrix := { rows := some [rowOs], incl := some ⟨some [cLit], none⟩, pos := p0 }

theorem mIncLit_ty : (checkMatrix (jobCx1 cxL [] (jobWith "ma" mIncLit)) noNum mIncLit).1 =
    .obj [("extra", .bool), ("os", .string)] none := tyEq_sound _ _ (by decide +kernel)

/-- `matrix.extra` (a key only `include` assigns) is accepted with `include: [{os: win, extra: true}]` … -/
theorem extra_ok : (check (envOf (stepCx cxL noNum [] (jobWith "ma" mIncLit) [stR]) keyRun) (.objDeref (.var "matrix") "extra")).errs = [] := by
  have hl := matrix_var cxL noNum [] (jobWith "ma" mIncLit) _ (stepCx_after cxL noNum [] (jobWith "ma" mIncLit) [stR]).toInJob
    mIncLit rfl keyRun
  rw [mIncLit_ty] at hl
  obtain ⟨_, e⟩ := check_ctx_prop _ "matrix" "extra" _ hl
    (matrix_avail cxL noNum [] _ _ (stepCx_after cxL noNum [] (jobWith "ma" mIncLit) [stR]).toInJob keyRun av_matrix_run)
  rw [objDerefTy_found _ _ "extra" _ none .bool (by simp [Ty.lookup])] at e
  exact e

/-- … hence with `- ${{ fromJSON(vars.ENTRY) }}` appended (an instance of `include_entry_appended_mono_wf`) -/
example : (check (envOf (stepCx cxL noNum [] (jobWith "ma" mDynEntry) [stR]) keyRun) (.objDeref (.var "matrix") "extra")).errs = [] := by
  have hty : comboExprTy (jobCx1 cxL [] (jobWith "ma" mIncLit)) (str "${{ fromJSON(vars.ENTRY) }}") = some .any := by
    unfold comboExprTy
    rw [job_strategy_any [] _ _ (str "${{ fromJSON(vars.ENTRY) }}") 0 24 "entry"
        (by decide +kernel) (by decide +kernel) (by decide) (by decide +kernel) (by decide +kernel)]
  exact include_entry_appended_mono_wf cxL cxL_wf noNum [] (jobWith "ma" mIncLit) (jobWith "ma" mDynEntry) rfl rfl mIncLit mDynEntry
    rfl rfl ⟨some [cLit], none⟩ incDynEntry cDyn _ .any rfl rfl rfl rfl rfl rfl rfl rfl rfl hty (fun _ _ h => nomatch h)
    [stR] keyRun _ extra_ok

/-! ### 5c. the whole matrix / the whole `include:` replaced by an expression: NOT reached in general

Full statement (not proved): for jobs `n`, `n'` as in `matrix_looser_mono_wf`, `n` with a literal matrix and `n'` with
`matrix: ${{ <unknown> }}` or `include: ${{ <unknown> }}`,
    (check (envOf (stepCx cx0 isNum jobs n steps) key) e).errs = [] → (check (envOf (stepCx cx0 isNum jobs n' steps) key) e).errs = []
for EVERY expression `e`. The matrix type of `n'` is the EMPTY open object (`matrix_expr_unknown`,
`matrix_include_expr_unknown`): it has FEWER keys than the strict object of `n`, so the two are not related by `Looser` /
`LooserD` (same keys, pointwise looser) and AL.C06.mono' does not apply; a relation that lets an opened object drop keys
would need the whole monotonicity proof of AL.Lemmas.SemaMono again. What IS proved: for the expressions that are access
paths below `matrix` — the ones "undefined property" is about — nothing at all is reported in `n'`, whatever `n` was. -/
theorem matrix_replaced_mono_partial (cx0 : Cx) (isNum : IsNumber) (jobs : List (String × Job)) (n' : Job) (cx' : Cx)
    (hcx' : InJob cx0 isNum jobs n' cx') (m' : Matrix) (hm' : matrixOf n' = some m')
    (hshape : (∃ e, m'.expr = some e ∧
        ∀ ps mm, (checkObjectExpression (jobCx1 cx0 jobs n') (some e) "matrix" "jobs.<job_id>.strategy").1 ≠ some (.obj ps mm)) ∨
      (∃ inc e, m'.expr = none ∧ m'.incl = some inc ∧ inc.expr = some e ∧
        ∀ qs mq d, (checkOneExpression (jobCx1 cx0 jobs n') (some e) "include" "jobs.<job_id>.strategy").1 ≠
          some (.arr (.obj qs mq) d)))
    (key : String) (p : List Acc)
    (ha : (AL.Visit.availability key).1.contains (cx0.lower "matrix") = true) (hp : okPathObj p = true) :
    (check (envOf cx' key) (below (.var "matrix") p)).errs = [] := by
  rcases hshape with ⟨e, he, hun⟩ | ⟨inc, e, he, hi, hie, hun⟩
  · exact matrix_expr_silent cx0 isNum jobs n' cx' hcx' m' hm' e he hun key p ha hp
  · exact matrix_include_expr_silent cx0 isNum jobs n' cx' hcx' m' hm' inc e he hi hie hun key p ha hp

/-! ### remaining hypotheses, on the data above -/

theorem mExprDyn_unknown : ∀ ps mm, (checkObjectExpression (jobCx1 cxL [] (jobWith "me" mExprDyn)) (some (str "${{ fromJSON(vars.M) }}"))
    "matrix" "jobs.<job_id>.strategy").1 ≠ some (.obj ps mm) := by
  intro ps mm h
  rw [checkObjectExpression_ok _ _ "matrix" _ .any
    (job_strategy_any [] _ "matrix" (str "${{ fromJSON(vars.M) }}") 0 20 "m"
      (by decide +kernel) (by decide +kernel) (by decide) (by decide +kernel) (by decide +kernel)) rfl] at h
  cases h

/-- whatever the job's matrix was before: with `matrix: ${{ fromJSON(vars.M) }}` no access below `matrix` is reported -/
example : (check (envOf (stepCx cxL noNum [] (jobWith "me" mExprDyn) [stR]) keyRun) (below (.var "matrix") [.prop "ver", .prop "x"])).errs = [] :=
  matrix_replaced_mono_partial cxL noNum [] _ _ (stepCx_after ..).toInJob mExprDyn rfl (Or.inl ⟨_, rfl, mExprDyn_unknown⟩)
    keyRun _ av_matrix_run rfl

example (name : String) :
    (check (envOf (stepCx cxL noNum [] (jobWith "me" mExprDyn) [stR]) keyRun) (.objDeref (.var "matrix") name)).errs = [] :=
  matrix_expr_open_silent cxL noNum [] _ _ (stepCx_after ..).toInJob mExprDyn rfl _ rfl (fun ps => mExprDyn_unknown ps none)
    keyRun name av_matrix_run

example : checkSig ⟨"startsWith", .bool, [.string, .string], false⟩ [.any, .any] = none ∨
    ∃ as, checkSig ⟨"startsWith", .bool, [.string, .string], false⟩ [.any, .any] = some (err "arg-count" as) :=
  call_any_args _ _ (by simp)

example : actionOutputsTy (fun _ => none) (some (str "some/unknown-action@v1")) = .obj [] (some .string) :=
  outputs_unknown_action _ _ (by decide +kernel) (by decide +kernel) (Option.isNone_iff_eq_none.1 (by decide +kernel))
example : actionOutputsTy (fun _ => none) (some (str "./my-action")) = .obj [] (some .string) :=
  outputs_unreadable_local _ _ (by decide +kernel) rfl
example : actionOutputsTy (fun _ => some (.obj [("o", .string)] none)) (some (str "./my-action")) = .obj [("o", .string)] none :=
  outputs_local _ _ _ (by decide +kernel) rfl
example : actionOutputsTy (fun _ => none) (some (str "actions/github-script@v7")) = .obj [] (some .any) :=
  outputs_github_script _ _ (by decide +kernel) (by decide +kernel)
example : actionOutputsTy (fun _ => none) (some (str "actions/cache@v4")) = .obj [("cache-hit", .string)] none :=
  outputs_popular _ _ _ (by decide +kernel) (by decide +kernel) (opt_tyEq (by decide +kernel))
/-- the table entry behind it: strict, exactly `cache-hit` -/
example : ∃ ps, popularOutputs "actions/cache@v4" = some (.obj ps none) ∧ Ty.lookup "cache-hit" ps = some .string ∧
    Ty.lookup "hit" ps = none :=
  ⟨[("cache-hit", .string)], opt_tyEq (by decide +kernel), by simp [Ty.lookup], by simp [Ty.lookup]⟩
example : popularOutputs "actions/cache@v4" = some (.obj [("cache-hit", .string)] none) →
    (.obj [("cache-hit", .string)] none : Ty) = .obj [] (some .any) ∨ ∃ ps ins outs dep, (.obj [("cache-hit", .string)] none : Ty) = .obj ps none ∧
      (∃ ch ∈ AL.Gen.popularChunks, ("actions/cache@v4", ins, outs, dep, false) ∈ ch) ∧
      ∀ name, Ty.lookup name ps = if name ∈ outs.map (fun o => AL.PW.asciiLower o.1) then some .string else none :=
  popular_outputs_shape _ _

/-- the checker-level lemmas on `steps : {build: {outputs: {digest: string}}}` (AL.C05.exΓ) -/
example : (check AL.C05.exΓ (.objDeref (.objDeref (.var "steps") "build") "outputs")).errs = [] ∧
    (check AL.C05.exΓ (.objDeref (.objDeref (.var "steps") "build") "outputs")).ty = .obj [("digest", .string)] none :=
  check_ctx_j_outputs AL.C05.exΓ "steps" "build" _ _ none none _ rfl rfl rfl rfl
example : AL.C05.undefinedProp "sha" (check AL.C05.exΓ (.objDeref (.objDeref (.objDeref (.var "steps") "build") "outputs") "sha")) :=
  ((check_prop_of_strict AL.C05.exΓ _ "sha" [("digest", .string)] rfl
    (check_ctx_j_outputs AL.C05.exΓ "steps" "build" _ _ none none _ rfl rfl rfl rfl).1
    (check_ctx_j_outputs AL.C05.exΓ "steps" "build" _ _ none none _ rfl rfl rfl rfl).2).2).2 rfl
example : (check AL.C05.exΓ (.objDeref (.objDeref (.var "needs") "j") "o")).errs = [] := by
  obtain ⟨t, e⟩ := check_ctx_prop AL.C05.exΓ "needs" "j" _ rfl rfl
  refine (below_silent AL.C05.exΓ [.prop "o"] _ false ?_ ?_ rfl).1
  · rw [e]; rfl
  · rw [t]; rfl
example : objDerefTy AL.C05.exΓ false "digest" (.obj [("digest", .string)] (some .any)) = (.string, []) :=
  objDerefTy_found _ _ _ _ _ _ rfl

/-- open outputs of whatever kind (here: github-script): no output name is reported -/
example (name : String) : (check (envOf (stepCx cxL noNum [] jEx exPre) keyRun)
      (.objDeref (.objDeref (.objDeref (.var "steps") "gs") "outputs") name)).errs = [] := by
  obtain ⟨hex, hall⟩ := exPre_id "gs" stG (str "gs") (by simp [exPre]) rfl (by decide +kernel) uniq_gs
    (fun s => ∃ qs mt, stepOutputs cxL.proj s = .obj qs (some mt)) ⟨[], .any, stG_outputs⟩
  exact steps_outputs_open_silent cxL noNum [] jEx exPre _ (stepCx_after ..) keyRun "gs" name av_steps_run hex hall

end AL.C06R
