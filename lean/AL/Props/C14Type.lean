import AL.Model.CallType
/-
  C14 (typed inputs of reusable workflows): "a value whose literal or expression type cannot be assigned to the declared
  type of a reusable-workflow input is reported".
-/
namespace AL.Props.C14Type
open AL AL.CallType

/-- reported exactly when the declared type does not accept the value's type -/
theorem reported_iff (decl : Ty) (s : Shape) (h : decl ≠ .any) :
    reported decl s = true ↔ Ty.assignable decl (valueTy s) = false := by
  cases decl <;> simp_all [reported]

/-- text around a placeholder, or several placeholders, make a string whatever the placeholders' types are -/
theorem template_is_string : valueTy .embedded = .string ∧ valueTy .several = .string := ⟨rfl, rfl⟩

/-- a boolean input accepts every value; an input without (known) type is not checked -/
theorem bool_never_reported (s : Shape) : reported .bool s = false := by
  simp [reported, Ty.assignable]
theorem any_never_reported (s : Shape) : reported .any s = false := rfl

/-- a number input: reported unless the value is a number or of unknown type -/
theorem number_reported_iff (s : Shape) :
    reported .number s = true ↔ ¬ (valueTy s = .number ∨ valueTy s = .any) := by
  cases h : valueTy s <;> simp [reported, Ty.assignable, h]

/-- a string input: reported for bool / null / object / array values only -/
theorem string_reported_iff (s : Shape) :
    reported .string s = true ↔ ¬ (valueTy s = .string ∨ valueTy s = .number ∨ valueTy s = .any) := by
  cases h : valueTy s <;> simp [reported, Ty.assignable, h]

/-- so `v${{ 42 }}` for a number input is reported and `enabled=${{ true }}` for a string input is not -/
example : reported .number .embedded = true ∧ reported .string .embedded = false := by
  simp [reported, valueTy, Ty.assignable]

end AL.Props.C14Type
