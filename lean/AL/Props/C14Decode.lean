import AL.Model.ActionDecode
/-
  C14, "a declared required input without default": what `Required` of a local action's input IS, as a statement about the
  `action.yml` node (AL.ActionDecode.decInput, i.e. the anonymous struct of `ActionMetadataInputs.UnmarshalYAML` decoded by
  yaml.v3): when the decoding succeeds, the input is required iff the mapping has a `required:` key whose value decodes to
  true and has no `default:` key with a non-null value.
-/
namespace AL.C14D
open AL.Yaml AL.PW AL.ActionDecode
open AL.CallMeta (D E decBool decStr decStrPtr structLoop structDecode hasDupKey isMerge)

/-- the pair `(k, x)` sets the field `name` -/
def Sets (name : String) (q : Node × Node) : Prop := isMerge q.1 = false ∧ decStr q.1 = .ok name

/-- the loop that fills the struct, for the fields `required` / `default`: what the fields are afterwards -/
theorem structLoop_inSt : ∀ (l : List (Node × Node)) (done : List String) (st st' : InSt),
    structLoop ["required", "default"] setIn l done st = .ok st' →
    (st'.required = true ↔
      (∃ q ∈ l, Sets "required" q ∧ decBool q.2 = .ok true) ∨ (st.required = true ∧ ∀ q ∈ l, ¬ Sets "required" q)) ∧
    (st'.dflt.isSome = true ↔
      (∃ q ∈ l, Sets "default" q ∧ q.2.isNull = false) ∨ (st.dflt.isSome = true ∧ ∀ q ∈ l, ¬ Sets "default" q)) ∧
    (∀ q ∈ l, Sets "required" q → "required" ∉ done) ∧ (∀ q ∈ l, Sets "default" q → "default" ∉ done) := by
  intro l
  induction l with
  | nil =>
    intro done st st' h
    simp only [structLoop, Except.ok.injEq] at h
    subst h
    simp
  | cons q rest ih =>
    obtain ⟨k, v⟩ := q
    intro done st st' h
    simp only [structLoop] at h
    by_cases hm : isMerge k = true
    · simp [hm] at h
    · simp only [hm, Bool.false_eq_true, if_false] at h
      have hm' : isMerge k = false := by simpa using hm
      cases hk : decStr k with
      | error e => simp [hk] at h
      | ok name =>
        simp only [hk] at h
        by_cases hf : name ∈ ["required", "default"]
        · simp only [hf, if_true] at h
          by_cases hd : name ∈ done
          · simp [hd] at h
          · simp only [hd, if_false] at h
            cases hs : setIn st name v with
            | error e => simp [hs] at h
            | ok st1 =>
              simp only [hs] at h
              obtain ⟨ih1, ih2, ih3, ih4⟩ := ih (name :: done) st1 st' h
              simp only [List.mem_cons, List.not_mem_nil, or_false] at hf
              rcases hf with rfl | rfl
              · -- this pair is `required:`
                have hb : ∃ b, decBool v = .ok b ∧ st1 = { st with required := b } := by
                  simp only [setIn] at hs
                  cases hdb : decBool v with
                  | error e => simp [hdb, Except.map] at hs
                  | ok b => simp only [hdb, Except.map, Except.ok.injEq] at hs; exact ⟨b, rfl, hs.symm⟩
                obtain ⟨b, hdb, rfl⟩ := hb
                have norest : ∀ q ∈ rest, ¬ Sets "required" q := fun q hq hsq => ih3 q hq hsq (by simp)
                refine ⟨?_, ?_, ?_, ?_⟩
                · rw [ih1]
                  constructor
                  · rintro (⟨q, hq, hsq, _⟩ | ⟨hb, _⟩)
                    · exact absurd hsq (norest q hq)
                    · exact Or.inl ⟨(k, v), by simp, ⟨hm', hk⟩, by simpa [hdb] using hb⟩
                  · rintro (⟨q, hq, hsq, hqb⟩ | ⟨_, hno⟩)
                    · rcases List.mem_cons.mp hq with rfl | hq
                      · right; exact ⟨by simpa [hdb] using hqb, norest⟩
                      · exact absurd hsq (norest q hq)
                    · exact absurd ⟨hm', hk⟩ (hno (k, v) (by simp))
                · rw [ih2]
                  constructor
                  · rintro (⟨q, hq, hsq, hn⟩ | ⟨hs0, hno⟩)
                    · exact Or.inl ⟨q, List.mem_cons_of_mem _ hq, hsq, hn⟩
                    · refine Or.inr ⟨hs0, ?_⟩
                      intro q hq
                      rcases List.mem_cons.mp hq with rfl | hq
                      · intro hsq; have := hsq.2; rw [hk] at this; simp at this
                      · exact hno q hq
                  · rintro (⟨q, hq, hsq, hn⟩ | ⟨hs0, hno⟩)
                    · rcases List.mem_cons.mp hq with rfl | hq
                      · have := hsq.2; rw [hk] at this; simp at this
                      · exact Or.inl ⟨q, hq, hsq, hn⟩
                    · exact Or.inr ⟨hs0, fun q hq => hno q (List.mem_cons_of_mem _ hq)⟩
                · intro q hq _
                  exact hd
                · intro q hq hsq
                  rcases List.mem_cons.mp hq with rfl | hq
                  · have := hsq.2; rw [hk] at this; simp at this
                  · intro hdd; exact ih4 q hq hsq (List.mem_cons_of_mem _ hdd)
              · -- this pair is `default:`
                have hb : ∃ d, decStrPtr v = .ok d ∧ st1 = { st with dflt := d } := by
                  simp only [setIn] at hs
                  cases hdb : decStrPtr v with
                  | error e => simp [hdb, Except.map] at hs
                  | ok d => simp only [hdb, Except.map, Except.ok.injEq] at hs; exact ⟨d, rfl, hs.symm⟩
                obtain ⟨d, hdd, rfl⟩ := hb
                have hnull : d.isSome = true ↔ v.isNull = false := by
                  simp only [decStrPtr] at hdd
                  by_cases hn : v.isNull = true
                  · simp only [hn, if_true, Except.ok.injEq] at hdd; subst hdd; simp [hn]
                  · simp only [hn, Bool.false_eq_true, if_false] at hdd
                    cases hds : decStr v with
                    | error e => simp [hds, Except.map] at hdd
                    | ok s => simp only [hds, Except.map, Except.ok.injEq] at hdd; subst hdd; simp [hn]
                have norest : ∀ q ∈ rest, ¬ Sets "default" q := fun q hq hsq => ih4 q hq hsq (by simp)
                refine ⟨?_, ?_, ?_, ?_⟩
                · rw [ih1]
                  constructor
                  · rintro (⟨q, hq, hsq, hn⟩ | ⟨hs0, hno⟩)
                    · exact Or.inl ⟨q, List.mem_cons_of_mem _ hq, hsq, hn⟩
                    · refine Or.inr ⟨hs0, ?_⟩
                      intro q hq
                      rcases List.mem_cons.mp hq with rfl | hq
                      · intro hsq; have := hsq.2; rw [hk] at this; simp at this
                      · exact hno q hq
                  · rintro (⟨q, hq, hsq, hn⟩ | ⟨hs0, hno⟩)
                    · rcases List.mem_cons.mp hq with rfl | hq
                      · have := hsq.2; rw [hk] at this; simp at this
                      · exact Or.inl ⟨q, hq, hsq, hn⟩
                    · exact Or.inr ⟨hs0, fun q hq => hno q (List.mem_cons_of_mem _ hq)⟩
                · rw [ih2]
                  constructor
                  · rintro (⟨q, hq, hsq, _⟩ | ⟨hb, _⟩)
                    · exact absurd hsq (norest q hq)
                    · exact Or.inl ⟨(k, v), by simp, ⟨hm', hk⟩, hnull.mp hb⟩
                  · rintro (⟨q, hq, hsq, hqn⟩ | ⟨_, hno⟩)
                    · rcases List.mem_cons.mp hq with rfl | hq
                      · right; exact ⟨hnull.mpr hqn, norest⟩
                      · exact absurd hsq (norest q hq)
                    · exact absurd ⟨hm', hk⟩ (hno (k, v) (by simp))
                · intro q hq hsq
                  rcases List.mem_cons.mp hq with rfl | hq
                  · have := hsq.2; rw [hk] at this; simp at this
                  · intro hdd'; exact ih3 q hq hsq (List.mem_cons_of_mem _ hdd')
                · intro q hq _
                  exact hd
        · simp only [hf, if_false] at h
          obtain ⟨ih1, ih2, ih3, ih4⟩ := ih done st st' h
          have hne1 : ¬ Sets "required" (k, v) := by
            intro hsq; have := hsq.2; rw [hk] at this; cases this; exact hf (by simp)
          have hne2 : ¬ Sets "default" (k, v) := by
            intro hsq; have := hsq.2; rw [hk] at this; cases this; exact hf (by simp)
          refine ⟨?_, ?_, ?_, ?_⟩
          · rw [ih1]
            constructor
            · rintro (⟨q, hq, hsq, hn⟩ | ⟨hs0, hno⟩)
              · exact Or.inl ⟨q, List.mem_cons_of_mem _ hq, hsq, hn⟩
              · refine Or.inr ⟨hs0, ?_⟩
                intro q hq
                rcases List.mem_cons.mp hq with rfl | hq
                · exact hne1
                · exact hno q hq
            · rintro (⟨q, hq, hsq, hn⟩ | ⟨hs0, hno⟩)
              · rcases List.mem_cons.mp hq with rfl | hq
                · exact absurd hsq hne1
                · exact Or.inl ⟨q, hq, hsq, hn⟩
              · exact Or.inr ⟨hs0, fun q hq => hno q (List.mem_cons_of_mem _ hq)⟩
          · rw [ih2]
            constructor
            · rintro (⟨q, hq, hsq, hn⟩ | ⟨hs0, hno⟩)
              · exact Or.inl ⟨q, List.mem_cons_of_mem _ hq, hsq, hn⟩
              · refine Or.inr ⟨hs0, ?_⟩
                intro q hq
                rcases List.mem_cons.mp hq with rfl | hq
                · exact hne2
                · exact hno q hq
            · rintro (⟨q, hq, hsq, hn⟩ | ⟨hs0, hno⟩)
              · rcases List.mem_cons.mp hq with rfl | hq
                · exact absurd hsq hne2
                · exact Or.inl ⟨q, hq, hsq, hn⟩
              · exact Or.inr ⟨hs0, fun q hq => hno q (List.mem_cons_of_mem _ hq)⟩
          · intro q hq hsq
            rcases List.mem_cons.mp hq with rfl | hq
            · exact absurd hsq hne1
            · exact ih3 q hq hsq
          · intro q hq hsq
            rcases List.mem_cons.mp hq with rfl | hq
            · exact absurd hsq hne2
            · exact ih4 q hq hsq

/-- **what "required" means for an input of a local action**: the metadata decodes and says `Required` iff the input's
mapping has a `required:` key whose value decodes to true and no `default:` key with a non-null value -/
theorem action_input_required_iff (v : Node) (hk : v.kind = .mapping) (r : Bool) (h : decInput v = .ok r) :
    r = true ↔
      (∃ q ∈ pairs v.content, Sets "required" q ∧ decBool q.2 = .ok true) ∧
      ¬ (∃ q ∈ pairs v.content, Sets "default" q ∧ q.2.isNull = false) := by
  simp only [decInput, structDecode, hk] at h
  by_cases hdup : hasDupKey (pairs v.content) = true
  · simp [hdup, Except.map] at h
  · simp only [hdup, Bool.false_eq_true, if_false] at h
    cases hl : structLoop ["required", "default"] setIn (pairs v.content) [] {} with
    | error e => simp [hl, Except.map] at h
    | ok st =>
      simp only [hl, Except.map, Except.ok.injEq] at h
      obtain ⟨h1, h2, _, _⟩ := structLoop_inSt (pairs v.content) [] {} st hl
      subst h
      simp only [Bool.and_eq_true, h1]
      have hnone : st.dflt.isNone = true ↔ ¬ (st.dflt.isSome = true) := by cases st.dflt <;> simp
      rw [hnone, h2]
      simp

/-- `ActionMetadataInputs.UnmarshalYAML` succeeded: every entry of `inputs:` is in the result under its lower-cased id, with
its name as written and the `Required` that `decInput` computes; and nothing else is -/
theorem decInputsLoop_spec (cfg : Cfg) : ∀ (l : List (Node × Node)) (acc res : List (String × String × Bool)),
    decInputsLoop cfg l acc = .ok res →
    (∀ e, e ∈ res ↔ e ∈ acc ∨ ∃ q ∈ l, decInput q.2 = .ok e.2.2 ∧ e.1 = cfg.lower q.1.value ∧ e.2.1 = q.1.value) ∧
    ((acc.map (·.1)).Nodup → (res.map (·.1)).Nodup) := by
  intro l
  induction l with
  | nil =>
    intro acc res h
    simp only [decInputsLoop, Except.ok.injEq] at h
    subst h
    simp
  | cons q rest ih =>
    obtain ⟨k, v⟩ := q
    intro acc res h
    simp only [decInputsLoop] at h
    cases hd : decInput v with
    | error e => simp [hd] at h
    | ok r =>
      simp only [hd] at h
      by_cases hdup : acc.any (·.1 = cfg.lower k.value) = true
      · simp [hdup] at h
      · simp only [hdup, Bool.false_eq_true, if_false] at h
        obtain ⟨ih1, ih2⟩ := ih _ res h
        refine ⟨fun e => ?_, fun hnd => ?_⟩
        · rw [ih1]
          simp only [List.mem_append, List.mem_singleton, List.mem_cons]
          constructor
          · rintro ((he | he) | ⟨q, hq, hq2⟩)
            · exact Or.inl he
            · rcases he with he | he
              · subst he; exact Or.inr ⟨(k, v), Or.inl rfl, hd, rfl, rfl⟩
              · cases he
            · exact Or.inr ⟨q, Or.inr hq, hq2⟩
          · rintro (he | ⟨q, hq | hq, hq2⟩)
            · exact Or.inl (Or.inl he)
            · subst hq
              obtain ⟨h1, h2, h3⟩ := hq2
              rw [hd] at h1
              simp only [Except.ok.injEq] at h1
              left; right
              obtain ⟨e1, e2, e3⟩ := e
              simp only at h1 h2 h3
              subst h1 h2 h3
              exact Or.inl rfl
            · exact Or.inr ⟨q, hq, hq2⟩
        · apply ih2
          simp only [List.map_append, List.map_cons, List.map_nil]
          rw [List.nodup_append]
          refine ⟨hnd, by simp, ?_⟩
          intro a ha b hb
          simp only [List.mem_singleton] at hb
          subst hb
          intro hab
          subst hab
          apply hdup
          rw [List.any_eq_true]
          obtain ⟨x, hx, hxe⟩ := List.mem_map.mp ha
          exact ⟨x, hx, by simp [hxe]⟩

/-- **C14 end to end for a local action** (inputs): if `inputs:` of `action.yml` decodes, then for every entry `name: {…}`
of it — a mapping — the metadata has exactly one input with the id `lower name`, and that input is `Required` iff the
entry has a `required:` key whose value decodes to true and no `default:` key with a non-null value -/
theorem action_inputs_end_to_end (cfg : Cfg) (n : Node) (hk : n.kind = .mapping) (res : List (String × String × Bool))
    (h : decInputs cfg n = .ok res) (q : Node × Node) (hq : q ∈ pairs n.content) (hv : q.2.kind = .mapping) :
    (res.map (·.1)).Nodup ∧
    ∃ r, (cfg.lower q.1.value, q.1.value, r) ∈ res ∧
      (r = true ↔ (∃ a ∈ pairs q.2.content, Sets "required" a ∧ decBool a.2 = .ok true) ∧
                  ¬ (∃ a ∈ pairs q.2.content, Sets "default" a ∧ a.2.isNull = false)) := by
  simp only [decInputs, hk] at h
  obtain ⟨h1, h2⟩ := decInputsLoop_spec cfg (pairs n.content) [] res h
  refine ⟨h2 (by simp), ?_⟩
  -- the entry decodes (otherwise the loop would have failed)
  have hdec : ∃ r, decInput q.2 = .ok r := by
    have : ∀ (l : List (Node × Node)) (acc res' : List (String × String × Bool)), decInputsLoop cfg l acc = .ok res' →
        ∀ q ∈ l, ∃ r, decInput q.2 = .ok r := by
      intro l
      induction l with
      | nil => intro _ _ _ q hq; cases hq
      | cons p rest ih =>
        obtain ⟨k, v⟩ := p
        intro acc res' hl q hq
        simp only [decInputsLoop] at hl
        cases hd : decInput v with
        | error e => simp [hd] at hl
        | ok r =>
          simp only [hd] at hl
          by_cases hdup : acc.any (·.1 = cfg.lower k.value) = true
          · simp [hdup] at hl
          · simp only [hdup, Bool.false_eq_true, if_false] at hl
            rcases List.mem_cons.mp hq with rfl | hq
            · exact ⟨r, hd⟩
            · exact ih _ _ hl q hq
    exact this _ _ _ h q hq
  obtain ⟨r, hr⟩ := hdec
  refine ⟨r, (h1 _).mpr (Or.inr ⟨q, hq, hr, rfl, rfl⟩), action_input_required_iff q.2 hv r hr⟩

/-- the same for the anonymous struct of `ReusableWorkflowMetadataInput.UnmarshalYAML` (fields `required`, `default`, `type`) -/
theorem structLoop_callInSt : ∀ (l : List (Node × Node)) (done : List String) (st st' : AL.CallMeta.InSt),
    structLoop ["required", "default", "type"] AL.CallMeta.setInput l done st = .ok st' →
    (st'.required = true ↔
      (∃ q ∈ l, Sets "required" q ∧ decBool q.2 = .ok true) ∨ (st.required = true ∧ ∀ q ∈ l, ¬ Sets "required" q)) ∧
    (st'.dflt.isSome = true ↔
      (∃ q ∈ l, Sets "default" q ∧ q.2.isNull = false) ∨ (st.dflt.isSome = true ∧ ∀ q ∈ l, ¬ Sets "default" q)) ∧
    (∀ q ∈ l, Sets "required" q → "required" ∉ done) ∧ (∀ q ∈ l, Sets "default" q → "default" ∉ done) := by
  intro l
  induction l with
  | nil =>
    intro done st st' h
    simp only [structLoop, Except.ok.injEq] at h
    subst h
    simp
  | cons q rest ih =>
    obtain ⟨k, v⟩ := q
    intro done st st' h
    simp only [structLoop] at h
    by_cases hm : isMerge k = true
    · simp [hm] at h
    · simp only [hm, Bool.false_eq_true, if_false] at h
      have hm' : isMerge k = false := by simpa using hm
      cases hk : decStr k with
      | error e => simp [hk] at h
      | ok name =>
        simp only [hk] at h
        by_cases hf : name ∈ ["required", "default", "type"]
        · simp only [hf, if_true] at h
          by_cases hd : name ∈ done
          · simp [hd] at h
          · simp only [hd, if_false] at h
            cases hs : AL.CallMeta.setInput st name v with
            | error e => simp [hs] at h
            | ok st1 =>
              simp only [hs] at h
              obtain ⟨ih1, ih2, ih3, ih4⟩ := ih (name :: done) st1 st' h
              simp only [List.mem_cons, List.not_mem_nil, or_false] at hf
              rcases hf with rfl | rfl | rfl
              · -- this pair is `required:`
                have hb : ∃ b, decBool v = .ok b ∧ st1 = { st with required := b } := by
                  simp only [AL.CallMeta.setInput] at hs
                  cases hdb : decBool v with
                  | error e => simp [hdb, Except.map] at hs
                  | ok b => simp only [hdb, Except.map, Except.ok.injEq] at hs; exact ⟨b, rfl, hs.symm⟩
                obtain ⟨b, hdb, rfl⟩ := hb
                have norest : ∀ q ∈ rest, ¬ Sets "required" q := fun q hq hsq => ih3 q hq hsq (by simp)
                refine ⟨?_, ?_, ?_, ?_⟩
                · rw [ih1]
                  constructor
                  · rintro (⟨q, hq, hsq, _⟩ | ⟨hb, _⟩)
                    · exact absurd hsq (norest q hq)
                    · exact Or.inl ⟨(k, v), by simp, ⟨hm', hk⟩, by simpa [hdb] using hb⟩
                  · rintro (⟨q, hq, hsq, hqb⟩ | ⟨_, hno⟩)
                    · rcases List.mem_cons.mp hq with rfl | hq
                      · right; exact ⟨by simpa [hdb] using hqb, norest⟩
                      · exact absurd hsq (norest q hq)
                    · exact absurd ⟨hm', hk⟩ (hno (k, v) (by simp))
                · rw [ih2]
                  constructor
                  · rintro (⟨q, hq, hsq, hn⟩ | ⟨hs0, hno⟩)
                    · exact Or.inl ⟨q, List.mem_cons_of_mem _ hq, hsq, hn⟩
                    · refine Or.inr ⟨hs0, ?_⟩
                      intro q hq
                      rcases List.mem_cons.mp hq with rfl | hq
                      · intro hsq; have := hsq.2; rw [hk] at this; simp at this
                      · exact hno q hq
                  · rintro (⟨q, hq, hsq, hn⟩ | ⟨hs0, hno⟩)
                    · rcases List.mem_cons.mp hq with rfl | hq
                      · have := hsq.2; rw [hk] at this; simp at this
                      · exact Or.inl ⟨q, hq, hsq, hn⟩
                    · exact Or.inr ⟨hs0, fun q hq => hno q (List.mem_cons_of_mem _ hq)⟩
                · intro q hq _
                  exact hd
                · intro q hq hsq
                  rcases List.mem_cons.mp hq with rfl | hq
                  · have := hsq.2; rw [hk] at this; simp at this
                  · intro hdd; exact ih4 q hq hsq (List.mem_cons_of_mem _ hdd)
              · -- this pair is `default:`
                have hb : ∃ d, decStrPtr v = .ok d ∧ st1 = { st with dflt := d } := by
                  simp only [AL.CallMeta.setInput] at hs
                  cases hdb : decStrPtr v with
                  | error e => simp [hdb, Except.map] at hs
                  | ok d => simp only [hdb, Except.map, Except.ok.injEq] at hs; exact ⟨d, rfl, hs.symm⟩
                obtain ⟨d, hdd, rfl⟩ := hb
                have hnull : d.isSome = true ↔ v.isNull = false := by
                  simp only [decStrPtr] at hdd
                  by_cases hn : v.isNull = true
                  · simp only [hn, if_true, Except.ok.injEq] at hdd; subst hdd; simp [hn]
                  · simp only [hn, Bool.false_eq_true, if_false] at hdd
                    cases hds : decStr v with
                    | error e => simp [hds, Except.map] at hdd
                    | ok s => simp only [hds, Except.map, Except.ok.injEq] at hdd; subst hdd; simp [hn]
                have norest : ∀ q ∈ rest, ¬ Sets "default" q := fun q hq hsq => ih4 q hq hsq (by simp)
                refine ⟨?_, ?_, ?_, ?_⟩
                · rw [ih1]
                  constructor
                  · rintro (⟨q, hq, hsq, hn⟩ | ⟨hs0, hno⟩)
                    · exact Or.inl ⟨q, List.mem_cons_of_mem _ hq, hsq, hn⟩
                    · refine Or.inr ⟨hs0, ?_⟩
                      intro q hq
                      rcases List.mem_cons.mp hq with rfl | hq
                      · intro hsq; have := hsq.2; rw [hk] at this; simp at this
                      · exact hno q hq
                  · rintro (⟨q, hq, hsq, hn⟩ | ⟨hs0, hno⟩)
                    · rcases List.mem_cons.mp hq with rfl | hq
                      · have := hsq.2; rw [hk] at this; simp at this
                      · exact Or.inl ⟨q, hq, hsq, hn⟩
                    · exact Or.inr ⟨hs0, fun q hq => hno q (List.mem_cons_of_mem _ hq)⟩
                · rw [ih2]
                  constructor
                  · rintro (⟨q, hq, hsq, _⟩ | ⟨hb, _⟩)
                    · exact absurd hsq (norest q hq)
                    · exact Or.inl ⟨(k, v), by simp, ⟨hm', hk⟩, hnull.mp hb⟩
                  · rintro (⟨q, hq, hsq, hqn⟩ | ⟨_, hno⟩)
                    · rcases List.mem_cons.mp hq with rfl | hq
                      · right; exact ⟨hnull.mpr hqn, norest⟩
                      · exact absurd hsq (norest q hq)
                    · exact absurd ⟨hm', hk⟩ (hno (k, v) (by simp))
                · intro q hq hsq
                  rcases List.mem_cons.mp hq with rfl | hq
                  · have := hsq.2; rw [hk] at this; simp at this
                  · intro hdd'; exact ih3 q hq hsq (List.mem_cons_of_mem _ hdd')
                · intro q hq _
                  exact hd
              · -- this pair is `type:`: neither `required` nor `default` changes
                have hb : ∃ t, st1 = { st with ty := t } := by
                  simp only [AL.CallMeta.setInput] at hs
                  cases hdb : decStr v with
                  | error e => simp [hdb, Except.map] at hs
                  | ok t => simp only [hdb, Except.map, Except.ok.injEq] at hs; exact ⟨t, hs.symm⟩
                obtain ⟨t, rfl⟩ := hb
                have hne1 : ¬ Sets "required" (k, v) := by
                  intro hsq; have := hsq.2; rw [hk] at this; simp at this
                have hne2 : ¬ Sets "default" (k, v) := by
                  intro hsq; have := hsq.2; rw [hk] at this; simp at this
                refine ⟨?_, ?_, ?_, ?_⟩
                · rw [ih1]
                  constructor
                  · rintro (⟨q, hq, hsq, hn⟩ | ⟨hs0, hno⟩)
                    · exact Or.inl ⟨q, List.mem_cons_of_mem _ hq, hsq, hn⟩
                    · refine Or.inr ⟨hs0, ?_⟩
                      intro q hq
                      rcases List.mem_cons.mp hq with rfl | hq
                      · exact hne1
                      · exact hno q hq
                  · rintro (⟨q, hq, hsq, hn⟩ | ⟨hs0, hno⟩)
                    · rcases List.mem_cons.mp hq with rfl | hq
                      · exact absurd hsq hne1
                      · exact Or.inl ⟨q, hq, hsq, hn⟩
                    · exact Or.inr ⟨hs0, fun q hq => hno q (List.mem_cons_of_mem _ hq)⟩
                · rw [ih2]
                  constructor
                  · rintro (⟨q, hq, hsq, hn⟩ | ⟨hs0, hno⟩)
                    · exact Or.inl ⟨q, List.mem_cons_of_mem _ hq, hsq, hn⟩
                    · refine Or.inr ⟨hs0, ?_⟩
                      intro q hq
                      rcases List.mem_cons.mp hq with rfl | hq
                      · exact hne2
                      · exact hno q hq
                  · rintro (⟨q, hq, hsq, hn⟩ | ⟨hs0, hno⟩)
                    · rcases List.mem_cons.mp hq with rfl | hq
                      · exact absurd hsq hne2
                      · exact Or.inl ⟨q, hq, hsq, hn⟩
                    · exact Or.inr ⟨hs0, fun q hq => hno q (List.mem_cons_of_mem _ hq)⟩
                · intro q hq hsq
                  rcases List.mem_cons.mp hq with rfl | hq
                  · exact absurd hsq hne1
                  · intro hdd; exact ih3 q hq hsq (List.mem_cons_of_mem _ hdd)
                · intro q hq hsq
                  rcases List.mem_cons.mp hq with rfl | hq
                  · exact absurd hsq hne2
                  · intro hdd; exact ih4 q hq hsq (List.mem_cons_of_mem _ hdd)
        · simp only [hf, if_false] at h
          obtain ⟨ih1, ih2, ih3, ih4⟩ := ih done st st' h
          have hne1 : ¬ Sets "required" (k, v) := by
            intro hsq; have := hsq.2; rw [hk] at this; cases this; exact hf (by simp)
          have hne2 : ¬ Sets "default" (k, v) := by
            intro hsq; have := hsq.2; rw [hk] at this; cases this; exact hf (by simp)
          refine ⟨?_, ?_, ?_, ?_⟩
          · rw [ih1]
            constructor
            · rintro (⟨q, hq, hsq, hn⟩ | ⟨hs0, hno⟩)
              · exact Or.inl ⟨q, List.mem_cons_of_mem _ hq, hsq, hn⟩
              · refine Or.inr ⟨hs0, ?_⟩
                intro q hq
                rcases List.mem_cons.mp hq with rfl | hq
                · exact hne1
                · exact hno q hq
            · rintro (⟨q, hq, hsq, hn⟩ | ⟨hs0, hno⟩)
              · rcases List.mem_cons.mp hq with rfl | hq
                · exact absurd hsq hne1
                · exact Or.inl ⟨q, hq, hsq, hn⟩
              · exact Or.inr ⟨hs0, fun q hq => hno q (List.mem_cons_of_mem _ hq)⟩
          · rw [ih2]
            constructor
            · rintro (⟨q, hq, hsq, hn⟩ | ⟨hs0, hno⟩)
              · exact Or.inl ⟨q, List.mem_cons_of_mem _ hq, hsq, hn⟩
              · refine Or.inr ⟨hs0, ?_⟩
                intro q hq
                rcases List.mem_cons.mp hq with rfl | hq
                · exact hne2
                · exact hno q hq
            · rintro (⟨q, hq, hsq, hn⟩ | ⟨hs0, hno⟩)
              · rcases List.mem_cons.mp hq with rfl | hq
                · exact absurd hsq hne2
                · exact Or.inl ⟨q, hq, hsq, hn⟩
              · exact Or.inr ⟨hs0, fun q hq => hno q (List.mem_cons_of_mem _ hq)⟩
          · intro q hq hsq
            rcases List.mem_cons.mp hq with rfl | hq
            · exact absurd hsq hne1
            · exact ih3 q hq hsq
          · intro q hq hsq
            rcases List.mem_cons.mp hq with rfl | hq
            · exact absurd hsq hne2
            · exact ih4 q hq hsq

/-- **what "required" means for an input of a local reusable workflow, read from its file**: when the entry decodes,
`Required` iff the entry has a `required:` key whose value decodes to true and no `default:` key with a non-null value
(AL.Props.C10Meta: the interface taken from the AST says the same) -/
theorem call_input_required_iff (v : Node) (hk : v.kind = .mapping) (r : Bool × AL.CallMeta.Ty) (h : AL.CallMeta.decInput v = .ok r) :
    r.1 = true ↔
      (∃ q ∈ pairs v.content, Sets "required" q ∧ decBool q.2 = .ok true) ∧
      ¬ (∃ q ∈ pairs v.content, Sets "default" q ∧ q.2.isNull = false) := by
  simp only [AL.CallMeta.decInput, structDecode, hk] at h
  by_cases hdup : hasDupKey (pairs v.content) = true
  · simp [hdup, Except.map] at h
  · simp only [hdup, Bool.false_eq_true, if_false] at h
    cases hl : structLoop ["required", "default", "type"] AL.CallMeta.setInput (pairs v.content) [] {} with
    | error e => simp [hl, Except.map] at h
    | ok st =>
      simp only [hl, Except.map, Except.ok.injEq] at h
      obtain ⟨h1, h2, _, _⟩ := structLoop_callInSt (pairs v.content) [] {} st hl
      subst h
      simp only [Bool.and_eq_true, h1]
      have hnone : st.dflt.isNone = true ↔ ¬ (st.dflt.isSome = true) := by cases st.dflt <;> simp
      rw [hnone, h2]
      simp

end AL.C14D
