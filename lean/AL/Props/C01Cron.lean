import AL.Model.Cron
/-
  C01 (CRON): theorems about the model of `checkCron` (AL.Cron = rule_events.go checkCron + robfig/cron's parser and Next).
    A. safety: `Parser.Parse` panics exactly on a zone prefix without a blank; the guard of `checkCron` is exactly that
       condition, so `checkCron` never reaches the panic; the error classes that cannot occur under checkCron's option set.
    B. what an accepted field denotes: values within the bounds, the star bit only with the full range; the day rule.
    C. exactness of the field grammar (every kind of field): `getField` accepts iff `FieldG`.
    D. `Next` is sound and the calendar monotone; the frequency rule: a fixed minute is never reported (unless the schedule
       never fires, which IS reported, with 0 seconds), `* * * * *` always, `*/n * * * *` iff n < 5 or n > 55.
-/
namespace AL.C01C
open AL.Cron

/-! ### strings -/

theorem indexOf_isSome_of_mem {c : Char} : ∀ {l : List Char}, c ∈ l → ∃ i, indexOf c l = some i ∧ i < l.length
  | [], h => by simp at h
  | x :: xs, h => by
    unfold indexOf
    by_cases hx : x = c
    · simp [hx]
    · simp only [hx, if_false]
      have : c ∈ xs := by
        rcases List.mem_cons.mp h with h | h
        · exact absurd h.symm hx
        · exact h
      obtain ⟨i, hi, hlt⟩ := indexOf_isSome_of_mem this
      exact ⟨i + 1, by simp [hi], by simpa using hlt⟩

theorem indexOf_none_iff {c : Char} : ∀ {l : List Char}, indexOf c l = none ↔ c ∉ l
  | [] => by simp [indexOf]
  | x :: xs => by
    unfold indexOf
    by_cases hx : x = c
    · simp [hx]
    · have ih := @indexOf_none_iff c xs
      simp only [hx, if_false, Option.map_eq_none_iff, ih, List.mem_cons]
      constructor
      · intro h1 h2
        rcases h2 with h2 | h2
        · exact hx h2.symm
        · exact h1 h2
      · intro h1 h2
        exact h1 (Or.inr h2)

/-- the index found is the position of the first occurrence -/
theorem indexOf_some_spec {c : Char} : ∀ {l : List Char} {i : Nat}, indexOf c l = some i →
    c ∉ l.take i ∧ l.drop i = c :: l.drop (i + 1)
  | [], i, h => by simp [indexOf] at h
  | x :: xs, i, h => by
    unfold indexOf at h
    by_cases hx : x = c
    · simp [hx] at h
      subst h
      simp [hx]
    · simp only [hx, if_false, Option.map_eq_some_iff] at h
      obtain ⟨j, hj, rfl⟩ := h
      obtain ⟨h1, h2⟩ := indexOf_some_spec hj
      refine ⟨?_, ?_⟩
      · simp only [List.take_succ_cons, List.mem_cons, not_or]
        exact ⟨fun h => hx h.symm, h1⟩
      · simpa using h2


/-! ### splitting -/

theorem splitBy_ne_nil (p : Char → Bool) : ∀ l, splitBy p l ≠ []
  | [] => by simp [splitBy]
  | x :: xs => by
    unfold splitBy
    split
    · simp
    · split <;> simp

theorem splitBy_clean {p : Char → Bool} : ∀ {a : List Char}, (∀ x ∈ a, p x = false) → splitBy p a = [a]
  | [], _ => rfl
  | x :: xs, h => by
    have hx : p x = false := h x (List.mem_cons_self)
    have ih := splitBy_clean (p := p) (a := xs) (fun y hy => h y (List.mem_cons_of_mem _ hy))
    simp [splitBy, hx, ih]

theorem splitBy_append {p : Char → Bool} {c : Char} {r : List Char} (hc : p c = true) :
    ∀ {a : List Char}, (∀ x ∈ a, p x = false) → splitBy p (a ++ c :: r) = a :: splitBy p r
  | [], _ => by simp [splitBy, hc]
  | x :: xs, h => by
    have hx : p x = false := h x (List.mem_cons_self)
    have ih := splitBy_append (p := p) (c := c) (r := r) hc (a := xs) (fun y hy => h y (List.mem_cons_of_mem _ hy))
    simp [splitBy, hx, ih]

/-- the first piece has no separator in it, and either it is all there is or a separator and the rest follow -/
theorem splitBy_cons_inv {p : Char → Bool} : ∀ {l a : List Char} {rest : List (List Char)}, splitBy p l = a :: rest →
    (∀ x ∈ a, p x = false) ∧ ((rest = [] ∧ l = a) ∨ ∃ c r, p c = true ∧ l = a ++ c :: r ∧ splitBy p r = rest)
  | [], a, rest, h => by
    simp [splitBy] at h
    obtain ⟨rfl, rfl⟩ := h
    simp
  | x :: xs, a, rest, h => by
    unfold splitBy at h
    by_cases hx : p x = true
    · simp only [hx, if_true, List.cons.injEq] at h
      obtain ⟨rfl, rfl⟩ := h
      exact ⟨by simp, Or.inr ⟨x, xs, hx, by simp, rfl⟩⟩
    · have hx' : p x = false := by simpa using hx
      simp only [hx', Bool.false_eq_true, if_false] at h
      split at h
      · rename_i q qs hq
        simp only [List.cons.injEq] at h
        obtain ⟨rfl, rfl⟩ := h
        obtain ⟨h1, h2⟩ := splitBy_cons_inv hq
        refine ⟨?_, ?_⟩
        · intro y hy
          rcases List.mem_cons.mp hy with rfl | hy
          · exact hx'
          · exact h1 y hy
        · rcases h2 with ⟨rfl, rfl⟩ | ⟨c, r, hc, rfl, hr⟩
          · left; exact ⟨rfl, rfl⟩
          · right; exact ⟨c, r, hc, by simp, hr⟩
      · rename_i hq
        exact absurd hq (splitBy_ne_nil p xs)

theorem splitBy_single {p : Char → Bool} {l a : List Char} (h : splitBy p l = [a]) : l = a ∧ ∀ x ∈ a, p x = false := by
  obtain ⟨h1, h2⟩ := splitBy_cons_inv h
  rcases h2 with ⟨-, rfl⟩ | ⟨c, r, -, -, hr⟩
  · exact ⟨rfl, h1⟩
  · exact absurd hr (splitBy_ne_nil p r)

theorem splitBy_pair {p : Char → Bool} {l a b : List Char} (h : splitBy p l = [a, b]) :
    ∃ c, p c = true ∧ l = a ++ c :: b ∧ (∀ x ∈ a, p x = false) ∧ (∀ x ∈ b, p x = false) := by
  obtain ⟨h1, h2⟩ := splitBy_cons_inv h
  rcases h2 with ⟨h0, -⟩ | ⟨c, r, hc, rfl, hr⟩
  · cases h0
  · obtain ⟨rfl, hb⟩ := splitBy_single hr
    exact ⟨c, hc, rfl, h1, hb⟩


/-! ### the zone prefix: when the slicing of the parser is defined -/

theorem tzPrefix_cases {spec : List Char} (h : tzPrefix spec = true) :
    (∃ r, spec = 'T' :: 'Z' :: '=' :: r) ∨ (∃ r, spec = 'C' :: 'R' :: 'O' :: 'N' :: '_' :: 'T' :: 'Z' :: '=' :: r) := by
  simp only [tzPrefix, hasPrefix, Bool.or_eq_true, List.isPrefixOf_iff_prefix] at h
  rcases h with ⟨t, ht⟩ | ⟨t, ht⟩
  · left; exact ⟨t, by rw [← ht]; rfl⟩
  · right; exact ⟨t, by rw [← ht]; rfl⟩

/-- the slicing `spec[eq+1 : i]`, `spec[i:]` is defined exactly when the spec contains a blank (under a zone prefix) -/
theorem cutZone_isSome_iff {spec : List Char} (h : tzPrefix spec = true) :
    (cutZone spec).isSome ↔ ' ' ∈ spec := by
  rcases tzPrefix_cases h with ⟨r, rfl⟩ | ⟨r, rfl⟩
  · cases hr : indexOf ' ' r with
    | none =>
      have : ' ' ∉ r := indexOf_none_iff.mp hr
      simp [cutZone, indexOf, hr, this]
    | some i =>
      have : ' ' ∈ r := by
        apply Classical.byContradiction
        intro hn
        rw [indexOf_none_iff.mpr hn] at hr
        cases hr
      simp [cutZone, indexOf, hr, this]
  · cases hr : indexOf ' ' r with
    | none =>
      have : ' ' ∉ r := indexOf_none_iff.mp hr
      simp [cutZone, indexOf, hr, this]
    | some i =>
      have : ' ' ∈ r := by
        apply Classical.byContradiction
        intro hn
        rw [indexOf_none_iff.mpr hn] at hr
        cases hr
      simp [cutZone, indexOf, hr, this]


/-! ### the error classes of a field -/

/-- the error classes that come out of a single field -/
def fieldErr : Err → Bool
  | .tooManyHyphens _ | .tooManySlashes _ | .belowMin .. | .aboveMax .. | .beyondEnd .. | .zeroStep _ | .parseInt .. | .negative .. => true
  | _ => false

theorem mustParseInt_err {l : List Char} {e : Err} (h : mustParseInt l = .error e) : fieldErr e = true := by
  unfold mustParseInt at h
  split at h
  · cases h; rfl
  · split at h
    · cases h; rfl
    · cases h

theorem parseIntOrName_err {l : List Char} {names} {e : Err} (h : parseIntOrName l names = .error e) : fieldErr e = true := by
  unfold parseIntOrName at h
  split at h
  · cases h
  · exact mustParseInt_err h

theorem rangeBase_err {x : List Char} {lh} {b : Bounds} {e : Err} (h : rangeBase x lh b = .error e) : fieldErr e = true := by
  unfold rangeBase at h
  simp only at h
  split at h
  · cases h
  · split at h
    · rename_i e2 h2
      cases h
      exact parseIntOrName_err h2
    · split at h
      · cases h
      · split at h
        · rename_i e3 h3
          cases h
          exact parseIntOrName_err h3
        · cases h
      · cases h; rfl

theorem rangeStep_err {x : List Char} {rs sd} {b : Bounds} {e1 x1} {e : Err} (h : rangeStep x rs sd b e1 x1 = .error e) :
    fieldErr e = true := by
  unfold rangeStep at h
  split at h
  · cases h
  · split at h
    · rename_i e2 h2
      cases h
      exact mustParseInt_err h2
    · cases h
  · cases h; rfl

theorem rangeCheck_err {x : List Char} {b : Bounds} {s e st ex} {err : Err} (h : rangeCheck x b s e st ex = .error err) :
    fieldErr err = true := by
  unfold rangeCheck at h
  repeat' split at h
  all_goals cases h
  all_goals rfl

theorem getRange_err {x : List Char} {b : Bounds} {e : Err} (h : getRange x b = .error e) : fieldErr e = true := by
  unfold getRange at h
  simp only at h
  split at h
  · rename_i e' he
    cases h
    exact rangeBase_err he
  · split at h
    · rename_i e' he
      cases h
      exact rangeStep_err he
    · exact rangeCheck_err h

/-! ### what an accepted range expression denotes -/

/-- what `rangeBase` hands on: no star bit, or the star bit over the full range -/
theorem rangeBase_ok {x : List Char} {lh} {b : Bounds} {s e1 x1 : Nat} (h : rangeBase x lh b = .ok (s, e1, x1)) :
    x1 = 0 ∨ (x1 = starBit ∧ s = b.min ∧ e1 = b.max) := by
  unfold rangeBase at h
  simp only at h
  split at h
  · cases h; right; exact ⟨rfl, rfl, rfl⟩
  · split at h
    · cases h
    · split at h
      · cases h; left; rfl
      · split at h
        · cases h
        · cases h; left; rfl
      · cases h

theorem rangeStep_ok {x : List Char} {rs sd} {b : Bounds} {e1 x1 st e ex : Nat}
    (h : rangeStep x rs sd b e1 x1 = .ok (st, e, ex)) :
    (ex = 0 ∨ (ex = x1 ∧ st ≤ 1)) ∧ (e = e1 ∨ e = b.max) := by
  unfold rangeStep at h
  split at h
  · cases h; exact ⟨Or.inr ⟨rfl, Nat.le_refl _⟩, Or.inl rfl⟩
  · split at h
    · cases h
    · rename_i step hs
      cases h
      refine ⟨?_, ?_⟩
      · by_cases h1 : st > 1
        · simp [h1]
        · right; simp [h1]; omega
      · by_cases h2 : sd = true
        · simp [h2]
        · simp [h2]
  · cases h

/-- an accepted range expression: bits `start, start+step, … ≤ end` within the bounds, plus the star bit only together
with the full range in steps of one -/
theorem getRange_ok {x : List Char} {b : Bounds} {m : Nat} (h : getRange x b = .ok m) :
    ∃ s e st ex, b.min ≤ s ∧ s ≤ e ∧ e ≤ b.max ∧ 1 ≤ st ∧
      (ex = 0 ∨ (ex = starBit ∧ s = b.min ∧ e = b.max ∧ st = 1)) ∧ m = getBits s e st ||| ex := by
  unfold getRange at h
  simp only at h
  split at h
  · cases h
  · rename_i s e1 x1 hb
    split at h
    · cases h
    · rename_i st e ex hs
      have hb' := rangeBase_ok hb
      have hs' := rangeStep_ok hs
      unfold rangeCheck at h
      split at h
      · cases h
      · split at h
        · cases h
        · split at h
          · cases h
          · split at h
            · cases h
            · cases h
              refine ⟨s, e, st, ex, by omega, by omega, by omega, by omega, ?_, rfl⟩
              rcases hs'.1 with h0 | ⟨hx, hst⟩
              · left; exact h0
              · rcases hb' with h0 | ⟨hx1, hs1, he1⟩
                · left; rw [hx, h0]
                · right
                  refine ⟨by rw [hx, hx1], hs1, ?_, by omega⟩
                  rcases hs'.2 with h | h
                  · rw [h, he1]
                  · exact h


theorem getFieldAux_err {b : Bounds} : ∀ {es : List (List Char)} {bits : Nat} {e : Err},
    getFieldAux b es bits = .error e → fieldErr e = true
  | [], _, _, h => by simp [getFieldAux] at h
  | x :: xs, bits, e, h => by
    unfold getFieldAux at h
    split at h
    · rename_i e' he
      cases h
      exact getRange_err he
    · exact getFieldAux_err h

theorem getField_err {f : List Char} {b : Bounds} {e : Err} (h : getField f b = .error e) : fieldErr e = true :=
  getFieldAux_err h


/-! ### `Parser.Parse`: its error classes, its panic, and the guard of `checkCron` -/

theorem parseFields_err {loc : Loc} {f1 f2 f3 f4 f5 : List Char} {e : Err}
    (h : parseFields loc ["0".toList, f1, f2, f3, f4, f5] = .error e) : fieldErr e = true := by
  unfold parseFields at h
  repeat' split at h
  all_goals first | (cases h; done) | skip
  all_goals
    cases h
    rename_i he
    exact getField_err he

theorem length_five {α} {l : List α} (h : l.length = 5) : ∃ a b c d e, l = [a, b, c, d, e] := by
  match l, h with
  | [a, b, c, d, e], _ => exact ⟨a, b, c, d, e, rfl⟩

/-- the error classes `Parser.Parse` can come back with under the option set of `checkCron`: the classes
`multipleOptionals`, `fieldCountRange`, `unknownOptional`, `badDuration`, `unrecognizedDescriptor` never occur -/
theorem parseL_error_classes {zk} {spec : List Char} {e : Err} (h : parseL zk spec = .error e) :
    e = .empty ∨ e = .slicePanic ∨ (∃ z, e = .badLocation z) ∨ (∃ s, e = .noDescriptors s) ∨
    (∃ n fs, e = .fieldCountExact 5 n fs ∧ n ≠ 5 ∧ n = fs.length) ∨ fieldErr e = true := by
  unfold parseL at h
  split at h
  · cases h; simp
  · split at h
    · rename_i e' he
      cases h
      unfold splitZone at he
      split at he
      · split at he
        · cases he; simp
        · split at he
          · cases he; simp
          · cases he
      · cases he
    · split at h
      · cases h; simp
      · split at h
        · rename_i e' he
          cases h
          unfold normalizeFields at he
          split at he
          · cases he
          · cases he
            rename_i hne
            right; right; right; right; left
            exact ⟨_, _, rfl, hne, rfl⟩
        · rename_i fields he
          unfold normalizeFields at he
          split at he
          · rename_i h5
            cases he
            obtain ⟨a, b, c, d, e5, h5'⟩ := length_five h5
            rw [h5'] at h
            exact Or.inr (Or.inr (Or.inr (Or.inr (Or.inr (parseFields_err h)))))
          · cases he

/-- robfig's parser panics exactly on a zone prefix without a blank -/
theorem parseL_panic_iff {zk} {spec : List Char} :
    parseL zk spec = .error .slicePanic ↔ (tzPrefix spec = true ∧ ' ' ∉ spec) := by
  constructor
  · intro h
    unfold parseL at h
    split at h
    · cases h
    · split at h
      · rename_i e' he
        cases h
        unfold splitZone at he
        split at he
        · rename_i htz
          split at he
          · rename_i hc
            refine ⟨htz, ?_⟩
            intro hm
            have := (cutZone_isSome_iff htz).mpr hm
            simp [hc] at this
          · split at he
            · cases he
            · cases he
        · cases he
      · split at h
        · cases h
        · have := parseL_error_classes (zk := zk) (spec := spec) (e := .slicePanic)
          split at h
          · rename_i e' he
            cases h
            unfold normalizeFields at he
            split at he <;> cases he
          · rename_i fields he
            unfold normalizeFields at he
            split at he
            · rename_i h5
              cases he
              obtain ⟨a, b, c, d, e5, h5'⟩ := length_five h5
              rw [h5'] at h
              have := parseFields_err h
              simp [fieldErr] at this
            · cases he
  · intro ⟨htz, hn⟩
    have hne : spec ≠ [] := by
      intro h0; subst h0; simp [tzPrefix, hasPrefix] at htz
    have hc : cutZone spec = none := by
      cases hcz : cutZone spec with
      | none => rfl
      | some p =>
        have := (cutZone_isSome_iff htz).mp (by simp [hcz])
        exact absurd this hn
    simp [parseL, hne, splitZone, htz, hc]

theorem guard_eq {spec : List Char} : AL.Cron.guard spec = true ↔ (tzPrefix spec = true ∧ ' ' ∉ spec) := by
  simp [AL.Cron.guard]

/-- C01: `checkCron` never runs into the panic of the parser: the guard catches exactly the specs on which it would -/
theorem checkCron_never_panics (zk) (spec : List Char) :
    ∀ l, checkCronL zk spec = .diags l → ∀ s, Diag'.invalidFormat s .slicePanic ∉ l := by
  intro l hl s hmem
  unfold checkCronL at hl
  split at hl
  · cases hl; simp at hmem
  · rename_i hg
    split at hl
    · rename_i e he
      cases hl
      simp at hmem
      obtain ⟨_, rfl⟩ := hmem
      have := parseL_panic_iff.mp he
      exact hg (guard_eq.mpr this)
    · split at hl
      · cases hl
      · split at hl <;> cases hl <;> simp at hmem


/-! ### bit masks -/

theorem testBit_maskOf (p : Nat → Bool) : ∀ (n i : Nat), (maskOf p n).testBit i = (decide (i < n) && p i)
  | 0, i => by simp [maskOf]
  | n + 1, i => by
    unfold maskOf
    rw [Nat.testBit_or, testBit_maskOf p n i]
    by_cases hp : p n = true
    · simp only [hp, if_true, Nat.testBit_two_pow]
      by_cases h1 : i < n
      · have : i < n + 1 := by omega
        have h2 : ¬ n = i := by omega
        simp [h1, this, h2]
      · by_cases h2 : n = i
        · subst h2; simp [hp]
        · have : ¬ i < n + 1 := by omega
          simp [h1, h2, this]
    · have hp' : p n = false := by simpa using hp
      by_cases h1 : i < n
      · have : i < n + 1 := by omega
        simp [hp', h1, this]
      · by_cases h2 : n = i
        · subst h2; simp [hp']
        · have : ¬ i < n + 1 := by omega
          simp [hp', h1, this]

/-- `getBits`: bit `i` is set iff `lo ≤ i ≤ hi` and `i - lo` is a multiple of the step -/
theorem testBit_getBits (lo hi step i : Nat) :
    (getBits lo hi step).testBit i = (decide (i ≤ hi) && decide (lo ≤ i) && ((i - lo) % step == 0)) := by
  unfold getBits
  rw [testBit_maskOf]
  have : decide (i < hi + 1) = decide (i ≤ hi) := by
    by_cases h : i ≤ hi
    · have : i < hi + 1 := by omega
      simp [h, this]
    · have : ¬ i < hi + 1 := by omega
      simp [h, this]
  rw [this, Bool.and_assoc]

theorem testBit_starBit (i : Nat) : starBit.testBit i = decide (i = 63) := by
  unfold starBit
  rw [Nat.testBit_two_pow]
  by_cases h : i = 63
  · subst h; simp
  · have : ¬ 63 = i := fun h' => h h'.symm
    simp [h, this]


/-! ### accepted fields, parsed schedules, the day rule -/

/-- a field mask as the parser builds it: values within the bounds of the field (and possibly the star bit), and the star
bit only together with every value of the field -/
structure MaskOK (b : Bounds) (m : Nat) : Prop where
  inRange : ∀ i, m.testBit i = true → (b.min ≤ i ∧ i ≤ b.max) ∨ i = 63
  starFull : m.testBit 63 = true → ∀ i, b.min ≤ i → i ≤ b.max → m.testBit i = true

theorem maskOK_zero (b : Bounds) : MaskOK b 0 := ⟨by simp, by simp⟩

theorem maskOK_or {b : Bounds} {m n : Nat} (hm : MaskOK b m) (hn : MaskOK b n) : MaskOK b (m ||| n) := by
  constructor
  · intro i hi
    rw [Nat.testBit_or, Bool.or_eq_true] at hi
    rcases hi with h | h
    · exact hm.inRange i h
    · exact hn.inRange i h
  · intro h i h1 h2
    rw [Nat.testBit_or, Bool.or_eq_true] at h
    rw [Nat.testBit_or, Bool.or_eq_true]
    rcases h with h | h
    · exact Or.inl (hm.starFull h i h1 h2)
    · exact Or.inr (hn.starFull h i h1 h2)

theorem getRange_maskOK {x : List Char} {b : Bounds} {m : Nat} (hb : b.max < 63) (h : getRange x b = .ok m) : MaskOK b m := by
  obtain ⟨s, e, st, ex, h1, h2, h3, h4, h5, rfl⟩ := getRange_ok h
  constructor
  · intro i hi
    rw [Nat.testBit_or, Bool.or_eq_true, testBit_getBits] at hi
    rcases hi with hi | hi
    · simp only [Bool.and_eq_true, decide_eq_true_eq] at hi
      left; omega
    · rcases h5 with h5 | ⟨h5, -⟩
      · subst h5; simp at hi
      · subst h5; rw [testBit_starBit] at hi; right; simpa using hi
  · intro hstar i hi1 hi2
    rw [Nat.testBit_or, Bool.or_eq_true, testBit_getBits] at hstar
    rcases hstar with hs | hs
    · simp only [Bool.and_eq_true, decide_eq_true_eq] at hs
      omega
    · rcases h5 with h5 | ⟨h5, h6, h7, h8⟩
      · subst h5; simp at hs
      · rw [Nat.testBit_or, Bool.or_eq_true, testBit_getBits]
        left
        subst h6 h7 h8
        simp [hi1, hi2, Nat.mod_one]

theorem getFieldAux_maskOK {b : Bounds} (hb : b.max < 63) : ∀ {es : List (List Char)} {bits m : Nat},
    MaskOK b bits → getFieldAux b es bits = .ok m → MaskOK b m
  | [], bits, m, h0, h => by
    simp [getFieldAux] at h; subst h; exact h0
  | x :: xs, bits, m, h0, h => by
    unfold getFieldAux at h
    split at h
    · cases h
    · rename_i bit hbit
      exact getFieldAux_maskOK hb (maskOK_or h0 (getRange_maskOK hb hbit)) h

/-- every accepted field denotes values within its bounds; the star bit comes with the full range -/
theorem getField_maskOK {f : List Char} {b : Bounds} {m : Nat} (hb : b.max < 63) (h : getField f b = .ok m) : MaskOK b m :=
  getFieldAux_maskOK hb (maskOK_zero b) h

/-- a schedule as `Parser.Parse` builds it -/
structure SchedOK (sc : Sched) : Prop where
  second : sc.second = 1
  minute : MaskOK minutes sc.minute
  hour : MaskOK hours sc.hour
  dom : MaskOK dom sc.dom
  month : MaskOK months sc.month
  dow : MaskOK dow sc.dow

theorem second_field : getField "0".toList seconds = .ok 1 := by rfl

theorem parseFields_ok {loc : Loc} {f1 f2 f3 f4 f5 : List Char} {sc : Sched}
    (h : parseFields loc ["0".toList, f1, f2, f3, f4, f5] = .ok sc) :
    sc.loc = loc ∧ getField f1 minutes = .ok sc.minute ∧ getField f2 hours = .ok sc.hour ∧
    getField f3 AL.Cron.dom = .ok sc.dom ∧ getField f4 months = .ok sc.month ∧ getField f5 AL.Cron.dow = .ok sc.dow ∧ sc.second = 1 := by
  simp only [parseFields, second_field] at h
  repeat' split at h
  all_goals first | (cases h; done) | skip
  cases h
  exact ⟨rfl, by assumption, by assumption, by assumption, by assumption, by assumption, rfl⟩

/-- what `Parser.Parse` accepts is five fields separated by blanks, each accepted by `getField` for its bounds -/
theorem parseL_ok {zk} {spec : List Char} {sc : Sched} (h : parseL zk spec = .ok sc) :
    ∃ loc rest f1 f2 f3 f4 f5, splitZone zk spec = .ok (loc, rest) ∧ fieldsBy isSpace rest = [f1, f2, f3, f4, f5] ∧
      sc.loc = loc ∧ getField f1 minutes = .ok sc.minute ∧ getField f2 hours = .ok sc.hour ∧
      getField f3 AL.Cron.dom = .ok sc.dom ∧ getField f4 months = .ok sc.month ∧ getField f5 AL.Cron.dow = .ok sc.dow ∧ sc.second = 1 := by
  unfold parseL at h
  split at h
  · cases h
  · split at h
    · cases h
    · rename_i loc rest hz
      split at h
      · cases h
      · split at h
        · cases h
        · rename_i fields hn
          unfold normalizeFields at hn
          split at hn
          · rename_i h5
            cases hn
            obtain ⟨a, b, c, d, e5, h5'⟩ := length_five h5
            rw [h5'] at h
            exact ⟨loc, rest, a, b, c, d, e5, hz, h5', parseFields_ok h⟩
          · cases hn

theorem parseL_schedOK {zk} {spec : List Char} {sc : Sched} (h : parseL zk spec = .ok sc) : SchedOK sc := by
  obtain ⟨loc, rest, f1, f2, f3, f4, f5, -, -, -, h1, h2, h3, h4, h5, h0⟩ := parseL_ok h
  exact ⟨h0, getField_maskOK (by decide) h1, getField_maskOK (by decide) h2, getField_maskOK (by decide) h3,
    getField_maskOK (by decide) h4, getField_maskOK (by decide) h5⟩

theorem weekday_lt (y m d : Nat) : weekday y m d < 7 := by
  unfold weekday; omega

/-- the day rule on a parsed schedule: a star in the day-of-month field leaves the day of the week alone to decide … -/
theorem dayMatches_star_dom {sc : Sched} (h : SchedOK sc) (hs : sc.dom.testBit 63 = true) {y m d : Nat} (h1 : 1 ≤ d) (h2 : d ≤ 31) :
    dayMatches sc y m d = sc.dow.testBit (weekday y m d) := by
  have := h.dom.starFull hs d h1 h2
  simp [dayMatches, hs, this]

/-- … and a star in the day-of-week field the day of the month -/
theorem dayMatches_star_dow {sc : Sched} (h : SchedOK sc) (hs : sc.dow.testBit 63 = true) {y m d : Nat} :
    dayMatches sc y m d = sc.dom.testBit d := by
  have hw := weekday_lt y m d
  have := h.dow.starFull hs (weekday y m d) (Nat.zero_le _) (by show weekday y m d ≤ 6; omega)
  simp [dayMatches, hs, this]

/-- without any star the two fields are alternatives -/
theorem dayMatches_no_star {sc : Sched} (h1 : sc.dom.testBit 63 = false) (h2 : sc.dow.testBit 63 = false) {y m d : Nat} :
    dayMatches sc y m d = (sc.dom.testBit d || sc.dow.testBit (weekday y m d)) := by
  simp [dayMatches, h1, h2]


/-! ### numerals -/

/-- the value of a string of decimal digits, continuing from `n` -/
def digitsValue : List Char → Nat → Nat
  | [], n => n
  | c :: cs, n => digitsValue cs (n * 10 + (c.toNat - 48))

/-- a non-negative decimal numeral the way `strconv.Atoi` reads it: an optional `+`, then one or more ASCII digits
(leading zeros allowed, no `_`, no blanks) -/
inductive Numeral : List Char → Nat → Prop
  | plain {ds : List Char} : ds ≠ [] → (∀ c ∈ ds, c.isDigit = true) → Numeral ds (digitsValue ds 0)
  | plus {ds : List Char} : ds ≠ [] → (∀ c ∈ ds, c.isDigit = true) → Numeral ('+' :: ds) (digitsValue ds 0)

theorem digitsValue_ge : ∀ (ds : List Char) (n : Nat), n ≤ digitsValue ds n
  | [], n => Nat.le_refl _
  | c :: cs, n => by
    have := digitsValue_ge cs (n * 10 + (c.toNat - 48))
    show n ≤ digitsValue cs (n * 10 + (c.toNat - 48))
    omega

theorem parseUintAux_ok_iff : ∀ {ds : List Char} {n v : Nat}, parseUintAux ds n = .ok v ↔
    ((∀ c ∈ ds, c.isDigit = true) ∧ digitsValue ds n = v ∧ (ds = [] ∨ v < 2 ^ 64))
  | [], n, v => by simp [parseUintAux, digitsValue]
  | c :: cs, n, v => by
    unfold parseUintAux
    by_cases hc : c.isDigit = true
    · simp only [hc, if_true]
      by_cases hov : n * 10 + (c.toNat - 48) ≥ 2 ^ 64
      · simp only [hov, if_true]
        constructor
        · intro h; cases h
        · intro ⟨_, h2, h3⟩
          have := digitsValue_ge cs (n * 10 + (c.toNat - 48))
          simp only [digitsValue] at h2
          rcases h3 with h3 | h3
          · cases h3
          · omega
      · simp only [hov, if_false]
        rw [parseUintAux_ok_iff (ds := cs)]
        simp only [digitsValue, List.mem_cons, forall_eq_or_imp, hc, true_and]
        constructor
        · intro ⟨h1, h2, h3⟩
          refine ⟨h1, h2, Or.inr ?_⟩
          rcases h3 with h3 | h3
          · subst h3; simp [digitsValue] at h2; omega
          · exact h3
        · intro ⟨h1, h2, h3⟩
          refine ⟨h1, h2, Or.inr ?_⟩
          rcases h3 with h3 | h3
          · cases h3
          · exact h3
    · simp only [hc]
      constructor
      · intro h; cases h
      · intro ⟨h1, _⟩
        exact absurd (h1 c List.mem_cons_self) hc

theorem parseUint_ok_iff {ds : List Char} {v : Nat} : parseUint ds = .ok v ↔
    (ds ≠ [] ∧ (∀ c ∈ ds, c.isDigit = true) ∧ digitsValue ds 0 = v ∧ v < 2 ^ 64) := by
  unfold parseUint
  by_cases h : ds = []
  · simp [h]
  · simp only [h, if_false, parseUintAux_ok_iff, false_or, ne_eq, not_false_eq_true, true_and]

theorem not_digit_plus : ('+' : Char).isDigit = false := by decide
theorem not_digit_minus : ('-' : Char).isDigit = false := by decide

/-- the digits of a numeral: what follows an optional plus sign -/
def body : List Char → List Char
  | '+' :: r => r
  | l => l

theorem body_plus (r : List Char) : body ('+' :: r) = r := rfl

theorem body_other {l : List Char} (h : ¬ ∃ r, l = '+' :: r) : body l = l := by
  unfold body
  split
  · rename_i r; exact absurd ⟨r, rfl⟩ h
  · rfl

theorem numeral_iff {l : List Char} {v : Nat} :
    Numeral l v ↔ (body l ≠ [] ∧ (∀ c ∈ body l, c.isDigit = true) ∧ digitsValue (body l) 0 = v) := by
  constructor
  · intro h
    cases h with
    | plain h1 h2 =>
      have : body l = l := by
        apply body_other
        intro ⟨r, hr⟩
        subst hr
        have := h2 '+' List.mem_cons_self; simp [not_digit_plus] at this
      rw [this]; exact ⟨h1, h2, rfl⟩
    | plus h1 h2 => exact ⟨h1, h2, rfl⟩
  · intro ⟨h1, h2, h3⟩
    by_cases hp : ∃ r, l = '+' :: r
    · obtain ⟨r, rfl⟩ := hp
      rw [body_plus] at h1 h2 h3
      subst h3; exact .plus h1 h2
    · rw [body_other hp] at h1 h2 h3
      subst h3; exact .plain h1 h2

theorem atoi_form {l : List Char} (hl : l.head? ≠ some '-') :
    atoi l = match parseUint (body l) with
      | .error e => .error e
      | .ok u => if u < 2 ^ 63 then .ok (u : Int) else .error .range := by
  by_cases hp : ∃ r, l = '+' :: r
  · obtain ⟨r, rfl⟩ := hp
    rw [body_plus]
    rfl
  · rw [body_other hp]
    unfold atoi
    split
    · rename_i r; exact absurd ⟨r, rfl⟩ hp
    · simp at hl
    · rfl

/-- `mustParseInt` on a string that does not start with a minus sign accepts exactly the numerals below 2^63 -/
theorem mustParseInt_ok_iff {l : List Char} {v : Nat} (hl : l.head? ≠ some '-') :
    mustParseInt l = .ok v ↔ (Numeral l v ∧ v < 2 ^ 63) := by
  unfold mustParseInt
  rw [atoi_form hl, numeral_iff]
  cases hp : parseUint (body l) with
  | error e =>
    simp only
    constructor
    · intro h; cases h
    · intro ⟨⟨h1, h2, h3⟩, hv⟩
      have : parseUint (body l) = .ok v := parseUint_ok_iff.mpr ⟨h1, h2, h3, by omega⟩
      rw [hp] at this; cases this
  | ok u =>
    obtain ⟨h1, h2, h3, h4⟩ := parseUint_ok_iff.mp hp
    simp only
    by_cases hu : u < 2 ^ 63
    · simp only [hu, if_true]
      have : ¬ ((u : Int) < 0) := by omega
      simp only [this, if_false, Int.toNat_natCast, Except.ok.injEq]
      constructor
      · intro h; subst h; exact ⟨⟨h1, h2, h3⟩, hu⟩
      · intro ⟨⟨_, _, h3'⟩, _⟩; omega
    · simp only [hu, if_false]
      constructor
      · intro h; cases h
      · intro ⟨⟨_, _, h3'⟩, hv⟩; omega

/-- behind a minus sign only zero gets through (`-0`, `-00`, …) -/
theorem mustParseInt_minus {r : List Char} {v : Nat} (h : mustParseInt ('-' :: r) = .ok v) : v = 0 := by
  have ha : atoi ('-' :: r) = match parseUint r with
      | .error e => .error e
      | .ok u => if u ≤ 2 ^ 63 then .ok (-(u : Int)) else .error .range := rfl
  unfold mustParseInt at h
  rw [ha] at h
  cases hp : parseUint r with
  | error e => simp [hp] at h
  | ok u =>
    simp only [hp] at h
    by_cases hu : u ≤ 2 ^ 63
    · simp only [hu, if_true] at h
      by_cases h0 : (-(u : Int)) < 0
      · simp only [h0, if_true] at h; cases h
      · simp only [h0, if_false, Except.ok.injEq] at h
        omega
    · simp only [hu, if_false] at h; cases h

/-- a step (a number that has to be positive) is a numeral between 1 and 2^63 - 1 -/
theorem mustParseInt_pos_iff {l : List Char} {v : Nat} (hv : 1 ≤ v) :
    mustParseInt l = .ok v ↔ (Numeral l v ∧ v < 2 ^ 63) := by
  by_cases hl : l.head? = some '-'
  · constructor
    · intro h
      cases l with
      | nil => simp at hl
      | cons c r =>
        simp at hl; subst hl
        have := mustParseInt_minus h
        omega
    · intro ⟨hn, _⟩
      cases hn with
      | plain h1 h2 =>
        cases l with
        | nil => simp at hl
        | cons c r =>
          simp at hl; subst hl
          have := h2 '-' List.mem_cons_self
          simp [not_digit_minus] at this
      | plus h1 h2 => simp at hl
  · exact mustParseInt_ok_iff hl


/-! ### names and values -/

theorem isDigit_iff {c : Char} : c.isDigit = true ↔ (48 ≤ c.toNat ∧ c.toNat ≤ 57) := by
  simp [Char.isDigit, UInt32.le_iff_toNat_le]

/-- the characters a numeral is made of: digits and the plus sign -/
def numChar (c : Char) : Prop := (48 ≤ c.toNat ∧ c.toNat ≤ 57) ∨ c.toNat = 43

theorem lowerChar_numChar {c : Char} (h : numChar c) : lowerChar c = c := by
  unfold lowerChar
  have h1 : ¬ (65 ≤ c.toNat ∧ c.toNat ≤ 90) := by unfold numChar at h; omega
  have h2 : ¬ c.toNat = 0x130 := by unfold numChar at h; omega
  have h3 : ¬ c.toNat = 0x212A := by unfold numChar at h; omega
  simp [h1, h2, h3]

theorem numeral_chars {l : List Char} {v : Nat} (h : Numeral l v) : l ≠ [] ∧ ∀ c ∈ l, numChar c := by
  cases h with
  | plain h1 h2 => exact ⟨h1, fun c hc => Or.inl (isDigit_iff.mp (h2 c hc))⟩
  | plus h1 h2 =>
    refine ⟨by simp, fun c hc => ?_⟩
    rcases List.mem_cons.mp hc with rfl | hc
    · right; decide
    · exact Or.inl (isDigit_iff.mp (h2 c hc))

/-- a table of names: lower-case ASCII letters only, no name twice -/
structure WellNamed (b : Bounds) : Prop where
  letters : ∀ e ∈ b.names, ∀ c ∈ e.1, 97 ≤ c.toNat ∧ c.toNat ≤ 122
  distinct : b.names.Pairwise fun a c => a.1 ≠ c.1

theorem lookupName_some_iff {names : List (List Char × Nat)} (hd : names.Pairwise fun a c => a.1 ≠ c.1) {key : List Char} {v : Nat} :
    lookupName names key = some v ↔ ∃ e ∈ names, e.1 = key ∧ e.2 = v := by
  unfold lookupName
  induction names with
  | nil => simp
  | cons e es ih =>
    rw [List.pairwise_cons] at hd
    by_cases he : e.1 = key
    · simp only [List.find?_cons, he, decide_true, Option.map_some, Option.some.injEq, List.mem_cons, exists_eq_or_imp, true_and]
      constructor
      · intro h; exact Or.inl h
      · intro h
        rcases h with h | ⟨e', he', hk, _⟩
        · exact h
        · exact absurd (he.trans hk.symm) (hd.1 e' he')
    · simp only [List.find?_cons, List.mem_cons, exists_eq_or_imp, he, false_and, false_or]
      exact ih hd.2

theorem lookupName_none_iff {names : List (List Char × Nat)} {key : List Char} :
    lookupName names key = none ↔ ∀ e ∈ names, e.1 ≠ key := by
  unfold lookupName
  simp [List.find?_eq_none]

/-- a value of a field: one of its names in any mix of cases (as far as `unicode.ToLower` goes), or a numeral -/
def Value (b : Bounds) (l : List Char) (v : Nat) : Prop :=
  (∃ e ∈ b.names, e.1 = lower l ∧ e.2 = v) ∨ (Numeral l v ∧ v < 2 ^ 63)

theorem numeral_not_name {b : Bounds} (wn : WellNamed b) {l : List Char} {v : Nat} (h : Numeral l v) :
    ∀ e ∈ b.names, e.1 ≠ lower l := by
  intro e he heq
  obtain ⟨hne, hc⟩ := numeral_chars h
  cases l with
  | nil => exact hne rfl
  | cons c r =>
    have hcn := hc c List.mem_cons_self
    have : lowerChar c ∈ e.1 := by rw [heq]; simp [lower]
    have := wn.letters e he _ this
    rw [lowerChar_numChar hcn] at this
    unfold numChar at hcn
    omega

theorem parseIntOrName_ok_iff {b : Bounds} (wn : WellNamed b) {l : List Char} {v : Nat} (hl : l.head? ≠ some '-') :
    parseIntOrName l b.names = .ok v ↔ Value b l v := by
  unfold parseIntOrName Value
  split
  · rename_i w hw
    have := (lookupName_some_iff wn.distinct).mp hw
    constructor
    · intro h; cases h; exact Or.inl this
    · intro h
      rcases h with h | ⟨hn, _⟩
      · have := (lookupName_some_iff wn.distinct).mpr h
        rw [hw] at this; cases this; rfl
      · obtain ⟨e, he, hk, _⟩ := this
        exact absurd hk (numeral_not_name wn hn e he)
  · rename_i hnone
    rw [mustParseInt_ok_iff hl]
    constructor
    · intro h; exact Or.inr h
    · intro h
      rcases h with ⟨e, he, hk, _⟩ | h
      · exact absurd hk (lookupName_none_iff.mp hnone e he)
      · exact h

/-- separators and wildcards are not changed by lower-casing -/
theorem lowerChar_special {c : Char} (h : c = '-' ∨ c = '/' ∨ c = ',' ∨ c = '*' ∨ c = '?') : lowerChar c = c := by
  rcases h with rfl | rfl | rfl | rfl | rfl <;> decide

/-- a value contains none of `- / , * ?` -/
theorem value_clean {b : Bounds} (wn : WellNamed b) {l : List Char} {v : Nat} (h : Value b l v) :
    ∀ c ∈ l, ¬ (c = '-' ∨ c = '/' ∨ c = ',' ∨ c = '*' ∨ c = '?') := by
  intro c hc hsp
  rcases h with ⟨e, he, hk, _⟩ | ⟨hn, _⟩
  · have : lowerChar c ∈ e.1 := by rw [hk]; exact List.mem_map_of_mem hc
    have h1 := wn.letters e he _ this
    rw [lowerChar_special hsp] at h1
    rcases hsp with rfl | rfl | rfl | rfl | rfl <;> simp at h1
  · have := (numeral_chars hn).2 c hc
    unfold numChar at this
    rcases hsp with rfl | rfl | rfl | rfl | rfl <;> simp at this

theorem wellNamed_minutes : WellNamed minutes := ⟨by simp [minutes], by simp [minutes]⟩
theorem wellNamed_hours : WellNamed hours := ⟨by simp [hours], by simp [hours]⟩
theorem wellNamed_dom : WellNamed AL.Cron.dom := ⟨by simp [AL.Cron.dom], by simp [AL.Cron.dom]⟩
theorem wellNamed_months : WellNamed months := ⟨by decide, by decide⟩
theorem wellNamed_dow : WellNamed AL.Cron.dow := ⟨by decide, by decide⟩


/-! ### the grammar of a range expression -/

/-- What may stand in front of the slash, with the range `start … end_` it denotes; `single` says that there is no hyphen
(then a step turns `N` into `N-max`):
  * `*` or `?` — and, an oddity of the parser, `*` or `?` followed by a hyphen and anything: what follows is ignored;
  * a value;
  * two values with a hyphen between them. -/
inductive Base (b : Bounds) : List Char → Nat → Nat → Bool → Prop
  | star {q : Char} : (q = '*' ∨ q = '?') → Base b [q] b.min b.max true
  | starJunk {q : Char} {junk : List Char} : (q = '*' ∨ q = '?') → '/' ∉ junk → Base b (q :: '-' :: junk) b.min b.max false
  | one {a : List Char} {v : Nat} : Value b a v → Base b a v v true
  | range {a c : List Char} {v w : Nat} : Value b a v → Value b c w → Base b (a ++ '-' :: c) v w false

/-- A range expression of a field: a base, within the bounds and in order, optionally followed by a slash and a step, a
numeral from 1 to 2^63-1. With a step a single value `N` stands for `N-max`. -/
inductive Piece (b : Bounds) : List Char → Prop
  | noStep {x : List Char} {s e : Nat} {single : Bool} : Base b x s e single →
      b.min ≤ s → s ≤ e → e ≤ b.max → Piece b x
  | step {x st : List Char} {s e k : Nat} {single : Bool} : Base b x s e single → Numeral st k → 1 ≤ k → k < 2 ^ 63 →
      b.min ≤ s → s ≤ (if single then b.max else e) → (if single then b.max else e) ≤ b.max → Piece b (x ++ '/' :: st)

theorem mem_headD {lh : List (List Char)} {low : List Char} (hne : lh ≠ []) (h : lh.headD [] = low) : ∃ rest, lh = low :: rest := by
  cases lh with
  | nil => exact absurd rfl hne
  | cons a rest => simp at h; exact ⟨rest, by rw [h]⟩

theorem noHyphen_head {l : List Char} (h : ∀ x ∈ l, (x == '-') = false) : l.head? ≠ some '-' := by
  cases l with
  | nil => simp
  | cons c r =>
    have := h c List.mem_cons_self
    simp at this
    simp [this]

/-- forward: what `rangeBase` accepts is a base -/
theorem rangeBase_base {b : Bounds} (wn : WellNamed b) {x y : List Char} {s e1 x1 : Nat}
    (hy : ∀ c ∈ y, (c == '/') = false)
    (h : rangeBase x (splitBy (· == '-') y) b = .ok (s, e1, x1)) :
    Base b y s e1 ((splitBy (· == '-') y).length == 1) := by
  have hne := splitBy_ne_nil (· == '-') y
  unfold rangeBase at h
  simp only at h
  obtain ⟨rest, hlh⟩ := mem_headD hne rfl
  obtain ⟨hclean, hrest⟩ := splitBy_cons_inv hlh
  split at h
  · rename_i hstar
    cases h
    have hq : ∃ q, (q = '*' ∨ q = '?') ∧ (splitBy (· == '-') y).headD [] = [q] := by
      rcases hstar with h | h
      · exact ⟨'*', Or.inl rfl, h⟩
      · exact ⟨'?', Or.inr rfl, h⟩
    obtain ⟨q, hq1, hq2⟩ := hq
    rw [hq2] at hlh hrest
    rcases hrest with ⟨h0, hy0⟩ | ⟨c, r, hc, hy0, hr⟩
    · rw [hlh, h0, hy0]
      exact .star hq1
    · have hc' : c = '-' := by simpa using hc
      subst hc'
      have hlen : ((splitBy (· == '-') y).length == 1) = false := by
        rw [hlh, ← hr]
        have := splitBy_ne_nil (· == '-') r
        cases hsr : splitBy (· == '-') r with
        | nil => exact absurd hsr this
        | cons _ _ => simp
      rw [hlen, hy0]
      refine .starJunk hq1 ?_
      intro hmem
      have := hy '/' (by rw [hy0]; simp [hmem])
      simp at this
  · rename_i hnostar
    split at h
    · cases h
    · rename_i start hstart
      have hv : Value b ((splitBy (· == '-') y).headD []) start :=
        (parseIntOrName_ok_iff wn (noHyphen_head hclean)).mp hstart
      split at h
      · rename_i a hla
        cases h
        obtain ⟨hya, _⟩ := splitBy_single hla
        rw [hla] at hv ⊢
        simp only [List.headD_cons] at hv
        rw [hya]
        exact .one hv
      · rename_i a hi hla
        split at h
        · cases h
        · rename_i w hw
          have hv2 : Value b hi w := (parseIntOrName_ok_iff wn (noHyphen_head (splitBy_pair hla).choose_spec.2.2.2)).mp hw
          cases h
          obtain ⟨c, hc, hyc, ha, hhi⟩ := splitBy_pair hla
          have hc' : c = '-' := by simpa using hc
          subst hc'
          rw [hla] at hv ⊢
          simp only [List.headD_cons] at hv
          rw [hyc]
          exact .range hv hv2
      · cases h

/-- backward: a base is accepted by `rangeBase` -/
theorem base_rangeBase {b : Bounds} (wn : WellNamed b) {x y : List Char} {s e : Nat} {single : Bool} (h : Base b y s e single) :
    (∀ c ∈ y, (c == '/') = false) ∧ ((splitBy (· == '-') y).length == 1) = single ∧
    ∃ x1, rangeBase x (splitBy (· == '-') y) b = .ok (s, e, x1) := by
  cases h with
  | star hq =>
    rename_i q
    have hsp : splitBy (· == '-') [q] = [[q]] := by
      apply splitBy_clean
      intro c hc
      simp at hc; subst hc
      rcases hq with rfl | rfl <;> decide
    refine ⟨?_, by rw [hsp]; rfl, starBit, ?_⟩
    · intro c hc
      simp at hc; subst hc
      rcases hq with rfl | rfl <;> decide
    · rw [hsp]
      unfold rangeBase
      rcases hq with rfl | rfl <;> simp
  | starJunk hq hj =>
    rename_i q junk
    have hsp : splitBy (· == '-') (q :: '-' :: junk) = [q] :: splitBy (· == '-') junk := by
      have := splitBy_append (p := (· == '-')) (c := '-') (r := junk) (by decide) (a := [q])
        (by intro c hc; simp at hc; subst hc; rcases hq with rfl | rfl <;> decide)
      simpa using this
    refine ⟨?_, ?_, starBit, ?_⟩
    · intro c hc
      simp at hc
      rcases hc with rfl | rfl | hc
      · rcases hq with rfl | rfl <;> decide
      · decide
      · simp; intro h; subst h; exact hj hc
    · rw [hsp]
      cases hsr : splitBy (· == '-') junk with
      | nil => exact absurd hsr (splitBy_ne_nil _ _)
      | cons _ _ => simp
    · rw [hsp]
      unfold rangeBase
      rcases hq with rfl | rfl <;> simp
  | one hv =>
    have hcl := value_clean wn hv
    have hsp : splitBy (· == '-') y = [y] := by
      apply splitBy_clean
      intro c hc
      have := hcl c hc
      simp; intro h; exact this (Or.inl h)
    have hhead : y.head? ≠ some '-' := by
      apply noHyphen_head
      intro c hc
      have := hcl c hc
      simp; intro h; exact this (Or.inl h)
    refine ⟨?_, by rw [hsp]; rfl, 0, ?_⟩
    · intro c hc
      have := hcl c hc
      simp; intro h; exact this (Or.inr (Or.inl h))
    · rw [hsp]
      unfold rangeBase
      simp only [List.headD_cons]
      have h1 : ¬ (y = ['*'] ∨ y = ['?']) := by
        intro h
        rcases h with rfl | rfl
        · exact hcl '*' (by simp) (by simp)
        · exact hcl '?' (by simp) (by simp)
      simp only [h1, if_false]
      rw [(parseIntOrName_ok_iff wn hhead).mpr hv]
  | range hv hw =>
    rename_i a c
    have hcla := value_clean wn hv
    have hclc := value_clean wn hw
    have ha : ∀ z ∈ a, (z == '-') = false := by
      intro z hz; have := hcla z hz; simp; intro h; exact this (Or.inl h)
    have hc : ∀ z ∈ c, (z == '-') = false := by
      intro z hz; have := hclc z hz; simp; intro h; exact this (Or.inl h)
    have hsp : splitBy (· == '-') (a ++ '-' :: c) = [a, c] := by
      rw [splitBy_append (by decide) ha, splitBy_clean hc]
    refine ⟨?_, by rw [hsp]; rfl, 0, ?_⟩
    · intro z hz
      simp at hz
      rcases hz with hz | rfl | hz
      · have := hcla z hz; simp; intro h; exact this (Or.inr (Or.inl h))
      · decide
      · have := hclc z hz; simp; intro h; exact this (Or.inr (Or.inl h))
    · rw [hsp]
      unfold rangeBase
      simp only [List.headD_cons]
      have h1 : ¬ (a = ['*'] ∨ a = ['?']) := by
        intro h
        rcases h with rfl | rfl
        · exact hcla '*' (by simp) (by simp)
        · exact hcla '?' (by simp) (by simp)
      simp only [h1, if_false]
      rw [(parseIntOrName_ok_iff wn (noHyphen_head ha)).mpr hv, (parseIntOrName_ok_iff wn (noHyphen_head hc)).mpr hw]

theorem numeral_noSlash {t : List Char} {k : Nat} (h : Numeral t k) : ∀ c ∈ t, (c == '/') = false := by
  intro c hc
  have := (numeral_chars h).2 c hc
  unfold numChar at this
  simp
  intro h0; subst h0
  simp at this

/-- forward: what `getRange` accepts is a range expression of the grammar -/
theorem getRange_piece {b : Bounds} (wn : WellNamed b) {x : List Char} {m : Nat} (h : getRange x b = .ok m) : Piece b x := by
  unfold getRange at h
  simp only at h
  have hne := splitBy_ne_nil (· == '/') x
  obtain ⟨rs', hrs⟩ := mem_headD hne rfl
  obtain ⟨hyclean, hrest⟩ := splitBy_cons_inv hrs
  split at h
  · cases h
  · rename_i s e1 x1 hb
    have hbase := rangeBase_base wn hyclean hb
    split at h
    · cases h
    · rename_i st en ex hs
      unfold rangeCheck at h
      split at h
      · cases h
      · split at h
        · cases h
        · split at h
          · cases h
          · split at h
            · cases h
            · rename_i c1 c2 c3 c4
              unfold rangeStep at hs
              split at hs
              · rename_i y hy
                cases hs
                obtain ⟨hxy, _⟩ := splitBy_single hy
                rw [hy] at hbase
                simp only [List.headD_cons] at hbase
                rw [hxy]
                exact .noStep hbase (by omega) (by omega) (by omega)
              · rename_i y t hy
                split at hs
                · cases hs
                · rename_i k hk
                  cases hs
                  obtain ⟨c, hc, hxy, _, _⟩ := splitBy_pair hy
                  have hc' : c = '/' := by simpa using hc
                  subst hc'
                  rw [hy] at hbase
                  simp only [List.headD_cons] at hbase
                  simp only [hy, List.headD_cons] at c2 c3
                  have hk1 : 1 ≤ st := by omega
                  obtain ⟨hnum, hlt⟩ := (mustParseInt_pos_iff hk1).mp hk
                  rw [hxy]
                  exact .step hbase hnum hk1 hlt (by omega) (by omega) (by omega)
              · cases hs

/-- backward: a range expression of the grammar is accepted -/
theorem piece_getRange {b : Bounds} (wn : WellNamed b) {x : List Char} (h : Piece b x) : ∃ m, getRange x b = .ok m := by
  cases h with
  | noStep hb h1 h2 h3 =>
    rename_i s e single
    obtain ⟨hcl, hlen, x1, hrb⟩ := base_rangeBase (x := x) wn hb
    have hsp : splitBy (· == '/') x = [x] := splitBy_clean hcl
    unfold getRange
    simp only [hsp, List.headD_cons, hrb]
    unfold rangeStep
    simp only
    unfold rangeCheck
    have c1 : ¬ s < b.min := by omega
    have c2 : ¬ e > b.max := by omega
    have c3 : ¬ s > e := by omega
    simp [c1, c2, c3]
  | step hb hn hk1 hk2 h1 h2 h3 =>
    rename_i y t s e k single
    obtain ⟨hcl, hlen, x1, hrb⟩ := base_rangeBase (x := y ++ '/' :: t) wn hb
    have hsp : splitBy (· == '/') (y ++ '/' :: t) = [y, t] := by
      rw [splitBy_append (by decide) hcl, splitBy_clean (numeral_noSlash hn)]
    unfold getRange
    simp only [hsp, List.headD_cons, hrb]
    unfold rangeStep
    simp only [(mustParseInt_pos_iff hk1).mpr ⟨hn, hk2⟩, hlen]
    unfold rangeCheck
    have c1 : ¬ s < b.min := by omega
    have c2 : ¬ (if single = true then b.max else e) > b.max := by omega
    have c3 : ¬ s > (if single = true then b.max else e) := by omega
    have c4 : ¬ k = 0 := by omega
    simp [c1, c2, c3, c4]

/-- exactness of the grammar of a range expression, for every kind of field -/
theorem getRange_accepts_iff {b : Bounds} (wn : WellNamed b) {x : List Char} :
    (∃ m, getRange x b = .ok m) ↔ Piece b x :=
  ⟨fun ⟨_, h⟩ => getRange_piece wn h, piece_getRange wn⟩


/-! ### the grammar of a field -/

/-- A field: items separated by commas, each item empty (the parser skips empty items: `1,,2`, `,`) or a range expression. -/
inductive FieldG (b : Bounds) : List Char → Prop
  | last {e : List Char} : (e = [] ∨ Piece b e) → ',' ∉ e → FieldG b e
  | cons {e r : List Char} : (e = [] ∨ Piece b e) → ',' ∉ e → FieldG b r → FieldG b (e ++ ',' :: r)

theorem getFieldAux_ok_iff {b : Bounds} : ∀ {es : List (List Char)} {bits : Nat},
    (∃ m, getFieldAux b es bits = .ok m) ↔ ∀ e ∈ es, ∃ m, getRange e b = .ok m
  | [], bits => by simp [getFieldAux]
  | e :: es, bits => by
    unfold getFieldAux
    cases hr : getRange e b with
    | error err =>
      simp only [List.mem_cons, forall_eq_or_imp, hr]
      constructor
      · intro ⟨m, h⟩; cases h
      · intro ⟨⟨m, h⟩, _⟩; cases h
    | ok bit =>
      simp only [List.mem_cons, forall_eq_or_imp, hr]
      rw [getFieldAux_ok_iff (es := es)]
      constructor
      · intro h; exact ⟨⟨bit, rfl⟩, h⟩
      · intro ⟨_, h⟩; exact h

theorem noComma_iff {e : List Char} : (∀ x ∈ e, (x == ',') = false) ↔ ',' ∉ e := by
  constructor
  · intro h hm; have := h ',' hm; simp at this
  · intro h x hx; simp; intro hx'; subst hx'; exact h hx

theorem fieldG_of_split {b : Bounds} : ∀ (ps : List (List Char)) (f : List Char), splitBy (· == ',') f = ps →
    (∀ e ∈ ps, e = [] ∨ Piece b e) → FieldG b f
  | [], f, h, _ => absurd h (splitBy_ne_nil _ f)
  | a :: rest, f, h, hall => by
    obtain ⟨hcl, hr⟩ := splitBy_cons_inv h
    have ha := hall a List.mem_cons_self
    rcases hr with ⟨_, rfl⟩ | ⟨c, r, hc, rfl, hr⟩
    · exact .last ha (noComma_iff.mp hcl)
    · have hc' : c = ',' := by simpa using hc
      subst hc'
      exact .cons ha (noComma_iff.mp hcl) (fieldG_of_split rest r hr (fun e he => hall e (List.mem_cons_of_mem _ he)))

theorem split_of_fieldG {b : Bounds} {f : List Char} (h : FieldG b f) : ∀ e ∈ splitBy (· == ',') f, e = [] ∨ Piece b e := by
  induction h with
  | last he hc =>
    rw [splitBy_clean (noComma_iff.mpr hc)]
    intro e' he'
    simp at he'; subst he'; exact he
  | cons he hc _ ih =>
    rw [splitBy_append (by decide) (noComma_iff.mpr hc)]
    intro e' he'
    rcases List.mem_cons.mp he' with rfl | he'
    · exact he
    · exact ih e' he'

/-- EXACTNESS OF THE FIELD GRAMMAR, for every kind of field (minute, hour, day of month, month, day of week): `getField`
accepts a field iff it is a comma-separated list of range expressions of the grammar (empty items allowed). -/
theorem getField_accepts_iff {b : Bounds} (wn : WellNamed b) {f : List Char} :
    (∃ m, getField f b = .ok m) ↔ FieldG b f := by
  unfold getField
  rw [getFieldAux_ok_iff]
  unfold fieldsBy
  constructor
  · intro h
    apply fieldG_of_split _ f rfl
    intro e he
    by_cases he0 : e = []
    · exact Or.inl he0
    · right
      apply (getRange_accepts_iff wn).mp
      apply h
      simp [he, he0]
  · intro h e he
    simp only [List.mem_filter, Bool.not_eq_true', List.isEmpty_eq_false_iff] at he
    rcases split_of_fieldG h e he.1 with h0 | hp
    · exact absurd h0 he.2
    · exact (getRange_accepts_iff wn).mpr hp


/-! ### `Next` -/

theorem findFrom_some {α} {f : Nat → Option α} : ∀ {cnt lo : Nat} {a : α}, findFrom f lo cnt = some a →
    ∃ i, lo ≤ i ∧ i < lo + cnt ∧ f i = some a ∧ ∀ j, lo ≤ j → j < i → f j = none
  | 0, lo, a, h => by simp [findFrom] at h
  | cnt + 1, lo, a, h => by
    unfold findFrom at h
    split at h
    · rename_i b hb
      cases h
      exact ⟨lo, Nat.le_refl _, by omega, hb, fun j h1 h2 => by omega⟩
    · rename_i hb
      obtain ⟨i, h1, h2, h3, h4⟩ := findFrom_some h
      refine ⟨i, by omega, by omega, h3, fun j hj1 hj2 => ?_⟩
      by_cases hj : j = lo
      · subst hj; exact hb
      · exact h4 j (by omega) hj2

theorem findFrom_none {α} {f : Nat → Option α} : ∀ {cnt lo : Nat}, findFrom f lo cnt = none →
    ∀ j, lo ≤ j → j < lo + cnt → f j = none
  | 0, lo, _, j, h1, h2 => by omega
  | cnt + 1, lo, h, j, h1, h2 => by
    unfold findFrom at h
    split at h
    · cases h
    · rename_i hb
      by_cases hj : j = lo
      · subst hj; exact hb
      · exact findFrom_none h j (by omega) (by omega)

theorem findRange_some {α} {f : Nat → Option α} {lo hi : Nat} {a : α} (h : findRange lo hi f = some a) :
    ∃ i, lo ≤ i ∧ i ≤ hi ∧ f i = some a ∧ ∀ j, lo ≤ j → j < i → f j = none := by
  obtain ⟨i, h1, h2, h3, h4⟩ := findFrom_some h
  exact ⟨i, h1, by omega, h3, h4⟩

theorem findRange_none {α} {f : Nat → Option α} {lo hi : Nat} (h : findRange lo hi f = none) :
    ∀ j, lo ≤ j → j ≤ hi → f j = none := fun j h1 h2 => findFrom_none h j h1 (by omega)

/-- `c` is later than `t` on the calendar -/
def After (t c : Civil) : Prop :=
  t.y < c.y ∨ (t.y = c.y ∧ (t.mo < c.mo ∨ (t.mo = c.mo ∧ (t.d < c.d ∨ (t.d = c.d ∧
    (t.h < c.h ∨ (t.h = c.h ∧ (t.mi < c.mi ∨ (t.mi = c.mi ∧ t.s < c.s)))))))))

/-- a date and time of day that exists -/
structure ValidT (c : Civil) : Prop where
  y : 1 ≤ c.y
  mo1 : 1 ≤ c.mo
  mo2 : c.mo ≤ 12
  d1 : 1 ≤ c.d
  d2 : c.d ≤ daysIn c.y c.mo
  h : c.h ≤ 23
  mi : c.mi ≤ 59
  s : c.s ≤ 59

/-- what `Next` returns is a calendar time of the schedule, later than `t`, at most five years after the year of `t + 1s` -/
theorem next_sound {sc : Sched} {t c : Civil} (ht : ValidT t) (h : next sc t = some c) :
    ValidT c ∧ After t c ∧ c.y ≤ yearOfSucc t + 5 ∧
    sc.month.testBit c.mo = true ∧ dayMatches sc c.y c.mo c.d = true ∧ sc.hour.testBit c.h = true ∧
    sc.minute.testBit c.mi = true ∧ sc.second.testBit c.s = true := by
  unfold next at h
  obtain ⟨y, hy1, hy2, hy, -⟩ := findRange_some h
  obtain ⟨mo, hmo1, hmo2, hmo, -⟩ := findRange_some hy
  split at hmo
  · cases hmo
  · rename_i hbm
    obtain ⟨d, hd1, hd2, hd, -⟩ := findRange_some hmo
    split at hd
    · cases hd
    · rename_i hbd
      obtain ⟨hh, hh1, hh2, hhh, -⟩ := findRange_some hd
      split at hhh
      · cases hhh
      · rename_i hbh
        obtain ⟨mi, hmi1, hmi2, hmi, -⟩ := findRange_some hhh
        split at hmi
        · cases hmi
        · rename_i hbmi
          obtain ⟨s, hs1, hs2, hs, -⟩ := findRange_some hmi
          split at hs
          · rename_i hbs
            cases hs
            simp at hbm hbd hbh hbmi
            have hv := ht
            refine ⟨⟨?_, ?_, hmo2, ?_, hd2, hh2, hmi2, hs2⟩, ?_, hy2, hbm, hbd, hbh, hbmi, hbs⟩
            · show 1 ≤ y
              have := ht.y; omega
            · show 1 ≤ mo
              by_cases hty : y = t.y
              · simp [hty] at hmo1; have := ht.mo1; omega
              · simp [hty] at hmo1; exact hmo1
            · show 1 ≤ d
              by_cases htm : (y == t.y && mo == t.mo) = true
              · simp only [htm, if_true] at hd1; have := ht.d1; omega
              · simp only [htm] at hd1; exact hd1
            · -- After t c
              unfold After
              show t.y < y ∨ (t.y = y ∧ (t.mo < mo ∨ (t.mo = mo ∧ (t.d < d ∨ (t.d = d ∧
                (t.h < hh ∨ (t.h = hh ∧ (t.mi < mi ∨ (t.mi = mi ∧ t.s < s)))))))))
              by_cases hty : y = t.y
              · right; refine ⟨hty.symm, ?_⟩
                simp only [hty, beq_self_eq_true, if_true, Bool.true_and] at hmo1 hd1 hh1 hmi1 hs1
                by_cases htm : mo = t.mo
                · right; refine ⟨htm.symm, ?_⟩
                  simp only [htm, beq_self_eq_true, if_true, Bool.true_and] at hd1 hh1 hmi1 hs1
                  by_cases htd : d = t.d
                  · right; refine ⟨htd.symm, ?_⟩
                    simp only [htd, beq_self_eq_true, if_true, Bool.true_and] at hh1 hmi1 hs1
                    by_cases hth : hh = t.h
                    · right; refine ⟨hth.symm, ?_⟩
                      simp only [hth, beq_self_eq_true, if_true, Bool.true_and] at hmi1 hs1
                      by_cases htmi : mi = t.mi
                      · right; refine ⟨htmi.symm, ?_⟩
                        simp only [htmi, beq_self_eq_true, if_true] at hs1
                        omega
                      · left; omega
                    · left; omega
                  · left; omega
                · left; omega
              · left; omega
          · cases hs


/-! ### the calendar is monotone -/

theorem daysUpTo_mono (y : Nat) : ∀ {m m' : Nat}, m ≤ m' → daysUpTo y m ≤ daysUpTo y m'
  | m, 0, h => by have : m = 0 := by omega
                  subst this; exact Nat.le_refl _
  | m, m' + 1, h => by
    by_cases h' : m = m' + 1
    · subst h'; exact Nat.le_refl _
    · have := daysUpTo_mono y (m := m) (m' := m') (by omega)
      show daysUpTo y m ≤ daysUpTo y m' + daysIn y (m' + 1)
      omega

theorem daysUpTo_twelve (y : Nat) : daysUpTo y 12 = 365 + (if isLeap y then 1 else 0) := by
  by_cases h : isLeap y = true <;> simp [daysUpTo, daysIn, h]

theorem daysBeforeYear_succ {y : Nat} (hy : 1 ≤ y) : daysBeforeYear (y + 1) = daysBeforeYear y + daysUpTo y 12 := by
  obtain ⟨p, rfl⟩ : ∃ p, y = p + 1 := ⟨y - 1, by omega⟩
  rw [daysUpTo_twelve]
  unfold daysBeforeYear isLeap
  simp only [Nat.add_sub_cancel]
  have e4 : (p+1)/4 = p/4 + (if (p+1)%4 = 0 then 1 else 0) := by split <;> omega
  have e100 : (p+1)/100 = p/100 + (if (p+1)%100 = 0 then 1 else 0) := by split <;> omega
  have e400 : (p+1)/400 = p/400 + (if (p+1)%400 = 0 then 1 else 0) := by split <;> omega
  rw [e4, e100, e400]
  have : p / 100 ≤ p / 4 := by omega
  by_cases h4 : (p + 1) % 4 = 0 <;> by_cases h100 : (p + 1) % 100 = 0 <;> by_cases h400 : (p + 1) % 400 = 0 <;>
    simp [h4, h100, h400] <;> omega

theorem daysBeforeYear_mono {y : Nat} : ∀ {y' : Nat}, y ≤ y' → daysBeforeYear y ≤ daysBeforeYear y'
  | 0, h => by have : y = 0 := by omega
               subst this; exact Nat.le_refl _
  | y' + 1, h => by
    by_cases h' : y = y' + 1
    · subst h'; exact Nat.le_refl _
    · have ih := daysBeforeYear_mono (y := y) (y' := y') (by omega)
      by_cases h0 : y' = 0
      · subst h0
        have : y = 0 := by omega
        subst this
        decide
      · have := daysBeforeYear_succ (y := y') (by omega)
        omega

theorem daysUpTo_pred (y : Nat) {mo : Nat} (h : 1 ≤ mo) : daysUpTo y mo = daysUpTo y (mo - 1) + daysIn y mo := by
  cases mo with
  | zero => omega
  | succ n => rfl

theorem daysIn_pos (y m : Nat) : 1 ≤ daysIn y m := by
  unfold daysIn
  repeat' split
  all_goals omega

/-- the day number is strictly monotone along the calendar -/
theorem dayNumber_lt {y mo d y' mo' d' : Nat} (hy : 1 ≤ y) (hmo : 1 ≤ mo) (hmo2 : mo ≤ 12) (hd1 : 1 ≤ d) (hd : d ≤ daysIn y mo)
    (hmo' : 1 ≤ mo') (hd' : 1 ≤ d')
    (h : y < y' ∨ (y = y' ∧ (mo < mo' ∨ (mo = mo' ∧ d < d')))) :
    dayNumber y mo d < dayNumber y' mo' d' := by
  unfold dayNumber
  -- within one year
  have inYear : daysUpTo y (mo - 1) + (d - 1) < daysUpTo y 12 := by
    have h1 := daysUpTo_pred y hmo
    have h2 := daysUpTo_mono y hmo2
    omega
  rcases h with h | ⟨rfl, h⟩
  · have h1 := daysBeforeYear_succ hy
    have h2 := daysBeforeYear_mono (y := y + 1) (y' := y') (by omega)
    omega
  · rcases h with h | ⟨rfl, h⟩
    · have h1 := daysUpTo_pred y hmo
      have h2 := daysUpTo_mono y (m := mo) (m' := mo' - 1) (by omega)
      omega
    · omega


/-! ### seconds, and the frequency rule in general -/

/-- later on the calendar is later in seconds -/
theorem toSecs_lt {t c : Civil} (ht : ValidT t) (hc : ValidT c) (h : After t c) : t.toSecs < c.toSecs := by
  unfold Civil.toSecs
  have ht1 := ht.h; have ht2 := ht.mi; have ht3 := ht.s
  have hc1 := hc.h; have hc2 := hc.mi; have hc3 := hc.s
  by_cases hday : t.y < c.y ∨ (t.y = c.y ∧ (t.mo < c.mo ∨ (t.mo = c.mo ∧ t.d < c.d)))
  · have := dayNumber_lt ht.y ht.mo1 ht.mo2 ht.d1 ht.d2 hc.mo1 hc.d1 hday
    omega
  · unfold After at h
    have e1 : t.y = c.y := by omega
    have e2 : t.mo = c.mo := by omega
    have e3 : t.d = c.d := by omega
    rw [e1, e2, e3]
    omega

/-- two calendar times with the same minute and second are at least an hour apart -/
theorem toSecs_same_minute {t c : Civil} (ht : ValidT t) (hc : ValidT c) (h : After t c) (hmi : t.mi = c.mi) (hs : t.s = c.s) :
    t.toSecs + 3600 ≤ c.toSecs := by
  unfold Civil.toSecs
  have ht1 := ht.h; have hc1 := hc.h
  by_cases hday : t.y < c.y ∨ (t.y = c.y ∧ (t.mo < c.mo ∨ (t.mo = c.mo ∧ t.d < c.d)))
  · have := dayNumber_lt ht.y ht.mo1 ht.mo2 ht.d1 ht.d2 hc.mo1 hc.d1 hday
    omega
  · unfold After at h
    have e1 : t.y = c.y := by omega
    have e2 : t.mo = c.mo := by omega
    have e3 : t.d = c.d := by omega
    rw [e1, e2, e3]
    omega

theorem valid_epoch : ValidT epoch := by
  constructor <;> decide
theorem valid_zeroTime : ValidT zeroTime := by
  constructor <;> decide

theorem testBit_one {i : Nat} (h : Nat.testBit 1 i = true) : i = 0 := by
  have : (2 ^ 0).testBit i = true := h
  rw [Nat.testBit_two_pow] at this
  have h0 : 0 = i := by simpa using this
  exact h0.symm

theorem subNanos_ge {t c : Civil} {k : Nat} (hk : (k : Int) * 1000000000 ≤ maxDuration) (h : t.toSecs + k ≤ c.toSecs) :
    (k : Int) * 1000000000 ≤ subNanos c t := by
  unfold subNanos
  simp only
  have hk' : (0 : Int) ≤ (k : Int) * 1000000000 := by omega
  unfold maxDuration minDuration at *
  split
  · exact hk
  · split
    · omega
    · omega

/-- the frequency rule, fixed minute: a schedule that names one minute of the hour (and the second 0, as every parsed
schedule does) and fires at least twice has its first two activations an hour or more apart — it is not reported -/
theorem fixed_minute_not_frequent {sc : Sched} {m : Nat} {t1 t2 : Civil}
    (hsec : sc.second = 1) (hmin : ∀ i, sc.minute.testBit i = true → i = m)
    (h1 : next sc epoch = some t1) (h2 : next sc t1 = some t2) :
    3600 * 1000000000 ≤ gapNanos sc ∧ tooFrequent sc = false := by
  obtain ⟨v1, -, -, -, -, -, hm1, hs1⟩ := next_sound valid_epoch h1
  obtain ⟨v2, a2, -, -, -, -, hm2, hs2⟩ := next_sound v1 h2
  rw [hsec] at hs1 hs2
  have e1 := hmin _ hm1
  have e2 := hmin _ hm2
  have e3 := testBit_one hs1
  have e4 := testBit_one hs2
  have := toSecs_same_minute v1 v2 a2 (by omega) (by omega)
  have hg : (3600 : Int) * 1000000000 ≤ gapNanos sc := by
    unfold gapNanos nextTime
    simp only [h1, h2, Option.getD_some]
    exact subNanos_ge (k := 3600) (by unfold maxDuration; omega) this
  refine ⟨hg, ?_⟩
  unfold tooFrequent
  simp only [decide_eq_false_iff_not]
  omega

/-- … and a schedule that never fires (say the 31st of February) comes out with an interval of 0 seconds and IS reported
as running too frequently -/
theorem never_fires_reported {sc : Sched} (h1 : next sc epoch = none) (h2 : next sc zeroTime = none) :
    gapNanos sc = 0 ∧ tooFrequent sc = true := by
  have hg : gapNanos sc = 0 := by
    unfold gapNanos nextTime
    simp only [h1, h2, Option.getD_none]
    unfold subNanos maxDuration minDuration
    simp
  exact ⟨hg, by unfold tooFrequent; rw [hg]; decide⟩


theorem findFrom_none_intro {α} {f : Nat → Option α} : ∀ {cnt lo : Nat}, (∀ j, lo ≤ j → j < lo + cnt → f j = none) →
    findFrom f lo cnt = none
  | 0, _, _ => rfl
  | cnt + 1, lo, h => by
    unfold findFrom
    rw [h lo (Nat.le_refl _) (by omega)]
    exact findFrom_none_intro (fun j h1 h2 => h j (by omega) (by omega))

theorem findRange_none_intro {α} {f : Nat → Option α} {lo hi : Nat} (h : ∀ j, lo ≤ j → j ≤ hi → f j = none) :
    findRange lo hi f = none :=
  findFrom_none_intro (fun j h1 h2 => h j h1 (by omega))

theorem findRange_hit {α} {f : Nat → Option α} {lo hi : Nat} {a : α} (hle : lo ≤ hi) (h : f lo = some a) :
    findRange lo hi f = some a := by
  unfold findRange
  have : hi + 1 - lo = (hi - lo) + 1 := by omega
  rw [this]
  unfold findFrom
  rw [h]

theorem findRange_skip {α} {f : Nat → Option α} {lo hi : Nat} (hle : lo ≤ hi) (h : f lo = none) :
    findRange lo hi f = findRange (lo + 1) hi f := by
  unfold findRange
  have : hi + 1 - lo = (hi + 1 - (lo + 1)) + 1 := by omega
  rw [this]
  conv => lhs; unfold findFrom
  rw [h]

/-- with the second field `0` (as in every parsed schedule) no second after the first of a minute matches -/
theorem no_later_second {sc : Sched} (hsec : sc.second = 1) {α} (g : Nat → α) (lo : Nat) (hlo : 1 ≤ lo) :
    findRange lo 59 (fun s => if sc.second.testBit s then some (g s) else none) = none := by
  apply findRange_none_intro
  intro j h1 _
  have : sc.second.testBit j = false := by
    rw [hsec]
    cases hb : Nat.testBit 1 j with
    | false => rfl
    | true => have := testBit_one hb; omega
  simp [this]

/-- one step of `Next`: from a time `t` (at second 0) whose month, day and hour are in the schedule, when the following minute
of the same hour is in the schedule too, `Next t` is that minute -/
theorem next_following_minute {sc : Sched} {t : Civil} (ht : ValidT t) (hsec : sc.second = 1)
    (hmo : sc.month.testBit t.mo = true) (hd : dayMatches sc t.y t.mo t.d = true) (hh : sc.hour.testBit t.h = true)
    (hmi : sc.minute.testBit (t.mi + 1) = true) (hlt : t.mi + 1 ≤ 59) :
    next sc t = some ⟨t.y, t.mo, t.d, t.h, t.mi + 1, 0⟩ := by
  unfold next
  have hy : t.y ≤ yearOfSucc t + 5 := by unfold yearOfSucc; split <;> omega
  apply findRange_hit hy
  simp only [beq_self_eq_true, if_true, Bool.true_and]
  apply findRange_hit ht.mo2
  simp only [hmo, Bool.not_true, Bool.false_eq_true, if_false, beq_self_eq_true, if_true, Bool.true_and]
  apply findRange_hit ht.d2
  simp only [hd, Bool.not_true, Bool.false_eq_true, if_false, beq_self_eq_true, if_true, Bool.true_and]
  apply findRange_hit ht.h
  simp only [hh, Bool.not_true, Bool.false_eq_true, if_false, beq_self_eq_true, if_true, Bool.true_and]
  rw [findRange_skip ht.mi]
  · apply findRange_hit hlt
    have hne : (t.mi + 1 == t.mi) = false := by simp
    simp only [hmi, Bool.not_true, Bool.false_eq_true, if_false, hne]
    apply findRange_hit (by omega)
    rw [hsec]
    rfl
  · simp only [beq_self_eq_true, if_true]
    split
    · rfl
    · exact no_later_second hsec _ _ (by omega)

/-- the first activation after the epoch is not later than minute 1 of its hour when minute 1 is in the schedule -/
theorem first_minute_le_one {sc : Sched} {t1 : Civil} (hsec : sc.second = 1) (hbit : sc.minute.testBit 1 = true)
    (h : next sc epoch = some t1) : t1.mi ≤ 1 := by
  unfold next at h
  obtain ⟨y, -, -, hy, -⟩ := findRange_some h
  obtain ⟨mo, -, -, hmo, -⟩ := findRange_some hy
  split at hmo
  · cases hmo
  · obtain ⟨d, -, -, hd, -⟩ := findRange_some hmo
    split at hd
    · cases hd
    · obtain ⟨hh, -, -, hhh, -⟩ := findRange_some hd
      split at hhh
      · cases hhh
      · obtain ⟨mi, hmi1, hmi2, hmi, hmin⟩ := findRange_some hhh
        split at hmi
        · cases hmi
        · obtain ⟨s, -, -, hs, -⟩ := findRange_some hmi
          split at hs
          · cases hs
            show mi ≤ 1
            apply Classical.byContradiction
            intro hgt
            have hlo : (if (y == epoch.y && mo == epoch.mo && d == epoch.d && hh == epoch.h) = true then epoch.mi else 0) ≤ 1 := by
              split
              · show (0 : Nat) ≤ 1; omega
              · omega
            have h1 := hmin 1 hlo (by omega)
            have hne : ((1 : Nat) == epoch.mi) = false := by decide
            simp only [hbit, Bool.not_true, Bool.false_eq_true, if_false, hne, Bool.and_false] at h1
            have h0 : findRange 0 59 (fun s => if sc.second.testBit s = true then some (⟨y, mo, d, hh, 1, s⟩ : Civil) else none)
                = some ⟨y, mo, d, hh, 1, 0⟩ := by
              apply findRange_hit (by omega)
              rw [hsec]; rfl
            rw [h0] at h1
            cases h1
          · cases hs

theorem subNanos_exact {t c : Civil} {k : Nat} (hk : (k : Int) * 1000000000 ≤ maxDuration) (h : c.toSecs = t.toSecs + k) :
    subNanos c t = (k : Int) * 1000000000 := by
  unfold subNanos
  simp only
  have e : ((c.toSecs : Int) - (t.toSecs : Int)) * 1000000000 = (k : Int) * 1000000000 := by
    have : ((c.toSecs : Int) - (t.toSecs : Int)) = (k : Int) := by omega
    rw [this]
  rw [e]
  unfold maxDuration minDuration at *
  split
  · omega
  · split
    · omega
    · rfl

/-- THE FREQUENCY RULE, EVERY MINUTE. A schedule whose minute field contains every minute (`*`, `0-59`, `*/1`, …) and that
fires at all is always reported: whatever the other fields say, its first two activations after the epoch are one minute
apart (the first one is at minute 0 or 1 of an hour of the schedule, the second one in the same hour). -/
theorem all_minutes_reported {sc : Sched} {t1 : Civil} (hsec : sc.second = 1)
    (hall : ∀ i, i ≤ 59 → sc.minute.testBit i = true) (h1 : next sc epoch = some t1) :
    next sc t1 = some ⟨t1.y, t1.mo, t1.d, t1.h, t1.mi + 1, 0⟩ ∧ gapNanos sc = 60000000000 ∧ tooFrequent sc = true := by
  obtain ⟨v1, -, -, hmo, hd, hh, -, hs⟩ := next_sound valid_epoch h1
  have hmi := first_minute_le_one hsec (hall 1 (by omega)) h1
  have hs0 : t1.s = 0 := by rw [hsec] at hs; exact testBit_one hs
  have h2 := next_following_minute v1 hsec hmo hd hh (hall _ (by omega)) (by omega)
  have hg : gapNanos sc = 60000000000 := by
    unfold gapNanos nextTime
    simp only [h1, h2, Option.getD_some]
    have : (60 : Int) * 1000000000 = 60000000000 := by decide
    rw [← this]
    apply subNanos_exact (k := 60) (by unfold maxDuration; omega)
    unfold Civil.toSecs
    simp only
    omega
  exact ⟨h2, hg, by unfold tooFrequent; rw [hg]; decide⟩


/-! ### the frequency rule on the usual shapes -/

/-- without a zone prefix the zone data base is not consulted -/
theorem parseL_no_zone {zk zk' : List Char → Bool} {spec : List Char} (h : tzPrefix spec = false) :
    parseL zk spec = parseL zk' spec := by
  unfold parseL splitZone
  simp [h]

theorem checkCronL_no_zone {zk zk' : List Char → Bool} {spec : List Char} (h : tzPrefix spec = false) :
    checkCronL zk spec = checkCronL zk' spec := by
  unfold checkCronL
  rw [parseL_no_zone (zk := zk) (zk' := zk') h]

/-- `* * * * *` is always reported: once per 60 seconds -/
theorem every_minute (zk : List Char → Bool) :
    checkCronL zk "* * * * *".toList = .diags [.tooFrequent 60000000000] := by
  rw [checkCronL_no_zone (zk' := fun _ => false) (by decide)]
  decide +kernel

/-- `*/n * * * *` as a list of characters -/
def stepSpec (n : Nat) : List Char := "*/".toList ++ Nat.toDigits 10 n ++ " * * * *".toList

/-- the schedule of `*/n * * * *`: minutes `0, n, 2n, …`, everything else starred -/
def stepSched (n : Nat) : Sched :=
  ⟨1, getBits 0 59 n ||| (if n > 1 then 0 else starBit), getBits 0 23 1 ||| starBit, getBits 1 31 1 ||| starBit,
   getBits 1 12 1 ||| starBit, getBits 0 6 1 ||| starBit, .local_⟩

def stepCheck (n : Nat) : Bool :=
  (match parseL (fun _ => false) (stepSpec n) with
   | .ok sc => sc == stepSched n
   | .error _ => false) &&
  gapNanos (stepSched n) == ((if 2 * n ≤ 59 then n else 60 - n : Nat) : Int) * 60000000000 &&
  tooFrequent (stepSched n) == decide (n < 5 ∨ 55 < n)

theorem stepCheck_all : ∀ n, n < 60 → (n == 0 || stepCheck n) = true := by decide +kernel

/-- THE STEP RULE. For `1 ≤ n ≤ 59` the spec `*/n * * * *` parses to `stepSched n`; the interval `checkCron` looks at is the
one between the first two activations after the epoch, 00:n and 00:2n — or 01:00 when `2n > 59` — so it is `n` minutes for
`n ≤ 29` and `60 - n` minutes above; the spec is reported iff `n < 5` or `n > 55`. In particular `*/7` (…, :49, :56, :00:
four minutes between the last two) is NOT reported, and `*/57` (:00, :57: three minutes) is. -/
theorem step_rule (zk : List Char → Bool) {n : Nat} (h1 : 1 ≤ n) (h2 : n ≤ 59) :
    parseL zk (stepSpec n) = .ok (stepSched n) ∧
    gapNanos (stepSched n) = ((if 2 * n ≤ 59 then n else 60 - n : Nat) : Int) * 60000000000 ∧
    (tooFrequent (stepSched n) = true ↔ (n < 5 ∨ 55 < n)) := by
  have h := stepCheck_all n (by omega)
  have hn : (n == 0) = false := by simp; omega
  simp only [hn, Bool.false_or, stepCheck, Bool.and_eq_true, beq_iff_eq] at h
  obtain ⟨⟨hp, hg⟩, hf⟩ := h
  refine ⟨?_, hg, ?_⟩
  · have hz : tzPrefix (stepSpec n) = false := by
      unfold stepSpec tzPrefix hasPrefix
      simp [List.isPrefixOf]
    rw [parseL_no_zone (zk' := fun _ => false) hz]
    split at hp
    · rename_i sc hsc
      rw [hsc]
      have : sc = stepSched n := by simpa using hp
      rw [this]
    · cases hp
  · rw [hf]; simp

example : (checkCronL (fun _ => false) "*/5 * * * *".toList) = .diags [] := by decide +kernel
example : (checkCronL (fun _ => false) "*/4 * * * *".toList) = .diags [.tooFrequent 240000000000] := by decide +kernel
example : (checkCronL (fun _ => false) "*/7 * * * *".toList) = .diags [] := by decide +kernel
example : (checkCronL (fun _ => false) "*/57 * * * *".toList) = .diags [.tooFrequent 180000000000] := by decide +kernel
/-- only the FIRST interval after the epoch counts, and the epoch itself is not an activation: minutes 0 and 4 of every hour
are not reported (first 00:04, then 01:00), minutes 4 and 8 are -/
example : (checkCronL (fun _ => false) "0,4 * * * *".toList) = .diags [] := by decide +kernel
example : (checkCronL (fun _ => false) "4,8 * * * *".toList) = .diags [.tooFrequent 240000000000] := by decide +kernel
/-- the 31st of February: never fires, reported as once per 0 seconds -/
example : (checkCronL (fun _ => false) "0 0 31 2 *".toList) = .diags [.tooFrequent 0] := by decide +kernel
/-- the 29th of February: 1972 and 1976 -/
example : (checkCronL (fun _ => false) "0 0 29 2 *".toList) = .diags [] := by decide +kernel
example : (parseL (fun _ => false) "0 0 29 2 *".toList).toOption.map gapNanos = some (1461 * 86400 * 1000000000) := by decide +kernel
/-- the guard and the panic it prevents -/
example : checkCronL (fun _ => true) "TZ=UTC".toList = .diags [.noScheduleAfterZone "TZ=UTC".toList] := by decide +kernel
example : parseL (fun _ => true) "TZ=UTC".toList = .error .slicePanic := by rfl
example : (parseL (fun _ => true) "CRON_TZ=UTC 0 0 * * MON".toList).toOption.map (·.dow) = some 2 := by decide +kernel
/-- oddities of the parser the grammar theorem makes explicit -/
example : (parseL (fun _ => false) "*-5 +7 ,, * FRİ".toList).toOption.map (fun sc => (sc.hour, sc.dow)) = some (2 ^ 7, 2 ^ 5) := by decide +kernel


/-! ### `checkCron` as a whole -/

/-- the outcomes of `checkCron`, put together: the guard; a parse error (never the panic); a schedule in another zone (not
modelled further); a schedule whose first two activations are less than 300 s apart; nothing -/
theorem checkCronL_cases (zk : List Char → Bool) (spec : List Char) :
    (AL.Cron.guard spec = true ∧ checkCronL zk spec = .diags [.noScheduleAfterZone spec]) ∨
    (AL.Cron.guard spec = false ∧ ∃ e, parseL zk spec = .error e ∧ e ≠ .slicePanic ∧ checkCronL zk spec = .diags [.invalidFormat spec e]) ∨
    (AL.Cron.guard spec = false ∧ ∃ sc z, parseL zk spec = .ok sc ∧ sc.loc = .zone z ∧ checkCronL zk spec = .outOfScope sc) ∨
    (AL.Cron.guard spec = false ∧ ∃ sc, parseL zk spec = .ok sc ∧ (∀ z, sc.loc ≠ .zone z) ∧ tooFrequent sc = true ∧
        checkCronL zk spec = .diags [.tooFrequent (gapNanos sc)]) ∨
    (AL.Cron.guard spec = false ∧ ∃ sc, parseL zk spec = .ok sc ∧ (∀ z, sc.loc ≠ .zone z) ∧ tooFrequent sc = false ∧
        checkCronL zk spec = .diags []) := by
  by_cases hg : AL.Cron.guard spec = true
  · left; exact ⟨hg, by simp [checkCronL, hg]⟩
  · right
    have hg' : AL.Cron.guard spec = false := by simpa using hg
    cases hp : parseL zk spec with
    | error e =>
      left
      refine ⟨hg', e, rfl, ?_, by simp [checkCronL, hg', hp]⟩
      intro he; subst he
      exact hg (guard_eq.mpr (parseL_panic_iff.mp hp))
    | ok sc =>
      right
      cases hl : sc.loc with
      | zone z =>
        left
        exact ⟨hg', sc, z, rfl, hl, by simp [checkCronL, hg', hp, firstGap, hl]⟩
      | utc =>
        right
        by_cases hf : tooFrequent sc = true
        · left
          refine ⟨hg', sc, rfl, by intro z; rw [hl]; simp, hf, ?_⟩
          unfold tooFrequent at hf
          simp only [decide_eq_true_eq] at hf
          have hf2 : gapNanos sc < 300000000000 := by omega
          simp [checkCronL, hg', hp, firstGap, hl, hf2]
        · right
          have hf' : tooFrequent sc = false := by simpa using hf
          refine ⟨hg', sc, rfl, by intro z; rw [hl]; simp, hf', ?_⟩
          unfold tooFrequent at hf'
          simp only [decide_eq_false_iff_not] at hf'
          have hf2 : ¬ gapNanos sc < 300000000000 := by omega
          simp [checkCronL, hg', hp, firstGap, hl, hf2]
      | local_ =>
        right
        by_cases hf : tooFrequent sc = true
        · left
          refine ⟨hg', sc, rfl, by intro z; rw [hl]; simp, hf, ?_⟩
          unfold tooFrequent at hf
          simp only [decide_eq_true_eq] at hf
          have hf2 : gapNanos sc < 300000000000 := by omega
          simp [checkCronL, hg', hp, firstGap, hl, hf2]
        · right
          have hf' : tooFrequent sc = false := by simpa using hf
          refine ⟨hg', sc, rfl, by intro z; rw [hl]; simp, hf', ?_⟩
          unfold tooFrequent at hf'
          simp only [decide_eq_false_iff_not] at hf'
          have hf2 : ¬ gapNanos sc < 300000000000 := by omega
          simp [checkCronL, hg', hp, firstGap, hl, hf2]

/-! ### instances of the theorems with hypotheses -/

example : (cutZone "TZ=UTC 0 0 * * *".toList).isSome :=
  (cutZone_isSome_iff (by decide)).mpr (by decide)
example : ¬ (cutZone "CRON_TZ=Asia/Tokyo".toList).isSome := fun h =>
  absurd ((cutZone_isSome_iff (by decide)).mp h) (by decide)
example : parseL (fun _ => false) "TZ=Nowhere 0 0 * * *".toList = .error (.badLocation "Nowhere".toList) := by rfl
example : fieldErr (.aboveMax 60 59 "60".toList) = true :=
  getField_err (f := "60".toList) (b := minutes) (by rfl)
example : parseL (fun _ => true) "CRON_TZ=UTC".toList = .error .slicePanic :=
  parseL_panic_iff.mpr ⟨by decide, by decide⟩
example : ∀ l, checkCronL (fun _ => true) "TZ=UTC".toList = .diags l → ∀ s, Diag'.invalidFormat s .slicePanic ∉ l :=
  checkCron_never_panics _ _
example : MaskOK minutes (2 ^ 1 + 2 ^ 3 + 2 ^ 5) :=
  getField_maskOK (f := "1-5/2".toList) (by decide) (by rfl)
example : (getField "1-5/2".toList minutes).toOption = some (2 ^ 1 + 2 ^ 3 + 2 ^ 5) := by decide +kernel
example : ∃ sc, parseL (fun _ => false) "*/15 0 1,15 * MON-FRI".toList = .ok sc ∧ SchedOK sc := by
  cases h : parseL (fun _ => false) "*/15 0 1,15 * MON-FRI".toList with
  | error e =>
    have : (parseL (fun _ => false) "*/15 0 1,15 * MON-FRI".toList).toOption.isSome = true := by decide +kernel
    rw [h] at this; cases this
  | ok sc => exact ⟨sc, rfl, parseL_schedOK h⟩
example : mustParseInt "+07".toList = .ok 7 :=
  (mustParseInt_ok_iff (by decide)).mpr ⟨.plus (ds := "07".toList) (by decide) (by decide), by decide⟩
example : Value AL.Cron.dow "mOn".toList 1 := Or.inl ⟨("mon".toList, 1), by decide, by decide, rfl⟩
example : parseIntOrName "mOn".toList AL.Cron.dow.names = .ok 1 :=
  (parseIntOrName_ok_iff wellNamed_dow (by decide)).mpr (Or.inl ⟨("mon".toList, 1), by decide, by decide, rfl⟩)
/-- from a derivation in the grammar to acceptance: `MON-FRI/2` as a day of the week -/
example : ∃ m, getRange "MON-FRI/2".toList AL.Cron.dow = .ok m :=
  (getRange_accepts_iff wellNamed_dow).mpr
    (.step (x := "MON-FRI".toList) (st := "2".toList) (s := 1) (e := 5) (k := 2) (single := false)
      (.range (a := "MON".toList) (c := "FRI".toList)
        (Or.inl ⟨("mon".toList, 1), by decide, by decide, rfl⟩) (Or.inl ⟨("fri".toList, 5), by decide, by decide, rfl⟩))
      (.plain (ds := "2".toList) (by decide) (by decide)) (by decide) (by decide) (by decide) (by decide) (by decide))
/-- from acceptance to a derivation: `*-x,,?/3` is in the language of the minute field -/
example : FieldG minutes "*-x,,?/3".toList :=
  (getField_accepts_iff wellNamed_minutes).mp ⟨_, (by rfl : getField "*-x,,?/3".toList minutes = .ok _)⟩
/-- and `5-1` is not -/
example : ¬ FieldG minutes "5-1".toList := fun h => by
  obtain ⟨m, hm⟩ := (getField_accepts_iff wellNamed_minutes).mpr h
  have : (getField "5-1".toList minutes).toOption = none := by decide +kernel
  rw [hm] at this; cases this

theorem ok_of_toOption {ε α} {x : Except ε α} {a : α} (h : x.toOption = some a) : x = .ok a := by
  cases x with
  | error e => cases h
  | ok b => simp [Except.toOption] at h; rw [h]

def feb29 : Sched := ⟨1, 1, 1, 2 ^ 29, 2 ^ 2, getBits 0 6 1 ||| starBit, .local_⟩
theorem feb29_parsed : parseL (fun _ => false) "0 0 29 2 *".toList = .ok feb29 := ok_of_toOption (by decide +kernel)
example : SchedOK feb29 := parseL_schedOK feb29_parsed
/-- the day-of-week field is starred: the day of the month decides alone -/
example : dayMatches feb29 1972 2 29 = feb29.dom.testBit 29 :=
  dayMatches_star_dow (parseL_schedOK feb29_parsed) (by decide +kernel)
/-- `0 0 13 * FRI` is the 13th OR a Friday, not Friday the 13th -/
example : ∃ sc, parseL (fun _ => false) "0 0 13 * FRI".toList = .ok sc ∧ dayMatches sc 1970 1 2 = true ∧ dayMatches sc 1970 1 13 = true :=
  ⟨_, ok_of_toOption (a := ⟨1, 1, 1, 2 ^ 13, getBits 1 12 1 ||| starBit, 2 ^ 5, .local_⟩) (by decide +kernel),
    by rw [dayMatches_no_star (by decide +kernel) (by decide +kernel)]; decide +kernel,
    by rw [dayMatches_no_star (by decide +kernel) (by decide +kernel)]; decide +kernel⟩
/-- `0 0 * * 1`: the day-of-month field is starred, the day of the week decides alone -/
example : ∀ sc, parseL (fun _ => false) "0 0 * * 1".toList = .ok sc → dayMatches sc 1970 1 5 = sc.dow.testBit 1 := fun sc h => by
  have hs : sc.dom.testBit 63 = true := by
    have : (parseL (fun _ => false) "0 0 * * 1".toList).toOption.map (·.dom.testBit 63) = some true := by decide +kernel
    rw [h] at this; simpa [Except.toOption] using this
  rw [dayMatches_star_dom (parseL_schedOK h) hs (by decide) (by decide)]
  have : weekday 1970 1 5 = 1 := by decide
  rw [this]
example : next feb29 epoch = some ⟨1972, 2, 29, 0, 0, 0⟩ := by decide +kernel
example : ValidT ⟨1972, 2, 29, 0, 0, 0⟩ := (next_sound (sc := feb29) valid_epoch (by decide +kernel)).1
example : (⟨1970, 12, 31, 23, 59, 59⟩ : Civil).toSecs < (⟨1971, 1, 1, 0, 0, 0⟩ : Civil).toSecs :=
  toSecs_lt (by constructor <;> decide) (by constructor <;> decide) (Or.inl (by decide))

/-- `30 4 * * *`: a fixed minute -/
def daily0430 : Sched := ⟨1, 2 ^ 30, 2 ^ 4, getBits 1 31 1 ||| starBit, getBits 1 12 1 ||| starBit, getBits 0 6 1 ||| starBit, .local_⟩
example : (parseL (fun _ => false) "30 4 * * *".toList).toOption = some daily0430 := by decide +kernel
example : tooFrequent daily0430 = false :=
  (fixed_minute_not_frequent (sc := daily0430) (m := 30) (t1 := ⟨1970, 1, 1, 4, 30, 0⟩) (t2 := ⟨1970, 1, 2, 4, 30, 0⟩) rfl
    (fun i hi => by
      have : (2 ^ 30).testBit i = true := hi
      rw [Nat.testBit_two_pow] at this
      exact (of_decide_eq_true this).symm)
    (by decide +kernel) (by decide +kernel)).2

/-- `0 0 31 2 *`: never fires -/
def feb31 : Sched := ⟨1, 1, 1, 2 ^ 31, 2 ^ 2, getBits 0 6 1 ||| starBit, .local_⟩
example : gapNanos feb31 = 0 ∧ tooFrequent feb31 = true :=
  never_fires_reported (by decide +kernel) (by decide +kernel)

/-- `* 3 * * 0`: every minute of the hour from 03:00 on Sundays -/
def sundayNight : Sched := ⟨1, getBits 0 59 1 ||| starBit, 2 ^ 3, getBits 1 31 1 ||| starBit, getBits 1 12 1 ||| starBit, 2 ^ 0, .local_⟩
example : gapNanos sundayNight = 60000000000 :=
  (all_minutes_reported (sc := sundayNight) (t1 := ⟨1970, 1, 4, 3, 0, 0⟩) rfl (by decide +kernel) (by decide +kernel)).2.1
example : next sundayNight ⟨1970, 1, 4, 3, 0, 0⟩ = some ⟨1970, 1, 4, 3, 1, 0⟩ :=
  next_following_minute (by constructor <;> decide) rfl (by decide +kernel) (by decide +kernel) (by decide +kernel)
    (by decide +kernel) (by decide)



end AL.C01C
