import AL.Model.Matrix
import AL.Spec.RawYaml
import AL.Lemmas.MatrixDup
/-
  C19 — matrix duplicate and exclude checks are exact and order-insensitive.
  Statements; proved theorems are added below by name.
-/
namespace AL.C19
open AL.Matrix AL.Spec

/-- (a) `Equals` decides structural equality modulo member order (on well-formed values). -/
def equals_iff_statement : Prop :=
  ∀ a b : Raw, RawWF a → RawWF b → (equals a b = true ↔ Same a b)

/-- (b) `Equals` is symmetric (the one-sided comparison of the pinned code violated this). -/
def equals_symm_statement : Prop :=
  ∀ a b : Raw, RawWF a → RawWF b → equals a b = equals b a

/-- (c) `Equals` is reflexive and transitive: with (b), an equivalence — which is what makes
"equal to an earlier *kept* value" the same as "equal to an earlier value". -/
def equals_refl_statement : Prop := ∀ a : Raw, RawWF a → equals a a = true
def equals_trans_statement : Prop :=
  ∀ a b c : Raw, RawWF a → RawWF b → RawWF c → equals a b = true → equals b c = true → equals a c = true

/-- (d) duplicate detection is exact: value `i` of a row is reported iff an earlier value of the
row is equal to it. -/
def dup_exact_statement : Prop :=
  ∀ (row : String) (vs : List Raw), (∀ v ∈ vs, RawWF v) →
    ∀ i (hi : i < vs.length),
      (∃ q, Diag.dup (vs[i]).pos row q ∈ dupRow row vs [] ∧ True) ↔
      (∃ j, ∃ (hj : j < i), equals (vs[j]'(Nat.lt_trans hj hi)) vs[i] = true) ∨
      (∃ k, ∃ (hk : k < vs.length), k ≠ i ∧ (vs[k]).pos = (vs[i]).pos ∧
        ∃ j, ∃ (hj : j < k), equals (vs[j]'(Nat.lt_trans hj hk)) vs[k] = true)

/-- (e) the number of duplicate reports of a row does not depend on the order of its values. -/
def dup_count_perm_statement : Prop :=
  ∀ (row : String) (vs ws : List Raw), (∀ v ∈ vs, RawWF v) → vs.Perm ws →
    (dupRow row vs []).length = (dupRow row ws []).length

/-- (f) equality does not depend on the order of mapping members, at any depth. -/
def equals_member_perm_statement : Prop :=
  ∀ (ps qs : List (String × Raw)) (p : P) (b : Raw), RawWF (.obj ps p) → ps.Perm qs →
    equals (.obj ps p) b = equals (.obj qs p) b ∧ equals b (.obj ps p) = equals b (.obj qs p)

/-- (g) subset does not depend on the order of mapping members of either side. -/
def subset_member_perm_statement : Prop :=
  ∀ (ps qs : List (String × Raw)) (p : P) (b : Raw), RawWF (.obj ps p) → ps.Perm qs →
    subset (.obj ps p) b = subset (.obj qs p) b ∧ subset b (.obj ps p) = subset b (.obj qs p)

/-- (h) expressions are never reported: an expression filter matches everything, an expression
value matches every scalar/any filter, an expression row is ignored, and nothing is reported for
`exclude` when `include` contains an expression. -/
def expr_never_statement : Prop :=
  (∀ v s p, containsExpr s = true → subset v (.str s p) = true) ∧
  (∀ (m : Mat), (match m.incl with | some inc => inc.containsExpr | none => false) = true → checkExclude m = []) ∧
  (∀ (m : Mat), (∀ r ∈ m.rows, r.values = none) → checkDuplicates m.rows = [])

/-- (i) equal values are subsets of each other (an exclude entry copied from a row always matches). -/
def equals_subset_statement : Prop :=
  ∀ a b : Raw, RawWF a → RawWF b → equals a b = true → subset a b = true


/-! ## Sample values used in the `example`s

`exA` is `{k: [a, {m: b, n: c}], j: d}`; `exB` is the same mapping with the members of both the outer
and the inner mapping in the opposite order and at other positions; `exC` differs in one leaf. -/

def p1 : P := ⟨1, 1⟩
def p2 : P := ⟨2, 5⟩
def p3 : P := ⟨3, 9⟩
def exA : Raw :=
  .obj [("k", .arr [.str "a" p1, .obj [("m", .str "b" p1), ("n", .str "c" p1)] p1] p1),
        ("j", .str "d" p1)] p1
def exB : Raw :=
  .obj [("j", .str "d" p2),
        ("k", .arr [.str "a" p2, .obj [("n", .str "c" p2), ("m", .str "b" p2)] p2] p2)] p2
def exB' : Raw :=
  .obj [("k", .arr [.str "a" p3, .obj [("n", .str "c" p3), ("m", .str "b" p3)] p3] p3),
        ("j", .str "d" p3)] p3
def exC : Raw :=
  .obj [("j", .str "d" p3),
        ("k", .arr [.str "a" p3, .obj [("n", .str "X" p3), ("m", .str "b" p3)] p3] p3)] p3
/-- ill-formed (duplicate key `k`), cannot come from a Go map -/
def exDup : Raw := .obj [("k", .str "x" p1), ("k", .str "y" p1)] p1
def exDup2 : Raw := .obj [("k", .str "x" p1), ("k", .str "x" p1)] p1
def exKJ : Raw := .obj [("k", .str "x" p2), ("j", .str "y" p2)] p2

theorem exA_wf : RawWF exA := by simp [exA, RawWF, RawWFProps, RawWFList]
theorem exB_wf : RawWF exB := by simp [exB, RawWF, RawWFProps, RawWFList]
theorem exB'_wf : RawWF exB' := by simp [exB', RawWF, RawWFProps, RawWFList]
theorem exC_wf : RawWF exC := by simp [exC, RawWF, RawWFProps, RawWFList]
theorem exKJ_wf : RawWF exKJ := by simp [exKJ, RawWF, RawWFProps]

/-! ## (a) -/

/-- (a), in fact without any well-formedness hypothesis. -/
theorem equals_iff_same_all : ∀ a b : Raw, equals a b = true ↔ Same a b := equals_iff_same

theorem equals_iff : equals_iff_statement := fun a b _ _ => equals_iff_same a b

example : equals exA exB = true := by decide
example : Same exA exB := (equals_iff exA exB exA_wf exB_wf).1 (by decide)
example : equals exA exC = false := by decide
example : ¬ Same exA exC := fun h => by
  have := (equals_iff exA exC exA_wf exC_wf).2 h
  revert this; decide

/-! ## (b) -/

theorem equals_symm : equals_symm_statement := AL.Matrix.equals_symm

example : equals exA exB = true ∧ equals exB exA = true := by decide
/-- The hypothesis is necessary: with a duplicate key (impossible for a Go map) `equals` is not
symmetric: `{k: x, k: x}` vs `{k: x, j: y}`. -/
example : equals exDup2 exKJ = true ∧ equals exKJ exDup2 = false := by decide

/-! ## (c) -/

theorem equals_refl : equals_refl_statement := AL.Matrix.equals_refl

example : equals exA exA = true := by decide
/-- The hypothesis is necessary: `{k: x, k: y}` is not equal to itself. -/
example : equals exDup exDup = false := by decide

/-- transitivity, in fact without any well-formedness hypothesis -/
theorem equals_trans_all :
    ∀ a b c : Raw, equals a b = true → equals b c = true → equals a c = true :=
  AL.Matrix.equals_trans

theorem equals_trans : equals_trans_statement :=
  fun a b c _ _ _ => AL.Matrix.equals_trans a b c

example : equals exA exB = true ∧ equals exB exB' = true ∧ equals exA exB' = true := by decide

/-! ## (d) -/

/-- (d), original formulation. The second disjunct is needed because a diagnostic only carries
positions: a report for another value at the same position is indistinguishable. -/
theorem dup_exact : dup_exact_statement := by
  intro row vs _ i hi
  rw [dupRow_eq]
  constructor
  · rintro ⟨q, hmem, _⟩
    obtain ⟨k, _, hd⟩ := List.mem_filterMap.1 hmem
    obtain ⟨hk', j, hj, he, _, hdq⟩ := dupAt_eq_some hd
    injection hdq with hpos _ _
    by_cases hki : k = i
    · subst hki; exact Or.inl ⟨j, hj, he⟩
    · exact Or.inr ⟨k, hk', hki, hpos.symm, j, hj, he⟩
  · rintro (⟨j, hj, he⟩ | ⟨k, hk, _, hpos, j, hj, he⟩)
    · obtain ⟨d, hd⟩ := Option.isSome_iff_exists.1 ((dupAt_isSome_iff row vs i hi).2 ⟨j, hj, he⟩)
      obtain ⟨_, j', hj', _, _, rfl⟩ := dupAt_eq_some hd
      exact ⟨_, List.mem_filterMap.2 ⟨i, List.mem_range.2 hi, hd⟩, trivial⟩
    · obtain ⟨d, hd⟩ := Option.isSome_iff_exists.1 ((dupAt_isSome_iff row vs k hk).2 ⟨j, hj, he⟩)
      obtain ⟨_, j', hj', _, _, rfl⟩ := dupAt_eq_some hd
      rw [← hpos]
      exact ⟨_, List.mem_filterMap.2 ⟨k, List.mem_range.2 hk, hd⟩, trivial⟩

/-- (d′) A cleaner and stronger formulation of (d) in terms of indices (the original statement
cannot tell apart two values carrying the same position, hence its second disjunct). With
`dupAt row vs i` (see `AL/Lemmas/MatrixDup.lean`) = "if some earlier value `vs[j]`, `j < i`, is equal
to `vs[i]`, the diagnostic naming the *first* such `vs[j]`":

1. the diagnostics of a row are exactly the `dupAt` of its indices, in order;
2. index `i` is reported iff some earlier value is equal to it (not merely an earlier *kept* value);
3. the reported previous position is that of the least such `j`.

No well-formedness hypothesis is needed (only transitivity of `equals` is used, which holds
unconditionally). -/
def dup_exact_statement' : Prop :=
  ∀ (row : String) (vs : List Raw),
    dupRow row vs [] = (List.range vs.length).filterMap (dupAt row vs) ∧
    (∀ i (hi : i < vs.length),
      (dupAt row vs i).isSome = true ↔
        ∃ j, ∃ (hj : j < i), equals (vs[j]'(Nat.lt_trans hj hi)) vs[i] = true) ∧
    (∀ i d, dupAt row vs i = some d →
      ∃ (hi : i < vs.length) (j : Nat) (hj : j < i),
        equals (vs[j]'(Nat.lt_trans hj hi)) vs[i] = true ∧
        (∀ j' (hj' : j' < j),
          equals (vs[j']'(Nat.lt_trans hj' (Nat.lt_trans hj hi))) vs[i] = false) ∧
        d = .dup (vs[i]).pos row (vs[j]'(Nat.lt_trans hj hi)).pos)

theorem dup_exact' : dup_exact_statement' := fun row vs =>
  ⟨dupRow_eq row vs, dupAt_isSome_iff row vs, fun _ _ h => dupAt_eq_some h⟩

/-- row `[A, C, B, B']` (`A`, `B`, `B'` equal modulo member order): `B` and `B'` are reported, both
against `A`, although `B'` is also equal to the (not kept) `B`. -/
example : dupRow "os" [exA, exC, exB, exB'] [] = [.dup p2 "os" p1, .dup p3 "os" p1] := by decide
example : (List.range 4).filterMap (dupAt "os" [exA, exC, exB, exB']) =
    [.dup p2 "os" p1, .dup p3 "os" p1] := by decide

/-! ## (e) -/

theorem dup_count_perm : dup_count_perm_statement :=
  fun row _ _ wf h => dupRow_length_perm row wf h

theorem exPerm : [exA, exC, exB, exB'].Perm [exB, exB', exC, exA] :=
  (List.perm_append_comm (l₁ := [exA]) (l₂ := [exC, exB, exB'])).trans
    ((List.perm_append_comm (l₁ := [exC]) (l₂ := [exB, exB'])).append_right [exA])

/-- two reports for `[A, C, B, B']` and for its permutation `[B, B', C, A]` (there against `B`) -/
example : dupRow "os" [exB, exB', exC, exA] [] = [.dup p3 "os" p2, .dup p1 "os" p2] := by decide
example : (dupRow "os" [exA, exC, exB, exB'] []).length = (dupRow "os" [exB, exB', exC, exA] []).length :=
  dup_count_perm "os" _ _ (by simp [exA_wf, exB_wf, exB'_wf, exC_wf]) exPerm

/-! ## (f) -/

theorem equals_member_perm : equals_member_perm_statement := by
  intro ps qs p b wf h
  exact ⟨equals_obj_perm_left h p p b, equals_obj_perm_right ((rawWF_obj ps p).1 wf).1 h p p b⟩

/-- "At any depth": values that are `Same` (equal up to the order of members anywhere inside) are
interchangeable on either side of `equals`. -/
theorem equals_congr_same (a a' b : Raw) (wa : RawWF a) (wa' : RawWF a')
    (h : Same a a') : equals a b = equals a' b ∧ equals b a = equals b a' := by
  have h1 := (equals_iff_same a a').2 h
  have h2 := (AL.Matrix.equals_symm a a' wa wa').symm.trans h1
  exact ⟨equals_congr_left wa wa' h1, equals_congr_right h1 h2⟩

example : equals exA exB = equals exB' exB ∧ equals exC exA = equals exC exB' := by decide

/-! ## (g) -/

theorem subset_member_perm : subset_member_perm_statement := by
  intro ps qs p b wf h
  exact ⟨subset_obj_perm_left ((rawWF_obj ps p).1 wf).1 h p p b, subset_obj_perm_right h p p b⟩

/-- filter `{k: [a, {m: b}]}`-style: `{j: d}` and `{k: [a, {n: c}]}` are subsets of `exA`/`exB`. -/
def exF : Raw := .obj [("k", .arr [.str "a" p3, .obj [("n", .str "c" p3)] p3] p3)] p3
example : subset exA exF = true ∧ subset exB exF = true ∧ subset exF exA = false := by decide

/-! ## (h) -/

theorem expr_never : expr_never_statement := by
  refine ⟨fun v s p h => subset_str_right v s p h, ?_, ?_⟩
  · intro m h
    unfold checkExclude
    cases hex : m.excl with
    | none => rfl
    | some ex =>
      cases hinc : m.incl with
      | none => rw [hinc] at h; cases h
      | some inc => rw [hinc] at h; simp only at h; simp [h]
  · intro m h
    unfold checkDuplicates
    rw [List.flatMap_eq_nil_iff]
    intro r hr
    rw [h r hr]

/-- Supplements to (h), matching its prose: an expression *value* matches every filter, and an
`exclude` assignment for a row given by an expression is never reported. -/
theorem expr_value_matches (w : String) (p : P) (s : Raw) (h : containsExpr w = true) :
    subset (.str w p) s = true := by
  cases s <;> simp [subset, h]

theorem expr_row_ignored (ignored : List String) (rows : RowMap) (a : Assign)
    (h : a.id ∈ ignored) : excludeAssign ignored rows a = [] := by
  simp [excludeAssign, h]

example : containsExpr "x-${{ matrix.os }}" = true ∧ subset exA (.str "x-${{ matrix.os }}" p1) = true := by
  decide
/-- an expression *value* matches any filter, even a mapping -/
example : subset (.str "${{ fromJSON(x) }}" p1) exA = true := by decide

/-! ## (i) -/

theorem equals_subset : equals_subset_statement := AL.Matrix.equals_subset

example : equals exA exB = true ∧ subset exA exB = true ∧ subset exB exA = true := by decide
/-- no hypothesis about expressions is needed: equal strings containing `${{ }}` are subsets by the
first branch of `isYAMLValueSubset` -/
example : equals (.str "${{ a }}" p1) (.str "${{ a }}" p2) = true ∧
    subset (.str "${{ a }}" p1) (.str "${{ a }}" p2) = true := by decide
/-- well-formedness is necessary: `{k: x, k: x}` equals `{k: x, j: y}` but is not a superset of it. -/
example : equals exDup2 exKJ = true ∧ subset exDup2 exKJ = false := by decide

end AL.C19
