import AL.Model.Matrix
import AL.Spec.RawYaml
/-
  C19 — matrix duplicate and exclude checks are exact and order-insensitive.
  Statements; proved theorems are added below by name.
-/
namespace AL.C19
open AL.Matrix AL.Spec

/-- (a) `Equals` decides structural equality modulo member order (on well-formed values). -/
def equals_iff_statement : Prop :=
  ∀ a b : Raw, RawWF a → RawWF b → (equals a b = true ↔ Same a b)

/-- (b) `Equals` is symmetric (the one-sided comparison of the pinned code violated this). -/
def equals_symm_statement : Prop :=
  ∀ a b : Raw, RawWF a → RawWF b → equals a b = equals b a

/-- (c) `Equals` is reflexive and transitive: with (b), an equivalence — which is what makes
"equal to an earlier *kept* value" the same as "equal to an earlier value". -/
def equals_refl_statement : Prop := ∀ a : Raw, RawWF a → equals a a = true
def equals_trans_statement : Prop :=
  ∀ a b c : Raw, RawWF a → RawWF b → RawWF c → equals a b = true → equals b c = true → equals a c = true

/-- (d) duplicate detection is exact: value `i` of a row is reported iff an earlier value of the
row is equal to it. -/
def dup_exact_statement : Prop :=
  ∀ (row : String) (vs : List Raw), (∀ v ∈ vs, RawWF v) →
    ∀ i (hi : i < vs.length),
      (∃ q, Diag.dup (vs[i]).pos row q ∈ dupRow row vs [] ∧ True) ↔
      (∃ j, ∃ (hj : j < i), equals (vs[j]'(Nat.lt_trans hj hi)) vs[i] = true) ∨
      (∃ k, ∃ (hk : k < vs.length), k ≠ i ∧ (vs[k]).pos = (vs[i]).pos ∧
        ∃ j, ∃ (hj : j < k), equals (vs[j]'(Nat.lt_trans hj hk)) vs[k] = true)

/-- (e) the number of duplicate reports of a row does not depend on the order of its values. -/
def dup_count_perm_statement : Prop :=
  ∀ (row : String) (vs ws : List Raw), (∀ v ∈ vs, RawWF v) → vs.Perm ws →
    (dupRow row vs []).length = (dupRow row ws []).length

/-- (f) equality does not depend on the order of mapping members, at any depth. -/
def equals_member_perm_statement : Prop :=
  ∀ (ps qs : List (String × Raw)) (p : P) (b : Raw), RawWF (.obj ps p) → ps.Perm qs →
    equals (.obj ps p) b = equals (.obj qs p) b ∧ equals b (.obj ps p) = equals b (.obj qs p)

/-- (g) subset does not depend on the order of mapping members of either side. -/
def subset_member_perm_statement : Prop :=
  ∀ (ps qs : List (String × Raw)) (p : P) (b : Raw), RawWF (.obj ps p) → ps.Perm qs →
    subset (.obj ps p) b = subset (.obj qs p) b ∧ subset b (.obj ps p) = subset b (.obj qs p)

/-- (h) expressions are never reported: an expression filter matches everything, an expression
value matches every scalar/any filter, an expression row is ignored, and nothing is reported for
`exclude` when `include` contains an expression. -/
def expr_never_statement : Prop :=
  (∀ v s p, containsExpr s = true → subset v (.str s p) = true) ∧
  (∀ (m : Mat), (match m.incl with | some inc => inc.containsExpr | none => false) = true → checkExclude m = []) ∧
  (∀ (m : Mat), (∀ r ∈ m.rows, r.values = none) → checkDuplicates m.rows = [])

/-- (i) equal values are subsets of each other (an exclude entry copied from a row always matches). -/
def equals_subset_statement : Prop :=
  ∀ a b : Raw, RawWF a → RawWF b → equals a b = true → subset a b = true

end AL.C19
