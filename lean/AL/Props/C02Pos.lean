import AL.Model.SrcPos
import AL.Lemmas.SrcPos
/-
  C02 (source-position order) — the ledger class "selection" and the position sort of detectFirstCycle rest on
  `IsBefore` being a strict total order: then the minimum / the sorted arrangement of candidates with distinct
  positions is the same for every iteration order of the map they come from.
  Statements; proved theorems are added below by name.
-/
namespace AL.Props.C02Pos
open AL.SrcPos

def irrefl_statement : Prop := ∀ p : P, isBefore p p = false
def asymm_statement : Prop := ∀ p q : P, isBefore p q = true → isBefore q p = false
def trans_statement : Prop := ∀ p q r : P, isBefore p q = true → isBefore q r = true → isBefore p r = true
def total_statement : Prop := ∀ p q : P, p ≠ q → isBefore p q = true ∨ isBefore q p = true

/-- the candidate selected does not depend on the order in which the map hands out the candidates -/
def select_order_independent_statement : Prop :=
  ∀ l₁ l₂ : List P, l₁.Perm l₂ → l₁.Nodup → selectFirst l₁ = selectFirst l₂

/-- … and it is the candidate that is before all others -/
def select_is_min_statement : Prop :=
  ∀ (l : List P) (m : P), selectFirst l = some m → m ∈ l ∧ ∀ x ∈ l, x ≠ m → isBefore m x = true

/-- sorting by position gives the same list for every iteration order -/
def sort_order_independent_statement : Prop :=
  ∀ l₁ l₂ : List P, l₁.Perm l₂ → l₁.Nodup → sortByPos l₁ = sortByPos l₂

/-! ### proofs (helper lemmas in `AL/Lemmas/SrcPos.lean`) -/

theorem irrefl : irrefl_statement := fun p => isBefore_irrefl p

theorem asymm : asymm_statement := fun _ _ h => isBefore_asymm h

theorem trans : trans_statement := fun _ _ _ h₁ h₂ => isBefore_trans h₁ h₂

theorem total : total_statement := fun _ _ h => isBefore_total h

/-- holds even without the `Nodup` hypothesis: a least element is unique by asymmetry -/
theorem select_order_independent : select_order_independent_statement :=
  fun _ _ hp _ => selectFirst_perm hp

theorem select_is_min : select_is_min_statement := by
  intro l m h
  obtain ⟨hm, hall⟩ := selectFirst_isMin h
  refine ⟨hm, fun x hx hne => ?_⟩
  rcases hall x hx with e | b
  · exact absurd e hne
  · exact b

/-- holds even without the `Nodup` hypothesis: insertion sort yields a permutation sorted by the antisymmetric
non-strict order, and such a list is unique (`List.Perm.eq_of_pairwise`) -/
theorem sort_order_independent : sort_order_independent_statement :=
  fun _ _ hp _ => sortByPos_perm_eq hp

/-- extra: the result of the sort is a permutation of the input, strictly increasing when positions are distinct -/
theorem sort_is_sorted_perm (l : List P) (hn : l.Nodup) :
    (sortByPos l).Perm l ∧ (sortByPos l).Pairwise (fun a b => isBefore a b = true) :=
  ⟨sortByPos_perm l, sortByPos_strict hn⟩

/-! ### non-vacuity: three distinct positions, the later line has the smaller column -/

example : [(⟨3, 9⟩ : P), ⟨4, 2⟩, ⟨3, 1⟩].Nodup := by decide
example : [(⟨3, 9⟩ : P), ⟨4, 2⟩, ⟨3, 1⟩].Perm [⟨4, 2⟩, ⟨3, 1⟩, ⟨3, 9⟩] := by decide
example : isBefore ⟨3, 9⟩ ⟨4, 2⟩ = true := by decide
example : isBefore ⟨4, 2⟩ ⟨3, 9⟩ = false := by decide
example : selectFirst [⟨3, 9⟩, ⟨4, 2⟩, ⟨3, 1⟩] = some ⟨3, 1⟩ := by decide
example : selectFirst [⟨4, 2⟩, ⟨3, 1⟩, ⟨3, 9⟩] = some ⟨3, 1⟩ := by decide
example : selectFirst [⟨3, 1⟩, ⟨4, 2⟩, ⟨3, 9⟩] = some ⟨3, 1⟩ := by decide
example : sortByPos [⟨3, 9⟩, ⟨4, 2⟩, ⟨3, 1⟩] = [⟨3, 1⟩, ⟨3, 9⟩, ⟨4, 2⟩] := by decide
example : sortByPos [⟨3, 9⟩, ⟨4, 2⟩, ⟨3, 1⟩] = sortByPos [⟨4, 2⟩, ⟨3, 1⟩, ⟨3, 9⟩] := by decide

end AL.Props.C02Pos
