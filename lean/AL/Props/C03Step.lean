import AL.Model.ParseStep
import AL.Lemmas.ParseStep
/-
  C03 / C13 — `parseStep` keeps every value of a step, whatever the order of the keys: for a step mapping with distinct
  keys that does not mix script keys (run, shell, working-directory) with action keys (uses, with), each key's value ends
  up in the field named after the key — in particular `working-directory` reaches the ExecRun no matter where it is
  written between `run` and `shell` — and no diagnostic is produced for the known keys.
  Statements; proved theorems are added below by name.
-/
namespace AL.Props.C03Step
open AL.ParseStep

def scriptKeys : List String := ["run", "shell", "working-directory"]
def actionKeys : List String := ["uses", "with"]
def commonKeys : List String := ["id", "if", "name", "env", "continue-on-error", "timeout-minutes"]

def lookup (k : String) : List (String × V) → Option V
  | [] => none
  | (k', v) :: rest => if k' = k then some v else lookup k rest

/-- a script step: distinct keys, all of them common or script keys, `run` present -/
def ScriptStep (kvs : List (String × V)) : Prop :=
  (kvs.map (·.1)).Nodup ∧ (∀ kv ∈ kvs, kv.1 ∈ commonKeys ++ scriptKeys) ∧ (lookup "run" kvs).isSome

def ActionStep (kvs : List (String × V)) : Prop :=
  (kvs.map (·.1)).Nodup ∧ (∀ kv ∈ kvs, kv.1 ∈ commonKeys ++ actionKeys) ∧ (lookup "uses" kvs).isSome

/-- (a) a script step: every key's value is stored, in whatever order the keys are written, without diagnostics -/
def script_step_complete_statement : Prop :=
  ∀ kvs, ScriptStep kvs →
    parseStep kvs =
      ({ id := lookup "id" kvs, cond := lookup "if" kvs, name := lookup "name" kvs, env := lookup "env" kvs,
         continueOnError := lookup "continue-on-error" kvs, timeoutMinutes := lookup "timeout-minutes" kvs,
         exec := .run (lookup "run" kvs) (lookup "shell" kvs) (lookup "working-directory" kvs) }, [])

/-- (b) an action step likewise -/
def action_step_complete_statement : Prop :=
  ∀ kvs, ActionStep kvs →
    parseStep kvs =
      ({ id := lookup "id" kvs, cond := lookup "if" kvs, name := lookup "name" kvs, env := lookup "env" kvs,
         continueOnError := lookup "continue-on-error" kvs, timeoutMinutes := lookup "timeout-minutes" kvs,
         exec := .action (lookup "uses" kvs) (lookup "with" kvs) }, [])

/-- (c) hence the order of the keys does not matter for such steps -/
def script_step_order_irrelevant_statement : Prop :=
  ∀ kvs kvs', kvs.Perm kvs' → ScriptStep kvs → parseStep kvs' = parseStep kvs

/-- (d) a key outside the syntax is reported, exactly once, and does not disturb the rest -/
def unknown_key_reported_statement : Prop :=
  ∀ (pre post : List (String × V)) (k : String) (v : V), k ∉ commonKeys ++ scriptKeys ++ actionKeys →
    ScriptStep (pre ++ post) →
    parseStep (pre ++ (k, v) :: post) = ((parseStep (pre ++ post)).1, [.unexpectedKey k])

/-! ### proofs (helper lemmas: AL/Lemmas/ParseStep.lean) -/

theorem lookup_eq_get (k : String) (l : List (String × V)) : lookup k l = get k l := by
  induction l with
  | nil => rfl
  | cons kv l ih => obtain ⟨k', v⟩ := kv; simp only [lookup, get_cons, ih]

theorem scriptKnown_eq : commonKeys ++ scriptKeys = scriptKnown := rfl
theorem actionKnown_eq : commonKeys ++ actionKeys = actionKnown := rfl
theorem allKnown_eq : commonKeys ++ scriptKeys ++ actionKeys = scriptKnown ++ ["uses", "with"] := rfl

theorem script_step_complete : script_step_complete_statement := by
  intro kvs ⟨nd, hk, hr⟩
  simp only [lookup_eq_get] at hr ⊢
  rw [scriptKnown_eq] at hk
  exact parseStep_script kvs nd hk hr

theorem action_step_complete : action_step_complete_statement := by
  intro kvs ⟨nd, hk, hr⟩
  simp only [lookup_eq_get] at hr ⊢
  rw [actionKnown_eq] at hk
  exact parseStep_action kvs nd hk hr

theorem ScriptStep.perm {kvs kvs' : List (String × V)} (p : kvs.Perm kvs') (h : ScriptStep kvs) :
    ScriptStep kvs' := by
  obtain ⟨nd, hk, hr⟩ := h
  refine ⟨(p.map _).nodup_iff.1 nd, fun kv hm => hk kv (p.mem_iff.2 hm), ?_⟩
  rw [lookup_eq_get] at hr ⊢
  rw [get_perm p nd]; exact hr

theorem script_step_order_irrelevant : script_step_order_irrelevant_statement := by
  intro kvs kvs' p h
  rw [script_step_complete kvs h, script_step_complete kvs' (h.perm p)]
  simp only [lookup_eq_get, get_perm p h.1]

theorem unknown_key_reported : unknown_key_reported_statement := by
  intro pre post k v hu ⟨nd, hk, hr⟩
  rw [allKnown_eq] at hu
  rw [scriptKnown_eq] at hk
  rw [lookup_eq_get] at hr
  exact parseStep_script_unknown pre post k v hu nd hk hr

/-! ### non-vacuity: the model evaluated on concrete steps -/

/-- `working-directory` written between `run` and `shell` (and in every other order) reaches the ExecRun -/
example :
    ∀ kvs ∈ [[("run", 1), ("working-directory", 2), ("shell", 3)], [("run", 1), ("shell", 3), ("working-directory", 2)],
             [("working-directory", 2), ("run", 1), ("shell", 3)], [("working-directory", 2), ("shell", 3), ("run", 1)],
             [("shell", 3), ("run", 1), ("working-directory", 2)], [("shell", 3), ("working-directory", 2), ("run", 1)]],
      parseStep kvs = ({ exec := .run (some 1) (some 3) (some 2) }, []) := by decide

example : ScriptStep [("run", 1), ("working-directory", 2), ("shell", 3)] := by
  refine ⟨by decide, by decide, by decide⟩

example : parseStep [("name", 7), ("uses", 1), ("with", 2)] =
    ({ name := some 7, exec := .action (some 1) (some 2) }, []) := by decide

/-- a step mixing script and action keys is outside (a)/(b): the later key is reported and ignored -/
example : parseStep [("run", 1), ("uses", 2)] =
    ({ exec := .run (some 1) none none }, [.actionKeyInRunStep "uses"]) := by decide

example : parseStep [("uses", 1), ("working-directory", 2)] =
    ({ exec := .action (some 1) none }, [.workDirWithUses]) := by decide

example : parseStep [("run", 1), ("bogus", 5), ("shell", 3)] =
    ({ exec := .run (some 1) (some 3) none }, [.unexpectedKey "bogus"]) := by decide

end AL.Props.C03Step
