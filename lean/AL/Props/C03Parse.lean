import AL.Lemmas.C03PJobFin
import AL.Lemmas.C03PEvents
/-
  C03, parser half: **the parser drops no value scalar silently.**

  AL.C03R (`every_placeholder_checked`) says: a malformed placeholder in a string of `valueStrs w` — the value strings of
  the AST — gets a diagnostic at that string. This file closes the gap to the DOCUMENT: every scalar of the yaml.Node
  tree that is a value (`valueScalars doc`, AL/Spec/ValueScalars.lean: mapping values and sequence elements at any depth,
  walked along the documented workflow syntax, written without the parser) is a string of `valueStrs (parse cfg doc).1`
  — same text, same position — or `parse` reports a syntax diagnostic (`no_value_scalar_dropped`); with AL.C03R:
  a malformed placeholder in a value scalar of the document yields a syntax diagnostic or an expression diagnostic at that
  scalar (`placeholder_in_document_reported`).

  How it is proved. Every parser function is taken in its "clean" case (no diagnostic appended):
    * scalars (`parseString_clean`, `parseString_leaf`, `parseBool_leaf` …)                    AL/Lemmas/C03PBase.lean
    * `parseMapping` returns one entry per pair, with pairwise distinct ids (`parseMapping_clean`, `parseMapping_nodup`);
      the key loop over distinct ids keeps what the iteration of one id stored (`loop_keyed`, `sect_K`)        C03PBase
    * per section: the strings the loop state holds under a key (`…K`), `…_store` (the iteration of a key puts every
      scalar below its value there), `…_pres` (the iterations of the other keys leave them alone), `…_sub` / `…_final`
      (they are among the value strings of the finished node):
      step C03PStep · defaults, concurrency, environment, outputs, container, services, runs-on C03PSect · matrix (raw
      values by recursion over the node), strategy C03PMatrix · job C03PJob, C03PJobFin · `on:` C03PEvents · workflow here.
  Level theorems: `scalar_not_dropped`, `step_no_value_dropped`, `job_no_value_dropped`, `on_no_value_dropped`,
  `no_value_scalar_dropped`. Findings (value scalars that ARE dropped silently, each on a concrete witness):
  `finding_bool_tagged_text`, `finding_call_input_null_default` (+ `…_document`), `finding_null_tagged_mapping`,
  `observation_collection_with_text`.
-/
namespace AL.C03P
open AL.PW AL.Yaml AL.Ast AL.C03R

def workflowK (k : String) (w : Workflow) : List Str :=
  match k with
  | "name" => w.name.toList
  | "on" => onStrs (w.on.getD [])
  | "env" => envStrs w.env
  | "defaults" => defaultsStrs w.defaults
  | "concurrency" => concurrencyStrs w.concurrency
  | "jobs" => (w.jobs.getD []).flatMap fun kv => jobStrs kv.2
  | "run-name" => w.runName.toList
  | _ => []

theorem workflowK_pres (cfg : Cfg) (k : String) (w : Workflow) (kv : KV) (hne : kv.id ≠ k) :
    ∀ s ∈ workflowK k w, s ∈ workflowK k (workflowKey cfg w kv).1 := by
  intro s hs
  simp only [workflowKey]
  split
  all_goals (simp only [workflowK] at hs ⊢; split at hs)
  all_goals first | exact hs | exact absurd ‹kv.id = _› hne

theorem workflowKey_store (cfg : Cfg) (w : Workflow) (kv : KV) (v : Node) (hv : v ∈ workflowKeyScalars kv.id kv.val)
    (hc : (workflowKey cfg w kv).2 = []) : Rep v (workflowK kv.id (workflowKey cfg w kv).1) := by
  revert hc
  simp only [workflowKey]
  split
  next h =>
    intro hc; simp only [h, workflowKeyScalars] at hv; simp only [h, workflowK]
    exact (parseString_leaf _ _ v hv hc).mono (by simp)
  next h =>
    intro hc; simp only [h, workflowKeyScalars] at hv; simp only [h, workflowK]
    exact parseEvents_leaf cfg _ _ v hv hc
  next h => simp [h, workflowKeyScalars] at hv
  next h =>
    intro hc; simp only [h, workflowKeyScalars] at hv; simp only [h, workflowK]
    exact parseEnv_leaf cfg _ v hv hc
  next h =>
    intro hc; simp only [h, workflowKeyScalars] at hv; simp only [h, workflowK]
    exact parseDefaults_leaf cfg _ _ v hv hc
  next h =>
    intro hc; simp only [h, workflowKeyScalars] at hv; simp only [h, workflowK]
    exact parseConcurrency_leaf cfg _ _ v hv hc
  next h =>
    intro hc; simp only [h, workflowKeyScalars] at hv; simp only [h, workflowK]
    exact parseJobs_leaf cfg _ v hv hc
  next h =>
    intro hc; simp only [h, workflowKeyScalars] at hv; simp only [h, workflowK]
    exact (parseString_leaf _ _ v hv hc).mono (by simp)
  next => intro hc; simp at hc

/-- a `jobs:` section parsed without a diagnostic has at least one job -/
theorem parseJobs_nonempty (cfg : Cfg) (n : Node) (h : (parseJobs cfg n).2 = []) : (parseJobs cfg n).1 ≠ [] := by
  simp only [parseJobs, parseSectionMapping, append_nil_iff] at h ⊢
  have := parseMapping_clean_nonempty cfg _ n false h.1
  cases hm : (parseMapping cfg (sectionWhat "jobs") n false false).1 with
  | nil => exact absurd hm this
  | cons kv rest => simp [mapKVs]

theorem workflowKey_jobs (cfg : Cfg) (w : Workflow) (kv : KV) (hI : ∀ l, w.jobs = some l → l ≠ [])
    (hc : (workflowKey cfg w kv).2 = []) : ∀ l, (workflowKey cfg w kv).1.jobs = some l → l ≠ [] := by
  revert hc
  simp only [workflowKey]
  split
  all_goals first | (intro _; exact hI) | skip
  intro hc l hl
  cases hl
  exact parseJobs_nonempty cfg _ hc

theorem workflowK_final (k : String) (w : Workflow) (hI : ∀ l, w.jobs = some l → l ≠ []) (hj : w.jobs.isNone = false) :
    ∀ s ∈ workflowK k w, s ∈ valueStrs w := by
  intro s hs
  simp only [workflowK] at hs
  simp only [valueStrs, List.mem_append]
  split at hs
  · exact Or.inl (Or.inl (Or.inl (Or.inl hs)))
  · simp only [onStrs, List.mem_append] at hs
    rcases hs with hs | hs
    · exact Or.inl (Or.inl (Or.inl (Or.inr hs)))
    · refine Or.inr ?_
      simp only [outValueStrs]
      cases hf : AL.RuleExpr.findCallOutputs (w.on.getD []) with
      | none => simp [hf, outVals] at hs
      | some outs =>
        simp only [hf, outVals] at hs
        simp only
        obtain ⟨l, hl⟩ : ∃ l, w.jobs = some l := by
          cases hw : w.jobs with
          | none => simp [hw] at hj
          | some l => exact ⟨l, rfl⟩
        have hne := hI l hl
        have hout : outs ≠ [] := by
          intro e; simp [e] at hs
        have : (outs.isEmpty || (w.jobs.getD []).isEmpty) = false := by
          cases outs with
          | nil => exact absurd rfl hout
          | cons _ _ =>
            cases l with
            | nil => exact absurd rfl hne
            | cons _ _ => simp [hl]
        simp only [this, Bool.false_eq_true, ↓reduceIte]
        exact hs
  · exact Or.inl (Or.inl (Or.inr (Or.inl (Or.inl (Or.inr hs)))))
  · exact Or.inl (Or.inl (Or.inr (Or.inl (Or.inr hs))))
  · exact Or.inl (Or.inl (Or.inr (Or.inr hs)))
  · exact Or.inl (Or.inr hs)
  · exact Or.inl (Or.inl (Or.inr (Or.inl (Or.inl (Or.inl hs)))))
  · cases hs

theorem fixDocPos_content (doc : Node) : (fixDocPos doc).content = doc.content := by
  obtain ⟨k, t, v, q, l, c, cs⟩ := doc
  rfl

/-- **level 4, clean form** -/
theorem parse_leaf (cfg : Cfg) (doc : Node) (v : Node) (hv : v ∈ valueScalars doc) (hc : (parse cfg doc).2 = []) :
    Rep v (valueStrs (parse cfg doc).1) := by
  simp only [valueScalars] at hv
  simp only [parse, fixDocPos_content] at hc ⊢
  split at hv
  · rename_i root rest hd
    simp only [hd] at hc ⊢
    simp only [append_nil_iff] at hc
    obtain ⟨⟨⟨hm, hr⟩, hon⟩, hjobs⟩ := hc
    obtain ⟨k, hk⟩ := sect_K cfg _ root false true (workflowKey cfg) _ workflowKeyScalars v hv workflowK hm hr
      (by
        intro kv k st hid hvk hc
        have := hid rfl
        subst this
        exact workflowKey_store cfg st kv v hvk hc)
      (workflowK_pres cfg)
    refine hk.mono (workflowK_final k _ ?_ ?_)
    · exact loop_inv_clean (workflowKey cfg) (fun w => ∀ l, w.jobs = some l → l ≠ [])
        (fun st kv hI hc => workflowKey_jobs cfg st kv hI hc) _ _ (by intro l hl; cases hl) hr
    · cases hj : (loop (workflowKey cfg) {} (parseMapping cfg "workflow" root false true).1).1.jobs.isNone with
      | false => rfl
      | true => simp [hj] at hjobs
  · cases hv

/-! ## the theorems, level by level -/

/-- **level 1: scalars.** `parseString` on a node: every scalar below the node is returned — text and position — or
`parseString` reports. (`parseString_clean`: it is silent only on a scalar; `parseString_not_scalar`,
`parseString_empty`: what it reports and returns otherwise; `parseString_scalar_allowEmpty`: a null node is the empty
string where that is allowed.) -/
theorem scalar_not_dropped (n : Node) (allowEmpty : Bool) (v : Node) (hv : v ∈ leaves n) :
    (parseString n allowEmpty).2 ≠ [] ∨
      ((parseString n allowEmpty).1.value = v.value ∧ (parseString n allowEmpty).1.pos = v.pos) :=
  or_of_clean fun hc => by
    obtain ⟨s, hs, e⟩ := parseString_leaf n allowEmpty v hv hc
    rw [List.mem_singleton] at hs
    subst hs
    exact e

/-- **level 2: a step.** Every value scalar of a step node — below `name`, `if`, `run`, `shell`, `working-directory`,
`uses`, `with.<k>` (with `entrypoint`, `args`), `env.<k>`, `continue-on-error`, `timeout-minutes` and below any other key
but `id` — is a value string of the parsed step, or `parseStep` reports. -/
theorem step_no_value_dropped (cfg : Cfg) (n : Node) (v : Node) (hv : v ∈ stepScalars n) :
    (parseStep cfg n).2 ≠ [] ∨ ∃ s ∈ stepStrs (parseStep cfg n).1, s.value = v.value ∧ s.pos = v.pos :=
  or_of_clean fun hc => parseStep_leaf cfg n v hv hc

/-- **level 3: a job.** Every value scalar of a job node — `name`, `needs`, `runs-on` (labels, group), `env`,
`defaults.run.*`, `if`, `strategy` (matrix values at any nesting depth, `include`, `exclude`, `fail-fast`,
`max-parallel`), `continue-on-error`, `timeout-minutes`, `container.*`, `services.*.*`, `environment.*`, `outputs.*`,
`concurrency.*`, `uses` / `with` / `secrets` of a reusable-workflow call, every step — is a value string of the parsed
job, or `parseJob` reports. -/
theorem job_no_value_dropped (cfg : Cfg) (id : Str) (n : Node) (v : Node) (hv : v ∈ jobScalars n) :
    (parseJob cfg id n).2 ≠ [] ∨ ∃ s ∈ jobStrs (parseJob cfg id n).1, s.value = v.value ∧ s.pos = v.pos :=
  or_of_clean fun hc => parseJob_leaf cfg id n v hv hc

/-- the `on:` section on its own: every value scalar is a string of one of the events (with the output values of
`workflow_call`), or `parseEvents` reports -/
theorem on_no_value_dropped (cfg : Cfg) (pos : Yaml.Pos) (n : Node) (v : Node) (hv : v ∈ onScalars n) :
    (parseEvents cfg pos n).2 ≠ [] ∨ ∃ s ∈ onStrs ((parseEvents cfg pos n).1.getD []), s.value = v.value ∧ s.pos = v.pos :=
  or_of_clean fun hc => parseEvents_leaf cfg pos n v hv hc

/-- **C03, parser half: nothing is dropped silently.** For every document and every configuration of the parser: a value
scalar of the document is a value string of the AST — same text, same position — or the parser reports a syntax
diagnostic. -/
theorem no_value_scalar_dropped (cfg : Cfg) (doc : Node) (v : Node) (hv : v ∈ valueScalars doc) :
    (parse cfg doc).2 ≠ [] ∨ ∃ s ∈ valueStrs (parse cfg doc).1, s.value = v.value ∧ s.pos = v.pos :=
  or_of_clean fun hc => parse_leaf cfg doc v hv hc

/-- **C03 end to end.** A malformed placeholder in a value scalar of the DOCUMENT yields a syntax diagnostic of the parser
or a diagnostic of the expression rule located at that scalar: no placeholder of the document is silently skipped. -/
theorem placeholder_in_document_reported (cfg : Cfg) (lower : String → String) (isNum : AL.RuleExpr.IsNumber) (doc : Node)
    (v : Node) (hv : v ∈ valueScalars doc) (hbad : Malformed v.value) :
    (parse cfg doc).2 ≠ [] ∨ ∃ d ∈ AL.RuleExpr.rule lower isNum (parse cfg doc).1, d.site = v.pos := by
  rcases no_value_scalar_dropped cfg doc v hv with h | ⟨s, hs, hval, hpos⟩
  · exact Or.inl h
  · obtain ⟨d, hd, hsite⟩ := every_placeholder_checked lower isNum (parse cfg doc).1 s hs (by rw [hval]; exact hbad)
    exact Or.inr ⟨d, hd, by rw [hsite, hpos]⟩

/-! ## instances: the hypotheses are met by ordinary documents and both disjuncts occur -/

section Examples

/-- a plain scalar at `line:col` -/
def sc (tag v : String) (l c : Nat) : Node := .mk .scalar tag v false l c []
def mp (l c : Nat) (cs : List Node) : Node := .mk .mapping "!!map" "" false l c cs
def sq (l c : Nat) (cs : List Node) : Node := .mk .sequence "!!seq" "" false l c cs
def key (v : String) (l c : Nat) : Node := sc "!!str" v l c

/-- the configuration the examples run with (ASCII lower-casing; the numbers do not occur) -/
def exCfg : Cfg := ⟨asciiLower, fun _ => none, fun _ => .err⟩

/-! level 1 -/

/-- `run: make` — the scalar is returned -/
example : sc "!!str" "make" 2 8 ∈ leaves (sc "!!str" "make" 2 8) ∧ (parseString (sc "!!str" "make" 2 8) false).2 = [] ∧
    (parseString (sc "!!str" "make" 2 8) false).1 = ⟨"make", false, ⟨2, 8⟩⟩ := ⟨by simp [sc, leaves], rfl, rfl⟩

/-- `run: [make]` — a scalar below a sequence where a string is expected: reported, and NOT returned -/
example : sc "!!str" "make" 2 9 ∈ leaves (sq 2 8 [sc "!!str" "make" 2 9]) ∧
    (parseString (sq 2 8 [sc "!!str" "make" 2 9]) false).2 = [⟨⟨2, 8⟩, "not-scalar-string", ["sequence", "!!seq"]⟩] ∧
    (parseString (sq 2 8 [sc "!!str" "make" 2 9]) false).1.value ≠ "make" :=
  ⟨by simp [sc, sq, leaves, leavesSeq], rfl, by decide⟩

/-! level 2 -/

/--
```
- name: build
  run: make ${{
  with: …            (not here)
```
-/
def exStep : Node :=
  mp 1 3 [key "name" 1 3, sc "!!str" "build" 1 9, key "id" 2 3, sc "!!str" "b" 2 7, key "run" 3 3, sc "!!str" "make ${{" 3 8]

/-- the value scalars of the step: `name` and `run` — not the `id` -/
example : stepScalars exStep = [sc "!!str" "build" 1 9, sc "!!str" "make ${{" 3 8] := rfl

/-- second disjunct: the step parses silently and the `run` scalar is a value string of the step -/
example (cfg : Cfg) : (parseStep cfg exStep).2 = [] ∧
    ∃ s ∈ stepStrs (parseStep cfg exStep).1, s.value = "make ${{" ∧ s.pos = ⟨3, 8⟩ := by
  refine ⟨rfl, ?_⟩
  have hv : sc "!!str" "make ${{" 3 8 ∈ stepScalars exStep := by
    rw [show stepScalars exStep = [sc "!!str" "build" 1 9, sc "!!str" "make ${{" 3 8] from rfl]; simp
  exact (step_no_value_dropped cfg exStep _ hv).resolve_left (fun h => h rfl)

/-- `- run: make` with `working-directory: [src]`: first disjunct — reported — and the scalar `src` is NOT a value string -/
def exStepBad : Node :=
  mp 1 3 [key "run" 1 3, sc "!!str" "make" 1 8, key "working-directory" 2 3, sq 2 22 [sc "!!str" "src" 2 23]]

example (cfg : Cfg) : sc "!!str" "src" 2 23 ∈ stepScalars exStepBad ∧
    (parseStep cfg exStepBad).2 = [⟨⟨2, 22⟩, "not-scalar-string", ["sequence", "!!seq"]⟩] ∧
    ¬ ∃ s ∈ stepStrs (parseStep cfg exStepBad).1, s.value = "src" := by
  refine ⟨?_, rfl, ?_⟩
  · rw [show stepScalars exStepBad = [sc "!!str" "make" 1 8, sc "!!str" "src" 2 23] from rfl]; simp
  · rw [show stepStrs (parseStep cfg exStepBad).1 = [⟨"make", false, ⟨1, 8⟩⟩, ⟨"", false, ⟨2, 22⟩⟩] from rfl]
    simp

/-! level 3 -/

/--
```
build:
  runs-on: ubuntu-latest
  strategy:
    matrix:
      os: [linux, {arch: [x64, "${{"]}]
  steps:
    - run: make
```
-/
def exJob : Node :=
  mp 2 5 [key "runs-on" 2 5, sc "!!str" "ubuntu-latest" 2 14,
    key "strategy" 3 5, mp 4 7 [key "matrix" 4 7, mp 5 9 [key "os" 5 9,
      sq 5 13 [sc "!!str" "linux" 5 14, mp 5 21 [key "arch" 5 22, sq 5 28 [sc "!!str" "x64" 5 29, sc "!!str" "${{" 5 34]]]]],
    key "steps" 6 5, sq 7 7 [mp 7 9 [key "run" 7 9, sc "!!str" "make" 7 14]]]

example : jobScalars exJob =
    [sc "!!str" "ubuntu-latest" 2 14, sc "!!str" "linux" 5 14, sc "!!str" "x64" 5 29, sc "!!str" "${{" 5 34, sc "!!str" "make" 7 14] := rfl

/-- second disjunct: the job parses silently; the scalar three levels down in the matrix is a value string of the job -/
example : (parseJob exCfg ⟨"build", false, ⟨1, 3⟩⟩ exJob).2 = [] ∧
    ∃ s ∈ jobStrs (parseJob exCfg ⟨"build", false, ⟨1, 3⟩⟩ exJob).1, s.value = "${{" ∧ s.pos = ⟨5, 34⟩ := by
  refine ⟨by decide +kernel, ?_⟩
  have hv : sc "!!str" "${{" 5 34 ∈ jobScalars exJob := by
    rw [show jobScalars exJob = [sc "!!str" "ubuntu-latest" 2 14, sc "!!str" "linux" 5 14, sc "!!str" "x64" 5 29,
      sc "!!str" "${{" 5 34, sc "!!str" "make" 7 14] from rfl]; simp
  exact (job_no_value_dropped exCfg _ exJob _ hv).resolve_left (fun h => h (by decide +kernel))

/-- a job with `env: [A]`: first disjunct — reported — and `A` is NOT a value string -/
def exJobBad : Node :=
  mp 2 5 [key "runs-on" 2 5, sc "!!str" "ubuntu-latest" 2 14, key "env" 3 5, sq 3 10 [sc "!!str" "A" 3 11],
    key "steps" 4 5, sq 5 7 [mp 5 9 [key "run" 5 9, sc "!!str" "make" 5 14]]]

example : sc "!!str" "A" 3 11 ∈ jobScalars exJobBad ∧ (parseJob exCfg ⟨"build", false, ⟨1, 3⟩⟩ exJobBad).2 ≠ [] ∧
    ¬ ∃ s ∈ jobStrs (parseJob exCfg ⟨"build", false, ⟨1, 3⟩⟩ exJobBad).1, s.value = "A" := by
  refine ⟨?_, by decide +kernel, ?_⟩
  · rw [show jobScalars exJobBad = [sc "!!str" "ubuntu-latest" 2 14, sc "!!str" "A" 3 11, sc "!!str" "make" 5 14] from rfl]; simp
  · rw [show jobStrs (parseJob exCfg ⟨"build", false, ⟨1, 3⟩⟩ exJobBad).1 =
      [⟨"ubuntu-latest", false, ⟨2, 14⟩⟩, ⟨"make", false, ⟨5, 14⟩⟩] from by decide +kernel]
    simp

/-! the `on:` section -/

/--
```
on:
  push:
    branches: [main, "${{"]
  workflow_dispatch:
    inputs:
      x: {type: choice, options: [a], default: b}
```
-/
def exOn : Node :=
  mp 2 3 [key "push" 2 3, mp 3 5 [key "branches" 3 5, sq 3 15 [sc "!!str" "main" 3 16, sc "!!str" "${{" 3 22]],
    key "workflow_dispatch" 4 3, mp 5 5 [key "inputs" 5 5, mp 6 7 [key "x" 6 7,
      mp 6 10 [key "type" 6 11, sc "!!str" "choice" 6 17, key "options" 6 25, sq 6 34 [sc "!!str" "a" 6 35],
        key "default" 6 39, sc "!!str" "b" 6 48]]]]

/-- the filter patterns, the options and the default — not the event names (keys), not the input `type` -/
example : onScalars exOn = [sc "!!str" "main" 3 16, sc "!!str" "${{" 3 22, sc "!!str" "a" 6 35, sc "!!str" "b" 6 48] := rfl

example : (parseEvents exCfg ⟨1, 1⟩ exOn).2 = [] ∧
    ∃ s ∈ onStrs ((parseEvents exCfg ⟨1, 1⟩ exOn).1.getD []), s.value = "${{" ∧ s.pos = ⟨3, 22⟩ := by
  refine ⟨by decide +kernel, ?_⟩
  have hv : sc "!!str" "${{" 3 22 ∈ onScalars exOn := by
    rw [show onScalars exOn = [sc "!!str" "main" 3 16, sc "!!str" "${{" 3 22, sc "!!str" "a" 6 35, sc "!!str" "b" 6 48] from rfl]
    simp
  exact (on_no_value_dropped exCfg ⟨1, 1⟩ exOn _ hv).resolve_left (fun h => h (by decide +kernel))

/-- `on: {push: {branches: {a: b}}}`: first disjunct — reported — and `b` is NOT a string of the event -/
def exOnBad : Node :=
  mp 2 3 [key "push" 2 3, mp 3 5 [key "branches" 3 5, mp 3 15 [key "a" 3 16, sc "!!str" "b" 3 19]]]

example : sc "!!str" "b" 3 19 ∈ onScalars exOnBad ∧ (parseEvents exCfg ⟨1, 1⟩ exOnBad).2 ≠ [] ∧
    ¬ ∃ s ∈ onStrs ((parseEvents exCfg ⟨1, 1⟩ exOnBad).1.getD []), s.value = "b" := by
  refine ⟨?_, by decide +kernel, ?_⟩
  · rw [show onScalars exOnBad = [sc "!!str" "b" 3 19] from rfl]; simp
  · rw [show onStrs ((parseEvents exCfg ⟨1, 1⟩ exOnBad).1.getD []) = [] from by decide +kernel]
    simp

/-! level 4 and the end-to-end corollary -/

/--
```
run-name: ${{
on:
  workflow_call:
    outputs:
      out: {value: v}
jobs:
  build:  … exJob …
```
-/
def exDoc : Node :=
  .mk .document "" "" false 1 1 [mp 1 1 [key "run-name" 1 1, sc "!!str" "${{" 1 11,
    key "on" 2 1, mp 3 3 [key "workflow_call" 3 3, mp 4 5 [key "outputs" 4 5, mp 5 7 [key "out" 5 7,
      mp 5 12 [key "value" 5 13, sc "!!str" "v" 5 20]]]],
    key "jobs" 6 1, mp 7 3 [key "build" 7 3, exJob]]]

example : valueScalars exDoc =
    [sc "!!str" "${{" 1 11, sc "!!str" "v" 5 20,
     sc "!!str" "ubuntu-latest" 2 14, sc "!!str" "linux" 5 14, sc "!!str" "x64" 5 29, sc "!!str" "${{" 5 34, sc "!!str" "make" 7 14] := rfl

theorem exDoc_clean : (parse exCfg exDoc).2 = [] := by decide +kernel

/-- second disjunct at the top level, in the `on:` section (the output value, checked after the jobs) and deep in a job -/
example : ∀ v ∈ [sc "!!str" "${{" 1 11, sc "!!str" "v" 5 20, sc "!!str" "${{" 5 34],
    ∃ s ∈ valueStrs (parse exCfg exDoc).1, s.value = v.value ∧ s.pos = v.pos := by
  intro v hv
  refine (no_value_scalar_dropped exCfg exDoc v ?_).resolve_left (fun h => h exDoc_clean)
  rw [show valueScalars exDoc = [sc "!!str" "${{" 1 11, sc "!!str" "v" 5 20, sc "!!str" "ubuntu-latest" 2 14,
    sc "!!str" "linux" 5 14, sc "!!str" "x64" 5 29, sc "!!str" "${{" 5 34, sc "!!str" "make" 7 14] from rfl]
  simp only [List.mem_cons, List.not_mem_nil, or_false] at hv ⊢
  rcases hv with rfl | rfl | rfl <;> simp

/-- end to end: the unclosed `${{` of `run-name` and the one in the matrix each get a diagnostic of the expression rule at
their own position — the parser being silent, the second disjunct is the one that holds -/
example (lower : String → String) (isNum : AL.RuleExpr.IsNumber) :
    (∃ d ∈ AL.RuleExpr.rule lower isNum (parse exCfg exDoc).1, d.site = ⟨1, 11⟩) ∧
    (∃ d ∈ AL.RuleExpr.rule lower isNum (parse exCfg exDoc).1, d.site = ⟨5, 34⟩) := by
  have hs : valueScalars exDoc = [sc "!!str" "${{" 1 11, sc "!!str" "v" 5 20, sc "!!str" "ubuntu-latest" 2 14,
    sc "!!str" "linux" 5 14, sc "!!str" "x64" 5 29, sc "!!str" "${{" 5 34, sc "!!str" "make" 7 14] := rfl
  constructor
  · exact (placeholder_in_document_reported exCfg lower isNum exDoc (sc "!!str" "${{" 1 11) (by rw [hs]; simp)
      malformed_open).resolve_left (fun h => h exDoc_clean)
  · exact (placeholder_in_document_reported exCfg lower isNum exDoc (sc "!!str" "${{" 5 34) (by rw [hs]; simp)
      malformed_open).resolve_left (fun h => h exDoc_clean)

/-- a document with `name: [x]`: first disjunct — the parser reports — and `x` is NOT a value string of the AST -/
def exDocBad : Node :=
  .mk .document "" "" false 1 1 [mp 1 1 [key "name" 1 1, sq 1 7 [sc "!!str" "x" 1 8], key "on" 2 1, sc "!!str" "push" 2 5,
    key "jobs" 3 1, mp 4 3 [key "build" 4 3, exJob]]]

example : sc "!!str" "x" 1 8 ∈ valueScalars exDocBad ∧
    (parse exCfg exDocBad).2 = [⟨⟨1, 7⟩, "not-scalar-string", ["sequence", "!!seq"]⟩] ∧
    ¬ ∃ s ∈ valueStrs (parse exCfg exDocBad).1, s.value = "x" := by
  refine ⟨?_, by decide +kernel, ?_⟩
  · rw [show valueScalars exDocBad = [sc "!!str" "x" 1 8, sc "!!str" "ubuntu-latest" 2 14, sc "!!str" "linux" 5 14,
      sc "!!str" "x64" 5 29, sc "!!str" "${{" 5 34, sc "!!str" "make" 7 14] from rfl]; simp
  · rw [show valueStrs (parse exCfg exDocBad).1 = [⟨"", false, ⟨1, 7⟩⟩, ⟨"linux", false, ⟨5, 14⟩⟩, ⟨"x64", false, ⟨5, 29⟩⟩,
      ⟨"${{", false, ⟨5, 34⟩⟩, ⟨"ubuntu-latest", false, ⟨2, 14⟩⟩, ⟨"make", false, ⟨7, 14⟩⟩] from by decide +kernel]
    simp

/-! ## findings: where a value scalar IS dropped without a diagnostic

Each is excluded from `valueScalars` at exactly that position (see AL/Spec/ValueScalars.lean) and proved here on a
concrete witness. All need an explicit YAML tag on the scalar (or a tree no YAML text produces), so none is reachable
with a placeholder written the ordinary way. -/

/-- **FINDING 1 (`!!bool`-tagged text).** At a boolean position (`continue-on-error`, `fail-fast`, `cancel-in-progress`,
`required`) a scalar tagged `!!bool` is taken as a literal WHATEVER ITS TEXT: `parseBool` compares the text with "true"
and reports nothing. With an explicit tag (`continue-on-error: !!bool "${{ x"`) the text is dropped silently: no syntax
diagnostic, no string in the AST. (The `!!int` / `!!float` counterparts go through `strconv` and are reported when the
text is not a number.) -/
theorem finding_bool_tagged_text (t : String) (q : Bool) (l c : Nat) (cs : List Node) :
    (parseBool (.mk .scalar "!!bool" t q l c cs)).2 = [] ∧ boolStrs (parseBool (.mk .scalar "!!bool" t q l c cs)).1 = [] := by
  simp [parseBool, Node.kind, Node.tag, boolStrs]

/--
```
on: push
jobs:
  build:
    runs-on: ubuntu-latest
    steps:
      - run: make
        continue-on-error: !!bool "${{ x"
```
-/
def exDocBoolTag : Node :=
  .mk .document "" "" false 1 1 [mp 1 1 [key "on" 1 1, sc "!!str" "push" 1 5,
    key "jobs" 2 1, mp 3 3 [key "build" 3 3, mp 4 5 [key "runs-on" 4 5, sc "!!str" "ubuntu-latest" 4 14,
      key "steps" 5 5, sq 6 7 [mp 6 9 [key "run" 6 9, sc "!!str" "make" 6 14,
        key "continue-on-error" 7 9, sc "!!bool" "${{ x" 7 28]]]]]]

/-- the witness of finding 1 in a whole document: parsed silently, and no string of the AST sits at the scalar's position -/
theorem finding_bool_tagged_text_document :
    (parse exCfg exDocBoolTag).2 = [] ∧ ¬ ∃ s ∈ valueStrs (parse exCfg exDocBoolTag).1, s.pos = ⟨7, 28⟩ := by
  refine ⟨by decide +kernel, ?_⟩
  rw [show valueStrs (parse exCfg exDocBoolTag).1 = [⟨"ubuntu-latest", false, ⟨4, 14⟩⟩, ⟨"make", false, ⟨6, 14⟩⟩] from by
    decide +kernel]
  simp

/-- the scalar is outside `valueScalars` only because of its tag: the same scalar tagged `!!str` is a value scalar -/
example : valueScalars exDocBoolTag = [sc "!!str" "ubuntu-latest" 4 14, sc "!!str" "make" 6 14] := rfl

/-- **FINDING 2 (null `default:` of a `workflow_call` input).** `default:` with a node tagged `!!null` sets no default and
reports nothing, whatever the text of the node (`default: !!null "${{ x"`); for the ordinary null (`default:` / `~` /
`null`) that is the intended reading. -/
theorem finding_call_input_null_default (st : CallInput × Bool) (key : Str) (t : String) (q : Bool) (l c : Nat) (cs : List Node) :
    callInputAttr st ⟨"default", key, .mk .scalar "!!null" t q l c cs⟩ = (st, []) := by
  simp [callInputAttr, Node.isNull, Node.kind, Node.tag]

/--
```
on:
  workflow_call:
    inputs:
      x: {type: string, default: !!null "${{ x"}
jobs: … exJob …
```
-/
def exDocNullDefault : Node :=
  .mk .document "" "" false 1 1 [mp 1 1 [key "on" 1 1, mp 2 3 [key "workflow_call" 2 3, mp 3 5 [key "inputs" 3 5,
      mp 4 7 [key "x" 4 7, mp 4 10 [key "type" 4 11, sc "!!str" "string" 4 17, key "default" 4 25, sc "!!null" "${{ x" 4 34]]]],
    key "jobs" 5 1, mp 6 3 [key "build" 6 3, exJob]]]

theorem finding_call_input_null_default_document :
    (parse exCfg exDocNullDefault).2 = [] ∧ ¬ ∃ s ∈ valueStrs (parse exCfg exDocNullDefault).1, s.pos = ⟨4, 34⟩ := by
  refine ⟨by decide +kernel, ?_⟩
  rw [show valueStrs (parse exCfg exDocNullDefault).1 = [⟨"linux", false, ⟨5, 14⟩⟩, ⟨"x64", false, ⟨5, 29⟩⟩,
      ⟨"${{", false, ⟨5, 34⟩⟩, ⟨"ubuntu-latest", false, ⟨2, 14⟩⟩, ⟨"make", false, ⟨7, 14⟩⟩] from by decide +kernel]
  simp

/-- **FINDING 3 (null-tagged node where a mapping may be empty).** Where the syntax has an optional mapping (`on.<event>`,
`workflow_dispatch.inputs` and each input, `workflow_call.inputs` / `secrets` / `outputs` and each entry) a node tagged
`!!null` is the empty mapping — the intended reading of `push:` — whatever its text: `push: !!null "${{ x"` is parsed
silently. (`mapScalars` takes a null node for the empty mapping.) -/
theorem finding_null_tagged_mapping (cfg : Cfg) (what t : String) (q cs : Bool) (l c : Nat) :
    parseMapping cfg what (.mk .scalar "!!null" t q l c []) true cs = ([], []) := by
  simp [parseMapping, Node.isNull, Node.kind, Node.tag, Node.content, pairs, mappingLoop]

/-- **Observation (model only).** `mayParseExpression` reads the `Value` of the node without looking at its kind. A
collection node with a text — which yaml.v3 never produces — is taken for one `${{ }}`, its content is dropped silently:
the reason for the guard `exprPos` at `services`, `runs-on`, `runs-on.labels`. -/
theorem observation_collection_with_text (cfg : Cfg) :
    parseServices cfg (.mk .mapping "!!str" "${{ x }}" false 3 5 [key "db" 4 7, sc "!!str" "redis" 4 11]) =
      (⟨none, some ⟨"${{ x }}", false, ⟨3, 5⟩⟩, ⟨3, 5⟩⟩, []) := by
  have : mayParseExpression (.mk .mapping "!!str" "${{ x }}" false 3 5 [key "db" 4 7, sc "!!str" "redis" 4 11]) =
      some ⟨"${{ x }}", false, ⟨3, 5⟩⟩ := by decide +kernel
  simp only [parseServices, this]
  rfl

end Examples

end AL.C03P
