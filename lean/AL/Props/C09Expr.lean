import AL.Model.RuleExpr
/-
  C09 on the model of rule_expression.go (AL.RuleExpr, tied by `exprwf`): the diagnostics the rule reports for a job are a
  function of that job, of the scope the workflow header leaves (`cx`) and of the jobs it names in `needs:` — and of those
  only their declared outputs and whether they call a reusable workflow. The other jobs of the workflow, their number and
  their order do not enter; `matrixTy` / `stepsTy` / `needsTy` of one job never reach another (`visitJob` starts from the
  header's scope every time).
-/
namespace AL.C09E
open AL AL.Ast AL.Sema AL.RuleExpr

/-- what a job shows to the jobs that need it -/
def jobView (j : Job) : Bool × Ty := (j.workflowCall.isNone, declaredOutputsTy j)

theorem needsTy_congr (outs : List (String × Ty)) (lower : String → String) (jobs jobs' : List (String × Job)) (n : Job)
    (h : ∀ id ∈ n.needs.getD [], (lookupJob (lower id.value) jobs).map jobView = (lookupJob (lower id.value) jobs').map jobView) :
    needsTy outs lower jobs n = needsTy outs lower jobs' n := by
  simp only [needsTy]
  congr 1
  generalize n.needs.getD [] = needs at h
  suffices H : ∀ acc : List (String × Ty),
      needs.foldl (fun ps id =>
        let i := lower id.value
        if i = lower n.id.value then ps
        else if (Ty.lookup i ps).isSome then ps
        else match lookupJob i jobs with
          | none => ps
          | some j =>
            let outs := if j.workflowCall.isNone then declaredOutputsTy j else (Ty.lookup i outs).getD mapOfString
            Ty.setProp i (.obj [("outputs", outs), ("result", .string)] none) ps) acc =
      needs.foldl (fun ps id =>
        let i := lower id.value
        if i = lower n.id.value then ps
        else if (Ty.lookup i ps).isSome then ps
        else match lookupJob i jobs' with
          | none => ps
          | some j =>
            let outs := if j.workflowCall.isNone then declaredOutputsTy j else (Ty.lookup i outs).getD mapOfString
            Ty.setProp i (.obj [("outputs", outs), ("result", .string)] none) ps) acc from H []
  induction needs with
  | nil => intro acc; rfl
  | cons id rest ih =>
    intro acc
    simp only [List.foldl_cons]
    have hid := h id (by simp)
    have step : (let i := lower id.value
        if i = lower n.id.value then acc
        else if (Ty.lookup i acc).isSome then acc
        else match lookupJob i jobs with
          | none => acc
          | some j =>
            let outs := if j.workflowCall.isNone then declaredOutputsTy j else (Ty.lookup i outs).getD mapOfString
            Ty.setProp i (.obj [("outputs", outs), ("result", .string)] none) acc) =
        (let i := lower id.value
        if i = lower n.id.value then acc
        else if (Ty.lookup i acc).isSome then acc
        else match lookupJob i jobs' with
          | none => acc
          | some j =>
            let outs := if j.workflowCall.isNone then declaredOutputsTy j else (Ty.lookup i outs).getD mapOfString
            Ty.setProp i (.obj [("outputs", outs), ("result", .string)] none) acc) := by
      simp only
      split
      · rfl
      · split
        · rfl
        · cases h1 : lookupJob (lower id.value) jobs <;> cases h2 : lookupJob (lower id.value) jobs' <;>
            simp only [h1, h2, Option.map_none, Option.map_some, jobView, reduceCtorEq, Option.some.injEq, Prod.mk.injEq] at hid ⊢
          rw [hid.1, hid.2]
    rw [step]
    exact ih (fun id' hm => h id' (by simp [hm])) _

/-- **a job's diagnostics depend on the jobs it needs only** (and on those only through `jobView`) -/
theorem job_depends_on_needed_only (cx : Cx) (isNum : IsNumber) (jobs jobs' : List (String × Job)) (n : Job)
    (h : ∀ id ∈ n.needs.getD [], (lookupJob (cx.lower id.value) jobs).map jobView = (lookupJob (cx.lower id.value) jobs').map jobView) :
    visitJob cx isNum jobs n = visitJob cx isNum jobs' n := by
  simp only [visitJob, needsTy_congr _ cx.lower jobs jobs' n h]

/-- a job without `needs:` is checked the same in every workflow with the same header -/
theorem job_without_needs_alone (cx : Cx) (isNum : IsNumber) (jobs jobs' : List (String × Job)) (n : Job)
    (h : n.needs.getD [] = []) : visitJob cx isNum jobs n = visitJob cx isNum jobs' n :=
  job_depends_on_needed_only cx isNum jobs jobs' n (by simp [h])

/-- the rule's diagnostics are the header's, then one block per job, then the workflow_call outputs: no job's block
depends on what was checked before it -/
theorem rule_is_per_job (lower : String → String) (isNum : IsNumber) (w : Workflow) :
    ∃ hd tl, rule lower isNum w =
      hd ++ (w.jobs.getD []).flatMap (fun kv => visitJob (visitEvents { lower := lower } (w.on.getD [])).1 isNum (w.jobs.getD []) kv.2) ++ tl :=
  ⟨_, _, rfl⟩

end AL.C09E
