import AL.Lemmas.C11DJob
import AL.Props.C12Parse
/-
  C11 from the DOCUMENT to the diagnostics: **untrusted inputs are reported in the scripts of the document, and only
  there.**

  AL.Props.C11 says WHICH expressions read an untrusted input; AL.Props.C11Rule (`AL.C11R`) says, on the AST, WHERE the
  check is switched on: at the script strings `scriptStrs lower w` (a step's `ExecRun.Run`, the `script` entry of
  `ExecAction.Inputs` of a step whose `Uses`, folded, starts with `actions/github-script@`). This file composes that with
  the parser (`AL.PW.parse`), so that both halves speak about what is WRITTEN in the yaml.Node tree:

    `scriptKScalars lower doc` / `scriptScalars lower doc` (AL/Spec/ScriptScalars.lean) list the script scalars of the
    DOCUMENT — the scalar under `run:` of every element of every job's `steps:`, the scalar under the key `script` (folded)
    of `with:` of a step whose `uses:` text folds to `actions/github-script@…` — each with the workflow key of its position;
    written from the documentation, without the parser.

    §1  the walk: `scriptScalars ⊆ valueScalars` (C03's walk), `scriptKScalars ⊆ keyedScalars` (C12's walk: same keys),
        the keys are `jobs.<job_id>.steps.run` / `jobs.<job_id>.steps.with`; `IsStepRun`, `IsScriptInput`: the two kinds of
        script scalar, spelled out as paths
    §2  parser and walk agree: for a document the parser accepts silently the script strings of the AST ARE the script
        scalars of the document, in order, key by key (`script_strs_are_script_scalars`); unconditionally every script
        string of the AST with a text is a script scalar of the document (`script_string_from_script_scalar`)
    §3  COMPLETENESS from the document: `script_scalar_parsed`, `script_scalar_scanned`,
        `untrusted_in_script_scalar_reported`; `${{ github.event.issue.title }}` in the `run:` / the `script:` of ANY
        document (`run_title_in_document_reported`, `script_title_in_document_reported`)
    §3a "the first occurrence of a key" is not a restriction: for an accepted document every occurrence is the first
        (`isStepRun_of_any`, `isScriptInput_of_any`), so the theorems of §3 hold for a script under ANY occurrence of the key
        (`run_title_in_document_reported_any`, `untrusted_in_any_run_reported`, …)
    §4  PRECISION to the document, WITHOUT a clean-parse hypothesis: `untrusted_only_at_script_scalars`; a document
        without script scalars has no untrusted-input diagnostic (`no_script_scalar_no_untrusted`); for an accepted
        document the untrusted-input diagnostics are exactly the flag-on scans of the script scalars
        (`doc_untrusted_exact_sites`)
    §5  a concrete document: the same text in `run:` (reported), `env:` (not), `Script:` of `Actions/GitHub-Script@v7`
        (reported), `with:` of another action (not)
    §6  instances of the theorems with hypotheses

  Proof architecture (AL/Lemmas/C11DBase.lean, C11DStep.lean, C11DJob.lean): the three fields of a parsed step the check
  depends on (`runOf`, `usesOf`, `inputsOf`) are, UNCONDITIONALLY, empty or made from the node `lookup` finds under the
  key (`parseMapping` files the FIRST pair with an id under that id and drops the later ones; the key loop lets only the
  iteration of `run` / `uses` / `with` write the field); for an accepted step they ARE `newString` of that node. The
  same for `Job.Steps` and `Workflow.Jobs`, which every iteration of their key writes.
-/
namespace AL.C11D
open AL AL.PW AL.Yaml AL.Ast AL.C03P AL.C12P AL.C11R AL.RuleExpr
open AL.C12R (tag mem_tag)
open AL.Sema (err)
open AL.C05D (runOf)

/-! ## 1. the walk -/

theorem mem_scriptKScalars {lower : String → String} {doc : Node} {p : Node × String} :
    p ∈ scriptKScalars lower doc ↔ p ∈ scriptKNodes lower doc ∧ p.1.kind = .scalar := by
  simp [scriptKScalars]

theorem mem_scriptScalars {lower : String → String} {doc : Node} {v : Node} :
    v ∈ scriptScalars lower doc ↔ ∃ key, (v, key) ∈ scriptKScalars lower doc := by
  simp only [scriptScalars, List.mem_map]
  constructor
  · rintro ⟨⟨v', k⟩, hp, rfl⟩; exact ⟨k, hp⟩
  · rintro ⟨k, hp⟩; exact ⟨(v, k), hp, rfl⟩

/-- the first components of the keyed walk are the script scalars (by definition) -/
theorem scriptKScalars_fst (lower : String → String) (doc : Node) :
    (scriptKScalars lower doc).map Prod.fst = scriptScalars lower doc := rfl

theorem entries_mem {n : Node} {p : Node × Node} (h : p ∈ entries n) : n.kind = .mapping ∧ p ∈ pairs n.content := by
  simp only [entries] at h
  split at h
  · exact ⟨‹_›, h⟩
  · cases h

theorem elements_mem {n c : Node} (h : c ∈ elements n) : n.kind = .sequence ∧ c ∈ n.content := by
  simp only [elements] at h
  split at h
  · exact ⟨‹_›, h⟩
  · cases h

/-- what `lookup` finds under a (non-empty) key `k`: the value of a pair of the mapping whose key is the scalar `k` -/
theorem lookup_some {n x : Node} {k : String} (hk : k ≠ "") (h : lookup n k = some x) :
    n.kind = .mapping ∧ ∃ kn, (kn, x) ∈ pairs n.content ∧ kn.kind = .scalar ∧ kn.value = k := by
  simp only [lookup, Option.map_eq_some_iff] at h
  obtain ⟨p, hp, rfl⟩ := h
  have hm := List.mem_of_find?_eq_some hp
  have ht : text p.1 = k := by simpa using List.find?_some hp
  obtain ⟨h1, h2⟩ := entries_mem hm
  obtain ⟨hs, hv⟩ := text_ne_empty (n := p.1) (by rw [ht]; exact hk)
  exact ⟨h1, p.1, h2, hs, by rw [← hv, ht]⟩

theorem lookupFolded_some {lower : String → String} {n x : Node} {k : String} (h : lookupFolded lower n k = some x) :
    n.kind = .mapping ∧ ∃ kn, (kn, x) ∈ pairs n.content ∧ lower (text kn) = k := by
  simp only [lookupFolded, Option.map_eq_some_iff] at h
  obtain ⟨p, hp, rfl⟩ := h
  have hm := List.mem_of_find?_eq_some hp
  have ht : lower (text p.1) = k := by simpa using List.find?_some hp
  obtain ⟨h1, h2⟩ := entries_mem hm
  exact ⟨h1, p.1, h2, ht⟩

/-- a step node of the document: an element of the sequence under `steps:` of a value of the mapping under `jobs:` of the
root mapping -/
theorem mem_docStepNodes {doc st : Node} :
    st ∈ docStepNodes doc ↔
      ∃ root rest jobs p steps, doc.content = root :: rest ∧ lookup root "jobs" = some jobs ∧ p ∈ entries jobs ∧
        lookup p.2 "steps" = some steps ∧ st ∈ elements steps := by
  simp only [docStepNodes, docJobNodes, jobStepNodes, List.mem_flatMap]
  constructor
  · rintro ⟨job, hjob, steps, hsteps, hst⟩
    cases hc : doc.content with
    | nil => simp [hc] at hjob
    | cons root rest =>
      rw [hc] at hjob
      simp only [List.mem_map, List.mem_flatMap] at hjob
      obtain ⟨p, ⟨jobs, hjobs, hp⟩, rfl⟩ := hjob
      exact ⟨root, rest, jobs, p, steps, rfl, AL.C03R.mem_toList hjobs, hp, AL.C03R.mem_toList hsteps, hst⟩
  · rintro ⟨root, rest, jobs, p, steps, hc, hj, hp, hs, hst⟩
    refine ⟨p.2, ?_, steps, by simp [hs], hst⟩
    simp only [hc, hj, Option.toList_some, List.flatMap_cons, List.flatMap_nil, List.append_nil, List.mem_map]
    exact ⟨p, hp, rfl⟩

/-- the value scalars of a step node of the document, with their keys, are keyed value scalars of the document -/
theorem step_keyed_in_doc {doc st : Node} (h : st ∈ docStepNodes doc) : ∀ q ∈ stepKeyed st, q ∈ keyedScalars doc := by
  intro q hq
  obtain ⟨root, rest, jobs, p, steps, hc, hj, hp, hs, hst⟩ := mem_docStepNodes.1 h
  obtain ⟨hrk, kJobs, hjm, _, hjv⟩ := lookup_some (by decide) hj
  obtain ⟨hjk, hpm⟩ := entries_mem hp
  obtain ⟨hpk, kSteps, hsm, _, hsv⟩ := lookup_some (by decide) hs
  obtain ⟨hsk, hstm⟩ := elements_mem hst
  simp only [keyedScalars, hc, mapKeyed, hrk, decide_true, Bool.true_or, ↓reduceIte, List.mem_flatMap]
  refine ⟨(kJobs, jobs), hjm, ?_⟩
  simp only [hjv, workflowKeyKeyed, jobsKeyed, mapKeyed, hjk, decide_true, Bool.true_or, ↓reduceIte, List.mem_flatMap]
  refine ⟨p, hpm, ?_⟩
  simp only [jobKeyed, mapKeyed, hpk, decide_true, Bool.true_or, ↓reduceIte, List.mem_flatMap]
  refine ⟨(kSteps, steps), hsm, ?_⟩
  simp only [hsv, jobKeyKeyed, stepsKeyed, seqKeyed, hsk, ↓reduceIte, List.mem_flatMap]
  exact ⟨st, hstm, hq⟩

/-- a script scalar of a step node is a value scalar of the step, under the key of its position -/
theorem stepScriptK_keyed {lower : String → String} {st : Node} {q : Node × String} (h : q ∈ stepScriptKNodes lower st)
    (hs : q.1.kind = .scalar) : q ∈ stepKeyed st := by
  obtain ⟨v, key⟩ := q
  simp only [stepScriptKNodes, List.mem_append, List.mem_map, Prod.mk.injEq] at h
  rcases h with ⟨x, hx, rfl, rfl⟩ | ⟨x, hx, rfl, rfl⟩
  · obtain ⟨hk, kRun, hm, _, hv⟩ := lookup_some (by decide) (AL.C03R.mem_toList hx)
    simp only [stepKeyed, mapKeyed, hk, decide_true, Bool.true_or, ↓reduceIte, List.mem_flatMap]
    refine ⟨(kRun, x), hm, ?_⟩
    simp only [hv, stepKeyKeyed, leaves_scalar x hs]
    exact mem_under.2 ⟨List.mem_singleton.2 rfl, rfl⟩
  · simp only [stepScriptInputNodes] at hx
    split at hx
    · have hb := AL.C03R.mem_toList hx
      cases hw : lookup st "with" with
      | none => rw [hw] at hb; cases hb
      | some w =>
        rw [hw] at hb
        simp only [Option.bind_some] at hb
        obtain ⟨hk, kWith, hm, _, hv⟩ := lookup_some (by decide) hw
        obtain ⟨hwk, kScript, hsm, _⟩ := lookupFolded_some hb
        simp only [stepKeyed, mapKeyed, hk, decide_true, Bool.true_or, ↓reduceIte, List.mem_flatMap]
        refine ⟨(kWith, w), hm, ?_⟩
        simp only [hv, stepKeyKeyed]
        refine mem_under.2 ⟨?_, rfl⟩
        rw [leaves_mapping w hwk]
        exact List.mem_flatMap.2 ⟨(kScript, x), hsm, by rw [leaves_scalar x hs]; exact List.mem_singleton.2 rfl⟩
    · cases hx

/-- **the script scalars, with their keys, are keyed value scalars of the document** (C12's walk `keyedScalars`): the
documentation's table gives a `run:` the row `jobs.<job_id>.steps.run`, an input of `with:` the row
`jobs.<job_id>.steps.with` -/
theorem scriptKScalars_sub_keyedScalars (lower : String → String) (doc : Node) :
    ∀ p ∈ scriptKScalars lower doc, p ∈ keyedScalars doc := by
  intro p hp
  obtain ⟨hn, hs⟩ := mem_scriptKScalars.1 hp
  obtain ⟨st, hst, hq⟩ := List.mem_flatMap.1 hn
  exact step_keyed_in_doc hst p (stepScriptK_keyed hq hs)

/-- **the script scalars are value scalars of the document** (C03's walk `valueScalars`) -/
theorem scriptScalars_sub_valueScalars (lower : String → String) (doc : Node) :
    ∀ v ∈ scriptScalars lower doc, v ∈ valueScalars doc := by
  intro v hv
  obtain ⟨key, hk⟩ := mem_scriptScalars.1 hv
  exact keyed_is_scalar doc v key (scriptKScalars_sub_keyedScalars lower doc _ hk)

/-- the key of a script scalar is one of the two -/
theorem scriptKScalars_keys (lower : String → String) (doc : Node) (v : Node) (key : String)
    (h : (v, key) ∈ scriptKScalars lower doc) : key = "jobs.<job_id>.steps.run" ∨ key = "jobs.<job_id>.steps.with" := by
  obtain ⟨hn, _⟩ := mem_scriptKScalars.1 h
  obtain ⟨st, _, hq⟩ := List.mem_flatMap.1 hn
  simp only [stepScriptKNodes, List.mem_append, List.mem_map, Prod.mk.injEq] at hq
  rcases hq with ⟨_, _, _, rfl⟩ | ⟨_, _, _, rfl⟩
  · exact Or.inl rfl
  · exact Or.inr rfl

/-- … hence, in `keyedScalars`, the keys of the script scalars are `jobs.<job_id>.steps.run` / `jobs.<job_id>.steps.with` -/
theorem scriptScalars_keyed (lower : String → String) (doc : Node) (v : Node) (hv : v ∈ scriptScalars lower doc) :
    (v, "jobs.<job_id>.steps.run") ∈ keyedScalars doc ∨ (v, "jobs.<job_id>.steps.with") ∈ keyedScalars doc := by
  obtain ⟨key, hk⟩ := mem_scriptScalars.1 hv
  have := scriptKScalars_sub_keyedScalars lower doc _ hk
  rcases scriptKScalars_keys lower doc v key hk with rfl | rfl
  · exact Or.inl this
  · exact Or.inr this

/-! ### the two kinds of script scalar, as paths -/

/-- `v` is the scalar under `run:` of a step of the document: `jobs: {<id>: {steps: [… {run: v} …]}}` below the root -/
structure IsStepRun (doc v : Node) : Prop where
  path : ∃ st ∈ docStepNodes doc, lookup st "run" = some v
  scalar : v.kind = .scalar

/-- `v` is the scalar under the key `script` (folded) of `with:` of a step of the document whose `uses:` text folds to
`actions/github-script@…` -/
structure IsScriptInput (lower : String → String) (doc v : Node) : Prop where
  path : ∃ st ∈ docStepNodes doc, isGithubScriptStep lower st = true ∧
    ∃ w, lookup st "with" = some w ∧ lookupFolded lower w "script" = some v
  scalar : v.kind = .scalar

theorem stepRun_iff (lower : String → String) (doc v : Node) :
    (v, "jobs.<job_id>.steps.run") ∈ scriptKScalars lower doc ↔ IsStepRun doc v := by
  rw [mem_scriptKScalars]
  simp only [scriptKNodes, List.mem_flatMap, stepScriptKNodes, List.mem_append, List.mem_map, Prod.mk.injEq,
    stepRunNodes, Option.mem_toList]
  constructor
  · rintro ⟨⟨st, hst, h⟩, hs⟩
    rcases h with ⟨x, hx, rfl, _⟩ | ⟨x, _, _, hk⟩
    · exact ⟨⟨st, hst, hx⟩, hs⟩
    · exact absurd hk (by decide)
  · rintro ⟨⟨st, hst, hx⟩, hs⟩
    exact ⟨⟨st, hst, Or.inl ⟨v, hx, rfl, trivial⟩⟩, hs⟩

theorem scriptInput_iff (lower : String → String) (doc v : Node) :
    (v, "jobs.<job_id>.steps.with") ∈ scriptKScalars lower doc ↔ IsScriptInput lower doc v := by
  rw [mem_scriptKScalars]
  simp only [scriptKNodes, List.mem_flatMap, stepScriptKNodes, List.mem_append, List.mem_map, Prod.mk.injEq,
    stepScriptInputNodes]
  constructor
  · rintro ⟨⟨st, hst, h⟩, hs⟩
    rcases h with ⟨x, _, _, hk⟩ | ⟨x, hx, rfl, _⟩
    · exact absurd hk (by decide)
    · split at hx
      · rename_i hg
        have hb := AL.C03R.mem_toList hx
        cases hw : lookup st "with" with
        | none => rw [hw] at hb; cases hb
        | some w =>
          rw [hw] at hb
          exact ⟨⟨st, hst, hg, w, hw, hb⟩, hs⟩
      · cases hx
  · rintro ⟨⟨st, hst, hg, w, hw, hx⟩, hs⟩
    refine ⟨⟨st, hst, Or.inr ⟨v, ?_, rfl, trivial⟩⟩, hs⟩
    simp [hg, hw, hx]

/-- every script scalar is of one of the two kinds -/
theorem scriptScalars_kinds (lower : String → String) (doc v : Node) :
    v ∈ scriptScalars lower doc ↔ IsStepRun doc v ∨ IsScriptInput lower doc v := by
  rw [mem_scriptScalars, ← stepRun_iff lower, ← scriptInput_iff]
  constructor
  · rintro ⟨key, hk⟩
    rcases scriptKScalars_keys lower doc v key hk with rfl | rfl
    · exact Or.inl hk
    · exact Or.inr hk
  · rintro (h | h) <;> exact ⟨_, h⟩

/-! ## 2. parser and walk agree -/

/-- **for a document the parser accepts silently, the script strings of the AST ARE the script scalars of the document** —
in the same order, each with the same key, each turned into a `*String` by `newString` (text, quoting, position) -/
theorem script_strs_are_script_scalars (cfg : Cfg) (doc : Node) (h : (parse cfg doc).2 = []) :
    scriptKStrs cfg.lower (parse cfg doc).1 = (scriptKScalars cfg.lower doc).map (fun q => (newString q.1, q.2)) ∧
    scriptStrs cfg.lower (parse cfg doc).1 = (scriptScalars cfg.lower doc).map newString := by
  obtain ⟨h1, h2⟩ := scriptKStrs_clean cfg doc h
  have hf : scriptKScalars cfg.lower doc = scriptKNodes cfg.lower doc := by
    simp only [scriptKScalars]
    exact List.filter_eq_self.2 fun q hq => by simp [h2 q hq]
  refine ⟨by rw [hf]; exact h1, ?_⟩
  rw [← scriptKStrs_fst, h1, scriptScalars, hf, List.map_map, List.map_map]
  rfl

/-- **every script string of the parsed document that has a text is a script scalar of the document**: same key, and the
string is `newString` of the scalar — UNCONDITIONALLY (whatever the parser reports: the parser stores nothing else in
`ExecRun.Run` / the `script` input of an `actions/github-script` step) -/
theorem script_string_from_script_scalar (cfg : Cfg) (doc : Node) (s : Str) (key : String)
    (h : (s, key) ∈ scriptKStrs cfg.lower (parse cfg doc).1) (hne : s.value ≠ "") :
    ∃ v, (v, key) ∈ scriptKScalars cfg.lower doc ∧ s = newString v := by
  obtain ⟨q, hq, hk, ae, he⟩ := scriptKStrs_from_nodes cfg doc _ h
  simp only at hk he
  obtain ⟨hs, hn⟩ := parseString_of_value_ne q.1 ae (by rw [← he]; exact hne)
  refine ⟨q.1, mem_scriptKScalars.2 ⟨?_, hs⟩, by rw [he, hn]⟩
  rw [hk]
  exact hq

/-- every script string of the parsed document sits at a node at a script position of the document (a scalar, unless
the string is the placeholder `parseString` returns for a collection) — unconditionally -/
theorem script_string_at_script_node (cfg : Cfg) (doc : Node) (s : Str) (key : String)
    (h : (s, key) ∈ scriptKStrs cfg.lower (parse cfg doc).1) :
    ∃ x, (x, key) ∈ scriptKNodes cfg.lower doc ∧ s.pos = x.pos ∧ s.value = text x := by
  obtain ⟨q, hq, hk, ae, he⟩ := scriptKStrs_from_nodes cfg doc _ h
  simp only at hk he
  refine ⟨q.1, by rw [hk]; exact hq, ?_, ?_⟩
  · rw [he, parseString_pos]
  · rw [he, parseString_value]

/-! ## 3. completeness from the document -/

/-- **a script scalar of an accepted document is a script string of the AST**, under the same key: text, quoting,
position -/
theorem script_scalar_parsed_clean (cfg : Cfg) (doc : Node) (v : Node) (key : String)
    (hv : (v, key) ∈ scriptKScalars cfg.lower doc) (hc : (parse cfg doc).2 = []) :
    (newString v, key) ∈ scriptKStrs cfg.lower (parse cfg doc).1 := by
  rw [(script_strs_are_script_scalars cfg doc hc).1]
  exact List.mem_map.2 ⟨(v, key), hv, rfl⟩

/-- **C11, parser half.** For every document and every configuration of the parser: a script scalar of the document is a
script string of the AST — same key, same text, same position — or the parser reports a syntax diagnostic. -/
theorem script_scalar_parsed (cfg : Cfg) (doc : Node) (v : Node) (key : String)
    (hv : (v, key) ∈ scriptKScalars cfg.lower doc) :
    (parse cfg doc).2 ≠ [] ∨
      ∃ s, (s, key) ∈ scriptKStrs cfg.lower (parse cfg doc).1 ∧ s.value = v.value ∧ s.pos = v.pos :=
  or_of_clean fun hc => ⟨newString v, script_scalar_parsed_clean cfg doc v key hv hc, rfl, rfl⟩

/-- the same without the key -/
theorem script_scalar_parsed' (cfg : Cfg) (doc : Node) (v : Node) (hv : v ∈ scriptScalars cfg.lower doc) :
    (parse cfg doc).2 ≠ [] ∨ ∃ s ∈ scriptStrs cfg.lower (parse cfg doc).1, s.value = v.value ∧ s.pos = v.pos := by
  obtain ⟨key, hk⟩ := mem_scriptScalars.1 hv
  rcases script_scalar_parsed cfg doc v key hk with h | ⟨s, hs, e⟩
  · exact Or.inl h
  · exact Or.inr ⟨s, keyed_is_script _ _ s key hs, e⟩

/-- **a script scalar of the document is scanned with the untrusted-input check ON**, under the key of its position, in
the scope in effect at its step — or the parser reports -/
theorem script_scalar_scanned (cfg : Cfg) (isNum : IsNumber) (proj : ProjView) (doc : Node) (v : Node) (key : String)
    (hv : (v, key) ∈ scriptKScalars cfg.lower doc) :
    (parse cfg doc).2 ≠ [] ∨ ScannedOn cfg.lower proj (rule cfg.lower isNum (parse cfg doc).1 proj) (newString v) key :=
  or_of_clean fun hc =>
    script_scanned_with_flag_on cfg.lower isNum (parse cfg doc).1 proj _ key (script_scalar_parsed_clean cfg doc v key hv hc)

/-- **C11, completeness from the document.** A script scalar of the document whose text has an untrusted input under
the key of its position — in the scopes that fold names as the rule does — gets an untrusted-input diagnostic of the
expression rule AT THAT SCALAR, or the parser reports a syntax diagnostic: in every document, in every job, at every
step, whatever else is there, whatever the project's view. -/
theorem untrusted_in_script_scalar_reported (cfg : Cfg) (isNum : IsNumber) (proj : ProjView) (doc : Node) (v : Node)
    (key : String) (hv : (v, key) ∈ scriptKScalars cfg.lower doc) (hu : UntrustedUnderL cfg.lower key v.value) :
    (parse cfg doc).2 ≠ [] ∨
      ∃ d ∈ rule cfg.lower isNum (parse cfg doc).1 proj, isUntrusted d ∧ d.site = v.pos :=
  or_of_clean fun hc =>
    every_script_checked_L cfg.lower isNum (parse cfg doc).1 proj (newString v) key
      (script_scalar_parsed_clean cfg doc v key hv hc) hu

/-- the same for an accepted document -/
theorem untrusted_in_script_scalar_reported_clean (cfg : Cfg) (isNum : IsNumber) (proj : ProjView) (doc : Node) (v : Node)
    (key : String) (hv : (v, key) ∈ scriptKScalars cfg.lower doc) (hu : UntrustedUnderL cfg.lower key v.value)
    (hc : (parse cfg doc).2 = []) :
    ∃ d ∈ rule cfg.lower isNum (parse cfg doc).1 proj, isUntrusted d ∧ d.site = v.pos :=
  (untrusted_in_script_scalar_reported cfg isNum proj doc v key hv hu).resolve_left fun h => h hc

/-- the text `${{ github.event.issue.title }}` at a script scalar: the diagnostic, exactly -/
theorem title_at_script_scalar_reported (cfg : Cfg) (hl : KeepsTitle cfg.lower) (isNum : IsNumber) (proj : ProjView)
    (doc : Node) (v : Node) (key : String) (hv : (v, key) ∈ scriptKScalars cfg.lower doc)
    (hval : v.value = "${{ github.event.issue.title }}") :
    (parse cfg doc).2 ≠ [] ∨
      (⟨v.pos, "untrusted", ["github.event.issue.title"]⟩ : Diag) ∈ rule cfg.lower isNum (parse cfg doc).1 proj := by
  rcases script_scalar_scanned cfg isNum proj doc v key hv with h | ⟨cx, h1, _, h3⟩
  · exact Or.inl h
  · refine Or.inr (h3 (err "untrusted" ["github.event.issue.title"]) ?_)
    rw [newString_value, hval, title_scan cx (h1 ▸ hl)]
    exact List.mem_append_right _ (List.mem_singleton.2 rfl)

/-- **in EVERY document**: `${{ github.event.issue.title }}` as the `run:` of a step — of whichever job, at whichever
place among the steps, whatever else the document contains — gets the diagnostic of the untrusted-input check, naming the
path, at that scalar, or the parser reports a syntax diagnostic; whatever the project's view; the folding function is one
that leaves `github`, `event`, `issue`, `title` alone, as `strings.ToLower` does -/
theorem run_title_in_document_reported (cfg : Cfg) (hl : KeepsTitle cfg.lower) (isNum : IsNumber) (proj : ProjView)
    (doc v : Node) (h : IsStepRun doc v) (hval : v.value = "${{ github.event.issue.title }}") :
    (parse cfg doc).2 ≠ [] ∨
      (⟨v.pos, "untrusted", ["github.event.issue.title"]⟩ : Diag) ∈ rule cfg.lower isNum (parse cfg doc).1 proj :=
  title_at_script_scalar_reported cfg hl isNum proj doc v _ ((stepRun_iff cfg.lower doc v).2 h) hval

/-- **in EVERY document**: the same as the `script` input (the key in any letter case) of a step whose `uses:`, folded,
starts with `actions/github-script@` -/
theorem script_title_in_document_reported (cfg : Cfg) (hl : KeepsTitle cfg.lower) (isNum : IsNumber) (proj : ProjView)
    (doc v : Node) (h : IsScriptInput cfg.lower doc v) (hval : v.value = "${{ github.event.issue.title }}") :
    (parse cfg doc).2 ≠ [] ∨
      (⟨v.pos, "untrusted", ["github.event.issue.title"]⟩ : Diag) ∈ rule cfg.lower isNum (parse cfg doc).1 proj :=
  title_at_script_scalar_reported cfg hl isNum proj doc v _ ((scriptInput_iff cfg.lower doc v).2 h) hval

/-! ### "the first occurrence" is not a restriction

`lookup` takes the FIRST pair with a key. A document that repeats a key is reported by the parser (`key-duplicated`), so
the theorems above hold for a script written under ANY occurrence of the key: for an accepted document every occurrence
is the first. -/

/-- `v` is the scalar value of SOME pair with the key `run` of a step of the document -/
structure IsStepRunAny (doc v : Node) : Prop where
  path : ∃ st ∈ docStepNodes doc, ∃ kn, (kn, v) ∈ entries st ∧ text kn = "run"
  scalar : v.kind = .scalar

/-- `v` is the scalar value of SOME pair whose key folds to `script` of SOME `with:` of a step of the document that has
SOME `uses:` whose text folds to `actions/github-script@…` -/
structure IsScriptInputAny (lower : String → String) (doc v : Node) : Prop where
  path : ∃ st ∈ docStepNodes doc,
    (∃ ku u, (ku, u) ∈ entries st ∧ text ku = "uses" ∧ (lower (text u)).startsWith "actions/github-script@" = true) ∧
    ∃ kw w, (kw, w) ∈ entries st ∧ text kw = "with" ∧ ∃ ks, (ks, v) ∈ entries w ∧ lower (text ks) = "script"
  scalar : v.kind = .scalar

theorem lookup_mem {n x : Node} {k : String} (h : lookup n k = some x) : ∃ kn, (kn, x) ∈ entries n ∧ text kn = k := by
  simp only [lookup, Option.map_eq_some_iff] at h
  obtain ⟨p, hp, rfl⟩ := h
  exact ⟨p.1, List.mem_of_find?_eq_some hp, by simpa using List.find?_some hp⟩

theorem lookupFolded_mem {lower : String → String} {n x : Node} {k : String} (h : lookupFolded lower n k = some x) :
    ∃ kn, (kn, x) ∈ entries n ∧ lower (text kn) = k := by
  simp only [lookupFolded, Option.map_eq_some_iff] at h
  obtain ⟨p, hp, rfl⟩ := h
  exact ⟨p.1, List.mem_of_find?_eq_some hp, by simpa using List.find?_some hp⟩

/-- the first occurrence is an occurrence -/
theorem IsStepRun.any {doc v : Node} (h : IsStepRun doc v) : IsStepRunAny doc v := by
  obtain ⟨⟨st, hst, hx⟩, hs⟩ := h
  exact ⟨⟨st, hst, lookup_mem hx⟩, hs⟩

theorem IsScriptInput.any {lower : String → String} {doc v : Node} (h : IsScriptInput lower doc v) :
    IsScriptInputAny lower doc v := by
  obtain ⟨⟨st, hst, hg, w, hw, hx⟩, hs⟩ := h
  refine ⟨⟨st, hst, ?_, ?_⟩, hs⟩
  · simp only [isGithubScriptStep] at hg
    cases hu : lookup st "uses" with
    | none => rw [hu] at hg; cases hg
    | some u =>
      rw [hu] at hg
      obtain ⟨ku, hm, hk⟩ := lookup_mem hu
      exact ⟨ku, u, hm, hk, hg⟩
  · obtain ⟨kw, hm, hk⟩ := lookup_mem hw
    exact ⟨kw, w, hm, hk, lookupFolded_mem hx⟩

/-- **in an accepted document every occurrence is the first**: a `run:` scalar -/
theorem isStepRun_of_any (cfg : Cfg) (doc v : Node) (h : IsStepRunAny doc v) (hc : (parse cfg doc).2 = []) :
    IsStepRun doc v := by
  obtain ⟨⟨st, hst, kn, hm, hk⟩, hs⟩ := h
  obtain ⟨hmap, _⟩ := AL.C05D.parseStep_clean cfg st (doc_steps_clean cfg doc hc st hst)
  have := lookup_of_mem_clean cfg _ st hmap (kn, v) hm
  rw [hk] at this
  exact ⟨⟨st, hst, this⟩, hs⟩

/-- … the `script` input of an `actions/github-script` step -/
theorem isScriptInput_of_any (cfg : Cfg) (doc v : Node) (h : IsScriptInputAny cfg.lower doc v) (hc : (parse cfg doc).2 = []) :
    IsScriptInput cfg.lower doc v := by
  obtain ⟨⟨st, hst, ⟨ku, u, hum, huk, hus⟩, kw, w, hwm, hwk, ks, hsm, hsk⟩, hs⟩ := h
  have hstep := doc_steps_clean cfg doc hc st hst
  obtain ⟨hmap, _⟩ := AL.C05D.parseStep_clean cfg st hstep
  have hu := lookup_of_mem_clean cfg _ st hmap (ku, u) hum
  have hw := lookup_of_mem_clean cfg _ st hmap (kw, w) hwm
  rw [huk] at hu
  rw [hwk] at hw
  have hin := parseStep_inputs_clean cfg st hstep
  rw [hw] at hin
  have hx := lookupFolded_of_mem_clean cfg _ w hin.2.1 (ks, v) hsm
  rw [hsk] at hx
  exact ⟨⟨st, hst, by simp [isGithubScriptStep, hu, hus], w, hw, hx⟩, hs⟩

/-- **in EVERY document**: `${{ github.event.issue.title }}` under ANY `run:` key of a step is reported at that scalar, or
the parser reports a syntax diagnostic -/
theorem run_title_in_document_reported_any (cfg : Cfg) (hl : KeepsTitle cfg.lower) (isNum : IsNumber) (proj : ProjView)
    (doc v : Node) (h : IsStepRunAny doc v) (hval : v.value = "${{ github.event.issue.title }}") :
    (parse cfg doc).2 ≠ [] ∨
      (⟨v.pos, "untrusted", ["github.event.issue.title"]⟩ : Diag) ∈ rule cfg.lower isNum (parse cfg doc).1 proj :=
  or_of_clean fun hc =>
    (run_title_in_document_reported cfg hl isNum proj doc v (isStepRun_of_any cfg doc v h hc) hval).resolve_left fun e => e hc

/-- the same for the `script` input -/
theorem script_title_in_document_reported_any (cfg : Cfg) (hl : KeepsTitle cfg.lower) (isNum : IsNumber) (proj : ProjView)
    (doc v : Node) (h : IsScriptInputAny cfg.lower doc v) (hval : v.value = "${{ github.event.issue.title }}") :
    (parse cfg doc).2 ≠ [] ∨
      (⟨v.pos, "untrusted", ["github.event.issue.title"]⟩ : Diag) ∈ rule cfg.lower isNum (parse cfg doc).1 proj :=
  or_of_clean fun hc =>
    (script_title_in_document_reported cfg hl isNum proj doc v (isScriptInput_of_any cfg doc v h hc) hval).resolve_left
      fun e => e hc

/-- any script scalar in the wide sense with an untrusted input under its key -/
theorem untrusted_in_any_run_reported (cfg : Cfg) (isNum : IsNumber) (proj : ProjView) (doc v : Node)
    (h : IsStepRunAny doc v) (hu : UntrustedUnderL cfg.lower "jobs.<job_id>.steps.run" v.value) :
    (parse cfg doc).2 ≠ [] ∨ ∃ d ∈ rule cfg.lower isNum (parse cfg doc).1 proj, isUntrusted d ∧ d.site = v.pos :=
  or_of_clean fun hc =>
    untrusted_in_script_scalar_reported_clean cfg isNum proj doc v _
      ((stepRun_iff cfg.lower doc v).2 (isStepRun_of_any cfg doc v h hc)) hu hc

theorem untrusted_in_any_script_input_reported (cfg : Cfg) (isNum : IsNumber) (proj : ProjView) (doc v : Node)
    (h : IsScriptInputAny cfg.lower doc v) (hu : UntrustedUnderL cfg.lower "jobs.<job_id>.steps.with" v.value) :
    (parse cfg doc).2 ≠ [] ∨ ∃ d ∈ rule cfg.lower isNum (parse cfg doc).1 proj, isUntrusted d ∧ d.site = v.pos :=
  or_of_clean fun hc =>
    untrusted_in_script_scalar_reported_clean cfg isNum proj doc v _
      ((scriptInput_iff cfg.lower doc v).2 (isScriptInput_of_any cfg doc v h hc)) hu hc

/-! ## 4. precision to the document -/

theorem bytesOf_empty : bytesOf "" = [] := by decide +kernel

/-- the scan of the empty text yields nothing -/
theorem checkExprsIn_empty (cx : Cx) (key : String) (u : Bool) : (checkExprsIn cx key u "").2 = [] := by
  simp [checkExprsIn, bytesOf_empty, scan]

theorem stepsScans_mem : ∀ (steps : List Step) (cx : Cx) (d : Diag), d ∈ stepsScans cx steps →
    ∃ st ∈ steps, ∃ cx' : Cx, ∃ p ∈ execScriptKStrs cx.lower st.exec, d ∈ scanU cx' p
  | [], _, d, h => by cases h
  | st :: rest, cx, d, h => by
    simp only [stepsScans, List.mem_append, List.mem_flatMap] at h
    rcases h with ⟨p, hp, hd⟩ | h
    · exact ⟨st, List.mem_cons_self .., cx, p, hp, hd⟩
    · obtain ⟨st', hst', cx', p, hp, hd⟩ := stepsScans_mem rest _ d h
      rw [AL.C12R.visitStep_lower] at hp
      exact ⟨st', List.mem_cons_of_mem _ hst', cx', p, hp, hd⟩

/-- AST level, sharpening `AL.C11R.untrusted_only_in_scripts`: an untrusted-input diagnostic is located at a script
string THAT HAS A TEXT (it comes out of the scan of that text) — and carries the key of that string's position -/
theorem untrusted_at_script_with_text (lower : String → String) (isNum : IsNumber) (w : Workflow) (proj : ProjView) :
    ∀ d ∈ rule lower isNum w proj, isUntrusted d →
      ∃ s key, (s, key) ∈ scriptKStrs lower w ∧ d.site = s.pos ∧ s.value ≠ "" := by
  intro d hd hu
  have hm : d ∈ uf (rule lower isNum w proj) := mem_uf.2 ⟨hd, hu⟩
  rw [rule_untrusted_exact] at hm
  obtain ⟨kv, hkv, hm⟩ := List.mem_flatMap.1 hm
  obtain ⟨st, hst, cx', p, hp, hdp⟩ := stepsScans_mem _ _ d hm
  have hlow : (AL.C05S.jobCxS (AL.C05S.ruleCx lower proj w) isNum (w.jobs.getD []) kv.2).lower = lower := by
    rw [(AL.C05S.jobCxS_scope _ isNum _ kv.2).2.2.2.2.1]
    exact AL.C12R.visitEvents_lower _ _
  rw [hlow] at hp
  obtain ⟨s, key⟩ := p
  refine ⟨s, key, job_script_keyed (id := kv.1) (j := kv.2) hkv hst hp, ?_⟩
  simp only [scanU, mem_uf, RuleExpr.at_, List.mem_map] at hdp
  obtain ⟨⟨e, he, rfl⟩, _⟩ := hdp
  refine ⟨rfl, ?_⟩
  intro h0
  rw [h0, checkExprsIn_empty] at he
  cases he

/-- **C11, precision to the document (keyed form).** For EVERY document — accepted by the parser or not —, every
configuration of the parser, every number test and project view: a diagnostic of the expression rule with the code of the
untrusted-input check sits at the position of a node of the document that IS a script scalar (and the rule had the key of
that scalar's position in hand). -/
theorem untrusted_only_at_script_scalars_keyed (cfg : Cfg) (isNum : IsNumber) (proj : ProjView) (doc : Node) :
    ∀ d ∈ rule cfg.lower isNum (parse cfg doc).1 proj, isUntrusted d →
      ∃ v key, (v, key) ∈ scriptKScalars cfg.lower doc ∧ d.site = v.pos := by
  intro d hd hu
  obtain ⟨s, key, hs, hsite, hne⟩ := untrusted_at_script_with_text cfg.lower isNum (parse cfg doc).1 proj d hd hu
  obtain ⟨v, hv, rfl⟩ := script_string_from_script_scalar cfg doc s key hs hne
  exact ⟨v, key, hv, hsite⟩

/-- **C11, precision to the document.** For EVERY document — no clean-parse hypothesis —: every untrusted-input diagnostic
of the expression rule on the parsed document sits at a script scalar of the document: the scalar under `run:` of a step,
or under the `script` key of `with:` of an `actions/github-script` step. Nothing is reported for the same expression
under `env:`, under `with:` of another action, in `if:`, `name:`, the matrix, `on:` …, whatever the text there. -/
theorem untrusted_only_at_script_scalars (cfg : Cfg) (isNum : IsNumber) (proj : ProjView) (doc : Node) :
    ∀ d ∈ rule cfg.lower isNum (parse cfg doc).1 proj, isUntrusted d →
      ∃ v ∈ scriptScalars cfg.lower doc, d.site = v.pos := by
  intro d hd hu
  obtain ⟨v, key, hv, hsite⟩ := untrusted_only_at_script_scalars_keyed cfg isNum proj doc d hd hu
  exact ⟨v, mem_scriptScalars.2 ⟨key, hv⟩, hsite⟩

/-- … which is a `run:` scalar or the `script` input of an `actions/github-script` step -/
theorem untrusted_only_at_run_or_script (cfg : Cfg) (isNum : IsNumber) (proj : ProjView) (doc : Node) :
    ∀ d ∈ rule cfg.lower isNum (parse cfg doc).1 proj, isUntrusted d →
      ∃ v, (IsStepRun doc v ∨ IsScriptInput cfg.lower doc v) ∧ d.site = v.pos := by
  intro d hd hu
  obtain ⟨v, hv, hsite⟩ := untrusted_only_at_script_scalars cfg isNum proj doc d hd hu
  exact ⟨v, (scriptScalars_kinds cfg.lower doc v).1 hv, hsite⟩

/-- a document without script scalars (no `run:`, no `actions/github-script` step with a `script` input) has no
untrusted-input diagnostic at all — whatever it contains elsewhere, whether the parser accepts it or not -/
theorem no_script_scalar_no_untrusted (cfg : Cfg) (isNum : IsNumber) (proj : ProjView) (doc : Node)
    (h : scriptScalars cfg.lower doc = []) : NoU (rule cfg.lower isNum (parse cfg doc).1 proj) := by
  intro d hd hu
  obtain ⟨v, hv, _⟩ := untrusted_only_at_script_scalars cfg isNum proj doc d hd hu
  rw [h] at hv
  cases hv

/-- **both halves in one statement, for an accepted document**: the positions of the untrusted-input diagnostics are
positions of script scalars, and every script scalar whose text has an untrusted input under its key has one -/
theorem doc_untrusted_exact_sites (cfg : Cfg) (isNum : IsNumber) (proj : ProjView) (doc : Node)
    (hc : (parse cfg doc).2 = []) :
    (∀ d ∈ rule cfg.lower isNum (parse cfg doc).1 proj, isUntrusted d → ∃ v ∈ scriptScalars cfg.lower doc, d.site = v.pos) ∧
    (∀ v key, (v, key) ∈ scriptKScalars cfg.lower doc → UntrustedUnderL cfg.lower key v.value →
      ∃ d ∈ rule cfg.lower isNum (parse cfg doc).1 proj, isUntrusted d ∧ d.site = v.pos) :=
  ⟨untrusted_only_at_script_scalars cfg isNum proj doc,
   fun v key hv hu => untrusted_in_script_scalar_reported_clean cfg isNum proj doc v key hv hu hc⟩

/-! ## 5. a concrete document -/

section Examples

/-- the text of the examples: a documented untrusted input -/
def exTitle : String := "${{ github.event.issue.title }}"

/-- the first step: `run:` and `env:` -/
def exStep1 : Node :=
  mp 6 9 [key "run" 6 9, sc "!!str" exTitle 6 14, key "env" 7 9, mp 8 11 [key "T" 8 11, sc "!!str" exTitle 8 14]]

def exWith2 : Node := mp 11 11 [key "Script" 11 11, sc "!!str" exTitle 11 19]

/-- the second step: `Actions/GitHub-Script@v7` with a `Script:` input -/
def exStep2 : Node := mp 9 9 [key "uses" 9 9, sc "!!str" "Actions/GitHub-Script@v7" 9 15, key "with" 10 9, exWith2]

/-- the third step: another action -/
def exStep3 : Node :=
  mp 12 9 [key "uses" 12 9, sc "!!str" "actions/checkout@v4" 12 15, key "with" 13 9, mp 14 11 [key "ref" 14 11, sc "!!str" exTitle 14 16]]

/-- the job `build` and the node under `jobs:` -/
def exJob : Node := mp 4 5 [key "runs-on" 4 5, sc "!!str" "ubuntu-latest" 4 14, key "steps" 5 5, sq 6 7 [exStep1, exStep2, exStep3]]
def exJobs : Node := mp 3 3 [key "build" 3 3, exJob]

/--
```
on: push
jobs:
  build:
    runs-on: ubuntu-latest
    steps:
      - run: ${{ github.event.issue.title }}
        env:
          T: ${{ github.event.issue.title }}
      - uses: Actions/GitHub-Script@v7
        with:
          Script: ${{ github.event.issue.title }}
      - uses: actions/checkout@v4
        with:
          ref: ${{ github.event.issue.title }}
```
the SAME text four times: in `run:` (6:14), in `env:` of that step (8:14), as the `Script:` input of
`Actions/GitHub-Script@v7` (11:19; action name and key in another letter case), in `with:` of another action (14:16) -/
def exDoc : Node :=
  .mk .document "" "" false 1 1 [mp 1 1 [key "on" 1 1, sc "!!str" "push" 1 5, key "jobs" 2 1, exJobs]]

/-- the parser accepts the document silently -/
theorem exDoc_clean : (parse exCfg exDoc).2 = [] := by decide +kernel

/-- the four occurrences are value scalars of the document, with the keys of their positions -/
theorem exDoc_keyed : keyedScalars exDoc =
    [(sc "!!str" "ubuntu-latest" 4 14, "jobs.<job_id>.runs-on"),
     (sc "!!str" exTitle 6 14, "jobs.<job_id>.steps.run"),
     (sc "!!str" exTitle 8 14, "jobs.<job_id>.steps.env"),
     (sc "!!str" "Actions/GitHub-Script@v7" 9 15, ""),
     (sc "!!str" exTitle 11 19, "jobs.<job_id>.steps.with"),
     (sc "!!str" "actions/checkout@v4" 12 15, ""),
     (sc "!!str" exTitle 14 16, "jobs.<job_id>.steps.with")] := rfl

theorem exDoc_steps : docStepNodes exDoc = [exStep1, exStep2, exStep3] := rfl

theorem exStep1_scripts (lower : String → String) :
    stepScriptKNodes lower exStep1 = [(sc "!!str" exTitle 6 14, "jobs.<job_id>.steps.run")] := rfl

/-- `Actions/GitHub-Script@v7` folds to `actions/github-script@v7` -/
theorem exStep2_githubScript : isGithubScriptStep asciiLower exStep2 = true := by decide +kernel

/-- the key `Script` folds to `script` -/
theorem exWith2_script : lookupFolded asciiLower exWith2 "script" = some (sc "!!str" exTitle 11 19) := by
  simp [lookupFolded, entries, exWith2, mp, key, sc, Node.kind, Node.content, Node.value, pairs, text,
    show asciiLower "Script" = "script" from by decide +kernel]

theorem exStep2_scripts : stepScriptKNodes asciiLower exStep2 = [(sc "!!str" exTitle 11 19, "jobs.<job_id>.steps.with")] := by
  have hw : lookup exStep2 "with" = some exWith2 := rfl
  have hr : lookup exStep2 "run" = none := rfl
  simp [stepScriptKNodes, stepRunNodes, stepScriptInputNodes, exStep2_githubScript, hw, exWith2_script, hr]

theorem exStep3_not_githubScript : isGithubScriptStep asciiLower exStep3 = false := by decide +kernel

theorem exStep3_scripts : stepScriptKNodes asciiLower exStep3 = [] := by
  have hr : lookup exStep3 "run" = none := rfl
  simp [stepScriptKNodes, stepRunNodes, stepScriptInputNodes, exStep3_not_githubScript, hr]

/-- **two of the four are script scalars**: the `run:` and the `Script:` of `Actions/GitHub-Script@v7` — not the `env:`
value, not the `ref:` of `actions/checkout@v4` (which has the same workflow key as the `Script:`) -/
theorem exDoc_scripts : scriptKScalars exCfg.lower exDoc =
    [(sc "!!str" exTitle 6 14, "jobs.<job_id>.steps.run"), (sc "!!str" exTitle 11 19, "jobs.<job_id>.steps.with")] := by
  show scriptKScalars asciiLower exDoc = _
  simp only [scriptKScalars, scriptKNodes, exDoc_steps, List.flatMap_cons, List.flatMap_nil, exStep1_scripts, exStep2_scripts,
    exStep3_scripts]
  rfl

/-- … and the parsed AST holds exactly these two as script strings (`script_strs_are_script_scalars`) -/
theorem exDoc_scriptKStrs : scriptKStrs asciiLower (parse exCfg exDoc).1 =
    [(⟨exTitle, false, ⟨6, 14⟩⟩, "jobs.<job_id>.steps.run"), (⟨exTitle, false, ⟨11, 19⟩⟩, "jobs.<job_id>.steps.with")] := by
  have := (script_strs_are_script_scalars exCfg exDoc exDoc_clean).1
  rw [exDoc_scripts] at this
  exact this

theorem exDoc_isStepRun : IsStepRun exDoc (sc "!!str" exTitle 6 14) :=
  ⟨⟨exStep1, by rw [exDoc_steps]; simp, rfl⟩, rfl⟩

theorem exDoc_isScriptInput : IsScriptInput asciiLower exDoc (sc "!!str" exTitle 11 19) :=
  ⟨⟨exStep2, by rw [exDoc_steps]; simp, exStep2_githubScript, exWith2, rfl, exWith2_script⟩, rfl⟩

/-- **reported in `run:`** (6:14), whatever the number test and the project's view -/
theorem exDoc_run_reported (isNum : IsNumber) (proj : ProjView) :
    (⟨⟨6, 14⟩, "untrusted", ["github.event.issue.title"]⟩ : Diag) ∈ rule asciiLower isNum (parse exCfg exDoc).1 proj :=
  (run_title_in_document_reported exCfg keepsTitle_asciiLower isNum proj exDoc _ exDoc_isStepRun rfl).resolve_left
    fun h => h exDoc_clean

/-- **reported in the `Script:` of `Actions/GitHub-Script@v7`** (11:19) -/
theorem exDoc_script_reported (isNum : IsNumber) (proj : ProjView) :
    (⟨⟨11, 19⟩, "untrusted", ["github.event.issue.title"]⟩ : Diag) ∈ rule asciiLower isNum (parse exCfg exDoc).1 proj :=
  (script_title_in_document_reported exCfg keepsTitle_asciiLower isNum proj exDoc _ exDoc_isScriptInput rfl).resolve_left
    fun h => h exDoc_clean

/-- **and nowhere else**: every untrusted-input diagnostic on the document sits at 6:14 or at 11:19 -/
theorem exDoc_only_there (isNum : IsNumber) (proj : ProjView) :
    ∀ d ∈ rule asciiLower isNum (parse exCfg exDoc).1 proj, isUntrusted d → d.site = ⟨6, 14⟩ ∨ d.site = ⟨11, 19⟩ := by
  intro d hd hu
  obtain ⟨v, key, hv, hsite⟩ := untrusted_only_at_script_scalars_keyed exCfg isNum proj exDoc d hd hu
  rw [exDoc_scripts] at hv
  simp only [List.mem_cons, Prod.mk.injEq, List.not_mem_nil, or_false] at hv
  rcases hv with ⟨rfl, _⟩ | ⟨rfl, _⟩
  · exact Or.inl hsite
  · exact Or.inr hsite

/-- **the same text under `env:` (8:14) and under `with:` of `actions/checkout@v4` (14:16) is NOT reported** — both are
value scalars of the document (the second under the very key of the `Script:` input) -/
theorem exDoc_env_and_other_with_not_reported (isNum : IsNumber) (proj : ProjView) :
    (sc "!!str" exTitle 8 14, "jobs.<job_id>.steps.env") ∈ keyedScalars exDoc ∧
    (sc "!!str" exTitle 14 16, "jobs.<job_id>.steps.with") ∈ keyedScalars exDoc ∧
    ∀ d ∈ rule asciiLower isNum (parse exCfg exDoc).1 proj, isUntrusted d → d.site ≠ ⟨8, 14⟩ ∧ d.site ≠ ⟨14, 16⟩ := by
  refine ⟨by rw [exDoc_keyed]; simp, by rw [exDoc_keyed]; simp, ?_⟩
  intro d hd hu
  rcases exDoc_only_there isNum proj d hd hu with h | h <;> rw [h] <;> exact ⟨by decide, by decide⟩

/-! ### a document the parser complains about: why "or the parser reports", and precision without a clean parse -/

def exBad1 : Node := mp 6 9 [key "uses" 6 9, sc "!!str" "actions/checkout@v4" 6 15, key "run" 7 9, sc "!!str" exTitle 7 14]
def exBad2 : Node := mp 8 9 [key "run" 8 9, sc "!!str" exTitle 8 14]
def exBad3 : Node := mp 9 9 [key "run" 9 9, sq 9 14 [sc "!!str" "x" 9 15]]

/--
```
on: push
jobs:
  build:
    runs-on: ubuntu-latest
    steps:
      - uses: actions/checkout@v4
        run: ${{ github.event.issue.title }}
      - run: ${{ github.event.issue.title }}
      - run: [x]
```
the `run:` of the first step (7:14) is refused (the step runs an action); the third step's `run:` is a sequence -/
def exBad : Node :=
  .mk .document "" "" false 1 1 [mp 1 1 [key "on" 1 1, sc "!!str" "push" 1 5,
    key "jobs" 2 1, mp 3 3 [key "build" 3 3, mp 4 5 [key "runs-on" 4 5, sc "!!str" "ubuntu-latest" 4 14,
      key "steps" 5 5, sq 6 7 [exBad1, exBad2, exBad3]]]]]

/-- the parser reports: the refused `run:` key and the sequence -/
theorem exBad_errors : (parse exCfg exBad).2 =
    [⟨⟨7, 9⟩, "step-action-but-run-key", ["run"]⟩, ⟨⟨9, 14⟩, "not-scalar-string", ["sequence", "!!seq"]⟩] := by decide +kernel

/-- the walk: the nodes under the three `run:` keys are the script NODES of the document … -/
theorem exBad_nodes (lower : String → String) : scriptKNodes lower exBad =
    [(sc "!!str" exTitle 7 14, "jobs.<job_id>.steps.run"), (sc "!!str" exTitle 8 14, "jobs.<job_id>.steps.run"),
     (sq 9 14 [sc "!!str" "x" 9 15], "jobs.<job_id>.steps.run")] := by
  have hs : docStepNodes exBad = [exBad1, exBad2, exBad3] := rfl
  have h1 : stepScriptKNodes lower exBad1 = [(sc "!!str" exTitle 7 14, "jobs.<job_id>.steps.run")] := by
    simp [stepScriptKNodes, stepRunNodes, stepScriptInputNodes, show lookup exBad1 "run" = some (sc "!!str" exTitle 7 14) from rfl,
      show lookup exBad1 "with" = none from rfl]
  have h2 : stepScriptKNodes lower exBad2 = [(sc "!!str" exTitle 8 14, "jobs.<job_id>.steps.run")] := rfl
  have h3 : stepScriptKNodes lower exBad3 = [(sq 9 14 [sc "!!str" "x" 9 15], "jobs.<job_id>.steps.run")] := rfl
  simp only [scriptKNodes, hs, List.flatMap_cons, List.flatMap_nil, h1, h2, h3]
  rfl

/-- … the two scalars among them its script scalars -/
theorem exBad_scripts (lower : String → String) : scriptKScalars lower exBad =
    [(sc "!!str" exTitle 7 14, "jobs.<job_id>.steps.run"), (sc "!!str" exTitle 8 14, "jobs.<job_id>.steps.run")] := by
  rw [scriptKScalars, exBad_nodes]
  rfl

/-- the AST: the refused script is not stored; the sequence left the placeholder (no text) at its position -/
theorem exBad_scriptKStrs : scriptKStrs asciiLower (parse exCfg exBad).1 =
    [(⟨exTitle, false, ⟨8, 14⟩⟩, "jobs.<job_id>.steps.run"), (⟨"", false, ⟨9, 14⟩⟩, "jobs.<job_id>.steps.run")] := by
  decide +kernel

/-- **first disjunct of `untrusted_in_script_scalar_reported`, and it is needed**: the script scalar at 7:14 has the
untrusted input, the parser reports, and NO untrusted-input diagnostic sits there — the one at 8:14 is reported all the
same, and (precision, no clean parse) nothing sits anywhere else -/
theorem exBad_refused_run_not_reported (isNum : IsNumber) (proj : ProjView) :
    (sc "!!str" exTitle 7 14, "jobs.<job_id>.steps.run") ∈ scriptKScalars asciiLower exBad ∧
    (parse exCfg exBad).2 ≠ [] ∧
    (⟨⟨8, 14⟩, "untrusted", ["github.event.issue.title"]⟩ : Diag) ∈ rule asciiLower isNum (parse exCfg exBad).1 proj ∧
    ∀ d ∈ rule asciiLower isNum (parse exCfg exBad).1 proj, isUntrusted d → d.site = ⟨8, 14⟩ := by
  refine ⟨by rw [exBad_scripts]; simp, by rw [exBad_errors]; simp, ?_, ?_⟩
  · obtain ⟨cx, h1, _, h3⟩ := script_scanned_with_flag_on asciiLower isNum (parse exCfg exBad).1 proj
      ⟨exTitle, false, ⟨8, 14⟩⟩ "jobs.<job_id>.steps.run" (by rw [exBad_scriptKStrs]; simp)
    refine h3 (err "untrusted" ["github.event.issue.title"]) ?_
    show _ ∈ (checkExprsIn cx _ true "${{ github.event.issue.title }}").2
    rw [title_scan cx (h1 ▸ keepsTitle_asciiLower)]
    exact List.mem_append_right _ (List.mem_singleton.2 rfl)
  · intro d hd hu
    obtain ⟨s, key, hs, hsite, hne⟩ := untrusted_at_script_with_text asciiLower isNum (parse exCfg exBad).1 proj d hd hu
    rw [exBad_scriptKStrs] at hs
    simp only [List.mem_cons, Prod.mk.injEq, List.not_mem_nil, or_false] at hs
    rcases hs with ⟨rfl, _⟩ | ⟨rfl, _⟩
    · exact hsite
    · exact absurd rfl hne

/--
```
on: push
jobs:
  build:
    runs-on: ubuntu-latest
    steps:
      - uses: actions/checkout@v4
        with:
          ref: ${{ github.event.issue.title }}
```
no script scalar at all -/
def exNone : Node :=
  .mk .document "" "" false 1 1 [mp 1 1 [key "on" 1 1, sc "!!str" "push" 1 5,
    key "jobs" 2 1, mp 3 3 [key "build" 3 3, mp 4 5 [key "runs-on" 4 5, sc "!!str" "ubuntu-latest" 4 14,
      key "steps" 5 5, sq 6 7 [exStep3]]]]]

theorem exNone_scripts : scriptScalars asciiLower exNone = [] := by
  have hs : docStepNodes exNone = [exStep3] := rfl
  simp [scriptScalars, scriptKScalars, scriptKNodes, hs, exStep3_scripts]

/-- `no_script_scalar_no_untrusted`: nothing is reported for the `ref:` -/
theorem exNone_clean_of_untrusted (isNum : IsNumber) (proj : ProjView) :
    NoU (rule asciiLower isNum (parse exCfg exNone).1 proj) :=
  no_script_scalar_no_untrusted exCfg isNum proj exNone exNone_scripts

/-! ## 6. instances of the theorems with hypotheses (none is vacuous) -/

example : exStep1 ∈ docStepNodes exDoc := by rw [exDoc_steps]; simp

/-- `entries_mem`, `elements_mem`, `lookup_some`, `lookupFolded_some` -/
example : exWith2.kind = .mapping ∧ (key "Script" 11 11, sc "!!str" exTitle 11 19) ∈ pairs exWith2.content :=
  entries_mem (n := exWith2) (List.mem_singleton.2 rfl)
example : (sq 6 7 [exStep1]).kind = .sequence ∧ exStep1 ∈ (sq 6 7 [exStep1]).content :=
  elements_mem (n := sq 6 7 [exStep1]) (List.mem_singleton.2 rfl)
example : exStep2.kind = .mapping ∧ ∃ kn, (kn, exWith2) ∈ pairs exStep2.content ∧ kn.kind = .scalar ∧ kn.value = "with" :=
  lookup_some (by decide) (rfl : lookup exStep2 "with" = some exWith2)
example : exWith2.kind = .mapping ∧ ∃ kn, (kn, sc "!!str" exTitle 11 19) ∈ pairs exWith2.content ∧ asciiLower (text kn) = "script" :=
  lookupFolded_some exWith2_script

/-- `step_keyed_in_doc`, `stepScriptK_keyed`: the `run:` of the first step, from the step to the document -/
example : (sc "!!str" exTitle 6 14, "jobs.<job_id>.steps.run") ∈ keyedScalars exDoc :=
  step_keyed_in_doc (by rw [exDoc_steps]; simp) _
    (stepScriptK_keyed (lower := asciiLower) (st := exStep1) (by rw [exStep1_scripts]; simp) rfl)

/-- `scriptKScalars_sub_keyedScalars`, `scriptScalars_sub_valueScalars`, `scriptKScalars_keys`, `scriptScalars_keyed` -/
example : ∀ p ∈ scriptKScalars asciiLower exDoc, p ∈ keyedScalars exDoc := scriptKScalars_sub_keyedScalars asciiLower exDoc
example : sc "!!str" exTitle 11 19 ∈ valueScalars exDoc :=
  scriptScalars_sub_valueScalars asciiLower exDoc _ (mem_scriptScalars.2 ⟨_, (scriptInput_iff _ _ _).2 exDoc_isScriptInput⟩)
example : "jobs.<job_id>.steps.with" = "jobs.<job_id>.steps.run" ∨ "jobs.<job_id>.steps.with" = "jobs.<job_id>.steps.with" :=
  scriptKScalars_keys asciiLower exDoc (sc "!!str" exTitle 11 19) _ ((scriptInput_iff _ _ _).2 exDoc_isScriptInput)
example : (sc "!!str" exTitle 6 14, "jobs.<job_id>.steps.run") ∈ keyedScalars exDoc ∨
    (sc "!!str" exTitle 6 14, "jobs.<job_id>.steps.with") ∈ keyedScalars exDoc :=
  scriptScalars_keyed asciiLower exDoc _ (mem_scriptScalars.2 ⟨_, (stepRun_iff asciiLower _ _).2 exDoc_isStepRun⟩)

/-- `script_scalar_parsed_clean`, `script_scalar_parsed` (second disjunct), `script_scalar_parsed'` -/
example : (⟨exTitle, false, ⟨11, 19⟩⟩, "jobs.<job_id>.steps.with") ∈ scriptKStrs asciiLower (parse exCfg exDoc).1 :=
  script_scalar_parsed_clean exCfg exDoc (sc "!!str" exTitle 11 19) _ ((scriptInput_iff _ _ _).2 exDoc_isScriptInput) exDoc_clean
example : ∃ s, (s, "jobs.<job_id>.steps.run") ∈ scriptKStrs asciiLower (parse exCfg exDoc).1 ∧ s.value = exTitle ∧ s.pos = ⟨6, 14⟩ :=
  (script_scalar_parsed exCfg exDoc (sc "!!str" exTitle 6 14) _ ((stepRun_iff asciiLower _ _).2 exDoc_isStepRun)).resolve_left
    fun h => h exDoc_clean
example : ∃ s ∈ scriptStrs asciiLower (parse exCfg exDoc).1, s.value = exTitle ∧ s.pos = ⟨6, 14⟩ :=
  (script_scalar_parsed' exCfg exDoc (sc "!!str" exTitle 6 14)
    (mem_scriptScalars.2 ⟨_, (stepRun_iff asciiLower _ _).2 exDoc_isStepRun⟩)).resolve_left fun h => h exDoc_clean

/-- `script_scalar_parsed`, first disjunct: the refused `run:` of `exBad` is a script scalar and not a script string -/
example : (sc "!!str" exTitle 7 14, "jobs.<job_id>.steps.run") ∈ scriptKScalars asciiLower exBad ∧ (parse exCfg exBad).2 ≠ [] ∧
    ¬ ∃ s, (s, "jobs.<job_id>.steps.run") ∈ scriptKStrs asciiLower (parse exCfg exBad).1 ∧ s.pos = ⟨7, 14⟩ := by
  refine ⟨by rw [exBad_scripts]; simp, by rw [exBad_errors]; simp, ?_⟩
  rw [exBad_scriptKStrs]
  simp

/-- `script_string_from_script_scalar` without a clean parse: the stored script of `exBad` is the script scalar at 8:14 -/
example : ∃ v, (v, "jobs.<job_id>.steps.run") ∈ scriptKScalars asciiLower exBad ∧ (⟨exTitle, false, ⟨8, 14⟩⟩ : Str) = newString v :=
  script_string_from_script_scalar exCfg exBad _ _
    (by show (_, _) ∈ scriptKStrs asciiLower _; rw [exBad_scriptKStrs]; simp) (by decide)

/-- `script_string_at_script_node`: the placeholder sits at the sequence, a script NODE that is not a scalar -/
example : ∃ x, (x, "jobs.<job_id>.steps.run") ∈ scriptKNodes asciiLower exBad ∧ (⟨9, 14⟩ : Yaml.Pos) = x.pos ∧ "" = text x :=
  script_string_at_script_node exCfg exBad ⟨"", false, ⟨9, 14⟩⟩ _
    (by show (_, _) ∈ scriptKStrs asciiLower _; rw [exBad_scriptKStrs]; simp)

/-- `script_scalar_scanned`, `untrusted_in_script_scalar_reported`, `…_clean`, `title_at_script_scalar_reported` on `exDoc` -/
example (isNum : IsNumber) (proj : ProjView) :
    ScannedOn asciiLower proj (rule asciiLower isNum (parse exCfg exDoc).1 proj) ⟨exTitle, false, ⟨6, 14⟩⟩ "jobs.<job_id>.steps.run" :=
  (script_scalar_scanned exCfg isNum proj exDoc (sc "!!str" exTitle 6 14) _ ((stepRun_iff asciiLower _ _).2 exDoc_isStepRun)).resolve_left
    fun h => h exDoc_clean
example (isNum : IsNumber) (proj : ProjView) :
    ∃ d ∈ rule asciiLower isNum (parse exCfg exDoc).1 proj, isUntrusted d ∧ d.site = ⟨11, 19⟩ :=
  (untrusted_in_script_scalar_reported exCfg isNum proj exDoc (sc "!!str" exTitle 11 19) _
    ((scriptInput_iff _ _ _).2 exDoc_isScriptInput) (title_untrusted _ keepsTitle_asciiLower _)).resolve_left fun h => h exDoc_clean
example (isNum : IsNumber) (proj : ProjView) :
    ∃ d ∈ rule asciiLower isNum (parse exCfg exDoc).1 proj, isUntrusted d ∧ d.site = ⟨6, 14⟩ :=
  untrusted_in_script_scalar_reported_clean exCfg isNum proj exDoc (sc "!!str" exTitle 6 14) _
    ((stepRun_iff asciiLower _ _).2 exDoc_isStepRun) (title_untrusted _ keepsTitle_asciiLower _) exDoc_clean
example (isNum : IsNumber) (proj : ProjView) :
    (⟨⟨6, 14⟩, "untrusted", ["github.event.issue.title"]⟩ : Diag) ∈ rule asciiLower isNum (parse exCfg exDoc).1 proj :=
  (title_at_script_scalar_reported exCfg keepsTitle_asciiLower isNum proj exDoc (sc "!!str" exTitle 6 14) _
    ((stepRun_iff asciiLower _ _).2 exDoc_isStepRun) rfl).resolve_left fun h => h exDoc_clean

/-- `untrusted_at_script_with_text`, `untrusted_only_at_script_scalars(_keyed)`, `untrusted_only_at_run_or_script`,
`doc_untrusted_exact_sites` on the diagnostic at 11:19 of `exDoc` -/
example (isNum : IsNumber) (proj : ProjView) :
    ∃ s key, (s, key) ∈ scriptKStrs asciiLower (parse exCfg exDoc).1 ∧ (⟨11, 19⟩ : Yaml.Pos) = s.pos ∧ s.value ≠ "" :=
  untrusted_at_script_with_text asciiLower isNum _ proj _ (exDoc_script_reported isNum proj) rfl
example (isNum : IsNumber) (proj : ProjView) :
    ∃ v key, (v, key) ∈ scriptKScalars asciiLower exDoc ∧ (⟨11, 19⟩ : Yaml.Pos) = v.pos :=
  untrusted_only_at_script_scalars_keyed exCfg isNum proj exDoc _ (exDoc_script_reported isNum proj) rfl
example (isNum : IsNumber) (proj : ProjView) : ∃ v ∈ scriptScalars asciiLower exDoc, (⟨11, 19⟩ : Yaml.Pos) = v.pos :=
  untrusted_only_at_script_scalars exCfg isNum proj exDoc _ (exDoc_script_reported isNum proj) rfl
example (isNum : IsNumber) (proj : ProjView) :
    ∃ v, (IsStepRun exDoc v ∨ IsScriptInput asciiLower exDoc v) ∧ (⟨6, 14⟩ : Yaml.Pos) = v.pos :=
  untrusted_only_at_run_or_script exCfg isNum proj exDoc _ (exDoc_run_reported isNum proj) rfl
example (isNum : IsNumber) (proj : ProjView) :=
  doc_untrusted_exact_sites exCfg isNum proj exDoc exDoc_clean

/-- the lemma files on the steps of `exDoc`: the three fields of the parsed second step, and the exact lists -/
example : (parseStep exCfg exStep2).2 = [] := by decide +kernel
example : usesOf (parseStep exCfg exStep2).1 = some ⟨"Actions/GitHub-Script@v7", false, ⟨9, 15⟩⟩ :=
  (parseStep_uses_clean exCfg exStep2 (by decide +kernel)).1
example : runOf (parseStep exCfg exStep1).1 = some ⟨exTitle, false, ⟨6, 14⟩⟩ :=
  (parseStep_run_clean exCfg exStep1 (by decide +kernel)).1
example : execScriptKStrs asciiLower (parseStep exCfg exStep2).1.exec = [(⟨exTitle, false, ⟨11, 19⟩⟩, "jobs.<job_id>.steps.with")] := by
  have := (execScriptKStrs_clean exCfg exStep2 (by decide +kernel)).1
  rw [show exCfg.lower = asciiLower from rfl, exStep2_scripts] at this
  exact this
example : ∀ p ∈ execScriptKStrs asciiLower (parseStep exCfg exStep3).1.exec,
    ∃ q ∈ stepScriptKNodes asciiLower exStep3, p.2 = q.2 ∧ ∃ ae, p.1 = (parseString q.1 ae).1 :=
  execScriptKStrs_from_nodes exCfg exStep3

/-- "any occurrence": `IsStepRun.any`, `IsScriptInput.any`, `isStepRun_of_any`, `isScriptInput_of_any` and the four
theorems built on them, on `exDoc` -/
example : IsStepRunAny exDoc (sc "!!str" exTitle 6 14) := exDoc_isStepRun.any
example : IsScriptInputAny asciiLower exDoc (sc "!!str" exTitle 11 19) := exDoc_isScriptInput.any
example : IsStepRun exDoc (sc "!!str" exTitle 6 14) := isStepRun_of_any exCfg exDoc _ exDoc_isStepRun.any exDoc_clean
example : IsScriptInput asciiLower exDoc (sc "!!str" exTitle 11 19) :=
  isScriptInput_of_any exCfg exDoc _ exDoc_isScriptInput.any exDoc_clean
example (isNum : IsNumber) (proj : ProjView) :
    (⟨⟨6, 14⟩, "untrusted", ["github.event.issue.title"]⟩ : Diag) ∈ rule asciiLower isNum (parse exCfg exDoc).1 proj :=
  (run_title_in_document_reported_any exCfg keepsTitle_asciiLower isNum proj exDoc _ exDoc_isStepRun.any rfl).resolve_left
    fun h => h exDoc_clean
example (isNum : IsNumber) (proj : ProjView) :
    (⟨⟨11, 19⟩, "untrusted", ["github.event.issue.title"]⟩ : Diag) ∈ rule asciiLower isNum (parse exCfg exDoc).1 proj :=
  (script_title_in_document_reported_any exCfg keepsTitle_asciiLower isNum proj exDoc _ exDoc_isScriptInput.any rfl).resolve_left
    fun h => h exDoc_clean
example (isNum : IsNumber) (proj : ProjView) : ∃ d ∈ rule asciiLower isNum (parse exCfg exDoc).1 proj, isUntrusted d ∧ d.site = ⟨6, 14⟩ :=
  (untrusted_in_any_run_reported exCfg isNum proj exDoc _ exDoc_isStepRun.any
    (title_untrusted _ keepsTitle_asciiLower _)).resolve_left fun h => h exDoc_clean
example (isNum : IsNumber) (proj : ProjView) : ∃ d ∈ rule asciiLower isNum (parse exCfg exDoc).1 proj, isUntrusted d ∧ d.site = ⟨11, 19⟩ :=
  (untrusted_in_any_script_input_reported exCfg isNum proj exDoc _ exDoc_isScriptInput.any
    (title_untrusted _ keepsTitle_asciiLower _)).resolve_left fun h => h exDoc_clean

/--
```
on: push
jobs:
  build:
    runs-on: ubuntu-latest
    steps:
      - run: echo
        run: ${{ github.event.issue.title }}
```
a repeated key: the second `run:` (7:14) is a `run:` of the step in the wide sense, not the first one — the parser reports
the repetition (first disjunct), keeps the first, and nothing is reported for the second -/
def exDup : Node :=
  .mk .document "" "" false 1 1 [mp 1 1 [key "on" 1 1, sc "!!str" "push" 1 5,
    key "jobs" 2 1, mp 3 3 [key "build" 3 3, mp 4 5 [key "runs-on" 4 5, sc "!!str" "ubuntu-latest" 4 14,
      key "steps" 5 5, sq 6 7 [mp 6 9 [key "run" 6 9, sc "!!str" "echo" 6 14, key "run" 7 9, sc "!!str" exTitle 7 14]]]]]]

example (isNum : IsNumber) (proj : ProjView) :
    IsStepRunAny exDup (sc "!!str" exTitle 7 14) ∧ ¬ IsStepRun exDup (sc "!!str" exTitle 7 14) ∧
    (parse exCfg exDup).2 ≠ [] ∧
    ∀ d ∈ rule asciiLower isNum (parse exCfg exDup).1 proj, isUntrusted d → d.site ≠ ⟨7, 14⟩ := by
  have hs : docStepNodes exDup = [mp 6 9 [key "run" 6 9, sc "!!str" "echo" 6 14, key "run" 7 9, sc "!!str" exTitle 7 14]] := rfl
  have hk : scriptKStrs asciiLower (parse exCfg exDup).1 = [(⟨"echo", false, ⟨6, 14⟩⟩, "jobs.<job_id>.steps.run")] := by
    decide +kernel
  refine ⟨⟨⟨_, by rw [hs]; exact List.mem_singleton.2 rfl, key "run" 7 9, ?_, rfl⟩, rfl⟩, ?_, by decide +kernel, ?_⟩
  · simp [entries, mp, key, sc, Node.kind, Node.content, pairs]
  · rintro ⟨⟨st, hst, hx⟩, _⟩
    rw [hs, List.mem_singleton] at hst
    subst hst
    have : lookup (mp 6 9 [key "run" 6 9, sc "!!str" "echo" 6 14, key "run" 7 9, sc "!!str" exTitle 7 14]) "run" =
        some (sc "!!str" "echo" 6 14) := rfl
    rw [this] at hx
    simp [sc, exTitle] at hx
  · intro d hd hu
    obtain ⟨s, key, hs', hsite, _⟩ := untrusted_at_script_with_text asciiLower isNum _ proj d hd hu
    rw [hk] at hs'
    simp only [List.mem_singleton, Prod.mk.injEq] at hs'
    obtain ⟨rfl, _⟩ := hs'
    rw [hsite]
    decide

/-! the lemma files (AL/Lemmas/C11DBase.lean, C11DStep.lean, C11DJob.lean), each theorem with hypotheses on the nodes of `exDoc` -/

example : text (key "run" 6 9) = "run" := text_scalar rfl
example : text exStep1 = "" := text_not_scalar (by decide)
example : (key "run" 6 9).kind = .scalar ∧ text (key "run" 6 9) = (key "run" 6 9).value := text_ne_empty (by decide +kernel)
example : (sc "!!str" exTitle 6 14).kind = .scalar ∧ (parseString (sc "!!str" exTitle 6 14) false).1 = newString (sc "!!str" exTitle 6 14) :=
  parseString_of_value_ne _ false (by decide +kernel)
example := mappingLoop_find exCfg "w" true "run" (pairs exStep1.content) [] rfl
example := find?_of_mem_nodup (fun p : String × Nat => p.1) "b" [("a", 1), ("b", 2)] (by decide) ("b", 2) (by simp) rfl
example := filter_eq_find?_toList (fun p : String × Nat => p.1) "b" [("a", 1), ("b", 2)] (by decide)
example := loop_field_opt (stepKey exCfg) (fun st => runOf st.step) "run" (fun kv => some (parseString kv.val false).1)
  (fun st kv hne => AL.C05D.stepKey_run_ne exCfg st kv hne) (fun st kv he => stepKey_run_opt exCfg st kv he)
  [⟨"run", ⟨"run", false, ⟨6, 9⟩⟩, sc "!!str" exTitle 6 14⟩] { step := { pos := ⟨6, 9⟩ } }
example := sect_field_opt exCfg "w" exStep1 true (stepKey exCfg) { step := { pos := ⟨6, 9⟩ } } (fun st => runOf st.step) "run"
  (fun kv => some (parseString kv.val false).1) (fun st kv hne => AL.C05D.stepKey_run_ne exCfg st kv hne)
  (fun st kv he => stepKey_run_opt exCfg st kv he)
example := sect_field_find exCfg "w" exJob true (jobKey exCfg) { job := { id := ⟨"build", false, ⟨3, 3⟩⟩, pos := ⟨3, 3⟩ } }
  (fun st => st.job.steps) "steps" (fun kv => (parseSteps exCfg kv.val).1)
  (fun st kv hne => AL.C05D.jobKey_steps_ne exCfg st kv hne) (fun st kv he => (AL.C05D.jobKey_steps_eq exCfg st kv he).1)
example := mappingLoop_clean_keys exCfg "w" true (pairs exStep1.content) [] (by decide +kernel)
example := parseMapping_clean_keys exCfg "w" exStep1 true (by decide +kernel)
example : [1, 2].find? (fun a => a == 2) = [1, 2].find? (fun a => 1 < a) := find?_congr_mem (by decide)
example : lookup exStep1 "run" = AL.C05D.mget exStep1 "run" := lookup_eq_mget exCfg "w" exStep1 true (by decide +kernel) "run"
example : lookup exStep2 (text (key "with" 10 9)) = some exWith2 :=
  lookup_of_mem_clean exCfg "w" exStep2 (by decide +kernel) (key "with" 10 9, exWith2)
    (by simp [entries, exStep2, mp, Node.kind, Node.content, pairs])
example : lookupFolded asciiLower exWith2 (asciiLower (text (key "Script" 11 11))) = some (sc "!!str" exTitle 11 19) :=
  lookupFolded_of_mem_clean exCfg "w" exWith2 (by decide +kernel) (key "Script" 11 11, sc "!!str" exTitle 11 19)
    (List.mem_singleton.2 rfl)
example := find?_of_mem_clean exCfg "w" exWith2 false (by decide +kernel) (fun kn => asciiLower (text kn))
  (fun q hq => by
    have : q = (key "Script" 11 11, sc "!!str" exTitle 11 19) := List.mem_singleton.1 hq
    subst this
    rfl) (key "Script" 11 11, sc "!!str" exTitle 11 19) (List.mem_singleton.2 rfl)

private def kvRun : KV := ⟨"run", ⟨"run", false, ⟨6, 9⟩⟩, sc "!!str" exTitle 6 14⟩
private def kvUses : KV := ⟨"uses", ⟨"uses", false, ⟨9, 9⟩⟩, sc "!!str" "Actions/GitHub-Script@v7" 9 15⟩
private def kvWith : KV := ⟨"with", ⟨"with", false, ⟨10, 9⟩⟩, exWith2⟩
private def st0 : StepSt := { step := { pos := ⟨9, 9⟩ } }

example := stepKey_run_opt exCfg st0 kvRun rfl
example := stepKey_uses_ne exCfg st0 kvRun (by decide)
example := stepKey_uses_opt exCfg st0 kvUses rfl
example := stepKey_uses_eq exCfg st0 kvUses rfl (by decide +kernel)
example := stepKey_inputs_ne exCfg st0 kvUses (by decide)
example := stepKey_inputs_opt exCfg st0 kvWith rfl
example := stepKey_inputs_eq exCfg st0 kvWith rfl (by decide +kernel)
example := parseStep_inputs_clean exCfg exStep2 (by decide +kernel)
example : ∀ x, lookupFolded asciiLower exWith2 "script" = some x → x.kind = .scalar :=
  with_script_scalar exCfg exWith2 { inputs := some [] } (by decide +kernel)
example : [1, 2].flatMap (fun a => [a + 0]) = [1, 2].flatMap (fun a => [a]) := flatMap_congr_mem (by simp)
example : ∀ c ∈ jobStepNodes exJob, (parseStep exCfg c).2 = [] :=
  parseJob_steps_clean exCfg ⟨"build", false, ⟨3, 3⟩⟩ exJob (by decide +kernel)
example := parseJobs_clean_entries exCfg exJobs (by decide +kernel)
example := parse_jobs_clean exCfg exDoc exDoc_clean
example : ∀ c ∈ docStepNodes exDoc, (parseStep exCfg c).2 = [] := doc_steps_clean exCfg exDoc exDoc_clean
example := scriptKStrs_clean exCfg exDoc exDoc_clean
example := lookup_mem (rfl : lookup exStep2 "with" = some exWith2)
example := lookupFolded_mem exWith2_script

end Examples

end AL.C11D
