import AL.Props.C19
import AL.Props.C08Parse
import AL.Lemmas.C03PBase
import AL.Model.Rules
/-
  C19 on the model of the workflow parser (AL.PW = parse.go): the well-formedness hypothesis `RawWF` of the C19
  theorems ("member keys of every raw object are pairwise distinct, at any depth" — what a Go map gives for free and an
  association list does not) holds for EVERY raw value the parser builds, for every node tree. Hence `equals_symm`,
  `equals_refl`, `dup_exact`, `dup_count_perm`, `equals_member_perm`, `subset_member_perm`, `equals_subset` apply to
  every value of every row / include / exclude entry of every parsed matrix with no hypothesis left.

  The AST's raw values ARE `AL.Matrix.Raw` (`AL.Ast.Raw` is an abbreviation), `matrixOf` copies them unchanged.
-/
namespace AL.C19P
open AL.PW AL.Yaml AL.Matrix AL.Spec
open AL.Ast hiding Raw

/-! ## (a) every raw value the parser builds is well-formed -/

theorem rawWFList_iff (l : List Raw) : RawWFList l ↔ ∀ v ∈ l, RawWF v := by
  induction l with
  | nil => simp [RawWFList]
  | cons x rest ih => simp [RawWFList, ih]

theorem rawWFProps_iff (l : List (String × Raw)) : RawWFProps l ↔ ∀ p ∈ l, RawWF p.2 := by
  induction l with
  | nil => simp [RawWFProps]
  | cons x rest ih =>
    obtain ⟨k, v⟩ := x
    simp [RawWFProps, ih]

mutual
/-- `parseRawYAMLValue`: whatever it returns (it returns nil only for an alias / document node) is well-formed -/
theorem rawValue_wf (cfg : Cfg) : ∀ (n : Node) (r : Raw), (rawValue cfg n).1 = some r → RawWF r
  | .mk .scalar _ v _ l c _, r, h => by
    simp only [rawValue, Option.some.injEq] at h
    subst h; simp [RawWF]
  | .mk .sequence _ _ _ l c cs, r, h => by
    simp only [rawValue, Option.some.injEq] at h
    subst h
    simp only [RawWF]
    exact rawSeq_wf cfg cs
  | .mk .mapping _ _ _ l c cs, r, h => by
    simp only [rawValue, Option.some.injEq] at h
    subst h
    simp only [RawWF]
    exact ⟨(rawProps_wf cfg cs []).1, (rawProps_wf cfg cs []).2.1⟩
  | .mk .document _ _ _ l c _, r, h => by simp [rawValue] at h
  | .mk .alias _ _ _ l c _, r, h => by simp [rawValue] at h
/-- the elements of a sequence value -/
theorem rawSeq_wf (cfg : Cfg) : ∀ (cs : List Node), RawWFList (rawSeq cfg cs).1
  | [] => by simp [rawSeq, RawWFList]
  | c :: cs => by
    simp only [rawSeq]
    cases hv : (rawValue cfg c).1 with
    | none => exact rawSeq_wf cfg cs
    | some x => exact ⟨rawValue_wf cfg c x hv, rawSeq_wf cfg cs⟩
/-- the members of a mapping value: distinct keys (a key whose folded id was seen is dropped), none of them among the
ids seen before, every member value well-formed -/
theorem rawProps_wf (cfg : Cfg) : ∀ (cs : List Node) (seen : List (String × Yaml.Pos)),
    ((rawProps cfg cs seen).1.map (·.1)).Nodup ∧ RawWFProps (rawProps cfg cs seen).1 ∧
    ∀ p ∈ (rawProps cfg cs seen).1, lookupSeen p.1 seen = none
  | [], _ => by simp [rawProps, RawWFProps]
  | [_], _ => by simp [rawProps, RawWFProps]
  | kn :: vn :: rest, seen => by
    rw [rawProps]
    simp only
    cases hl : lookupSeen (cfg.lower (parseString kn false).1.value) seen with
    | some pos => exact rawProps_wf cfg rest seen
    | none =>
      obtain ⟨hn, hw, hs⟩ := rawProps_wf cfg rest (seen ++ [(cfg.lower (parseString kn false).1.value, (parseString kn false).1.pos)])
      have hs' : ∀ p ∈ (rawProps cfg rest (seen ++ [(cfg.lower (parseString kn false).1.value, (parseString kn false).1.pos)])).1,
          lookupSeen p.1 seen = none ∧ p.1 ≠ cfg.lower (parseString kn false).1.value := by
        intro p hp
        have := hs p hp
        rw [lookupSeen_snoc] at this
        cases h2 : lookupSeen p.1 seen with
        | some q => simp [h2] at this
        | none =>
          refine ⟨rfl, fun e => ?_⟩
          rw [h2] at this
          simp [e] at this
      cases hv : (rawValue cfg vn).1 with
      | none => exact ⟨hn, hw, fun p hp => (hs' p hp).1⟩
      | some x =>
        refine ⟨?_, ⟨rawValue_wf cfg vn x hv, hw⟩, ?_⟩
        · simp only [List.map_cons, List.nodup_cons, List.mem_map, not_exists, not_and]
          exact ⟨fun p hp e => (hs' p hp).2 e, hn⟩
        · intro p hp
          rcases List.mem_cons.1 hp with rfl | hp
          · exact hl
          · exact (hs' p hp).1
end

/-- **(a)** `parseRawYAMLValue` (`rawValue`) never builds an ill-formed value: for every configuration and every node. -/
theorem parseRawYAMLValue_wf (cfg : Cfg) (n : Node) : ∀ r, (rawValue cfg n).1 = some r → RawWF r :=
  rawValue_wf cfg n

theorem rawSeq_wf' (cfg : Cfg) (cs : List Node) : ∀ v ∈ (rawSeq cfg cs).1, RawWF v :=
  (rawWFList_iff _).1 (rawSeq_wf cfg cs)

/-- the nil result is reserved to alias and document nodes (which `parseRawYAMLValue` reports) -/
theorem rawValue_none_iff (cfg : Cfg) (n : Node) :
    (rawValue cfg n).1 = none ↔ (n.kind = .alias ∨ n.kind = .document) := by
  obtain ⟨k, t, v, q, l, c, cs⟩ := n
  cases k <;> simp [rawValue, Node.kind]

/-! ### examples for (a): a mapping value with a repeated (case-folded) key, nested in a sequence -/

def exCfg : Cfg := ⟨asciiLower, fun _ => none, fun _ => .err⟩
def sc (v : String) (l c : Nat) : Node := .mk .scalar "!!str" v false l c []
/-- `[ {K: x, k: y, j: {A: 1, a: 2}} ]` -/
def exNode : Node :=
  .mk .sequence "!!seq" "" false 1 1
    [.mk .mapping "!!map" "" false 1 3
      [sc "K" 1 4, sc "x" 1 7, sc "k" 1 10, sc "y" 1 13, sc "j" 1 16,
       .mk .mapping "!!map" "" false 1 19 [sc "A" 1 20, sc "1" 1 23, sc "a" 1 26, sc "2" 1 29]]]

/-- the repeated keys `k` and `a` are dropped (and reported): first occurrence wins -/
example : rawValue exCfg exNode =
    (some (.arr [.obj [("k", .str "x" ⟨1, 7⟩), ("j", .obj [("a", .str "1" ⟨1, 23⟩)] ⟨1, 19⟩)] ⟨1, 3⟩] ⟨1, 1⟩),
     [⟨⟨1, 10⟩, "key-duplicated", ["k", "matrix row value", "line:1,col:4", ". note that this key is case insensitive"]⟩,
      ⟨⟨1, 26⟩, "key-duplicated", ["a", "matrix row value", "line:1,col:20", ". note that this key is case insensitive"]⟩]) := by
  rfl
example : ∀ r, (rawValue exCfg exNode).1 = some r → RawWF r := parseRawYAMLValue_wf exCfg exNode
example : ∀ v ∈ (rawSeq exCfg exNode.content).1, RawWF v := rawSeq_wf' exCfg _
example : (rawValue exCfg (.mk .alias "" "" false 1 1 [])).1 = none := (rawValue_none_iff _ _).2 (Or.inl rfl)

/-! ## (b) every value of every parsed matrix is well-formed

`AstMatWF` is stated on the AST (`AL.Ast.Matrix`): the values of every row and of every include / exclude assignment are
well-formed, and — as for a Go map — the row ids are pairwise distinct (`parseMatrix` assigns `Rows[kv.id]`) and the
ids of the assignments of one combination are pairwise distinct (`parseMapping`). -/

def AstCombosWF (c : Option MatrixCombinations) : Prop :=
  ∀ cs, c = some cs → ∀ l, cs.combinations = some l → ∀ x ∈ l, ∀ as, x.assigns = some as →
    (as.map (·.1)).Nodup ∧ ∀ p ∈ as, RawWF p.2.value

def AstMatWF (m : Ast.Matrix) : Prop :=
  (∀ rows, m.rows = some rows →
    (rows.map (·.1)).Nodup ∧ ∀ p ∈ rows, ∀ vs, p.2.values = some vs → ∀ v ∈ vs, RawWF v) ∧
  AstCombosWF m.incl ∧ AstCombosWF m.excl

theorem setAssoc_mem {β : Type} (k : String) (v : β) : ∀ (l : List (String × β)) (p : String × β),
    p ∈ setAssoc k v l → p = (k, v) ∨ p ∈ l
  | [], p, h => by simp only [setAssoc, List.mem_singleton] at h; exact Or.inl h
  | (k', v') :: rest, p, h => by
    simp only [setAssoc] at h
    split at h
    · rcases List.mem_cons.1 h with rfl | h
      · exact Or.inl rfl
      · exact Or.inr (List.mem_cons_of_mem _ h)
    · rcases List.mem_cons.1 h with rfl | h
      · exact Or.inr (by simp)
      · rcases setAssoc_mem k v rest p h with e | hm
        · exact Or.inl e
        · exact Or.inr (List.mem_cons_of_mem _ hm)

/-- `m[k] = v` on an association list: the key list is unchanged (`k` present) or `k` is appended -/
theorem setAssoc_keys {β : Type} (k : String) (v : β) : ∀ (l : List (String × β)),
    (setAssoc k v l).map (·.1) = if k ∈ l.map (·.1) then l.map (·.1) else l.map (·.1) ++ [k]
  | [] => by simp [setAssoc]
  | (k', v') :: rest => by
    simp only [setAssoc]
    split
    · rename_i hk; subst hk; simp
    · rename_i hk
      have hk' : ¬ k = k' := fun e => hk e.symm
      simp only [List.map_cons, setAssoc_keys k v rest, List.mem_cons, hk', false_or]
      split <;> simp

theorem setAssoc_nodup {β : Type} (k : String) (v : β) (l : List (String × β)) (h : (l.map (·.1)).Nodup) :
    ((setAssoc k v l).map (·.1)).Nodup := by
  rw [setAssoc_keys]
  split
  · exact h
  · rename_i hk
    rw [List.nodup_append]
    exact ⟨h, by simp, fun a ha b hb => by simp at hb; subst hb; exact fun e => hk (e ▸ ha)⟩

/-- the assignments of one combination: ids are ids of the mapping entries, in order; values are well-formed -/
theorem matrixAssigns_wf (cfg : Cfg) : ∀ (kvs : List KV),
    ((matrixAssigns cfg kvs).1.map (·.1)).Sublist (kvs.map (·.id)) ∧
    ∀ p ∈ (matrixAssigns cfg kvs).1, RawWF p.2.value
  | [] => by simp [matrixAssigns]
  | kv :: rest => by
    obtain ⟨h1, h2⟩ := matrixAssigns_wf cfg rest
    simp only [matrixAssigns]
    cases hv : (rawValue cfg kv.val).1 with
    | none => exact ⟨h1.trans (List.sublist_cons_self _ _), h2⟩
    | some x =>
      refine ⟨by simpa using h1.cons_cons kv.id, ?_⟩
      intro p hp
      rcases List.mem_cons.1 hp with rfl | hp
      · exact rawValue_wf cfg kv.val x hv
      · exact h2 p hp

theorem matrixCombos_wf (cfg : Cfg) (sec : String) : ∀ (cs : List Node),
    ∀ x ∈ (PW.matrixCombos cfg sec cs).1, ∀ as, x.assigns = some as →
      (as.map (·.1)).Nodup ∧ ∀ p ∈ as, RawWF p.2.value
  | [], x, h => by simp [PW.matrixCombos] at h
  | c :: cs, x, h => by
    simp only [PW.matrixCombos] at h
    split at h
    · cases he : (parseExpression c "mapping of matrix combination").1 with
      | none => rw [he] at h; exact matrixCombos_wf cfg sec cs x h
      | some s =>
        rw [he] at h
        rcases List.mem_cons.1 h with rfl | h
        · intro as e; cases e
        · exact matrixCombos_wf cfg sec cs x h
    · rcases List.mem_cons.1 h with rfl | h
      · intro as e
        simp only [Option.some.injEq] at e
        subst e
        obtain ⟨h1, h2⟩ := matrixAssigns_wf cfg (parseMapping cfg ("element in \"" ++ sec ++ "\" section") c false false).1
        exact ⟨h1.nodup (C03P.parseMapping_nodup cfg _ c false false), h2⟩
      · exact matrixCombos_wf cfg sec cs x h

/-- `parseMatrixCombinations` (`include:` / `exclude:`) -/
theorem parseMatrixCombinations_wf (cfg : Cfg) (sec : String) (n : Node) :
    AstCombosWF (parseMatrixCombinations cfg sec n).1 := by
  intro cs hc l hl x hx as ha
  simp only [parseMatrixCombinations] at hc
  split at hc
  · simp only [Option.some.injEq] at hc; subst hc; cases hl
  · split at hc
    · cases hc
    · simp only [Option.some.injEq] at hc
      subst hc
      simp only [Option.some.injEq] at hl
      subst hl
      exact matrixCombos_wf cfg sec n.content x hx as ha

theorem matrixKey_wf (cfg : Cfg) (st : Ast.Matrix) (kv : KV) (h : AstMatWF st) : AstMatWF (matrixKey cfg st kv).1 := by
  obtain ⟨hr, hi, he⟩ := h
  have hset : ∀ (row : MatrixRow), (∀ vs, row.values = some vs → ∀ v ∈ vs, RawWF v) →
      ∀ rows, some (setAssoc kv.id row (st.rows.getD [])) = some rows →
        (rows.map (·.1)).Nodup ∧ ∀ p ∈ rows, ∀ vs, p.2.values = some vs → ∀ v ∈ vs, RawWF v := by
    intro row hrow rows e
    simp only [Option.some.injEq] at e
    subst e
    have h0 : ((st.rows.getD []).map (·.1)).Nodup ∧ ∀ p ∈ st.rows.getD [], ∀ vs, p.2.values = some vs → ∀ v ∈ vs, RawWF v := by
      cases hrows : st.rows with
      | none => simp
      | some rows => simpa using hr rows hrows
    refine ⟨setAssoc_nodup _ _ _ h0.1, fun p hp => ?_⟩
    rcases setAssoc_mem _ _ _ p hp with rfl | hp
    · exact hrow
    · exact h0.2 p hp
  simp only [matrixKey]
  split
  · exact ⟨hr, parseMatrixCombinations_wf cfg "include" kv.val, he⟩
  · exact ⟨hr, hi, parseMatrixCombinations_wf cfg "exclude" kv.val⟩
  · split
    · exact ⟨hset _ (fun vs e => by cases e), hi, he⟩
    · split
      · exact ⟨hr, hi, he⟩
      · refine ⟨hset _ (fun vs e => ?_), hi, he⟩
        simp only [Option.some.injEq] at e
        subst e
        exact rawSeq_wf' cfg _

/-- **`parseMatrix`**: the matrix of every node is well-formed -/
theorem parseMatrix_wf (cfg : Cfg) (pos : Yaml.Pos) (n : Node) : AstMatWF (parseMatrix cfg pos n).1 := by
  simp only [parseMatrix]
  split
  · exact ⟨fun rows e => (by cases e), fun cs e => (by cases e), fun cs e => (by cases e)⟩
  · apply C13P.loop_inv (matrixKey cfg) AstMatWF
    · intro s kv _ hs; exact matrixKey_wf cfg s kv hs
    · exact ⟨fun rows e => (by simp only [Option.some.injEq] at e; subst e; simp),
        fun cs e => (by cases e), fun cs e => (by cases e)⟩

/-! ### the same on the rule's view of the matrix (`AL.Rules.matrixOf`, what `AL.Matrix.check` is run on) -/

/-- the assignment lists of an `include:` / `exclude:` section -/
def assignsOf : Option Combos → List (List Assign)
  | some (.list cs) => cs.filterMap fun c => match c with | .assigns as => some as | .expr => none
  | _ => []

/-- every raw value of a matrix: the values of the rows, of the include and of the exclude assignments -/
def valuesOf (m : Mat) : List Matrix.Raw :=
  (m.rows.flatMap fun r => r.values.getD []) ++
  ((assignsOf m.incl).flatMap fun as => as.map (·.value)) ++
  ((assignsOf m.excl).flatMap fun as => as.map (·.value))

/-- what a Go `Matrix` value guarantees and the association-list model does not: distinct row ids, distinct assignment ids
within a combination, distinct member keys inside every raw value -/
def MatWF (m : Mat) : Prop :=
  (m.rows.map (·.id)).Nodup ∧
  (∀ as ∈ assignsOf m.incl ++ assignsOf m.excl, (as.map (·.id)).Nodup) ∧
  ∀ v ∈ valuesOf m, RawWF v

theorem assignsOf_matrixCombos (c : Option MatrixCombinations) (h : AstCombosWF c) :
    ∀ as ∈ assignsOf (Rules.matrixCombos c), (as.map (·.id)).Nodup ∧ ∀ a ∈ as, RawWF a.value := by
  intro as has
  cases c with
  | none => simp [Rules.matrixCombos, assignsOf] at has
  | some cs =>
    simp only [Rules.matrixCombos, Option.map_some] at has
    split at has
    · simp [assignsOf] at has
    · simp only [assignsOf, List.mem_filterMap, List.mem_map] at has
      obtain ⟨co, ⟨x, hx, rfl⟩, hco⟩ := has
      split at hco
      · rename_i as' heq
        simp only [Option.some.injEq] at hco
        subst hco
        split at heq
        · cases heq
        · simp only [Combo.assigns.injEq] at heq
          subst heq
          cases hl : cs.combinations with
          | none => rw [hl] at hx; simp at hx
          | some l =>
            rw [hl] at hx
            simp only [Option.getD_some] at hx
            cases hxa : x.assigns with
            | none => simp
            | some xs =>
              obtain ⟨h1, h2⟩ := h cs rfl l hl x hx xs hxa
              simp only [Option.getD_some, List.map_map]
              refine ⟨by simpa [Function.comp_def] using h1, ?_⟩
              intro a ha
              obtain ⟨p, hp, rfl⟩ := List.mem_map.1 ha
              exact h2 p hp
      · cases hco

theorem matrixOf_wf (m : Ast.Matrix) (h : AstMatWF m) : MatWF (Rules.matrixOf m) := by
  obtain ⟨hr, hi, he⟩ := h
  have h0 : ((m.rows.getD []).map (·.1)).Nodup ∧ ∀ p ∈ m.rows.getD [], ∀ vs, p.2.values = some vs → ∀ v ∈ vs, RawWF v := by
    cases hrows : m.rows with
    | none => simp
    | some rows => simpa using hr rows hrows
  refine ⟨?_, ?_, ?_⟩
  · simpa [Rules.matrixOf, Function.comp_def] using h0.1
  · intro as has
    simp only [Rules.matrixOf, List.mem_append] at has
    rcases has with has | has
    · exact (assignsOf_matrixCombos _ hi as has).1
    · exact (assignsOf_matrixCombos _ he as has).1
  · intro v hv
    simp only [valuesOf, Rules.matrixOf, List.mem_append, List.mem_flatMap, List.mem_map] at hv
    rcases hv with (⟨r, ⟨p, hp, rfl⟩, hv⟩ | ⟨as, has, a, ha, rfl⟩) | ⟨as, has, a, ha, rfl⟩
    · simp only at hv
      split at hv
      · simp at hv
      · cases hvs : p.2.values with
        | none => rw [hvs] at hv; simp at hv
        | some vs => rw [hvs] at hv; exact h0.2 p hp vs hvs v (by simpa using hv)
    · exact (assignsOf_matrixCombos _ hi as has).2 a ha
    · exact (assignsOf_matrixCombos _ he as has).2 a ha

/-- **(b)** the matrix `RuleMatrix` checks, for every `matrix:` node: row ids distinct, assignment ids distinct, every
value well-formed. -/
theorem parsed_matrix_wf (cfg : Cfg) (pos : Yaml.Pos) (n : Node) : MatWF (Rules.matrixOf (parseMatrix cfg pos n).1) :=
  matrixOf_wf _ (parseMatrix_wf cfg pos n)

theorem parsed_values_wf (cfg : Cfg) (pos : Yaml.Pos) (n : Node) :
    ∀ v ∈ valuesOf (Rules.matrixOf (parseMatrix cfg pos n).1), RawWF v :=
  (parsed_matrix_wf cfg pos n).2.2

/-! ### examples for (b): a matrix whose row value and whose include entry repeat a key -/

/-- `{ os: [ {K: x, k: y}, {k: x}, u, u ], include: [ {A: {B: 1, b: 2}, a: z} ], exclude: [ {os: {k: x}} ] }` -/
def exMatrixNode : Node :=
  .mk .mapping "!!map" "" false 2 1
    [sc "os" 2 1, .mk .sequence "!!seq" "" false 2 5
        [.mk .mapping "!!map" "" false 2 6 [sc "K" 2 7, sc "x" 2 10, sc "k" 2 13, sc "y" 2 16],
         .mk .mapping "!!map" "" false 2 20 [sc "k" 2 21, sc "x" 2 24], sc "u" 2 28, sc "u" 2 31],
     sc "include" 3 1, .mk .sequence "!!seq" "" false 3 10
        [.mk .mapping "!!map" "" false 3 11
          [sc "A" 3 12, .mk .mapping "!!map" "" false 3 15 [sc "B" 3 16, sc "1" 3 19, sc "b" 3 22, sc "2" 3 25],
           sc "a" 3 30, sc "z" 3 33]],
     sc "exclude" 4 1, .mk .sequence "!!seq" "" false 4 10
        [.mk .mapping "!!map" "" false 4 11
          [sc "os" 4 12, .mk .mapping "!!map" "" false 4 16 [sc "k" 4 17, sc "x" 4 20]]]]

def exMat : Mat := Rules.matrixOf (parseMatrix exCfg ⟨1, 1⟩ exMatrixNode).1

def exV0 : Matrix.Raw := .obj [("k", .str "x" ⟨2, 10⟩)] ⟨2, 6⟩
def exV1 : Matrix.Raw := .obj [("k", .str "x" ⟨2, 24⟩)] ⟨2, 20⟩
def exVals : List Matrix.Raw := [exV0, exV1, .str "u" ⟨2, 28⟩, .str "u" ⟨2, 31⟩]
def exRow : Row := ⟨"os", some exVals⟩
def exInc : Matrix.Raw := .obj [("b", .str "1" ⟨3, 19⟩)] ⟨3, 15⟩
def exExc : Matrix.Raw := .obj [("k", .str "x" ⟨4, 20⟩)] ⟨4, 16⟩

example : valuesOf exMat = exVals ++ [exInc, exExc] := by rfl
theorem exRow_mem : exRow ∈ exMat.rows := by
  show exRow ∈ [exRow]
  simp
theorem exRow_mem' : exRow ∈ (Rules.matrixOf (parseMatrix exCfg ⟨1, 1⟩ exMatrixNode).1).rows := exRow_mem
example : MatWF exMat := parsed_matrix_wf exCfg ⟨1, 1⟩ exMatrixNode
example : ∀ v ∈ valuesOf exMat, RawWF v := parsed_values_wf exCfg ⟨1, 1⟩ exMatrixNode
example : AstMatWF (parseMatrix exCfg ⟨1, 1⟩ exMatrixNode).1 := parseMatrix_wf exCfg ⟨1, 1⟩ exMatrixNode
example : AstCombosWF (parseMatrixCombinations exCfg "include" (.mk .sequence "!!seq" "" false 3 10 [])).1 :=
  parseMatrixCombinations_wf _ _ _

/-! ## (b′) the C19 theorems for every parsed matrix, with no well-formedness hypothesis -/

/-- `v` is a value (of a row, of an `include` or of an `exclude` assignment) of the matrix the rule is run on for some
`matrix:` node -/
def ParsedValue (v : Matrix.Raw) : Prop :=
  ∃ (cfg : Cfg) (pos : Yaml.Pos) (n : Node), v ∈ valuesOf (Rules.matrixOf (parseMatrix cfg pos n).1)

theorem ParsedValue.wf {v : Matrix.Raw} (h : ParsedValue v) : RawWF v := by
  obtain ⟨cfg, pos, n, hv⟩ := h
  exact parsed_values_wf cfg pos n v hv

theorem row_values_mem (m : Mat) (r : Row) (hr : r ∈ m.rows) (vs : List Matrix.Raw) (hvs : r.values = some vs) :
    ∀ v ∈ vs, v ∈ valuesOf m := by
  intro v hv
  simp only [valuesOf, List.mem_append, List.mem_flatMap]
  exact Or.inl (Or.inl ⟨r, hr, by simpa [hvs] using hv⟩)

/-- the values of a row of a parsed matrix -/
theorem parsed_row_wf (cfg : Cfg) (pos : Yaml.Pos) (n : Node) (r : Row)
    (hr : r ∈ (Rules.matrixOf (parseMatrix cfg pos n).1).rows) (vs : List Matrix.Raw) (hvs : r.values = some vs) :
    ∀ v ∈ vs, RawWF v :=
  fun v hv => parsed_values_wf cfg pos n v (row_values_mem _ r hr vs hvs v hv)

/-- C19 (a) for parsed values -/
theorem parsed_equals_iff (a b : Matrix.Raw) (ha : ParsedValue a) (hb : ParsedValue b) :
    equals a b = true ↔ Same a b := C19.equals_iff a b ha.wf hb.wf

/-- C19 (b): `Equals` is symmetric on everything the parser produces -/
theorem parsed_equals_symm (a b : Matrix.Raw) (ha : ParsedValue a) (hb : ParsedValue b) :
    equals a b = equals b a := C19.equals_symm a b ha.wf hb.wf

/-- C19 (c): reflexive, transitive -/
theorem parsed_equals_refl (a : Matrix.Raw) (ha : ParsedValue a) : equals a a = true := C19.equals_refl a ha.wf

theorem parsed_equals_trans (a b c : Matrix.Raw) (ha : ParsedValue a) (hb : ParsedValue b) (hc : ParsedValue c) :
    equals a b = true → equals b c = true → equals a c = true := C19.equals_trans a b c ha.wf hb.wf hc.wf

/-- C19 (d) for every row of every parsed matrix: value `i` of the row is reported iff an earlier value of the row is equal
to it (or another value at the same position is, see `C19.dup_exact`). -/
theorem parsed_dup_exact (cfg : Cfg) (pos : Yaml.Pos) (n : Node) (r : Row)
    (hr : r ∈ (Rules.matrixOf (parseMatrix cfg pos n).1).rows) (vs : List Matrix.Raw) (hvs : r.values = some vs) :
    ∀ i (hi : i < vs.length),
      (∃ q, Diag.dup (vs[i]).pos r.id q ∈ dupRow r.id vs [] ∧ True) ↔
      (∃ j, ∃ (hj : j < i), equals (vs[j]'(Nat.lt_trans hj hi)) vs[i] = true) ∨
      (∃ k, ∃ (hk : k < vs.length), k ≠ i ∧ (vs[k]).pos = (vs[i]).pos ∧
        ∃ j, ∃ (hj : j < k), equals (vs[j]'(Nat.lt_trans hj hk)) vs[k] = true) :=
  C19.dup_exact r.id vs (parsed_row_wf cfg pos n r hr vs hvs)

/-- the same in the declarative vocabulary: "reported exactly for the values that are `Same` (structurally equal modulo
member order, positions ignored) as an earlier value of the row" -/
theorem parsed_dup_exact_same (cfg : Cfg) (pos : Yaml.Pos) (n : Node) (r : Row)
    (hr : r ∈ (Rules.matrixOf (parseMatrix cfg pos n).1).rows) (vs : List Matrix.Raw) (hvs : r.values = some vs) :
    ∀ i (hi : i < vs.length),
      (∃ q, Diag.dup (vs[i]).pos r.id q ∈ dupRow r.id vs []) ↔
      (∃ j, ∃ (hj : j < i), Same (vs[j]'(Nat.lt_trans hj hi)) vs[i]) ∨
      (∃ k, ∃ (hk : k < vs.length), k ≠ i ∧ (vs[k]).pos = (vs[i]).pos ∧
        ∃ j, ∃ (hj : j < k), Same (vs[j]'(Nat.lt_trans hj hk)) vs[k]) := by
  intro i hi
  have := parsed_dup_exact cfg pos n r hr vs hvs i hi
  simp only [and_true, equals_iff_same] at this
  exact this

/-- C19 (d′), index formulation, for every row of every parsed matrix -/
theorem parsed_dup_exact' (cfg : Cfg) (pos : Yaml.Pos) (n : Node) (r : Row)
    (_hr : r ∈ (Rules.matrixOf (parseMatrix cfg pos n).1).rows) (vs : List Matrix.Raw) (_hvs : r.values = some vs) :
    dupRow r.id vs [] = (List.range vs.length).filterMap (dupAt r.id vs) ∧
    (∀ i (hi : i < vs.length),
      (dupAt r.id vs i).isSome = true ↔
        ∃ j, ∃ (hj : j < i), Same (vs[j]'(Nat.lt_trans hj hi)) vs[i]) := by
  refine ⟨(C19.dup_exact' r.id vs).1, fun i hi => ?_⟩
  have := (C19.dup_exact' r.id vs).2.1 i hi
  simp only [equals_iff_same] at this
  exact this

/-- C19 (e): the number of duplicate reports of a row of a parsed matrix does not depend on the order of its values -/
theorem parsed_dup_count_perm (cfg : Cfg) (pos : Yaml.Pos) (n : Node) (r : Row)
    (hr : r ∈ (Rules.matrixOf (parseMatrix cfg pos n).1).rows) (vs : List Matrix.Raw) (hvs : r.values = some vs)
    (ws : List Matrix.Raw) (hp : vs.Perm ws) :
    (dupRow r.id vs []).length = (dupRow r.id ws []).length :=
  C19.dup_count_perm r.id vs ws (parsed_row_wf cfg pos n r hr vs hvs) hp

/-- C19 (f): a parsed mapping value may be replaced by any reordering of its members, on either side of `Equals` -/
theorem parsed_equals_member_perm (ps qs : List (String × Matrix.Raw)) (p : P) (b : Matrix.Raw)
    (h : ParsedValue (.obj ps p)) (hp : ps.Perm qs) :
    equals (.obj ps p) b = equals (.obj qs p) b ∧ equals b (.obj ps p) = equals b (.obj qs p) :=
  C19.equals_member_perm ps qs p b h.wf hp

/-- C19 (f), "at any depth" -/
theorem parsed_equals_congr_same (a a' b : Matrix.Raw) (ha : ParsedValue a) (ha' : ParsedValue a') (h : Same a a') :
    equals a b = equals a' b ∧ equals b a = equals b a' :=
  C19.equals_congr_same a a' b ha.wf ha'.wf h

/-- C19 (g) -/
theorem parsed_subset_member_perm (ps qs : List (String × Matrix.Raw)) (p : P) (b : Matrix.Raw)
    (h : ParsedValue (.obj ps p)) (hp : ps.Perm qs) :
    subset (.obj ps p) b = subset (.obj qs p) b ∧ subset b (.obj ps p) = subset b (.obj qs p) :=
  C19.subset_member_perm ps qs p b h.wf hp

/-- C19 (g) inside the exclude check: whether a row matches a filter (`row.any (isYAMLValueSubset · filter)`) does not change
when the members of a parsed mapping value of the row are reordered … -/
theorem parsed_exclude_match_value_perm (ps qs : List (String × Matrix.Raw)) (p : P) (h : ParsedValue (.obj ps p))
    (hp : ps.Perm qs) (filt : Matrix.Raw) (row₁ row₂ : List Matrix.Raw) :
    (row₁ ++ .obj ps p :: row₂).any (fun v => subset v filt) = (row₁ ++ .obj qs p :: row₂).any (fun v => subset v filt) := by
  simp only [List.any_append, List.any_cons, (parsed_subset_member_perm ps qs p filt h hp).1]

/-- … or when the members of a parsed mapping filter of an `exclude` entry are -/
theorem parsed_exclude_match_filter_perm (ps qs : List (String × Matrix.Raw)) (p : P) (h : ParsedValue (.obj ps p))
    (hp : ps.Perm qs) (row : List Matrix.Raw) :
    row.any (fun v => subset v (.obj ps p)) = row.any (fun v => subset v (.obj qs p)) := by
  congr 1
  funext v
  exact (parsed_subset_member_perm ps qs p v h hp).2

/-- C19 (i): an exclude entry equal to a row value always matches it -/
theorem parsed_equals_subset (a b : Matrix.Raw) (ha : ParsedValue a) (hb : ParsedValue b) :
    equals a b = true → subset a b = true := C19.equals_subset a b ha.wf hb.wf

/-! ## (c) lifted to the rule on a parsed workflow

Every `Matrix` node of the AST of `parse cfg doc` is the result of `parseMatrix` on some node; hence everything above
holds for what `RuleMatrix` (`matrixJob` / `ruleMatrix`) sees in a job of a parsed workflow. -/

/-- the job's matrix, if any, is a result of `parseMatrix` -/
def JobMatParsed (cfg : Cfg) (j : Job) : Prop :=
  ∀ s m, j.strategy = some s → s.matrix = some m → ∃ (pos : Yaml.Pos) (n : Node), m = (parseMatrix cfg pos n).1

theorem parseStrategy_matrix (cfg : Cfg) (pos : Yaml.Pos) (n : Node) :
    ∀ m, (parseStrategy cfg pos n).1.matrix = some m → ∃ (pos' : Yaml.Pos) (n' : Node), m = (parseMatrix cfg pos' n').1 := by
  simp only [parseStrategy]
  apply C13P.loop_inv (strategyKey cfg)
    (fun st => ∀ m, st.matrix = some m → ∃ (pos' : Yaml.Pos) (n' : Node), m = (parseMatrix cfg pos' n').1)
  · intro st kv _ hs
    simp only [strategyKey]
    split
    · intro m e
      simp only [Option.some.injEq] at e
      exact ⟨_, _, e.symm⟩
    · exact hs
    · exact hs
    · exact hs
  · intro m e; cases e

theorem jobKey_matParsed (cfg : Cfg) (st : JobSt) (kv : KV) (h : JobMatParsed cfg st.job) :
    JobMatParsed cfg (jobKey cfg st kv).1.job := by
  simp only [jobKey]
  split
  case h_13 =>
    intro s m hs hm
    simp only [Option.some.injEq] at hs
    subst hs
    exact parseStrategy_matrix cfg _ _ m hm
  all_goals first | exact h | (split <;> first | exact h | (split <;> exact h))

theorem parseJob_matParsed (cfg : Cfg) (id : Str) (n : Node) : JobMatParsed cfg (parseJob cfg id n).1 := by
  have h : JobMatParsed cfg (loop (jobKey cfg) { job := { id := id, pos := id.pos } } (parseMapping cfg (jobWhat id.value) n false true).1).1.job := by
    apply C13P.loop_inv (jobKey cfg) (fun st => JobMatParsed cfg st.job)
    · intro s kv _ hs; exact jobKey_matParsed cfg s kv hs
    · intro s m e; cases e
  simp only [parseJob, jobFinish]
  split
  · split
    · exact h
    · exact h
  · exact h

theorem parseJobs_matParsed (cfg : Cfg) (n : Node) : ∀ p ∈ (parseJobs cfg n).1, JobMatParsed cfg p.2 := by
  intro p hp
  obtain ⟨kv, _, _, h2⟩ := C08P.mapKVs_mem _ _ p hp
  rw [h2]
  exact parseJob_matParsed cfg kv.key kv.val

/-- every job of the workflow `parse` builds -/
theorem parse_matParsed (cfg : Cfg) (doc : Node) : ∀ j ∈ Rules.jobsOf (parse cfg doc).1, JobMatParsed cfg j := by
  have key : ∀ jobs, (parse cfg doc).1.jobs = some jobs → ∀ p ∈ jobs, JobMatParsed cfg p.2 := by
    simp only [parse]
    split
    · intro jobs e; cases e
    · apply C13P.loop_inv (workflowKey cfg) (fun w => ∀ jobs, w.jobs = some jobs → ∀ p ∈ jobs, JobMatParsed cfg p.2)
      · intro w kv _ hw
        simp only [workflowKey]
        split
        case h_7 =>
          intro jobs e
          simp only [Option.some.injEq] at e
          subst e
          exact parseJobs_matParsed cfg kv.val
        all_goals exact hw
      · intro jobs e; cases e
  intro j hj
  simp only [Rules.jobsOf, List.mem_map] at hj
  obtain ⟨p, hp, rfl⟩ := hj
  cases hjobs : (parse cfg doc).1.jobs with
  | none => rw [hjobs] at hp; simp at hp
  | some jobs => rw [hjobs] at hp; exact key jobs hjobs p (by simpa using hp)

/-- **(c)** for every document, every job of the parsed workflow with a matrix: the matrix the rule checks is well-formed and
all its values are `ParsedValue`s — so every `parsed_*` theorem above applies to them. -/
theorem parsed_workflow_matrix_wf (cfg : Cfg) (doc : Node) (j : Job) (hj : j ∈ Rules.jobsOf (parse cfg doc).1)
    (s : Strategy) (m : Ast.Matrix) (hs : j.strategy = some s) (hm : s.matrix = some m) :
    MatWF (Rules.matrixOf m) ∧ ∀ v ∈ valuesOf (Rules.matrixOf m), ParsedValue v := by
  obtain ⟨pos, n, rfl⟩ := parse_matParsed cfg doc j hj s m hs hm
  exact ⟨parsed_matrix_wf cfg pos n, fun v hv => ⟨cfg, pos, n, hv⟩⟩

/-! ### what the rule reports, on a job of a parsed workflow -/

theorem dup_not_mem_excludeAssign (ig : List String) (rows : RowMap) (a : Assign) (p q : P) (row : String) :
    Diag.dup p row q ∉ excludeAssign ig rows a := by
  simp only [excludeAssign]
  split
  · simp
  · split
    · simp
    · split <;> simp

theorem mem_ite {α : Type} {c : Prop} [Decidable c] {x : α} {a b : List α} (h : x ∈ (if c then a else b)) :
    x ∈ a ∨ x ∈ b := by
  split at h
  · exact Or.inl h
  · exact Or.inr h

/-- the exclude check never yields a duplicate report -/
theorem dup_not_mem_checkExclude (m : Mat) (p q : P) (row : String) : Diag.dup p row q ∉ checkExclude m := by
  intro h
  unfold checkExclude at h
  cases hex : m.excl with
  | none => simp [hex] at h
  | some ex =>
    simp only [hex] at h
    rcases mem_ite h with h | h
    · simp at h
    · rcases mem_ite h with h | h
      · simp at h
      · obtain ⟨c, _, hc⟩ := List.mem_flatMap.1 h
        cases c with
        | expr => simp at hc
        | assigns as =>
          obtain ⟨a, _, ha⟩ := List.mem_flatMap.1 hc
          exact dup_not_mem_excludeAssign _ _ _ _ _ _ ha

/-- the duplicate reports of `check` are those of `checkDuplicateInRow` on the rows given by a sequence -/
theorem dup_mem_check (m : Mat) (d : Diag) (p q : P) (row : String) (hd : d = .dup p row q) :
    d ∈ check m ↔ ∃ r ∈ m.rows, ∃ vs, r.values = some vs ∧ d ∈ dupRow r.id vs [] := by
  subst hd
  simp only [check, List.mem_append, dup_not_mem_checkExclude, or_false, checkDuplicates, List.mem_flatMap]
  constructor
  · rintro ⟨r, hr, h⟩
    split at h
    · rename_i vs hvs; exact ⟨r, hr, vs, hvs, h⟩
    · simp at h
  · rintro ⟨r, hr, vs, hvs, h⟩
    exact ⟨r, hr, by simpa [hvs] using h⟩

/-- A duplicate is reported at position `p` iff some row has, at `p`, a value that is `Same` as an earlier value of that
row. -/
theorem check_dup_at_pos (m : Mat) (p : P) :
    (∃ row q, Diag.dup p row q ∈ check m) ↔
    ∃ r ∈ m.rows, ∃ vs, r.values = some vs ∧ ∃ k, ∃ (hk : k < vs.length), (vs[k]).pos = p ∧
      ∃ i, ∃ (hi : i < k), Same (vs[i]'(Nat.lt_trans hi hk)) vs[k] := by
  constructor
  · rintro ⟨row, q, h⟩
    obtain ⟨r, hr, vs, hvs, h⟩ := (dup_mem_check m _ p q row rfl).1 h
    rw [dupRow_eq] at h
    obtain ⟨k, _, hk⟩ := List.mem_filterMap.1 h
    obtain ⟨hk', i, hi, he, _, hdq⟩ := dupAt_eq_some hk
    injection hdq with hpos _ _
    exact ⟨r, hr, vs, hvs, k, hk', hpos.symm, i, hi, (equals_iff_same _ _).1 he⟩
  · rintro ⟨r, hr, vs, hvs, k, hk, hpos, i, hi, hs⟩
    obtain ⟨d, hd⟩ := Option.isSome_iff_exists.1
      ((dupAt_isSome_iff r.id vs k hk).2 ⟨i, hi, (equals_iff_same _ _).2 hs⟩)
    obtain ⟨_, i', hi', _, _, hdd⟩ := dupAt_eq_some hd
    refine ⟨r.id, (vs[i']'(Nat.lt_trans hi' hk)).pos, ?_⟩
    rw [← hpos, ← hdd]
    refine (dup_mem_check m d _ _ _ hdd).2 ⟨r, hr, vs, hvs, ?_⟩
    rw [dupRow_eq]
    exact List.mem_filterMap.2 ⟨k, List.mem_range.2 hk, hd⟩

/-- `RuleMatrix.VisitJobPre` on a job whose matrix is literal: `AL.Matrix.check` on `matrixOf` -/
theorem matrixJob_eq (j : Job) (s : Strategy) (m : Ast.Matrix) (hs : j.strategy = some s) (hm : s.matrix = some m)
    (he : m.expr = none) : Rules.matrixJob j = (check (Rules.matrixOf m)).map Rules.matrixDiag := by
  simp [Rules.matrixJob, hs, hm, he]

theorem matrixDiag_dup_iff (x : Diag) (d : Rules.Diag) (h : d = Rules.matrixDiag x) :
    d.code = "matrix-duplicate" ↔ ∃ p row q, x = .dup p row q := by
  subst h
  cases x <;> simp [Rules.matrixDiag]

/-- **(c)** for every document and every job of the parsed workflow with a literal matrix: the rule reports
`matrix-duplicate` at a position iff some row has there a value that is `Same` as an earlier value of that row; and the
matrix is well-formed, so the order-insensitivity theorems apply (`parsed_workflow_matrix_wf`). -/
theorem rule_dup_at_pos (cfg : Cfg) (doc : Node) (j : Job) (_hj : j ∈ Rules.jobsOf (parse cfg doc).1)
    (s : Strategy) (m : Ast.Matrix) (hs : j.strategy = some s) (hm : s.matrix = some m) (he : m.expr = none) (p : P) :
    (∃ d ∈ Rules.matrixJob j, d.code = "matrix-duplicate" ∧ d.pos = p) ↔
    ∃ r ∈ (Rules.matrixOf m).rows, ∃ vs, r.values = some vs ∧ ∃ k, ∃ (hk : k < vs.length), (vs[k]).pos = p ∧
      ∃ i, ∃ (hi : i < k), Same (vs[i]'(Nat.lt_trans hi hk)) vs[k] := by
  rw [matrixJob_eq j s m hs hm he, ← check_dup_at_pos]
  constructor
  · rintro ⟨d, hd, hc, hp⟩
    obtain ⟨x, hx, rfl⟩ := List.mem_map.1 hd
    obtain ⟨p', row, q, rfl⟩ := (matrixDiag_dup_iff x _ rfl).1 hc
    simp only [Rules.matrixDiag] at hp
    subst hp
    exact ⟨row, q, hx⟩
  · rintro ⟨row, q, h⟩
    exact ⟨_, List.mem_map.2 ⟨_, h, rfl⟩, rfl, rfl⟩

/-- the values of two rows are permutations of each other (an expression row stays one) -/
def RowPerm (r r' : Row) : Prop :=
  r.id = r'.id ∧
  match r.values, r'.values with
  | some vs, some ws => vs.Perm ws
  | none, none => True
  | _, _ => False

inductive RowsPerm : List Row → List Row → Prop
  | nil : RowsPerm [] []
  | cons {r r' : Row} {l l' : List Row} : RowPerm r r' → RowsPerm l l' → RowsPerm (r :: l) (r' :: l')

/-- C19 (e) for whole matrices: reordering the values inside the rows does not change the number of duplicate reports
(`WF` hypothesis on the row values). -/
theorem checkDuplicates_count_perm : ∀ (rows rows' : List Row),
    (∀ r ∈ rows, ∀ vs, r.values = some vs → ∀ v ∈ vs, RawWF v) → RowsPerm rows rows' →
    (checkDuplicates rows).length = (checkDuplicates rows').length := by
  intro rows rows' wf h
  induction h with
  | nil => rfl
  | @cons r r' l l' hr _ ih =>
    have ih' := ih (fun x hx => wf x (List.mem_cons_of_mem _ hx))
    simp only [checkDuplicates, List.flatMap_cons, List.length_append] at ih' ⊢
    rw [ih']
    congr 1
    obtain ⟨hid, hv⟩ := hr
    cases h1 : r.values with
    | none =>
      cases h2 : r'.values with
      | none => rfl
      | some ws => rw [h1, h2] at hv; exact hv.elim
    | some vs =>
      cases h2 : r'.values with
      | none => rw [h1, h2] at hv; exact hv.elim
      | some ws =>
        rw [h1, h2] at hv
        simp only
        rw [← hid]
        exact C19.dup_count_perm r.id vs ws (wf r (by simp) vs h1) hv

/-- … hence for every parsed matrix, with no hypothesis -/
theorem parsed_checkDuplicates_count_perm (cfg : Cfg) (pos : Yaml.Pos) (n : Node) (rows' : List Row)
    (h : RowsPerm (Rules.matrixOf (parseMatrix cfg pos n).1).rows rows') :
    (checkDuplicates (Rules.matrixOf (parseMatrix cfg pos n).1).rows).length = (checkDuplicates rows').length :=
  checkDuplicates_count_perm _ _ (fun r hr vs hvs => parsed_row_wf cfg pos n r hr vs hvs) h

/-! ## examples for (b′) and (c) on `exMatrixNode` and on a workflow containing it -/

theorem exV0_parsed : ParsedValue exV0 := ⟨exCfg, ⟨1, 1⟩, exMatrixNode, by show exV0 ∈ exVals ++ [exInc, exExc]; simp [exVals]⟩
theorem exV1_parsed : ParsedValue exV1 := ⟨exCfg, ⟨1, 1⟩, exMatrixNode, by show exV1 ∈ exVals ++ [exInc, exExc]; simp [exVals]⟩
theorem exExc_parsed : ParsedValue exExc := ⟨exCfg, ⟨1, 1⟩, exMatrixNode, by show exExc ∈ exVals ++ [exInc, exExc]; simp⟩

example : RawWF exV0 := exV0_parsed.wf
example : ∀ v ∈ exVals, v ∈ valuesOf exMat := row_values_mem exMat exRow exRow_mem exVals rfl
example : ∀ v ∈ exVals, RawWF v := parsed_row_wf exCfg ⟨1, 1⟩ exMatrixNode exRow exRow_mem' exVals rfl
example : equals exV0 exV1 = true ↔ Same exV0 exV1 := parsed_equals_iff _ _ exV0_parsed exV1_parsed
example : Same exV0 exV1 := (parsed_equals_iff _ _ exV0_parsed exV1_parsed).1 (by decide)
example : equals exV0 exExc = equals exExc exV0 := parsed_equals_symm _ _ exV0_parsed exExc_parsed
example : equals exV1 exV1 = true := parsed_equals_refl _ exV1_parsed
example : equals exV0 exExc = true :=
  parsed_equals_trans exV0 exV1 exExc exV0_parsed exV1_parsed exExc_parsed (by decide) (by decide)
/-- values 1 (`{k: x}` again) and 3 (`u` again) of the row are reported -/
example : dupRow "os" exVals [] = [.dup ⟨2, 20⟩ "os" ⟨2, 6⟩, .dup ⟨2, 31⟩ "os" ⟨2, 28⟩] := by decide
example : ∃ q, Diag.dup ⟨2, 20⟩ "os" q ∈ dupRow "os" exVals [] :=
  (parsed_dup_exact_same exCfg ⟨1, 1⟩ exMatrixNode exRow exRow_mem' exVals rfl 1 (by decide)).2
    (Or.inl ⟨0, by decide, (parsed_equals_iff _ _ exV0_parsed exV1_parsed).1 (by decide)⟩)
example : (∃ q, Diag.dup ⟨2, 20⟩ "os" q ∈ dupRow "os" exVals [] ∧ True) :=
  (parsed_dup_exact exCfg ⟨1, 1⟩ exMatrixNode exRow exRow_mem' exVals rfl 1 (by decide)).2
    (Or.inl ⟨0, by decide, by decide⟩)
example : dupRow "os" exVals [] = (List.range 4).filterMap (dupAt "os" exVals) :=
  (parsed_dup_exact' exCfg ⟨1, 1⟩ exMatrixNode exRow exRow_mem' exVals rfl).1
/-- any reordering of the row gives two reports as well -/
example : (dupRow "os" exVals []).length = (dupRow "os" exVals.reverse []).length :=
  parsed_dup_count_perm exCfg ⟨1, 1⟩ exMatrixNode exRow exRow_mem' exVals rfl _ (List.reverse_perm exVals).symm
example (b : Matrix.Raw) : equals exV0 b = equals (.obj [("k", .str "x" ⟨2, 10⟩)].reverse ⟨2, 6⟩) b ∧
    equals b exV0 = equals b (.obj [("k", .str "x" ⟨2, 10⟩)].reverse ⟨2, 6⟩) :=
  parsed_equals_member_perm _ _ _ b exV0_parsed (List.reverse_perm _).symm
example (b : Matrix.Raw) : subset exV0 b = subset (.obj [("k", .str "x" ⟨2, 10⟩)].reverse ⟨2, 6⟩) b ∧
    subset b exV0 = subset b (.obj [("k", .str "x" ⟨2, 10⟩)].reverse ⟨2, 6⟩) :=
  parsed_subset_member_perm _ _ _ b exV0_parsed (List.reverse_perm _).symm
example (b : Matrix.Raw) : equals exV0 b = equals exV1 b ∧ equals b exV0 = equals b exV1 :=
  parsed_equals_congr_same exV0 exV1 b exV0_parsed exV1_parsed ((parsed_equals_iff _ _ exV0_parsed exV1_parsed).1 (by decide))
example (filt : Matrix.Raw) : ([Raw.str "u" ⟨1, 1⟩] ++ exV0 :: []).any (fun v => subset v filt) =
    ([Raw.str "u" ⟨1, 1⟩] ++ Raw.obj [("k", Raw.str "x" ⟨2, 10⟩)].reverse ⟨2, 6⟩ :: []).any (fun v => subset v filt) :=
  parsed_exclude_match_value_perm _ _ _ exV0_parsed (List.reverse_perm _).symm filt _ _
example : exVals.any (fun v => subset v exExc) = exVals.any (fun v => subset v (.obj [("k", .str "x" ⟨4, 20⟩)].reverse ⟨4, 16⟩)) :=
  parsed_exclude_match_filter_perm _ _ _ exExc_parsed (List.reverse_perm _).symm _
/-- the exclude entry `{os: {k: x}}` matches the row value it was copied from -/
example : subset exV0 exExc = true := parsed_equals_subset _ _ exV0_parsed exExc_parsed (by decide)
example : (checkDuplicates exMat.rows).length = (checkDuplicates [⟨"os", some exVals.reverse⟩]).length :=
  parsed_checkDuplicates_count_perm exCfg ⟨1, 1⟩ exMatrixNode _
    (.cons (show RowPerm exRow _ from ⟨rfl, (List.reverse_perm exVals).symm⟩) .nil)
example : (checkDuplicates [exRow]).length = (checkDuplicates [⟨"os", some exVals.reverse⟩]).length :=
  checkDuplicates_count_perm _ _
    (by intro r hr vs hvs; simp only [List.mem_singleton] at hr; subst hr
        exact parsed_row_wf exCfg ⟨1, 1⟩ exMatrixNode exRow exRow_mem' vs hvs)
    (.cons ⟨rfl, (List.reverse_perm exVals).symm⟩ .nil)
example : ∃ row q, Diag.dup ⟨2, 31⟩ row q ∈ check exMat :=
  (check_dup_at_pos exMat ⟨2, 31⟩).2 ⟨exRow, exRow_mem, exVals, rfl, 3, by decide, rfl, 2, by decide,
    (equals_iff_same _ _).1 (by decide)⟩
example : Diag.dup ⟨2, 31⟩ "os" ⟨2, 28⟩ ∈ check exMat :=
  (dup_mem_check exMat _ _ _ _ rfl).2 ⟨exRow, exRow_mem, exVals, rfl, by decide⟩
example : Diag.dup ⟨2, 31⟩ "os" ⟨2, 28⟩ ∉ checkExclude exMat := dup_not_mem_checkExclude _ _ _ _
example : Diag.dup ⟨2, 31⟩ "os" ⟨2, 28⟩ ∉ excludeAssign [] [] ⟨"os", ⟨4, 12⟩, exExc⟩ := dup_not_mem_excludeAssign _ _ _ _ _ _
example : (Rules.matrixDiag (.dup ⟨2, 31⟩ "os" ⟨2, 28⟩)).code = "matrix-duplicate" :=
  (matrixDiag_dup_iff _ _ rfl).2 ⟨_, _, _, rfl⟩

/-- `on: push` / `jobs: { T: { runs-on: u, strategy: { matrix: … }, steps: [ {run: x} ] } }` -/
def exDoc : Node :=
  .mk .document "" "" false 1 1
    [.mk .mapping "!!map" "" false 1 1
      [sc "on" 1 1, sc "push" 1 5,
       sc "jobs" 1 10, .mk .mapping "!!map" "" false 1 16
        [sc "T" 1 16, .mk .mapping "!!map" "" false 1 19
          [sc "runs-on" 1 19, sc "u" 1 28,
           sc "strategy" 1 31, .mk .mapping "!!map" "" false 1 41 [sc "matrix" 1 41, exMatrixNode],
           sc "steps" 5 1, .mk .sequence "!!seq" "" false 5 8
             [.mk .mapping "!!map" "" false 5 9 [sc "run" 5 9, sc "x" 5 14]]]]]]

example : ∀ j ∈ Rules.jobsOf (parse exCfg exDoc).1, JobMatParsed exCfg j := parse_matParsed exCfg exDoc
example : ∀ p ∈ (parseJobs exCfg (sc "x" 1 1)).1, JobMatParsed exCfg p.2 := parseJobs_matParsed _ _
example : JobMatParsed exCfg (parseJob exCfg ⟨"t", false, ⟨1, 16⟩⟩ (sc "x" 1 1)).1 := parseJob_matParsed _ _ _
example : JobMatParsed exCfg (jobKey exCfg { job := { id := ⟨"t", false, ⟨1, 16⟩⟩, pos := ⟨1, 16⟩ } }
    ⟨"strategy", ⟨"strategy", false, ⟨1, 31⟩⟩, sc "x" 1 1⟩).1.job :=
  jobKey_matParsed _ _ _ (fun s m e => by cases e)
example : ∀ m, (parseStrategy exCfg ⟨1, 31⟩ (sc "x" 1 1)).1.matrix = some m →
    ∃ (pos' : Yaml.Pos) (n' : Node), m = (parseMatrix exCfg pos' n').1 := parseStrategy_matrix _ _ _

/-- the job `t` of the parsed example workflow, its strategy and its matrix -/
theorem exJob_spec : ∃ j ∈ Rules.jobsOf (parse exCfg exDoc).1, ∃ s m, j.strategy = some s ∧ s.matrix = some m ∧
    m.expr = none ∧ Rules.matrixOf m = { exMat with pos := ⟨1, 41⟩ } ∧
    Rules.matrixJob j = [⟨⟨2, 20⟩, "matrix", "matrix-duplicate", ["line:2,col:6"]⟩,
                         ⟨⟨2, 31⟩, "matrix", "matrix-duplicate", ["line:2,col:28"]⟩] := by
  refine ⟨_, List.mem_cons_self, _, _, rfl, rfl, rfl, rfl, ?_⟩
  decide +kernel

example : ∃ j ∈ Rules.jobsOf (parse exCfg exDoc).1, ∃ s m, j.strategy = some s ∧ s.matrix = some m ∧
    MatWF (Rules.matrixOf m) ∧ (∀ v ∈ valuesOf (Rules.matrixOf m), ParsedValue v) ∧
    (∃ d ∈ Rules.matrixJob j, d.code = "matrix-duplicate" ∧ d.pos = ⟨2, 31⟩) := by
  obtain ⟨j, hj, s, m, hs, hm, he, hmat, _⟩ := exJob_spec
  refine ⟨j, hj, s, m, hs, hm, (parsed_workflow_matrix_wf exCfg exDoc j hj s m hs hm).1,
    (parsed_workflow_matrix_wf exCfg exDoc j hj s m hs hm).2, ?_⟩
  refine (rule_dup_at_pos exCfg exDoc j hj s m hs hm he ⟨2, 31⟩).2 ?_
  rw [hmat]
  exact ⟨exRow, exRow_mem, exVals, rfl, 3, by decide, rfl, 2, by decide, (equals_iff_same _ _).1 (by decide)⟩
example : ∃ j ∈ Rules.jobsOf (parse exCfg exDoc).1, ∃ s m, j.strategy = some s ∧ s.matrix = some m ∧
    Rules.matrixJob j = (check (Rules.matrixOf m)).map Rules.matrixDiag := by
  obtain ⟨j, hj, s, m, hs, hm, he, _, _⟩ := exJob_spec
  exact ⟨j, hj, s, m, hs, hm, matrixJob_eq j s m hs hm he⟩

/-! ### examples for the auxiliary lemmas -/

example : RawWFList exVals ↔ ∀ v ∈ exVals, RawWF v := rawWFList_iff _
example : RawWFProps [("k", exV0)] ↔ ∀ p ∈ [("k", exV0)], RawWF p.2 := rawWFProps_iff _
example : ∀ r, (rawValue exCfg exMatrixNode).1 = some r → RawWF r := rawValue_wf exCfg exMatrixNode
example : RawWFList (rawSeq exCfg exMatrixNode.content).1 := rawSeq_wf exCfg _
example : ((rawProps exCfg exMatrixNode.content [("include", ⟨9, 9⟩)]).1.map (·.1)).Nodup :=
  (rawProps_wf exCfg _ _).1
/-- an id seen before the loop starts is never produced: `include` is dropped here -/
example : (rawProps exCfg exMatrixNode.content [("include", ⟨9, 9⟩)]).1.map (·.1) = ["os", "exclude"] := by rfl
example : ∀ p ∈ (rawProps exCfg exMatrixNode.content [("include", ⟨9, 9⟩)]).1, lookupSeen p.1 [("include", ⟨9, 9⟩)] = none :=
  (rawProps_wf exCfg _ _).2.2
example : (setAssoc "b" 2 [("a", 0), ("b", 1)]).map (·.1) = ["a", "b"] ∧ (setAssoc "c" 2 [("a", 0), ("b", 1)]).map (·.1) = ["a", "b", "c"] := by
  constructor <;> simp [setAssoc_keys]
example : ∀ p ∈ setAssoc "b" 2 [("a", 0), ("b", 1)], p = ("b", 2) ∨ p ∈ [("a", 0), ("b", 1)] := setAssoc_mem _ _ _
example : ((setAssoc "b" 2 [("a", 0), ("b", 1)]).map (·.1)).Nodup := setAssoc_nodup _ _ _ (by decide)
example (kvs : List KV) : ∀ p ∈ (matrixAssigns exCfg kvs).1, RawWF p.2.value := (matrixAssigns_wf exCfg kvs).2
example : ((matrixAssigns exCfg [⟨"a", ⟨"A", false, ⟨3, 12⟩⟩, sc "z" 3 15⟩]).1.map (·.1)).Sublist ["a"] :=
  (matrixAssigns_wf exCfg _).1
example : ∀ x ∈ (PW.matrixCombos exCfg "include" [exMatrixNode]).1, ∀ as, x.assigns = some as →
    (as.map (·.1)).Nodup ∧ ∀ p ∈ as, RawWF p.2.value := matrixCombos_wf exCfg "include" _
example : AstMatWF (matrixKey exCfg { rows := some [], pos := ⟨1, 1⟩ } ⟨"os", ⟨"os", false, ⟨2, 1⟩⟩, exMatrixNode⟩).1 :=
  matrixKey_wf _ _ _ ⟨fun rows e => (by simp only [Option.some.injEq] at e; subst e; simp),
    fun cs e => (by cases e), fun cs e => (by cases e)⟩
example : MatWF (Rules.matrixOf (parseMatrix exCfg ⟨1, 1⟩ exMatrixNode).1) := matrixOf_wf _ (parseMatrix_wf _ _ _)
example : ∀ as ∈ assignsOf (Rules.matrixCombos (parseMatrixCombinations exCfg "include" exMatrixNode).1),
    (as.map (·.id)).Nodup ∧ ∀ a ∈ as, RawWF a.value :=
  assignsOf_matrixCombos _ (parseMatrixCombinations_wf _ _ _)
example : (3 : Nat) ∈ (if 1 = 2 then [1] else [3]) → 3 ∈ [1] ∨ 3 ∈ [3] := mem_ite

end AL.C19P
