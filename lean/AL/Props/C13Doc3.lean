import AL.Props.C13Doc
import AL.Model.Rules
/-
  C13 at the level of the whole document, continued: a GENERAL lifting lemma and, with it, the sections that
  `C13Doc` does not reach.

  `Path P Q ctx` : the parser `P`, run on the node `ctx v`, runs the parser `Q` on the sub-node `v`, and
    * (cong) whatever replaces `v` by a `v'` on which `Q` gives the same result and the same diagnostics plus `es`
      makes `P` give the same result and the same diagnostics plus `es` on `ctx v'`;
    * (mem)  every diagnostic of `Q v` is a diagnostic of `P (ctx v)`.
  Paths compose (`Path.trans`), every edge of the workflow syntax is a path (`Sect.edge` and its instances `e_*`), so for
  every chain of sections from the root to a mapping M a key-level fact about M's own diagnostics is a fact about the
  diagnostics of the whole document (`Path.adds`, `Path.ins`, `Path.dup`, `Path.reported`): one line per section.

  Contents
    4.  the general lemma: `Path`, `Sect.edge`, the edges `e_*`, the usual places `path_*`
    1.  repeated keys: the sections of free names (case-insensitive): `*_duplicate_in_document`; 1' elements of
        `matrix.include` / `exclude`; 1'' object literals in matrix rows; 1''' every remaining section, along any path
    2.  missing mandatory keys: `*_missing_*_in_document`, `*_incomplete_in_document`, `schedule_item_in_document`;
        2' `with:` without `uses:`, `shell:` without `run:`
    3.  unknown keys in the sections `C13Doc` does not reach: `*_unknown_in_document`, `*_unknown_at`;
        3' an unknown scope of `permissions:` (the rule `permissions`, on the AST of the whole file)
    found (proved on witnesses): `step_with_after_run_not_parsed`, `container_without_image_not_reported`,
        `service_without_image_not_reported`, `schedule_item_unknown_key_drops_cron`
-/
namespace AL.C13D3
open AL.PW AL.Yaml AL.Ast AL.C13P AL.C13D

/-! ### paths -/

structure Path {α β : Type} (P : Node → R α) (Q : Node → R β) (ctx : Node → Node) : Prop where
  cong : ∀ v v' es, Ext Q v v' es → Ext P (ctx v) (ctx v') es
  mem : ∀ v e, e ∈ (Q v).2 → e ∈ (P (ctx v)).2

theorem Path.refl {α : Type} (P : Node → R α) : Path P P id := ⟨fun _ _ _ h => h, fun _ _ h => h⟩

theorem Path.trans {α β γ : Type} {P : Node → R α} {Q : Node → R β} {T : Node → R γ} {c₁ c₂ : Node → Node}
    (h₁ : Path P Q c₁) (h₂ : Path Q T c₂) : Path P T (fun v => c₁ (c₂ v)) :=
  ⟨fun v v' es h => h₁.cong _ _ es (h₂.cong v v' es h), fun v e h => h₁.mem _ e (h₂.mem v e h)⟩

/-- the parent may be presented differently on the nodes the context produces (a wrapper around the result) -/
theorem Path.wrap {α α' β : Type} {P : Node → R α} {P' : Node → R α'} {Q : Node → R β} {ctx : Node → Node} (f : α' → α)
    (h : Path P' Q ctx) (he : ∀ v, P (ctx v) = (f (P' (ctx v)).1, (P' (ctx v)).2)) : Path P Q ctx := by
  refine ⟨fun v v' es hx => ?_, fun v e hx => ?_⟩
  · have := h.cong v v' es hx
    simp only [Ext, he]
    exact ⟨by rw [this.1], this.2⟩
  · rw [he]; exact h.mem v e hx

/-- **the general lifting lemma (1)**: along any path from the document to a sub-node, a change of the sub-node that is
invisible in the sub-parser's result and adds exactly `e` to its diagnostics is invisible in the whole AST and adds exactly
`e` to the diagnostics of the whole file -/
theorem Path.adds {β : Type} {cfg : Cfg} {Q : Node → R β} {ctx : Node → Node} (hp : Path (parse cfg) Q ctx)
    {v v' : Node} {e : PErr} (h : Ext Q v v' [e]) : AddsExactly cfg (ctx v) (ctx v') e :=
  hp.cong v v' [e] h

/-- **the general lifting lemma (2)**: a diagnostic of the sub-parser is a diagnostic of the whole file -/
theorem Path.reported {β : Type} {cfg : Cfg} {Q : Node → R β} {ctx : Node → Node} (hp : Path (parse cfg) Q ctx)
    {v : Node} {e : PErr} (h : e ∈ (Q v).2) : e ∈ (parse cfg (ctx v)).2 :=
  hp.mem v e h

/-- the form in which the section theorems of `C13Parse` come -/
theorem Path.ins {β : Type} {cfg : Cfg} {Q : Node → R β} {ctx : Node → Node} (hp : Path (parse cfg) Q ctx)
    {tag : String} {l c : Nat} {pre post : List (Node × Node)} {kn vn : Node} {e : PErr}
    (h : Ins Q tag l c pre post kn vn e) :
    AddsExactly cfg (ctx (mapNode tag l c (pre ++ post))) (ctx (mapNode tag l c (pre ++ (kn, vn) :: post))) e :=
  hp.cong _ _ [e] h

/-! ### contexts -/

/-- a mapping node with one distinguished pair: `pre ++ (key, ·) :: post` -/
structure MapCtx where
  tag : String
  l : Nat
  c : Nat
  pre : List (Node × Node)
  key : Node
  post : List (Node × Node)

def MapCtx.at (m : MapCtx) (v : Node) : Node := mapNode m.tag m.l m.c (m.pre ++ (m.key, v) :: m.post)

/-- the distinguished key is the fixed key `name` of a case-sensitive section, and the first one with that name -/
def MapCtx.Keyed (cfg : Cfg) (m : MapCtx) (name : String) : Prop := AtJobKey cfg name m.pre m.key

/-- the distinguished key is a free name of a case-insensitive section, and the first one with that name (folded) -/
def MapCtx.Free (cfg : Cfg) (m : MapCtx) : Prop := ∀ q ∈ m.pre, keyId cfg false q.1 ≠ keyId cfg false m.key

instance (cfg : Cfg) (m : MapCtx) : Decidable (m.Free cfg) :=
  inferInstanceAs (Decidable (∀ q ∈ m.pre, keyId cfg false q.1 ≠ keyId cfg false m.key))

/-- a sequence node with one distinguished element -/
structure SeqCtx where
  tag : String
  l : Nat
  c : Nat
  before : List Node
  after : List Node

def SeqCtx.at (s : SeqCtx) (v : Node) : Node := seqNode s.tag s.l s.c (s.before ++ v :: s.after)

/-! ### the generic edge: a section parser and the value of one of its keys -/

/-- `mappingLoop_value` with the ids of the entries before the distinguished one -/
theorem mappingLoop_value' (cfg : Cfg) (what : String) (cs : Bool) (kn vn vn' : Node) (post : List (Node × Node)) :
    ∀ (pre : List (Node × Node)) (seen : List (String × Yaml.Pos)),
      lookupSeen (keyId cfg cs kn) seen = none → (∀ q ∈ pre, keyId cfg cs q.1 ≠ keyId cfg cs kn) →
      ∃ kvs₁ kvs₂ es, mappingLoop cfg what cs (pre ++ (kn, vn) :: post) seen =
          (kvs₁ ++ ⟨keyId cfg cs kn, (parseString kn false).1, vn⟩ :: kvs₂, es) ∧
        mappingLoop cfg what cs (pre ++ (kn, vn') :: post) seen =
          (kvs₁ ++ ⟨keyId cfg cs kn, (parseString kn false).1, vn'⟩ :: kvs₂, es) ∧
        ∀ kv ∈ kvs₁, ∃ q ∈ pre, kv.id = keyId cfg cs q.1 := by
  intro pre
  induction pre with
  | nil =>
    intro seen hs _
    simp only [List.nil_append, mappingLoop_cons, hs]
    exact ⟨[], _, _, rfl, rfl, by simp⟩
  | cons q rest ih =>
    intro seen hs hne
    obtain ⟨kn', vn''⟩ := q
    have hk : keyId cfg cs kn' ≠ keyId cfg cs kn := hne (kn', vn'') (by simp)
    have hne' : ∀ q ∈ rest, keyId cfg cs q.1 ≠ keyId cfg cs kn := fun q hq => hne q (by simp [hq])
    simp only [List.cons_append, mappingLoop_cons]
    cases lookupSeen (keyId cfg cs kn') seen with
    | some pos =>
      obtain ⟨k1, k2, es, e1, e2, hid⟩ := ih seen hs hne'
      refine ⟨k1, k2, _, by rw [e1], by rw [e2], ?_⟩
      intro kv hkv
      obtain ⟨q, hq, e⟩ := hid kv hkv
      exact ⟨q, by simp [hq], e⟩
    | none =>
      have hs' : lookupSeen (keyId cfg cs kn) (seen ++ [(keyId cfg cs kn', (parseString kn' false).1.pos)]) = none := by
        rw [lookupSeen_snoc_ne _ _ hk]; exact hs
      obtain ⟨k1, k2, es, e1, e2, hid⟩ := ih _ hs' hne'
      refine ⟨⟨keyId cfg cs kn', (parseString kn' false).1, vn''⟩ :: k1, k2, _, by rw [e1]; rfl, by rw [e2]; rfl, ?_⟩
      intro kv hkv
      rcases List.mem_cons.1 hkv with rfl | hkv
      · exact ⟨(kn', vn''), by simp, rfl⟩
      · obtain ⟨q, hq, e⟩ := hid kv hkv
        exact ⟨q, by simp [hq], e⟩

/-- `loop_ext` when the iteration is only known at the state the loop is in -/
theorem loop_ext_at {σ : Type} (step : σ → KV → σ × List PErr) (kv kv' : KV) (es : List PErr)
    (init : σ) (pre post : List KV)
    (h : (step (loop step init pre).1 kv').1 = (step (loop step init pre).1 kv).1 ∧
      (step (loop step init pre).1 kv').2.Perm (es ++ (step (loop step init pre).1 kv).2)) :
    (loop step init (pre ++ kv' :: post)).1 = (loop step init (pre ++ kv :: post)).1 ∧
    (loop step init (pre ++ kv' :: post)).2.Perm (es ++ (loop step init (pre ++ kv :: post)).2) := by
  rw [loop_append, loop_append, loop_cons, loop_cons]
  obtain ⟨h1, h2⟩ := h
  simp only [h1]
  refine ⟨trivial, ?_⟩
  rw [List.perm_iff_count]
  intro a
  have := (List.perm_iff_count.1 h2) a
  simp only [List.count_append] at this ⊢
  omega

/-- **the generic edge.** A section parser of the shape `Sect.run` on a mapping node, and the value `v` of one of its keys
(the first with its id): if — in every state the loop can be in when it reaches that key (`I`) — the loop body is a path
from itself to `Q` on the value, then the section parser is a path to `Q` on the value -/
theorem Sect.edge {σ ρ β : Type} (S : Sect σ ρ) (cfg : Cfg) (what : String) (ae cs : Bool) (m : MapCtx) (Q : Node → R β)
    (I : σ → Prop)
    (hfirst : ∀ q ∈ m.pre, keyId cfg cs q.1 ≠ keyId cfg cs m.key)
    (hI0 : I S.init)
    (hI : ∀ s kv, (∃ q ∈ m.pre, kv.id = keyId cfg cs q.1) → I s → I (S.step s kv).1)
    (hstep : ∀ s, I s → Path (fun v => S.step s ⟨keyId cfg cs m.key, (parseString m.key false).1, v⟩) Q id) :
    Path (fun n => S.run cfg what n ae cs) Q m.at := by
  refine ⟨fun v v' es hx => ?_, fun v e hx => ?_⟩
  · obtain ⟨k1, k2, es', e1, e2, hid⟩ := mappingLoop_value' cfg what cs m.key v v' m.post m.pre [] rfl hfirst
    have hs0 : I (loop S.step S.init k1).1 :=
      loop_inv S.step I k1 (fun s kv hm hs => hI s kv (hid kv hm) hs) _ hI0
    have hc : Ext (fun v => S.step (loop S.step S.init k1).1 ⟨keyId cfg cs m.key, (parseString m.key false).1, v⟩) v v' es :=
      (hstep _ hs0).cong v v' es hx
    obtain ⟨h1, h2⟩ := loop_ext_at S.step _ _ es S.init k1 k2 hc
    simp only [Ext, MapCtx.at, Sect.run, parseMapping_mapNode, e1, e2]
    have hemp : (k1 ++ ⟨keyId cfg cs m.key, (parseString m.key false).1, v'⟩ :: k2).isEmpty =
        (k1 ++ ⟨keyId cfg cs m.key, (parseString m.key false).1, v⟩ :: k2).isEmpty := by
      cases k1 <;> rfl
    simp only [h1, hemp]
    refine ⟨trivial, ?_⟩
    rw [List.perm_iff_count]
    intro a
    have := (List.perm_iff_count.1 h2) a
    simp only [List.count_append] at this ⊢
    omega
  · obtain ⟨k1, k2, es', e1, _, hid⟩ := mappingLoop_value' cfg what cs m.key v v m.post m.pre [] rfl hfirst
    have hs0 : I (loop S.step S.init k1).1 :=
      loop_inv S.step I k1 (fun s kv hm hs => hI s kv (hid kv hm) hs) _ hI0
    have hm : e ∈ (S.step (loop S.step S.init k1).1 ⟨keyId cfg cs m.key, (parseString m.key false).1, v⟩).2 :=
      (hstep _ hs0).mem v e hx
    have := loop_mem S.step k1 k2 _ S.init e hm
    simp only [MapCtx.at, Sect.run, parseMapping_mapNode, e1, List.mem_append]
    exact Or.inl (Or.inr this)

/-- the usual case: the loop body does not look at its state to decide what to do with the key -/
theorem Sect.edge' {σ ρ β : Type} (S : Sect σ ρ) (cfg : Cfg) (what : String) (ae cs : Bool) (m : MapCtx) (Q : Node → R β)
    (hfirst : ∀ q ∈ m.pre, keyId cfg cs q.1 ≠ keyId cfg cs m.key)
    (hstep : ∀ s, Path (fun v => S.step s ⟨keyId cfg cs m.key, (parseString m.key false).1, v⟩) Q id) :
    Path (fun n => S.run cfg what n ae cs) Q m.at :=
  Sect.edge S cfg what ae cs m Q (fun _ => True) hfirst trivial (fun _ _ _ _ => trivial) (fun s _ => hstep s)

theorem MapCtx.Keyed.id {cfg : Cfg} {m : MapCtx} {name : String} (h : m.Keyed cfg name) : keyId cfg true m.key = name := by
  rw [keyId_cs cfg m.key h.good, h.value]

theorem MapCtx.Keyed.first' {cfg : Cfg} {m : MapCtx} {name : String} (h : m.Keyed cfg name) :
    ∀ q ∈ m.pre, keyId cfg true q.1 ≠ keyId cfg true m.key := by
  intro q hq; rw [h.id]; exact h.first q hq

/-- the loop body hands the value to `Q` and keeps `Q`'s diagnostics: `simp` with the definition of the loop body -/
local macro "step_path" "[" ls:Lean.Parser.Tactic.simpLemma,* "]" : tactic =>
  `(tactic| (refine ⟨fun v v' es h => ?_, fun v e he => ?_⟩
             · simp only [Ext, id, $ls,*, h.1]; exact ⟨trivial, h.2⟩
             · simp only [id, $ls,*]; exact he))

/-! ### the edges of the workflow syntax -/

/-- the workflow's key loop on the root node of a document (the final checks are positioned at the document node, whose
position `parse` fixes to 1:1) -/
def wfRun (cfg : Cfg) (root : Node) : R Workflow :=
  (workflowSect cfg (docNode (mapNode "" 0 0 []))).run cfg "workflow" root false true

theorem parse_docNode (cfg : Cfg) (root : Node) : parse cfg (docNode root) = wfRun cfg root :=
  parse_eq_run cfg (docNode root) root [] rfl

/-- document → root node -/
theorem path_root (cfg : Cfg) : Path (parse cfg) (wfRun cfg) docNode :=
  ⟨fun v v' es h => by simpa only [Ext, parse_docNode] using h, fun v e h => by rw [parse_docNode]; exact h⟩

/-- root → the value of a top-level key -/
theorem wf_edge {β : Type} (cfg : Cfg) (m : MapCtx) (name : String) (hk : m.Keyed cfg name) (Q : Node → R β)
    (hstep : ∀ w, Path (fun v => workflowKey cfg w ⟨name, (parseString m.key false).1, v⟩) Q id) :
    Path (wfRun cfg) Q m.at :=
  Sect.edge' (workflowSect cfg (docNode (mapNode "" 0 0 []))) cfg "workflow" false true m Q hk.first'
    (by intro s; rw [hk.id]; exact hstep s)

/-- a job → the value of one of its keys -/
theorem job_edge {β : Type} (cfg : Cfg) (jid : Str) (m : MapCtx) (name : String) (hk : m.Keyed cfg name) (Q : Node → R β)
    (hstep : ∀ s, Path (fun v => jobKey cfg s ⟨name, (parseString m.key false).1, v⟩) Q id) :
    Path (parseJob cfg jid) Q m.at :=
  Sect.edge' (jobSect cfg jid) cfg (jobWhat jid.value) false true m Q hk.first'
    (by intro s; rw [hk.id]; exact hstep s)

section
variable (cfg : Cfg) (m : MapCtx)

theorem e_wf_on (hk : m.Keyed cfg "on") : Path (wfRun cfg) (parseEvents cfg (parseString m.key false).1.pos) m.at :=
  wf_edge cfg m "on" hk _ (fun w => by step_path [workflowKey])

theorem e_wf_permissions (hk : m.Keyed cfg "permissions") :
    Path (wfRun cfg) (parsePermissions cfg (parseString m.key false).1.pos) m.at :=
  wf_edge cfg m "permissions" hk _ (fun w => by step_path [workflowKey])

theorem e_wf_env (hk : m.Keyed cfg "env") : Path (wfRun cfg) (parseEnv cfg) m.at :=
  wf_edge cfg m "env" hk _ (fun w => by step_path [workflowKey])

theorem e_wf_defaults (hk : m.Keyed cfg "defaults") :
    Path (wfRun cfg) (parseDefaults cfg (parseString m.key false).1.pos) m.at :=
  wf_edge cfg m "defaults" hk _ (fun w => by step_path [workflowKey])

theorem e_wf_concurrency (hk : m.Keyed cfg "concurrency") :
    Path (wfRun cfg) (parseConcurrency cfg (parseString m.key false).1.pos) m.at :=
  wf_edge cfg m "concurrency" hk _ (fun w => by step_path [workflowKey])

theorem e_wf_jobs (hk : m.Keyed cfg "jobs") : Path (wfRun cfg) (parseJobs cfg) m.at :=
  wf_edge cfg m "jobs" hk _ (fun w => by step_path [workflowKey])

end

/-- the same when the loop body adds diagnostics of its own after those of `Q` -/
local macro "step_path_x" "[" ls:Lean.Parser.Tactic.simpLemma,* "]" : tactic =>
  `(tactic| (refine ⟨fun v v' es h => ?_, fun v e he => ?_⟩
             · simp only [Ext, id, $ls,*, h.1]
               refine ⟨trivial, ?_⟩
               have h2 := h.2
               rw [List.perm_iff_count] at h2 ⊢
               intro a
               have := h2 a
               simp only [List.count_append] at this ⊢
               omega
             · simp only [id, $ls,*]; simp [he]))

/-- a section of free names (`mapKVs`): the section → the value of one name -/
theorem mapSect_edge {β : Type} (f : KV → R β) (cfg : Cfg) (what : String) (ae cs : Bool) (m : MapCtx)
    (hfirst : ∀ q ∈ m.pre, keyId cfg cs q.1 ≠ keyId cfg cs m.key) :
    Path (fun n => (mapSect f).run cfg what n ae cs) (fun v => f ⟨keyId cfg cs m.key, (parseString m.key false).1, v⟩) m.at :=
  Sect.edge' (mapSect f) cfg what ae cs m _ hfirst (fun s => by step_path [mapSect, plain])

section
variable (cfg : Cfg) (jid : Str) (m : MapCtx)

/-- `jobs:` → one job -/
theorem e_jobs_job (hk : m.Free cfg) : Path (parseJobs cfg) (parseJob cfg (parseString m.key false).1) m.at :=
  Path.wrap id (mapSect_edge (fun kv => parseJob cfg kv.key kv.val) cfg (sectionWhat "jobs") false false m hk)
    (by intro v; simp only [parseJobs, parseSectionMapping, mapSect_run]; rfl)

theorem e_job_runsOn (hk : m.Keyed cfg "runs-on") : Path (parseJob cfg jid) (parseRunsOn cfg) m.at :=
  job_edge cfg jid m "runs-on" hk _ (fun s => by step_path [jobKey])

theorem e_job_permissions (hk : m.Keyed cfg "permissions") :
    Path (parseJob cfg jid) (parsePermissions cfg (parseString m.key false).1.pos) m.at :=
  job_edge cfg jid m "permissions" hk _ (fun s => by step_path [jobKey])

theorem e_job_environment (hk : m.Keyed cfg "environment") :
    Path (parseJob cfg jid) (parseEnvironment cfg (parseString m.key false).1.pos) m.at :=
  job_edge cfg jid m "environment" hk _ (fun s => by step_path [jobKey])

theorem e_job_concurrency (hk : m.Keyed cfg "concurrency") :
    Path (parseJob cfg jid) (parseConcurrency cfg (parseString m.key false).1.pos) m.at :=
  job_edge cfg jid m "concurrency" hk _ (fun s => by step_path [jobKey])

theorem e_job_outputs (hk : m.Keyed cfg "outputs") : Path (parseJob cfg jid) (parseOutputs cfg) m.at :=
  job_edge cfg jid m "outputs" hk _ (fun s => by step_path [jobKey])

theorem e_job_env (hk : m.Keyed cfg "env") : Path (parseJob cfg jid) (parseEnv cfg) m.at :=
  job_edge cfg jid m "env" hk _ (fun s => by step_path [jobKey])

theorem e_job_defaults (hk : m.Keyed cfg "defaults") :
    Path (parseJob cfg jid) (parseDefaults cfg (parseString m.key false).1.pos) m.at :=
  job_edge cfg jid m "defaults" hk _ (fun s => by step_path [jobKey])

theorem e_job_steps (hk : m.Keyed cfg "steps") : Path (parseJob cfg jid) (parseSteps cfg) m.at :=
  job_edge cfg jid m "steps" hk _ (fun s => by step_path [jobKey])

theorem e_job_strategy (hk : m.Keyed cfg "strategy") :
    Path (parseJob cfg jid) (parseStrategy cfg (parseString m.key false).1.pos) m.at :=
  job_edge cfg jid m "strategy" hk _ (fun s => by step_path [jobKey])

theorem e_job_container (hk : m.Keyed cfg "container") :
    Path (parseJob cfg jid) (parseContainer cfg "container" (parseString m.key false).1.pos) m.at :=
  job_edge cfg jid m "container" hk _ (fun s => by step_path [jobKey])

theorem e_job_services (hk : m.Keyed cfg "services") : Path (parseJob cfg jid) (parseServices cfg) m.at :=
  job_edge cfg jid m "services" hk _ (fun s => by step_path [jobKey])

/-- `with:` of a job that calls a reusable workflow: the job → the mapping as `parseMapping` reads it -/
theorem e_job_with (hk : m.Keyed cfg "with") :
    Path (parseJob cfg jid) (fun v => parseMapping cfg (sectionWhat "with") v false false) m.at :=
  job_edge cfg jid m "with" hk _ (fun s => by step_path_x [jobKey, parseSectionMapping])

end

/-- the same when `Q` is presented differently from the code of the loop body: `qs` unfold `Q` -/
local macro "step_path_u" "[" ls:Lean.Parser.Tactic.simpLemma,* "]" "[" qs:Lean.Parser.Tactic.simpLemma,* "]" : tactic =>
  `(tactic| (refine ⟨fun v v' es h => ?_, fun v e he => ?_⟩
             · have h1 := h.1
               have h2 := h.2
               simp only [$qs,*] at h1 h2
               simp only [Ext, id, $ls,*, h1]
               exact ⟨trivial, h2⟩
             · simp only [$qs,*] at he
               simp only [id, $ls,*]; exact he))

/-! #### `secrets:` of a calling job -/

/-- `secrets:` of a job that calls a reusable workflow, as `jobKey` reads it: `inherit`, another scalar (reported), or a
mapping of free names -/
def jobSecrets (cfg : Cfg) (v : Node) : R (Bool × Option (List (String × CallArg))) :=
  if v.kind = .scalar then
    if v.value = "inherit" then ((true, none), []) else ((false, none), [errAt v "secrets-scalar" [v.value]])
  else
    let m := parseSectionMapping cfg "secrets" v false false
    let r := callArgs m.1
    ((false, some r.1), m.2 ++ r.2)

theorem e_job_secrets (cfg : Cfg) (jid : Str) (m : MapCtx) (hk : m.Keyed cfg "secrets") :
    Path (parseJob cfg jid) (jobSecrets cfg) m.at :=
  job_edge cfg jid m "secrets" hk _ (fun s => by
    refine ⟨fun v v' es h => ?_, fun v e he => ?_⟩
    · have h1 := h.1
      have h2 := h.2
      simp only [jobSecrets] at h1 h2
      simp only [Ext, id, jobKey]
      by_cases k : v.kind = .scalar <;> by_cases k' : v'.kind = .scalar <;>
        by_cases i : v.value = "inherit" <;> by_cases i' : v'.value = "inherit" <;> simp_all
    · simp only [jobSecrets] at he
      simp only [id, jobKey]
      by_cases k : v.kind = .scalar <;> by_cases i : v.value = "inherit" <;> simp_all)

/-! #### `steps:` and a step -/

/-- a loop over the elements of a sequence node, each element parsed on its own -/
theorem seq_edge {β γ : Type} (F : List Node → R γ) (f : Node → R β) (comb : β → γ → γ)
    (hcons : ∀ c cs, F (c :: cs) = (comb (f c).1 (F cs).1, (f c).2 ++ (F cs).2)) (b : List Node) :
    ∀ a : List Node, (∀ v v' es, Ext f v v' es → (F (a ++ v' :: b)).1 = (F (a ++ v :: b)).1 ∧
        (F (a ++ v' :: b)).2.Perm (es ++ (F (a ++ v :: b)).2)) ∧
      (∀ v e, e ∈ (f v).2 → e ∈ (F (a ++ v :: b)).2) := by
  intro a
  induction a with
  | nil =>
    refine ⟨fun v v' es h => ?_, fun v e he => ?_⟩
    · simp only [List.nil_append, hcons, h.1]
      refine ⟨trivial, ?_⟩
      have := h.2
      rw [List.perm_iff_count] at this ⊢
      intro x; have := this x
      simp only [List.count_append] at this ⊢
      omega
    · simp only [List.nil_append, hcons, List.mem_append]
      exact Or.inl he
  | cons c rest ih =>
    refine ⟨fun v v' es h => ?_, fun v e he => ?_⟩
    · obtain ⟨i1, i2⟩ := ih.1 v v' es h
      simp only [List.cons_append, hcons, i1]
      refine ⟨trivial, ?_⟩
      rw [List.perm_iff_count] at i2 ⊢
      intro x; have := i2 x
      simp only [List.count_append] at this ⊢
      omega
    · simp only [List.cons_append, hcons, List.mem_append]
      exact Or.inr (ih.2 v e he)

theorem e_steps_step (cfg : Cfg) (s : SeqCtx) : Path (parseSteps cfg) (parseStep cfg) s.at := by
  have hc : ∀ x : Node, checkSequence "steps" (s.at x) false = (true, []) := by
    intro x
    simp [checkSequence, SeqCtx.at, seqNode, Node.kind, Node.content, checkNotEmpty]
  have hcont : ∀ x : Node, (s.at x).content = s.before ++ x :: s.after := fun _ => rfl
  have key := seq_edge (stepsOf cfg) (parseStep cfg) List.cons (fun c cs => rfl) s.after s.before
  refine ⟨fun v v' es h => ?_, fun v e he => ?_⟩
  · obtain ⟨h1, h2⟩ := key.1 v v' es h
    simp only [Ext, parseSteps, hc, hcont, Bool.not_true, Bool.false_eq_true, ↓reduceIte, List.nil_append]
    exact ⟨by rw [h1], h2⟩
  · simp only [parseSteps, hc, hcont, Bool.not_true, Bool.false_eq_true, ↓reduceIte, List.nil_append]
    exact key.2 v e he

/-- a step → the value of one of its keys; `I` is what is known of the loop's state when it reaches that key -/
theorem step_edge {β : Type} (cfg : Cfg) (m : MapCtx) (name : String) (hk : m.Keyed cfg name) (Q : Node → R β)
    (I : StepSt → Prop) (hI0 : ∀ pos, I { step := { pos := pos } })
    (hI : ∀ s kv, (∃ q ∈ m.pre, kv.id = keyId cfg true q.1) → I s → I (stepKey cfg s kv).1)
    (hstep : ∀ s, I s → Path (fun v => stepKey cfg s ⟨name, (parseString m.key false).1, v⟩) Q id) :
    Path (parseStep cfg) Q m.at :=
  Path.wrap id
    (Sect.edge (stepSect cfg (mapNode m.tag m.l m.c [])) cfg "element of \"steps\" section" false true m Q I hk.first'
      (hI0 _) hI (by intro s hs; rw [hk.id]; exact hstep s hs))
    (fun _ => rfl)

theorem e_step_env (cfg : Cfg) (m : MapCtx) (hk : m.Keyed cfg "env") : Path (parseStep cfg) (parseEnv cfg) m.at :=
  step_edge cfg m "env" hk _ (fun _ => True) (fun _ => trivial) (fun _ _ _ _ => trivial)
    (fun s _ => by step_path [stepKey])

/-- `with:` of a step → the mapping as `parseMapping` reads it — PROVIDED no `run:` / `shell:` key comes before `with:` in the
step (otherwise `with:` is reported as a whole and its value is not looked at, see `step_with_after_run_not_parsed`) -/
theorem e_step_with (cfg : Cfg) (m : MapCtx) (hk : m.Keyed cfg "with")
    (hrun : ∀ q ∈ m.pre, keyId cfg true q.1 ≠ "run" ∧ keyId cfg true q.1 ≠ "shell") :
    Path (parseStep cfg) (fun v => parseMapping cfg (sectionWhat "with") v false false) m.at :=
  step_edge cfg m "with" hk _ (fun st => ∀ e, st.step.exec ≠ .run e) (fun _ => by simp)
    (by
      intro s kv ⟨q, hq, hid⟩ hs
      have h1 : kv.id ≠ "run" := by rw [hid]; exact (hrun q hq).1
      have h2 : kv.id ≠ "shell" := by rw [hid]; exact (hrun q hq).2
      simp only [stepKey]
      split <;> (try split) <;> simp_all)
    (by
      intro s hs
      cases hx : s.step.exec with
      | run e => exact absurd hx (hs e)
      | none => step_path_x [stepKey, hx, parseSectionMapping]
      | action e => step_path_x [stepKey, hx, parseSectionMapping])

/-! #### container, services, credentials -/

/-- a container (mapping form) → the value of one of its keys -/
theorem container_edge {β : Type} (cfg : Cfg) (sec : String) (pos : Yaml.Pos) (m : MapCtx) (name : String) (hk : m.Keyed cfg name)
    (Q : Node → R β)
    (hstep : ∀ s, Path (fun v => containerKey cfg sec s ⟨name, (parseString m.key false).1, v⟩) Q id) :
    Path (parseContainer cfg sec pos) Q m.at :=
  Path.wrap id
    (Sect.edge' (plain (containerKey cfg sec) { pos := pos }) cfg (sectionWhat sec) false true m Q hk.first'
      (by intro s; rw [hk.id]; exact hstep s))
    (fun v => parseContainer_eq_run cfg sec pos m.tag m.l m.c _)

theorem e_container_env (cfg : Cfg) (sec : String) (pos : Yaml.Pos) (m : MapCtx) (hk : m.Keyed cfg "env") :
    Path (parseContainer cfg sec pos) (parseEnv cfg) m.at :=
  container_edge cfg sec pos m "env" hk _ (fun s => by step_path [containerKey])

/-- `credentials:` as `containerKey` reads it (without the "both username and password" check, which belongs to the
container's loop body) -/
def credentialsP (cfg : Cfg) (pos : Yaml.Pos) (n : Node) : R Credentials :=
  (plain credentialsKey { pos := pos }).run cfg (sectionWhat "credentials") n false true

theorem containerKey_credentials (cfg : Cfg) (sec : String) (st : Container) (key : Str) (v : Node) :
    containerKey cfg sec st ⟨"credentials", key, v⟩ =
      if (credentialsP cfg key.pos v).1.username.isNone || (credentialsP cfg key.pos v).1.password.isNone then
        (st, (credentialsP cfg key.pos v).2 ++ [⟨key.pos, "credentials-pair", []⟩])
      else ({ st with credentials := some (credentialsP cfg key.pos v).1 }, (credentialsP cfg key.pos v).2) := by
  simp only [containerKey, credentialsP, plain_run, parseSectionMapping]
  rfl

theorem e_container_credentials (cfg : Cfg) (sec : String) (pos : Yaml.Pos) (m : MapCtx) (hk : m.Keyed cfg "credentials") :
    Path (parseContainer cfg sec pos) (credentialsP cfg (parseString m.key false).1.pos) m.at :=
  container_edge cfg sec pos m "credentials" hk _ (fun s => by
    refine ⟨fun v v' es h => ?_, fun v e he => ?_⟩
    · have h2 := h.2
      simp only [Ext, id, containerKey_credentials, h.1]
      by_cases hc : ((credentialsP cfg (parseString m.key false).1.pos v).1.username.isNone ||
          (credentialsP cfg (parseString m.key false).1.pos v).1.password.isNone) = true
      · simp only [hc, ↓reduceIte]
        refine ⟨trivial, ?_⟩
        rw [List.perm_iff_count] at h2 ⊢
        intro a
        have := h2 a
        simp only [List.count_append] at this ⊢
        omega
      · simp only [hc, Bool.false_eq_true, ↓reduceIte]
        exact ⟨trivial, h2⟩
    · simp only [id, containerKey_credentials]
      by_cases hc : ((credentialsP cfg (parseString m.key false).1.pos v).1.username.isNone ||
          (credentialsP cfg (parseString m.key false).1.pos v).1.password.isNone) = true
      · simp only [hc, ↓reduceIte, List.mem_append]
        exact Or.inl he
      · simp only [hc, Bool.false_eq_true, ↓reduceIte]
        exact he)

/-- `services:` → one service -/
theorem e_services_service (cfg : Cfg) (m : MapCtx) (hk : m.Free cfg) :
    Path (parseServices cfg) (parseContainer cfg "services" (parseString m.key false).1.pos) m.at := by
  have e1 := mapSect_edge (fun s => let c := parseContainer cfg "services" s.key.pos s.val; ((⟨s.key, c.1⟩ : Service), c.2))
    cfg (sectionWhat "services") false false m hk
  have e2 : Path (parseServices cfg) _ m.at := Path.wrap (fun r => (⟨some r, none, ⟨m.l, m.c⟩⟩ : Services)) e1 (by
    intro v
    simp only [parseServices, MapCtx.at, mayParseExpression_mapNode, parseSectionMapping, mapSect_run]
    rfl)
  have e3 : Path (fun v => (fun s : KV => let c := parseContainer cfg "services" s.key.pos s.val; ((⟨s.key, c.1⟩ : Service), c.2))
      ⟨keyId cfg false m.key, (parseString m.key false).1, v⟩) (parseContainer cfg "services" (parseString m.key false).1.pos) id :=
    Path.wrap (fun c => (⟨(parseString m.key false).1, c⟩ : Service)) (Path.refl _) (fun _ => rfl)
  exact e2.trans e3

/-! #### strategy, matrix, defaults -/

theorem e_strategy_matrix (cfg : Cfg) (pos : Yaml.Pos) (m : MapCtx) (hk : m.Keyed cfg "matrix") :
    Path (parseStrategy cfg pos) (parseMatrix cfg (parseString m.key false).1.pos) m.at :=
  Path.wrap id
    (Sect.edge' (plain (strategyKey cfg) { pos := pos }) cfg (sectionWhat "strategy") false true m _ hk.first'
      (by intro s; rw [hk.id]; step_path [plain, strategyKey]))
    (fun v => parseStrategy_eq_run cfg pos _)

/-- `defaults.run` as `parseDefaults` reads it -/
def defaultsRunP (cfg : Cfg) (pos : Yaml.Pos) (n : Node) : R DefaultsRun :=
  (plain defaultsRunKey { pos := pos }).run cfg (sectionWhat "run") n false true

theorem e_defaults_run (cfg : Cfg) (pos : Yaml.Pos) (m : MapCtx) (hk : m.Keyed cfg "run") :
    Path (parseDefaults cfg pos) (defaultsRunP cfg (parseString m.key false).1.pos) m.at :=
  Path.wrap id
    (Sect.edge' (defaultsSect cfg pos (mapNode m.tag m.l m.c [])) cfg (sectionWhat "defaults") false true m _ hk.first'
      (by
        intro s; rw [hk.id]
        step_path_u [defaultsSect, defaultsStep, parseSectionMapping, ne_eq, not_true_eq_false, if_false]
          [defaultsRunP, plain_run]))
    (fun _ => rfl)

/-! #### `on:` and the events -/

/-- `on:` (a mapping) → the value of one event -/
theorem on_edge {β : Type} (cfg : Cfg) (pos : Yaml.Pos) (m : MapCtx) (name : String) (hk : m.Keyed cfg name) (Q : Node → R β)
    (hstep : ∀ s, Path (fun v => eventOfKey cfg s ⟨name, (parseString m.key false).1, v⟩) Q id) :
    Path (parseEvents cfg pos) Q m.at :=
  Path.wrap some
    (Sect.edge' (plain (eventOfKey cfg) []) cfg (sectionWhat "on") false true m Q hk.first'
      (by intro s; rw [hk.id]; exact hstep s))
    (fun v => parseEvents_mapNode cfg pos m.tag m.l m.c _)

section
variable (cfg : Cfg) (pos : Yaml.Pos) (m : MapCtx)

theorem e_on_call (hk : m.Keyed cfg "workflow_call") :
    Path (parseEvents cfg pos) (parseWorkflowCallEvent cfg (parseString m.key false).1.pos) m.at :=
  on_edge cfg pos m "workflow_call" hk _ (fun s => by step_path [eventOfKey])

theorem e_on_dispatch (hk : m.Keyed cfg "workflow_dispatch") :
    Path (parseEvents cfg pos) (parseWorkflowDispatchEvent cfg (parseString m.key false).1.pos) m.at :=
  on_edge cfg pos m "workflow_dispatch" hk _ (fun s => by step_path [eventOfKey])

theorem e_on_repoDispatch (hk : m.Keyed cfg "repository_dispatch") :
    Path (parseEvents cfg pos) (parseRepositoryDispatchEvent cfg (parseString m.key false).1.pos) m.at :=
  on_edge cfg pos m "repository_dispatch" hk _ (fun s => by step_path [eventOfKey])

theorem e_on_schedule (hk : m.Keyed cfg "schedule") :
    Path (parseEvents cfg pos) (parseScheduleEvent cfg (parseString m.key false).1.pos) m.at :=
  on_edge cfg pos m "schedule" hk _ (fun s => by step_path [eventOfKey])

/-- any other event name is a webhook event -/
theorem e_on_webhook (name : String) (hk : m.Keyed cfg name)
    (hWeb : name ∉ ["schedule", "workflow_dispatch", "repository_dispatch", "workflow_call"]) :
    Path (parseEvents cfg pos) (parseWebhookEvent cfg (parseString m.key false).1) m.at := by
  simp only [List.mem_cons, List.not_mem_nil, or_false, not_or] at hWeb
  obtain ⟨w1, w2, w3, w4⟩ := hWeb
  exact on_edge cfg pos m name hk _ (fun s => by step_path [eventOfKey, w1, w2, w3, w4])

end

/-- the `inputs:` / `secrets:` / `outputs:` mappings of `workflow_call`, as `callEventKey` reads them -/
def callInputsP (cfg : Cfg) (n : Node) : R (List CallInput) :=
  (plain (fun (st : List CallInput) kv => (st ++ [(callInput cfg kv).1], (callInput cfg kv).2)) []).run cfg (sectionWhat "inputs") n true false
def callSecretsP (cfg : Cfg) (n : Node) : R (List (String × CallSecret)) :=
  (mapSect (callSecret cfg)).run cfg (sectionWhat "secrets") n true false
def callOutputsP (cfg : Cfg) (n : Node) : R (List (String × CallOutput)) :=
  (mapSect (callOutput cfg)).run cfg (sectionWhat "outputs") n true false
/-- the `inputs:` mapping of `workflow_dispatch` -/
def dispatchInputsP (cfg : Cfg) (n : Node) : R (List (String × DispatchInput)) :=
  (mapSect (dispatchInput cfg)).run cfg (sectionWhat "inputs") n true false

/-- `workflow_call:` → the value of one of its keys -/
theorem call_edge {β : Type} (cfg : Cfg) (pos : Yaml.Pos) (m : MapCtx) (name : String) (hk : m.Keyed cfg name) (Q : Node → R β)
    (hstep : ∀ s, Path (fun v => callEventKey cfg s ⟨name, (parseString m.key false).1, v⟩) Q id) :
    Path (parseWorkflowCallEvent cfg pos) Q m.at :=
  Path.wrap (fun r => .call r.inputs r.secrets r.outputs pos)
    (Sect.edge' (plain (callEventKey cfg) {}) cfg (sectionWhat "workflow_call") true true m Q hk.first'
      (by intro s; rw [hk.id]; exact hstep s))
    (fun v => parseWorkflowCallEvent_eq_run cfg pos _)

section
variable (cfg : Cfg) (pos : Yaml.Pos) (m : MapCtx)

theorem e_call_inputs (hk : m.Keyed cfg "inputs") : Path (parseWorkflowCallEvent cfg pos) (callInputsP cfg) m.at :=
  call_edge cfg pos m "inputs" hk _ (fun s => by
    step_path_u [callEventKey, parseSectionMapping] [callInputsP, plain_run, callInputs_eq_loop, List.nil_append])

theorem e_call_secrets (hk : m.Keyed cfg "secrets") : Path (parseWorkflowCallEvent cfg pos) (callSecretsP cfg) m.at :=
  call_edge cfg pos m "secrets" hk _ (fun s => by
    step_path_u [callEventKey, parseSectionMapping] [callSecretsP, mapSect_run])

theorem e_call_outputs (hk : m.Keyed cfg "outputs") : Path (parseWorkflowCallEvent cfg pos) (callOutputsP cfg) m.at :=
  call_edge cfg pos m "outputs" hk _ (fun s => by
    step_path_u [callEventKey, parseSectionMapping] [callOutputsP, mapSect_run])

/-- `workflow_call.inputs` → one input -/
theorem e_callInputs_input (hk : m.Free cfg) :
    Path (callInputsP cfg) (fun v => callInput cfg ⟨keyId cfg false m.key, (parseString m.key false).1, v⟩) m.at :=
  Sect.edge' (plain (fun (st : List CallInput) kv => (st ++ [(callInput cfg kv).1], (callInput cfg kv).2)) []) cfg
    (sectionWhat "inputs") true false m _ hk (fun s => by step_path [plain])

theorem e_callSecrets_secret (hk : m.Free cfg) :
    Path (callSecretsP cfg) (fun v => callSecret cfg ⟨keyId cfg false m.key, (parseString m.key false).1, v⟩) m.at :=
  mapSect_edge (callSecret cfg) cfg (sectionWhat "secrets") true false m hk

theorem e_callOutputs_output (hk : m.Free cfg) :
    Path (callOutputsP cfg) (fun v => callOutput cfg ⟨keyId cfg false m.key, (parseString m.key false).1, v⟩) m.at :=
  mapSect_edge (callOutput cfg) cfg (sectionWhat "outputs") true false m hk

/-- `workflow_dispatch:` → `inputs:` → one input -/
theorem e_dispatch_inputs (hk : m.Keyed cfg "inputs") : Path (parseWorkflowDispatchEvent cfg pos) (dispatchInputsP cfg) m.at :=
  Path.wrap (fun r => .dispatch r pos)
    (Sect.edge' (plain (dispatchStep cfg) none) cfg (sectionWhat "workflow_dispatch") true true m _ hk.first'
      (by
        intro s; rw [hk.id]
        step_path_u [plain, dispatchStep, parseSectionMapping, ne_eq, not_true_eq_false, if_false]
          [dispatchInputsP, mapSect_run]))
    (fun v => parseWorkflowDispatchEvent_eq_run cfg pos _)

theorem e_dispatchInputs_input (hk : m.Free cfg) :
    Path (dispatchInputsP cfg) (fun v => dispatchInput cfg ⟨keyId cfg false m.key, (parseString m.key false).1, v⟩) m.at :=
  mapSect_edge (dispatchInput cfg) cfg (sectionWhat "inputs") true false m hk

end

/-! #### `schedule:` and its items -/

/-- one element of the `schedule:` sequence; `none` = reported and dropped -/
def scheduleItem (cfg : Cfg) (c : Node) : R (Option Str) :=
  let m := parseMapping cfg "element of \"schedule\" section" c false true
  match m.1 with
  | [kv] =>
    if kv.id ≠ "cron" then (none, m.2 ++ [errAt c "schedule-element" []])
    else
      let s := parseString kv.val false
      (some s.1, m.2 ++ s.2)
  | _ => (none, m.2 ++ [errAt c "schedule-element" []])

theorem scheduleItems_cons (cfg : Cfg) (c : Node) (cs : List Node) :
    scheduleItems cfg (c :: cs) =
      ((match (scheduleItem cfg c).1 with | some s => s :: (scheduleItems cfg cs).1 | none => (scheduleItems cfg cs).1),
       (scheduleItem cfg c).2 ++ (scheduleItems cfg cs).2) := by
  simp only [scheduleItems, scheduleItem]
  generalize parseMapping cfg "element of \"schedule\" section" c false true = m
  obtain ⟨kvs, es⟩ := m
  cases kvs with
  | nil => simp
  | cons kv rest =>
    cases rest with
    | nil => by_cases hk : kv.id = "cron" <;> simp [hk]
    | cons _ _ => simp

theorem e_schedule_item (cfg : Cfg) (pos : Yaml.Pos) (s : SeqCtx) : Path (parseScheduleEvent cfg pos) (scheduleItem cfg) s.at := by
  have hc : ∀ x : Node, checkSequence "schedule" (s.at x) false = (true, []) := by
    intro x
    simp [checkSequence, SeqCtx.at, seqNode, Node.kind, Node.content, checkNotEmpty]
  have hcont : ∀ x : Node, (s.at x).content = s.before ++ x :: s.after := fun _ => rfl
  have key := seq_edge (scheduleItems cfg) (scheduleItem cfg)
    (fun (o : Option Str) (r : List Str) => match o with | some x => x :: r | none => r)
    (fun c cs => scheduleItems_cons cfg c cs) s.after s.before
  refine ⟨fun v v' es h => ?_, fun v e he => ?_⟩
  · obtain ⟨h1, h2⟩ := key.1 v v' es h
    simp only [Ext, parseScheduleEvent, hc, hcont, Bool.not_true, Bool.false_eq_true, ↓reduceIte, List.nil_append]
    exact ⟨by rw [h1], h2⟩
  · simp only [parseScheduleEvent, hc, hcont, Bool.not_true, Bool.false_eq_true, ↓reduceIte, List.nil_append]
    exact key.2 v e he

/-! ### paths from the document to the usual places -/

section
variable (cfg : Cfg) (mW mJ mK mP : MapCtx) (sS : SeqCtx)

/-- document → the value of a top-level key -/
theorem path_wf {β : Type} {Q : Node → R β} (h : Path (wfRun cfg) Q mW.at) : Path (parse cfg) Q (fun v => docNode (mW.at v)) :=
  (path_root cfg).trans h

/-- document → `jobs:` → one job -/
theorem path_job (hW : mW.Keyed cfg "jobs") (hJ : mJ.Free cfg) :
    Path (parse cfg) (parseJob cfg (parseString mJ.key false).1) (fun v => docNode (mW.at (mJ.at v))) :=
  (path_wf cfg mW (e_wf_jobs cfg mW hW)).trans (e_jobs_job cfg mJ hJ)

/-- document → job → the value of one of the job's keys -/
theorem path_job_key {β : Type} {Q : Node → R β} (hW : mW.Keyed cfg "jobs") (hJ : mJ.Free cfg)
    (h : Path (parseJob cfg (parseString mJ.key false).1) Q mK.at) :
    Path (parse cfg) Q (fun v => docNode (mW.at (mJ.at (mK.at v)))) :=
  (path_job cfg mW mJ hW hJ).trans h

/-- document → job → `steps:` → one step -/
theorem path_step (hW : mW.Keyed cfg "jobs") (hJ : mJ.Free cfg) (hK : mK.Keyed cfg "steps") :
    Path (parse cfg) (parseStep cfg) (fun v => docNode (mW.at (mJ.at (mK.at (sS.at v))))) :=
  (path_job_key cfg mW mJ mK hW hJ (e_job_steps cfg _ mK hK)).trans (e_steps_step cfg sS)

/-- document → step → the value of one of the step's keys -/
theorem path_step_key {β : Type} {Q : Node → R β} (hW : mW.Keyed cfg "jobs") (hJ : mJ.Free cfg) (hK : mK.Keyed cfg "steps")
    (h : Path (parseStep cfg) Q mP.at) :
    Path (parse cfg) Q (fun v => docNode (mW.at (mJ.at (mK.at (sS.at (mP.at v)))))) :=
  (path_step cfg mW mJ mK sS hW hJ hK).trans h

/-- document → `on:` → the value of one event -/
theorem path_event {β : Type} {Q : Node → R β} (hW : mW.Keyed cfg "on")
    (h : Path (parseEvents cfg (parseString mW.key false).1.pos) Q mJ.at) :
    Path (parse cfg) Q (fun v => docNode (mW.at (mJ.at v))) :=
  (path_wf cfg mW (e_wf_on cfg mW hW)).trans h

end

/-! ### 1. repeated keys in the sections of free names (case-insensitive), at the level of the whole file -/

/-- a section parser that is `Sect.run` on mapping nodes (up to a wrapper of the result) reports a repeated key -/
theorem Sect.dup_ins {σ ρ β : Type} (S : Sect σ ρ) (Q : Node → R β) (f : ρ → β) (cfg : Cfg) (what : String) (ae cs : Bool)
    (tag : String) (l c : Nat)
    (hQ : ∀ ps, Q (mapNode tag l c ps) = (f (S.run cfg what (mapNode tag l c ps) ae cs).1, (S.run cfg what (mapNode tag l c ps) ae cs).2))
    (pre post : List (Node × Node)) (kn vn : Node) (h : Repeated cfg cs pre kn) :
    ∃ pos, firstPos cfg cs (keyId cfg cs kn) pre = some pos ∧ Ins Q tag l c pre post kn vn (dupAt kn what pos cs) := by
  obtain ⟨pos, hp, h1, h2⟩ := Sect.duplicate_key S cfg what tag l c ae cs pre post kn vn h.good h.earlier
  refine ⟨pos, hp, ?_⟩
  simp only [Ins, hQ, dupAt]
  exact ⟨by rw [h1], h2⟩

/-- the key/value pairs as `parseMapping` hands them out -/
def kvSect : Sect (List KV) (List KV) := plain (fun st kv => (st ++ [kv], [])) []

theorem kvSect_loop (kvs : List KV) : ∀ acc : List KV, loop kvSect.step acc kvs = (acc ++ kvs, []) := by
  induction kvs with
  | nil => intro acc; simp
  | cons kv rest ih => intro acc; rw [loop_cons, ih]; simp [kvSect, plain]

theorem kvSect_run (cfg : Cfg) (what : String) (n : Node) (ae cs : Bool) :
    kvSect.run cfg what n ae cs = parseMapping cfg what n ae cs := by
  have : kvSect.init = [] := rfl
  simp only [Sect.run, this, kvSect_loop, List.nil_append, List.append_nil]
  simp [kvSect, plain]

section
variable (cfg : Cfg) (tag : String) (l c : Nat) (pre post : List (Node × Node)) (kn vn : Node)

/-- **every mapping**: a repeated key is reported by `parseMapping` itself and dropped -/
theorem mapping_duplicate (what : String) (ae cs : Bool) (h : Repeated cfg cs pre kn) :
    ∃ pos, firstPos cfg cs (keyId cfg cs kn) pre = some pos ∧
      Ins (fun n => parseMapping cfg what n ae cs) tag l c pre post kn vn (dupAt kn what pos cs) :=
  Sect.dup_ins kvSect _ id cfg what ae cs tag l c (fun ps => by rw [kvSect_run]; rfl) pre post kn vn h

def outputsSect (n0 : Node) : Sect (List (String × Output)) (List (String × Output)) where
  step := (mapSect fun kv => let v := parseString kv.val true; ((⟨kv.key, v.1⟩ : Output), v.2)).step
  init := []
  finish := fun r => (r, (checkNotEmpty "outputs" r.length n0).2)

theorem parseOutputs_eq_run (ps : List (Node × Node)) :
    parseOutputs cfg (mapNode tag l c ps) =
      (outputsSect (mapNode tag l c [])).run cfg (sectionWhat "outputs") (mapNode tag l c ps) false false := by
  have e : ∀ n0 n : Node, (outputsSect n0).run cfg (sectionWhat "outputs") n false false =
      (((mapSect fun kv => let v := parseString kv.val true; ((⟨kv.key, v.1⟩ : Output), v.2)).run cfg (sectionWhat "outputs") n false false).1,
       ((mapSect fun kv => let v := parseString kv.val true; ((⟨kv.key, v.1⟩ : Output), v.2)).run cfg (sectionWhat "outputs") n false false).2 ++
         (checkNotEmpty "outputs"
           ((mapSect fun kv => let v := parseString kv.val true; ((⟨kv.key, v.1⟩ : Output), v.2)).run cfg (sectionWhat "outputs") n false false).1.length n0).2) := by
    intro n0 n
    simp [Sect.run, outputsSect, mapSect, plain]
  rw [e, mapSect_run]
  simp only [parseOutputs, parseSectionMapping]
  rfl

/-- `outputs:` of a job -/
theorem outputs_duplicate (h : Repeated cfg false pre kn) :
    ∃ pos, firstPos cfg false (keyId cfg false kn) pre = some pos ∧
      Ins (parseOutputs cfg) tag l c pre post kn vn (dupAt kn (sectionWhat "outputs") pos false) :=
  Sect.dup_ins (outputsSect (mapNode tag l c [])) _ id cfg _ false false tag l c (fun ps => parseOutputs_eq_run cfg tag l c ps)
    pre post kn vn h

/-- `services:` -/
theorem services_duplicate (h : Repeated cfg false pre kn) :
    ∃ pos, firstPos cfg false (keyId cfg false kn) pre = some pos ∧
      Ins (parseServices cfg) tag l c pre post kn vn (dupAt kn (sectionWhat "services") pos false) :=
  Sect.dup_ins (mapSect fun s => let c := parseContainer cfg "services" s.key.pos s.val; ((⟨s.key, c.1⟩ : Service), c.2))
    _ (fun r => (⟨some r, none, ⟨l, c⟩⟩ : Services)) cfg _ false false tag l c
    (fun ps => by
      simp only [parseServices, mayParseExpression_mapNode, parseSectionMapping, mapSect_run]
      rfl)
    pre post kn vn h

/-- the rows of `matrix:` -/
theorem matrix_duplicate (pos : Yaml.Pos) (h : Repeated cfg false pre kn) :
    ∃ p, firstPos cfg false (keyId cfg false kn) pre = some p ∧
      Ins (parseMatrix cfg pos) tag l c pre post kn vn (dupAt kn (sectionWhat "matrix") p false) :=
  Sect.dup_ins (plain (matrixKey cfg) { rows := some [], pos := pos }) _ id cfg _ false false tag l c
    (fun ps => by simp [parseMatrix, plain_run, parseSectionMapping])
    pre post kn vn h

/-- `permissions:` (scopes) -/
theorem permissions_duplicate (pos : Yaml.Pos) (h : Repeated cfg false pre kn) :
    ∃ p, firstPos cfg false (keyId cfg false kn) pre = some p ∧
      Ins (parsePermissions cfg pos) tag l c pre post kn vn (dupAt kn (sectionWhat "permissions") p false) :=
  Sect.dup_ins (mapSect fun kv => let v := parseString kv.val false; ((⟨kv.key, v.1⟩ : PermissionScope), v.2))
    _ (fun r => (⟨none, some r, pos⟩ : Permissions)) cfg _ true false tag l c
    (fun ps => by simp [parsePermissions, parseSectionMapping, mapSect_run])
    pre post kn vn h

/-- `secrets:` of a calling job -/
theorem jobSecrets_duplicate (h : Repeated cfg false pre kn) :
    ∃ pos, firstPos cfg false (keyId cfg false kn) pre = some pos ∧
      Ins (jobSecrets cfg) tag l c pre post kn vn (dupAt kn (sectionWhat "secrets") pos false) :=
  Sect.dup_ins (mapSect fun i => let v := parseString i.val true; ((⟨i.key, v.1⟩ : CallArg), v.2))
    _ (fun r => (false, some r)) cfg _ false false tag l c
    (fun ps => by simp [jobSecrets, callArgs, parseSectionMapping, mapSect_run])
    pre post kn vn h

/-- `inputs:` / `secrets:` / `outputs:` of `workflow_call`, `inputs:` of `workflow_dispatch` -/
theorem callInputs_duplicate (h : Repeated cfg false pre kn) :
    ∃ pos, firstPos cfg false (keyId cfg false kn) pre = some pos ∧
      Ins (callInputsP cfg) tag l c pre post kn vn (dupAt kn (sectionWhat "inputs") pos false) :=
  Sect.dup_ins (plain (fun (st : List CallInput) kv => (st ++ [(callInput cfg kv).1], (callInput cfg kv).2)) []) _ id cfg _ true false tag l c (fun _ => rfl) pre post kn vn h

theorem callSecrets_duplicate (h : Repeated cfg false pre kn) :
    ∃ pos, firstPos cfg false (keyId cfg false kn) pre = some pos ∧
      Ins (callSecretsP cfg) tag l c pre post kn vn (dupAt kn (sectionWhat "secrets") pos false) :=
  Sect.dup_ins (mapSect (callSecret cfg)) _ id cfg _ true false tag l c (fun _ => rfl) pre post kn vn h

theorem callOutputs_duplicate (h : Repeated cfg false pre kn) :
    ∃ pos, firstPos cfg false (keyId cfg false kn) pre = some pos ∧
      Ins (callOutputsP cfg) tag l c pre post kn vn (dupAt kn (sectionWhat "outputs") pos false) :=
  Sect.dup_ins (mapSect (callOutput cfg)) _ id cfg _ true false tag l c (fun _ => rfl) pre post kn vn h

theorem dispatchInputs_duplicate (h : Repeated cfg false pre kn) :
    ∃ pos, firstPos cfg false (keyId cfg false kn) pre = some pos ∧
      Ins (dispatchInputsP cfg) tag l c pre post kn vn (dupAt kn (sectionWhat "inputs") pos false) :=
  Sect.dup_ins (mapSect (dispatchInput cfg)) _ id cfg _ true false tag l c (fun _ => rfl) pre post kn vn h

end

/-- what a repeated key does to the whole file: with the pair `(kn, vn)` inserted after an earlier key with the same id
(under the section's folding) into the mapping that `ctx` places somewhere in the document, the whole AST is the same (the
first occurrence wins) and the diagnostics of the whole file are the same plus exactly one `key-duplicated` at the
repetition, which names the position of the first occurrence -/
def DupInDoc (cfg : Cfg) (ctx : Node → Node) (cs : Bool) (what tag : String) (l c : Nat) (pre post : List (Node × Node))
    (kn vn : Node) : Prop :=
  ∃ pos, firstPos cfg cs (keyId cfg cs kn) pre = some pos ∧
    AddsExactly cfg (ctx (mapNode tag l c (pre ++ post))) (ctx (mapNode tag l c (pre ++ (kn, vn) :: post))) (dupAt kn what pos cs)

theorem Path.dup {β : Type} {cfg : Cfg} {Q : Node → R β} {ctx : Node → Node} (hp : Path (parse cfg) Q ctx)
    {cs : Bool} {what tag : String} {l c : Nat} {pre post : List (Node × Node)} {kn vn : Node}
    (h : ∃ pos, firstPos cfg cs (keyId cfg cs kn) pre = some pos ∧ Ins Q tag l c pre post kn vn (dupAt kn what pos cs)) :
    DupInDoc cfg ctx cs what tag l c pre post kn vn := by
  obtain ⟨pos, hpos, hins⟩ := h
  exact ⟨pos, hpos, hp.ins hins⟩

section
variable (cfg : Cfg) (mW mJ mK mC mS mP mE : MapCtx) (sS : SeqCtx)
  (tag : String) (l c : Nat) (pre post : List (Node × Node)) (kn vn : Node)

/-- **`env:` anywhere**: along any path from the document to an `env:` value -/
theorem env_duplicate_at {ctx : Node → Node} (hp : Path (parse cfg) (parseEnv cfg) ctx) (hR : Repeated cfg false pre kn) :
    DupInDoc cfg ctx false "env" tag l c pre post kn vn :=
  hp.dup (env_duplicate cfg tag l c pre post kn vn hR)

/-- `env:` of the workflow -/
theorem workflow_env_duplicate_in_document (hW : mW.Keyed cfg "env") (hR : Repeated cfg false pre kn) :
    DupInDoc cfg (fun v => docNode (mW.at v)) false "env" tag l c pre post kn vn :=
  env_duplicate_at cfg tag l c pre post kn vn (path_wf cfg mW (e_wf_env cfg mW hW)) hR

/-- `env:` of a job -/
theorem job_env_duplicate_in_document (hW : mW.Keyed cfg "jobs") (hJ : mJ.Free cfg) (hK : mK.Keyed cfg "env")
    (hR : Repeated cfg false pre kn) :
    DupInDoc cfg (fun v => docNode (mW.at (mJ.at (mK.at v)))) false "env" tag l c pre post kn vn :=
  env_duplicate_at cfg tag l c pre post kn vn (path_job_key cfg mW mJ mK hW hJ (e_job_env cfg _ mK hK)) hR

/-- `env:` of a step -/
theorem step_env_duplicate_in_document (hW : mW.Keyed cfg "jobs") (hJ : mJ.Free cfg) (hK : mK.Keyed cfg "steps")
    (hP : mP.Keyed cfg "env") (hR : Repeated cfg false pre kn) :
    DupInDoc cfg (fun v => docNode (mW.at (mJ.at (mK.at (sS.at (mP.at v)))))) false "env" tag l c pre post kn vn :=
  env_duplicate_at cfg tag l c pre post kn vn (path_step_key cfg mW mJ mK mP sS hW hJ hK (e_step_env cfg mP hP)) hR

/-- `env:` of the job's container -/
theorem container_env_duplicate_in_document (hW : mW.Keyed cfg "jobs") (hJ : mJ.Free cfg) (hK : mK.Keyed cfg "container")
    (hC : mC.Keyed cfg "env") (hR : Repeated cfg false pre kn) :
    DupInDoc cfg (fun v => docNode (mW.at (mJ.at (mK.at (mC.at v))))) false "env" tag l c pre post kn vn :=
  env_duplicate_at cfg tag l c pre post kn vn
    ((path_job_key cfg mW mJ mK hW hJ (e_job_container cfg _ mK hK)).trans (e_container_env cfg _ _ mC hC)) hR

/-- `env:` of a service container -/
theorem service_env_duplicate_in_document (hW : mW.Keyed cfg "jobs") (hJ : mJ.Free cfg) (hK : mK.Keyed cfg "services")
    (hS : mS.Free cfg) (hC : mC.Keyed cfg "env") (hR : Repeated cfg false pre kn) :
    DupInDoc cfg (fun v => docNode (mW.at (mJ.at (mK.at (mS.at (mC.at v)))))) false "env" tag l c pre post kn vn :=
  env_duplicate_at cfg tag l c pre post kn vn
    (((path_job_key cfg mW mJ mK hW hJ (e_job_services cfg _ mK hK)).trans (e_services_service cfg mS hS)).trans
      (e_container_env cfg _ _ mC hC)) hR

/-- `with:` of a step (no `run:` / `shell:` before it in the step) -/
theorem step_with_duplicate_in_document (hW : mW.Keyed cfg "jobs") (hJ : mJ.Free cfg) (hK : mK.Keyed cfg "steps")
    (hP : mP.Keyed cfg "with") (hrun : ∀ q ∈ mP.pre, keyId cfg true q.1 ≠ "run" ∧ keyId cfg true q.1 ≠ "shell")
    (hR : Repeated cfg false pre kn) :
    DupInDoc cfg (fun v => docNode (mW.at (mJ.at (mK.at (sS.at (mP.at v)))))) false (sectionWhat "with") tag l c pre post kn vn :=
  (path_step_key cfg mW mJ mK mP sS hW hJ hK (e_step_with cfg mP hP hrun)).dup
    (mapping_duplicate cfg tag l c pre post kn vn (sectionWhat "with") false false hR)

/-- `with:` of a job that calls a reusable workflow -/
theorem call_with_duplicate_in_document (hW : mW.Keyed cfg "jobs") (hJ : mJ.Free cfg) (hK : mK.Keyed cfg "with")
    (hR : Repeated cfg false pre kn) :
    DupInDoc cfg (fun v => docNode (mW.at (mJ.at (mK.at v)))) false (sectionWhat "with") tag l c pre post kn vn :=
  (path_job_key cfg mW mJ mK hW hJ (e_job_with cfg _ mK hK)).dup
    (mapping_duplicate cfg tag l c pre post kn vn (sectionWhat "with") false false hR)

/-- `secrets:` of a job that calls a reusable workflow -/
theorem call_secrets_duplicate_in_document (hW : mW.Keyed cfg "jobs") (hJ : mJ.Free cfg) (hK : mK.Keyed cfg "secrets")
    (hR : Repeated cfg false pre kn) :
    DupInDoc cfg (fun v => docNode (mW.at (mJ.at (mK.at v)))) false (sectionWhat "secrets") tag l c pre post kn vn :=
  (path_job_key cfg mW mJ mK hW hJ (e_job_secrets cfg _ mK hK)).dup (jobSecrets_duplicate cfg tag l c pre post kn vn hR)

/-- `outputs:` of a job -/
theorem job_outputs_duplicate_in_document (hW : mW.Keyed cfg "jobs") (hJ : mJ.Free cfg) (hK : mK.Keyed cfg "outputs")
    (hR : Repeated cfg false pre kn) :
    DupInDoc cfg (fun v => docNode (mW.at (mJ.at (mK.at v)))) false (sectionWhat "outputs") tag l c pre post kn vn :=
  (path_job_key cfg mW mJ mK hW hJ (e_job_outputs cfg _ mK hK)).dup (outputs_duplicate cfg tag l c pre post kn vn hR)

/-- `services:` of a job: a service id written twice -/
theorem services_duplicate_in_document (hW : mW.Keyed cfg "jobs") (hJ : mJ.Free cfg) (hK : mK.Keyed cfg "services")
    (hR : Repeated cfg false pre kn) :
    DupInDoc cfg (fun v => docNode (mW.at (mJ.at (mK.at v)))) false (sectionWhat "services") tag l c pre post kn vn :=
  (path_job_key cfg mW mJ mK hW hJ (e_job_services cfg _ mK hK)).dup (services_duplicate cfg tag l c pre post kn vn hR)

/-- the rows of `strategy.matrix` -/
theorem matrix_duplicate_in_document (hW : mW.Keyed cfg "jobs") (hJ : mJ.Free cfg) (hK : mK.Keyed cfg "strategy")
    (hS : mS.Keyed cfg "matrix") (hR : Repeated cfg false pre kn) :
    DupInDoc cfg (fun v => docNode (mW.at (mJ.at (mK.at (mS.at v))))) false (sectionWhat "matrix") tag l c pre post kn vn :=
  ((path_job_key cfg mW mJ mK hW hJ (e_job_strategy cfg _ mK hK)).trans (e_strategy_matrix cfg _ mS hS)).dup
    (matrix_duplicate cfg tag l c pre post kn vn _ hR)

/-- `permissions:` of the workflow and of a job -/
theorem workflow_permissions_duplicate_in_document (hW : mW.Keyed cfg "permissions") (hR : Repeated cfg false pre kn) :
    DupInDoc cfg (fun v => docNode (mW.at v)) false (sectionWhat "permissions") tag l c pre post kn vn :=
  (path_wf cfg mW (e_wf_permissions cfg mW hW)).dup (permissions_duplicate cfg tag l c pre post kn vn _ hR)

theorem job_permissions_duplicate_in_document (hW : mW.Keyed cfg "jobs") (hJ : mJ.Free cfg) (hK : mK.Keyed cfg "permissions")
    (hR : Repeated cfg false pre kn) :
    DupInDoc cfg (fun v => docNode (mW.at (mJ.at (mK.at v)))) false (sectionWhat "permissions") tag l c pre post kn vn :=
  (path_job_key cfg mW mJ mK hW hJ (e_job_permissions cfg _ mK hK)).dup (permissions_duplicate cfg tag l c pre post kn vn _ hR)

/-- `on.workflow_call.inputs` / `.secrets` / `.outputs`: `mW` is the root with `on:`, `mJ` the `on:` mapping with
`workflow_call:`, `mE` the event's mapping with the section's key -/
theorem callInputs_duplicate_in_document (hW : mW.Keyed cfg "on") (hJ : mJ.Keyed cfg "workflow_call") (hE : mE.Keyed cfg "inputs")
    (hR : Repeated cfg false pre kn) :
    DupInDoc cfg (fun v => docNode (mW.at (mJ.at (mE.at v)))) false (sectionWhat "inputs") tag l c pre post kn vn :=
  ((path_event cfg mW mJ hW (e_on_call cfg _ mJ hJ)).trans (e_call_inputs cfg _ mE hE)).dup
    (callInputs_duplicate cfg tag l c pre post kn vn hR)

theorem callSecrets_duplicate_in_document (hW : mW.Keyed cfg "on") (hJ : mJ.Keyed cfg "workflow_call") (hE : mE.Keyed cfg "secrets")
    (hR : Repeated cfg false pre kn) :
    DupInDoc cfg (fun v => docNode (mW.at (mJ.at (mE.at v)))) false (sectionWhat "secrets") tag l c pre post kn vn :=
  ((path_event cfg mW mJ hW (e_on_call cfg _ mJ hJ)).trans (e_call_secrets cfg _ mE hE)).dup
    (callSecrets_duplicate cfg tag l c pre post kn vn hR)

theorem callOutputs_duplicate_in_document (hW : mW.Keyed cfg "on") (hJ : mJ.Keyed cfg "workflow_call") (hE : mE.Keyed cfg "outputs")
    (hR : Repeated cfg false pre kn) :
    DupInDoc cfg (fun v => docNode (mW.at (mJ.at (mE.at v)))) false (sectionWhat "outputs") tag l c pre post kn vn :=
  ((path_event cfg mW mJ hW (e_on_call cfg _ mJ hJ)).trans (e_call_outputs cfg _ mE hE)).dup
    (callOutputs_duplicate cfg tag l c pre post kn vn hR)

/-- `on.workflow_dispatch.inputs` -/
theorem dispatchInputs_duplicate_in_document (hW : mW.Keyed cfg "on") (hJ : mJ.Keyed cfg "workflow_dispatch")
    (hE : mE.Keyed cfg "inputs") (hR : Repeated cfg false pre kn) :
    DupInDoc cfg (fun v => docNode (mW.at (mJ.at (mE.at v)))) false (sectionWhat "inputs") tag l c pre post kn vn :=
  ((path_event cfg mW mJ hW (e_on_dispatch cfg _ mJ hJ)).trans (e_dispatch_inputs cfg _ mE hE)).dup
    (dispatchInputs_duplicate cfg tag l c pre post kn vn hR)

end

/-! ### concrete documents (the hypotheses are satisfiable, the conclusions are what one sees) -/

/-- `on: push` / `jobs: ·` -/
def exRoot : MapCtx := ⟨"!!map", 1, 1, [(sc "on" 1 1, sc "push" 1 5)], sc "jobs" 2 1, []⟩
/-- `build: ·` -/
def exJobs : MapCtx := ⟨"!!map", 3, 3, [], sc "build" 3 3, []⟩
def exStep0 : Node := mapNode "!!map" 6 9 [(sc "run" 6 9, sc "echo" 6 14)]
/-- the job: `runs-on: ubuntu-latest` / `steps: [{run: echo}]` / `k: ·` -/
def exJobKey (k : String) : MapCtx :=
  ⟨"!!map", 4, 5, [(sc "runs-on" 4 5, sc "ubuntu-latest" 4 14), (sc "steps" 5 5, seqNode "!!seq" 6 7 [exStep0])], sc k 8 5, []⟩
/-- the job: `runs-on: ubuntu-latest` / `steps: ·` -/
def exJobSteps : MapCtx := ⟨"!!map", 4, 5, [(sc "runs-on" 4 5, sc "ubuntu-latest" 4 14)], sc "steps" 5 5, []⟩
/-- `- ·` -/
def exSeq : SeqCtx := ⟨"!!seq", 6, 7, [], []⟩
/-- the step: `uses: actions/checkout@v4` / `k: ·` -/
def exStepKey (k : String) : MapCtx := ⟨"!!map", 6, 9, [(sc "uses" 6 9, sc "actions/checkout@v4" 6 15)], sc k 7 9, []⟩
/-- a mapping `first: ·` (one level, whatever the section) -/
def exOnly (k : String) (l c : Nat) : MapCtx := ⟨"!!map", l, c, [], sc k l c, []⟩

local macro "keyed" : tactic => `(tactic| exact ⟨goodKey_of_scalar _ rfl (by decide), rfl, by decide⟩)

/-- `env: {A: "1", a: "2"}` in a step: the second one is reported (case-insensitive), 9:15 names 9:9 -/
example : DupInDoc exCfg (fun v => docNode (exRoot.at (exJobs.at (exJobSteps.at (exSeq.at ((exStepKey "env").at v))))))
    false "env" "!!map" 8 11 [(sc "A" 8 11, sc "1" 8 14)] [] (sc "a" 9 11) (sc "2" 9 14) :=
  step_env_duplicate_in_document exCfg exRoot exJobs exJobSteps (exStepKey "env") exSeq "!!map" 8 11 _ [] _ _
    (by keyed) (by decide) (by keyed) (by keyed) ⟨goodKey_of_scalar _ rfl (by decide), by decide⟩

example :
    (parse exCfg (docNode (exRoot.at (exJobs.at (exJobSteps.at (exSeq.at ((exStepKey "env").at
      (mapNode "!!map" 8 11 [(sc "A" 8 11, sc "1" 8 14), (sc "a" 9 11, sc "2" 9 14)])))))))).2 =
      [dupAt (sc "a" 9 11) "env" ⟨8, 11⟩ false] := by decide +kernel

local macro "repeated" : tactic => `(tactic| exact ⟨goodKey_of_scalar _ rfl (by decide), by decide⟩)

/-- the `jobs:` mapping of the examples, complete -/
def exJobsNode : Node := exJobs.at (exJobSteps.at (exSeq.at exStep0))
/-- `on: push` / `jobs: {…}` / `k: ·` -/
def exRootKey (k : String) : MapCtx :=
  ⟨"!!map", 1, 1, [(sc "on" 1 1, sc "push" 1 5), (sc "jobs" 2 1, exJobsNode)], sc k 9 1, []⟩
/-- `on: ·` / `jobs: {…}` -/
def exOnRoot : MapCtx := ⟨"!!map", 1, 1, [], sc "on" 1 1, [(sc "jobs" 5 1, exJobsNode)]⟩
/-- a job that calls a reusable workflow: `uses: …` / `k: ·` -/
def exCallKey (k : String) : MapCtx :=
  ⟨"!!map", 4, 5, [(sc "uses" 4 5, sc "o/r/.github/workflows/w.yml@v1" 4 11)], sc k 5 5, []⟩

/-- `env: {A: "1", a: "2"}` at the top level -/
example : DupInDoc exCfg (fun v => docNode ((exRootKey "env").at v))
    false "env" "!!map" 10 3 [(sc "A" 10 3, sc "1" 10 6)] [] (sc "a" 11 3) (sc "2" 11 6) :=
  workflow_env_duplicate_in_document exCfg (exRootKey "env") "!!map" 10 3 _ [] _ _ (by keyed) (by repeated)

/-- … in a job -/
example : DupInDoc exCfg (fun v => docNode (exRoot.at (exJobs.at ((exJobKey "env").at v))))
    false "env" "!!map" 9 7 [(sc "A" 9 7, sc "1" 9 10)] [] (sc "a" 10 7) (sc "2" 10 10) :=
  job_env_duplicate_in_document exCfg exRoot exJobs (exJobKey "env") "!!map" 9 7 _ [] _ _
    (by keyed) (by decide) (by keyed) (by repeated)

/-- … in the job's container -/
example : DupInDoc exCfg (fun v => docNode (exRoot.at (exJobs.at ((exJobKey "container").at
      ((⟨"!!map", 9, 7, [(sc "image" 9 7, sc "node" 9 14)], sc "env" 10 7, []⟩ : MapCtx).at v)))))
    false "env" "!!map" 11 9 [(sc "A" 11 9, sc "1" 11 12)] [] (sc "a" 12 9) (sc "2" 12 12) :=
  container_env_duplicate_in_document exCfg exRoot exJobs (exJobKey "container") _ "!!map" 11 9 _ [] _ _
    (by keyed) (by decide) (by keyed) (by keyed) (by repeated)

/-- … in a service's container (`services: {db: {image: postgres, env: {A: "1", a: "2"}}}`) -/
example : DupInDoc exCfg (fun v => docNode (exRoot.at (exJobs.at ((exJobKey "services").at ((exOnly "db" 9 7).at
      ((⟨"!!map", 10, 9, [(sc "image" 10 9, sc "postgres" 10 16)], sc "env" 11 9, []⟩ : MapCtx).at v))))))
    false "env" "!!map" 12 11 [(sc "A" 12 11, sc "1" 12 14)] [] (sc "a" 13 11) (sc "2" 13 14) :=
  service_env_duplicate_in_document exCfg exRoot exJobs (exJobKey "services") _ (exOnly "db" 9 7) "!!map" 12 11 _ [] _ _
    (by keyed) (by decide) (by keyed) (by decide) (by keyed) (by repeated)

/-- `with: {token: x, Token: y}` in a step that `uses:` an action -/
example : DupInDoc exCfg (fun v => docNode (exRoot.at (exJobs.at (exJobSteps.at (exSeq.at ((exStepKey "with").at v))))))
    false (sectionWhat "with") "!!map" 8 11 [(sc "token" 8 11, sc "x" 8 18)] [] (sc "Token" 9 11) (sc "y" 9 18) :=
  step_with_duplicate_in_document exCfg exRoot exJobs exJobSteps (exStepKey "with") exSeq "!!map" 8 11 _ [] _ _
    (by keyed) (by decide) (by keyed) (by keyed) (by decide) (by repeated)

/-- `with:` / `secrets:` of a job that calls a reusable workflow -/
example : DupInDoc exCfg (fun v => docNode (exRoot.at (exJobs.at ((exCallKey "with").at v))))
    false (sectionWhat "with") "!!map" 6 7 [(sc "name" 6 7, sc "x" 6 13)] [] (sc "NAME" 7 7) (sc "y" 7 13) :=
  call_with_duplicate_in_document exCfg exRoot exJobs (exCallKey "with") "!!map" 6 7 _ [] _ _
    (by keyed) (by decide) (by keyed) (by repeated)

example : DupInDoc exCfg (fun v => docNode (exRoot.at (exJobs.at ((exCallKey "secrets").at v))))
    false (sectionWhat "secrets") "!!map" 6 7 [(sc "tok" 6 7, sc "x" 6 12)] [] (sc "TOK" 7 7) (sc "y" 7 12) :=
  call_secrets_duplicate_in_document exCfg exRoot exJobs (exCallKey "secrets") "!!map" 6 7 _ [] _ _
    (by keyed) (by decide) (by keyed) (by repeated)

/-- `outputs:` of a job -/
example : DupInDoc exCfg (fun v => docNode (exRoot.at (exJobs.at ((exJobKey "outputs").at v))))
    false (sectionWhat "outputs") "!!map" 9 7 [(sc "out" 9 7, sc "x" 9 12)] [] (sc "Out" 10 7) (sc "y" 10 12) :=
  job_outputs_duplicate_in_document exCfg exRoot exJobs (exJobKey "outputs") "!!map" 9 7 _ [] _ _
    (by keyed) (by decide) (by keyed) (by repeated)

/-- `services: {db: postgres, DB: mysql}` -/
example : DupInDoc exCfg (fun v => docNode (exRoot.at (exJobs.at ((exJobKey "services").at v))))
    false (sectionWhat "services") "!!map" 9 7 [(sc "db" 9 7, sc "postgres" 9 11)] [] (sc "DB" 10 7) (sc "mysql" 10 11) :=
  services_duplicate_in_document exCfg exRoot exJobs (exJobKey "services") "!!map" 9 7 _ [] _ _
    (by keyed) (by decide) (by keyed) (by repeated)

/-- `strategy: {matrix: {os: [linux], OS: [mac]}}` -/
example : DupInDoc exCfg (fun v => docNode (exRoot.at (exJobs.at ((exJobKey "strategy").at ((exOnly "matrix" 9 7).at v)))))
    false (sectionWhat "matrix") "!!map" 10 9 [(sc "os" 10 9, seqNode "!!seq" 10 13 [sc "linux" 10 14])] []
      (sc "OS" 11 9) (seqNode "!!seq" 11 13 [sc "mac" 11 14]) :=
  matrix_duplicate_in_document exCfg exRoot exJobs (exJobKey "strategy") (exOnly "matrix" 9 7) "!!map" 10 9 _ [] _ _
    (by keyed) (by decide) (by keyed) (by keyed) (by repeated)

/-- `permissions: {contents: read, Contents: write}` at the top level and in a job -/
example : DupInDoc exCfg (fun v => docNode ((exRootKey "permissions").at v))
    false (sectionWhat "permissions") "!!map" 10 3 [(sc "contents" 10 3, sc "read" 10 13)] [] (sc "Contents" 11 3) (sc "write" 11 13) :=
  workflow_permissions_duplicate_in_document exCfg (exRootKey "permissions") "!!map" 10 3 _ [] _ _ (by keyed) (by repeated)

example : DupInDoc exCfg (fun v => docNode (exRoot.at (exJobs.at ((exJobKey "permissions").at v))))
    false (sectionWhat "permissions") "!!map" 9 7 [(sc "contents" 9 7, sc "read" 9 17)] [] (sc "Contents" 10 7) (sc "write" 10 17) :=
  job_permissions_duplicate_in_document exCfg exRoot exJobs (exJobKey "permissions") "!!map" 9 7 _ [] _ _
    (by keyed) (by decide) (by keyed) (by repeated)

/-- `on: {workflow_call: {inputs: {a: {type: string}, A: {type: string}}}}`, and the same for `secrets:` / `outputs:` -/
example : DupInDoc exCfg (fun v => docNode (exOnRoot.at ((exOnly "workflow_call" 2 3).at ((exOnly "inputs" 3 5).at v))))
    false (sectionWhat "inputs") "!!map" 4 7 [(sc "a" 4 7, mapNode "!!map" 4 10 [(sc "type" 4 11, sc "string" 4 17)])] []
      (sc "A" 5 7) (mapNode "!!map" 5 10 [(sc "type" 5 11, sc "string" 5 17)]) :=
  callInputs_duplicate_in_document exCfg exOnRoot (exOnly "workflow_call" 2 3) (exOnly "inputs" 3 5) "!!map" 4 7 _ [] _ _
    (by keyed) (by keyed) (by keyed) (by repeated)

example : DupInDoc exCfg (fun v => docNode (exOnRoot.at ((exOnly "workflow_call" 2 3).at ((exOnly "secrets" 3 5).at v))))
    false (sectionWhat "secrets") "!!map" 4 7 [(sc "a" 4 7, mapNode "!!map" 4 10 [(sc "required" 4 11, sc "true" 4 21)])] []
      (sc "A" 5 7) (mapNode "!!map" 5 10 []) :=
  callSecrets_duplicate_in_document exCfg exOnRoot (exOnly "workflow_call" 2 3) (exOnly "secrets" 3 5) "!!map" 4 7 _ [] _ _
    (by keyed) (by keyed) (by keyed) (by repeated)

example : DupInDoc exCfg (fun v => docNode (exOnRoot.at ((exOnly "workflow_call" 2 3).at ((exOnly "outputs" 3 5).at v))))
    false (sectionWhat "outputs") "!!map" 4 7 [(sc "a" 4 7, mapNode "!!map" 4 10 [(sc "value" 4 11, sc "x" 4 18)])] []
      (sc "A" 5 7) (mapNode "!!map" 5 10 []) :=
  callOutputs_duplicate_in_document exCfg exOnRoot (exOnly "workflow_call" 2 3) (exOnly "outputs" 3 5) "!!map" 4 7 _ [] _ _
    (by keyed) (by keyed) (by keyed) (by repeated)

/-- `on: {workflow_dispatch: {inputs: {a: {}, A: {}}}}` -/
example : DupInDoc exCfg (fun v => docNode (exOnRoot.at ((exOnly "workflow_dispatch" 2 3).at ((exOnly "inputs" 3 5).at v))))
    false (sectionWhat "inputs") "!!map" 4 7 [(sc "a" 4 7, mapNode "!!map" 4 10 [])] [] (sc "A" 5 7) (mapNode "!!map" 5 10 []) :=
  dispatchInputs_duplicate_in_document exCfg exOnRoot (exOnly "workflow_dispatch" 2 3) (exOnly "inputs" 3 5) "!!map" 4 7 _ [] _ _
    (by keyed) (by keyed) (by keyed) (by repeated)

/-! #### found: `with:` after `run:` is not looked at

`parseStep` reports `with:` (and `uses:`) as a whole when the step already has `run:` / `shell:` — and `continue`s: the value is
not parsed, so a repeated key INSIDE that `with:` is not reported (nor anything else in it). The hypothesis `hrun` of
`e_step_with` / `step_with_duplicate_in_document` is therefore necessary. -/

/-- `- run: echo` / `  with: {token: x, Token: y}`: the only diagnostic is the one at the `with` key -/
theorem step_with_after_run_not_parsed :
    (parse exCfg (docNode (exRoot.at (exJobs.at (exJobSteps.at (exSeq.at
      (mapNode "!!map" 6 9 [(sc "run" 6 9, sc "echo" 6 14),
        (sc "with" 7 9, mapNode "!!map" 8 11 [(sc "token" 8 11, sc "x" 8 18), (sc "Token" 9 11, sc "y" 9 18)])]))))))).2 =
      [⟨⟨7, 9⟩, "step-run-but-action-key", ["with"]⟩] := by decide +kernel

/-! ### 2. missing mandatory keys, at the level of the whole file

The hypotheses are on the key NODES of the mapping (no key with that id among the pairs); the conclusion is that the
diagnostic is among the diagnostics of the whole file — whatever the values of the other keys, the other jobs, the rest of
the document. -/

/-- no pair of the mapping has the id `k` ⇒ none of the entries `parseMapping` hands out has -/
theorem ids_of_pairs (cfg : Cfg) (what tag : String) (l c : Nat) (ps : List (Node × Node)) (ae cs : Bool) (P : String → Prop)
    (h : ∀ q ∈ ps, P (keyId cfg cs q.1)) :
    ∀ kv ∈ (parseMapping cfg what (mapNode tag l c ps) ae cs).1, P kv.id := by
  intro kv hkv
  rw [parseMapping_mapNode] at hkv
  obtain ⟨q, hq, hid, _⟩ := mappingLoop_ids cfg what cs ps [] kv hkv
  rw [hid]; exact h q hq

section
variable (cfg : Cfg) (mW mJ mK mC mS mP mE mI : MapCtx) (sS : SeqCtx) (tag : String) (l c : Nat) (ps : List (Node × Node))

/-- a workflow without `on:` — reported at the document (1:1) -/
theorem workflow_missing_on_in_document (h : ∀ q ∈ ps, keyId cfg true q.1 ≠ "on") :
    (⟨⟨1, 1⟩, "workflow-no-on", []⟩ : PErr) ∈ (parse cfg (docNode (mapNode tag l c ps))).2 :=
  workflow_missing_on cfg (docNode (mapNode tag l c ps)) (mapNode tag l c ps) [] rfl
    (ids_of_pairs cfg "workflow" tag l c ps false true (· ≠ "on") h)

/-- a workflow without `jobs:` -/
theorem workflow_missing_jobs_in_document (h : ∀ q ∈ ps, keyId cfg true q.1 ≠ "jobs") :
    (⟨⟨1, 1⟩, "workflow-no-jobs", []⟩ : PErr) ∈ (parse cfg (docNode (mapNode tag l c ps))).2 :=
  workflow_missing_jobs cfg (docNode (mapNode tag l c ps)) (mapNode tag l c ps) [] rfl
    (ids_of_pairs cfg "workflow" tag l c ps false true (· ≠ "jobs") h)

/-- a job with neither `steps:` nor `uses:` — reported at the job id, in the diagnostics of the whole file -/
theorem job_missing_steps_in_document (hW : mW.Keyed cfg "jobs") (hJ : mJ.Free cfg)
    (h : ∀ q ∈ ps, keyId cfg true q.1 ≠ "steps" ∧ keyId cfg true q.1 ≠ "uses") :
    (⟨(parseString mJ.key false).1.pos, "job-no-steps", [(parseString mJ.key false).1.value]⟩ : PErr) ∈
      (parse cfg (docNode (mW.at (mJ.at (mapNode tag l c ps))))).2 :=
  (path_job cfg mW mJ hW hJ).reported
    (job_missing_steps cfg _ _ (ids_of_pairs cfg _ tag l c ps false true (fun k => k ≠ "steps" ∧ k ≠ "uses") h))

/-- a job with neither `runs-on:` nor `uses:` -/
theorem job_missing_runs_on_in_document (hW : mW.Keyed cfg "jobs") (hJ : mJ.Free cfg)
    (h : ∀ q ∈ ps, keyId cfg true q.1 ≠ "runs-on" ∧ keyId cfg true q.1 ≠ "uses") :
    (⟨(parseString mJ.key false).1.pos, "job-no-runs-on", [(parseString mJ.key false).1.value]⟩ : PErr) ∈
      (parse cfg (docNode (mW.at (mJ.at (mapNode tag l c ps))))).2 :=
  (path_job cfg mW mJ hW hJ).reported
    (job_missing_runs_on cfg _ _ (ids_of_pairs cfg _ tag l c ps false true (fun k => k ≠ "runs-on" ∧ k ≠ "uses") h))

/-- a step with none of `run`, `shell`, `uses`, `with` — reported at the step -/
theorem step_missing_exec_in_document (hW : mW.Keyed cfg "jobs") (hJ : mJ.Free cfg) (hK : mK.Keyed cfg "steps")
    (h : ∀ q ∈ ps, keyId cfg true q.1 ≠ "run" ∧ keyId cfg true q.1 ≠ "shell" ∧ keyId cfg true q.1 ≠ "uses" ∧
      keyId cfg true q.1 ≠ "with") :
    (⟨⟨l, c⟩, "step-no-exec", []⟩ : PErr) ∈ (parse cfg (docNode (mW.at (mJ.at (mK.at (sS.at (mapNode tag l c ps))))))).2 :=
  (path_step cfg mW mJ mK sS hW hJ hK).reported
    (step_missing_exec cfg (mapNode tag l c ps)
      (ids_of_pairs cfg _ tag l c ps false true (fun k => k ≠ "run" ∧ k ≠ "shell" ∧ k ≠ "uses" ∧ k ≠ "with") h))

/-- `concurrency:` (a mapping) without `group:`, along any path -/
theorem concurrency_missing_group_at {ctx : Node → Node} {pos : Yaml.Pos} (hp : Path (parse cfg) (parseConcurrency cfg pos) ctx)
    (h : ∀ q ∈ ps, keyId cfg true q.1 ≠ "group") :
    (⟨pos, "concurrency-no-group", []⟩ : PErr) ∈ (parse cfg (ctx (mapNode tag l c ps))).2 :=
  hp.reported (concurrency_missing_group cfg tag l c pos ps (ids_of_pairs cfg _ tag l c ps false true (· ≠ "group") h))

/-- … of the workflow: reported at the `concurrency` key -/
theorem workflow_concurrency_missing_group_in_document (hW : mW.Keyed cfg "concurrency")
    (h : ∀ q ∈ ps, keyId cfg true q.1 ≠ "group") :
    (⟨(parseString mW.key false).1.pos, "concurrency-no-group", []⟩ : PErr) ∈ (parse cfg (docNode (mW.at (mapNode tag l c ps)))).2 :=
  concurrency_missing_group_at cfg tag l c ps (path_wf cfg mW (e_wf_concurrency cfg mW hW)) h

/-- … of a job -/
theorem job_concurrency_missing_group_in_document (hW : mW.Keyed cfg "jobs") (hJ : mJ.Free cfg) (hK : mK.Keyed cfg "concurrency")
    (h : ∀ q ∈ ps, keyId cfg true q.1 ≠ "group") :
    (⟨(parseString mK.key false).1.pos, "concurrency-no-group", []⟩ : PErr) ∈
      (parse cfg (docNode (mW.at (mJ.at (mK.at (mapNode tag l c ps)))))).2 :=
  concurrency_missing_group_at cfg tag l c ps (path_job_key cfg mW mJ mK hW hJ (e_job_concurrency cfg _ mK hK)) h

/-- `environment:` (a mapping) without `name:` — reported at the `environment` key -/
theorem environment_missing_name_in_document (hW : mW.Keyed cfg "jobs") (hJ : mJ.Free cfg) (hK : mK.Keyed cfg "environment")
    (h : ∀ q ∈ ps, keyId cfg true q.1 ≠ "name") :
    (⟨(parseString mK.key false).1.pos, "environment-no-name", []⟩ : PErr) ∈
      (parse cfg (docNode (mW.at (mJ.at (mK.at (mapNode tag l c ps)))))).2 :=
  (path_job_key cfg mW mJ mK hW hJ (e_job_environment cfg _ mK hK)).reported
    (environment_missing_name cfg tag l c _ ps (ids_of_pairs cfg _ tag l c ps false true (· ≠ "name") h))

/-- `defaults:` without `run:`, along any path — reported at the `defaults` mapping -/
theorem defaults_missing_run_at {ctx : Node → Node} {pos : Yaml.Pos} (hp : Path (parse cfg) (parseDefaults cfg pos) ctx)
    (h : ∀ q ∈ ps, keyId cfg true q.1 ≠ "run") :
    (⟨⟨l, c⟩, "defaults-no-run", []⟩ : PErr) ∈ (parse cfg (ctx (mapNode tag l c ps))).2 :=
  hp.reported (defaults_missing_run cfg pos (mapNode tag l c ps) (ids_of_pairs cfg _ tag l c ps false true (· ≠ "run") h))

theorem workflow_defaults_missing_run_in_document (hW : mW.Keyed cfg "defaults") (h : ∀ q ∈ ps, keyId cfg true q.1 ≠ "run") :
    (⟨⟨l, c⟩, "defaults-no-run", []⟩ : PErr) ∈ (parse cfg (docNode (mW.at (mapNode tag l c ps)))).2 :=
  defaults_missing_run_at cfg tag l c ps (path_wf cfg mW (e_wf_defaults cfg mW hW)) h

theorem job_defaults_missing_run_in_document (hW : mW.Keyed cfg "jobs") (hJ : mJ.Free cfg) (hK : mK.Keyed cfg "defaults")
    (h : ∀ q ∈ ps, keyId cfg true q.1 ≠ "run") :
    (⟨⟨l, c⟩, "defaults-no-run", []⟩ : PErr) ∈ (parse cfg (docNode (mW.at (mJ.at (mK.at (mapNode tag l c ps)))))).2 :=
  defaults_missing_run_at cfg tag l c ps (path_job_key cfg mW mJ mK hW hJ (e_job_defaults cfg _ mK hK)) h

/-- an input of `workflow_call` without `type:` — reported at the input's name
(`mW`: root with `on:`, `mJ`: `on:` with `workflow_call:`, `mE`: the event with `inputs:`, `mI`: `inputs:` with the input) -/
theorem callInput_missing_type_in_document (hW : mW.Keyed cfg "on") (hJ : mJ.Keyed cfg "workflow_call") (hE : mE.Keyed cfg "inputs")
    (hI : mI.Free cfg) (h : ∀ q ∈ ps, keyId cfg true q.1 ≠ "type") :
    (⟨(parseString mI.key false).1.pos, "call-input-type-missing", [(parseString mI.key false).1.value]⟩ : PErr) ∈
      (parse cfg (docNode (mW.at (mJ.at (mE.at (mI.at (mapNode tag l c ps))))))).2 :=
  (((path_event cfg mW mJ hW (e_on_call cfg _ mJ hJ)).trans (e_call_inputs cfg _ mE hE)).trans
    (e_callInputs_input cfg mI hI)).reported
    (callInput_missing_type cfg ⟨keyId cfg false mI.key, (parseString mI.key false).1, mapNode tag l c ps⟩
      (ids_of_pairs cfg _ tag l c ps true true (· ≠ "type") h))

/-- an output of `workflow_call` without `value:` -/
theorem callOutput_missing_value_in_document (hW : mW.Keyed cfg "on") (hJ : mJ.Keyed cfg "workflow_call")
    (hE : mE.Keyed cfg "outputs") (hI : mI.Free cfg) (h : ∀ q ∈ ps, keyId cfg true q.1 ≠ "value") :
    (⟨(parseString mI.key false).1.pos, "call-output-value-missing", [(parseString mI.key false).1.value]⟩ : PErr) ∈
      (parse cfg (docNode (mW.at (mJ.at (mE.at (mI.at (mapNode tag l c ps))))))).2 :=
  (((path_event cfg mW mJ hW (e_on_call cfg _ mJ hJ)).trans (e_call_outputs cfg _ mE hE)).trans
    (e_callOutputs_output cfg mI hI)).reported
    (callOutput_missing_value cfg ⟨keyId cfg false mI.key, (parseString mI.key false).1, mapNode tag l c ps⟩
      (ids_of_pairs cfg _ tag l c ps true true (· ≠ "value") h))

end

/-! #### `credentials:` without `username:` / `password:` -/

/-- `credentials:` with the check that comes with it in the container's loop body: `none` = reported ("both username and
password") and dropped -/
def credentialsChecked (cfg : Cfg) (pos : Yaml.Pos) (n : Node) : R (Option Credentials) :=
  if (credentialsP cfg pos n).1.username.isNone || (credentialsP cfg pos n).1.password.isNone then
    (none, (credentialsP cfg pos n).2 ++ [⟨pos, "credentials-pair", []⟩])
  else (some (credentialsP cfg pos n).1, (credentialsP cfg pos n).2)

theorem containerKey_credentials' (cfg : Cfg) (sec : String) (st : Container) (key : Str) (v : Node) :
    containerKey cfg sec st ⟨"credentials", key, v⟩ =
      ((match (credentialsChecked cfg key.pos v).1 with | some c => { st with credentials := some c } | none => st),
       (credentialsChecked cfg key.pos v).2) := by
  rw [containerKey_credentials]
  simp only [credentialsChecked]
  by_cases hc : ((credentialsP cfg key.pos v).1.username.isNone || (credentialsP cfg key.pos v).1.password.isNone) = true
  · simp only [hc, ↓reduceIte]
  · simp only [hc, Bool.false_eq_true, ↓reduceIte]

theorem e_container_credentialsChecked (cfg : Cfg) (sec : String) (pos : Yaml.Pos) (m : MapCtx) (hk : m.Keyed cfg "credentials") :
    Path (parseContainer cfg sec pos) (credentialsChecked cfg (parseString m.key false).1.pos) m.at :=
  container_edge cfg sec pos m "credentials" hk _ (fun s => by step_path [containerKey_credentials'])

section
variable (cfg : Cfg) (mW mJ mK mC mS : MapCtx) (sS : SeqCtx) (tag : String) (l c : Nat) (ps : List (Node × Node))

theorem credentialsChecked_incomplete (pos : Yaml.Pos)
    (h : (∀ q ∈ ps, keyId cfg true q.1 ≠ "username") ∨ (∀ q ∈ ps, keyId cfg true q.1 ≠ "password")) :
    (⟨pos, "credentials-pair", []⟩ : PErr) ∈ (credentialsChecked cfg pos (mapNode tag l c ps)).2 := by
  have key : (⟨pos, "credentials-pair", []⟩ : PErr) ∈
      (containerKey cfg "container" { pos := pos } ⟨"credentials", ⟨"", false, pos⟩, mapNode tag l c ps⟩).2 := by
    rcases h with h | h
    · exact credentials_missing_username cfg "container" _ ⟨"credentials", ⟨"", false, pos⟩, mapNode tag l c ps⟩ rfl
        (ids_of_pairs cfg _ tag l c ps false true (· ≠ "username") h)
    · exact credentials_missing_password cfg "container" _ ⟨"credentials", ⟨"", false, pos⟩, mapNode tag l c ps⟩ rfl
        (ids_of_pairs cfg _ tag l c ps false true (· ≠ "password") h)
  rw [containerKey_credentials'] at key
  exact key

/-- `credentials:` without `username:` or without `password:`, in any container — reported at the `credentials` key -/
theorem credentials_incomplete_at {ctx : Node → Node} {sec : String} {pos : Yaml.Pos}
    (hp : Path (parse cfg) (parseContainer cfg sec pos) ctx) (hC : mC.Keyed cfg "credentials")
    (h : (∀ q ∈ ps, keyId cfg true q.1 ≠ "username") ∨ (∀ q ∈ ps, keyId cfg true q.1 ≠ "password")) :
    (⟨(parseString mC.key false).1.pos, "credentials-pair", []⟩ : PErr) ∈ (parse cfg (ctx (mC.at (mapNode tag l c ps)))).2 :=
  (hp.trans (e_container_credentialsChecked cfg sec pos mC hC)).reported (credentialsChecked_incomplete cfg tag l c ps _ h)

/-- … of the job's container -/
theorem container_credentials_incomplete_in_document (hW : mW.Keyed cfg "jobs") (hJ : mJ.Free cfg) (hK : mK.Keyed cfg "container")
    (hC : mC.Keyed cfg "credentials")
    (h : (∀ q ∈ ps, keyId cfg true q.1 ≠ "username") ∨ (∀ q ∈ ps, keyId cfg true q.1 ≠ "password")) :
    (⟨(parseString mC.key false).1.pos, "credentials-pair", []⟩ : PErr) ∈
      (parse cfg (docNode (mW.at (mJ.at (mK.at (mC.at (mapNode tag l c ps))))))).2 :=
  credentials_incomplete_at cfg mC tag l c ps (path_job_key cfg mW mJ mK hW hJ (e_job_container cfg _ mK hK)) hC h

/-- … of a service -/
theorem service_credentials_incomplete_in_document (hW : mW.Keyed cfg "jobs") (hJ : mJ.Free cfg) (hK : mK.Keyed cfg "services")
    (hS : mS.Free cfg) (hC : mC.Keyed cfg "credentials")
    (h : (∀ q ∈ ps, keyId cfg true q.1 ≠ "username") ∨ (∀ q ∈ ps, keyId cfg true q.1 ≠ "password")) :
    (⟨(parseString mC.key false).1.pos, "credentials-pair", []⟩ : PErr) ∈
      (parse cfg (docNode (mW.at (mJ.at (mK.at (mS.at (mC.at (mapNode tag l c ps)))))))).2 :=
  credentials_incomplete_at cfg mC tag l c ps
    ((path_job_key cfg mW mJ mK hW hJ (e_job_services cfg _ mK hK)).trans (e_services_service cfg mS hS)) hC h

/-! #### `schedule:` items -/

/-- an item of `schedule:` that is not exactly `{cron: …}` (after `parseMapping` has dropped repeated keys) — reported at the
item, in the diagnostics of the whole file (`mW`: root with `on:`, `mJ`: `on:` with `schedule:`) -/
theorem schedule_item_in_document (hW : mW.Keyed cfg "on") (hJ : mJ.Keyed cfg "schedule") (c0 : Node)
    (h : ∀ kv, (parseMapping cfg "element of \"schedule\" section" c0 false true).1 = [kv] → kv.id ≠ "cron") :
    errAt c0 "schedule-element" [] ∈ (parse cfg (docNode (mW.at (mJ.at (sS.at c0))))).2 := by
  refine ((path_event cfg mW mJ hW (e_on_schedule cfg _ mJ hJ)).trans (e_schedule_item cfg _ sS)).reported ?_
  have := schedule_item_reported cfg c0 [] h
  rw [scheduleItems_cons] at this
  simpa [scheduleItems] using this

/-- in particular: a key other than `cron` in the item, whatever else the item has -/
theorem schedule_item_unknown_key_in_document (hW : mW.Keyed cfg "on") (hJ : mJ.Keyed cfg "schedule")
    (hkey : ∀ q ∈ ps, keyId cfg true q.1 ≠ "cron") :
    (⟨⟨l, c⟩, "schedule-element", []⟩ : PErr) ∈ (parse cfg (docNode (mW.at (mJ.at (sS.at (mapNode tag l c ps)))))).2 := by
  refine schedule_item_in_document cfg mW mJ sS hW hJ (mapNode tag l c ps) ?_
  intro kv hkv
  exact ids_of_pairs cfg _ tag l c ps false true (· ≠ "cron") hkey kv (by rw [hkv]; simp)

end

/-! #### examples for 2. -/

/-- `jobs: {…}` alone: no `on:` -/
example : (⟨⟨1, 1⟩, "workflow-no-on", []⟩ : PErr) ∈ (parse exCfg (docNode (mapNode "!!map" 1 1 [(sc "jobs" 1 1, exJobsNode)]))).2 :=
  workflow_missing_on_in_document exCfg "!!map" 1 1 _ (by decide)

/-- `on: push` / `name: x`: no `jobs:` -/
example : (⟨⟨1, 1⟩, "workflow-no-jobs", []⟩ : PErr) ∈
    (parse exCfg (docNode (mapNode "!!map" 1 1 [(sc "on" 1 1, sc "push" 1 5), (sc "name" 2 1, sc "x" 2 7)]))).2 :=
  workflow_missing_jobs_in_document exCfg "!!map" 1 1 _ (by decide)

/-- the job `build` has only `runs-on:` (and an unknown key): `job-no-steps` at `build` (3:3), among the other diagnostics -/
example : (⟨⟨3, 3⟩, "job-no-steps", ["build"]⟩ : PErr) ∈ (parse exCfg (docNode (exRoot.at (exJobs.at
    (mapNode "!!map" 4 5 [(sc "runs-on" 4 5, sc "ubuntu-latest" 4 14), (sc "bogus" 5 5, sc "x" 5 12)]))))).2 :=
  job_missing_steps_in_document exCfg exRoot exJobs "!!map" 4 5 _ (by keyed) (by decide) (by decide)

/-- the job `build` has only `steps:` -/
example : (⟨⟨3, 3⟩, "job-no-runs-on", ["build"]⟩ : PErr) ∈ (parse exCfg (docNode (exRoot.at (exJobs.at
    (mapNode "!!map" 4 5 [(sc "steps" 5 5, seqNode "!!seq" 6 7 [exStep0])]))))).2 :=
  job_missing_runs_on_in_document exCfg exRoot exJobs "!!map" 4 5 _ (by keyed) (by decide) (by decide)

/-- `- name: hello` -/
example : (⟨⟨6, 9⟩, "step-no-exec", []⟩ : PErr) ∈ (parse exCfg (docNode (exRoot.at (exJobs.at (exJobSteps.at (exSeq.at
    (mapNode "!!map" 6 9 [(sc "name" 6 9, sc "hello" 6 15)]))))))).2 :=
  step_missing_exec_in_document exCfg exRoot exJobs exJobSteps exSeq "!!map" 6 9 _ (by keyed) (by decide) (by keyed) (by decide)

/-- `concurrency: {cancel-in-progress: true}` at the top level and in a job -/
example : (⟨⟨9, 1⟩, "concurrency-no-group", []⟩ : PErr) ∈ (parse exCfg (docNode ((exRootKey "concurrency").at
    (mapNode "!!map" 10 3 [(sc "cancel-in-progress" 10 3, sc "true" 10 23)])))).2 :=
  workflow_concurrency_missing_group_in_document exCfg (exRootKey "concurrency") "!!map" 10 3 _ (by keyed) (by decide)

example : (⟨⟨8, 5⟩, "concurrency-no-group", []⟩ : PErr) ∈ (parse exCfg (docNode (exRoot.at (exJobs.at ((exJobKey "concurrency").at
    (mapNode "!!map" 9 7 [(sc "cancel-in-progress" 9 7, sc "true" 9 27)])))))).2 :=
  job_concurrency_missing_group_in_document exCfg exRoot exJobs (exJobKey "concurrency") "!!map" 9 7 _
    (by keyed) (by decide) (by keyed) (by decide)

/-- `environment: {url: https://example.com}` -/
example : (⟨⟨8, 5⟩, "environment-no-name", []⟩ : PErr) ∈ (parse exCfg (docNode (exRoot.at (exJobs.at ((exJobKey "environment").at
    (mapNode "!!map" 9 7 [(sc "url" 9 7, sc "https://example.com" 9 12)])))))).2 :=
  environment_missing_name_in_document exCfg exRoot exJobs (exJobKey "environment") "!!map" 9 7 _
    (by keyed) (by decide) (by keyed) (by decide)

/-- `defaults: {runs: {shell: bash}}` (a typo): besides the unexpected key, `defaults-no-run` -/
example : (⟨⟨10, 3⟩, "defaults-no-run", []⟩ : PErr) ∈ (parse exCfg (docNode ((exRootKey "defaults").at
    (mapNode "!!map" 10 3 [(sc "runs" 10 3, mapNode "!!map" 11 5 [(sc "shell" 11 5, sc "bash" 11 12)])])))).2 :=
  workflow_defaults_missing_run_in_document exCfg (exRootKey "defaults") "!!map" 10 3 _ (by keyed) (by decide)

example : (⟨⟨9, 7⟩, "defaults-no-run", []⟩ : PErr) ∈ (parse exCfg (docNode (exRoot.at (exJobs.at ((exJobKey "defaults").at
    (mapNode "!!map" 9 7 [(sc "runs" 9 7, mapNode "!!map" 10 9 [(sc "shell" 10 9, sc "bash" 10 16)])])))))).2 :=
  job_defaults_missing_run_in_document exCfg exRoot exJobs (exJobKey "defaults") "!!map" 9 7 _
    (by keyed) (by decide) (by keyed) (by decide)

/-- `on: {workflow_call: {inputs: {name: {required: true}}}}`: no `type:` — reported at `name` (4:7) -/
example : (⟨⟨4, 7⟩, "call-input-type-missing", ["name"]⟩ : PErr) ∈ (parse exCfg (docNode (exOnRoot.at
    ((exOnly "workflow_call" 2 3).at ((exOnly "inputs" 3 5).at ((exOnly "name" 4 7).at
      (mapNode "!!map" 5 9 [(sc "required" 5 9, sc "true" 5 19)]))))))).2 :=
  callInput_missing_type_in_document exCfg exOnRoot (exOnly "workflow_call" 2 3) (exOnly "inputs" 3 5) (exOnly "name" 4 7)
    "!!map" 5 9 _ (by keyed) (by keyed) (by keyed) (by decide) (by decide)

/-- `on: {workflow_call: {outputs: {out: {description: d}}}}`: no `value:` -/
example : (⟨⟨4, 7⟩, "call-output-value-missing", ["out"]⟩ : PErr) ∈ (parse exCfg (docNode (exOnRoot.at
    ((exOnly "workflow_call" 2 3).at ((exOnly "outputs" 3 5).at ((exOnly "out" 4 7).at
      (mapNode "!!map" 5 9 [(sc "description" 5 9, sc "d" 5 22)]))))))).2 :=
  callOutput_missing_value_in_document exCfg exOnRoot (exOnly "workflow_call" 2 3) (exOnly "outputs" 3 5) (exOnly "out" 4 7)
    "!!map" 5 9 _ (by keyed) (by keyed) (by keyed) (by decide) (by decide)

/-- `container: {image: node, credentials: {username: u}}`: no `password:` — reported at `credentials` (10:7) -/
example : (⟨⟨10, 7⟩, "credentials-pair", []⟩ : PErr) ∈ (parse exCfg (docNode (exRoot.at (exJobs.at ((exJobKey "container").at
    ((⟨"!!map", 9, 7, [(sc "image" 9 7, sc "node" 9 14)], sc "credentials" 10 7, []⟩ : MapCtx).at
      (mapNode "!!map" 11 9 [(sc "username" 11 9, sc "u" 11 19)]))))))).2 :=
  container_credentials_incomplete_in_document exCfg exRoot exJobs (exJobKey "container") _ "!!map" 11 9 _
    (by keyed) (by decide) (by keyed) (by keyed) (Or.inr (by decide))

/-- `services: {db: {image: postgres, credentials: {password: p}}}`: no `username:` -/
example : (⟨⟨11, 9⟩, "credentials-pair", []⟩ : PErr) ∈ (parse exCfg (docNode (exRoot.at (exJobs.at ((exJobKey "services").at
    ((exOnly "db" 9 7).at ((⟨"!!map", 10, 9, [(sc "image" 10 9, sc "postgres" 10 16)], sc "credentials" 11 9, []⟩ : MapCtx).at
      (mapNode "!!map" 12 11 [(sc "password" 12 11, sc "p" 12 21)])))))))).2 :=
  service_credentials_incomplete_in_document exCfg exRoot exJobs (exJobKey "services") _ (exOnly "db" 9 7) "!!map" 12 11 _
    (by keyed) (by decide) (by keyed) (by decide) (by keyed) (Or.inl (by decide))

/-- `on: {schedule: [{crom: "0 0 * * *"}]}` (a typo) -/
example : (⟨⟨3, 7⟩, "schedule-element", []⟩ : PErr) ∈ (parse exCfg (docNode (exOnRoot.at ((exOnly "schedule" 2 3).at
    ((⟨"!!seq", 3, 5, [], []⟩ : SeqCtx).at (mapNode "!!map" 3 7 [(sc "crom" 3 7, sc "0 0 * * *" 3 13)])))))).2 :=
  schedule_item_unknown_key_in_document exCfg exOnRoot (exOnly "schedule" 2 3) _ "!!map" 3 7 _ (by keyed) (by keyed) (by decide)

/-! #### found: a container / a service without `image:` is NOT reported by the parser

`parseContainer` has no final check: `container: {env: {A: "1"}}` and `services: {db: {env: {A: "1"}}}` parse without any
diagnostic (the Go parser is the same; no rule of actionlint reports it either at this level). -/

theorem container_without_image_not_reported :
    (parse exCfg (docNode (exRoot.at (exJobs.at ((exJobKey "container").at
      (mapNode "!!map" 9 7 [(sc "env" 9 7, mapNode "!!map" 10 9 [(sc "A" 10 9, sc "1" 10 12)])])))))).2 = [] := by
  decide +kernel

theorem service_without_image_not_reported :
    (parse exCfg (docNode (exRoot.at (exJobs.at ((exJobKey "services").at ((exOnly "db" 9 7).at
      (mapNode "!!map" 10 9 [(sc "env" 10 9, mapNode "!!map" 11 11 [(sc "A" 11 11, sc "1" 11 14)])]))))))).2 = [] := by
  decide +kernel

/-! #### found: an unknown key in a `schedule:` item drops the whole item

The property's "the rest of the document is parsed as if the offending key were not there" does not hold for the items of
`schedule:`: the item is reported (`schedule_item_in_document`) and `continue`d — its `cron:` does not reach the AST (and so
is never checked). A REPEATED `cron:` key is different: `parseMapping` drops the repetition, one key is left, the item stays. -/

/-- `schedule: [{cron: "0 0 * * *", bogus: x}]`: one diagnostic, and the event has NO cron entry, whereas without `bogus:` it
has one -/
theorem schedule_item_unknown_key_drops_cron :
    let doc (item : Node) : Node := docNode (exOnRoot.at ((exOnly "schedule" 2 3).at ((⟨"!!seq", 3, 5, [], []⟩ : SeqCtx).at item)))
    ((parse exCfg (doc (mapNode "!!map" 3 7 [(sc "cron" 3 7, sc "0 0 * * *" 3 13), (sc "bogus" 4 7, sc "x" 4 14)]))).1.on.map
        (·.map fun e => match e with | .schedule cron _ => cron.length | _ => 99)) = some [0] ∧
    (parse exCfg (doc (mapNode "!!map" 3 7 [(sc "cron" 3 7, sc "0 0 * * *" 3 13), (sc "bogus" 4 7, sc "x" 4 14)]))).2 =
      [⟨⟨3, 7⟩, "schedule-element", []⟩] ∧
    ((parse exCfg (doc (mapNode "!!map" 3 7 [(sc "cron" 3 7, sc "0 0 * * *" 3 13)]))).1.on.map
        (·.map fun e => match e with | .schedule cron _ => cron.length | _ => 99)) = some [1] := by
  decide +kernel

/-! ### 3. unknown keys in the sections `C13Doc` does not reach

With `Path.ins` every section theorem of `C13Parse` is one line. (Unknown keys in the items of `schedule:` are above:
`schedule_item_unknown_key_in_document`; the scopes of `permissions:` are free names for the parser — an unknown scope is
reported by the rule `permissions`, not by `parse.go`.) -/

section
variable (cfg : Cfg) (mW mJ mK mC mS mE mI : MapCtx) (tag : String) (l c : Nat) (pre post : List (Node × Node)) (kn vn : Node)

/-- the two documents: the mapping at the end of the path without and with the pair `(kn, vn)` -/
abbrev Without (ctx : Node → Node) (tag : String) (l c : Nat) (pre post : List (Node × Node)) : Node :=
  ctx (mapNode tag l c (pre ++ post))
abbrev With (ctx : Node → Node) (tag : String) (l c : Nat) (pre post : List (Node × Node)) (kn vn : Node) : Node :=
  ctx (mapNode tag l c (pre ++ (kn, vn) :: post))

/-- a secret of `workflow_call` (`on.workflow_call.secrets.<id>.<key>`) -/
theorem callSecret_unknown_in_document (hW : mW.Keyed cfg "on") (hJ : mJ.Keyed cfg "workflow_call") (hE : mE.Keyed cfg "secrets")
    (hI : mI.Free cfg) (hF : Foreign cfg ["description", "required"] pre post kn) :
    AddsExactly cfg (Without (fun v => docNode (mW.at (mJ.at (mE.at (mI.at v))))) tag l c pre post)
      (With (fun v => docNode (mW.at (mJ.at (mE.at (mI.at v))))) tag l c pre post kn vn)
      (unexpectedAt kn "secrets" ["description", "required"]) :=
  (((path_event cfg mW mJ hW (e_on_call cfg _ mJ hJ)).trans (e_call_secrets cfg _ mE hE)).trans
    (e_callSecrets_secret cfg mI hI)).ins (callSecret_unknown cfg tag l c pre post kn vn _ _ hF)

/-- an output of `workflow_call` (`on.workflow_call.outputs.<id>.<key>`) -/
theorem callOutput_unknown_in_document (hW : mW.Keyed cfg "on") (hJ : mJ.Keyed cfg "workflow_call") (hE : mE.Keyed cfg "outputs")
    (hI : mI.Free cfg) (hF : Foreign cfg ["description", "value"] pre post kn) :
    AddsExactly cfg (Without (fun v => docNode (mW.at (mJ.at (mE.at (mI.at v))))) tag l c pre post)
      (With (fun v => docNode (mW.at (mJ.at (mE.at (mI.at v))))) tag l c pre post kn vn)
      (unexpectedAt kn "outputs at workflow_call event" ["description", "value"]) :=
  (((path_event cfg mW mJ hW (e_on_call cfg _ mJ hJ)).trans (e_call_outputs cfg _ mE hE)).trans
    (e_callOutputs_output cfg mI hI)).ins (callOutput_unknown cfg tag l c pre post kn vn _ _ hF)

/-- `defaults:` itself (only `run:` is allowed), along any path -/
theorem defaults_unknown_at {ctx : Node → Node} {pos : Yaml.Pos} (hp : Path (parse cfg) (parseDefaults cfg pos) ctx)
    (hF : Foreign cfg ["run"] pre post kn) :
    AddsExactly cfg (Without ctx tag l c pre post) (With ctx tag l c pre post kn vn) (unexpectedAt kn "defaults" ["run"]) :=
  hp.ins (defaults_unknown cfg tag l c pre post kn vn pos (mapNode tag l c []) hF)

theorem workflow_defaults_unknown_in_document (hW : mW.Keyed cfg "defaults") (hF : Foreign cfg ["run"] pre post kn) :
    AddsExactly cfg (Without (fun v => docNode (mW.at v)) tag l c pre post) (With (fun v => docNode (mW.at v)) tag l c pre post kn vn)
      (unexpectedAt kn "defaults" ["run"]) :=
  defaults_unknown_at cfg tag l c pre post kn vn (path_wf cfg mW (e_wf_defaults cfg mW hW)) hF

theorem job_defaults_unknown_in_document (hW : mW.Keyed cfg "jobs") (hJ : mJ.Free cfg) (hK : mK.Keyed cfg "defaults")
    (hF : Foreign cfg ["run"] pre post kn) :
    AddsExactly cfg (Without (fun v => docNode (mW.at (mJ.at (mK.at v)))) tag l c pre post)
      (With (fun v => docNode (mW.at (mJ.at (mK.at v)))) tag l c pre post kn vn) (unexpectedAt kn "defaults" ["run"]) :=
  defaults_unknown_at cfg tag l c pre post kn vn (path_job_key cfg mW mJ mK hW hJ (e_job_defaults cfg _ mK hK)) hF

/-- `credentials:` of a service (`jobs.<id>.services.<svc>.credentials.<key>`, five levels below the root) -/
theorem service_credentials_unknown_in_document (hW : mW.Keyed cfg "jobs") (hJ : mJ.Free cfg) (hK : mK.Keyed cfg "services")
    (hS : mS.Free cfg) (hC : mC.Keyed cfg "credentials") (hF : Foreign cfg ["username", "password"] pre post kn) :
    AddsExactly cfg (Without (fun v => docNode (mW.at (mJ.at (mK.at (mS.at (mC.at v)))))) tag l c pre post)
      (With (fun v => docNode (mW.at (mJ.at (mK.at (mS.at (mC.at v)))))) tag l c pre post kn vn)
      (unexpectedAt kn "credentials" ["username", "password"]) :=
  (((path_job_key cfg mW mJ mK hW hJ (e_job_services cfg _ mK hK)).trans (e_services_service cfg mS hS)).trans
    (e_container_credentials cfg _ _ mC hC)).ins (credentials_unknown cfg tag l c pre post kn vn _ hF)

/-- any container, along any path (the job's, a service's) -/
theorem container_unknown_at {ctx : Node → Node} {sec : String} {pos : Yaml.Pos} (hp : Path (parse cfg) (parseContainer cfg sec pos) ctx)
    (hF : Foreign cfg containerKeys pre post kn) :
    AddsExactly cfg (Without ctx tag l c pre post) (With ctx tag l c pre post kn vn) (unexpectedAt kn sec containerKeys) :=
  hp.ins (container_unknown cfg tag l c pre post kn vn sec pos hF)

/-- any step, along any path -/
theorem step_unknown_at {ctx : Node → Node} (hp : Path (parse cfg) (parseStep cfg) ctx) (hF : Foreign cfg stepKeys pre post kn) :
    AddsExactly cfg (Without ctx tag l c pre post) (With ctx tag l c pre post kn vn) (unexpectedAt kn "step" stepKeys) :=
  hp.ins (step_unknown cfg tag l c pre post kn vn hF)

end

/-- `on: {workflow_call: {secrets: {tok: {required: true, bogus: x}}}}` -/
example : AddsExactly exCfg
    (docNode (exOnRoot.at ((exOnly "workflow_call" 2 3).at ((exOnly "secrets" 3 5).at ((exOnly "tok" 4 7).at
      (mapNode "!!map" 5 9 ([(sc "required" 5 9, sc "true" 5 19)] ++ [])))))))
    (docNode (exOnRoot.at ((exOnly "workflow_call" 2 3).at ((exOnly "secrets" 3 5).at ((exOnly "tok" 4 7).at
      (mapNode "!!map" 5 9 ([(sc "required" 5 9, sc "true" 5 19)] ++ (sc "bogus" 6 9, sc "x" 6 16) :: [])))))))
    (unexpectedAt (sc "bogus" 6 9) "secrets" ["description", "required"]) :=
  callSecret_unknown_in_document exCfg exOnRoot (exOnly "workflow_call" 2 3) (exOnly "secrets" 3 5) (exOnly "tok" 4 7)
    "!!map" 5 9 _ [] _ _ (by keyed) (by keyed) (by keyed) (by decide)
    ⟨goodKey_of_scalar _ rfl (by decide), by decide, by decide, by decide⟩

/-- `on: {workflow_call: {outputs: {out: {value: x, bogus: y}}}}` -/
example : AddsExactly exCfg
    (docNode (exOnRoot.at ((exOnly "workflow_call" 2 3).at ((exOnly "outputs" 3 5).at ((exOnly "out" 4 7).at
      (mapNode "!!map" 5 9 ([(sc "value" 5 9, sc "x" 5 16)] ++ [])))))))
    (docNode (exOnRoot.at ((exOnly "workflow_call" 2 3).at ((exOnly "outputs" 3 5).at ((exOnly "out" 4 7).at
      (mapNode "!!map" 5 9 ([(sc "value" 5 9, sc "x" 5 16)] ++ (sc "bogus" 6 9, sc "y" 6 16) :: [])))))))
    (unexpectedAt (sc "bogus" 6 9) "outputs at workflow_call event" ["description", "value"]) :=
  callOutput_unknown_in_document exCfg exOnRoot (exOnly "workflow_call" 2 3) (exOnly "outputs" 3 5) (exOnly "out" 4 7)
    "!!map" 5 9 _ [] _ _ (by keyed) (by keyed) (by keyed) (by decide)
    ⟨goodKey_of_scalar _ rfl (by decide), by decide, by decide, by decide⟩

/-- `defaults: {run: {shell: bash}, bogus: x}` at the top level and in a job -/
example : AddsExactly exCfg
    (docNode ((exRootKey "defaults").at (mapNode "!!map" 10 3 ([(sc "run" 10 3, mapNode "!!map" 11 5 [(sc "shell" 11 5, sc "bash" 11 12)])] ++ []))))
    (docNode ((exRootKey "defaults").at (mapNode "!!map" 10 3 ([(sc "run" 10 3, mapNode "!!map" 11 5 [(sc "shell" 11 5, sc "bash" 11 12)])] ++
      (sc "bogus" 12 3, sc "x" 12 10) :: []))))
    (unexpectedAt (sc "bogus" 12 3) "defaults" ["run"]) :=
  workflow_defaults_unknown_in_document exCfg (exRootKey "defaults") "!!map" 10 3 _ [] _ _ (by keyed)
    ⟨goodKey_of_scalar _ rfl (by decide), by decide, by decide, by decide⟩

example : AddsExactly exCfg
    (docNode (exRoot.at (exJobs.at ((exJobKey "defaults").at
      (mapNode "!!map" 9 7 ([(sc "run" 9 7, mapNode "!!map" 10 9 [(sc "shell" 10 9, sc "bash" 10 16)])] ++ []))))))
    (docNode (exRoot.at (exJobs.at ((exJobKey "defaults").at
      (mapNode "!!map" 9 7 ([(sc "run" 9 7, mapNode "!!map" 10 9 [(sc "shell" 10 9, sc "bash" 10 16)])] ++
        (sc "bogus" 11 7, sc "x" 11 14) :: []))))))
    (unexpectedAt (sc "bogus" 11 7) "defaults" ["run"]) :=
  job_defaults_unknown_in_document exCfg exRoot exJobs (exJobKey "defaults") "!!map" 9 7 _ [] _ _
    (by keyed) (by decide) (by keyed) ⟨goodKey_of_scalar _ rfl (by decide), by decide, by decide, by decide⟩

/-- `services: {db: {image: postgres, credentials: {username: u, password: p, token: t}}}` -/
example : AddsExactly exCfg
    (docNode (exRoot.at (exJobs.at ((exJobKey "services").at ((exOnly "db" 9 7).at
      ((⟨"!!map", 10, 9, [(sc "image" 10 9, sc "postgres" 10 16)], sc "credentials" 11 9, []⟩ : MapCtx).at
        (mapNode "!!map" 12 11 ([(sc "username" 12 11, sc "u" 12 21), (sc "password" 13 11, sc "p" 13 21)] ++ []))))))))
    (docNode (exRoot.at (exJobs.at ((exJobKey "services").at ((exOnly "db" 9 7).at
      ((⟨"!!map", 10, 9, [(sc "image" 10 9, sc "postgres" 10 16)], sc "credentials" 11 9, []⟩ : MapCtx).at
        (mapNode "!!map" 12 11 ([(sc "username" 12 11, sc "u" 12 21), (sc "password" 13 11, sc "p" 13 21)] ++
          (sc "token" 14 11, sc "t" 14 18) :: []))))))))
    (unexpectedAt (sc "token" 14 11) "credentials" ["username", "password"]) :=
  service_credentials_unknown_in_document exCfg exRoot exJobs (exJobKey "services") _ (exOnly "db" 9 7) "!!map" 12 11 _ [] _ _
    (by keyed) (by decide) (by keyed) (by decide) (by keyed) ⟨goodKey_of_scalar _ rfl (by decide), by decide, by decide, by decide⟩

/-- the general lemma at work: an unknown key in the SECOND step of a job — the path is composed on the spot -/
example : AddsExactly exCfg
    (docNode (exRoot.at (exJobs.at (exJobSteps.at ((⟨"!!seq", 6, 7, [exStep0], []⟩ : SeqCtx).at
      (mapNode "!!map" 7 9 ([(sc "run" 7 9, sc "make" 7 14)] ++ [])))))))
    (docNode (exRoot.at (exJobs.at (exJobSteps.at ((⟨"!!seq", 6, 7, [exStep0], []⟩ : SeqCtx).at
      (mapNode "!!map" 7 9 ([(sc "run" 7 9, sc "make" 7 14)] ++ (sc "bogus" 8 9, sc "x" 8 16) :: [])))))))
    (unexpectedAt (sc "bogus" 8 9) "step" stepKeys) :=
  step_unknown_at exCfg "!!map" 7 9 _ [] _ _
    (path_step exCfg exRoot exJobs exJobSteps ⟨"!!seq", 6, 7, [exStep0], []⟩ (by keyed) (by decide) (by keyed))
    ⟨goodKey_of_scalar _ rfl (by decide), by decide, by decide, by decide⟩

/-! ### 1'. repeated keys in the elements of `matrix.include` / `matrix.exclude` -/

/-- one element of `include:` / `exclude:`; `none` = a scalar that is not a placeholder (reported and dropped) -/
def matrixCombo (cfg : Cfg) (sec : String) (c : Node) : R (Option MatrixCombination) :=
  if c.kind = .scalar then
    let e := parseExpression c "mapping of matrix combination"
    (match e.1 with | some s => some ⟨none, some s⟩ | none => none, e.2)
  else
    let m := parseMapping cfg ("element in \"" ++ sec ++ "\" section") c false false
    let a := matrixAssigns cfg m.1
    (some ⟨some a.1, none⟩, m.2 ++ a.2)

theorem matrixCombos_cons (cfg : Cfg) (sec : String) (c : Node) (cs : List Node) :
    matrixCombos cfg sec (c :: cs) =
      ((match (matrixCombo cfg sec c).1 with | some x => x :: (matrixCombos cfg sec cs).1 | none => (matrixCombos cfg sec cs).1),
       (matrixCombo cfg sec c).2 ++ (matrixCombos cfg sec cs).2) := by
  simp only [matrixCombos, matrixCombo]
  by_cases hk : c.kind = .scalar
  · simp only [hk, ↓reduceIte]
    cases (parseExpression c "mapping of matrix combination").1 <;> rfl
  · simp only [hk, ↓reduceIte, List.append_assoc]

/-- `include:` / `exclude:` → one element -/
theorem e_combos_elem (cfg : Cfg) (sec : String) (s : SeqCtx) : Path (parseMatrixCombinations cfg sec) (matrixCombo cfg sec) s.at := by
  have hk : ∀ x : Node, ((s.at x).kind = .scalar) = False := by intro x; simp [SeqCtx.at, seqNode, Node.kind]
  have hc : ∀ x : Node, checkSequence sec (s.at x) false = (true, []) := by
    intro x
    simp [checkSequence, SeqCtx.at, seqNode, Node.kind, Node.content, checkNotEmpty]
  have hcont : ∀ x : Node, (s.at x).content = s.before ++ x :: s.after := fun _ => rfl
  have key := seq_edge (matrixCombos cfg sec) (matrixCombo cfg sec)
    (fun (o : Option MatrixCombination) (r : List MatrixCombination) => match o with | some x => x :: r | none => r)
    (fun c cs => matrixCombos_cons cfg sec c cs) s.after s.before
  refine ⟨fun v v' es h => ?_, fun v e he => ?_⟩
  · obtain ⟨h1, h2⟩ := key.1 v v' es h
    simp only [Ext, parseMatrixCombinations, hk, hc, hcont, Bool.not_true, Bool.false_eq_true, ↓reduceIte, List.nil_append]
    exact ⟨by rw [h1], h2⟩
  · simp only [parseMatrixCombinations, hk, hc, hcont, Bool.not_true, Bool.false_eq_true, ↓reduceIte, List.nil_append]
    exact key.2 v e he

/-- `matrix:` → the value of one of its keys (`matrix:` folds the letter case of its keys: `Include:` is `include:`) -/
theorem matrix_edge {β : Type} (cfg : Cfg) (pos : Yaml.Pos) (m : MapCtx) (Q : Node → R β)
    (hfirst : ∀ q ∈ m.pre, keyId cfg false q.1 ≠ keyId cfg false m.key)
    (hstep : ∀ s, Path (fun v => matrixKey cfg s ⟨keyId cfg false m.key, (parseString m.key false).1, v⟩) Q id) :
    Path (parseMatrix cfg pos) Q m.at :=
  Path.wrap id
    (Sect.edge' (plain (matrixKey cfg) { rows := some [], pos := pos }) cfg (sectionWhat "matrix") false false m Q hfirst hstep)
    (fun v => by simp [parseMatrix, MapCtx.at, plain_run, parseSectionMapping])

theorem e_matrix_include (cfg : Cfg) (pos : Yaml.Pos) (m : MapCtx) (hid : keyId cfg false m.key = "include")
    (hfirst : ∀ q ∈ m.pre, keyId cfg false q.1 ≠ "include") :
    Path (parseMatrix cfg pos) (parseMatrixCombinations cfg "include") m.at :=
  matrix_edge cfg pos m _ (by rw [hid]; exact hfirst) (fun s => by rw [hid]; step_path [matrixKey])

theorem e_matrix_exclude (cfg : Cfg) (pos : Yaml.Pos) (m : MapCtx) (hid : keyId cfg false m.key = "exclude")
    (hfirst : ∀ q ∈ m.pre, keyId cfg false q.1 ≠ "exclude") :
    Path (parseMatrix cfg pos) (parseMatrixCombinations cfg "exclude") m.at :=
  matrix_edge cfg pos m _ (by rw [hid]; exact hfirst) (fun s => by rw [hid]; step_path [matrixKey])

/-- `matrixAssigns` as a loop -/
def assignStep (cfg : Cfg) (st : List (String × MatrixAssign)) (kv : KV) : List (String × MatrixAssign) × List PErr :=
  ((match (rawValue cfg kv.val).1 with | some x => st ++ [(kv.id, ⟨kv.key, x⟩)] | none => st), (rawValue cfg kv.val).2)

theorem matrixAssigns_eq_loop (cfg : Cfg) (kvs : List KV) : ∀ acc : List (String × MatrixAssign),
    loop (assignStep cfg) acc kvs = (acc ++ (matrixAssigns cfg kvs).1, (matrixAssigns cfg kvs).2) := by
  induction kvs with
  | nil => intro acc; simp [matrixAssigns]
  | cons kv rest ih =>
    intro acc
    rw [loop_cons, ih]
    simp only [assignStep, matrixAssigns]
    cases (rawValue cfg kv.val).1 <;> simp

/-- an element of `include:` / `exclude:` (a mapping): a repeated key, also in another letter case -/
theorem matrixCombo_duplicate (cfg : Cfg) (sec tag : String) (l c : Nat) (pre post : List (Node × Node)) (kn vn : Node)
    (h : Repeated cfg false pre kn) :
    ∃ pos, firstPos cfg false (keyId cfg false kn) pre = some pos ∧
      Ins (matrixCombo cfg sec) tag l c pre post kn vn (dupAt kn ("element in \"" ++ sec ++ "\" section") pos false) :=
  Sect.dup_ins (plain (assignStep cfg) []) _ (fun r => some (⟨some r, none⟩ : MatrixCombination)) cfg _ false false tag l c
    (fun ps => by simp [matrixCombo, plain_run, matrixAssigns_eq_loop])
    pre post kn vn h

/-- **an element of `strategy.matrix.include`, whole file** (`mS`: `strategy:` with `matrix:`, `mE`: `matrix:` with
`include:`, `sS`: the sequence) -/
theorem matrix_include_duplicate_in_document (cfg : Cfg) (mW mJ mK mS mE : MapCtx) (sS : SeqCtx)
    (tag : String) (l c : Nat) (pre post : List (Node × Node)) (kn vn : Node)
    (hW : mW.Keyed cfg "jobs") (hJ : mJ.Free cfg) (hK : mK.Keyed cfg "strategy") (hS : mS.Keyed cfg "matrix")
    (hid : keyId cfg false mE.key = "include") (hfirst : ∀ q ∈ mE.pre, keyId cfg false q.1 ≠ "include")
    (hR : Repeated cfg false pre kn) :
    DupInDoc cfg (fun v => docNode (mW.at (mJ.at (mK.at (mS.at (mE.at (sS.at v))))))) false "element in \"include\" section"
      tag l c pre post kn vn :=
  ((((path_job_key cfg mW mJ mK hW hJ (e_job_strategy cfg _ mK hK)).trans (e_strategy_matrix cfg _ mS hS)).trans
    (e_matrix_include cfg _ mE hid hfirst)).trans (e_combos_elem cfg "include" sS)).dup
    (matrixCombo_duplicate cfg "include" tag l c pre post kn vn hR)

theorem matrix_exclude_duplicate_in_document (cfg : Cfg) (mW mJ mK mS mE : MapCtx) (sS : SeqCtx)
    (tag : String) (l c : Nat) (pre post : List (Node × Node)) (kn vn : Node)
    (hW : mW.Keyed cfg "jobs") (hJ : mJ.Free cfg) (hK : mK.Keyed cfg "strategy") (hS : mS.Keyed cfg "matrix")
    (hid : keyId cfg false mE.key = "exclude") (hfirst : ∀ q ∈ mE.pre, keyId cfg false q.1 ≠ "exclude")
    (hR : Repeated cfg false pre kn) :
    DupInDoc cfg (fun v => docNode (mW.at (mJ.at (mK.at (mS.at (mE.at (sS.at v))))))) false "element in \"exclude\" section"
      tag l c pre post kn vn :=
  ((((path_job_key cfg mW mJ mK hW hJ (e_job_strategy cfg _ mK hK)).trans (e_strategy_matrix cfg _ mS hS)).trans
    (e_matrix_exclude cfg _ mE hid hfirst)).trans (e_combos_elem cfg "exclude" sS)).dup
    (matrixCombo_duplicate cfg "exclude" tag l c pre post kn vn hR)

/-- `strategy: {matrix: {os: [linux], include: [{os: mac, OS: win}]}}` -/
example : DupInDoc exCfg (fun v => docNode (exRoot.at (exJobs.at ((exJobKey "strategy").at ((exOnly "matrix" 9 7).at
      ((⟨"!!map", 10, 9, [(sc "os" 10 9, seqNode "!!seq" 10 13 [sc "linux" 10 14])], sc "include" 11 9, []⟩ : MapCtx).at
        ((⟨"!!seq", 12, 11, [], []⟩ : SeqCtx).at v)))))))
    false "element in \"include\" section" "!!map" 12 13 [(sc "os" 12 13, sc "mac" 12 17)] [] (sc "OS" 13 13) (sc "win" 13 17) :=
  matrix_include_duplicate_in_document exCfg exRoot exJobs (exJobKey "strategy") (exOnly "matrix" 9 7) _ _ "!!map" 12 13 _ [] _ _
    (by keyed) (by decide) (by keyed) (by keyed) (by decide) (by decide) (by repeated)

example : DupInDoc exCfg (fun v => docNode (exRoot.at (exJobs.at ((exJobKey "strategy").at ((exOnly "matrix" 9 7).at
      ((⟨"!!map", 10, 9, [(sc "os" 10 9, seqNode "!!seq" 10 13 [sc "linux" 10 14])], sc "exclude" 11 9, []⟩ : MapCtx).at
        ((⟨"!!seq", 12, 11, [], []⟩ : SeqCtx).at v)))))))
    false "element in \"exclude\" section" "!!map" 12 13 [(sc "os" 12 13, sc "mac" 12 17)] [] (sc "OS" 13 13) (sc "win" 13 17) :=
  matrix_exclude_duplicate_in_document exCfg exRoot exJobs (exJobKey "strategy") (exOnly "matrix" 9 7) _ _ "!!map" 12 13 _ [] _ _
    (by keyed) (by decide) (by keyed) (by keyed) (by decide) (by decide) (by repeated)

/-! ### 1''. repeated keys in an object literal inside a matrix row (`parseRawYAMLValue`)

`rawProps` is the model's one-pass rendering of `parseMapping("matrix row value", n, true, false)` followed by the loop over
the values; it is shown to be exactly that, so the object literal is a `Sect.run` as well. -/

def objStep (cfg : Cfg) (st : List (String × Raw)) (kv : KV) : List (String × Raw) × List PErr :=
  ((match (rawValue cfg kv.val).1 with | some x => st ++ [(kv.id, x)] | none => st), (rawValue cfg kv.val).2)

/-- the value loop of `parseRawYAMLValue` on a mapping -/
def objOf (cfg : Cfg) : List KV → R (List (String × Raw))
  | [] => ([], [])
  | kv :: rest =>
    ((match (rawValue cfg kv.val).1 with | some x => (kv.id, x) :: (objOf cfg rest).1 | none => (objOf cfg rest).1),
     (rawValue cfg kv.val).2 ++ (objOf cfg rest).2)

theorem objOf_eq_loop (cfg : Cfg) (kvs : List KV) : ∀ acc : List (String × Raw),
    loop (objStep cfg) acc kvs = (acc ++ (objOf cfg kvs).1, (objOf cfg kvs).2) := by
  induction kvs with
  | nil => intro acc; simp [objOf]
  | cons kv rest ih =>
    intro acc
    rw [loop_cons, ih]
    simp only [objStep, objOf]
    cases (rawValue cfg kv.val).1 <;> simp

theorem rawProps_eq (cfg : Cfg) (ps : List (Node × Node)) : ∀ seen : List (String × Yaml.Pos),
    rawProps cfg (flatten ps) seen =
      ((objOf cfg (mappingLoop cfg "matrix row value" false ps seen).1).1,
       ((mappingLoop cfg "matrix row value" false ps seen).2, (objOf cfg (mappingLoop cfg "matrix row value" false ps seen).1).2)) := by
  induction ps with
  | nil => intro seen; simp [flatten, rawProps, mappingLoop, objOf]
  | cons q rest ih =>
    intro seen
    obtain ⟨kn, vn⟩ := q
    simp only [flatten, rawProps.eq_1, mappingLoop_cons, keyId]
    cases hl : lookupSeen (cfg.lower (parseString kn false).1.value) seen with
    | some pos => simp [ih, hl]
    | none =>
      simp [ih, hl, objOf]
      cases (rawValue cfg vn).1 <;> rfl

theorem rawValue_mapNode (cfg : Cfg) (tag : String) (l c : Nat) (ps : List (Node × Node)) :
    rawValue cfg (mapNode tag l c ps) =
      (some (.obj ((plain (objStep cfg) []).run cfg "matrix row value" (mapNode tag l c ps) true false).1 ⟨l, c⟩),
       ((plain (objStep cfg) []).run cfg "matrix row value" (mapNode tag l c ps) true false).2) := by
  rw [plain_run, parseMapping_mapNode]
  simp only [mapNode, rawValue.eq_3, rawProps_eq, objOf_eq_loop]
  simp

/-- an object literal in a matrix row value: a repeated key, also in another letter case -/
theorem rawObj_duplicate (cfg : Cfg) (tag : String) (l c : Nat) (pre post : List (Node × Node)) (kn vn : Node)
    (h : Repeated cfg false pre kn) :
    ∃ pos, firstPos cfg false (keyId cfg false kn) pre = some pos ∧
      Ins (rawValue cfg) tag l c pre post kn vn (dupAt kn "matrix row value" pos false) :=
  Sect.dup_ins (plain (objStep cfg) []) _ (fun r => some (.obj r ⟨l, c⟩)) cfg _ true false tag l c
    (fun ps => rawValue_mapNode cfg tag l c ps) pre post kn vn h

theorem rawSeq_cons (cfg : Cfg) (c : Node) (cs : List Node) :
    rawSeq cfg (c :: cs) =
      ((match (rawValue cfg c).1 with | some x => x :: (rawSeq cfg cs).1 | none => (rawSeq cfg cs).1),
       (rawValue cfg c).2 ++ (rawSeq cfg cs).2) := by
  rw [rawSeq]
  cases (rawValue cfg c).1 <;> rfl

/-- an array literal → one element -/
theorem e_raw_arr (cfg : Cfg) (s : SeqCtx) : Path (rawValue cfg) (rawValue cfg) s.at := by
  have e : ∀ x, rawValue cfg (s.at x) = (some (.arr (rawSeq cfg (s.before ++ x :: s.after)).1 ⟨s.l, s.c⟩),
      (rawSeq cfg (s.before ++ x :: s.after)).2) := by
    intro x; simp only [SeqCtx.at, seqNode, rawValue.eq_2]
  have key := seq_edge (rawSeq cfg) (rawValue cfg)
    (fun (o : Option Raw) (r : List Raw) => match o with | some x => x :: r | none => r)
    (fun c cs => rawSeq_cons cfg c cs) s.after s.before
  refine ⟨fun v v' es h => ?_, fun v e' he => ?_⟩
  · obtain ⟨h1, h2⟩ := key.1 v v' es h
    simp only [Ext, e]
    exact ⟨by rw [h1], h2⟩
  · rw [e]; exact key.2 v e' he

/-- an object literal → the value of one of its keys -/
theorem e_raw_obj (cfg : Cfg) (m : MapCtx) (hk : m.Free cfg) : Path (rawValue cfg) (rawValue cfg) m.at :=
  Path.wrap (fun r => some (.obj r ⟨m.l, m.c⟩))
    (Sect.edge' (plain (objStep cfg) []) cfg "matrix row value" true false m (rawValue cfg) hk
      (fun s => by step_path [plain, objStep]))
    (fun v => rawValue_mapNode cfg m.tag m.l m.c _)

/-- an element of `include:` / `exclude:` → the value of one of its keys -/
theorem e_combo_value (cfg : Cfg) (sec : String) (m : MapCtx) (hk : m.Free cfg) : Path (matrixCombo cfg sec) (rawValue cfg) m.at :=
  Path.wrap (fun r => some (⟨some r, none⟩ : MatrixCombination))
    (Sect.edge' (plain (assignStep cfg) []) cfg ("element in \"" ++ sec ++ "\" section") false false m (rawValue cfg) hk
      (fun s => by step_path [plain, assignStep]))
    (fun v => by simp [matrixCombo, MapCtx.at, plain_run, matrixAssigns_eq_loop])

/-- `Sect.edge` with a context between the key's value and the sub-node (the value is `inner v`) -/
theorem Sect.edge_in {σ ρ β : Type} (S : Sect σ ρ) (cfg : Cfg) (what : String) (ae cs : Bool) (m : MapCtx) (Q : Node → R β)
    (inner : Node → Node)
    (hfirst : ∀ q ∈ m.pre, keyId cfg cs q.1 ≠ keyId cfg cs m.key)
    (hstep : ∀ s, Path (fun v => S.step s ⟨keyId cfg cs m.key, (parseString m.key false).1, v⟩) Q inner) :
    Path (fun n => S.run cfg what n ae cs) Q (fun v => m.at (inner v)) := by
  refine ⟨fun v v' es hx => ?_, fun v e hx => ?_⟩
  · -- replace the value `inner v` by `inner v'`: an `Ext` of the loop body in every state
    exact (Sect.value_ext S cfg what m.tag m.l m.c ae cs m.pre m.post m.key (inner v) (inner v') es
      (fun s => (hstep s).cong v v' es hx) hfirst)
  · obtain ⟨k1, k2, es', e1, _, _⟩ := mappingLoop_value' cfg what cs m.key (inner v) (inner v) m.post m.pre [] rfl hfirst
    have hm : e ∈ (S.step (loop S.step S.init k1).1 ⟨keyId cfg cs m.key, (parseString m.key false).1, inner v⟩).2 :=
      (hstep _).mem v e hx
    have := loop_mem S.step k1 k2 _ S.init e hm
    simp only [MapCtx.at, Sect.run, parseMapping_mapNode, e1, List.mem_append]
    exact Or.inl (Or.inr this)

theorem matrixKey_row (cfg : Cfg) (st : Matrix) (kv : KV) (h1 : kv.id ≠ "include") (h2 : kv.id ≠ "exclude") :
    matrixKey cfg st kv =
      if kv.val.kind = .scalar then
        ({ st with rows := some (setAssoc kv.id ⟨none, none, (parseExpression kv.val "array value for matrix variations").1⟩ (st.rows.getD [])) },
         (parseExpression kv.val "array value for matrix variations").2)
      else if !(checkSequence "matrix values" kv.val false).1 then (st, (checkSequence "matrix values" kv.val false).2)
      else
        ({ st with rows := some (setAssoc kv.id ⟨some kv.key, some (rawSeq cfg kv.val.content).1, none⟩ (st.rows.getD [])) },
         (checkSequence "matrix values" kv.val false).2 ++ (rawSeq cfg kv.val.content).2) := by
  simp only [matrixKey]

/-- a row of `matrix:` (any key but `include` / `exclude`) whose value is a sequence → one element of the sequence -/
theorem e_matrix_row (cfg : Cfg) (pos : Yaml.Pos) (m : MapCtx) (s : SeqCtx) (hk : m.Free cfg)
    (h1 : keyId cfg false m.key ≠ "include") (h2 : keyId cfg false m.key ≠ "exclude") :
    Path (parseMatrix cfg pos) (rawValue cfg) (fun v => m.at (s.at v)) := by
  have hkind : ∀ x : Node, ((s.at x).kind = .scalar) = False := by intro x; simp [SeqCtx.at, seqNode, Node.kind]
  have hc : ∀ x : Node, checkSequence "matrix values" (s.at x) false = (true, []) := by
    intro x
    simp [checkSequence, SeqCtx.at, seqNode, Node.kind, Node.content, checkNotEmpty]
  have hcont : ∀ x : Node, (s.at x).content = s.before ++ x :: s.after := fun _ => rfl
  have key := seq_edge (rawSeq cfg) (rawValue cfg)
    (fun (o : Option Raw) (r : List Raw) => match o with | some x => x :: r | none => r)
    (fun c cs => rawSeq_cons cfg c cs) s.after s.before
  have hrow : ∀ (st : Matrix) (x : Node), matrixKey cfg st ⟨keyId cfg false m.key, (parseString m.key false).1, s.at x⟩ =
      ({ st with rows := some (setAssoc (keyId cfg false m.key)
          ⟨some (parseString m.key false).1, some (rawSeq cfg (s.before ++ x :: s.after)).1, none⟩ (st.rows.getD [])) },
       (rawSeq cfg (s.before ++ x :: s.after)).2) := by
    intro st x
    rw [matrixKey_row cfg st _ h1 h2]
    simp only [hkind, hc, hcont, Bool.not_true, Bool.false_eq_true, ↓reduceIte, List.nil_append]
  have := Sect.edge_in (plain (matrixKey cfg) { rows := some [], pos := pos }) cfg (sectionWhat "matrix") false false m
    (rawValue cfg) s.at hk (fun st => by
      refine ⟨fun v v' es h => ?_, fun v e he => ?_⟩
      · obtain ⟨k1, k2⟩ := key.1 v v' es h
        simp only [Ext, plain, hrow, k1]
        exact ⟨trivial, k2⟩
      · simp only [plain, hrow]
        exact key.2 v e he)
  exact Path.wrap id this (fun v => by simp [parseMatrix, MapCtx.at, plain_run, parseSectionMapping])

/-- **an object literal in a row of `strategy.matrix`, whole file** (`matrix: {os: [{name: linux, NAME: mac}]}`): `mS`:
`strategy:` with `matrix:`, `mE`: `matrix:` with the row, `sS`: the row's sequence -/
theorem matrix_row_object_duplicate_in_document (cfg : Cfg) (mW mJ mK mS mE : MapCtx) (sS : SeqCtx)
    (tag : String) (l c : Nat) (pre post : List (Node × Node)) (kn vn : Node)
    (hW : mW.Keyed cfg "jobs") (hJ : mJ.Free cfg) (hK : mK.Keyed cfg "strategy") (hS : mS.Keyed cfg "matrix")
    (hE : mE.Free cfg) (h1 : keyId cfg false mE.key ≠ "include") (h2 : keyId cfg false mE.key ≠ "exclude")
    (hR : Repeated cfg false pre kn) :
    DupInDoc cfg (fun v => docNode (mW.at (mJ.at (mK.at (mS.at (mE.at (sS.at v))))))) false "matrix row value"
      tag l c pre post kn vn :=
  (((path_job_key cfg mW mJ mK hW hJ (e_job_strategy cfg _ mK hK)).trans (e_strategy_matrix cfg _ mS hS)).trans
    (e_matrix_row cfg _ mE sS hE h1 h2)).dup (rawObj_duplicate cfg tag l c pre post kn vn hR)

/-- … and along any path that ends in a raw value (nested arrays and objects, values of `include:` elements): `e_raw_arr`,
`e_raw_obj`, `e_combo_value` extend the path -/
theorem rawObj_duplicate_at (cfg : Cfg) {ctx : Node → Node} (hp : Path (parse cfg) (rawValue cfg) ctx)
    (tag : String) (l c : Nat) (pre post : List (Node × Node)) (kn vn : Node) (hR : Repeated cfg false pre kn) :
    DupInDoc cfg ctx false "matrix row value" tag l c pre post kn vn :=
  hp.dup (rawObj_duplicate cfg tag l c pre post kn vn hR)

/-- `strategy: {matrix: {os: [{name: linux, NAME: mac}]}}` -/
example : DupInDoc exCfg (fun v => docNode (exRoot.at (exJobs.at ((exJobKey "strategy").at ((exOnly "matrix" 9 7).at
      ((exOnly "os" 10 9).at ((⟨"!!seq", 11, 11, [], []⟩ : SeqCtx).at v)))))))
    false "matrix row value" "!!map" 11 13 [(sc "name" 11 13, sc "linux" 11 19)] [] (sc "NAME" 12 13) (sc "mac" 12 19) :=
  matrix_row_object_duplicate_in_document exCfg exRoot exJobs (exJobKey "strategy") (exOnly "matrix" 9 7) (exOnly "os" 10 9) _
    "!!map" 11 13 _ [] _ _ (by keyed) (by decide) (by keyed) (by keyed) (by decide) (by decide) (by decide) (by repeated)

/-- one level deeper: `matrix: {cfg: [{opts: {a: 1, A: 2}}]}` — the path is extended by `e_raw_obj` -/
example : DupInDoc exCfg (fun v => docNode (exRoot.at (exJobs.at ((exJobKey "strategy").at ((exOnly "matrix" 9 7).at
      ((exOnly "cfg" 10 9).at ((⟨"!!seq", 11, 11, [], []⟩ : SeqCtx).at ((exOnly "opts" 11 13).at v))))))))
    false "matrix row value" "!!map" 12 15 [(sc "a" 12 15, sc "1" 12 18)] [] (sc "A" 13 15) (sc "2" 13 18) :=
  rawObj_duplicate_at exCfg
    ((((path_job_key exCfg exRoot exJobs (exJobKey "strategy") (by keyed) (by decide) (e_job_strategy exCfg _ _ (by keyed))).trans
      (e_strategy_matrix exCfg _ (exOnly "matrix" 9 7) (by keyed))).trans
      (e_matrix_row exCfg _ (exOnly "cfg" 10 9) ⟨"!!seq", 11, 11, [], []⟩ (by decide) (by decide) (by decide))).trans
      (e_raw_obj exCfg (exOnly "opts" 11 13) (by decide)))
    "!!map" 12 15 _ [] _ _ (by repeated)

/-! ### 1'''. repeated keys in the remaining sections (fixed key sets, case-sensitive), along any path

With these, together with `C13Doc` (workflow, `jobs:`, job, step) and 1, 1', 1'' above, EVERY mapping that `parse.go` reads
is covered: a repeated key adds exactly one `key-duplicated` diagnostic to those of the whole file and changes nothing
else. -/

section
variable (cfg : Cfg) {ctx : Node → Node} (tag : String) (l c : Nat) (pre post : List (Node × Node)) (kn vn : Node)

theorem container_duplicate_at {sec : String} {pos : Yaml.Pos} (hp : Path (parse cfg) (parseContainer cfg sec pos) ctx)
    (hR : Repeated cfg true pre kn) : DupInDoc cfg ctx true (sectionWhat sec) tag l c pre post kn vn :=
  hp.dup (Sect.dup_ins (plain (containerKey cfg sec) { pos := pos }) _ id cfg _ false true tag l c
    (fun ps => by rw [parseContainer_eq_run]; rfl) pre post kn vn hR)

theorem credentials_duplicate_at {pos : Yaml.Pos} (hp : Path (parse cfg) (credentialsP cfg pos) ctx)
    (hR : Repeated cfg true pre kn) : DupInDoc cfg ctx true (sectionWhat "credentials") tag l c pre post kn vn :=
  hp.dup (Sect.dup_ins (plain credentialsKey { pos := pos }) _ id cfg _ false true tag l c (fun _ => rfl) pre post kn vn hR)

theorem strategy_duplicate_at {pos : Yaml.Pos} (hp : Path (parse cfg) (parseStrategy cfg pos) ctx)
    (hR : Repeated cfg true pre kn) : DupInDoc cfg ctx true (sectionWhat "strategy") tag l c pre post kn vn :=
  hp.dup (Sect.dup_ins (plain (strategyKey cfg) { pos := pos }) _ id cfg _ false true tag l c
    (fun ps => by rw [parseStrategy_eq_run]; rfl) pre post kn vn hR)

theorem concurrency_duplicate_at {pos : Yaml.Pos} (hp : Path (parse cfg) (parseConcurrency cfg pos) ctx)
    (hR : Repeated cfg true pre kn) : DupInDoc cfg ctx true (sectionWhat "concurrency") tag l c pre post kn vn :=
  hp.dup (Sect.dup_ins (concurrencySect pos) _ id cfg _ false true tag l c
    (fun ps => by rw [parseConcurrency_eq_run]; rfl) pre post kn vn hR)

theorem environment_duplicate_at {pos : Yaml.Pos} (hp : Path (parse cfg) (parseEnvironment cfg pos) ctx)
    (hR : Repeated cfg true pre kn) : DupInDoc cfg ctx true (sectionWhat "environment") tag l c pre post kn vn :=
  hp.dup (Sect.dup_ins (environmentSect pos) _ id cfg _ false true tag l c
    (fun ps => by rw [parseEnvironment_eq_run]; rfl) pre post kn vn hR)

theorem defaults_duplicate_at {pos : Yaml.Pos} (hp : Path (parse cfg) (parseDefaults cfg pos) ctx)
    (hR : Repeated cfg true pre kn) : DupInDoc cfg ctx true (sectionWhat "defaults") tag l c pre post kn vn :=
  hp.dup (Sect.dup_ins (defaultsSect cfg pos (mapNode tag l c [])) _ id cfg _ false true tag l c (fun _ => rfl) pre post kn vn hR)

theorem defaultsRun_duplicate_at {pos : Yaml.Pos} (hp : Path (parse cfg) (defaultsRunP cfg pos) ctx)
    (hR : Repeated cfg true pre kn) : DupInDoc cfg ctx true (sectionWhat "run") tag l c pre post kn vn :=
  hp.dup (Sect.dup_ins (plain defaultsRunKey { pos := pos }) _ id cfg _ false true tag l c (fun _ => rfl) pre post kn vn hR)

theorem runsOn_duplicate_at (hp : Path (parse cfg) (parseRunsOn cfg) ctx)
    (hR : Repeated cfg true pre kn) : DupInDoc cfg ctx true (sectionWhat "runs-on") "!!map" l c pre post kn vn :=
  hp.dup (Sect.dup_ins (plain runsOnKey {}) _ id cfg _ false true "!!map" l c
    (fun ps => by rw [parseRunsOn_eq_run]; rfl) pre post kn vn hR)

/-- `on:` (a mapping): an event given twice -/
theorem events_duplicate_at {pos : Yaml.Pos} (hp : Path (parse cfg) (parseEvents cfg pos) ctx)
    (hR : Repeated cfg true pre kn) : DupInDoc cfg ctx true (sectionWhat "on") tag l c pre post kn vn :=
  hp.dup (Sect.dup_ins (plain (eventOfKey cfg) []) _ some cfg _ false true tag l c
    (fun ps => parseEvents_mapNode cfg pos tag l c ps) pre post kn vn hR)

theorem webhook_duplicate_at {name : Str} (hp : Path (parse cfg) (parseWebhookEvent cfg name) ctx)
    (hR : Repeated cfg true pre kn) : DupInDoc cfg ctx true (sectionWhat name.value) tag l c pre post kn vn :=
  hp.dup (Sect.dup_ins (plain (webhookKey name) { hook := name, pos := name.pos }) _ Event.webhook cfg _ true true tag l c
    (fun _ => parseWebhookEvent_eq_run cfg name _) pre post kn vn hR)

theorem dispatch_duplicate_at {pos : Yaml.Pos} (hp : Path (parse cfg) (parseWorkflowDispatchEvent cfg pos) ctx)
    (hR : Repeated cfg true pre kn) : DupInDoc cfg ctx true (sectionWhat "workflow_dispatch") tag l c pre post kn vn :=
  hp.dup (Sect.dup_ins (plain (dispatchStep cfg) none) _ (fun r => Event.dispatch r pos) cfg _ true true tag l c
    (fun _ => parseWorkflowDispatchEvent_eq_run cfg pos _) pre post kn vn hR)

theorem repoDispatch_duplicate_at {pos : Yaml.Pos} (hp : Path (parse cfg) (parseRepositoryDispatchEvent cfg pos) ctx)
    (hR : Repeated cfg true pre kn) : DupInDoc cfg ctx true (sectionWhat "repository_dispatch") tag l c pre post kn vn :=
  hp.dup (Sect.dup_ins (plain repoDispatchStep none) _ (fun r => Event.repoDispatch r pos) cfg _ true true tag l c
    (fun _ => parseRepositoryDispatchEvent_eq_run cfg pos _) pre post kn vn hR)

theorem callEvent_duplicate_at {pos : Yaml.Pos} (hp : Path (parse cfg) (parseWorkflowCallEvent cfg pos) ctx)
    (hR : Repeated cfg true pre kn) : DupInDoc cfg ctx true (sectionWhat "workflow_call") tag l c pre post kn vn :=
  hp.dup (Sect.dup_ins (plain (callEventKey cfg) {}) _ (fun r => Event.call r.inputs r.secrets r.outputs pos) cfg _ true true tag l c
    (fun _ => parseWorkflowCallEvent_eq_run cfg pos _) pre post kn vn hR)

/-- the attributes of one input / secret / output of `workflow_call`, of one input of `workflow_dispatch` -/
theorem callInput_duplicate_at {id : String} {key : Str} (hp : Path (parse cfg) (fun v => callInput cfg ⟨id, key, v⟩) ctx)
    (hR : Repeated cfg true pre kn) : DupInDoc cfg ctx true "input of workflow_call event" tag l c pre post kn vn :=
  hp.dup (Sect.dup_ins (callInputSect ⟨id, key, vn⟩) _ _root_.id cfg _ true true tag l c (fun _ => rfl) pre post kn vn hR)

theorem callSecret_duplicate_at {id : String} {key : Str} (hp : Path (parse cfg) (fun v => callSecret cfg ⟨id, key, v⟩) ctx)
    (hR : Repeated cfg true pre kn) : DupInDoc cfg ctx true "secret of workflow_call event" tag l c pre post kn vn :=
  hp.dup (Sect.dup_ins (plain callSecretAttr { name := key }) _ _root_.id cfg _ true true tag l c
    (fun ps => by rw [callSecret_eq_run]; rfl) pre post kn vn hR)

theorem callOutput_duplicate_at {id : String} {key : Str} (hp : Path (parse cfg) (fun v => callOutput cfg ⟨id, key, v⟩) ctx)
    (hR : Repeated cfg true pre kn) : DupInDoc cfg ctx true "output of workflow_call event" tag l c pre post kn vn :=
  hp.dup (Sect.dup_ins (callOutputSect ⟨id, key, vn⟩) _ _root_.id cfg _ true true tag l c (fun _ => rfl) pre post kn vn hR)

theorem dispatchInput_duplicate_at {id : String} {key : Str} (hp : Path (parse cfg) (fun v => dispatchInput cfg ⟨id, key, v⟩) ctx)
    (hR : Repeated cfg true pre kn) : DupInDoc cfg ctx true "input settings of workflow_dispatch event" tag l c pre post kn vn :=
  hp.dup (Sect.dup_ins (plain dispatchAttr {}) _
    (fun r => (⟨key, r.desc, r.req, r.dflt, r.ty, r.opts⟩ : DispatchInput)) cfg _ true true tag l c
    (fun ps => by rw [dispatchInput_eq_run]) pre post kn vn hR)

end

/-- an item of `schedule:` with `cron:` twice: the repetition is reported, the item stays (one key is left) -/
theorem scheduleItem_duplicate (cfg : Cfg) (tag : String) (l c : Nat) (pre post : List (Node × Node)) (kn vn : Node)
    (h : Repeated cfg true pre kn) :
    ∃ pos, firstPos cfg true (keyId cfg true kn) pre = some pos ∧
      Ins (scheduleItem cfg) tag l c pre post kn vn (dupAt kn "element of \"schedule\" section" pos true) := by
  obtain ⟨pos, hpos, h1, h2⟩ := mapping_duplicate cfg tag l c pre post kn vn "element of \"schedule\" section" false true h
  refine ⟨pos, hpos, ?_⟩
  have epos : ∀ ps, errAt (mapNode tag l c ps) "schedule-element" [] = ⟨⟨l, c⟩, "schedule-element", []⟩ := fun _ => rfl
  simp only [Ins, scheduleItem, epos, h1]
  generalize (parseMapping cfg "element of \"schedule\" section" (mapNode tag l c (pre ++ post)) false true).1 = kvs
  have hperm : ∀ X : List PErr,
      ((parseMapping cfg "element of \"schedule\" section" (mapNode tag l c (pre ++ (kn, vn) :: post)) false true).2 ++ X).Perm
        (dupAt kn "element of \"schedule\" section" pos true ::
          ((parseMapping cfg "element of \"schedule\" section" (mapNode tag l c (pre ++ post)) false true).2 ++ X)) := by
    intro X
    have := h2.append_right X
    simpa using this
  cases kvs with
  | nil => exact ⟨rfl, hperm _⟩
  | cons kv rest =>
    cases rest with
    | nil =>
      by_cases hk : kv.id = "cron"
      · simp only [hk, ne_eq, not_true_eq_false, ↓reduceIte]; exact ⟨trivial, hperm _⟩
      · simp only [hk, ne_eq, not_false_eq_true, ↓reduceIte]; exact ⟨trivial, hperm _⟩
    | cons _ _ => exact ⟨rfl, hperm _⟩

theorem scheduleItem_duplicate_at (cfg : Cfg) {ctx : Node → Node} (hp : Path (parse cfg) (scheduleItem cfg) ctx)
    (tag : String) (l c : Nat) (pre post : List (Node × Node)) (kn vn : Node) (hR : Repeated cfg true pre kn) :
    DupInDoc cfg ctx true "element of \"schedule\" section" tag l c pre post kn vn :=
  hp.dup (scheduleItem_duplicate cfg tag l c pre post kn vn hR)

/-! #### examples for 1''' (the paths are composed on the spot) -/

/-- the job's key `k` in the example document -/
theorem exPathJobKey {β : Type} {Q : Node → R β} (k : String)
    (h : Path (parseJob exCfg (parseString exJobs.key false).1) Q (exJobKey k).at) :
    Path (parse exCfg) Q (fun v => docNode (exRoot.at (exJobs.at ((exJobKey k).at v)))) :=
  path_job_key exCfg exRoot exJobs (exJobKey k) (by keyed) (by decide) h

/-- the event `ev` of `on:` in the example document -/
theorem exPathEvent {β : Type} {Q : Node → R β} (ev : String)
    (h : Path (parseEvents exCfg (parseString exOnRoot.key false).1.pos) Q (exOnly ev 2 3).at) :
    Path (parse exCfg) Q (fun v => docNode (exOnRoot.at ((exOnly ev 2 3).at v))) :=
  path_event exCfg exOnRoot (exOnly ev 2 3) (by keyed) h

/-- `container: {image: a, image: b}` -/
example : DupInDoc exCfg (fun v => docNode (exRoot.at (exJobs.at ((exJobKey "container").at v)))) true (sectionWhat "container")
    "!!map" 9 7 [(sc "image" 9 7, sc "a" 9 14)] [] (sc "image" 10 7) (sc "b" 10 14) :=
  container_duplicate_at exCfg "!!map" 9 7 _ [] _ _ (exPathJobKey "container" (e_job_container exCfg _ _ (by keyed))) (by repeated)

/-- `container: {image: a, credentials: {username: u, username: v}}` -/
example : DupInDoc exCfg (fun v => docNode (exRoot.at (exJobs.at ((exJobKey "container").at
      ((⟨"!!map", 9, 7, [(sc "image" 9 7, sc "a" 9 14)], sc "credentials" 10 7, []⟩ : MapCtx).at v)))))
    true (sectionWhat "credentials") "!!map" 11 9 [(sc "username" 11 9, sc "u" 11 19)] [] (sc "username" 12 9) (sc "v" 12 19) :=
  credentials_duplicate_at exCfg "!!map" 11 9 _ [] _ _
    ((exPathJobKey "container" (e_job_container exCfg _ _ (by keyed))).trans (e_container_credentials exCfg _ _ _ (by keyed)))
    (by repeated)

/-- `strategy: {fail-fast: true, fail-fast: false}` -/
example : DupInDoc exCfg (fun v => docNode (exRoot.at (exJobs.at ((exJobKey "strategy").at v)))) true (sectionWhat "strategy")
    "!!map" 9 7 [(sc "fail-fast" 9 7, sc "true" 9 18)] [] (sc "fail-fast" 10 7) (sc "false" 10 18) :=
  strategy_duplicate_at exCfg "!!map" 9 7 _ [] _ _ (exPathJobKey "strategy" (e_job_strategy exCfg _ _ (by keyed))) (by repeated)

/-- `concurrency: {group: a, group: b}` at the top level -/
example : DupInDoc exCfg (fun v => docNode ((exRootKey "concurrency").at v)) true (sectionWhat "concurrency")
    "!!map" 10 3 [(sc "group" 10 3, sc "a" 10 10)] [] (sc "group" 11 3) (sc "b" 11 10) :=
  concurrency_duplicate_at exCfg "!!map" 10 3 _ [] _ _
    (path_wf exCfg (exRootKey "concurrency") (e_wf_concurrency exCfg _ (by keyed))) (by repeated)

/-- `environment: {name: a, name: b}` -/
example : DupInDoc exCfg (fun v => docNode (exRoot.at (exJobs.at ((exJobKey "environment").at v)))) true (sectionWhat "environment")
    "!!map" 9 7 [(sc "name" 9 7, sc "a" 9 13)] [] (sc "name" 10 7) (sc "b" 10 13) :=
  environment_duplicate_at exCfg "!!map" 9 7 _ [] _ _ (exPathJobKey "environment" (e_job_environment exCfg _ _ (by keyed))) (by repeated)

/-- `defaults: {run: {shell: bash}, run: {shell: sh}}` and `defaults: {run: {shell: bash, shell: sh}}` -/
example : DupInDoc exCfg (fun v => docNode (exRoot.at (exJobs.at ((exJobKey "defaults").at v)))) true (sectionWhat "defaults")
    "!!map" 9 7 [(sc "run" 9 7, mapNode "!!map" 10 9 [(sc "shell" 10 9, sc "bash" 10 16)])] []
      (sc "run" 11 7) (mapNode "!!map" 12 9 [(sc "shell" 12 9, sc "sh" 12 16)]) :=
  defaults_duplicate_at exCfg "!!map" 9 7 _ [] _ _ (exPathJobKey "defaults" (e_job_defaults exCfg _ _ (by keyed))) (by repeated)

example : DupInDoc exCfg (fun v => docNode (exRoot.at (exJobs.at ((exJobKey "defaults").at ((exOnly "run" 9 7).at v)))))
    true (sectionWhat "run") "!!map" 10 9 [(sc "shell" 10 9, sc "bash" 10 16)] [] (sc "shell" 11 9) (sc "sh" 11 16) :=
  defaultsRun_duplicate_at exCfg "!!map" 10 9 _ [] _ _
    ((exPathJobKey "defaults" (e_job_defaults exCfg _ _ (by keyed))).trans (e_defaults_run exCfg _ (exOnly "run" 9 7) (by keyed)))
    (by repeated)

/-- `runs-on: {group: a, group: b}` (here as one more key of the example job, which makes it a repeated `runs-on` — reported
too, elsewhere; the statement is about the inner mapping) -/
example : DupInDoc exCfg (fun v => docNode (exRoot.at (exJobs.at
      ((⟨"!!map", 4, 5, [], sc "runs-on" 4 5, [(sc "steps" 6 5, seqNode "!!seq" 7 7 [exStep0])]⟩ : MapCtx).at v))))
    true (sectionWhat "runs-on") "!!map" 5 7 [(sc "group" 5 7, sc "a" 5 14)] [] (sc "group" 6 7) (sc "b" 6 14) :=
  runsOn_duplicate_at exCfg 5 7 _ [] _ _
    (path_job_key exCfg exRoot exJobs _ (by keyed) (by decide) (e_job_runsOn exCfg _ _ (by keyed))) (by repeated)

/-- `on: {push: {}, push: {}}` -/
example : DupInDoc exCfg (fun v => docNode (exOnRoot.at v)) true (sectionWhat "on")
    "!!map" 2 3 [(sc "push" 2 3, mapNode "!!map" 2 9 [])] [] (sc "push" 3 3) (mapNode "!!map" 3 9 []) :=
  events_duplicate_at exCfg "!!map" 2 3 _ [] _ _ (path_wf exCfg exOnRoot (e_wf_on exCfg _ (by keyed))) (by repeated)

/-- `on: {push: {branches: [a], branches: [b]}}` -/
example : DupInDoc exCfg (fun v => docNode (exOnRoot.at ((exOnly "push" 2 3).at v))) true (sectionWhat "push")
    "!!map" 3 5 [(sc "branches" 3 5, seqNode "!!seq" 3 15 [sc "a" 3 16])] [] (sc "branches" 4 5) (seqNode "!!seq" 4 15 [sc "b" 4 16]) :=
  webhook_duplicate_at (name := (parseString (exOnly "push" 2 3).key false).1) exCfg "!!map" 3 5 _ [] _ _
    (exPathEvent "push" (e_on_webhook exCfg _ _ "push" (by keyed) (by decide))) (by repeated)

/-- `on: {workflow_dispatch: {inputs: {}, inputs: {}}}`, and the same for `repository_dispatch` / `workflow_call` -/
example : DupInDoc exCfg (fun v => docNode (exOnRoot.at ((exOnly "workflow_dispatch" 2 3).at v))) true (sectionWhat "workflow_dispatch")
    "!!map" 3 5 [(sc "inputs" 3 5, mapNode "!!map" 3 13 [])] [] (sc "inputs" 4 5) (mapNode "!!map" 4 13 []) :=
  dispatch_duplicate_at exCfg "!!map" 3 5 _ [] _ _ (exPathEvent "workflow_dispatch" (e_on_dispatch exCfg _ _ (by keyed))) (by repeated)

example : DupInDoc exCfg (fun v => docNode (exOnRoot.at ((exOnly "repository_dispatch" 2 3).at v))) true (sectionWhat "repository_dispatch")
    "!!map" 3 5 [(sc "types" 3 5, sc "a" 3 12)] [] (sc "types" 4 5) (sc "b" 4 12) :=
  repoDispatch_duplicate_at exCfg "!!map" 3 5 _ [] _ _ (exPathEvent "repository_dispatch" (e_on_repoDispatch exCfg _ _ (by keyed)))
    (by repeated)

example : DupInDoc exCfg (fun v => docNode (exOnRoot.at ((exOnly "workflow_call" 2 3).at v))) true (sectionWhat "workflow_call")
    "!!map" 3 5 [(sc "inputs" 3 5, mapNode "!!map" 3 13 [])] [] (sc "inputs" 4 5) (mapNode "!!map" 4 13 []) :=
  callEvent_duplicate_at exCfg "!!map" 3 5 _ [] _ _ (exPathEvent "workflow_call" (e_on_call exCfg _ _ (by keyed))) (by repeated)

/-- `on: {workflow_call: {inputs: {name: {type: string, type: number}}}}`, and the same for a secret, an output -/
example : DupInDoc exCfg (fun v => docNode (exOnRoot.at ((exOnly "workflow_call" 2 3).at ((exOnly "inputs" 3 5).at ((exOnly "name" 4 7).at v)))))
    true "input of workflow_call event" "!!map" 5 9 [(sc "type" 5 9, sc "string" 5 15)] [] (sc "type" 6 9) (sc "number" 6 15) :=
  callInput_duplicate_at exCfg "!!map" 5 9 _ [] _ _
    (((exPathEvent "workflow_call" (e_on_call exCfg _ _ (by keyed))).trans (e_call_inputs exCfg _ (exOnly "inputs" 3 5) (by keyed))).trans
      (e_callInputs_input exCfg (exOnly "name" 4 7) (by decide))) (by repeated)

example : DupInDoc exCfg (fun v => docNode (exOnRoot.at ((exOnly "workflow_call" 2 3).at ((exOnly "secrets" 3 5).at ((exOnly "tok" 4 7).at v)))))
    true "secret of workflow_call event" "!!map" 5 9 [(sc "required" 5 9, sc "true" 5 19)] [] (sc "required" 6 9) (sc "false" 6 19) :=
  callSecret_duplicate_at exCfg "!!map" 5 9 _ [] _ _
    (((exPathEvent "workflow_call" (e_on_call exCfg _ _ (by keyed))).trans (e_call_secrets exCfg _ (exOnly "secrets" 3 5) (by keyed))).trans
      (e_callSecrets_secret exCfg (exOnly "tok" 4 7) (by decide))) (by repeated)

example : DupInDoc exCfg (fun v => docNode (exOnRoot.at ((exOnly "workflow_call" 2 3).at ((exOnly "outputs" 3 5).at ((exOnly "out" 4 7).at v)))))
    true "output of workflow_call event" "!!map" 5 9 [(sc "value" 5 9, sc "x" 5 16)] [] (sc "value" 6 9) (sc "y" 6 16) :=
  callOutput_duplicate_at exCfg "!!map" 5 9 _ [] _ _
    (((exPathEvent "workflow_call" (e_on_call exCfg _ _ (by keyed))).trans (e_call_outputs exCfg _ (exOnly "outputs" 3 5) (by keyed))).trans
      (e_callOutputs_output exCfg (exOnly "out" 4 7) (by decide))) (by repeated)

/-- `on: {workflow_dispatch: {inputs: {name: {default: a, default: b}}}}` -/
example : DupInDoc exCfg (fun v => docNode (exOnRoot.at ((exOnly "workflow_dispatch" 2 3).at ((exOnly "inputs" 3 5).at ((exOnly "name" 4 7).at v)))))
    true "input settings of workflow_dispatch event" "!!map" 5 9 [(sc "default" 5 9, sc "a" 5 18)] [] (sc "default" 6 9) (sc "b" 6 18) :=
  dispatchInput_duplicate_at exCfg "!!map" 5 9 _ [] _ _
    (((exPathEvent "workflow_dispatch" (e_on_dispatch exCfg _ _ (by keyed))).trans (e_dispatch_inputs exCfg _ (exOnly "inputs" 3 5) (by keyed))).trans
      (e_dispatchInputs_input exCfg (exOnly "name" 4 7) (by decide))) (by repeated)

/-- `on: {schedule: [{cron: "0 0 * * *", cron: "1 1 * * *"}]}`: reported at the second `cron`, the first one stays -/
example : DupInDoc exCfg (fun v => docNode (exOnRoot.at ((exOnly "schedule" 2 3).at ((⟨"!!seq", 3, 5, [], []⟩ : SeqCtx).at v))))
    true "element of \"schedule\" section" "!!map" 3 7 [(sc "cron" 3 7, sc "0 0 * * *" 3 13)] [] (sc "cron" 4 7) (sc "1 1 * * *" 4 13) :=
  scheduleItem_duplicate_at exCfg
    ((exPathEvent "schedule" (e_on_schedule exCfg _ _ (by keyed))).trans (e_schedule_item exCfg _ ⟨"!!seq", 3, 5, [], []⟩))
    "!!map" 3 7 _ [] _ _ (by repeated)

/-! ### 2'. a step with `with:` but no `uses:`, with `shell:` but no `run:` -/

theorem withKey_uses (kvs : List KV) : ∀ e : ExecAction, (loop withKey e kvs).1.uses = e.uses := by
  induction kvs with
  | nil => intro e; rfl
  | cons kv rest ih =>
    intro e
    rw [loop_cons, ih]
    simp only [withKey]
    split <;> rfl

/-- every entry that `parseMapping` hands out for `pre ++ (key, v) :: post` carries the id of one of these keys -/
theorem ids_of_ctx (cfg : Cfg) (what : String) (m : MapCtx) (v : Node) (ae cs : Bool) (P : String → Prop)
    (hpre : ∀ q ∈ m.pre, P (keyId cfg cs q.1)) (hkey : P (keyId cfg cs m.key)) (hpost : ∀ q ∈ m.post, P (keyId cfg cs q.1)) :
    ∀ kv ∈ (parseMapping cfg what (m.at v) ae cs).1, P kv.id := by
  apply ids_of_pairs
  intro q hq
  rcases List.mem_append.1 hq with h | h
  · exact hpre q h
  · rcases List.mem_cons.1 h with rfl | h
    · exact hkey
    · exact hpost q h

/-- a step that has `with:` (before any `run:` / `shell:`) and no `uses:` — reported at the step -/
theorem step_missing_uses (cfg : Cfg) (m : MapCtx) (v : Node) (hk : m.Keyed cfg "with")
    (hpre : ∀ q ∈ m.pre, keyId cfg true q.1 ≠ "uses" ∧ keyId cfg true q.1 ≠ "run" ∧ keyId cfg true q.1 ≠ "shell")
    (hpost : ∀ q ∈ m.post, keyId cfg true q.1 ≠ "uses") :
    (⟨⟨m.l, m.c⟩, "step-uses-required", []⟩ : PErr) ∈ (parseStep cfg (m.at v)).2 := by
  obtain ⟨k1, k2, es, e1, _, hid1⟩ :=
    mappingLoop_value' cfg "element of \"steps\" section" true m.key v v m.post m.pre [] rfl hk.first'
  have hall : ∀ kv ∈ (parseMapping cfg "element of \"steps\" section" (m.at v) false true).1, kv.id ≠ "uses" :=
    ids_of_ctx cfg _ m v false true (· ≠ "uses") (fun q hq => (hpre q hq).1) (by rw [hk.id]; decide) hpost
  have hkvs : (parseMapping cfg "element of \"steps\" section" (m.at v) false true).1 =
      k1 ++ ⟨keyId cfg true m.key, (parseString m.key false).1, v⟩ :: k2 := by
    rw [MapCtx.at, parseMapping_mapNode, e1]
  -- before `with:` nothing has set `exec`
  have h1 : (loop (stepKey cfg) { step := { pos := (m.at v).pos } } k1).1.step.exec = .none := by
    apply loop_inv (stepKey cfg) (fun st => st.step.exec = .none)
    · intro s kv hm hs
      obtain ⟨q, hq, hid⟩ := hid1 kv hm
      have a1 : kv.id ≠ "uses" := by rw [hid]; exact (hpre q hq).1
      have a2 : kv.id ≠ "run" := by rw [hid]; exact (hpre q hq).2.1
      have a3 : kv.id ≠ "shell" := by rw [hid]; exact (hpre q hq).2.2
      have a4 : kv.id ≠ "with" := by rw [hid]; exact hk.first q hq
      simp only [stepKey]
      split <;> (try split) <;> simp_all
    · rfl
  -- after `with:` the step runs an action without `uses`, and no later key changes that
  have h2 : ∃ e, (loop (stepKey cfg) { step := { pos := (m.at v).pos } }
      (k1 ++ ⟨keyId cfg true m.key, (parseString m.key false).1, v⟩ :: k2)).1.step.exec = .action e ∧ e.uses = none := by
    rw [loop_append, loop_cons]
    apply loop_inv (stepKey cfg) (fun st => ∃ e, st.step.exec = .action e ∧ e.uses = none)
    · intro s kv hm ⟨e, he, hu⟩
      have a1 : kv.id ≠ "uses" := hall kv (by rw [hkvs]; simp [hm])
      simp only [stepKey]
      split
      all_goals first
        | exact ⟨e, he, hu⟩
        | (rename_i heq; exact absurd heq a1)
        | (simp only [he]; first
            | exact ⟨e, he, hu⟩
            | exact ⟨e, rfl, hu⟩
            | exact ⟨_, rfl, by rw [withKey_uses]; exact hu⟩)
    · rw [hk.id]
      simp only [stepKey, h1]
      exact ⟨_, rfl, by rw [withKey_uses]⟩
  obtain ⟨e, he, hu⟩ := h2
  simp only [parseStep, hkvs, stepFinish, he, hu, Option.isNone_none, ↓reduceIte]
  simp [errAt, MapCtx.at, mapNode, Node.pos, Node.line, Node.col]

/-- … at the level of the whole file -/
theorem step_missing_uses_in_document (cfg : Cfg) (mW mJ mK mP : MapCtx) (sS : SeqCtx) (v : Node)
    (hW : mW.Keyed cfg "jobs") (hJ : mJ.Free cfg) (hK : mK.Keyed cfg "steps") (hP : mP.Keyed cfg "with")
    (hpre : ∀ q ∈ mP.pre, keyId cfg true q.1 ≠ "uses" ∧ keyId cfg true q.1 ≠ "run" ∧ keyId cfg true q.1 ≠ "shell")
    (hpost : ∀ q ∈ mP.post, keyId cfg true q.1 ≠ "uses") :
    (⟨⟨mP.l, mP.c⟩, "step-uses-required", []⟩ : PErr) ∈ (parse cfg (docNode (mW.at (mJ.at (mK.at (sS.at (mP.at v))))))).2 :=
  (path_step cfg mW mJ mK sS hW hJ hK).reported (step_missing_uses cfg mP v hP hpre hpost)

/-- `- name: x` / `  with: {a: b}` -/
example : (⟨⟨6, 9⟩, "step-uses-required", []⟩ : PErr) ∈ (parse exCfg (docNode (exRoot.at (exJobs.at (exJobSteps.at (exSeq.at
    ((⟨"!!map", 6, 9, [(sc "name" 6 9, sc "x" 6 15)], sc "with" 7 9, []⟩ : MapCtx).at
      (mapNode "!!map" 8 11 [(sc "a" 8 11, sc "b" 8 14)])))))))).2 :=
  step_missing_uses_in_document exCfg exRoot exJobs exJobSteps _ exSeq _ (by keyed) (by decide) (by keyed) (by keyed)
    (by decide) (by decide)

/-- a step that has `shell:` (before any `uses:` / `with:`) and no `run:` — reported at the step -/
theorem step_missing_run (cfg : Cfg) (m : MapCtx) (v : Node) (hk : m.Keyed cfg "shell")
    (hpre : ∀ q ∈ m.pre, keyId cfg true q.1 ≠ "run" ∧ keyId cfg true q.1 ≠ "uses" ∧ keyId cfg true q.1 ≠ "with")
    (hpost : ∀ q ∈ m.post, keyId cfg true q.1 ≠ "run") :
    (⟨⟨m.l, m.c⟩, "step-run-required", []⟩ : PErr) ∈ (parseStep cfg (m.at v)).2 := by
  obtain ⟨k1, k2, es, e1, _, hid1⟩ :=
    mappingLoop_value' cfg "element of \"steps\" section" true m.key v v m.post m.pre [] rfl hk.first'
  have hall : ∀ kv ∈ (parseMapping cfg "element of \"steps\" section" (m.at v) false true).1, kv.id ≠ "run" :=
    ids_of_ctx cfg _ m v false true (· ≠ "run") (fun q hq => (hpre q hq).1) (by rw [hk.id]; decide) hpost
  have hkvs : (parseMapping cfg "element of \"steps\" section" (m.at v) false true).1 =
      k1 ++ ⟨keyId cfg true m.key, (parseString m.key false).1, v⟩ :: k2 := by
    rw [MapCtx.at, parseMapping_mapNode, e1]
  have h1 : (loop (stepKey cfg) { step := { pos := (m.at v).pos } } k1).1.step.exec = .none := by
    apply loop_inv (stepKey cfg) (fun st => st.step.exec = .none)
    · intro s kv hm hs
      obtain ⟨q, hq, hid⟩ := hid1 kv hm
      have a1 : kv.id ≠ "run" := by rw [hid]; exact (hpre q hq).1
      have a2 : kv.id ≠ "uses" := by rw [hid]; exact (hpre q hq).2.1
      have a3 : kv.id ≠ "with" := by rw [hid]; exact (hpre q hq).2.2
      have a4 : kv.id ≠ "shell" := by rw [hid]; exact hk.first q hq
      simp only [stepKey]
      split <;> (try split) <;> simp_all
    · rfl
  have h2 : ∃ e, (loop (stepKey cfg) { step := { pos := (m.at v).pos } }
      (k1 ++ ⟨keyId cfg true m.key, (parseString m.key false).1, v⟩ :: k2)).1.step.exec = .run e ∧ e.run = none := by
    rw [loop_append, loop_cons]
    apply loop_inv (stepKey cfg) (fun st => ∃ e, st.step.exec = .run e ∧ e.run = none)
    · intro s kv hm ⟨e, he, hu⟩
      have a1 : kv.id ≠ "run" := hall kv (by rw [hkvs]; simp [hm])
      simp only [stepKey]
      split
      all_goals first
        | exact ⟨e, he, hu⟩
        | (rename_i heq; exact absurd heq a1)
        | (simp only [he]; first
            | exact ⟨e, he, hu⟩
            | exact ⟨e, rfl, hu⟩
            | exact ⟨_, rfl, hu⟩)
    · rw [hk.id]
      simp only [stepKey, h1]
      exact ⟨_, rfl, rfl⟩
  obtain ⟨e, he, hu⟩ := h2
  simp only [parseStep, hkvs, stepFinish, he, hu, Option.isNone_none, ↓reduceIte]
  simp [errAt, MapCtx.at, mapNode, Node.pos, Node.line, Node.col]

theorem step_missing_run_in_document (cfg : Cfg) (mW mJ mK mP : MapCtx) (sS : SeqCtx) (v : Node)
    (hW : mW.Keyed cfg "jobs") (hJ : mJ.Free cfg) (hK : mK.Keyed cfg "steps") (hP : mP.Keyed cfg "shell")
    (hpre : ∀ q ∈ mP.pre, keyId cfg true q.1 ≠ "run" ∧ keyId cfg true q.1 ≠ "uses" ∧ keyId cfg true q.1 ≠ "with")
    (hpost : ∀ q ∈ mP.post, keyId cfg true q.1 ≠ "run") :
    (⟨⟨mP.l, mP.c⟩, "step-run-required", []⟩ : PErr) ∈ (parse cfg (docNode (mW.at (mJ.at (mK.at (sS.at (mP.at v))))))).2 :=
  (path_step cfg mW mJ mK sS hW hJ hK).reported (step_missing_run cfg mP v hP hpre hpost)

/-- `- name: x` / `  shell: bash` / `  working-directory: d` -/
example : (⟨⟨6, 9⟩, "step-run-required", []⟩ : PErr) ∈ (parse exCfg (docNode (exRoot.at (exJobs.at (exJobSteps.at (exSeq.at
    ((⟨"!!map", 6, 9, [(sc "name" 6 9, sc "x" 6 15)], sc "shell" 7 9, [(sc "working-directory" 8 9, sc "d" 8 28)]⟩ : MapCtx).at
      (sc "bash" 7 16)))))))).2 :=
  step_missing_run_in_document exCfg exRoot exJobs exJobSteps _ exSeq _ (by keyed) (by decide) (by keyed) (by keyed)
    (by decide) (by decide)

/-! ### 3'. an unknown scope of `permissions:` — reported by the rule `permissions`, on the AST of the whole file

The parser takes every scope name (`permissions:` is a mapping of free names); the unknown scope is reported by
`rule_permissions.go` on the AST. The lift is therefore about what the AST of the whole file CONTAINS: the value of the first
`permissions:` key of the workflow (of a job) is in the AST whatever else the document contains. -/

/-- an entry of the result of `mappingLoop` was not seen before -/
theorem mappingLoop_unseen (cfg : Cfg) (what : String) (cs : Bool) (l : List (Node × Node)) :
    ∀ (seen : List (String × Yaml.Pos)) (kv : KV), kv ∈ (mappingLoop cfg what cs l seen).1 → lookupSeen kv.id seen = none := by
  induction l with
  | nil => intro seen kv h; cases h
  | cons q rest ih =>
    intro seen kv h
    obtain ⟨kn, vn⟩ := q
    rw [mappingLoop_cons] at h
    cases hl : lookupSeen (keyId cfg cs kn) seen with
    | some pos => rw [hl] at h; exact ih seen kv h
    | none =>
      rw [hl] at h
      rcases List.mem_cons.1 h with rfl | h
      · exact hl
      · have := ih _ kv h
        rw [lookupSeen_snoc] at this
        cases h' : lookupSeen kv.id seen with
        | none => rfl
        | some p => rw [h'] at this; cases this

/-- `mappingLoop_value'`, and no later entry has the id of the distinguished key -/
theorem mappingLoop_value'' (cfg : Cfg) (what : String) (cs : Bool) (kn vn : Node) (post : List (Node × Node)) :
    ∀ (pre : List (Node × Node)) (seen : List (String × Yaml.Pos)),
      lookupSeen (keyId cfg cs kn) seen = none → (∀ q ∈ pre, keyId cfg cs q.1 ≠ keyId cfg cs kn) →
      ∃ kvs₁ kvs₂ es, mappingLoop cfg what cs (pre ++ (kn, vn) :: post) seen =
          (kvs₁ ++ ⟨keyId cfg cs kn, (parseString kn false).1, vn⟩ :: kvs₂, es) ∧
        ∀ kv ∈ kvs₂, kv.id ≠ keyId cfg cs kn := by
  intro pre
  induction pre with
  | nil =>
    intro seen hs _
    simp only [List.nil_append, mappingLoop_cons, hs]
    refine ⟨[], _, _, rfl, ?_⟩
    intro kv hkv hid
    have := mappingLoop_unseen cfg what cs post _ kv hkv
    rw [lookupSeen_snoc, hid, hs] at this
    simp at this
  | cons q rest ih =>
    intro seen hs hne
    obtain ⟨kn', vn''⟩ := q
    have hk : keyId cfg cs kn' ≠ keyId cfg cs kn := hne (kn', vn'') (by simp)
    have hne' : ∀ q ∈ rest, keyId cfg cs q.1 ≠ keyId cfg cs kn := fun q hq => hne q (by simp [hq])
    simp only [List.cons_append, mappingLoop_cons]
    cases lookupSeen (keyId cfg cs kn') seen with
    | some pos =>
      obtain ⟨k1, k2, es, e1, hid⟩ := ih seen hs hne'
      exact ⟨k1, k2, _, by rw [e1], hid⟩
    | none =>
      have hs' : lookupSeen (keyId cfg cs kn) (seen ++ [(keyId cfg cs kn', (parseString kn' false).1.pos)]) = none := by
        rw [lookupSeen_snoc_ne _ _ hk]; exact hs
      obtain ⟨k1, k2, es, e1, hid⟩ := ih _ hs' hne'
      exact ⟨⟨keyId cfg cs kn', (parseString kn' false).1, vn''⟩ :: k1, k2, _, by rw [e1]; rfl, hid⟩

/-- **what the section's result contains**: a field that the loop body sets at one key (the first with its id) and that no
other key touches has, after the loop, the value set at that key -/
theorem Sect.loop_get {σ ρ α : Type} (S : Sect σ ρ) (cfg : Cfg) (what : String) (ae cs : Bool) (m : MapCtx) (v : Node)
    (F : σ → α) (a : α)
    (hfirst : ∀ q ∈ m.pre, keyId cfg cs q.1 ≠ keyId cfg cs m.key)
    (hset : ∀ s, F (S.step s ⟨keyId cfg cs m.key, (parseString m.key false).1, v⟩).1 = a)
    (hkeep : ∀ s kv, kv.id ≠ keyId cfg cs m.key → F s = a → F (S.step s kv).1 = a) :
    F (loop S.step S.init (parseMapping cfg what (m.at v) ae cs).1).1 = a := by
  obtain ⟨k1, k2, es, e1, hid⟩ := mappingLoop_value'' cfg what cs m.key v m.post m.pre [] rfl hfirst
  rw [MapCtx.at, parseMapping_mapNode, e1, loop_append, loop_cons]
  exact loop_inv S.step (fun s => F s = a) k2 (fun s kv hm hs => hkeep s kv (hid kv hm) hs) _ (hset _)

theorem mapKVs_mem {β : Type} (f : KV → R β) (kv : KV) : ∀ kvs : List KV, kv ∈ kvs → (kv.id, (f kv).1) ∈ (mapKVs f kvs).1 := by
  intro kvs
  induction kvs with
  | nil => intro h; cases h
  | cons x rest ih =>
    intro h
    simp only [mapKVs]
    rcases List.mem_cons.1 h with rfl | h
    · simp
    · exact List.mem_cons_of_mem _ (ih h)

/-- the AST of the whole file has the workflow's `permissions:` as parsed from the value of the first such key -/
theorem workflow_permissions_in_ast (cfg : Cfg) (mW : MapCtx) (v : Node) (hW : mW.Keyed cfg "permissions") :
    (parse cfg (docNode (mW.at v))).1.permissions = some (parsePermissions cfg (parseString mW.key false).1.pos v).1 := by
  rw [parse_docNode]
  simp only [wfRun, Sect.run, workflowSect]
  apply Sect.loop_get (workflowSect cfg (docNode (mapNode "" 0 0 []))) cfg "workflow" false true mW v (·.permissions) _ hW.first'
  · intro s; rw [hW.id]; simp only [workflowSect, workflowKey]
  · intro s kv hne hs
    rw [hW.id] at hne
    simp only [workflowSect, workflowKey]
    split <;> simp_all

/-- the scopes of a `permissions:` mapping: the scope under the first key with its (folded) name is in the AST -/
theorem permissions_scope_in_ast (cfg : Cfg) (pos : Yaml.Pos) (m : MapCtx) (v : Node) (hk : m.Free cfg) :
    ∃ scopes, (parsePermissions cfg pos (m.at v)).1 = ⟨none, some scopes, pos⟩ ∧
      (keyId cfg false m.key, (⟨(parseString m.key false).1, (parseString v false).1⟩ : PermissionScope)) ∈ scopes := by
  refine ⟨(mapKVs (fun kv => let x := parseString kv.val false; ((⟨kv.key, x.1⟩ : PermissionScope), x.2))
    (parseSectionMapping cfg "permissions" (m.at v) true false).1).1, by simp [parsePermissions, MapCtx.at], ?_⟩
  obtain ⟨k1, k2, es, e1, _⟩ := mappingLoop_value'' cfg (sectionWhat "permissions") false m.key v m.post m.pre [] rfl hk
  have := mapKVs_mem (fun kv => let x := parseString kv.val false; ((⟨kv.key, x.1⟩ : PermissionScope), x.2))
    ⟨keyId cfg false m.key, (parseString m.key false).1, v⟩
    (parseSectionMapping cfg "permissions" (m.at v) true false).1
    (by simp [parseSectionMapping, MapCtx.at, parseMapping_mapNode, e1])
  exact this

/-- **an unknown scope in the workflow's `permissions:`, whole file**: the rule `permissions` reports it at the scope's key,
whatever else the document contains (`mW`: the root with `permissions:`, `mP`: the `permissions:` mapping with the scope) -/
theorem workflow_permissions_unknown_scope_in_document (cfg : Cfg) (mW mP : MapCtx) (v : Node)
    (hW : mW.Keyed cfg "permissions") (hP : mP.Free cfg) (hgood : GoodKey mP.key)
    (hun : mP.key.value ∉ AL.Rules.allPermissionScopes) :
    (⟨mP.key.pos, "permissions", "permission-scope", [mP.key.value]⟩ : AL.Rules.Diag) ∈
      AL.Rules.rulePermissions (parse cfg (docNode (mW.at (mP.at v)))).1 := by
  obtain ⟨scopes, hs, hmem⟩ := permissions_scope_in_ast cfg (parseString mW.key false).1.pos mP v hP
  simp only [AL.Rules.rulePermissions, workflow_permissions_in_ast cfg mW _ hW, hs, AL.Rules.checkPermissions, List.mem_append]
  left
  simp only [Option.getD_some, List.mem_flatMap]
  refine ⟨_, hmem, ?_⟩
  simp [parseString_good mP.key hgood, hun]

/-- `permissions: {contents: read, bogus: write}` at the top level: `bogus` (11:3) is reported by the rule -/
example : (⟨⟨11, 3⟩, "permissions", "permission-scope", ["bogus"]⟩ : AL.Rules.Diag) ∈
    AL.Rules.rulePermissions (parse exCfg (docNode ((exRootKey "permissions").at
      ((⟨"!!map", 10, 3, [(sc "contents" 10 3, sc "read" 10 13)], sc "bogus" 11 3, []⟩ : MapCtx).at (sc "write" 11 10))))).1 :=
  workflow_permissions_unknown_scope_in_document exCfg (exRootKey "permissions") _ _ (by keyed) (by decide)
    (goodKey_of_scalar _ rfl (by decide)) (by decide)

/-- the AST of the whole file has, under `jobs:`, the job as parsed from the value of the first key with that id -/
theorem job_in_ast (cfg : Cfg) (mW mJ : MapCtx) (job : Node) (hW : mW.Keyed cfg "jobs") (hJ : mJ.Free cfg) :
    ∃ js, (parse cfg (docNode (mW.at (mJ.at job)))).1.jobs = some js ∧
      (keyId cfg false mJ.key, (parseJob cfg (parseString mJ.key false).1 job).1) ∈ js := by
  have h1 : (parse cfg (docNode (mW.at (mJ.at job)))).1.jobs = some (parseJobs cfg (mJ.at job)).1 := by
    rw [parse_docNode]
    simp only [wfRun, Sect.run, workflowSect]
    apply Sect.loop_get (workflowSect cfg (docNode (mapNode "" 0 0 []))) cfg "workflow" false true mW _ (·.jobs) _ hW.first'
    · intro s; rw [hW.id]; simp only [workflowSect, workflowKey]
    · intro s kv hne hs
      rw [hW.id] at hne
      simp only [workflowSect, workflowKey]
      split <;> simp_all
  refine ⟨_, h1, ?_⟩
  obtain ⟨k1, k2, es, e1, _⟩ := mappingLoop_value'' cfg (sectionWhat "jobs") false mJ.key job mJ.post mJ.pre [] rfl hJ
  exact mapKVs_mem (fun kv => parseJob cfg kv.key kv.val) ⟨keyId cfg false mJ.key, (parseString mJ.key false).1, job⟩
    (parseSectionMapping cfg "jobs" (mJ.at job) false false).1
    (by simp [parseSectionMapping, MapCtx.at, parseMapping_mapNode, e1])

theorem jobFinish_permissions (id : Str) (st : JobSt) : (jobFinish id st).1.permissions = st.job.permissions := by
  simp only [jobFinish]
  split
  · split <;> rfl
  · rfl

/-- … and that job has its `permissions:` as parsed from the value of the first such key -/
theorem job_permissions_in_ast (cfg : Cfg) (jid : Str) (mK : MapCtx) (v : Node) (hK : mK.Keyed cfg "permissions") :
    (parseJob cfg jid (mK.at v)).1.permissions = some (parsePermissions cfg (parseString mK.key false).1.pos v).1 := by
  simp only [parseJob, jobFinish_permissions]
  apply Sect.loop_get (jobSect cfg jid) cfg (jobWhat jid.value) false true mK v (·.job.permissions) _ hK.first'
  · intro s; rw [hK.id]; simp only [jobSect, jobKey]
  · intro s kv hne hs
    rw [hK.id] at hne
    simp only [jobSect, jobKey]
    split <;> (try split) <;> (try split) <;> simp_all

/-- **an unknown scope in a job's `permissions:`, whole file** -/
theorem job_permissions_unknown_scope_in_document (cfg : Cfg) (mW mJ mK mP : MapCtx) (v : Node)
    (hW : mW.Keyed cfg "jobs") (hJ : mJ.Free cfg) (hK : mK.Keyed cfg "permissions") (hP : mP.Free cfg) (hgood : GoodKey mP.key)
    (hun : mP.key.value ∉ AL.Rules.allPermissionScopes) :
    (⟨mP.key.pos, "permissions", "permission-scope", [mP.key.value]⟩ : AL.Rules.Diag) ∈
      AL.Rules.rulePermissions (parse cfg (docNode (mW.at (mJ.at (mK.at (mP.at v)))))).1 := by
  obtain ⟨js, hjs, hj⟩ := job_in_ast cfg mW mJ (mK.at (mP.at v)) hW hJ
  obtain ⟨scopes, hs, hmem⟩ := permissions_scope_in_ast cfg (parseString mK.key false).1.pos mP v hP
  simp only [AL.Rules.rulePermissions, List.mem_append]
  right
  simp only [AL.Rules.jobsOf, hjs, Option.getD_some, List.mem_flatMap, List.mem_map]
  refine ⟨_, ⟨_, hj, rfl⟩, ?_⟩
  simp only [job_permissions_in_ast cfg _ mK _ hK, hs, AL.Rules.checkPermissions, Option.getD_some, List.mem_flatMap]
  refine ⟨_, hmem, ?_⟩
  simp [parseString_good mP.key hgood, hun]

/-- `permissions: {contents: read, bogus: write}` in the job `build` -/
example : (⟨⟨10, 7⟩, "permissions", "permission-scope", ["bogus"]⟩ : AL.Rules.Diag) ∈
    AL.Rules.rulePermissions (parse exCfg (docNode (exRoot.at (exJobs.at ((exJobKey "permissions").at
      ((⟨"!!map", 9, 7, [(sc "contents" 9 7, sc "read" 9 17)], sc "bogus" 10 7, []⟩ : MapCtx).at (sc "write" 10 14))))))).1 :=
  job_permissions_unknown_scope_in_document exCfg exRoot exJobs (exJobKey "permissions") _ _ (by keyed) (by decide) (by keyed)
    (by decide) (goodKey_of_scalar _ rfl (by decide)) (by decide)

/-! #### two more examples -/

/-- `services: {db: {image: postgres, bogus: x}}` through `container_unknown_at` -/
example : AddsExactly exCfg
    (docNode (exRoot.at (exJobs.at ((exJobKey "services").at ((exOnly "db" 9 7).at
      (mapNode "!!map" 10 9 ([(sc "image" 10 9, sc "postgres" 10 16)] ++ [])))))))
    (docNode (exRoot.at (exJobs.at ((exJobKey "services").at ((exOnly "db" 9 7).at
      (mapNode "!!map" 10 9 ([(sc "image" 10 9, sc "postgres" 10 16)] ++ (sc "bogus" 11 9, sc "x" 11 16) :: [])))))))
    (unexpectedAt (sc "bogus" 11 9) "services" containerKeys) :=
  container_unknown_at exCfg "!!map" 10 9 _ [] _ _
    ((exPathJobKey "services" (e_job_services exCfg _ _ (by keyed))).trans (e_services_service exCfg (exOnly "db" 9 7) (by decide)))
    ⟨goodKey_of_scalar _ rfl (by decide), by decide, by decide, by decide⟩

/-- `on: {schedule: [{cron: "0 0 * * *", bogus: x}]}` through `schedule_item_in_document`: two keys are left -/
example : (⟨⟨3, 7⟩, "schedule-element", []⟩ : PErr) ∈ (parse exCfg (docNode (exOnRoot.at ((exOnly "schedule" 2 3).at
    ((⟨"!!seq", 3, 5, [], []⟩ : SeqCtx).at
      (mapNode "!!map" 3 7 [(sc "cron" 3 7, sc "0 0 * * *" 3 13), (sc "bogus" 4 7, sc "x" 4 14)])))))).2 :=
  schedule_item_in_document exCfg exOnRoot (exOnly "schedule" 2 3) _ (by keyed) (by keyed) _ (by
    intro kv h
    have h2 : (parseMapping exCfg "element of \"schedule\" section"
        (mapNode "!!map" 3 7 [(sc "cron" 3 7, sc "0 0 * * *" 3 13), (sc "bogus" 4 7, sc "x" 4 14)]) false true).1.length = 2 := by
      decide +kernel
    rw [h] at h2
    simp at h2)

end AL.C13D3
