import AL.Model.RuleExpr
/-
  C03 on the model of rule_expression.go (AL.RuleExpr, tied by `exprwf`) over the AST of the parser model:

    every string of the AST that comes from a mapping value or a sequence element — `valueStrs`, an enumeration of the
    AST's fields written independently of the rule — is run through `checkExprsIn`: if its text is a malformed
    placeholder, the rule reports a diagnostic located at that string. No placeholder is silently skipped.

  Exempt (the property's own list + what other rules own): event names, `permissions` values (rule_permissions), a step
  `id:` (checked by this rule only when it contains a complete placeholder; rule_id reports the others), and the values
  the parser does not keep as strings (input `type`, `secrets: inherit`).
-/
namespace AL.C03R
open AL AL.Ast AL.Sema AL.RuleExpr

/-- a text every check of which yields a diagnostic: in a template position (`checkExprsIn`) and as a bare `if:` condition -/
structure Malformed (v : String) : Prop where
  tmpl : ∀ cx key u, (checkExprsIn cx key u v).2 ≠ []
  cond : ∀ cx key, (checkOne cx key false (bytesOf v ++ [125, 125])).2 ≠ []

def Reported (ds : List Diag) (s : Str) : Prop := ∃ d ∈ ds, d.site = s.pos

theorem at_nonempty (s : Str) (es : List SemaErr) (h : es ≠ []) : Reported (at_ s es) s := by
  cases es with
  | nil => exact absurd rfl h
  | cons e rest => exact ⟨⟨s.pos, e.code, e.args⟩, by simp [at_], rfl⟩

theorem Reported.mono {ds ds' : List Diag} {s : Str} (h : Reported ds s) (hs : ∀ d ∈ ds, d ∈ ds') : Reported ds' s := by
  obtain ⟨d, hm, e⟩ := h
  exact ⟨d, hs d hm, e⟩

theorem Reported.left {a b : List Diag} {s : Str} (h : Reported a s) : Reported (a ++ b) s :=
  h.mono fun d hd => List.mem_append_left _ hd
theorem Reported.right {a b : List Diag} {s : Str} (h : Reported b s) : Reported (a ++ b) s :=
  h.mono fun d hd => List.mem_append_right _ hd

theorem checkStrU_bad (cx : Cx) (u : Bool) (s : Str) (key : String) (h : Malformed s.value) :
    Reported (checkStrU cx u (some s) key).2 s := by
  simp only [checkStrU]
  have := h.tmpl cx key u
  split
  · rename_i es heq
    rw [heq] at this
    exact at_nonempty s es this
  · rename_i ts es heq
    rw [heq] at this
    exact at_nonempty s _ (by simp; intro h; exact absurd h this)

theorem checkString_bad (cx : Cx) (s : Str) (key : String) (h : Malformed s.value) : Reported (checkString cx (some s) key) s :=
  checkStrU_bad cx false s key h
theorem checkScriptString_bad (cx : Cx) (s : Str) (key : String) (h : Malformed s.value) :
    Reported (checkScriptString cx (some s) key) s := checkStrU_bad cx true s key h

theorem checkStrings_bad (cx : Cx) (ss : List Str) (key : String) (s : Str) (hm : s ∈ ss) (h : Malformed s.value) :
    Reported (checkStrings cx (some ss) key) s := by
  obtain ⟨d, hd, e⟩ := checkString_bad cx s key h
  exact ⟨d, by simp only [checkStrings, Option.getD_some, List.mem_flatMap]; exact ⟨s, hm, hd⟩, e⟩

theorem checkOneExpression_bad (cx : Cx) (s : Str) (what key : String) (h : Malformed s.value) :
    Reported (checkOneExpression cx (some s) what key).2 s := by
  simp only [checkOneExpression]
  have := h.tmpl cx key false
  generalize checkExprsIn cx key false s.value = r at this ⊢
  obtain ⟨ts, es⟩ := r
  simp only at this
  rcases ts with _ | (_ | ⟨t, _ | ⟨t2, rest⟩⟩)
  · exact at_nonempty s es this
  · exact at_nonempty s _ (by simp)
  · exact at_nonempty s es this
  · exact at_nonempty s _ (by simp)

theorem mustBe_bad (p : Ty → Bool) (code what : String) (s : Str) (r : Option Ty × List Diag) (h : Reported r.2 s) :
    Reported (mustBe p code what (some s) r).2 s := by
  simp only [mustBe]
  split
  · split
    · exact h
    · exact h.left
  · exact h

/-! ### the strings of the AST that come from mapping values / sequence elements -/

def boolStrs (b : Option BoolV) : List Str := match b with | some b => b.expr.toList | none => []
def intStrs (i : Option IntV) : List Str := match i with | some i => i.expr.toList | none => []
def floatStrs (f : Option FloatV) : List Str := match f with | some f => f.expr.toList | none => []

/-- `env:` is a mapping of values or one expression -/
def envStrs (e : Option Ast.Env) : List Str :=
  match e with
  | none => []
  | some e => match e.vars with
    | some vars => vars.map (·.2.value)
    | none => e.expr.toList

def containerStrs (c : Option Container) : List Str :=
  match c with
  | none => []
  | some c =>
    c.image.toList ++ (match c.credentials with | some cr => cr.username.toList ++ cr.password.toList | none => []) ++
    envStrs c.env ++ c.ports.getD [] ++ c.volumes.getD [] ++ c.options.toList

def concurrencyStrs (c : Option Concurrency) : List Str :=
  match c with | none => [] | some c => c.group.toList ++ boolStrs c.cancelInProgress

def defaultsStrs (d : Option Defaults) : List Str :=
  match d with
  | none => []
  | some d => match d.run with | none => [] | some r => r.shell.toList ++ r.workingDirectory.toList

theorem mem_toList {α} {o : Option α} {a : α} (h : a ∈ o.toList) : o = some a := by
  cases o <;> simp_all

theorem checkBool_bad (cx : Cx) (b : Option BoolV) (key : String) (s : Str) (hm : s ∈ boolStrs b) (h : Malformed s.value) :
    Reported (checkBool cx b key) s := by
  cases b with
  | none => simp [boolStrs] at hm
  | some b =>
    have he := mem_toList (by simpa [boolStrs] using hm)
    simp only [checkBool, he]
    have := checkOneExpression_bad cx s "bool value" key h
    split <;> first | exact this | exact this.left

theorem checkNumberExpression_bad (cx : Cx) (s : Str) (what key : String) (h : Malformed s.value) :
    Reported (checkNumberExpression cx (some s) what key).2 s :=
  mustBe_bad _ _ _ s _ (checkOneExpression_bad cx s what key h)
theorem checkObjectExpression_bad (cx : Cx) (s : Str) (what key : String) (h : Malformed s.value) :
    Reported (checkObjectExpression cx (some s) what key).2 s :=
  mustBe_bad _ _ _ s _ (checkOneExpression_bad cx s what key h)
theorem checkArrayExpression_bad (cx : Cx) (s : Str) (what key : String) (h : Malformed s.value) :
    Reported (checkArrayExpression cx (some s) what key).2 s :=
  mustBe_bad _ _ _ s _ (checkOneExpression_bad cx s what key h)

theorem checkInt_bad (cx : Cx) (i : Option IntV) (key : String) (s : Str) (hm : s ∈ intStrs i) (h : Malformed s.value) :
    Reported (checkInt cx i key) s := by
  cases i with
  | none => simp [intStrs] at hm
  | some i =>
    have he := mem_toList (by simpa [intStrs] using hm)
    simp only [checkInt, he]
    exact checkNumberExpression_bad cx s _ key h

theorem checkFloat_bad (cx : Cx) (f : Option FloatV) (key : String) (s : Str) (hm : s ∈ floatStrs f) (h : Malformed s.value) :
    Reported (checkFloat cx f key) s := by
  cases f with
  | none => simp [floatStrs] at hm
  | some f =>
    have he := mem_toList (by simpa [floatStrs] using hm)
    simp only [checkFloat, he]
    exact checkNumberExpression_bad cx s _ key h

theorem checkString_opt_bad (cx : Cx) (o : Option Str) (key : String) (s : Str) (hm : s ∈ o.toList) (h : Malformed s.value) :
    Reported (checkString cx o key) s := by
  rw [mem_toList hm]; exact checkString_bad cx s key h

theorem checkStrings_opt_bad (cx : Cx) (o : Option (List Str)) (key : String) (s : Str) (hm : s ∈ o.getD []) (h : Malformed s.value) :
    Reported (checkStrings cx o key) s := by
  cases o with
  | none => simp at hm
  | some ss => exact checkStrings_bad cx ss key s (by simpa using hm) h

theorem flatMap_reported {α} (l : List α) (f : α → List Diag) (a : α) (ha : a ∈ l) (s : Str) (h : Reported (f a) s) :
    Reported (l.flatMap f) s := by
  obtain ⟨d, hd, e⟩ := h
  exact ⟨d, List.mem_flatMap.2 ⟨a, ha, hd⟩, e⟩

theorem checkEnv_bad (cx : Cx) (e : Option Ast.Env) (key : String) (s : Str) (hm : s ∈ envStrs e) (h : Malformed s.value) :
    Reported (RuleExpr.checkEnv cx e key) s := by
  cases e with
  | none => simp [envStrs] at hm
  | some e =>
    simp only [envStrs] at hm
    simp only [RuleExpr.checkEnv]
    cases hv : e.vars with
    | some vars =>
      simp only [hv, List.mem_map] at hm
      obtain ⟨kv, hk, rfl⟩ := hm
      exact flatMap_reported vars _ kv hk _ (checkString_bad cx kv.2.value key h).right
    | none =>
      simp only [hv] at hm
      rw [mem_toList hm]
      exact checkObjectExpression_bad cx s "env" key h

theorem checkContainer_bad (cx : Cx) (c : Option Container) (key pre : String) (s : Str) (hm : s ∈ containerStrs c)
    (h : Malformed s.value) : Reported (checkContainer cx c key pre) s := by
  cases c with
  | none => simp [containerStrs] at hm
  | some c =>
    simp only [containerStrs, List.mem_append] at hm
    simp only [checkContainer]
    rcases hm with ((((hm | hm) | hm) | hm) | hm) | hm
    · exact (checkString_opt_bad cx _ _ s hm h).left.left.left.left.left
    · refine Reported.left (Reported.left (Reported.left (Reported.left (Reported.right ?_))))
      cases hc : c.credentials with
      | none => simp [hc] at hm
      | some cr =>
        simp only [hc, List.mem_append] at hm
        rcases hm with hm | hm
        · exact (checkString_opt_bad cx _ _ s hm h).left
        · exact (checkString_opt_bad cx _ _ s hm h).right
    · exact Reported.left (Reported.left (Reported.left (Reported.right (checkEnv_bad cx _ _ s hm h))))
    · exact Reported.left (Reported.left (Reported.right (checkStrings_opt_bad cx _ _ s hm h)))
    · exact Reported.left (Reported.right (checkStrings_opt_bad cx _ _ s hm h))
    · exact Reported.right (checkString_opt_bad cx _ _ s hm h)

theorem checkConcurrency_bad (cx : Cx) (c : Option Concurrency) (key : String) (s : Str) (hm : s ∈ concurrencyStrs c)
    (h : Malformed s.value) : Reported (checkConcurrency cx c key) s := by
  cases c with
  | none => simp [concurrencyStrs] at hm
  | some c =>
    simp only [concurrencyStrs, List.mem_append] at hm
    simp only [checkConcurrency]
    rcases hm with hm | hm
    · exact (checkString_opt_bad cx _ _ s hm h).left
    · exact (checkBool_bad cx _ _ s hm h).right

theorem checkDefaults_bad (cx : Cx) (d : Option Defaults) (key : String) (s : Str) (hm : s ∈ defaultsStrs d)
    (h : Malformed s.value) : Reported (checkDefaults cx d key) s := by
  cases d with
  | none => simp [defaultsStrs] at hm
  | some d =>
    simp only [defaultsStrs] at hm
    simp only [checkDefaults]
    cases hr : d.run with
    | none => simp [hr] at hm
    | some r =>
      simp only [hr, List.mem_append] at hm
      rcases hm with hm | hm
      · exact (checkString_opt_bad cx _ _ s hm h).left
      · exact (checkString_opt_bad cx _ _ s hm h).right

theorem ite_some_nil {α β : Type} (c : Prop) [Decidable c] (a : α) (b : List β) (p : α)
    (h : (if c then (some a, ([] : List β)) else (none, b)).1 = some p) :
    (if c then (some a, ([] : List β)) else (none, b)).2 = [] := by
  split <;> simp_all

theorem checkParsed_some_nil (cx : Cx) (key : String) (u : Bool) (pe : AL.Parse.Expr) (off : Nat) (p : Ty × Nat)
    (h : (checkParsed cx key u pe off).1 = some p) : (checkParsed cx key u pe off).2 = [] := by
  unfold checkParsed at h ⊢
  exact ite_some_nil _ _ _ _ h

theorem checkOne_some_nil (cx : Cx) (key : String) (u : Bool) (rest : List Nat) (p : Ty × Nat)
    (h : (checkOne cx key u rest).1 = some p) : (checkOne cx key u rest).2 = [] := by
  unfold checkOne at h ⊢
  split
  · rename_i h1 h2
    simp only [h1, h2] at h
    exact checkParsed_some_nil _ _ _ _ _ p h
  · rename_i hno
    split at h
    · rename_i h1 h2
      exact absurd h2 (hno _ _ _ h1)
    · cases h

theorem checkIfCondition_bad (cx : Cx) (o : Option Str) (key : String) (s : Str) (hm : s ∈ o.toList) (h : Malformed s.value) :
    Reported (checkIfCondition cx o key) s := by
  rw [mem_toList hm]
  simp only [checkIfCondition]
  split
  · have := checkStrU_bad cx false s key h
    split
    · split
      · exact this.left
      · exact this
    · exact this
  · have hc := h.cond cx key
    have hs := checkOne_some_nil cx key false (bytesOf s.value ++ [125, 125])
    cases hr : checkOne cx key false (bytesOf s.value ++ [125, 125]) with
    | mk t es =>
      rw [hr] at hc hs
      cases t with
      | none => exact at_nonempty s es hc
      | some p => exact absurd (hs p rfl) hc

/-! ### matrix -/

mutual
def rawStrs : AL.Matrix.Raw → List Str
  | .str v p => [⟨v, false, p⟩]
  | .arr es _ => rawStrsL es
  | .obj ps _ => rawStrsP ps
def rawStrsL : List AL.Matrix.Raw → List Str
  | [] => []
  | e :: es => rawStrs e ++ rawStrsL es
def rawStrsP : List (String × AL.Matrix.Raw) → List Str
  | [] => []
  | (_, v) :: ps => rawStrs v ++ rawStrsP ps
end

theorem rawStringTy_bad (cx : Cx) (isNum : IsNumber) (v : String) (p : RuleExpr.Pos) (h : Malformed v) :
    Reported (rawStringTy cx isNum v p).2 ⟨v, false, p⟩ := by
  have hne := h.tmpl cx "jobs.<job_id>.strategy" false
  have : Reported (at_ ⟨v, false, p⟩ (checkExprsIn cx "jobs.<job_id>.strategy" false v).2) ⟨v, false, p⟩ :=
    at_nonempty _ _ hne
  simp only [rawStringTy]
  split
  · split <;> exact this
  · split
    · exact this
    · split
      · exact this
      · split <;> exact this

mutual
theorem rawTy_bad (cx : Cx) (isNum : IsNumber) (s : Str) (h : Malformed s.value) :
    ∀ (v : AL.Matrix.Raw), s ∈ rawStrs v → Reported (rawTy cx isNum v).2 s
  | .str v p, hm => by
    simp only [rawStrs, List.mem_singleton] at hm
    subst hm
    simp only [rawTy]
    exact rawStringTy_bad cx isNum v p h
  | .arr es _, hm => by
    rw [rawStrs] at hm
    cases es with
    | nil => simp [rawStrsL] at hm
    | cons e rest =>
      simp only [rawStrsL, List.mem_append] at hm
      simp only [rawTy]
      rcases hm with hm | hm
      · exact (rawTy_bad cx isNum s h e hm).left
      · exact (rawFold_bad cx isNum s h _ rest hm).right
  | .obj ps _, hm => by
    rw [rawStrs] at hm
    simp only [rawTy]
    exact rawProps_bad cx isNum s h ps hm
theorem rawFold_bad (cx : Cx) (isNum : IsNumber) (s : Str) (h : Malformed s.value) :
    ∀ (acc : Ty) (vs : List AL.Matrix.Raw), s ∈ rawStrsL vs → Reported (rawFold cx isNum acc vs).2 s
  | _, [], hm => by simp [rawStrsL] at hm
  | acc, v :: vs, hm => by
    simp only [rawStrsL, List.mem_append] at hm
    rw [rawFold]
    rcases hm with hm | hm
    · exact (rawTy_bad cx isNum s h v hm).left
    · exact (rawFold_bad cx isNum s h _ vs hm).right
theorem rawProps_bad (cx : Cx) (isNum : IsNumber) (s : Str) (h : Malformed s.value) :
    ∀ (ps : List (String × AL.Matrix.Raw)), s ∈ rawStrsP ps → Reported (RuleExpr.rawProps cx isNum ps).2 s
  | [], hm => by simp [rawStrsP] at hm
  | (k, v) :: ps, hm => by
    simp only [rawStrsP, List.mem_append] at hm
    rw [RuleExpr.rawProps]
    rcases hm with hm | hm
    · exact (rawTy_bad cx isNum s h v hm).left
    · exact (rawProps_bad cx isNum s h ps hm).right
end

theorem foldl_keep {α σ : Type} (step : σ × List Diag → α → σ × List Diag)
    (hkeep : ∀ acc x d, d ∈ acc.2 → d ∈ (step acc x).2) (l : List α) :
    ∀ acc d, d ∈ acc.2 → d ∈ (l.foldl step acc).2 := by
  induction l with
  | nil => intro acc d h; exact h
  | cons x rest ih => intro acc d h; exact ih _ d (hkeep acc x d h)

theorem foldl_reported {α σ : Type} (step : σ × List Diag → α → σ × List Diag) (s : Str)
    (hkeep : ∀ acc x d, d ∈ acc.2 → d ∈ (step acc x).2) (l : List α) (a : α) (ha : a ∈ l)
    (hrep : ∀ acc, Reported (step acc a).2 s) : ∀ acc, Reported (l.foldl step acc).2 s := by
  induction l with
  | nil => cases ha
  | cons x rest ih =>
    intro acc
    rcases List.mem_cons.1 ha with rfl | ha
    · obtain ⟨d, hd, e⟩ := hrep acc
      exact ⟨d, foldl_keep step hkeep rest _ d hd, e⟩
    · exact ih ha _

def rowStrs (r : MatrixRow) : List Str :=
  match r.expr with
  | some e => [e]
  | none => rawStrsL (r.values.getD [])

def comboStrs (x : MatrixCombination) : List Str :=
  match x.expr with
  | some e => [e]
  | none => (x.assigns.getD []).flatMap fun kv => rawStrs kv.2.value

def combosStrs (c : Option MatrixCombinations) : List Str :=
  match c with
  | none => []
  | some c => match c.expr with
    | some e => [e]
    | none => (c.combinations.getD []).flatMap comboStrs

/-- a matrix is one expression or rows / include / exclude -/
def matrixStrs (m : Matrix) : List Str :=
  match m.expr with
  | some e => [e]
  | none => combosStrs m.excl ++ (m.rows.getD []).flatMap (fun kv => rowStrs kv.2) ++ combosStrs m.incl

theorem rowTy_bad (cx : Cx) (isNum : IsNumber) (r : MatrixRow) (s : Str) (hm : s ∈ rowStrs r) (h : Malformed s.value) :
    Reported (rowTy cx isNum r).2 s := by
  simp only [rowStrs] at hm
  simp only [rowTy]
  cases he : r.expr with
  | some e =>
    simp only [he, List.mem_singleton] at hm
    subst hm
    exact checkArrayExpression_bad cx s _ _ h
  | none =>
    simp only [he] at hm
    cases hv : r.values.getD [] with
    | nil => simp [hv, rawStrsL] at hm
    | cons v vs =>
      simp only [hv, rawStrsL, List.mem_append] at hm
      simp only
      rcases hm with hm | hm
      · exact (rawTy_bad cx isNum s h v hm).left
      · exact (rawFold_bad cx isNum s h _ vs hm).right

theorem excludeDiags_bad (cx : Cx) (isNum : IsNumber) (ex : Option MatrixCombinations) (s : Str) (hm : s ∈ combosStrs ex)
    (h : Malformed s.value) : Reported (excludeDiags cx isNum ex) s := by
  cases ex with
  | none => simp [combosStrs] at hm
  | some ex =>
    simp only [combosStrs] at hm
    simp only [excludeDiags]
    cases he : ex.expr with
    | some e =>
      simp only [he, List.mem_singleton] at hm
      subst hm
      have := checkArrayExpression_bad cx s "exclude" "jobs.<job_id>.strategy" h
      simp only
      split
      · split
        · exact this
        · exact this.left
      · exact this
    | none =>
      simp only [he, List.mem_flatMap] at hm
      obtain ⟨c, hc, hs⟩ := hm
      refine flatMap_reported _ _ c hc s ?_
      simp only [comboStrs] at hs
      cases hce : c.expr with
      | some e =>
        simp only [hce, List.mem_singleton] at hs
        subst hs
        exact checkObjectExpression_bad cx s _ _ h
      | none =>
        simp only [hce, List.mem_flatMap] at hs
        obtain ⟨kv, hk, hv⟩ := hs
        exact flatMap_reported _ _ kv hk s (rawTy_bad cx isNum s h _ hv)

theorem includeCombo_keep (cx : Cx) (isNum : IsNumber) (acc : Ty × List Diag) (c : MatrixCombination) (d : Diag)
    (hd : d ∈ acc.2) : d ∈ (includeCombo cx isNum acc c).2 := by
  simp only [includeCombo]
  split
  · split <;> simp [hd]
  · apply foldl_keep _ _ _ acc d hd
    intro a kv d hd
    split <;> simp [hd]

theorem includeCombo_bad (cx : Cx) (isNum : IsNumber) (acc : Ty × List Diag) (c : MatrixCombination) (s : Str)
    (hm : s ∈ comboStrs c) (h : Malformed s.value) : Reported (includeCombo cx isNum acc c).2 s := by
  simp only [comboStrs] at hm
  simp only [includeCombo]
  cases he : c.expr with
  | some e =>
    simp only [he, List.mem_singleton] at hm
    subst hm
    have := checkOneExpression_bad cx s "matrix combination at element of include section" "jobs.<job_id>.strategy" h
    simp only
    split <;> exact this.right
  | none =>
    simp only [he, List.mem_flatMap] at hm
    obtain ⟨kv, hk, hv⟩ := hm
    simp only
    refine foldl_reported _ s ?_ _ kv hk ?_ acc
    · intro a x d hd; split <;> simp [hd]
    · intro a
      have := rawTy_bad cx isNum s h _ hv
      split <;> exact this.right

theorem checkMatrix_bad (cx : Cx) (isNum : IsNumber) (m : Matrix) (s : Str) (hm : s ∈ matrixStrs m) (h : Malformed s.value) :
    Reported (checkMatrix cx isNum m).2 s := by
  simp only [matrixStrs] at hm
  simp only [checkMatrix]
  cases he : m.expr with
  | some e =>
    simp only [he, List.mem_singleton] at hm
    subst hm
    have := checkObjectExpression_bad cx s "matrix" "jobs.<job_id>.strategy" h
    simp only [matrixExprTy]
    split <;> exact this
  | none =>
    simp only [he, List.mem_append] at hm
    simp only
    have hrows : s ∈ (m.rows.getD []).flatMap (fun kv => rowStrs kv.2) →
        Reported ((m.rows.getD []).foldl (fun (acc : List (String × Ty) × List Diag) kv =>
          (Ty.setProp kv.1 (rowTy cx isNum kv.2).1 acc.1, acc.2 ++ (rowTy cx isNum kv.2).2)) ([], [])).2 s := by
      intro hr
      obtain ⟨kv, hk, hv⟩ := List.mem_flatMap.1 hr
      refine foldl_reported _ s ?_ _ kv hk ?_ _
      · intro a x d hd; simp [hd]
      · intro a; exact (rowTy_bad cx isNum kv.2 s hv h).right
    cases hi : m.incl with
    | none =>
      simp only [hi, combosStrs, List.mem_nil_iff, or_false] at hm
      simp only [hi]
      rcases hm with hm | hm
      · exact (excludeDiags_bad cx isNum _ s hm h).left
      · exact (hrows hm).right
    | some inc =>
      simp only [hi] at hm ⊢
      cases hie : inc.expr with
      | some e =>
        simp only [hie]
        rcases hm with (hm | hm) | hm
        · exact Reported.left (Reported.left (excludeDiags_bad cx isNum _ s hm h))
        · exact Reported.left (Reported.right (hrows hm))
        · simp only [combosStrs, hie, List.mem_singleton] at hm
          subst hm
          exact Reported.right (checkOneExpression_bad cx s "include" "jobs.<job_id>.strategy" h)
      | none =>
        simp only [hie]
        rcases hm with (hm | hm) | hm
        · exact Reported.left (Reported.left (excludeDiags_bad cx isNum _ s hm h))
        · exact Reported.left (Reported.right (hrows hm))
        · simp only [combosStrs, hie, List.mem_flatMap] at hm
          obtain ⟨c, hc, hs⟩ := hm
          refine Reported.right ?_
          exact foldl_reported _ s (fun a x d hd => includeCombo_keep cx isNum a x d hd) _ c hc
            (fun a => includeCombo_bad cx isNum a c s hs h) _

/-! ### steps and jobs -/

def execStrs : Exec → List Str
  | .run r => r.run.toList ++ r.shell.toList ++ r.workingDirectory.toList
  | .action a => a.uses.toList ++ (a.inputs.getD []).map (·.2.value) ++ a.entrypoint.toList ++ a.args.toList
  | .none => []

/-- the value strings of a step (`id:` is the subject of rule_id unless it contains a complete placeholder) -/
def stepStrs (st : Step) : List Str :=
  st.name.toList ++ st.cond.toList ++ execStrs st.exec ++ envStrs st.env ++ boolStrs st.continueOnError ++ floatStrs st.timeoutMinutes

theorem ite_reported (c : Bool) (a b : List Diag) (s : Str) (ha : Reported a s) (hb : Reported b s) :
    Reported (if c = true then a else b) s := by
  cases c <;> simp [ha, hb]

theorem stepExec_bad (cx : Cx) (e : Exec) (s : Str) (hm : s ∈ execStrs e) (h : Malformed s.value) :
    Reported (stepExec cx e).1 s := by
  cases e with
  | none => simp [execStrs] at hm
  | run e =>
    simp only [execStrs, List.mem_append] at hm
    simp only [stepExec]
    rcases hm with (hm | hm) | hm
    · rw [mem_toList hm]; exact (checkScriptString_bad cx s _ h).left.left
    · exact (checkString_opt_bad cx _ _ s hm h).right.left
    · exact (checkString_opt_bad cx _ _ s hm h).right
  | action e =>
    simp only [execStrs, List.mem_append, List.mem_map] at hm
    simp only [stepExec]
    rcases hm with ((hm | ⟨kv, hk, rfl⟩) | hm) | hm
    · exact (checkString_opt_bad cx _ _ s hm h).left.left.left
    · refine Reported.left (Reported.left (Reported.right ?_))
      refine flatMap_reported _ _ kv hk _ ?_
      exact ite_reported _ _ _ _ (checkScriptString_bad cx _ _ h) (checkString_bad cx _ _ h)
    · exact (checkString_opt_bad cx _ _ s hm h).right.left
    · exact (checkString_opt_bad cx _ _ s hm h).right

theorem stepDiags_bad (cx : Cx) (n : Step) (s : Str) (hm : s ∈ stepStrs n) (h : Malformed s.value) :
    Reported (stepDiags cx n) s := by
  simp only [stepStrs, List.mem_append] at hm
  simp only [stepDiags]
  rcases hm with ((((hm | hm) | hm) | hm) | hm) | hm
  · exact (checkString_opt_bad cx _ _ s hm h).left.left.left.left.left
  · exact (checkIfCondition_bad cx _ _ s hm h).right.left.left.left.left
  · exact (stepExec_bad cx _ s hm h).right.left.left.left
  · exact (checkEnv_bad cx _ _ s hm h).right.left.left
  · exact (checkBool_bad cx _ _ s hm h).right.left
  · exact (checkFloat_bad cx _ _ s hm h).right

theorem visitStep_bad (cx : Cx) (n : Step) (s : Str) (hm : s ∈ stepStrs n) (h : Malformed s.value) :
    Reported (visitStep cx n).2 s := by
  simp only [visitStep]
  split
  · exact stepDiags_bad cx n s hm h
  · exact (stepDiags_bad cx n s hm h).left

theorem visitSteps_bad (s : Str) (h : Malformed s.value) : ∀ (steps : List Step) (cx : Cx),
    s ∈ steps.flatMap stepStrs → Reported (visitSteps cx steps).2 s
  | [], _, hm => by simp at hm
  | st :: rest, cx, hm => by
    simp only [List.flatMap_cons, List.mem_append] at hm
    simp only [visitSteps]
    rcases hm with hm | hm
    · exact (visitStep_bad cx st s hm h).left
    · exact (visitSteps_bad s h rest _ hm).right

def runnerStrs (r : Option Runner) : List Str :=
  match r with
  | none => []
  | some r => (match r.labelsExpr with | some e => [e] | none => r.labels.getD []) ++ r.group.toList

def strategyStrs (s : Option Strategy) : List Str :=
  match s with | none => [] | some s => boolStrs s.failFast ++ intStrs s.maxParallel

def matrixOfStrs (n : Job) : List Str :=
  match n.strategy with
  | some s => (match s.matrix with | some m => matrixStrs m | none => [])
  | none => []

def servicesStrs (s : Option Services) : List Str :=
  match s with
  | none => []
  | some s => s.expr.toList ++ (s.value.getD []).flatMap fun kv => containerStrs (some kv.2.container)

/-- a job that calls a reusable workflow (`uses:` present) -/
def callStrs (c : Option WorkflowCall) : List Str :=
  match c with
  | none => []
  | some c => match c.uses with
    | none => []
    | some u => [u] ++ (c.inputs.getD []).map (·.2.value) ++ (c.secrets.getD []).map (·.2.value)

def jobPreStrs (n : Job) : List Str :=
  n.name.toList ++ n.needs.getD [] ++ runnerStrs n.runsOn ++ concurrencyStrs n.concurrency ++ envStrs n.env ++
  defaultsStrs n.defaults ++ n.cond.toList ++ strategyStrs n.strategy ++ boolStrs n.continueOnError ++ floatStrs n.timeoutMinutes ++
  containerStrs n.container ++ servicesStrs n.services ++ callStrs n.workflowCall

def jobPostStrs (n : Job) : List Str :=
  (match n.environment with | some e => e.name.toList ++ e.url.toList | none => []) ++ (n.outputs.getD []).map (·.2.value)

/-- every value string of a job (`permissions` is the subject of rule_permissions) -/
def jobStrs (n : Job) : List Str :=
  matrixOfStrs n ++ jobPreStrs n ++ (n.steps.getD []).flatMap stepStrs ++ jobPostStrs n

theorem runsOnDiags_bad (cx : Cx) (r : Option Runner) (s : Str) (hm : s ∈ runnerStrs r) (h : Malformed s.value) :
    Reported (runsOnDiags cx r) s := by
  cases r with
  | none => simp [runnerStrs] at hm
  | some r =>
    simp only [runnerStrs, List.mem_append] at hm
    simp only [runsOnDiags]
    rcases hm with hm | hm
    · refine Reported.left ?_
      cases he : r.labelsExpr with
      | some e =>
        simp only [he, List.mem_singleton] at hm
        subst hm
        have := checkOneExpression_bad cx s "runner label at \"runs-on\" section" "jobs.<job_id>.runs-on" h
        simp only
        split <;> first | exact this | exact this.left
      | none =>
        simp only [he] at hm
        simp only
        cases hl : r.labels with
        | none => simp [hl] at hm
        | some ls => exact flatMap_reported _ _ s (by simpa [hl] using hm) s (checkString_bad cx s _ h)
    · exact (checkString_opt_bad cx _ _ s hm h).right

theorem strategyDiags_bad (cx : Cx) (st : Option Strategy) (s : Str) (hm : s ∈ strategyStrs st) (h : Malformed s.value) :
    Reported (strategyDiags cx st) s := by
  cases st with
  | none => simp [strategyStrs] at hm
  | some st =>
    simp only [strategyStrs, List.mem_append] at hm
    simp only [strategyDiags]
    rcases hm with hm | hm
    · exact (checkBool_bad cx _ _ s hm h).left
    · exact (checkInt_bad cx _ _ s hm h).right

theorem servicesDiags_bad (cx : Cx) (sv : Option Services) (s : Str) (hm : s ∈ servicesStrs sv) (h : Malformed s.value) :
    Reported (servicesDiags cx sv) s := by
  cases sv with
  | none => simp [servicesStrs] at hm
  | some sv =>
    simp only [servicesStrs, List.mem_append, List.mem_flatMap] at hm
    simp only [servicesDiags]
    rcases hm with hm | ⟨kv, hk, hv⟩
    · rw [mem_toList hm]; exact (checkObjectExpression_bad cx s _ _ h).left
    · exact Reported.right (flatMap_reported _ _ kv hk s (checkContainer_bad cx _ _ _ s hv h))

theorem checkWorkflowCall_bad (cx : Cx) (c : Option WorkflowCall) (s : Str) (hm : s ∈ callStrs c) (h : Malformed s.value) :
    Reported (RuleExpr.checkWorkflowCall cx c) s := by
  cases c with
  | none => simp [callStrs] at hm
  | some c =>
    simp only [callStrs] at hm
    simp only [RuleExpr.checkWorkflowCall]
    cases hu : c.uses with
    | none => simp [hu] at hm
    | some u =>
      simp only [hu, List.mem_append, List.mem_singleton, List.mem_map] at hm
      simp only
      rcases hm with (rfl | ⟨kv, hk, rfl⟩) | ⟨kv, hk, rfl⟩
      · exact (checkString_bad cx _ _ h).left.left
      · exact Reported.left (Reported.right (flatMap_reported _ _ kv hk _ (checkString_bad cx _ _ h).left))
      · exact Reported.right (flatMap_reported _ _ kv hk _ (checkString_bad cx _ _ h))

theorem jobPre_bad (cx : Cx) (n : Job) (s : Str) (hm : s ∈ jobPreStrs n) (h : Malformed s.value) :
    Reported (jobPre cx n) s := by
  simp only [jobPreStrs, List.mem_append] at hm
  simp only [jobPre]
  rcases hm with (((((((((((hm | hm) | hm) | hm) | hm) | hm) | hm) | hm) | hm) | hm) | hm) | hm) | hm
  · exact (checkString_opt_bad cx _ _ s hm h).left.left.left.left.left.left.left.left.left.left.left.left
  · exact (checkStrings_opt_bad cx _ _ s hm h).right.left.left.left.left.left.left.left.left.left.left.left
  · exact (runsOnDiags_bad cx _ s hm h).right.left.left.left.left.left.left.left.left.left.left
  · exact (checkConcurrency_bad cx _ _ s hm h).right.left.left.left.left.left.left.left.left.left
  · exact (checkEnv_bad cx _ _ s hm h).right.left.left.left.left.left.left.left.left
  · exact (checkDefaults_bad cx _ _ s hm h).right.left.left.left.left.left.left.left
  · exact (checkIfCondition_bad cx _ _ s hm h).right.left.left.left.left.left.left
  · exact (strategyDiags_bad cx _ s hm h).right.left.left.left.left.left
  · exact (checkBool_bad cx _ _ s hm h).right.left.left.left.left
  · exact (checkFloat_bad cx _ _ s hm h).right.left.left.left
  · exact (checkContainer_bad cx _ _ _ s hm h).right.left.left
  · exact (servicesDiags_bad cx _ s hm h).right.left
  · exact (checkWorkflowCall_bad cx _ s hm h).right

theorem jobPost_bad (cx : Cx) (n : Job) (s : Str) (hm : s ∈ jobPostStrs n) (h : Malformed s.value) :
    Reported (jobPost cx n) s := by
  simp only [jobPostStrs, List.mem_append, List.mem_map] at hm
  simp only [jobPost]
  rcases hm with hm | ⟨kv, hk, rfl⟩
  · refine Reported.left ?_
    cases he : n.environment with
    | none => simp [he] at hm
    | some e =>
      simp only [he, List.mem_append] at hm
      simp only
      rcases hm with hm | hm
      · exact (checkString_opt_bad cx _ _ s hm h).left
      · exact (checkString_opt_bad cx _ _ s hm h).right
  · exact Reported.right (flatMap_reported _ _ kv hk _ (checkString_bad cx _ _ h))

theorem jobMatrix_bad (cx : Cx) (isNum : IsNumber) (n : Job) (s : Str) (hm : s ∈ matrixOfStrs n) (h : Malformed s.value) :
    Reported (jobMatrix cx isNum n).2 s := by
  simp only [matrixOfStrs] at hm
  simp only [jobMatrix]
  cases hs : n.strategy with
  | none => simp [hs] at hm
  | some st =>
    simp only [hs] at hm
    simp only
    cases hmx : st.matrix with
    | none => simp [hmx] at hm
    | some m =>
      simp only [hmx] at hm
      exact checkMatrix_bad cx isNum m s hm h

/-- **every value string of a job is checked**, whatever the scope in effect, the other jobs and the job's position -/
theorem visitJob_bad (cx : Cx) (isNum : IsNumber) (jobs : List (String × Job)) (n : Job) (s : Str) (hm : s ∈ jobStrs n)
    (h : Malformed s.value) : Reported (visitJob cx isNum jobs n) s := by
  simp only [jobStrs, List.mem_append] at hm
  simp only [visitJob]
  rcases hm with ((hm | hm) | hm) | hm
  · exact (jobMatrix_bad _ isNum n s hm h).left.left.left
  · exact (jobPre_bad _ n s hm h).right.left.left
  · exact (visitSteps_bad s h _ _ hm).right.left
  · exact (jobPost_bad _ n s hm h).right

/-! ### events and the workflow -/

def filterStrs (f : Option Filter) : List Str := match f with | some f => f.values.getD [] | none => []

def callInputStrs (i : Ast.CallInput) : List Str := i.description.toList ++ boolStrs i.required ++ i.dflt.toList

/-- the value strings of one event (its name is exempt) -/
def eventStrs : Ast.Event → List Str
  | .webhook e =>
    e.types.getD [] ++ filterStrs e.branches ++ filterStrs e.branchesIgnore ++ filterStrs e.tags ++ filterStrs e.tagsIgnore ++
    filterStrs e.paths ++ filterStrs e.pathsIgnore ++ e.workflows.getD []
  | .schedule cron _ => cron
  | .dispatch inputs _ =>
    (inputs.getD []).flatMap fun kv => kv.2.description.toList ++ kv.2.dflt.toList ++ boolStrs kv.2.required ++ kv.2.options.getD []
  | .repoDispatch types _ => types.getD []
  | .call inputs secrets outputs _ =>
    (inputs.getD []).flatMap callInputStrs ++
    ((secrets.getD []).flatMap fun kv => kv.2.description.toList ++ boolStrs kv.2.required) ++
    ((outputs.getD []).flatMap fun kv => kv.2.description.toList)

theorem filter_bad (cx : Cx) (f : Option Filter) (s : Str) (hm : s ∈ filterStrs f) (h : Malformed s.value) :
    Reported (filterDiags cx f) s := by
  cases f with
  | none => simp [filterStrs] at hm
  | some f => exact checkStrings_opt_bad cx _ _ s (by simpa [filterStrs] using hm) h

theorem webhookDiags_bad (cx : Cx) (e : WebhookEvent) (s : Str) (hm : s ∈ eventStrs (.webhook e)) (h : Malformed s.value) :
    Reported (webhookDiags cx e) s := by
  simp only [eventStrs, List.mem_append] at hm
  simp only [webhookDiags]
  rcases hm with ((((((hm | hm) | hm) | hm) | hm) | hm) | hm) | hm
  · exact (checkStrings_opt_bad cx _ _ s hm h).left.left.left.left.left.left.left
  · exact (filter_bad cx _ s hm h).right.left.left.left.left.left.left
  · exact (filter_bad cx _ s hm h).right.left.left.left.left.left
  · exact (filter_bad cx _ s hm h).right.left.left.left.left
  · exact (filter_bad cx _ s hm h).right.left.left.left
  · exact (filter_bad cx _ s hm h).right.left.left
  · exact (filter_bad cx _ s hm h).right.left
  · exact (checkStrings_opt_bad cx _ _ s hm h).right

theorem callInputs_bad (cx : Cx) (s : Str) (h : Malformed s.value) : ∀ (ins : List Ast.CallInput) (acc : List (String × Ty)),
    s ∈ ins.flatMap callInputStrs → Reported (callInputs cx acc ins).2 s
  | [], _, hm => by simp at hm
  | i :: rest, acc, hm => by
    simp only [List.flatMap_cons, List.mem_append] at hm
    simp only [callInputs]
    rcases hm with hm | hm
    · simp only [callInputStrs, List.mem_append] at hm
      rcases hm with (hm | hm) | hm
      · exact (checkString_opt_bad _ _ _ s hm h).left.left.left.left
      · exact (checkBool_bad _ _ _ s hm h).right.left.left.left
      · rw [mem_toList hm]
        exact (checkStrU_bad _ false s _ h).right.left.left
    · exact (callInputs_bad cx s h rest _ hm).right

theorem visitEvent_bad (cx : Cx) (e : Ast.Event) (s : Str) (hm : s ∈ eventStrs e) (h : Malformed s.value) :
    Reported (visitEvent cx e).2 s := by
  cases e with
  | webhook e => exact webhookDiags_bad cx e s hm h
  | schedule cron pos =>
    simp only [eventStrs] at hm
    simp only [visitEvent]
    exact checkStrings_bad cx cron "" s hm h
  | dispatch inputs pos =>
    simp only [eventStrs, List.mem_flatMap, List.mem_append] at hm
    simp only [visitEvent]
    obtain ⟨kv, hk, hv⟩ := hm
    refine flatMap_reported _ _ kv hk s ?_
    simp only [dispatchInputDiags]
    rcases hv with ((hv | hv) | hv) | hv
    · exact (checkString_opt_bad cx _ _ s hv h).left.left.left
    · exact (checkString_opt_bad cx _ _ s hv h).right.left.left
    · exact (checkBool_bad cx _ _ s hv h).right.left
    · exact (checkStrings_opt_bad cx _ _ s hv h).right
  | repoDispatch types pos =>
    simp only [eventStrs] at hm
    simp only [visitEvent]
    exact checkStrings_opt_bad cx _ _ s hm h
  | call inputs secrets outputs pos =>
    simp only [eventStrs, List.mem_append] at hm
    simp only [visitEvent]
    rcases hm with (hm | hm) | hm
    · exact (callInputs_bad _ s h _ _ hm).left.left
    · refine Reported.left (Reported.right ?_)
      simp only [List.mem_flatMap, List.mem_append] at hm
      obtain ⟨kv, hk, hv⟩ := hm
      refine flatMap_reported _ _ kv hk s ?_
      simp only [callSecretDiags]
      rcases hv with hv | hv
      · exact (checkString_opt_bad _ _ _ s hv h).left
      · exact (checkBool_bad _ _ _ s hv h).right
    · refine Reported.right ?_
      simp only [List.mem_flatMap] at hm
      obtain ⟨kv, hk, hv⟩ := hm
      exact flatMap_reported _ _ kv hk s (checkString_opt_bad _ _ _ s hv h)

theorem visitEvents_bad (s : Str) (h : Malformed s.value) : ∀ (es : List Ast.Event) (cx : Cx),
    s ∈ es.flatMap eventStrs → Reported (visitEvents cx es).2 s
  | [], _, hm => by simp at hm
  | e :: rest, cx, hm => by
    simp only [List.flatMap_cons, List.mem_append] at hm
    simp only [visitEvents]
    rcases hm with hm | hm
    · exact (visitEvent_bad cx e s hm h).left
    · exact (visitEvents_bad s h rest _ hm).right

/-- the `value:` strings of the outputs of `workflow_call` (checked when the workflow has jobs) -/
def outValueStrs (w : Workflow) : List Str :=
  match findCallOutputs (w.on.getD []) with
  | some outs => if outs.isEmpty || (w.jobs.getD []).isEmpty then [] else outs.flatMap fun kv => kv.2.value.toList
  | none => []

/-- **every value string of the workflow** — written down field by field from ast.go, not from the rule:
the name, every event's strings, run-name, env, defaults, concurrency, every job's strings, the workflow_call output values
(exempt: event names, `permissions`, step ids, and what the parser does not keep as a string) -/
def valueStrs (w : Workflow) : List Str :=
  w.name.toList ++ (w.on.getD []).flatMap eventStrs ++
  (w.runName.toList ++ envStrs w.env ++ defaultsStrs w.defaults ++ concurrencyStrs w.concurrency) ++
  (w.jobs.getD []).flatMap (fun kv => jobStrs kv.2) ++ outValueStrs w

/-- **C03, rule half.** For every workflow AST, every value string whose text is a malformed placeholder gets a diagnostic
of the expression rule located at that string — in every section, at every nesting depth, whatever else the workflow
contains. -/
theorem every_placeholder_checked (lower : String → String) (isNum : IsNumber) (w : Workflow) (s : Str)
    (hm : s ∈ valueStrs w) (h : Malformed s.value) : Reported (rule lower isNum w) s := by
  simp only [valueStrs, List.mem_append] at hm
  simp only [rule]
  rcases hm with (((hm | hm) | hm) | hm) | hm
  · exact (checkString_opt_bad _ _ _ s hm h).left.left.left.left
  · exact (visitEvents_bad s h _ _ hm).right.left.left.left
  · refine Reported.left (Reported.left (Reported.right ?_))
    rcases hm with ((hm | hm) | hm) | hm
    · exact (checkString_opt_bad _ _ _ s hm h).left.left.left
    · exact (checkEnv_bad _ _ _ s hm h).right.left.left
    · exact (checkDefaults_bad _ _ _ s hm h).right.left
    · exact (checkConcurrency_bad _ _ _ s hm h).right
  · refine Reported.left (Reported.right ?_)
    obtain ⟨kv, hk, hv⟩ := List.mem_flatMap.1 hm
    exact flatMap_reported _ _ kv hk s (visitJob_bad _ isNum _ kv.2 s hv h)
  · refine Reported.right ?_
    simp only [outValueStrs] at hm
    cases hf : findCallOutputs (w.on.getD []) with
    | none => simp [hf] at hm
    | some outs =>
      simp only [hf] at hm
      simp only
      split at hm
      · cases hm
      · rename_i hc
        rw [if_neg hc]
        obtain ⟨kv, hk, hv⟩ := List.mem_flatMap.1 hm
        exact flatMap_reported _ _ kv hk s (checkString_opt_bad _ _ _ s hv h)

/-! ### the hypothesis is satisfiable: `${{` is malformed in every position -/

theorem checkOne_of_lex_error (cx : Cx) (key : String) (u : Bool) (rest : List Nat)
    (h : (match AL.Lex.lexExpression (decodeUtf8 rest) with | .ok _ => true | .error _ => false) = false) :
    checkOne cx key u rest = (none, [err "syntax-error" []]) := by
  unfold checkOne
  split
  · rename_i h1 _
    rw [h1] at h
    cases h
  · rfl

theorem lex_empty_fails :
    (match AL.Lex.lexExpression (decodeUtf8 []) with | .ok _ => true | .error _ => false) = false := by decide +kernel

theorem lex_dollar_fails :
    (match AL.Lex.lexExpression (decodeUtf8 [36, 123, 123, 125, 125]) with | .ok _ => true | .error _ => false) = false := by
  decide +kernel

/-- the unclosed placeholder `${{` -/
theorem malformed_open : Malformed "${{" := by
  have hb : bytesOf "${{" = [36, 123, 123] := by decide +kernel
  constructor
  · intro cx key u
    have hi : AL.Proc.indexOf AL.Proc.open3 [36, 123, 123] 0 = some 0 := by decide
    simp only [checkExprsIn, hb, List.length_cons, List.length_nil, Nat.zero_add, Nat.reduceAdd, scan, hi,
      List.drop_succ_cons, List.drop_zero, List.drop_nil, checkOne_of_lex_error cx key u [] lex_empty_fails]
    simp
  · intro cx key
    rw [hb]
    simp only [List.cons_append, List.nil_append, checkOne_of_lex_error cx key false _ lex_dollar_fails]
    simp

/-- the base example of the property: a workflow whose `run-name` is `${{` gets a diagnostic at that scalar -/
example (lower : String → String) (isNum : IsNumber) (w : Workflow) (p : RuleExpr.Pos) (hw : w.runName = some ⟨"${{", false, p⟩) :
    ∃ d ∈ rule lower isNum w, d.site = p := by
  have := every_placeholder_checked lower isNum w ⟨"${{", false, p⟩
    (by simp [valueStrs, hw]) malformed_open
  exact this

end AL.C03R
